#!/usr/bin/env python3
"""Regenerates MANIFEST.json from the per-property modules in tie/props (so the two never drift)."""
import json, os, re, sys, importlib
V = os.path.dirname(os.path.abspath(__file__))
sys.path.insert(0, os.path.join(V, 'tie'))
props = [json.loads(l) for l in open(os.path.join(V, 'properties.jsonl'))]
checks, na = [], []
NA_REASONS = json.load(open(os.path.join(V, 'not_applicable.json')))
for p in props:
    pid = p['id']
    path = os.path.join(V, 'tie', 'props', pid + '.py')
    if os.path.exists(path) and os.path.exists(os.path.join(V, 'coq', 'Props', 'Prop%s.v' % pid)):
        mod = importlib.import_module('props.' + pid)
        def grab(name, default=''):
            return getattr(mod, name, default)
        checks.append({
            'property_id': pid,
            'quick_cmd': './check %s --tier quick' % pid,
            'thorough_cmd': './check %s --tier thorough' % pid,
            'evidence_file': 'evidence/%s.json' % pid,
            'replay_cmd_template': './check %s --replay {path}' % pid,
            'engine': 'coq+tie',
            'level_claimed': {'category': 'proof', 'text': grab('LEVEL_TEXT'), 'design_ref': 'DESIGN.md sec. 7/' + pid},
            'level_note': grab('LEVEL_NOTE'),
            'technique': grab('TECHNIQUE', 'machine-checked proof in Coq 8.16.1 on a hand-written Gallina model + correspondence check against /repo'),
        })
    else:
        na.append({'property_id': pid, 'reason': NA_REASONS.get(pid, 'no check registered yet')})
m = {
    'version': 1,
    'setup_cmd': './setup.sh',
    'hooks': {'guard': 'DRXTRACT_VERIF', 'enable': 'no hooks are needed: the checks import /repo unmodified and observe it from outside',
              'baseline_off_cmd': 'cd /repo && /venv/bin/python -m pytest -ra -q -p no:cacheprovider --timeout=900 --continue-on-collection-errors',
              'source_commits': [], 'add_only': True},
    'engines': [
        {'name': 'coq', 'path': 'coq/', 'serves_properties': [c['property_id'] for c in checks],
         'kind_free_text': 'Coq 8.16.1 development: Py/ (Python primitives), Model/ (hand-written Gallina model of the code), Proofs/ (lemmas), Props/ (one file of theorem statements per property, Print Assumptions under each), Gen/ (tables regenerated from /repo on every run)'},
        {'name': 'tie', 'path': 'tie/', 'serves_properties': [c['property_id'] for c in checks],
         'kind_free_text': 'translator (tie/gen_tables.py) + correspondence harness: seeded structured generators, the model extracted to OCaml (runner/), the implementation in /venv/bin/python, a direct property oracle, shrinking, known-findings attribution'}],
    'checks': checks,
    'not_applicable': na,
    'notes': 'Single entry point ./check <id> [--tier quick|thorough] [--replay f]; see DESIGN.md. VERIF_SEED seeds the one PRNG.',
}
json.dump(m, open(os.path.join(V, 'MANIFEST.json'), 'w'), indent=1)
print('checks:', [c['property_id'] for c in checks], 'n/a:', [x['property_id'] for x in na])
