import sys
sys.argv=['x','0','1']
from cfenum import *
def direct_exit_in_loop(b, in_loop_direct=False):
    for it in b:
        if it[0]=='exit' and in_loop_direct: return True
        if it[0]=='if' and direct_exit_in_loop(it[2],False): return True
        if it[0]=='ife' and (direct_exit_in_loop(it[2],False) or direct_exit_in_loop(it[3],False)): return True
        if it[0]=='while' and direct_exit_in_loop(it[2],True): return True
        if it[0]=='with' and direct_exit_in_loop(it[4],True): return True
    return False
def exit_in_else(b):
    for it in b:
        if it[0]=='ife' and any(x[0]=='exit' for x in it[3]): return True
        for sub in ([it[2]] if it[0] in('if','while') else [it[4]] if it[0]=='with' else [it[2],it[3]] if it[0]=='ife' else []):
            if exit_in_else(sub): return True
    return False
def exit_not_last_in_then(b):
    for it in b:
        if it[0] in('if','ife') and any(x[0]=='exit' for x in it[2][:-1]): return True
        for sub in ([it[2]] if it[0] in('if','while') else [it[4]] if it[0]=='with' else [it[2],it[3]] if it[0]=='ife' else []):
            if exit_not_last_in_then(sub): return True
    return False
import collections
N=int(sys.argv[1]) if len(sys.argv)>1 else 2
def main(N,ML):
    tot=0; nf=0; mins=collections.Counter(); seen=set(); ex=0
    for b,u in bodies(N,False,ML):
        k=sk(b)
        if k in seen: continue
        seen.add(k)
        if direct_exit_in_loop(b) or exit_in_else(b) or exit_not_last_in_then(b): ex+=1; continue
        tot+=1
        if fails(b):
            nf+=1
            def f2(c): return valid(c,False) and not(direct_exit_in_loop(c) or exit_in_else(c) or exit_not_last_in_then(c)) and fails(c)
            # shrink within non-excluded class
            cur=b; ch=True
            while ch:
                ch=False
                for c in cands(cur):
                    if f2(c): cur=c; ch=True; break
            mins[sk(cur)]+=1
    print('N',N,'ML',ML,'excluded',ex,'total',tot,'failing',nf)
    for m,c in mins.most_common(30): print(c,m)
import os
if __name__=="__main__": main(int(os.environ.get("N","2")), int(os.environ.get("ML","3")))
