import sys, os
sys.argv=['x','0','1']
from cfenum import *
def has_exit(b):
    for it in b:
        if it[0]=='exit': return True
        for sub in ([it[2]] if it[0] in('if','while') else [it[4]] if it[0]=='with' else [it[2],it[3]] if it[0]=='ife' else []):
            if has_exit(sub): return True
    return False
def bodies_noexit(n, maxlen):
    def items(k):
        yield ('s',0),0
        if k>=1:
            for b,u in bodies_noexit(k-1,maxlen): yield ('if',1,b),u+1
            for b,u in bodies_noexit(k-1,maxlen): yield ('while',5,b),u+1
            for b,u in bodies_noexit(k-1,maxlen): yield ('with',0,1,9,b),u+1
            for b1,u1 in bodies_noexit(k-1,maxlen):
                for b2,u2 in bodies_noexit(k-1-u1,maxlen): yield ('ife',1,b1,b2),u1+u2+1
    def seqs(k, length):
        if length==0: yield [],0; return
        for it,u in items(k):
            for rest,u2 in seqs(k-u,length-1):
                yield [it]+rest,u+u2
    for L in range(1,maxlen+1):
        yield from seqs(n,L)
N=int(os.environ.get('N','3')); ML=int(os.environ.get('ML','2'))
tot=0; bad=[]
seen=set()
for b,u in bodies_noexit(N,ML):
    k=sk(b)
    if k in seen: continue
    seen.add(k); tot+=1
    if fails(b): bad.append(k)
print('N',N,'ML',ML,'total',tot,'failing',len(bad)); print(bad[:20])
