import sys, struct, logging, itertools, random
sys.path.insert(0,'/repo'); logging.disable(logging.CRITICAL)
from drxtract.bitd import bitd2bmp
from drxtract.bitd.bitd2bmp import DECODERS
import io
def reset():
    for d in DECODERS.values(): d.bytesIo=io.BytesIO()
def bmp_read(b):
    off=struct.unpack('<i',b[10:14])[0]; w,h=struct.unpack('<ii',b[18:26]); bpp=struct.unpack('<h',b[28:30])[0]
    stride=((w*bpp+31)//32)*4
    rows=[]
    for y in range(h):
        r=h-1-y; row=[]
        for x in range(w):
            p=off+r*stride+x*bpp//8
            if p+bpp//8>len(b): row.append(None)
            else: row.append(int.from_bytes(b[p:p+bpp//8],'little'))
        rows.append(row)
    return rows
def pb_literal(row):  # one literal run per <=128
    out=b''
    for i in range(0,len(row),128):
        ch=row[i:i+128]; out+=bytes([len(ch)-1])+bytes(ch)
    return out
def pb_bytewise(row): return b''.join(bytes([0,b]) for b in row)
def pb_runs(row):
    out=b''; i=0
    while i<len(row):
        j=i
        while j<len(row) and row[j]==row[i] and j-i<129: j+=1
        if j-i>=2: out+=bytes([257-(j-i),row[i]])
        else: out+=bytes([0,row[i]])
        i=j
    return out
def test8(cw,chh,pw,ph,padval,enc,rnd):
    iw=cw-pw; ih=chh-ph
    img=[[rnd.randrange(1,4) for _ in range(iw)] for _ in range(ih)]
    rows=[r+([padval] if iw%2 else []) for r in img]
    data=b''.join(enc(r) for r in rows)
    raw=sum(len(r) for r in rows)
    if len(data)==raw: return 'skip'
    cd=dict(height=chh,width=cw,depth=8,w_padding=pw,h_padding=ph,palette_txt='systemMac')
    reset()
    try: b=bitd2bmp(cd,b'',data)
    except Exception as e: return 'EXC '+type(e).__name__
    px=bmp_read(b)
    for y in range(chh):
        for x in range(cw):
            exp=img[y-ph][x-pw] if (x>=pw and y>=ph) else 0
            if px[y][x]!=exp: return 'BAD at (%d,%d) got %s exp %s'%(x,y,px[y][x],exp)
    return 'ok'
rnd=random.Random(1)
from collections import Counter
res=Counter(); bad=[]
for cw in range(1,14):
  for pw in range(0,min(cw,6)):
    for chh,ph in ((1,0),(2,0),(3,1)):
      for padval in (0,3):
        for en,enc in (('lit',pb_literal),('byte',pb_bytewise),('runs',pb_runs)):
            r=test8(cw,chh,pw,ph,padval,enc,rnd)
            res[r.split(' at')[0]]+=1
            if r not in('ok','skip'): bad.append((cw,pw,chh,ph,padval,en,r))
print(res); 
for b in bad[:25]: print(b)
print(len(bad))
