from asm import *
import itertools, sys
names=['h','put','i','j','k','count','getAt','x']
# source AST: ('s',n) simple put n ; ('if',c,A) ; ('ife',c,A,B); ('while',c,A); ('with',v,a,b,A) ; ('down',v,a,b,A); ('exit',)
def put(n): return i8(n)+call_ext(1,1)
def cond(n): return loc(2)+i8(n)+b'\x0c'     # k < n
def comp_list(sts, loop_end_fix):
    # returns code with placeholders for exit repeat: we do it via two-pass: compile returns (bytes, list of (pos) of exit jumps needing patch)
    out=b''; exits=[]
    for st in sts:
        c,ex=comp(st)
        exits+= [p+len(out) for p in ex]
        out+=c
    return out,exits
def comp(st):
    k=st[0]
    if k=='s': return put(st[1]),[]
    if k=='exit': return jmp(0),[0]
    if k=='if':
        c=cond(st[1]); A,ex=comp_list(st[2],None)
        code=c+jz(3+len(A))+A
        return code,[p+len(c)+3 for p in ex]
    if k=='ife':
        c=cond(st[1]); A,exa=comp_list(st[2],None); B,exb=comp_list(st[3],None)
        code=c+jz(3+len(A)+3)+A+jmp(3+len(B))+B
        return code,[p+len(c)+3 for p in exa]+[p+len(c)+3+len(A)+3 for p in exb]
    if k=='while':
        c=cond(st[1]); A,ex=comp_list(st[2],None)
        code=c+jz(3+len(A)+2)+A
        code+=back(len(code))
        # patch exits: jump at position p (relative to A start) -> end = len(code)
        base=len(c)+3
        code=bytearray(code)
        for p in ex:
            q=base+p; off=len(code)-q
            code[q+1]=off>>8; code[q+2]=off&0xff
        return bytes(code),[]
    if k in('with','down'):
        v=st[1]; init=i8(st[2])+setloc(v)
        c=loc(v)+i8(st[3])+(b'\x0d' if k=='with' else b'\x11')
        A,ex=comp_list(st[4],None)
        inc=i8(1 if k=='with' else -1)+loc(v)+b'\x05'+setloc(v)
        code=c+jz(3+len(A)+len(inc)+2)+A+inc
        code+=back(len(code))
        base=len(c)+3
        code=bytearray(code)
        for p in ex:
            q=base+p; off=len(code)-q
            code[q+1]=off>>8; code[q+2]=off&0xff
        return init+bytes(code),[]
    raise Exception(k)
V=['i','j','k']
def pp(sts, ind=1):
    s=''
    for st in sts:
        k=st[0]; I='    '*ind
        if k=='s': s+=I+'put %d\n'%st[1]
        elif k=='exit': s+=I+'exit repeat\n'
        elif k=='if': s+=I+'if (k < %d) then\n'%st[1]+pp(st[2],ind+1)+I+'end if\n'
        elif k=='ife': s+=I+'if (k < %d) then\n'%st[1]+pp(st[2],ind+1)+I+'else\n'+pp(st[3],ind+1)+I+'end if\n'
        elif k=='while': s+=I+'repeat while k < %d\n'%st[1]+pp(st[2],ind+1)+I+'end repeat\n'
        elif k=='with': s+=I+'repeat with %s = %d to %d\n'%(V[st[1]],st[2],st[3])+pp(st[4],ind+1)+I+'end repeat\n'
        elif k=='down': s+=I+'repeat with %s = %d down to %d\n'%(V[st[1]],st[2],st[3])+pp(st[4],ind+1)+I+'end repeat\n'
    return s
def run(prog):
    code,ex=comp_list(prog,None)
    assert not ex
    d=lscr([(0,code+EXIT,[],[2,3,4])], names)
    try:
        s=parse_lrcr_file_data(d, names)
        got=generate_lingo_code(s)
    except Exception as e:
        got='EXC %s %s'%(type(e).__name__,e)
    exp='on h\n'+pp(prog)+'end\n'
    return exp,got
if __name__=='__main__':
    cnt=[0]
    def S(): cnt[0]+=1; return ('s',cnt[0]%100)
    tests={
     'if in while': [S(),('while',5,[S(),('if',2,[S()]),S()]),S()],
     'while in while': [('while',5,[S(),('while',6,[S()]),S()])],
     'while in while first': [('while',5,[('while',6,[S()])])],
     'if-exit in inner while': [('while',5,[('while',6,[('if',1,[('exit',)]),S()]),S()])],
     'if-exit then if in while': [('while',5,[('if',1,[('exit',)]),('if',2,[S()]),S()])],
     'if-exit as first in while': [('while',5,[('if',1,[('exit',)]),S()])],
     'if S exit in while': [('while',5,[S(),('if',1,[S(),('exit',)]),S()])],
     'ife with exit in else': [('while',5,[S(),('ife',1,[S()],[S(),('exit',)]),S()])],
     'with in with': [('with',0,1,10,[('with',1,1,5,[S()])])],
     'while in if': [('if',3,[('while',5,[S()])]),S()],
     'while in else': [('ife',3,[S()],[('while',5,[S()])]),S()],
     'if in if in while': [('while',5,[('if',1,[('if',2,[S()])])])],
     'if last in while': [('while',5,[S(),('if',1,[S()])])],
     'ife last in while': [('while',5,[S(),('ife',1,[S()],[S()])])],
     'if as sole fn body': [('if',1,[S()])],
     'ife empty-ish': [('ife',1,[S()],[S()])],
     'if then if': [('if',1,[S()]),('if',2,[S()])],
     'ife then ife': [('ife',1,[S()],[S()]),('ife',2,[S()],[S()])],
     'nested ife in else': [('ife',1,[S()],[('ife',2,[S()],[S()])])],
     'nested ife in then': [('ife',1,[('ife',2,[S()],[S()])],[S()])],
    }
    for n,p in tests.items():
        e,g=run(p)
        print('=====',n,'OK' if e==g else 'MISMATCH')
        if e!=g: print(e); print('--- got'); print(g)
