import sys, struct, logging
sys.path.insert(0,'/repo')
logging.disable(logging.CRITICAL)
from drxtract.lingosrc.parse.lscr import parse_lrcr_file_header
from drxtract.lingosrc.parse.lnam import parse_lnam_file_data
from drxtract.lingosrc.opcodes import OPCODES, BI_OPCODES
from drxtract.lingosrc.opcodes.opcode import BiOpcode
def dis(lscr, lnam):
    d=open(lscr,'rb').read(); names=parse_lnam_file_data(open(lnam,'rb').read())
    h=parse_lrcr_file_header(d)
    print('names',names)
    print('hdr', {k:v for k,v in vars(h).items()})
    idx=h.frb_offset
    for i in range(h.frb_nrecords):
        rec=struct.unpack('>hhiihihihiihhi', d[idx:idx+42]); idx+=42
        ni,_,bl,bo,na,ao,nl,lo=rec[:8]
        print('--- fn',ni, names[ni] if 0<=ni<len(names) else None,'len',bl,'off',bo,'nargs',na,ao,'nloc',nl,lo, 'rest',rec[8:])
        print('   args',[struct.unpack('>h',d[ao+2*k:ao+2*k+2])[0] for k in range(na)],'locals',[struct.unpack('>h',d[lo+2*k:lo+2*k+2])[0] for k in range(nl)])
        p=bo
        while p-bo<bl:
            op=d[p]; o=OPCODES.get(op); start=p; p+=1
            if o is None: print(start,'%02x ???'%op); continue
            args=[]
            for _ in range(o.nbytes-1): args.append(d[p]); p+=1
            nm=type(o).__name__
            if isinstance(o,BiOpcode): nm=type(BI_OPCODES.get(op*256+args[0],o)).__name__+'*'
            print('  %5d(+%3d) %02x %-30s %s'%(start,start-bo,op,nm,args))
    print('crb', h.crb_offset, h.crb_nconstants, d[h.crb_offset:h.crb_offset+8*h.crb_nconstants].hex())
if __name__=='__main__':
    dis(sys.argv[1],sys.argv[2])
