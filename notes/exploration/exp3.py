from asm import *
import time
names=['h','put']
for n in (2000,4000,8000):
    code=b'\x01'*n + (b'\x54\x00')*(n//2)
    d=lscr([(0,code,[],[])],names)
    t=time.time()
    try: s=parse_lrcr_file_data(d,names); r='ok %d stmts'%len(s.functions[0].statements)
    except Exception as e: r='EXC %s'%type(e).__name__
    print(n, len(code), r, '%.2fs'%(time.time()-t))
