import sys, logging, os, struct
sys.path.insert(0,'/repo'); logging.disable(logging.CRITICAL)
from drxtract.lingosrc.parse import parse_lnam_file, parse_lrcr_file
from drxtract.lingosrc.codegen import generate_lingo_code, generate_js_code
os.chdir('/repo/tests/files/lingo')
import glob
def fresh(lscr,lnam): return parse_lrcr_file(lscr, parse_lnam_file(lnam))
pairs=[]
import re
src=open('/repo/tests/test_lscr2lingo.py').read()
for m in re.finditer(r"\['(\w+\.Lnam)', '(\w+\.Lscr)'", src): pairs.append((m.group(2),m.group(1)))
bad={}
for lscr,lnam in pairs:
    L0=generate_lingo_code(fresh(lscr,lnam)); J0=generate_js_code(fresh(lscr,lnam))
    t=fresh(lscr,lnam); L1=generate_lingo_code(t); L2=generate_lingo_code(t); J1=generate_js_code(t)
    u=fresh(lscr,lnam); J2=generate_js_code(u); J3=generate_js_code(u); L3=generate_lingo_code(u)
    r=[]
    if L2!=L0: r.append('LL')
    if J1!=J0: r.append('L..J')
    if J3!=J0: r.append('JJ')
    if L3!=L0: r.append('J..L')
    if r: bad[lscr]=r
print(bad)
# show one diff
t=fresh('sound_fn.Lscr','sound_fn.Lnam'); print(generate_lingo_code(t)); print(generate_lingo_code(t))
