import ast, sys, json
def const_int(n, env):
    if isinstance(n, ast.Constant) and isinstance(n.value,int): return n.value
    if isinstance(n, ast.Name) and n.id in env: return env[n.id]
    if isinstance(n, ast.BinOp) and isinstance(n.op,(ast.Add,ast.Sub,ast.Mult)):
        a=const_int(n.left,env); b=const_int(n.right,env)
        if a is None or b is None: return None
        return a+b if isinstance(n.op,ast.Add) else a-b if isinstance(n.op,ast.Sub) else a*b
    return None
def find_reads(expr, env, idxvars):
    """return list of (fmt, offset) reads of form struct.unpack(F, D[a:b])[0] or D[idx] inside expr"""
    out=[]
    for n in ast.walk(expr):
        if isinstance(n, ast.Subscript) and isinstance(n.value, ast.Call) and getattr(n.value.func,'attr',None)=='unpack':
            call=n.value
            fmt=call.args[0]
            f=None
            if isinstance(fmt,ast.Constant): f=fmt.value
            elif isinstance(fmt,ast.BinOp) and isinstance(fmt.right,ast.Constant): f='BO'+fmt.right.value
            sl=call.args[1]
            if isinstance(sl,ast.Subscript) and isinstance(sl.slice,ast.Slice):
                a=const_int(sl.slice.lower,env); b=const_int(sl.slice.upper,env)
                out.append((f,a,b, ast.unparse(sl.value)))
        elif isinstance(n, ast.Subscript) and isinstance(n.value,ast.Name) and not isinstance(n.slice,ast.Slice):
            a=const_int(n.slice,env)
            if a is not None and n.value.id in ('frameData','header_data','fdata','basic_data','channelData'):
                out.append(('B',a,a+1,n.value.id))
    return out
def analyse(fn, idxnames=('idx','indx')):
    env={}; fields=[]; unknown=[]
    for st in fn.body:
        if isinstance(st,ast.Expr) and isinstance(st.value,ast.Constant): continue  # docstring
        if isinstance(st,ast.Expr) and isinstance(st.value,ast.Call) and ast.unparse(st.value.func).startswith('logging.'): continue
        if isinstance(st,ast.If) and ('DEBUG' in ast.unparse(st.test)):
            continue
        if isinstance(st,ast.Assign) and len(st.targets)==1 and isinstance(st.targets[0],ast.Name):
            t=st.targets[0].id
            if t in idxnames:
                v=const_int(st.value,env)
                if v is None: unknown.append(ast.unparse(st)); env.pop(t,None)
                else: env[t]=v
                continue
            r=find_reads(st.value,env,idxnames)
            if r: fields.append((t,r,ast.unparse(st.value))); continue
        if isinstance(st,ast.AnnAssign) and isinstance(st.target,ast.Name) and st.value is not None:
            r=find_reads(st.value,env,idxnames)
            if r: fields.append((st.target.id,r,ast.unparse(st.value))); continue
        if isinstance(st,ast.AugAssign) and isinstance(st.target,ast.Name) and st.target.id in idxnames:
            v=const_int(st.value,env)
            if v is not None and st.target.id in env and isinstance(st.op,ast.Add): env[st.target.id]+=v; continue
        unknown.append(ast.unparse(st)[:70].replace('\n',' | '))
    return fields, unknown
for path in sys.argv[1:]:
    tree=ast.parse(open(path).read())
    for n in ast.walk(tree):
        if isinstance(n,ast.FunctionDef) and n.name not in('__init__',):
            f,u=analyse(n)
            if not f: continue
            print('==',path.split('/')[-1],n.name,'fields',len(f),'other stmts',len(u))
            print('   ',[(t,r[0][0],r[0][1]) for t,r,_ in f][:40])
            nonconst=[t for t,r,_ in f if any(x[1] is None for x in r)]
            if nonconst: print('    NON-CONST OFFSETS:',nonconst)
