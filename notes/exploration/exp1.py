import sys, struct, logging, signal, io
sys.path.insert(0,'/repo')
logging.disable(logging.CRITICAL)
# (a) vwsc record size 0
from drxtract.vwsc.vwsc import parse_vwsc_data
def vw(records, fs=20, cc=3):
    body=b''.join(records)
    hdr=struct.pack('>iiihhhh', 20+len(body), 0x14, len(records), 0, fs, cc, 0)
    return hdr+body
def alarm(*a): raise TimeoutError()
signal.signal(signal.SIGALRM, alarm)
for name,recs in [('size0',[struct.pack('>h',0)]),('first-same',[struct.pack('>h',2)]),('neg',[struct.pack('>h',-2)]), ('ok',[struct.pack('>hhh',2+4+1,1,5)+b'\x07', struct.pack('>h',2)])]:
    signal.alarm(2)
    try:
        r=parse_vwsc_data(vw(recs)); print('vwsc',name,'->',len(r),'frames')
    except BaseException as e: print('vwsc',name,'EXC',type(e).__name__,e)
    signal.alarm(0)
# (b) decoder stale buffer
from drxtract.bitd import bitd2bmp
cd=dict(height=2,width=4,depth=8,w_padding=0,h_padding=0,palette_txt='systemMac')
good=bitd2bmp(cd,b'',bytes(range(8)))
try: bitd2bmp(cd,b'\x01\x02\x03',bytes(range(8)))
except Exception as e: print('bad palette EXC',type(e).__name__)
again=bitd2bmp(cd,b'',bytes(range(8)))
print('bitd same after failure?', good==again, len(good), len(again))
# (c) snd 44100
from drxtract.snd import snd_to_sampled
def snd(rate):
    hdr=struct.pack('>iIHHiiBB',0,4,rate,0,0,0,0,60)+b'\x01\x02\x03\x04'
    return struct.pack('>hh',2,0)+struct.pack('>h',1)+struct.pack('>HhI',0x8051,0,14)+hdr
for r in (22050,32767,32768,44100):
    s=snd_to_sampled(snd(r)); print('snd',r,'->',s.sample_rate,s.samples)
