from asm import *
names=['h','put','i','j','x']
# put statement: push args; arglist n ; call put
def put(e): return e+call_ext(1,1)
S1=put(i8(1)); S2=put(i8(2)); S3=put(i8(3))
print('--- unary minus of negative const');  show(put(i8(-5)+b'\x09')+EXIT, names)
print('--- sprite (i+1) locH');  show(put(loc(0)+i8(1)+b'\x05'+i8(13)+b'\x5c\x06')+EXIT, names, locs=[2])
# repeat while c: body
def rwhile(c, body):
    # c ; jz over body+back ; body ; back to start of c
    inner=body
    total=len(c)+3+len(inner)
    return c+jz(3+len(inner)+2)+inner+back(total)
c=loc(0)+i8(3)+b'\x0c'   # i < 3
print('--- simple while'); show(S1+rwhile(c,S2)+S3+EXIT, names, locs=[2])
# exit repeat directly in loop body: body = S2 ; jmp to end
def rwhile_x(c, mk):  # mk(end_dist_fn) builds body given function computing jmp offset; do two-pass
    body=mk(0)
    L=len(body)
    # body position within: starts at len(c)+3 ; loop end = len(c)+3+L+2
    body=mk(L)
    return c+jz(3+L+2)+body+back(len(c)+3+L)
print('--- exit repeat as direct child (last)');
def mk(L):
    # body: S2 ; exit repeat(jmp to end)  ; jmp at offset len(S2) in body ; end at L+2
    b=S2
    return b+jmp(L+2-len(b)) if L else b+jmp(0)
show(S1+rwhile_x(c,mk)+S3+EXIT, names, locs=[2])
print('--- exit repeat as direct child (first)');
def mk2(L):
    return jmp(L+2)+S2 if L else jmp(0)+S2
show(S1+rwhile_x(c,mk2)+S3+EXIT, names, locs=[2])
