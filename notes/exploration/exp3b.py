from asm import *
names=['h','put','i']
def put(e): return e+call_ext(1,1)
def rwhile(c, body):
    return c+jz(3+len(body)+2)+body+back(len(c)+3+len(body))
init=i8(1)+setloc(0)
for cmp_,name in ((b'\x0c','<'),(b'\x0d','<='),(b'\x0e','<>')):
  for step in (1,2):
    c=loc(0)+i8(10)+cmp_
    body=put(loc(0))+i8(step)+loc(0)+b'\x05'+setloc(0)
    print('--- source: set i = 1 / repeat while i %s 10 / put i / set i = %d + i'%(name,step))
    show(init+rwhile(c,body)+EXIT, names, locs=[2])
