import sys, os, collections
sys.argv=['x','0','1']
from cfenum import *
from cfenum2 import direct_exit_in_loop, exit_in_else, exit_not_last_in_then
seen=set(); ok=collections.Counter(); ex=[]
for b,u in bodies(2,False,3):
    k=sk(b)
    if k in seen: continue
    seen.add(k)
    pats=(direct_exit_in_loop(b), exit_in_else(b), exit_not_last_in_then(b))
    if any(pats) and not fails(b):
        ok[pats]+=1
        if len(ex)<25: ex.append(k)
print(ok); print('\n'.join(ex))
