from cf import *
import itertools, sys, collections
# enumerate bodies: sequences of items; item kinds: S, X(exit, only in loop), if, ife, while, with
def bodies(n, inloop, maxlen):
    """yield (body, constructs_used) for bodies using exactly k<=n constructs, len 1..maxlen"""
    def items(k, inloop):
        # yields (item, used)
        yield ('s',0),0
        if inloop: yield ('exit',),0
        if k>=1:
            for b,u in bodies(k-1,inloop,maxlen): yield ('if',1,b),u+1
            for b,u in bodies(k-1,True,maxlen): yield ('while',5,b),u+1
            for b,u in bodies(k-1,True,maxlen): yield ('with',0,1,9,b),u+1
            for b1,u1 in bodies(k-1,inloop,maxlen):
                for b2,u2 in bodies(k-1-u1,inloop,maxlen): yield ('ife',1,b1,b2),u1+u2+1
    def seqs(k, length):
        if length==0: yield [],0; return
        for it,u in items(k,inloop):
            for rest,u2 in seqs(k-u,length-1):
                yield [it]+rest,u+u2
    for L in range(1,maxlen+1):
        yield from seqs(n,L)
def renum(b,c=[0]):
    out=[]
    for it in b:
        if it[0]=='s': c[0]+=1; out.append(('s',c[0]%100))
        elif it[0]=='exit': out.append(it)
        elif it[0]=='if': out.append(('if',1,renum(it[2],c)))
        elif it[0]=='ife': out.append(('ife',1,renum(it[2],c),renum(it[3],c)))
        elif it[0]=='while': out.append(('while',5,renum(it[2],c)))
        elif it[0]=='with': out.append(('with',0,1,9,renum(it[4],c)))
    return out
def sk(b):
    return '['+' '.join({'s':'S','exit':'X'}.get(it[0]) or (it[0]+sk(it[2]) if it[0] in('if','while') else ('with'+sk(it[4]) if it[0]=='with' else 'ife'+sk(it[2])+sk(it[3]))) for it in b)+']'
def fails(b):
    e,g=run(renum(b,[0])); return e!=g
def shrink(b):
    # try removing items / unwrapping constructs while still failing
    changed=True
    while changed:
        changed=False
        for cand in cands(b):
            if valid(cand,False) and fails(cand): b=cand; changed=True; break
    return b
def valid(b,inloop):
    if not b: return False
    for it in b:
        if it[0]=='exit' and not inloop: return False
        if it[0]=='if' and not valid(it[2],inloop): return False
        if it[0]=='ife' and not (valid(it[2],inloop) and valid(it[3],inloop)): return False
        if it[0]=='while' and not valid(it[2],True): return False
        if it[0]=='with' and not valid(it[4],True): return False
    return True
def cands(b):
    for i in range(len(b)):
        yield b[:i]+b[i+1:]
        it=b[i]
        if it[0] in('if','while'):
            yield b[:i]+it[2]+b[i+1:]
            for c in cands(it[2]): yield b[:i]+[(it[0],it[1],c)]+b[i+1:]
        if it[0]=='with':
            yield b[:i]+it[4]+b[i+1:]
            for c in cands(it[4]): yield b[:i]+[('with',0,1,9,c)]+b[i+1:]
        if it[0]=='ife':
            yield b[:i]+[('if',1,it[2])]+b[i+1:]
            yield b[:i]+[('if',1,it[3])]+b[i+1:]
            for c in cands(it[2]): yield b[:i]+[('ife',1,c,it[3])]+b[i+1:]
            for c in cands(it[3]): yield b[:i]+[('ife',1,it[2],c)]+b[i+1:]
N=int(sys.argv[1]); ML=int(sys.argv[2])
tot=0; nf=0; mins=collections.Counter()
seen=set()
for b,u in bodies(N,False,ML):
    k=sk(b)
    if k in seen: continue
    seen.add(k); tot+=1
    if fails(b):
        nf+=1
        m=sk(shrink(b)); mins[m]+=1
print('total',tot,'failing',nf)
for m,c in mins.most_common(): print(c,m)
