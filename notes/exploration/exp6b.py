from exp6 import *
def segs(row):  # all segmentations into literal runs (compositions) for short rows
    n=len(row)
    for mask in range(1<<(n-1)):
        out=b''; start=0
        for i in range(1,n+1):
            if i==n or (mask>>(i-1))&1:
                ch=row[start:i]; out+=bytes([len(ch)-1])+bytes(ch); start=i
        yield out
def test1(cw,chh,pw,ph,padbits,rnd,allseg=False):
    iw=cw-pw; ih=chh-ph
    img=[[rnd.randrange(0,2) for _ in range(iw)] for _ in range(ih)]
    wsize=(iw+7)//8; wsize+=wsize%2
    def pack(r):
        bits=r+[padbits]*(wsize*8-len(r))
        return [int(''.join(map(str,bits[i:i+8])),2) for i in range(0,len(bits),8)]
    rows=[pack(r) for r in img]
    results=set()
    encs=[ [pb_literal(r) for r in rows], [pb_bytewise(r) for r in rows], [pb_runs(r) for r in rows]]
    if allseg and ih==1: encs=[[e] for e in segs(rows[0])]
    for e in encs:
        data=b''.join(e)
        if len(data)==wsize*ih: results.add('skip'); continue
        cd=dict(height=chh,width=cw,depth=1,w_padding=pw,h_padding=ph)
        reset()
        try: b=bitd2bmp(cd,b'',data)
        except Exception as ex: results.add('EXC '+type(ex).__name__); continue
        px=bmp_read(b); ok=True
        for y in range(chh):
            for x in range(cw):
                exp=img[y-ph][x-pw] if (x>=pw and y>=ph) else 0
                if px[y][x]!=exp: ok=False
        results.add('ok' if ok else 'BAD')
    return results
rnd=random.Random(2)
bad=[]; tot=0
for cw in range(1,41):
  for pw in range(0,min(cw,18)):
    for chh,ph in ((1,0),(2,0),(3,1)):
      for padbits in (0,1):
        r=test1(cw,chh,pw,ph,padbits,rnd,allseg=(cw-pw<=40))
        tot+=1
        if 'BAD' in r or any(x.startswith('EXC') for x in r): bad.append((cw,pw,chh,ph,padbits,sorted(r)))
print(tot,len(bad))
import collections
print(collections.Counter((b[4], b[2]) for b in bad))
for b in bad[:30]: print(b)
# which (cw,pw) fail with padbits=0?
s=sorted(set((b[0],b[1]) for b in bad if b[4]==0)); print(len(s), s[:80])
