From Coq Require Import List ZArith Lia Bool.
Import ListNotations.
Open Scope Z_scope.

(* bytes as Z in [0,256) for the prototype *)
Inductive binop := Add | Sub | Mul.
Definition bcode (o:binop) : Z := match o with Mul => 4 | Add => 5 | Sub => 6 end.
Definition bdecode (z:Z) : option binop := if z =? 4 then Some Mul else if z =? 5 then Some Add else if z =? 6 then Some Sub else None.

Inductive expr := EInt (v:Z) | ELoc (i:Z) | EBin (o:binop) (l r:expr) | ENeg (e:expr).
(* decompiler AST node, with position = address of the opcode that built it *)
Inductive node := NConst (v:Z) (pos:Z) | NLoc (i:Z) (pos:Z) | NBin (o:binop) (pos:Z) (l r:node) | NNeg (pos:Z) (e:node).

Fixpoint compile (e:expr) : list Z :=
  match e with
  | EInt v => [65; v mod 256]               (* 0x41 pushint8 *)
  | ELoc i => [76; i*6]                     (* 0x4c push local, scaled *)
  | EBin o l r => compile l ++ compile r ++ [bcode o]
  | ENeg e => compile e ++ [9]
  end.

Definition sext8 v := if v >? 127 then v - 256 else v.

(* expected AST with addresses: reify pc e = node built when code of e starts at pc *)
Fixpoint reify (pc:Z) (e:expr) : node :=
  match e with
  | EInt v => NConst (sext8 (v mod 256)) pc
  | ELoc i => NLoc i pc
  | EBin o l r => let pl := pc in let pr := pc + Z.of_nat (length (compile l)) in
                  NBin o (pr + Z.of_nat (length (compile r))) (reify pl l) (reify pr r)
  | ENeg e => NNeg (pc + Z.of_nat (length (compile e))) (reify pc e)
  end.

(* model of parse_opcodes: fuel, pc, remaining code, stack *)
Fixpoint run (fuel:nat) (pc:Z) (code:list Z) (st:list node) : option (list node) :=
  match fuel with O => None | S f =>
  match code with
  | [] => Some st
  | op :: rest =>
    if op =? 65 then match rest with a :: rest' => run f (pc+2) rest' (NConst (sext8 a) pc :: st) | _ => None end
    else if op =? 76 then match rest with a :: rest' => run f (pc+2) rest' (NLoc (Z.quot a 6) pc :: st) | _ => None end
    else if op =? 9 then match st with x :: st' => run f (pc+1) rest (NNeg pc x :: st') | _ => None end
    else match bdecode op with
         | Some o => match st with r :: l :: st' => run f (pc+1) rest (NBin o pc l r :: st') | _ => None end
         | None => None end
  end end.

Lemma bdecode_bcode o : bdecode (bcode o) = Some o. Proof. destruct o; reflexivity. Qed.
Lemma bcode_not o : (bcode o =? 65) = false /\ (bcode o =? 76) = false /\ (bcode o =? 9) = false.
Proof. destruct o; auto. Qed.

Definition wf_loc i := 0 <= i /\ i*6 < 256.
Fixpoint wf (e:expr) : Prop := match e with EInt _ => True | ELoc i => wf_loc i | EBin _ l r => wf l /\ wf r | ENeg e => wf e end.

Fixpoint ninstr (e:expr) : nat := match e with EInt _ | ELoc _ => 1 | EBin _ l r => ninstr l + ninstr r + 1 | ENeg e => ninstr e + 1 end%nat.

Lemma run_compile e : wf e -> forall k pc rest st,
  run (ninstr e + k) pc (compile e ++ rest) st =
  run k (pc + Z.of_nat (length (compile e))) rest (reify pc e :: st).
Proof.
  induction e as [v|i|o l IHl r IHr|e IHe]; intros Hwf k pc rest st.
  - cbn [ninstr compile app length reify Nat.add run]. rewrite Z.eqb_refl. reflexivity.
  - cbn [ninstr compile app length reify Nat.add run]. change (76 =? 65) with false. rewrite Z.eqb_refl. cbn iota.
    destruct Hwf as [H0 H1]. rewrite Z.quot_mul by lia. reflexivity.
  - destruct Hwf as [Hl Hr]. cbn [ninstr compile reify]. rewrite !app_length. rewrite <- !app_assoc.
    replace (ninstr l + ninstr r + 1 + k)%nat with (ninstr l + (ninstr r + S k))%nat by lia.
    rewrite IHl by auto. rewrite IHr by auto. cbn [app run length].
    destruct (bcode_not o) as (A & B & C). rewrite A, B, C, bdecode_bcode.
    f_equal; try lia; repeat (f_equal; try lia).
  - cbn [ninstr compile reify wf] in *. rewrite !app_length. rewrite <- app_assoc.
    replace (ninstr e + 1 + k)%nat with (ninstr e + S k)%nat by lia.
    rewrite IHe by auto. cbn [app run length]. change (9 =? 65) with false. change (9 =? 76) with false. rewrite Z.eqb_refl.
    f_equal; lia.
Qed.

Theorem decompile_compile e : wf e -> run (ninstr e + 1) 0 (compile e) [] = Some [reify 0 e].
Proof.
  intros H. rewrite <- (app_nil_r (compile e)) at 1. rewrite run_compile by auto. reflexivity.
Qed.
Print Assumptions decompile_compile.
