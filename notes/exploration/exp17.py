import sys, logging, struct
sys.path.insert(0,'/repo'); logging.disable(logging.CRITICAL)
sys.path.insert(0,'/tmp/scratch')
from drxtract.vwlb.vwlb import parse_vwlb_data
def vwlb(ms):
    pool=b''; ent=b''
    for f,n in ms:
        ent+=struct.pack('>hh',f,len(pool)); pool+=n
    ent+=struct.pack('>hh',0,len(pool))
    return struct.pack('>h',len(ms))+ent+pool
print(parse_vwlb_data(vwlb([(1,b'intro'),(7,b'end')])))
try: print(parse_vwlb_data(vwlb([(1,b'caf\x8e')])))
except Exception as e: print('EXC',type(e).__name__,e)
# C06 16-bit odd width
from exp6 import bmp_read, reset, pb_literal
from drxtract.bitd import bitd2bmp
import random
rnd=random.Random(3)
for depth,cw,chh in ((16,3,2),(16,4,2),(32,3,2),(32,4,2),(32,5,2)):
    img=[[rnd.randrange(1,1<<(15 if depth==16 else 24)) for _ in range(cw)] for _ in range(chh)]
    data=b''
    for r in img:
        if depth==16: planes=[[p>>8 for p in r],[p&0xff for p in r]]
        else: planes=[[0]*cw,[(p>>16)&0xff for p in r],[(p>>8)&0xff for p in r],[p&0xff for p in r]]
        for pl in planes: data+=pb_literal(pl)
    cd=dict(height=chh,width=cw,depth=depth,w_padding=0,h_padding=0)
    reset()
    try:
        b=bitd2bmp(cd,b'',data); px=bmp_read(b)
        print(depth,cw,chh,'match' if px==img else ('MISMATCH',px,img))
    except Exception as e: print(depth,cw,chh,'EXC',type(e).__name__,e)
