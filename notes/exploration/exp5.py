import sys, struct, logging
sys.path.insert(0,'/repo'); logging.disable(logging.CRITICAL)
from drxtract.dir import parse_dir_file_data
def cc(s,bo): return s[::-1] if bo=='<' else s
def movie(chunks, bo):
    # chunks: list of (fourcc bytes, payload); returns bytes and offsets
    body=b''; offs=[]
    for f,p in chunks:
        offs.append(12+len(body))
        body+=cc(f,bo)+struct.pack(bo+'i',len(p))+p+(b'\0' if len(p)%2 else b'')
    return cc(b'RIFX',bo)+struct.pack(bo+'i',len(body)+4)+cc(b'MV93',bo)+body, offs
def build(members, bo='>', keyextra=0):
    """members: list of dict(cast=bytes, res=[(fourcc,payload)])"""
    # resource ids: 0 RIFX,1 imap,2 mmap,3 KEY*,4 VWCF,5 CAS*, then per member CASt and resources
    res=[(b'imap',None),(b'mmap',None),(b'KEY*',None),(b'VWCF',None),(b'CAS*',None)]
    key=[]; cas=[]
    for m in members:
        if m is None: cas.append(0); continue
        cid=len(res)+1; res.append((b'CASt',m['cast'])); cas.append(cid)
        for f,p in m['res']:
            rid=len(res)+1; res.append((f,p)); key.append((rid,cid,f))
    vwcf=bytearray(0x54); struct.pack_into('>hh',vwcf,0,len(vwcf),0x045D)
    keyb=struct.pack(bo+'hhii',12,12,len(key)+keyextra,len(key)+keyextra)+b''.join(struct.pack(bo+'ii',r,c)+cc(f,bo) for r,c,f in key)
    keyb+=b''.join(struct.pack(bo+'ii',0,0)+b'\0\0\0\0' for _ in range(keyextra))
    casb=b''.join(struct.pack('>i',c) for c in cas)
    payload={b'KEY*':keyb,b'VWCF':bytes(vwcf),b'CAS*':casb}
    n=len(res)+1
    mmap_len=24+20*n
    imap_p=struct.pack(bo+'iiihhii',1,0,0,0,0,0,0)  # placeholder 24 bytes
    chunks=[]
    for f,p in res:
        if f==b'imap': chunks.append((f,imap_p))
        elif f==b'mmap': chunks.append((f,b'\0'*mmap_len))
        elif p is None: chunks.append((f,payload[f]))
        else: chunks.append((f,p))
    data,offs=movie(chunks,bo)
    ents=[(b'RIFX',len(data)-8,0)]+[(f,len(p),o) for (f,p),o in zip(chunks,offs)]
    mm=struct.pack(bo+'hhiiiii',24,20,n,n,-1,-1,-1)+b''.join(cc(f,bo)+struct.pack(bo+'iihhi',s,o,0,0,0) for f,s,o in ents)
    im=struct.pack(bo+'iiihhii',1,offs[1],0,0,0,0,0)
    chunks[0]=(b'imap',im); chunks[1]=(b'mmap',mm)
    data,offs2=movie(chunks,bo); assert offs2==offs
    return data
def cast_d4(typ, spec, name=b''):
    # info: numbers_size=0x14, 4 ints, nstruct
    info=struct.pack('>iIiii',0x14,0,0,0,0)
    if name:
        ent=[b'',bytes([len(name)])+name]
        offs=[0,0,len(ent[1])]
        info+=struct.pack('>h',2)+b''.join(struct.pack('>i',o) for o in offs)+b''.join(ent)
    else: info+=struct.pack('>h',0)
    hdr=bytes([typ])+spec
    return struct.pack('>hi',len(hdr),len(info))+hdr+info
def bitmap_spec(w,h,depthcode,bitdepth,palette):
    return bytes([0,depthcode,0])+struct.pack('>hhhhhhhhhh',0,0,h,w,0,0,h,w,0,0)+struct.pack('>hh',bitdepth,palette)
clut=b''.join(struct.pack('>HHH',i*257,0,0) for i in range(256))
bm8=dict(cast=cast_d4(1,bitmap_spec(4,2,0x80,8,2),b'bm'),res=[(b'BITD',bytes(range(8))+b'\0')])   # force compressed path? raw size 8 -> 9 bytes => compressed.. use valid packbits
bm8['res']=[(b'BITD',b'\x07'+bytes(range(8)))]
pal=dict(cast=cast_d4(4,b''),res=[(b'CLUT',clut)])
bm1=dict(cast=cast_d4(1,bitmap_spec(16,1,0x00,1,0),b'bw'),res=[(b'BITD',b'\x01\xff\x00')])
for name,members,kx in [('palette before bitmap',[pal,dict(bm8,cast=cast_d4(1,bitmap_spec(4,2,0x80,8,1),b'bm'))],1),
                     ('palette after bitmap',[bm8,pal],1),
                     ('1-bit bitmap',[bm1],1),
                     ('8-bit sys palette; link is last used key entry',[dict(bm8,cast=cast_d4(1,bitmap_spec(4,2,0x80,8,0),b'bm'))],0)]:
    for bo in '><':
        try:
            d=parse_dir_file_data(bo,0,build(members,bo,kx))
            print(name,bo,'OK',[ (sorted(c.keys()) if c else None) for c in d.cast])
        except Exception as e: print(name,bo,'EXC',type(e).__name__,e)
