From Coq Require Import List ZArith Lia Bool.
Import ListNotations.
Open Scope Z_scope.

(* attrs abstract with decidable equality *)
Section Spans.
Variable attrs : Type.
Variable attrs_eqb : attrs -> attrs -> bool.
Hypothesis attrs_eqb_spec : forall a b, attrs_eqb a b = true <-> a = b.

Record span := { sstart : Z; send : Z; sattrs : attrs }.

(* one step of the Python loop body for channel j at 0-based frame i:
   spans kept in REVERSE order here? No: python appends; prev = last element. Model with list, last element access. *)
Definition step (i : Z) (sp : list span) (c : option attrs) : list span :=
  match c with
  | None => sp
  | Some a =>
    match rev sp with
    | last :: before =>
        if (send last =? i) && attrs_eqb (sattrs last) a
        then rev before ++ [ {| sstart := sstart last; send := i + 1; sattrs := sattrs last |} ]
        else sp ++ [ {| sstart := i + 1; send := i + 1; sattrs := a |} ]
    | [] => [ {| sstart := i + 1; send := i + 1; sattrs := a |} ]
    end
  end.

Fixpoint run (i : Z) (sp : list span) (col : list (option attrs)) : list span :=
  match col with
  | [] => sp
  | c :: rest => run (i + 1) (step i sp c) rest
  end.

Definition spans_of col := run 0 [] col.

(* invariant: spans sorted, disjoint, within [1, i], each start<=end *)
Inductive wfs : Z -> list span -> Prop :=
| wfs_nil : forall i, wfs i []
| wfs_snoc : forall i sp s, wfs (sstart s - 1) sp -> 1 <= sstart s <= send s -> send s <= i -> wfs i (sp ++ [s]).

Lemma wfs_mono i j sp : wfs i sp -> i <= j -> wfs j sp.
Proof. intros H; revert j; induction H; intros j Hj; constructor; auto; lia. Qed.

Lemma wfs_inv_snoc i sp s : wfs i (sp ++ [s]) -> wfs (sstart s - 1) sp /\ 1 <= sstart s <= send s /\ send s <= i.
Proof.
  intros H. inversion H as [j Hnil | j sp' s' H1 H2 H3 Heq Hj].
  - destruct sp; discriminate.
  - apply app_inj_tail in Hj. destruct Hj; subst. auto.
Qed.

Lemma step_wfs i sp c : 0 <= i -> wfs i sp -> wfs (i + 1) (step i sp c).
Proof.
  intros Hi H. unfold step. destruct c as [a|]; [| eapply wfs_mono; eauto; lia].
  destruct (rev sp) as [|last before] eqn:E.
  - apply (wfs_snoc (i+1) [] {| sstart := i + 1; send := i + 1; sattrs := a |}); simpl; try lia. constructor.
  - assert (Hsp : sp = rev before ++ [last]).
    { rewrite <- (rev_involutive sp), E. reflexivity. }
    destruct ((send last =? i) && attrs_eqb (sattrs last) a) eqn:C.
    + rewrite Hsp in H. apply wfs_inv_snoc in H. destruct H as (H1 & H2 & H3).
      apply wfs_snoc; simpl; auto; lia.
    + apply wfs_snoc; simpl; try lia. replace (i + 1 - 1) with i by lia. exact H.
Qed.

Lemma run_wfs col : forall i sp, 0 <= i -> wfs i sp -> wfs (i + Z.of_nat (length col)) (run i sp col).
Proof.
  induction col as [|c rest IH]; intros i sp Hi H; simpl.
  - replace (i + 0) with i by lia. exact H.
  - replace (i + Z.pos (Pos.of_succ_nat (length rest))) with ((i + 1) + Z.of_nat (length rest)) by lia.
    apply IH; [lia|]. apply step_wfs; auto.
Qed.

Theorem spans_sorted_disjoint col : wfs (Z.of_nat (length col)) (spans_of col).
Proof. unfold spans_of. apply (run_wfs col 0 []); [lia | constructor]. Qed.
End Spans.
Print Assumptions spans_sorted_disjoint.
