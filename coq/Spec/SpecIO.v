(* The specification side made executable for the correspondence check ("spec tie"): a source handler sent by the
   harness (expressions and statements with table indices, structured program with counting loops and exit repeat)
   is decoded, and the functions the C02 / C03 / C04 theorems are stated with are evaluated on it:
     code2 (Director's scheme), pp_q (canonical Lingo layout), pp_js_q (canonical JavaScript layout).
   The harness compares the bytes with those of its own compiler (tie/lingo_spec.py) and the two texts with what
   the implementation emits for the compiled chunk, so the right-hand sides of the theorems are tied to /repo too. *)
From Coq Require Import ZArith List Bool String Lia.
From Coq.Strings Require Import Byte.
From DRX Require Import Proofs.LingoNestFacts Py.PyBytes Py.PyStr Py.PyString Py.Val Model.LingoAst Model.LingoGen Model.LingoOps
  Gen.Gen_Lingo Spec.SpecLingo Spec.SpecText Spec.SpecJs Spec.SpecNest Spec.SpecFor
  Proofs.PyBytesFacts Proofs.LingoTextFacts Proofs.LingoNestText Proofs.LingoNestJs Proofs.LingoNestForText.
Import ListNotations.
Open Scope Z_scope.

Definition get_s (v : val) : option string := option_map str_of_bytes (getB v).
Definition get_n (v : val) : option nat := match v with VZ z => if z <? 0 then None else Some (Z.to_nat z) | _ => None end.

Definition dec_binop (v : val) : option binop :=
  match get_s v with Some s => find (fun o => String.eqb (bname o) s) all_binops | None => None end.
Definition dec_fam (v : val) : option ofam :=
  match v with
  | VZ 0 => Some FSound | VZ 1 => Some FSprite | VZ 2 => Some FCast | VZ 3 => Some FVideo | VZ 4 => Some FField
  | VZ 5 => Some FLast | VZ 6 => Some FNumber | VZ 7 => Some FMenuName | VZ 8 => Some FMenuItems | _ => None
  end.

Fixpoint dec_e (fuel : nat) (v : val) : option expr :=
  match fuel with
  | O => None
  | S f =>
    let args := fun (l : list val) => all_some (map (dec_e f) l) in
    match v with
    | VL [VZ 0; VZ n] => Some (EInt n)
    | VL [VZ 1; k] => option_map EConst (get_n k)
    | VL [VZ 2; k] => option_map ESym (get_n k)
    | VL [VZ 3; k] => option_map ELoc (get_n k)
    | VL [VZ 4; k] => option_map EPar (get_n k)
    | VL [VZ 5; k] => option_map EGlob (get_n k)
    | VL [VZ 6; k] => option_map EProp (get_n k)
    | VL [VZ 7; o; a; c] =>
      match dec_binop o, dec_e f a, dec_e f c with Some o', Some a', Some c' => Some (EBin o' a' c') | _, _, _ => None end
    | VL [VZ 8; a] => option_map ENeg (dec_e f a)
    | VL [VZ 9; a] => option_map ENot (dec_e f a)
    | VL [VZ 10; k; VL l] => match get_n k, args l with Some k', Some l' => Some (ECall k' l') | _, _ => None end
    | VL [VZ 11; k; VL l] => match get_n k, args l with Some k', Some l' => Some (ELCall k' l') | _, _ => None end
    | VL [VZ 12; VL l] => option_map EList (args l)
    | VL [VZ 13; VL l] => option_map EPList (args l)
    | VL [VZ 14; fm; pid; a] =>
      match dec_fam fm, get_n pid, dec_e f a with Some fm', Some p, Some a' => Some (EObj fm' p a') | _, _, _ => None end
    | VL [VZ 15; pid; it; mn] =>
      match get_n pid, dec_e f it, dec_e f mn with Some p, Some i, Some m => Some (EMenu p i m) | _, _, _ => None end
    | VL [VZ 16; VZ k; i] =>
      match (if k =? 0 then Some TSpecial else if k =? 1 then Some TDateTime else if k =? 2 then Some TSystem else if k =? 3 then Some TNumOf else None), get_n i with
      | Some k', Some i' => Some (EThe k' i') | _, _ => None end
    | VL [VZ 17; k] => option_map ETheN (get_n k)
    | VL [VZ 19; k] => option_map EKey (get_n k)
    | VL [VZ 20; a] => option_map EField (dec_e f a)
    | VL [VZ 18; k; a] => match get_n k, dec_e f a with Some k', Some a' => Some (EAcc k' a') | _, _ => None end
    | _ => None
    end
  end.

Definition dec_target (v : val) : option target :=
  match v with
  | VL [VZ 0; k] => option_map TLoc (get_n k) | VL [VZ 1; k] => option_map TPar (get_n k)
  | VL [VZ 2; k] => option_map TGlob (get_n k) | VL [VZ 3; k] => option_map TProp (get_n k)
  | VL [VZ 4; k] => option_map TByName (get_n k)
  | _ => None
  end.
Definition dec_s (fuel : nat) (v : val) : option stmt :=
  match v with
  | VL [VZ 0; t; e] => match dec_target t, dec_e fuel e with Some t', Some e' => Some (SSet t' e') | _, _ => None end
  | VL [VZ 1; k; VL l] => match get_n k, all_some (map (dec_e fuel) l) with Some k', Some l' => Some (SCallS k' l') | _, _ => None end
  | VL [VZ 2; k; VL l] => match get_n k, all_some (map (dec_e fuel) l) with Some k', Some l' => Some (SLCallS k' l') | _, _ => None end
  | VL [VZ 3; fm; pid; o; e] =>
    match dec_fam fm, get_n pid, dec_e fuel o, dec_e fuel e with
    | Some fm', Some p, Some o', Some e' => Some (SSetObj fm' p o' e') | _, _, _, _ => None end
  | VL [VZ 4; VZ k; i; e] =>
    match (if k =? 0 then Some TSpecial else if k =? 2 then Some TSystem else None), get_n i, dec_e fuel e with
    | Some k', Some i', Some e' => Some (SSetThe k' i' e') | _, _, _ => None end
  | VL [VZ 5; k; o; e] =>
    match get_n k, dec_e fuel o, dec_e fuel e with Some k', Some o', Some e' => Some (SSetAcc k' o' e') | _, _, _ => None end
  | VL [VZ 6; p; it; mn; e] =>
    match get_n p, dec_e fuel it, dec_e fuel mn, dec_e fuel e with
    | Some p', Some i', Some m', Some e' => Some (SSetMenu p' i' m' e') | _, _, _, _ => None end
  | VL [VZ 7] => Some SExit
  | VL [VZ 8; VZ md; f; e] =>
    match (if md =? 1 then Some PInto else if md =? 2 then Some PAfter else if md =? 3 then Some PBefore else None), dec_e fuel f, dec_e fuel e with
    | Some md', Some f', Some e' => Some (SPutField md' f' e') | _, _, _ => None end
  | VL [VZ 9; VZ md; i; e] =>
    match (if md =? 1 then Some PInto else if md =? 2 then Some PAfter else if md =? 3 then Some PBefore else None), get_n i, dec_e fuel e with
    | Some md', Some i', Some e' => Some (SPutLoc md' i' e') | _, _, _ => None end
  | _ => None
  end.

(* a statement list: (0 stmt) (1 cond body) (2 cond body else) (3 cond body) (4 down var lo hi body) (5) *)
Fixpoint dec_q (fuel : nat) (l : list val) : option prog2 :=
  match fuel with
  | O => None
  | S f =>
    match l with
    | [] => Some QNil
    | x :: rest =>
      match dec_q f rest with
      | None => None
      | Some r =>
        match x with
        | VL [VZ 0; s] => option_map (fun s' => QStmt s' r) (dec_s f s)
        | VL [VZ 1; c; VL a] => match dec_e f c, dec_q f a with Some c', Some a' => Some (QIf c' a' r) | _, _ => None end
        | VL [VZ 2; c; VL a; VL eb] =>
          match dec_e f c, dec_q f a, dec_q f eb with Some c', Some a', Some e' => Some (QIfE c' a' e' r) | _, _, _ => None end
        | VL [VZ 3; c; VL a] => match dec_e f c, dec_q f a with Some c', Some a' => Some (QWhile c' a' r) | _, _ => None end
        | VL [VZ 4; VZ down; v; lo; hi; VL a] =>
          match get_n v, dec_e f lo, dec_e f hi, dec_q f a with
          | Some v', Some lo', Some hi', Some a' => Some (QFor (negb (down =? 0)) v' lo' hi' a' r) | _, _, _, _ => None end
        | VL [VZ 5] => Some (QExit 0 r)
        | _ => None
        end
      end
    end
  end.

(* the jump offsets of exit repeat, as Director writes them: to the address after the back jump of the loop around
   (SpecNest.exits_ok; k = bytes between the end of this part and that address) *)
Fixpoint fill (k : option Z) (p : prog) : prog :=
  match p with
  | PNil => PNil
  | PStmt s r => PStmt s (fill k r)
  | PIf c a r => PIf c (fill (oplus k (zlen (compile_p r))) a) (fill k r)
  | PIfE c a eb r =>
    PIfE c (fill (oplus k (3 + zlen (compile_p eb) + zlen (compile_p r))) a) (fill (oplus k (zlen (compile_p r))) eb) (fill k r)
  | PWhile c a r => PWhile c (fill (Some 2) a) (fill k r)
  | PExit off r => PExit (match k with Some k0 => 3 + zlen (compile_p r) + k0 | None => off end) (fill k r)
  end.

(* ---- the side conditions of the theorems, as boolean tests (sound for the Prop versions: *_okb_sound below) ---- *)
Definition loc_okb (en : env) (i : nat) : bool :=
  match nth i (e_locals en) (Leaf KLocal "" 0 true) with Leaf KLocal _ _ _ => true | _ => false end.
Fixpoint text_okb (en : env) (e : expr) {struct e} : bool :=
  match e with
  | ELoc i => loc_okb en i
  | EBin _ x y => text_okb en x && text_okb en y
  | ENeg x | ENot x | EField x => text_okb en x
  | ECall f args => lingo_plain_call (nm en f) && forallb (text_okb en) args
  | ELCall f args => lingo_plain_call (nth f (e_lfuncs en) "") && forallb (text_okb en) args
  | EList items => forallb (text_okb en) items
  | EPList items => Nat.even (List.length items) && forallb (text_okb en) items
  | EObj _ _ x => text_okb en x
  | EMenu _ it mn => text_okb en it && text_okb en mn
  | EThe TSystem i => starts_with "_" (assoc_or (nth i (the_table TSystem) "") SYSTEM_PROPERTIES)
  | EAcc _ x => text_okb en x && acc_plain (render en (pp_tok en x))
  | _ => true
  end.
Fixpoint js_okb (en : env) (e : expr) {struct e} : bool :=
  match e with
  | ELoc i => loc_okb en i
  | EBin _ x y => js_okb en x && js_okb en y
  | ENeg x | ENot x | EField x => js_okb en x
  | ECall f args => plain_call_name (nm en f) && forallb (js_okb en) args
  | ELCall f args => plain_call_name (nth f (e_lfuncs en) "") && forallb (js_okb en) args
  | EList items | EPList items => forallb (js_okb en) items
  | EObj f _ x => js_okb en x && match f with FLast | FNumber => negb (needs_paren en x) | _ => true end
  | EMenu _ it mn => js_okb en it && js_okb en mn
  | EAcc _ _ | EThe TNumOf _ => false
  | _ => true
  end.
Definition par_okb (en : env) (i : nat) : bool :=
  match nth i (e_params en) (Leaf KParam "" 0 true) with Leaf KParam _ _ _ => true | _ => false end.
Definition text_okb_s (en : env) (props : list string) (s : stmt) : bool :=
  match s with
  | SSet t e => text_okb en e && negb (starts_with "field(" (target_text en props t)) &&
                match t with TLoc i => loc_okb en i | TPar i => par_okb en i | _ => true end
  | SCallS f args => lingo_plain_call (nm en f) && negb (String.eqb (nm en f) "go") && forallb (text_okb en) args
  | SLCallS f args => lingo_plain_call (nth f (e_lfuncs en) "") && negb (String.eqb (nth f (e_lfuncs en) "") "go") && forallb (text_okb en) args
  | SSetObj f _ o v => assignable f && text_okb en o && text_okb en v
  | SSetThe k i v => text_okb en (EThe k i) && negb (starts_with "field(" (render en (pp_tok en (EThe k i)))) && text_okb en v
  | SSetAcc n o v => text_okb en (EAcc n o) && text_okb en v
  | SSetMenu pid it mn v => text_okb en (EMenu pid it mn) && text_okb en v
  | SExit => true
  | SPutField _ f v => text_okb en f && text_okb en v
  | SPutLoc _ i v => loc_okb en i && text_okb en v
  end.
Definition js_okb_s (en : env) (props : list string) (s : stmt) : bool :=
  match s with
  | SSet t e => js_okb en e && match t with TLoc i => loc_okb en i | TPar i => par_okb en i | _ => true end
  | SCallS f args => plain_call_name (nm en f) && forallb (js_okb en) args
  | SLCallS f args => plain_call_name (nth f (e_lfuncs en) "") && forallb (js_okb en) args
  | SSetObj f _ o v => assignable f && js_okb en o && js_okb en v
  | SSetThe k i v => js_okb en (EThe k i) && js_okb en v
  | SSetAcc _ _ _ => false
  | SSetMenu pid it mn v => js_okb en (EMenu pid it mn) && js_okb en v
  | SExit => true
  | SPutField _ _ _ | SPutLoc _ _ _ => false
  end.
Definition is_qnil (q : prog2) : bool := match q with QNil => true | _ => false end.
Fixpoint text_okb_q (en : env) (props : list string) (q : prog2) : bool :=
  match q with
  | QNil => true
  | QStmt s r => text_okb_s en props s && text_okb_q en props r
  | QIf c a r => text_okb en c && text_okb_q en props a && text_okb_q en props r
  | QIfE c a eb r => text_okb en c && negb (is_qnil eb) && text_okb_q en props a && text_okb_q en props eb && text_okb_q en props r
  | QWhile c a r => text_okb en c && text_okb_q en props a && text_okb_q en props r
  | QFor _ _ lo hi a r => text_okb en lo && text_okb en hi && text_okb_q en props a && text_okb_q en props r
  | QExit _ r => text_okb_q en props r
  end.
Fixpoint js_okb_q (en : env) (props : list string) (q : prog2) : bool :=
  match q with
  | QNil => true
  | QStmt s r => js_okb_s en props s && js_okb_q en props r
  | QIf c a r => js_okb en c && js_okb_q en props a && js_okb_q en props r
  | QIfE c a eb r => js_okb en c && negb (is_qnil eb) && js_okb_q en props a && js_okb_q en props eb && js_okb_q en props r
  | QWhile c a r => js_okb en c && js_okb_q en props a && js_okb_q en props r
  | QFor down v lo hi a r => js_okb en lo && js_okb en (for_cond down v hi) && js_okb_q en props a && js_okb_q en props r
  | QExit _ r => js_okb_q en props r
  end.
(* SpecFor.ok2 (the condition of a plain loop cannot be taken for a counting loop; the counter is a local variable);
   wcond_ok does not look at positions, so one position stands for all *)
Fixpoint ok2b (en : env) (q : prog2) : bool :=
  match q with
  | QNil => true
  | QStmt _ r | QExit _ r => ok2b en r
  | QIf _ a r => ok2b en a && ok2b en r
  | QIfE _ a eb r => ok2b en a && ok2b en eb && ok2b en r
  | QWhile c a r => wcond_ok (reify_e en 0 c) && ok2b en a && ok2b en r
  | QFor _ v _ _ a r => loc_okb en v && ok2b en a && ok2b en r
  end.

Definition dec_const (v : val) : option const :=
  match v with VL [VZ 0; VZ z] => Some (CInt z) | VL [VZ 1; s] => option_map CStr (get_s s) | _ => None end.

(* (fuel, names, params, locals, handler names, constants, declared properties, js indentation, statements)
   -> (code, Lingo text at indentation 1, JavaScript text, ok2?, text side conditions?, JavaScript side conditions?) *)
Definition run_spec_handler (v : val) : val :=
  match v with
  | VL [VZ fu; ns; ps; ls; lf; cs; pr; VZ jind; VL body] =>
    let fuel := Z.to_nat fu in
    match getLof get_s ns, getLof get_s ps, getLof get_s ls, getLof get_s lf, getLof dec_const cs, getLof get_s pr, dec_q fuel body with
    | Some names, Some params, Some locals, Some lfuncs, Some consts, Some props, Some q =>
      let en := Build_env names (map (fun s => Leaf KParam s 0 true) params) (map (fun s => Leaf KLocal s 0 true) locals) lfuncs consts in
      VL [vstr "ok"; VB (compile_p (fill None (desugar q))); VB (bytes_of_str (pp_q en props 1 q));
          VB (bytes_of_str (pp_js_q true en props (Z.to_nat jind) q));
          vbool (ok2b en q); vbool (text_okb_q en props q); vbool (js_okb_q en props q)]
    | _, _, _, _, _, _, _ => vbad
    end
  | _ => vbad
  end.

Definition spec_table : list (string * (val -> val)) := [("spec_handler", run_spec_handler)].
Fixpoint spec_lookup (n : string) (t : list (string * (val -> val))) : option (val -> val) :=
  match t with [] => None | (k, f) :: r => if String.eqb k n then Some f else spec_lookup n r end.
Definition dispatch (name : string) (v : val) : val :=
  match spec_lookup name spec_table with Some f => f v | None => VL [vstr "nosuchfn"] end.

(* ---- the offsets [fill] writes are the ones the theorems ask for ---- *)
Fixpoint exits_inside (inloop : bool) (p : prog) : Prop :=
  match p with
  | PNil => True
  | PStmt _ r => exits_inside inloop r
  | PIf _ a r => exits_inside inloop a /\ exits_inside inloop r
  | PIfE _ a eb r => exits_inside inloop a /\ exits_inside inloop eb /\ exits_inside inloop r
  | PWhile _ a r => exits_inside true a /\ exits_inside inloop r
  | PExit _ r => inloop = true /\ exits_inside inloop r
  end.

Lemma compile_fill : forall p k, zlen (compile_p (fill k p)) = zlen (compile_p p).
Proof.
  induction p as [|s r IH|c a IHa r IH|c a IHa eb IHe r IH|c a IHa r IH|off r IH]; intros k; cbn [fill compile_p].
  - reflexivity.
  - rewrite !zlen_app, IH. reflexivity.
  - rewrite !zlen_app, IHa, IH. reflexivity.
  - rewrite !zlen_app, IHa, IHe, IH. reflexivity.
  - rewrite !zlen_app, IHa, IH. reflexivity.
  - rewrite !zlen_app, IH. reflexivity.
Qed.

Lemma fill_ok : forall p k, exits_inside (match k with Some _ => true | None => false end) p -> exits_ok k (fill k p).
Proof.
  induction p as [|s r IH|c a IHa r IH|c a IHa eb IHe r IH|c a IHa r IH|off r IH]; intros k H; cbn [fill exits_ok exits_inside] in *.
  - exact I.
  - apply IH. exact H.
  - destruct H as [Ha Hr]. rewrite compile_fill. split; [apply IHa; destruct k; exact Ha | apply IH; exact Hr].
  - destruct H as (Ha & He & Hr). rewrite !compile_fill. repeat split; [apply IHa | apply IHe | apply IH]; destruct k; assumption.
  - destruct H as [Ha Hr]. split; [apply IHa; exact Ha | apply IH; exact Hr].
  - destruct H as [Hk Hr]. destruct k as [k0|]; [|discriminate Hk]. rewrite compile_fill. split; [exists k0; split; reflexivity | apply IH; exact Hr].
Qed.
Print Assumptions fill_ok.
