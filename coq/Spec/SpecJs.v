(* Specification side of C04: a syntax tree for the JavaScript the translator emits for expressions, the fixed
   correspondence  to_js : Lingo expression -> JavaScript expression,  and its printer.  "The emitted JavaScript
   denotes the same expression" is: the emitted text is the print of to_js e (Proofs/LingoJsFacts.v), and to_js
   can be read back (from_js (to_js e) = Some e). *)
From Coq Require Import ZArith List Bool String.
From DRX Require Model.Const.
From DRX Require Import Py.PyBytes Py.PyStr Py.PyString Model.LingoAst Model.LingoGen Model.LingoOps Spec.SpecLingo Gen.Gen_Lingo.
Import ListNotations.
Open Scope string_scope.
Local Notation length := List.length (only parsing).

Inductive js :=
| JLit (s : string)                        (* a literal printed verbatim: number, or new LingoString("...") *)
| JSym (s : string)                        (* symbol('s') *)
| JVar (s : string)                        (* identifier *)
| JThis
| JMember (o : string) (f : string)        (* o.f  with o one of the runtime objects (_global, this, me, ...) *)
| JBin (op : string) (a b : js)            (* (a op b) *)
| JMethod (m : string) (a b : js)          (* a.m(b) : method-style string operator *)
| JSprite (m : string) (a b : js)          (* sprite(a).m(sprite(b)) *)
| JUn (op : string) (a : js)               (* op(a) *)
| JParen (a : js)                          (* (a) : a number or signed value as receiver of a method *)
| JCall (f : string) (args : list js)      (* f(a, b, ...) *)
| JList (items : list js)                  (* list(...) *)
| JPropList (items : list js)              (* propList(k, v, ...) *)
| JDot (a : js) (p : string)               (* a.p : a property of an object *)
| JIdx (a i : js).                         (* a[i] *)

Fixpoint pp_js (j : js) : string :=
  match j with
  | JLit s => s
  | JSym s => "symbol('" ++ s ++ "')"
  | JVar s => s
  | JThis => "this"
  | JMember o f => o ++ "." ++ f
  | JBin op a c => "(" ++ pp_js a ++ " " ++ op ++ " " ++ pp_js c ++ ")"
  | JMethod m a c => pp_js a ++ "." ++ m ++ "(" ++ pp_js c ++ ")"
  | JSprite m a c => "sprite(" ++ pp_js a ++ ")." ++ m ++ "(sprite(" ++ pp_js c ++ "))"
  | JUn op a => op ++ "(" ++ pp_js a ++ ")"
  | JParen a => "(" ++ pp_js a ++ ")"
  | JCall f args => f ++ "(" ++ join ", " (map pp_js args) ++ ")"
  | JList items => "list(" ++ join ", " (map pp_js items) ++ ")"
  | JPropList items => "propList(" ++ join ", " (map pp_js items) ++ ")"
  | JDot a p => pp_js a ++ "." ++ p
  | JIdx a i => pp_js a ++ "[" ++ pp_js i ++ "]"
  end.

(* the fixed correspondences for operators *)
Inductive jskind := KInfix (op : string) | KMeth (m : string) | KSpr (m : string).
Definition js_binop (o : binop) : jskind :=
  match o with
  | Mul => KInfix "*" | Add => KInfix "+" | Sub => KInfix "-" | Div => KInfix "/" | Mod => KInfix "%"
  | Lt => KInfix "<" | Lte => KInfix "<=" | Ne => KInfix "!=" | Eq => KInfix "==" | Gt => KInfix ">" | Gte => KInfix ">="
  | And => KInfix "&&" | Or => KInfix "||"
  | Concat => KMeth "concat" | Concats => KMeth "concats" | Contains => KMeth "contains" | Start => KMeth "start"
  | Intersects => KSpr "intersects" | Within => KSpr "within"
  end.

(* a variable name in JavaScript: inside the generated functions 'me' is 'this' *)
Definition js_var (fm : bool) (name : string) : js := if fm && String.eqb name "me" then JThis else JVar name.
(* a declared property: attached to this (or me), or to a runtime object for the built-in ones *)
Definition js_prop (fm : bool) (name : string) : js :=
  JMember (match assoc_str name VARIABLE_KNOWN_PROPERTIES with Some o => o | None => if fm then "this" else "me" end) name.

Definition js_const (c : const) : js :=
  match c with
  | CInt z => JLit (str_of_int z)
  | CStr s => JLit (LingoGen.js_const KConst s)
  end.

(* names with a translation of their own are outside the plain-call correspondence *)
Definition plain_call_name (nm : string) : bool :=
  negb (mem_str nm ["birth"; "new"; "go"; "cast"; "continue"; "return"; "me"]) && negb (mem_str (lower nm) LIST_FUNCTIONS).

(* a receiver that JavaScript cannot take as it stands: a number (1.concat is no member access) or a signed value
   (-(x).concat(s) negates the concatenation) *)
Definition needs_paren (en : env) (e : expr) : bool :=
  match e with
  | EInt _ | ENeg _ | ENot _ => true
  | EConst k => match nth k (e_consts en) (CInt 0) with CInt _ => true | CStr s => negb (starts_with """" s) end
  | _ => false
  end.
Definition js_recv (en : env) (e : expr) (j : js) : js := if needs_paren en e then JParen j else j.

(* the identifier of a sound / sprite / cast member / menu / menuItem: a constant is written as it is *)
Definition raw_const (en : env) (k : nat) : string := match nth k (e_consts en) (CInt 0) with CStr s => s | CInt z => str_of_int z end.
Definition js_raw_or (en : env) (x : expr) (j : js) : js :=
  match x with EInt n => JLit (str_of_int n) | EConst k => JLit (raw_const en k) | _ => j end.
Definition js_menubar : js := JMember "_menuBar" "menu".
(* the JavaScript names of the one-operand string operations (the regenerated table) *)
Definition js_una (name : string) : string := assoc_or name JS_UNA_OP.

Fixpoint to_js (fm : bool) (en : env) (e : expr) {struct e} : js :=
  match e with
  | EInt n => JLit (LingoGen.js_const KConst (str_of_int n))      (* the digits, verbatim *)
  | EConst k => js_const (nth k (e_consts en) (CInt 0))
  | ESym n => JSym (nm en n)
  | ELoc i => js_var fm (name_of (nth i (e_locals en) (Leaf KLocal "" 0 true)))
  | EPar i => js_var fm (name_of (nth i (e_params en) (Leaf KParam "" 0 true)))
  | EGlob n => JMember "_global" (nm en n)
  | EProp n => js_prop fm (nm en n)
  | EBin o x y =>
    match js_binop o with
    | KInfix op => JBin op (to_js fm en x) (to_js fm en y)
    | KMeth m => JMethod m (js_recv en x (to_js fm en x)) (to_js fm en y)
    | KSpr m => JSprite m (to_js fm en x) (to_js fm en y)
    end
  | ENeg x => JUn "-" (to_js fm en x)
  | ENot x => JUn "!" (to_js fm en x)
  | EField x => JUn "field" (to_js fm en x)
  | ECall f args => JCall (nm en f) (map (to_js fm en) args)
  | ELCall f args => JCall (nth f (e_lfuncs en) "") (map (to_js fm en) args)
  | EList items => JList (map (to_js fm en) items)
  | EPList items => JPropList (map (to_js fm en) items)
  | EObj f pid x =>
    let jx := to_js fm en x in
    let id := js_raw_or en x jx in
    match f with
    | FSound => JDot (JUn "sound" id) (nth pid SOUND_PROPERTIES "")
    | FSprite => JDot (JUn "sprite" id) (nth pid SPRITE_PROPERTIES "")
    | FCast => JDot (JUn "member" id) (nth pid CAST_PROPERTIES "")
    | FVideo => JDot (JUn "member" id) (nth pid VIDEO_PROPERTIES "")
    | FField => JDot (JUn "field" jx) (nth pid CAST_PROPERTIES "")
    | FLast => JIdx (JDot jx (nth (pid - 11) OPERATION_TYPES "")) (JLit ("""" ++ js_una "last" ++ """"))
    | FNumber => JDot (JDot jx (nth pid OPERATION_TYPES "")) (js_una "number")
    | FMenuName => JDot (JIdx js_menubar id) (js_una "name")
    | FMenuItems => JDot (JDot (JIdx js_menubar id) "item") (js_una "number")
    end
  | EMenu pid it mn =>
    JDot (JIdx (JDot (JIdx js_menubar (js_raw_or en mn (to_js fm en mn))) "item") (js_raw_or en it (to_js fm en it)))
         (nth pid MENUITEM_PROPERTIES "")
  | EThe k i =>
    let name := nth i (the_table k) "" in
    match k with
    | TSpecial => js_prop fm name                                   (* _system.floatPrecision, ... *)
    | TDateTime => JCall "_system.date" [JLit ("'" ++ name ++ "'")]
    | TSystem => JMember (assoc_or name SYSTEM_PROPERTIES) name     (* _movie.stageColor, ... *)
    | TNumOf => JLit ""                                            (* outside the JavaScript theorems (js_ok) *)
    end
  | ETheN n =>
    match assoc_str (nm en n) ASSIGN_KNOWN_PROPERTIES with
    | Some o => JMember o (nm en n)
    | None => js_prop fm (nm en n)
    end
  | EAcc _ _ => JLit ""       (* the <name> of <x>: outside the JavaScript theorems (js_ok); x.name would need the receiver rules *)
  | EKey n =>
    let name := nm en n in
    if String.eqb name "date" || String.eqb name "time" then JCall "_system.date" [JLit ("'" ++ name ++ "'")]
    else JMember (match assoc_str name OPERATION_KNOWN_PROPERTIES with Some o => o | None => "_key" end) name
  end.

(* side conditions: locals are plain local-variable nodes; call names have no translation of their own *)
Fixpoint js_ok (en : env) (e : expr) {struct e} : Prop :=
  match e with
  | ELoc i => match nth i (e_locals en) (Leaf KLocal "" 0 true) with Leaf KLocal _ _ _ => True | _ => False end
  | EBin _ x y => js_ok en x /\ js_ok en y
  | ENeg x | ENot x | EField x => js_ok en x
  | ECall f args => plain_call_name (nm en f) = true /\
                    (fix all (l : list expr) : Prop := match l with [] => True | x :: r => js_ok en x /\ all r end) args
  | ELCall f args => plain_call_name (nth f (e_lfuncs en) "") = true /\
                    (fix all (l : list expr) : Prop := match l with [] => True | x :: r => js_ok en x /\ all r end) args
  | EList items | EPList items =>
                    (fix all (l : list expr) : Prop := match l with [] => True | x :: r => js_ok en x /\ all r end) items
  (* a chunk of a number or of a signed value would need parentheses the generator does not write (5.word.length) *)
  | EObj f _ x => js_ok en x /\ match f with FLast | FNumber => needs_paren en x = false | _ => True end
  | EMenu _ it mn => js_ok en it /\ js_ok en mn
  | EAcc _ _ | EThe TNumOf _ => False
  | _ => True
  end.
(* every system property is attached to a runtime object other than me / tell_obj / _global (the regenerated table) *)
Definition sys_owner_ok (o : string) : bool :=
  negb (String.eqb o "me") && negb (String.eqb o "tell_obj") && negb (String.eqb o "_global").
Fixpoint js_ok_args (en : env) (l : list expr) : Prop := match l with [] => True | x :: r => js_ok en x /\ js_ok_args en r end.

(* ---- reading the JavaScript tree back: the expression it denotes, with names in place of table indices ---- *)
Inductive nexpr :=
| NLit (s : string) | NSym (s : string) | NVar (s : string) | NThis
| NGlob (s : string) | NProp (owner s : string)
| NBin (o : binop) (a b : nexpr) | NNeg (a : nexpr) | NNot (a : nexpr) | NField (a : nexpr)
| NCall (f : string) (args : list nexpr) | NList (items : list nexpr) | NPList (items : list nexpr)
| NObj (kind prop : string) (id : nexpr)          (* the prop of sound / sprite / member / field id *)
| NLastChunk (ty : string) (a : nexpr) | NChunkCount (ty : string) (a : nexpr)
| NMenuName (id : nexpr) | NMenuItems (id : nexpr) | NMenuItem (prop : string) (item menu : nexpr).

Definition n_raw_or (en : env) (x : expr) (n : nexpr) : nexpr :=
  match x with EInt k => NLit (str_of_int k) | EConst k => NLit (raw_const en k) | _ => n end.

(* the source expression with its names looked up *)
Fixpoint name_e (fm : bool) (en : env) (e : expr) {struct e} : nexpr :=
  match e with
  | EInt n => NLit (LingoGen.js_const KConst (str_of_int n))
  | EConst k => match nth k (e_consts en) (CInt 0) with CInt z => NLit (str_of_int z) | CStr s => NLit (LingoGen.js_const KConst s) end
  | ESym n => NSym (nm en n)
  | ELoc i => let s := name_of (nth i (e_locals en) (Leaf KLocal "" 0 true)) in if fm && String.eqb s "me" then NThis else NVar s
  | EPar i => let s := name_of (nth i (e_params en) (Leaf KParam "" 0 true)) in if fm && String.eqb s "me" then NThis else NVar s
  | EGlob n => NGlob (nm en n)
  | EProp n => NProp (match assoc_str (nm en n) VARIABLE_KNOWN_PROPERTIES with Some o => o | None => if fm then "this" else "me" end) (nm en n)
  | EBin o x y => NBin o (name_e fm en x) (name_e fm en y)
  | ENeg x => NNeg (name_e fm en x)
  | ENot x => NNot (name_e fm en x)
  | EField x => NField (name_e fm en x)
  | ECall f args => NCall (nm en f) (map (name_e fm en) args)
  | ELCall f args => NCall (nth f (e_lfuncs en) "") (map (name_e fm en) args)
  | EList items => NList (map (name_e fm en) items)
  | EPList items => NPList (map (name_e fm en) items)
  | EObj f pid x =>
    let nx := name_e fm en x in
    let id := n_raw_or en x nx in
    match f with
    | FSound => NObj "sound" (nth pid SOUND_PROPERTIES "") id
    | FSprite => NObj "sprite" (nth pid SPRITE_PROPERTIES "") id
    | FCast => NObj "member" (nth pid CAST_PROPERTIES "") id
    | FVideo => NObj "member" (nth pid VIDEO_PROPERTIES "") id
    | FField => NObj "field" (nth pid CAST_PROPERTIES "") nx
    | FLast => NLastChunk (nth (pid - 11) OPERATION_TYPES "") nx
    | FNumber => NChunkCount (nth pid OPERATION_TYPES "") nx
    | FMenuName => NMenuName id
    | FMenuItems => NMenuItems id
    end
  | EMenu pid it mn =>
    NMenuItem (nth pid MENUITEM_PROPERTIES "") (n_raw_or en it (name_e fm en it)) (n_raw_or en mn (name_e fm en mn))
  | EThe k i =>
    let name := nth i (the_table k) "" in
    match k with
    | TSpecial => NProp (match assoc_str name VARIABLE_KNOWN_PROPERTIES with Some o => o | None => if fm then "this" else "me" end) name
    | TDateTime => NCall "_system.date" [NLit ("'" ++ name ++ "'")]
    | TSystem => if String.eqb (assoc_or name SYSTEM_PROPERTIES) "_global" then NGlob name else NProp (assoc_or name SYSTEM_PROPERTIES) name
    | TNumOf => NLit ""
    end
  | ETheN n =>
    match assoc_str (nm en n) ASSIGN_KNOWN_PROPERTIES with
    | Some o => if String.eqb o "_global" then NGlob (nm en n) else NProp o (nm en n)
    | None => NProp (match assoc_str (nm en n) VARIABLE_KNOWN_PROPERTIES with Some o => o | None => if fm then "this" else "me" end) (nm en n)
    end
  | EAcc _ _ => NLit ""
  | EKey n =>
    let name := nm en n in
    if String.eqb name "date" || String.eqb name "time" then NCall "_system.date" [NLit ("'" ++ name ++ "'")]
    else let o := match assoc_str name OPERATION_KNOWN_PROPERTIES with Some o => o | None => "_key" end in
         if String.eqb o "_global" then NGlob name else NProp o name
  end.

Definition all_binops : list binop :=
  [Mul; Add; Sub; Div; Mod; Concat; Concats; Lt; Lte; Ne; Eq; Gt; Gte; And; Or; Contains; Start; Intersects; Within].
Definition jskind_eqb (a b : jskind) : bool :=
  match a, b with
  | KInfix x, KInfix y | KMeth x, KMeth y | KSpr x, KSpr y => String.eqb x y
  | _, _ => false
  end.
(* the Lingo operator a JavaScript operator form stands for *)
Definition binop_of (k : jskind) : option binop := find (fun o => jskind_eqb (js_binop o) k) all_binops.

Fixpoint all_some_n (l : list (option nexpr)) : option (list nexpr) :=
  match l with
  | [] => Some []
  | Some a :: r => match all_some_n r with Some r' => Some (a :: r') | None => None end
  | None :: _ => None
  end.

Definition is_menubar (j : js) : bool :=
  match j with JMember o f => String.eqb o "_menuBar" && String.eqb f "menu" | _ => false end.
Definition obj_kind (k : string) : bool := mem_str k ["sound"; "sprite"; "member"; "field"].

Fixpoint read_js (j : js) {struct j} : option nexpr :=
  match j with
  | JLit s => Some (NLit s)
  | JSym s => Some (NSym s)
  | JVar s => Some (NVar s)
  | JThis => Some NThis
  | JMember o f => if String.eqb o "_global" then Some (NGlob f) else Some (NProp o f)
  | JBin op a c => match binop_of (KInfix op), read_js a, read_js c with Some o, Some x, Some y => Some (NBin o x y) | _, _, _ => None end
  | JMethod m a c => match binop_of (KMeth m), read_js a, read_js c with Some o, Some x, Some y => Some (NBin o x y) | _, _, _ => None end
  | JSprite m a c => match binop_of (KSpr m), read_js a, read_js c with Some o, Some x, Some y => Some (NBin o x y) | _, _, _ => None end
  | JUn op a => match read_js a with
                | Some x => if String.eqb op "-" then Some (NNeg x) else if String.eqb op "!" then Some (NNot x)
                            else if String.eqb op "field" then Some (NField x) else None
                | None => None end
  | JParen a => read_js a
  | JCall f args => option_map (NCall f) (all_some_n (map read_js args))
  | JList items => option_map NList (all_some_n (map read_js items))
  | JPropList items => option_map NPList (all_some_n (map read_js items))
  | JDot a p =>
    match a with
    | JUn k i => if obj_kind k then option_map (NObj k p) (read_js i) else None       (* sound(i).p ... *)
    | JIdx m i =>
      if is_menubar m then (if String.eqb p (js_una "name") then option_map NMenuName (read_js i) else None)   (* _menuBar.menu[i].name *)
      else match m with
           | JDot (JIdx m0 mi) f =>                                                  (* _menuBar.menu[mi].item[i].p *)
             if is_menubar m0 && String.eqb f "item"
             then match read_js i, read_js mi with Some ni, Some nm => Some (NMenuItem p ni nm) | _, _ => None end
             else None
           | _ => None
           end
    | JDot x t =>
      if String.eqb p (js_una "number") then
        match x with
        | JIdx m0 mi => if is_menubar m0 && String.eqb t "item" then option_map NMenuItems (read_js mi)    (* _menuBar.menu[mi].item.length *)
                        else option_map (NChunkCount t) (read_js x)
        | _ => option_map (NChunkCount t) (read_js x)                                 (* x.word.length *)
        end
      else None
    | _ => None
    end
  | JIdx a i =>
    match a, i with
    | JDot x t, JLit q => if String.eqb q ("""" ++ js_una "last" ++ """") then option_map (NLastChunk t) (read_js x) else None   (* x.word["last"] *)
    | _, _ => None
    end
  end.
