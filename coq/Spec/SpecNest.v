(* Specification side of C03, unbounded part: structured programs made of straight-line statements (SpecLingo.stmt)
   and  if <expr> then ... [else ...] end if  and  repeat while <expr> ... end repeat  with any expression as condition, nested to any depth.  A program is a
   sequence: PNil, a statement followed by the rest, or an if (condition, body, rest).
   Director's scheme for an if: the condition, a conditional forward jump over the body (offset relative to the
   jump's own address), the body; with an else part the then part ends in an unconditional forward jump over it and
   the conditional jump goes to its first instruction. *)
From Coq Require Import ZArith List Bool String.
From Coq.Strings Require Import Byte.
From DRX Require Import Py.PyBytes Py.PyStr Py.PyString Model.LingoAst Model.LingoGen Model.LingoOps Spec.SpecLingo Spec.SpecFlow
  Proofs.LingoNestFacts.
Import ListNotations.
Open Scope list_scope.
Open Scope Z_scope.

Inductive prog :=
| PNil
| PStmt (s : stmt) (rest : prog)
| PIf (c : expr) (body : prog) (rest : prog)
| PIfE (c : expr) (body ebody : prog) (rest : prog)
| PWhile (c : expr) (body : prog) (rest : prog)
(* exit repeat: a forward jump; [off] is its operand (relative to the jump's own address), see exits_ok *)
| PExit (off : Z) (rest : prog).

Fixpoint compile_p (p : prog) : bytes :=
  match p with
  | PNil => []
  | PStmt s r => compile_s s ++ compile_p r
  | PIf c a r => compile_e c ++ jz (3 + zlen (compile_p a)) ++ compile_p a ++ compile_p r
  | PIfE c a eb r =>
    compile_e c ++ jz (3 + zlen (compile_p a) + 3) ++ compile_p a ++ jmp (3 + zlen (compile_p eb)) ++ compile_p eb ++ compile_p r
  | PWhile c a r =>
    (* the loop: condition, jump past the back jump, body, one-byte back jump to the start of the condition *)
    compile_e c ++ jz (3 + zlen (compile_p a) + 2) ++ compile_p a ++ [b 84; b (zlen (compile_e c) + 3 + zlen (compile_p a))] ++ compile_p r
  | PExit off r => jmp off ++ compile_p r
  end.
Fixpoint ninstr_p (p : prog) : nat :=
  match p with
  | PNil => O
  | PStmt s r => (ninstr_s s + ninstr_p r)%nat
  | PIf c a r => (ninstr c + (1 + (ninstr_p a + ninstr_p r)))%nat
  | PIfE c a eb r => (ninstr c + (1 + (ninstr_p a + (1 + (ninstr_p eb + ninstr_p r)))))%nat
  | PWhile c a r => (ninstr c + (1 + (ninstr_p a + (1 + ninstr_p r))))%nat
  | PExit off r => S (ninstr_p r)
  end.

(* [wc]: what is asked of a while condition (LingoNestFacts.wcond_ok for plain while loops) *)
Fixpoint wf_p (wc : node -> bool) (en : env) (p : prog) : Prop :=
  match p with
  | PNil => True
  | PStmt s r => wf_s en s /\ wf_p wc en r
  | PIf c a r => wf_e en c /\ a <> PNil /\ 3 + zlen (compile_p a) < 65536 /\ wf_p wc en a /\ wf_p wc en r
  | PIfE c a eb r => wf_e en c /\ a <> PNil /\ eb <> PNil /\ 3 + zlen (compile_p a) + 3 < 65536 /\ 3 + zlen (compile_p eb) < 65536 /\
                     wf_p wc en a /\ wf_p wc en eb /\ wf_p wc en r
  | PWhile c a r => wf_e en c /\ (forall pc, wc (reify_e en pc c) = true) /\ zlen (compile_e c) + 3 + zlen (compile_p a) < 256 /\
                    wf_p wc en a /\ wf_p wc en r
  | PExit off r => 0 <= off < 65536 /\ wf_p wc en r
  end.

(* exit repeat jumps to the address after the back jump of the loop it stands in.  [k]: the number of bytes between the
   end of this (sub)program and that address - None outside any loop, where exit repeat cannot stand *)
Definition oplus (k : option Z) (n : Z) : option Z := match k with Some z => Some (z + n) | None => None end.
Fixpoint exits_ok (k : option Z) (p : prog) : Prop :=
  match p with
  | PNil => True
  | PStmt s r => exits_ok k r
  | PIf c a r => exits_ok (oplus k (zlen (compile_p r))) a /\ exits_ok k r
  | PIfE c a eb r => exits_ok (oplus k (3 + zlen (compile_p eb) + zlen (compile_p r))) a /\ exits_ok (oplus k (zlen (compile_p r))) eb /\ exits_ok k r
  | PWhile c a r => exits_ok (Some 2) a /\ exits_ok k r
  | PExit off r => (exists k0, k = Some k0 /\ off = 3 + zlen (compile_p r) + k0) /\ exits_ok k r
  end.
(* programs without exit repeat *)
Fixpoint exit_free (p : prog) : Prop :=
  match p with
  | PNil => True
  | PStmt s r => exit_free r
  | PIf c a r => exit_free a /\ exit_free r
  | PIfE c a eb r => exit_free a /\ exit_free eb /\ exit_free r
  | PWhile c a r => exit_free a /\ exit_free r
  | PExit _ _ => False
  end.

(* the statements the stack machine leaves, as positioned items, when the code of p starts at pc *)
Fixpoint items (en : env) (props : list string) (pc : Z) (p : prog) : list item :=
  match p with
  | PNil => []
  | PStmt s r => IPlain (reify_s en props pc s) :: items en props (pc + zlen (compile_s s)) r
  | PIf c a r =>
    let pj := pc + zlen (compile_e c) in
    let ea := pj + 3 + zlen (compile_p a) in
    IIf pj (reify_e en pc c) ea (items en props (pj + 3) a) :: items en props ea r
  | PIfE c a eb r =>
    let pj := pc + zlen (compile_e c) in
    let jp := pj + 3 + zlen (compile_p a) in
    let je := jp + 3 + zlen (compile_p eb) in
    IIfE pj (reify_e en pc c) (jp + 3) (items en props (pj + 3) a) jp je (items en props (jp + 3) eb) :: items en props je r
  | PWhile c a r =>
    let pj := pc + zlen (compile_e c) in
    let pe := pj + 3 + zlen (compile_p a) in
    IWhile false pc pj (reify_e en pc c) pe (items en props (pj + 3) a) :: items en props (pe + 2) r
  | PExit off r => IExit false pc (pc + off) :: items en props (pc + 3) r
  end.

(* the decompiled program: what the emitted text is printed from *)
Definition rebuilt (en : env) (props : list string) (pc : Z) (p : prog) : list node := fins (items en props pc p).
