(* Specification side of C03: control-flow skeletons, Director's code-generation scheme for them
   (forward conditional / unconditional jumps with offsets relative to the jump's own address, one-byte
   backward jump to the start of the loop condition, exit repeat = forward jump to the address after the
   backward jump, counting loops with the  push step; push v; add; store v  tail), an exhaustive enumeration
   up to a size, the four syntactic patterns of the open findings, and the reading of a decompiled statement
   list back into a skeleton. *)
From Coq Require Import ZArith List Bool String.
From Coq.Strings Require Import Byte.
From DRX Require Import Py.PyBytes Py.PyStr Py.PyString Model.LingoAst Model.LingoGen Model.LingoOps Model.LingoLoop Spec.SpecLingo.
Import ListNotations.
Open Scope string_scope.
Open Scope list_scope.
Open Scope Z_scope.
Local Notation length := List.length (only parsing).

(* simple statements and conditions carry a number so that "every statement exactly once, in order, in the
   same construct, with the original condition" is checkable *)
Inductive sk :=
| SS (n : Z)                                   (* put n *)
| SX                                           (* exit repeat *)
| SIf (c : Z) (a : list sk)                    (* if (c0 < c) then a *)
| SIfE (c : Z) (a b : list sk)                 (* if (c0 > c) then a else b *)
| SWhile (c : Z) (a : list sk)                 (* repeat while c0 <> c *)
| SWith (v : nat) (a : list sk)                (* repeat with v = 1 to 9 *)
| SDown (v : nat) (a : list sk).               (* repeat with v = 9 down to 1 *)

(* name table and locals of the test handler *)
Definition flow_names : list string := ["_zero_"; "h"; "c0"; "i"; "j"; "k"; "m"; "n"; "q"; "put"].
Definition flow_locals : list node :=
  [Leaf KLocal "c0" 0 true; Leaf KLocal "i" 2 true; Leaf KLocal "j" 4 true; Leaf KLocal "k" 6 true;
   Leaf KLocal "m" 8 true; Leaf KLocal "n" 10 true; Leaf KLocal "q" 12 true].
Definition put_idx : Z := 9.

Definition jz (off : Z) : bytes := [b 149; b (off / 256); b off].
Definition jmp (off : Z) : bytes := [b 147; b (off / 256); b off].
Definition loc (v : nat) : bytes := [b 76; b (scaled v)].
Definition setloc (v : nat) : bytes := [b 82; b (scaled v)].

Fixpoint set_nth (l : bytes) (i : nat) (x : byte) : bytes :=
  match l, i with
  | [], _ => []
  | _ :: r, O => x :: r
  | y :: r, S k => y :: set_nth r k x
  end.
(* rewrite the two offset bytes of the jump at q *)
Definition patch (code : bytes) (q : nat) (off : Z) : bytes :=
  set_nth (set_nth code (S q) (b (off / 256))) (S (S q)) (b off).

Definition close_loop (head body tail : bytes) (exits : list nat) : bytes :=
  let code := head ++ jz (3 + zlen body + zlen tail + 2) ++ body ++ tail in
  let code := code ++ [b 84; b (zlen code)] in
  fold_left (fun c p => let q := (length head + 3 + p)%nat in patch c q (zlen code - Z.of_nat q)) exits code.

Definition cond_lt (c : Z) : bytes := loc 0 ++ compile_int c ++ [b 12].
Definition cond_gt (c : Z) : bytes := loc 0 ++ compile_int c ++ [b 16].
Definition cond_ne (c : Z) : bytes := loc 0 ++ compile_int c ++ [b 14].

(* (code, offsets of the exit-repeat jumps still to be patched by the enclosing loop) *)
Fixpoint comp (fuel : nat) (s : sk) : bytes * list nat :=
  match fuel with
  | O => ([], [])
  | S f =>
    let body := fix body (l : list sk) : bytes * list nat :=
      match l with
      | [] => ([], [])
      | x :: r =>
        let '(c1, e1) := comp f x in
        let '(c2, e2) := body r in
        (c1 ++ c2, e1 ++ map (fun p => (p + length c1)%nat) e2)
      end in
    match s with
    | SS n => (compile_int n ++ [b 66; b 1; b 87; b put_idx], [])
    | SX => (jmp 0, [O])
    | SIf c a =>
      let '(ca, ea) := body a in
      let cc := cond_lt c in
      (cc ++ jz (3 + zlen ca) ++ ca, map (fun p => (p + length cc + 3)%nat) ea)
    | SIfE c a bb =>
      let '(ca, ea) := body a in
      let '(cb, eb) := body bb in
      let cc := cond_gt c in
      (cc ++ jz (3 + zlen ca + 3) ++ ca ++ jmp (3 + zlen cb) ++ cb,
       map (fun p => (p + length cc + 3)%nat) ea ++ map (fun p => (p + length cc + 3 + length ca + 3)%nat) eb)
    | SWhile c a =>
      let '(ca, ea) := body a in
      (close_loop (cond_ne c) ca [] ea, [])
    | SWith v a =>
      let '(ca, ea) := body a in
      (compile_int 1 ++ setloc v ++ close_loop (loc v ++ compile_int 9 ++ [b 13]) ca (compile_int 1 ++ loc v ++ [b 5] ++ setloc v) ea, [])
    | SDown v a =>
      let '(ca, ea) := body a in
      (compile_int 9 ++ setloc v ++ close_loop (loc v ++ compile_int 1 ++ [b 17]) ca (compile_int (-1) ++ loc v ++ [b 5] ++ setloc v) ea, [])
    end
  end.
Fixpoint comp_body (fuel : nat) (l : list sk) : bytes * list nat :=
  match l with
  | [] => ([], [])
  | x :: r =>
    let '(c1, e1) := comp fuel x in
    let '(c2, e2) := comp_body fuel r in
    (c1 ++ c2, e1 ++ map (fun p => (p + length c1)%nat) e2)
  end.

Fixpoint sk_size (s : sk) : nat :=
  let sz := fix sz (l : list sk) : nat := match l with [] => O | x :: r => (sk_size x + sz r)%nat end in
  match s with
  | SS _ | SX => 1%nat
  | SIf _ a | SWhile _ a | SWith _ a | SDown _ a => S (sz a)
  | SIfE _ a bb => S (sz a + sz bb)
  end.
Definition body_size (l : list sk) : nat := fold_right (fun x a => (sk_size x + a)%nat) O l.

(* the compiled handler: the body followed by the handler's exit opcode *)
Definition compile_handler (l : list sk) : bytes := fst (comp_body (S (body_size l)) l) ++ [b 1].

(* ---- running the decompiler model on it ---- *)
Definition flow_ctx : ctx := Build_ctx [] 6 flow_names ["h"] [] [] false.
Definition flow_fn : fndef := Build_fndef "h" 0 [] flow_locals [] [] false.

Definition decompile_handler (code : bytes) : result (list node) :=
  let! (_, m) := run_ops (2 * length code + 2) code 0 (zlen code) 0 [] (Build_mstate [] flow_fn flow_ctx) in
  detect (f_stmts (m_fn m)).

(* ---- reading a decompiled statement list as a skeleton ---- *)
Definition local_index (nm : string) : option nat :=
  (fix go (l : list string) (i : nat) : option nat :=
     match l with [] => None | x :: r => if String.eqb x nm then Some i else go r (S i) end) ["c0"; "i"; "j"; "k"; "m"; "n"; "q"] O.

Definition const_val (n : node) : option Z := match n with Leaf KConst s _ _ => int_of_str s | _ => None end.
Definition is_c0 (n : node) : bool := match n with Leaf KLocal "c0" _ _ => true | _ => false end.

Definition cond_of (opname : string) (n : node) : option Z :=
  match n with
  | Binary nm _ l r => if String.eqb nm opname && is_c0 l then const_val r else None
  | _ => None
  end.

Fixpoint shape (fuel : nat) (st : node) : option sk :=
  match fuel with
  | O => None
  | S f =>
    let shapes := fix shapes (l : list node) : option (list sk) :=
      match l with
      | [] => Some []
      | x :: r => match shape f x, shapes r with Some a, Some bb => Some (a :: bb) | _, _ => None end
      end in
    match st with
    | Stmt _ (Call "put" _ (Some (LoadList _ _ [arg])) _ _ _) => option_map SS (const_val arg)
    | Stmt _ (ExitRepeat _) => Some SX
    | Stmt _ (IfThen _ c ifs []) =>
      match cond_of "lt" c, shapes ifs with Some k, Some a => Some (SIf k a) | _, _ => None end
    | Stmt _ (IfThen _ c ifs elses) =>
      match cond_of "gt" c, shapes ifs, shapes elses with Some k, Some a, Some bb => Some (SIfE k a bb) | _, _, _ => None end
    | Stmt _ (Repeat _ _ c body "while" _ _ _ _) =>
      match cond_of "ne" c, shapes body with Some k, Some a => Some (SWhile k a) | _, _ => None end
    | Stmt _ (Repeat _ _ _ body "for" (Some lo) (Some hi) v sign) =>
      match local_index v, shapes body, const_val lo, const_val hi with
      | Some i, Some a, Some l, Some h =>
        if String.eqb sign "+" && (l =? 1) && (h =? 9) then Some (SWith i a)
        else if String.eqb sign "-" && (l =? 9) && (h =? 1) then Some (SDown i a) else None
      | _, _, _, _ => None
      end
    | _ => None
    end
  end.
Fixpoint shapes (fuel : nat) (l : list node) : option (list sk) :=
  match l with
  | [] => Some []
  | x :: r => match shape fuel x, shapes fuel r with Some a, Some bb => Some (a :: bb) | _, _ => None end
  end.

(* the statements except the handler's trailing exit *)
Definition decompiled_shape (l : list sk) : option (list sk) :=
  match decompile_handler (compile_handler l) with
  | Ok sts => shapes (S (stmts_count sts)) (emitted_stmts sts)
  | _ => None
  end.

(* ---- equality of skeletons ---- *)
Fixpoint sk_eqb (fuel : nat) (x y : sk) : bool :=
  match fuel with
  | O => false
  | S f =>
    let eqs := fix eqs (l1 l2 : list sk) : bool :=
      match l1, l2 with
      | [], [] => true
      | a :: r1, c :: r2 => sk_eqb f a c && eqs r1 r2
      | _, _ => false
      end in
    match x, y with
    | SS n, SS m => n =? m
    | SX, SX => true
    | SIf c a, SIf c' a' => (c =? c') && eqs a a'
    | SIfE c a bb, SIfE c' a' b' => (c =? c') && eqs a a' && eqs bb b'
    | SWhile c a, SWhile c' a' => (c =? c') && eqs a a'
    | SWith v a, SWith v' a' => Nat.eqb v v' && eqs a a'
    | SDown v a, SDown v' a' => Nat.eqb v v' && eqs a a'
    | _, _ => false
    end
  end.
Fixpoint sks_eqb (fuel : nat) (l1 l2 : list sk) : bool :=
  match l1, l2 with
  | [], [] => true
  | a :: r1, c :: r2 => sk_eqb fuel a c && sks_eqb fuel r1 r2
  | _, _ => false
  end.

Definition reconstructed (l : list sk) : bool :=
  match decompiled_shape l with Some l' => sks_eqb (S (body_size l)) l l' | None => false end.

(* ---- the four patterns of the open findings ---- *)
Definition is_exit (s : sk) : bool := match s with SX => true | _ => false end.
Definition last_is_exit (l : list sk) : bool := match rev l with SX :: _ => true | _ => false end.
Definition exit_not_last (l : list sk) : bool := existsb is_exit (removelast l).

Fixpoint has_exit (fuel : nat) (s : sk) : bool :=
  match fuel with
  | O => false
  | S f =>
    match s with
    | SX => true
    | SIf _ a => existsb (has_exit f) a
    | SIfE _ a bb => existsb (has_exit f) a || existsb (has_exit f) bb
    | _ => false
    end
  end.

(* P1 exit repeat directly in a loop body; P2 exit repeat somewhere in an else branch; P3 exit repeat in a then
   branch but not as its last statement; P4 an if / if-else anywhere after, in the same loop body, an if whose then
   branch ends in exit repeat *)
Fixpoint bad_body (fuel : nat) (l : list sk) (inloop direct : bool) (prev_exit_if : bool) : bool :=
  match fuel with
  | O => true
  | S f =>
    match l with
    | [] => false
    | s :: r =>
      match s with
      | SS _ => bad_body f r inloop direct prev_exit_if
      | SX => direct || bad_body f r inloop direct prev_exit_if
      | SIf _ a =>
        (prev_exit_if && inloop) || exit_not_last a || bad_body f a inloop false false
        || bad_body f r inloop direct (prev_exit_if || last_is_exit a)
      | SIfE _ a bb =>
        (prev_exit_if && inloop) || exit_not_last a || existsb (has_exit fuel) bb || bad_body f a inloop false false
        || bad_body f bb inloop false false || bad_body f r inloop direct (prev_exit_if || last_is_exit a)
      | SWhile _ a | SWith _ a | SDown _ a => bad_body f a true true false || bad_body f r inloop direct prev_exit_if
      end
    end
  end.
Definition bad (l : list sk) : bool := bad_body (S (S (body_size l * 2))) l false false false.

(* ---- exhaustive enumeration ---- *)
(* unnumbered skeleton bodies with at most n compound constructs and at most [width] items per body;
   then numbering in traversal order *)
Fixpoint enum_items (fuel : nat) (n : nat) (inloop : bool) (width : nat) : list (sk * nat) :=
  (* (item, constructs used) *)
  match fuel with
  | O => []
  | S f =>
    let bodies := fun (k : nat) (il : bool) => enum_bodies f k il width width in
    [(SS 0, O)] ++ (if inloop then [(SX, O)] else []) ++
    match n with
    | O => []
    | S k =>
      map (fun p : list sk * nat => (SIf 0 (fst p), S (snd p))) (bodies k inloop) ++
      map (fun p : list sk * nat => (SWhile 0 (fst p), S (snd p))) (bodies k true) ++
      map (fun p : list sk * nat => (SWith 0 (fst p), S (snd p))) (bodies k true) ++
      map (fun p : list sk * nat => (SDown 0 (fst p), S (snd p))) (bodies k true) ++
      flat_map (fun p1 : list sk * nat =>
        map (fun p2 : list sk * nat => (SIfE 0 (fst p1) (fst p2), S (snd p1 + snd p2)))
            (bodies (k - snd p1)%nat inloop)) (bodies k inloop)
    end
  end
with enum_bodies (fuel : nat) (n : nat) (inloop : bool) (width len : nat) : list (list sk * nat) :=
  (* bodies of 1..len items *)
  match fuel with
  | O => []
  | S f =>
    match len with
    | O => []
    | S l =>
      (* exactly one item, or one item followed by a shorter body *)
      let firsts := enum_items f n inloop width in
      map (fun p : sk * nat => ([fst p], snd p)) firsts ++
      flat_map (fun p : sk * nat =>
        map (fun q : list sk * nat => (fst p :: fst q, (snd p + snd q)%nat)) (enum_bodies f (n - snd p)%nat inloop width l)) firsts
    end
  end.

(* numbering: statements 1, 2, ... and conditions 1, 2, ... in traversal order; loop variable by nesting depth *)
Fixpoint number (fuel : nat) (s : sk) (st : Z * Z) (depth : nat) : sk * (Z * Z) :=
  match fuel with
  | O => (s, st)
  | S f =>
    let nums := fix nums (d : nat) (l : list sk) (st : Z * Z) : list sk * (Z * Z) :=
      match l with
      | [] => ([], st)
      | x :: r => let '(x', st1) := number f x st d in let '(r', st2) := nums d r st1 in (x' :: r', st2)
      end in
    match s with
    | SS _ => (SS (fst st + 1), (fst st + 1, snd st))
    | SX => (SX, st)
    | SIf _ a => let c := snd st + 1 in let '(a', st1) := nums depth a (fst st, c) in (SIf c a', st1)
    | SIfE _ a bb => let c := snd st + 1 in let '(a', st1) := nums depth a (fst st, c) in let '(b', st2) := nums depth bb st1 in (SIfE c a' b', st2)
    | SWhile _ a => let c := snd st + 1 in let '(a', st1) := nums (S depth) a (fst st, c) in (SWhile c a', st1)
    | SWith _ a => let '(a', st1) := nums (S depth) a st in (SWith (S (depth mod 6)) a', st1)
    | SDown _ a => let '(a', st1) := nums (S depth) a st in (SDown (S (depth mod 6)) a', st1)
    end
  end.
Fixpoint number_body (fuel : nat) (l : list sk) (st : Z * Z) : list sk :=
  match l with
  | [] => []
  | x :: r => let '(x', st1) := number fuel x st O in x' :: number_body fuel r st1
  end.

Definition skeletons (n width : nat) : list (list sk) :=
  map (fun p : list sk * nat => number_body (S (body_size (fst p))) (fst p) (0, 0))
      (enum_bodies (2 * (n + 1) * (width + 1) + 4) n false width width).
