(* Specification side of C03, counting loops: structured programs with  repeat with v = a to b  /  repeat with v = a
   down to b  on top of SpecNest.prog.  Director compiles a counting loop as an assignment to the variable followed
   by a while loop on  v <= b  (v >= b) whose body ends in  set v = 1 + v  (-1 + v): [desugar] is that translation;
   [final] is the decompiled program, with the loop header restored and the two helper assignments gone. *)
From Coq Require Import ZArith List Bool String.
From Coq.Strings Require Import Byte.
From DRX Require Import Py.PyBytes Py.PyStr Py.PyString Model.LingoAst Model.LingoGen Model.LingoOps Spec.SpecLingo Spec.SpecFlow
  Proofs.LingoNestFacts Spec.SpecNest.
Import ListNotations.
Open Scope list_scope.
Open Scope Z_scope.

Inductive prog2 :=
| QNil
| QStmt (s : stmt) (rest : prog2)
| QIf (c : expr) (body : prog2) (rest : prog2)
| QIfE (c : expr) (body ebody : prog2) (rest : prog2)
| QWhile (c : expr) (body : prog2) (rest : prog2)
| QFor (down : bool) (v : nat) (lo hi : expr) (body : prog2) (rest : prog2)
| QExit (off : Z) (rest : prog2).       (* exit repeat: the forward jump of SpecNest.PExit, also out of a counting loop *)

(* p followed by q *)
Fixpoint papp (p q : prog) : prog :=
  match p with
  | PNil => q
  | PStmt s r => PStmt s (papp r q)
  | PIf c a r => PIf c a (papp r q)
  | PIfE c a eb r => PIfE c a eb (papp r q)
  | PWhile c a r => PWhile c a (papp r q)
  | PExit off r => PExit off (papp r q)
  end.

Definition for_init (v : nat) (lo : expr) : stmt := SSet (TLoc v) lo.
Definition for_cond (down : bool) (v : nat) (hi : expr) : expr := EBin (if down then Gte else Lte) (ELoc v) hi.
Definition for_step (down : bool) (v : nat) : stmt := SSet (TLoc v) (EBin Add (EInt (if down then -1 else 1)) (ELoc v)).

Fixpoint desugar (q : prog2) : prog :=
  match q with
  | QNil => PNil
  | QStmt s r => PStmt s (desugar r)
  | QIf c a r => PIf c (desugar a) (desugar r)
  | QIfE c a eb r => PIfE c (desugar a) (desugar eb) (desugar r)
  | QWhile c a r => PWhile c (desugar a) (desugar r)
  | QFor down v lo hi a r =>
    PStmt (for_init v lo) (PWhile (for_cond down v hi) (papp (desugar a) (PStmt (for_step down v) PNil)) (desugar r))
  | QExit off r => PExit off (desugar r)
  end.

Definition code2 (q : prog2) : bytes := compile_p (desugar q).

(* the decompiled statements; [keep] = before loop_detect deletes the initial assignments of the counting loops of
   this level (inner levels are final) *)
Fixpoint final_k (keep : bool) (en : env) (props : list string) (pc : Z) (q : prog2) : list node :=
  match q with
  | QNil => []
  | QStmt s r => reify_s en props pc s :: final_k keep en props (pc + zlen (compile_s s)) r
  | QIf c a r =>
    let pj := pc + zlen (compile_e c) in
    let ea := pj + 3 + zlen (code2 a) in
    Stmt pj (IfThen pj (reify_e en pc c) (final_k false en props (pj + 3) a) []) :: final_k keep en props ea r
  | QIfE c a eb r =>
    let pj := pc + zlen (compile_e c) in
    let jp := pj + 3 + zlen (code2 a) in
    let je := jp + 3 + zlen (code2 eb) in
    Stmt pj (IfThen pj (reify_e en pc c) (final_k false en props (pj + 3) a) (final_k false en props (jp + 3) eb))
      :: final_k keep en props je r
  | QWhile c a r =>
    let pj := pc + zlen (compile_e c) in
    let pe := pj + 3 + zlen (code2 a) in
    loop_stmt pc pe (reify_e en pc c) (final_k false en props (pj + 3) a) :: final_k keep en props (pe + 2) r
  | QFor down v lo hi a r =>
    let ps := pc + zlen (compile_s (for_init v lo)) in
    let c := for_cond down v hi in
    let pj := ps + zlen (compile_e c) in
    let pe := pj + 3 + zlen (code2 a) + zlen (compile_s (for_step down v)) in
    let loopst :=
      Stmt pe (Repeat ps pe (reify_e en ps c) (final_k false en props (pj + 3) a) "for"
                      (Some (reify_e en pc lo)) (Some (reify_e en (ps + 2) hi))
                      (name_of (nth v (e_locals en) (Leaf KLocal "" 0 true))) (if down then "-" else "+")) in
    (if keep then [reify_s en props pc (for_init v lo)] else []) ++ loopst :: final_k keep en props (pe + 2) r
  | QExit _ r => Stmt pc (ExitRepeat pc) :: final_k keep en props (pc + 3) r
  end.
Definition final (en : env) (props : list string) (pc : Z) (q : prog2) : list node := final_k false en props pc q.

(* the initial assignments loop_detect removes at this level *)
Fixpoint inits (en : env) (props : list string) (pc : Z) (q : prog2) : list node :=
  match q with
  | QNil => []
  | QStmt s r => inits en props (pc + zlen (compile_s s)) r
  | QIf c a r => inits en props (pc + zlen (compile_e c) + 3 + zlen (code2 a)) r
  | QIfE c a eb r => inits en props (pc + zlen (compile_e c) + 3 + zlen (code2 a) + 3 + zlen (code2 eb)) r
  | QWhile c a r => inits en props (pc + zlen (compile_e c) + 3 + zlen (code2 a) + 2) r
  | QFor down v lo hi a r =>
    let ps := pc + zlen (compile_s (for_init v lo)) in
    let pe := ps + zlen (compile_e (for_cond down v hi)) + 3 + zlen (code2 a) + zlen (compile_s (for_step down v)) in
    reify_s en props pc (for_init v lo) :: inits en props (pe + 2) r
  | QExit _ r => inits en props (pc + 3) r
  end.

(* side conditions: plain while loops have conditions loop_detect cannot misread; the counting variable is a local
   variable node *)
Fixpoint ok2 (en : env) (q : prog2) : Prop :=
  match q with
  | QNil => True
  | QStmt _ r => ok2 en r
  | QIf _ a r => ok2 en a /\ ok2 en r
  | QIfE _ a eb r => ok2 en a /\ ok2 en eb /\ ok2 en r
  | QWhile c a r => (forall pc, wcond_ok (reify_e en pc c) = true) /\ ok2 en a /\ ok2 en r
  | QFor _ v _ _ a r =>
    match nth v (e_locals en) (Leaf KLocal "" 0 true) with Leaf KLocal _ _ _ => True | _ => False end /\ ok2 en a /\ ok2 en r
  | QExit _ r => ok2 en r
  end.
