(* Specification side of C02, text level: the canonical Lingo print of a source expression as a token list,
   its rendering as text, and a parser for Lingo expressions with operator precedence (precedence climbing).
   Tokens are semantic: a variable token carries its kind and number (telling a local from a parameter, a
   global or a declared property by its spelling is the job of the scope rules and is not modelled), a pool
   constant is one token (what its text denotes is C11). *)
From Coq Require Import ZArith List Bool String.
From DRX Require Import Py.PyBytes Py.PyStr Py.PyString Model.LingoAst Model.LingoGen Model.LingoOps Spec.SpecLingo Gen.Gen_Lingo.
Import ListNotations.
Open Scope string_scope.
Open Scope list_scope.
Local Notation length := List.length (only parsing).

Inductive tok :=
| TSp | TLP | TRP | TLB | TRB | TComma | TColon | TMinus
| TNot | TSprite
| TOp (o : binop)
| TInt (z : Z) | TConst (k : nat) | THash (n : nat)
| TkLoc (i : nat) | TkPar (i : nat) | TkGlob (n : nat) | TkProp (n : nat)
| TFun (f : nat) | TLFun (f : nat)
(* the <property> of <object> <id>: the property token carries the form and the property number *)
| TThe | TOf | TObjProp (f : ofam) (pid : nat) | TKw (f : ofam) | TRawInt (z : Z) | TRawConst (k : nat) | TItemKw | TMenuProp (pid : nat)
| TTheProp (k : thekind) (i : nat)       (* the <special property / date-time function / system property>, one token *)
| TTheName (n : nat)                     (* the <names[n]>, one token *)
| TName (n : nat)                        (* names[n], in  the <name> of <expression> *)
| TTheKey (n : nat).                     (* the <names[n]>: a key / mouse / date property, one token *)

(* the text of a property addressed by name: the text of the_name_node *)
Definition the_name_text (name : string) : string :=
  match assoc_str name ASSIGN_KNOWN_PROPERTIES with
  | Some o => if String.eqb o "me" then name
              else if starts_with "_" o || String.eqb o "tell_obj" then "the " ++ name else "the " ++ name ++ " of " ++ o
  | None => if mem_str name VARIABLE_KNOWN_SYMBOLS then name else "the " ++ name
  end.

Definition render_tok (en : env) (t : tok) : string :=
  match t with
  | TSp => " " | TLP => "(" | TRP => ")" | TLB => "[" | TRB => "]" | TComma => "," | TColon => ":" | TMinus => "-"
  | TNot => "not" | TSprite => "sprite"
  | TOp o => bsym o
  | TInt z => lingo_const KConst (str_of_int z)        (* the digits, through the constant renderer *)
  | TConst k => match nth k (e_consts en) (CInt 0) with CStr s => lingo_const KConst s | CInt z => str_of_int z end
  | THash n => "#" ++ nm en n
  | TkLoc i => name_of (nth i (e_locals en) (Leaf KLocal "" 0 true))
  | TkPar i => name_of (nth i (e_params en) (Leaf KParam "" 0 true))
  | TkGlob n | TkProp n => nm en n
  | TFun f => nm en f
  | TLFun f => nth f (e_lfuncs en) ""
  | TThe => "the" | TOf => "of"
  | TObjProp f pid =>
    match f with
    | FLast => "last " ++ nth (pid - 11) OPERATION_TYPES ""
    | FNumber => "number of " ++ nth pid OPERATION_TYPES "" ++ "s"
    | FMenuName => "name"
    | FMenuItems => "number of menuItems"
    | _ => nth pid (ftable f) ""
    end
  | TKw f => match f with FSound => "sound" | FSprite => "sprite" | FCast | FVideo => "cast" | FField => "field"
                        | FMenuName | FMenuItems => "menu" | _ => "" end
  | TRawInt z => str_of_int z            (* the identifier of an object, written as it is: a number ... *)
  | TRawConst k => match nth k (e_consts en) (CInt 0) with CStr s => s | CInt z => str_of_int z end   (* ... or a pool constant *)
  | TItemKw => "menuItem"
  | TMenuProp pid => nth pid MENUITEM_PROPERTIES ""
  | TTheName n => the_name_text (nm en n)
  | TName n => nm en n
  | TTheKey n => "the " ++ nm en n
  | TTheProp k i =>
    let name := nth i (the_table k) "" in
    match k with
    | TSpecial => if mem_str name VARIABLE_KNOWN_SYMBOLS then name else "the " ++ name
    | TNumOf => if String.eqb name "perFrameHook" then "the perFrameHook" else "the number of " ++ name
    | _ => "the " ++ name
    end
  end.
Definition render (en : env) (ts : list tok) : string := concat_all (map (render_tok en) ts).

(* a, b, c  ->  a ", " b ", " c *)
Fixpoint sep_toks (l : list (list tok)) : list tok :=
  match l with
  | [] => []
  | [x] => x
  | x :: r => x ++ [TComma; TSp] ++ sep_toks r
  end.
Fixpoint pair_toks (l : list (list tok)) : list (list tok) :=
  match l with
  | k :: v :: r => (k ++ [TColon; TSp] ++ v) :: pair_toks r
  | _ => []
  end.

(* the identifier of a sound / sprite / cast / menu / menuItem: a constant is written as it is (IdentifiedObject) *)
Definition raw_fam (f : ofam) : bool :=
  match f with FSound | FSprite | FCast | FVideo | FMenuName | FMenuItems => true | _ => false end.
Definition raw_or (x : expr) (ts : list tok) : list tok :=
  match x with EInt n => [TRawInt n] | EConst k => [TRawConst k] | _ => ts end.

Fixpoint pp_tok (en : env) (e : expr) {struct e} : list tok :=
  match e with
  | EInt n => [TInt n]
  | EConst k => [TConst k]
  | ESym n => [THash n]
  | ELoc i => [TkLoc i] | EPar i => [TkPar i] | EGlob n => [TkGlob n] | EProp n => [TkProp n]
  | EBin o x y =>
    if is_sprite_op o then [TSprite; TSp] ++ pp_tok en x ++ [TSp; TOp o; TSp] ++ pp_tok en y
    else [TLP] ++ pp_tok en x ++ [TSp; TOp o; TSp] ++ pp_tok en y ++ [TRP]
  | ENeg x => let px := pp_tok en x in
              TMinus :: (if starts_with "-" (render en px) then [TLP] ++ px ++ [TRP] else px)
  | ENot x => [TNot; TSp] ++ pp_tok en x
  | ECall f args => match args with
                    | [] => [TFun f; TLP; TRP]
                    | _ => [TFun f; TLP] ++ sep_toks (map (pp_tok en) args) ++ [TRP]
                    end
  | ELCall f args => match args with
                     | [] => [TLFun f]
                     | _ => [TLFun f; TLP] ++ sep_toks (map (pp_tok en) args) ++ [TRP]
                     end
  | EList items => [TLB] ++ sep_toks (map (pp_tok en) items) ++ [TRB]
  | EPList items => match items with
                    | [] => [TLB; TColon; TRB]
                    | _ => [TLB] ++ sep_toks (pair_toks (map (pp_tok en) items)) ++ [TRB]
                    end
  | EObj f pid x =>
    [TThe; TSp; TObjProp f pid; TSp; TOf; TSp] ++ (match f with FLast | FNumber => [] | _ => [TKw f; TSp] end) ++
    (if raw_fam f then raw_or x (pp_tok en x) else pp_tok en x)
  | EMenu pid it mn =>
    [TThe; TSp; TMenuProp pid; TSp; TOf; TSp; TItemKw; TSp] ++ raw_or it (pp_tok en it) ++
    [TSp; TOf; TSp; TKw FMenuName; TSp] ++ raw_or mn (pp_tok en mn)
  | EThe k i => [TTheProp k i]
  | ETheN n => [TTheName n]
  | EAcc n x => [TThe; TSp; TName n; TSp; TOf; TSp] ++ pp_tok en x
  | EKey n => [TTheKey n]
  | EField x => [TKw FField; TSp] ++ pp_tok en x
  end.

(* ---- the parser ---- *)
(* Lingo's precedence levels: comparison 1 < & && 2 < + - 3 < * / mod and or 4 (as in tie/lingo_spec.py) *)
Definition prec (o : binop) : nat :=
  match o with
  | Lt | Lte | Ne | Eq | Gt | Gte | Contains | Start => 1
  | Concat | Concats => 2
  | Add | Sub => 3
  | Mul | Div | Mod | And | Or => 4
  | Intersects | Within => 0
  end%nat.

Definition strip (ts : list tok) : list tok := filter (fun t => match t with TSp => false | _ => true end) ts.

(* comma-separated expressions (at least one), given the expression parser; [g] bounds the number of elements *)
Fixpoint args_loop (pe : list tok -> option (expr * list tok)) (g : nat) (ts : list tok) : option (list expr * list tok) :=
  match g with
  | O => None
  | S g' =>
    match pe ts with
    | Some (e, TComma :: r') => match args_loop pe g' r' with Some (es, r'') => Some (e :: es, r'') | None => None end
    | Some (e, r') => Some ([e], r')
    | None => None
    end
  end.
(* the rest of a property list after "k :" : value, then either "]" or ", k2 : ..." ; returns the flat key/value list *)
Fixpoint pairs_loop (pe : list tok -> option (expr * list tok)) (g : nat) (k : expr) (ts : list tok) : option (list expr * list tok) :=
  match g with
  | O => None
  | S g' =>
    match pe ts with
    | Some (v, TComma :: r2) =>
      match pe r2 with
      | Some (k2, TColon :: r3) =>
        match pairs_loop pe g' k2 r3 with
        | Some (rest, r4) => Some (k :: v :: rest, r4)
        | None => None
        end
      | _ => None
      end
    | Some (v, TRB :: r2) => Some ([k; v], r2)
    | _ => None
    end
  end.

(* fuel bounds the recursion depth; every call passes fuel - 1 *)
Fixpoint parse_u (fuel : nat) (ts : list tok) {struct fuel} : option (expr * list tok) :=
  match fuel with
  | O => None
  | S f =>
    (* a full expression: a unary expression, then the binary-operator loop *)
    let parse_e := fun (ts : list tok) =>
      match parse_u f ts with
      | Some (a, r) => parse_loop f 1 a r
      | None => None
      end in
    (* the identifier of an object: a plain number stands for itself, anything else is a unary-level expression *)
    let operand := fun (ts : list tok) =>
      match ts with
      | TRawInt n :: r' => Some (EInt n, r')
      | TRawConst k :: r' => Some (EConst k, r')
      | _ => parse_u f ts
      end in
    match ts with
    | TInt z :: r => Some (EInt z, r)
    | TConst k :: r => Some (EConst k, r)
    | THash n :: r => Some (ESym n, r)
    | TkLoc i :: r => Some (ELoc i, r)
    | TkPar i :: r => Some (EPar i, r)
    | TkGlob n :: r => Some (EGlob n, r)
    | TkProp n :: r => Some (EProp n, r)
    | TMinus :: r => match parse_u f r with Some (e, r') => Some (ENeg e, r') | None => None end
    | TNot :: r => match parse_u f r with Some (e, r') => Some (ENot e, r') | None => None end
    | TKw FField :: r => match parse_u f r with Some (e, r') => Some (EField e, r') | None => None end
    | TSprite :: r =>
      match parse_u f r with
      | Some (a, TOp o :: r') =>
        if is_sprite_op o then match parse_u f r' with Some (c, r'') => Some (EBin o a c, r'') | None => None end else None
      | _ => None
      end
    | TLP :: r =>
      match parse_e r with
      | Some (e, TRP :: r') => Some (e, r')
      | _ => None
      end
    | TFun fn :: TLP :: TRP :: r => Some (ECall fn [], r)
    | TFun fn :: TLP :: r =>
      match args_loop parse_e f r with Some (es, TRP :: r') => Some (ECall fn es, r') | _ => None end
    | TLFun fn :: TLP :: r =>
      match args_loop parse_e f r with Some (es, TRP :: r') => Some (ELCall fn es, r') | _ => None end
    | TLFun fn :: r => Some (ELCall fn [], r)
    | TTheProp k i :: r => Some (EThe k i, r)
    | TTheName n :: r => Some (ETheN n, r)
    | TTheKey n :: r => Some (EKey n, r)
    | TThe :: TName n :: TOf :: r => match parse_u f r with Some (x, r') => Some (EAcc n x, r') | None => None end
    | TLB :: TColon :: TRB :: r => Some (EPList [], r)
    | TLB :: TRB :: r => Some (EList [], r)
    | TThe :: TObjProp fam pid :: TOf :: r =>
      (* the <property> of [<object keyword>] <operand>; a plain number after the keyword is the identifier itself *)
      let r1 := match fam with FLast | FNumber => Some r | _ => match r with TKw _ :: r' => Some r' | _ => None end end in
      match r1 with
      | None => None
      | Some r1' => match operand r1' with Some (x, r2) => Some (EObj fam pid x, r2) | None => None end
      end
    | TThe :: TMenuProp pid :: TOf :: TItemKw :: r =>
      match operand r with
      | Some (it, TOf :: TKw _ :: r1) => match operand r1 with Some (mn, r2) => Some (EMenu pid it mn, r2) | None => None end
      | _ => None
      end
    | TLB :: r =>
      (* a linear list, or a property list when the first element is followed by a colon *)
      match parse_e r with
      | Some (k, TColon :: r1) =>
        match pairs_loop parse_e f k r1 with Some (kv, r') => Some (EPList kv, r') | None => None end
      | Some (e, TComma :: r1) =>
        match args_loop parse_e f r1 with Some (es, TRB :: r') => Some (EList (e :: es), r') | _ => None end
      | Some (e, TRB :: r') => Some (EList [e], r')
      | _ => None
      end
    | _ => None
    end
  end
with parse_loop (fuel : nat) (minlvl : nat) (a : expr) (ts : list tok) {struct fuel} : option (expr * list tok) :=
  match fuel with
  | O => None
  | S f =>
    match ts with
    | TOp o :: r =>
      if negb (is_sprite_op o) && (minlvl <=? prec o)%nat then
        match parse_u f r with
        | Some (c0, r1) =>
          match parse_loop f (S (prec o)) c0 r1 with
          | Some (c, r2) => parse_loop f minlvl (EBin o a c) r2
          | None => None
          end
        | None => None
        end
      else Some (a, ts)
    | _ => Some (a, ts)
    end
  end.

(* an expression: a unary expression followed by the operator loop *)
Definition parse_expr (fuel : nat) (ts : list tok) : option (expr * list tok) :=
  match parse_u fuel ts with
  | Some (a, r) => parse_loop fuel 1 a r
  | None => None
  end.
