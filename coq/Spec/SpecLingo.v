(* Specification side of the decompiler properties: a source-level syntax of Lingo programs, Director's
   code-generation scheme for it, and what the decompiler is expected to rebuild.  Written independently of the
   implementation (from the public description of the bytecode and the fixtures); tie/lingo_spec.py is its
   Python twin used by the harness as oracle.

   Identifiers are indices: into the name table (symbols, globals, properties, external handlers), into the
   handler's parameter / local lists, into the script's handler list, into the constant pool. *)
From Coq Require Import ZArith List Bool String.
From Coq.Strings Require Import Byte.
From DRX Require Import Py.PyBytes Py.PyStr Py.PyString Model.LingoAst Model.LingoGen Model.LingoOps Gen.Gen_Lingo.
Import ListNotations.
Open Scope string_scope.
Open Scope list_scope.
Open Scope Z_scope.

Inductive binop := Mul | Add | Sub | Div | Mod | Concat | Concats | Lt | Lte | Ne | Eq | Gt | Gte | And | Or
                 | Contains | Start | Intersects | Within.

(* the operator bytes of the bytecode (public description) *)
Definition bcode (o : binop) : Z :=
  match o with
  | Mul => 4 | Add => 5 | Sub => 6 | Div => 7 | Mod => 8 | Concat => 10 | Concats => 11 | Lt => 12 | Lte => 13 | Ne => 14
  | Eq => 15 | Gt => 16 | Gte => 17 | And => 18 | Or => 19 | Contains => 21 | Start => 22 | Intersects => 25 | Within => 26
  end.
(* the decompiler's name of the operator node *)
Definition bname (o : binop) : string :=
  match o with
  | Mul => "mul" | Add => "add" | Sub => "sub" | Div => "div" | Mod => "mod" | Concat => "concat" | Concats => "concats"
  | Lt => "lt" | Lte => "lte" | Ne => "ne" | Eq => "eq" | Gt => "gt" | Gte => "gte" | And => "and" | Or => "or"
  | Contains => "contains" | Start => "start" | Intersects => "intersects" | Within => "within"
  end.
(* Lingo's spelling *)
Definition bsym (o : binop) : string :=
  match o with
  | Mul => "*" | Add => "+" | Sub => "-" | Div => "/" | Mod => "mod" | Concat => "&" | Concats => "&&"
  | Lt => "<" | Lte => "<=" | Ne => "<>" | Eq => "=" | Gt => ">" | Gte => ">=" | And => "and" | Or => "or"
  | Contains => "contains" | Start => "start" | Intersects => "intersects" | Within => "within"
  end.
Definition is_sprite_op (o : binop) : bool := match o with Intersects | Within => true | _ => false end.

(* objects whose properties are read by number: the <property> of sound / sprite / cast <id> *)
(* ... and the other one-operand forms of the same opcode family: the <property> of field <e>, the last <chunk> of <e>,
   the number of <chunk>s in <e>, the name of menu <e>, the number of menuItems of menu <e> *)
Inductive ofam := FSound | FSprite | FCast | FVideo | FField | FLast | FNumber | FMenuName | FMenuItems.
Definition fcode (f : ofam) : Z :=
  match f with FSound => 4 | FSprite => 6 | FCast => 9 | FVideo => 13 | FField => 11 | FLast => 0 | FNumber => 1 | FMenuName | FMenuItems => 2 end.
Definition fclass (f : ofam) : lclass := match f with FSound => KSound | FSprite => KSprite | _ => KCast end.
(* the property names, by number (the decompiler's tables, regenerated from /repo on every run) *)
Definition ftable (f : ofam) : list string :=
  match f with
  | FSound => SOUND_PROPERTIES | FSprite => SPRITE_PROPERTIES | FCast | FField => CAST_PROPERTIES | FVideo => VIDEO_PROPERTIES
  | FLast | FNumber => OPERATION_TYPES | FMenuName | FMenuItems => []
  end.
(* which property numbers a form takes *)
Definition fpid_ok (f : ofam) (pid : nat) : Prop :=
  match f with
  | FLast => (12 <= pid < 11 + List.length OPERATION_TYPES)%nat
  | FMenuName => pid = 1%nat
  | FMenuItems => pid = 2%nat
  | _ => (pid < List.length (ftable f))%nat
  end.
(* the tree of the form: po = address of the opcode, o = the tree of the operand *)
Definition obj_node (f : ofam) (pid : nat) (po : Z) (o : node) : node :=
  match f with
  | FSound | FSprite | FCast | FVideo => Accessor po (ObjRef (fclass f) (name_of o) po o) (nth pid (ftable f) "")
  | FField => Accessor po (Unary "field" po o) (nth pid CAST_PROPERTIES "")
  | FLast => UStrOp "last" po (Some (nth (pid - 11) OPERATION_TYPES "")) o
  | FNumber => UStrOp "number" po (Some (nth pid OPERATION_TYPES "")) o
  | FMenuName => UStrOp "name" po None (ObjRef KMenu (name_of o) po o)
  | FMenuItems => UStrOp "number" po None (MenuItemsAcc po (ObjRef KMenu (name_of o) po o))
  end.
(* the forms that can be assigned to with the 5D opcodes *)
Definition assignable (f : ofam) : bool := match f with FSound | FSprite | FCast | FVideo => true | _ => false end.

(* the zero-operand "the" forms of the 5C family: the <special property> (5C 00, numbers 0-5), the <date / time
   function> (5C 00, numbers 6-11) and the <system property> (5C 07) *)
Inductive thekind := TSpecial | TDateTime | TSystem | TNumOf.     (* TNumOf: the number of castMembers / menus, the perFrameHook (5C 08) *)
Definition the_num (k : thekind) (i : nat) : Z := match k with TDateTime => Z.of_nat i + 6 | _ => Z.of_nat i end.
Definition the_code (k : thekind) : Z := match k with TSystem => 7 | TNumOf => 8 | _ => 0 end.
Definition the_table (k : thekind) : list string :=
  match k with TSpecial => SPECIAL_PROPERTIES | TDateTime => DATE_TIME_FUNCTIONS | TSystem => map fst SYSTEM_PROPERTIES | TNumOf => NUM_OF_TYPES end.
Definition the_node (k : thekind) (i : nat) (po : Z) : node :=
  let name := nth i (the_table k) "" in
  match k with
  | TSpecial => Leaf KPropName name po true
  | TDateTime => Leaf KDateTime name po true
  | TSystem => Accessor po (Leaf KLocal (assoc_or name SYSTEM_PROPERTIES) po true) name
  | TNumOf => if String.eqb name "perFrameHook" then Accessor po (Leaf KLocal "_system" po true) "perFrameHook"
              else UStrOp "number" po None (Leaf KLocal name po true)
  end.

(* a property addressed by name: attached to its runtime object when the decompiler's table knows one *)
Definition the_name_node (name : string) (po : Z) : node :=
  match assoc_str name ASSIGN_KNOWN_PROPERTIES with
  | Some o => Accessor po (Leaf KLocal o po true) name
  | None => Leaf KPropName name po true
  end.

Inductive expr :=
| EInt (n : Z)                      (* inline integer: zero, one-byte or two-byte form *)
| EConst (k : nat)                  (* k-th constant of the pool (string, 32-bit integer, float) *)
| ESym (n : nat)                    (* #name *)
| ELoc (i : nat) | EPar (i : nat)   (* local variable / parameter number i of the handler *)
| EGlob (n : nat) | EProp (n : nat) (* global variable / declared property, by name index *)
| EBin (o : binop) (a b : expr)
| ENeg (a : expr) | ENot (a : expr)
| ECall (f : nat) (args : list expr)       (* external handler names[f] *)
| ELCall (f : nat) (args : list expr)      (* handler number f of this script *)
| EList (items : list expr)
| EPList (items : list expr)               (* key, value, key, value, ... *)
| EObj (f : ofam) (pid : nat) (a : expr)   (* the <property number pid> of <sound / sprite / cast> a *)
| EMenu (pid : nat) (item menu : expr)     (* the <property number pid> of menuItem item of menu menu *)
| EThe (k : thekind) (i : nat)             (* the <i-th special property / date-time function / system property> *)
| ETheN (n : nat)                          (* the <names[n]>: a property addressed by name (5F n) *)
| EAcc (n : nat) (a : expr)                (* the <names[n]> of a (61 n) *)
| EKey (n : nat)                           (* the <names[n]>: a key / mouse / date property (empty argument list, 66 n) *)
| EField (a : expr).                       (* field a (1B) *)

Definition b (z : Z) : byte := byte_of_Z z.

(* integer literal *)
Definition compile_int (n : Z) : bytes :=
  if n =? 0 then [b 3]
  else if (-128 <=? n) && (n <=? 127) then [b 65; b n]
  else [b 129; b (n / 256); b n].
(* operand scaled by the record width (6) *)
Definition scaled (i : nat) : Z := Z.of_nat i * 6.
(* pool reference: one-byte operand while it fits *)
Definition compile_const (k : nat) : bytes :=
  if scaled k <? 256 then [b 68; b (scaled k)] else [b 132; b (scaled k / 256); b (scaled k)].
(* argument list: count in one byte while it fits; [expr_pos] selects the "expression" variant *)
Definition compile_arglist (n : nat) (expr_pos : bool) : bytes :=
  let z := Z.of_nat n in
  if z <? 256 then [b (if expr_pos then 67 else 66); b z]
  else [b (if expr_pos then 131 else 130); b (z / 256); b z].

Fixpoint compile_e (e : expr) : bytes :=
  match e with
  | EInt n => compile_int n
  | EConst k => compile_const k
  | ESym n => [b 69; b (Z.of_nat n)]
  | ELoc i => [b 76; b (scaled i)]
  | EPar i => [b 75; b (scaled i)]
  | EGlob n => [b 73; b (Z.of_nat n)]
  | EProp n => [b 74; b (Z.of_nat n)]
  | EBin o x y => compile_e x ++ compile_e y ++ [b (bcode o)]
  | ENeg x => compile_e x ++ [b 9]
  | ENot x => compile_e x ++ [b 20]
  | EField x => compile_e x ++ [b 27]
  | ECall f args => flat_map compile_e args ++ compile_arglist (List.length args) true ++ [b 87; b (Z.of_nat f)]
  | ELCall f args => flat_map compile_e args ++ compile_arglist (List.length args) true ++ [b 86; b (Z.of_nat f)]
  | EList items => flat_map compile_e items ++ compile_arglist (List.length items) true ++ [b 30]
  | EPList items => flat_map compile_e items ++ compile_arglist (List.length items) true ++ [b 31]
  | EObj f pid x => compile_e x ++ compile_int (Z.of_nat pid) ++ [b 92; b (fcode f)]
  | EMenu pid it mn => compile_e it ++ compile_e mn ++ compile_int (Z.of_nat pid) ++ [b 92; b 3]
  | EThe k i => compile_int (the_num k i) ++ [b 92; b (the_code k)]
  | ETheN n => [b 95; b (Z.of_nat n)]
  | EAcc n x => compile_e x ++ [b 97; b (Z.of_nat n)]
  | EKey n => compile_arglist 0 true ++ [b 102; b (Z.of_nat n)]
  end.

(* number of instructions *)
Fixpoint ninstr (e : expr) : nat :=
  match e with
  | EBin _ x y => ninstr x + ninstr y + 1
  | ENeg x | ENot x | EField x => ninstr x + 1
  | EObj _ _ x => ninstr x + 2
  | EMenu _ it mn => ninstr it + (ninstr mn + 2)
  | EThe _ _ => 2
  | ETheN _ => 1
  | EAcc _ x => ninstr x + 1
  | EKey _ => 2
  | ECall _ args | ELCall _ args => fold_right (fun x a => ninstr x + a) 0 args + 2
  | EList items | EPList items => fold_right (fun x a => ninstr x + a) 0 items + 2
  | _ => 1
  end%nat.

(* ---- the environment a handler is compiled in / decompiled with ---- *)
Record env := {
  e_names : list string;          (* name table *)
  e_params : list node;           (* FunctionDef.parameters of the handler being decompiled *)
  e_locals : list node;           (* FunctionDef.local_vars *)
  e_lfuncs : list string;         (* handler names of the script *)
  e_consts : list const }.        (* constant pool as parse_lrcr_crb returns it *)

Definition nm (en : env) (n : nat) : string := nth n (e_names en) "".

(* the tree the decompiler is expected to build for e when its code starts at address pc *)
Definition arglist_len (n : nat) : Z := if Z.of_nat n <? 256 then 2 else 3.
Fixpoint reify_e (en : env) (pc : Z) (e : expr) {struct e} : node :=
  let reify_args := fix go (pc : Z) (l : list expr) : list node * Z :=
    match l with
    | [] => ([], pc)
    | x :: r => let n := reify_e en pc x in
                let '(ns, pc') := go (pc + zlen (compile_e x)) r in (n :: ns, pc')
    end in
  match e with
  | EInt n => Leaf KConst (str_of_int n) pc true
  | EConst k => const_node (nth k (e_consts en) (CInt 0)) pc
  | ESym n => Leaf KSymbol (nm en n) pc true
  | ELoc i => nth i (e_locals en) (Leaf KLocal "" 0 true)
  | EPar i => Leaf KParam (name_of (nth i (e_params en) (Leaf KParam "" 0 true))) pc true
  | EGlob n => Leaf KGlobal (nm en n) pc true
  | EProp n => Leaf KDefPropName (nm en n) pc true
  | EBin o x y =>
    let px := pc in let py := pc + zlen (compile_e x) in
    Binary (bname o) (py + zlen (compile_e y)) (reify_e en px x) (reify_e en py y)
  | ENeg x => Unary "minus" (pc + zlen (compile_e x)) (reify_e en pc x)
  | ENot x => Unary "not" (pc + zlen (compile_e x)) (reify_e en pc x)
  | EField x => Unary "field" (pc + zlen (compile_e x)) (reify_e en pc x)
  | ECall f args =>
    let '(ns, pa) := reify_args pc args in
    Call (nm en f) (pa + arglist_len (List.length args)) (Some (LoadList "<load_list>" pa (rev ns))) true false false
  | ELCall f args =>
    let '(ns, pa) := reify_args pc args in
    Call (nth f (e_lfuncs en) "") (pa + arglist_len (List.length args)) (Some (LoadList "<load_list>" pa (rev ns))) true false true
  | EList items =>
    let '(ns, pa) := reify_args pc items in
    ToList (pa + arglist_len (List.length items)) (LoadList "<load_list>" pa (rev ns))
  | EPList items =>
    let '(ns, pa) := reify_args pc items in
    ToDict (pa + arglist_len (List.length items)) (LoadList "<load_list>" pa (rev ns))
  | EObj f pid x =>
    let po := pc + zlen (compile_e x) + zlen (compile_int (Z.of_nat pid)) in
    obj_node f pid po (reify_e en pc x)
  | EMenu pid it mn =>
    let pm := pc + zlen (compile_e it) in
    let po := pm + zlen (compile_e mn) + zlen (compile_int (Z.of_nat pid)) in
    let i := reify_e en pc it in let mnode := reify_e en pm mn in
    Accessor po (MenuItemAcc po (ObjRef KMenu (name_of mnode) po mnode) (ObjRef KMenuItem (name_of i) po i)) (nth pid MENUITEM_PROPERTIES "")
  | EThe k i => the_node k i (pc + zlen (compile_int (the_num k i)))
  | ETheN n => the_name_node (nm en n) pc
  | EAcc n x => Accessor (pc + zlen (compile_e x)) (reify_e en pc x) (nm en n)
  | EKey n => KeyAccessor (pc + 2) (nm en n)
  end.

Fixpoint reify_args (en : env) (pc : Z) (l : list expr) : list node * Z :=
  match l with
  | [] => ([], pc)
  | x :: r => let n := reify_e en pc x in
              let '(ns, pc') := reify_args en (pc + zlen (compile_e x)) r in (n :: ns, pc')
  end.

(* global variables in evaluation order: each first use is recorded in FunctionDef.global_vars *)
Fixpoint globals_e (en : env) (pc : Z) (e : expr) {struct e} : list node :=
  let go_args := fix go (pc : Z) (l : list expr) : list node :=
    match l with
    | [] => []
    | x :: r => globals_e en pc x ++ go (pc + zlen (compile_e x)) r
    end in
  match e with
  | EGlob n => [Leaf KGlobal (nm en n) pc true]
  | EBin _ x y => globals_e en pc x ++ globals_e en (pc + zlen (compile_e x)) y
  | ENeg x | ENot x | EObj _ _ x | EAcc _ x | EField x => globals_e en pc x
  | EMenu _ it mn => globals_e en pc it ++ globals_e en (pc + zlen (compile_e it)) mn
  | ECall _ args | ELCall _ args | EList args | EPList args => go_args pc args
  | _ => []
  end.
Fixpoint globals_args (en : env) (pc : Z) (l : list expr) : list node :=
  match l with
  | [] => []
  | x :: r => globals_e en pc x ++ globals_args en (pc + zlen (compile_e x)) r
  end.
Definition add_global (g : list node) (x : node) : list node := if mem_node x g then g else g ++ [x].
Definition add_globals (g : list node) (xs : list node) : list node := fold_left add_global xs g.

(* ---- well-formedness: the side conditions of the scheme ---- *)
Fixpoint wf_e (en : env) (e : expr) {struct e} : Prop :=
  match e with
  | EInt n => -32768 <= n <= 32767
  | EConst k => (k < List.length (e_consts en))%nat /\ scaled k < 65536
  | ESym n | EGlob n | EProp n => (n < List.length (e_names en))%nat /\ Z.of_nat n < 256
  | ELoc i => (i < List.length (e_locals en))%nat /\ scaled i < 256
  | EPar i => (i < List.length (e_params en))%nat /\ scaled i < 256
  | EBin _ x y => wf_e en x /\ wf_e en y
  | ENeg x | ENot x | EField x => wf_e en x
  | ECall f args => (f < List.length (e_names en))%nat /\ Z.of_nat f < 256 /\ Z.of_nat (List.length args) < 65536 /\
                    (fix all (l : list expr) : Prop := match l with [] => True | x :: r => wf_e en x /\ all r end) args
  | ELCall f args => (f < List.length (e_lfuncs en))%nat /\ Z.of_nat f < 256 /\ Z.of_nat (List.length args) < 65536 /\
                    (fix all (l : list expr) : Prop := match l with [] => True | x :: r => wf_e en x /\ all r end) args
  | EList items => Z.of_nat (List.length items) < 65536 /\
                    (fix all (l : list expr) : Prop := match l with [] => True | x :: r => wf_e en x /\ all r end) items
  | EPList items => Z.of_nat (List.length items) < 65536 /\ Nat.even (List.length items) = true /\
                    (fix all (l : list expr) : Prop := match l with [] => True | x :: r => wf_e en x /\ all r end) items
  | EObj f pid x => fpid_ok f pid /\ wf_e en x
  | EMenu pid it mn => (pid < List.length MENUITEM_PROPERTIES)%nat /\ wf_e en it /\ wf_e en mn
  | EThe k i => (i < List.length (the_table k))%nat
  | ETheN n | EKey n => (n < List.length (e_names en))%nat /\ Z.of_nat n < 256
  | EAcc n x => (n < List.length (e_names en))%nat /\ Z.of_nat n < 256 /\ wf_e en x
  end.
Fixpoint wf_args (en : env) (l : list expr) : Prop := match l with [] => True | x :: r => wf_e en x /\ wf_args en r end.

(* the machine state agrees with the environment *)
Definition agrees (en : env) (m : mstate) : Prop :=
  c_names (m_ctx m) = e_names en /\ c_lfuncs (m_ctx m) = e_lfuncs en /\ c_consts (m_ctx m) = e_consts en /\
  c_bpc (m_ctx m) = 6 /\ f_params (m_fn m) = e_params en /\ f_locals (m_fn m) = e_locals en /\
  c_tell (m_ctx m) = false.      (* not inside a tell block: a system property is attached to its own object *)

(* ---- straight-line statements ---- *)
Inductive target := TLoc (i : nat) | TPar (i : nat) | TGlob (n : nat) | TProp (n : nat)
  | TByName (n : nat).     (* set the <names[n]> = ... : the by-name write 60 n, same opcode class as the property write 50 n *)
(* put ... into / after / before *)
Inductive pmode := PInto | PAfter | PBefore.
Definition pcode (md : pmode) : Z := match md with PInto => 1 | PAfter => 2 | PBefore => 3 end.
Definition pname (md : pmode) : string := match md with PInto => "into" | PAfter => "after" | PBefore => "before" end.

Inductive stmt :=
| SSet (t : target) (e : expr)                 (* set t = e *)
| SCallS (f : nat) (args : list expr)          (* external handler, statement position *)
| SLCallS (f : nat) (args : list expr)         (* handler of this script, statement position *)
| SSetObj (f : ofam) (pid : nat) (o v : expr)  (* set the <property pid> of <sound / sprite / cast> o to v *)
| SSetThe (k : thekind) (i : nat) (v : expr)   (* set the <special / system property i> to v (5D 00 / 5D 07) *)
| SSetAcc (n : nat) (o v : expr)               (* set the <names[n]> of o to v (62 n) *)
| SSetMenu (pid : nat) (it mn v : expr)        (* set the <property pid> of menuItem it of menu mn to v (5D 03) *)
| SExit                                        (* exit, written out (01; the compiler appends its own at the end of the handler) *)
| SPutField (md : pmode) (f v : expr)           (* put v into / after / before field f (59 16 / 26 / 36) *)
| SPutLoc (md : pmode) (i : nat) (v : expr).    (* put v into / after / before <local variable i> (59 15 / 25 / 35) *)

Definition compile_store (t : target) : bytes :=
  match t with
  | TLoc i => [b 82; b (scaled i)]
  | TPar i => [b 81; b (scaled i)]
  | TGlob n => [b 79; b (Z.of_nat n)]
  | TProp n => [b 80; b (Z.of_nat n)]
  | TByName n => [b 96; b (Z.of_nat n)]
  end.
Definition compile_s (s : stmt) : bytes :=
  match s with
  | SSet t e => compile_e e ++ compile_store t
  | SCallS f args => flat_map compile_e args ++ compile_arglist (List.length args) false ++ [b 87; b (Z.of_nat f)]
  | SLCallS f args => flat_map compile_e args ++ compile_arglist (List.length args) false ++ [b 86; b (Z.of_nat f)]
  | SSetObj f pid o v => compile_e o ++ compile_e v ++ compile_int (Z.of_nat pid) ++ [b 93; b (fcode f)]
  | SSetThe k i v => compile_e v ++ compile_int (the_num k i) ++ [b 93; b (the_code k)]
  | SSetAcc n o v => compile_e o ++ compile_e v ++ [b 98; b (Z.of_nat n)]
  | SSetMenu pid it mn v => compile_e it ++ compile_e mn ++ compile_e v ++ compile_int (Z.of_nat pid) ++ [b 93; b 3]
  | SExit => [b 1]
  | SPutField md f v => compile_e v ++ compile_e f ++ [b 89; b (16 * pcode md + 6)]
  | SPutLoc md i v => compile_e v ++ compile_int (scaled i) ++ [b 89; b (16 * pcode md + 5)]
  end.
Definition ninstr_s (s : stmt) : nat :=
  match s with
  | SSet _ e => (ninstr e + 1)%nat
  | SCallS _ args | SLCallS _ args => (fold_right (fun x a => ninstr x + a) 0 args + 2)%nat
  | SSetObj _ _ o v => (ninstr o + (ninstr v + 2))%nat
  | SSetThe _ _ v => (ninstr v + 2)%nat
  | SSetAcc _ o v => (ninstr o + (ninstr v + 1))%nat
  | SSetMenu _ it mn v => (ninstr it + (ninstr mn + (ninstr v + 2)))%nat
  | SExit => 1%nat
  | SPutField _ f v => (ninstr v + (ninstr f + 1))%nat
  | SPutLoc _ _ v => (ninstr v + 2)%nat
  end.

(* the declared properties of the script, as the parser's context holds them *)
Definition target_node (en : env) (props : list string) (pc : Z) (t : target) : node :=
  match t with
  | TLoc i => nth i (e_locals en) (Leaf KLocal "" 0 true)
  | TPar i => nth i (e_params en) (Leaf KParam "" 0 true)
  | TGlob n => Leaf KGlobal (nm en n) pc true
  | TProp n | TByName n => if mem_str (nm en n) props then Accessor pc (Leaf KNode "me" pc true) (nm en n) else Leaf KPropName (nm en n) pc true
  end.

(* the statement node appended to FunctionDef.statements when the code of s starts at pc *)
Definition reify_s (en : env) (props : list string) (pc : Z) (s : stmt) : node :=
  match s with
  | SSet t e =>
    let ps := pc + zlen (compile_e e) in
    Stmt ps (Binary "assign" ps (target_node en props ps t) (reify_e en pc e))
  | SCallS f args =>
    let '(ns, pa) := reify_args en pc args in
    let pcall := pa + arglist_len (List.length args) in
    Stmt pcall (Call (nm en f) pcall (Some (LoadList "load_list" pa (rev ns))) true false false)
  | SLCallS f args =>
    let '(ns, pa) := reify_args en pc args in
    let pcall := pa + arglist_len (List.length args) in
    Stmt pcall (Call (nth f (e_lfuncs en) "") pcall (Some (LoadList "load_list" pa (rev ns))) true false true)
  | SSetObj f pid o v =>
    let pv := pc + zlen (compile_e o) in
    let ps := pv + zlen (compile_e v) + zlen (compile_int (Z.of_nat pid)) in
    let on := reify_e en pc o in
    Stmt ps (Binary "assign" ps (Accessor ps (ObjRef (fclass f) (name_of on) ps on) (nth pid (ftable f) "")) (reify_e en pv v))
  | SSetThe k i v =>
    let ps := pc + zlen (compile_e v) + zlen (compile_int (the_num k i)) in
    Stmt ps (Binary "assign" ps (the_node k i ps) (reify_e en pc v))
  | SSetAcc n o v =>
    let pv := pc + zlen (compile_e o) in
    let ps := pv + zlen (compile_e v) in
    Stmt ps (Binary "assign" ps (Accessor ps (reify_e en pc o) (nm en n)) (reify_e en pv v))
  | SSetMenu pid it mn v =>
    let pm := pc + zlen (compile_e it) in
    let pv := pm + zlen (compile_e mn) in
    let ps := pv + zlen (compile_e v) + zlen (compile_int (Z.of_nat pid)) in
    let i := reify_e en pc it in let mnode := reify_e en pm mn in
    Stmt ps (Binary "assign" ps
      (Accessor ps (MenuItemAcc ps (ObjRef KMenu (name_of mnode) ps mnode) (ObjRef KMenuItem (name_of i) ps i)) (nth pid MENUITEM_PROPERTIES ""))
      (reify_e en pv v))
  | SExit => Stmt pc (Call "exit" pc None true false false)
  | SPutField md f v =>
    let pf := pc + zlen (compile_e v) in
    let ps := pf + zlen (compile_e f) in
    Stmt ps (SpAssign ps (Unary "field" ps (reify_e en pf f)) (reify_e en pc v) (pname md))
  | SPutLoc md i v =>
    let ps := pc + zlen (compile_e v) + zlen (compile_int (scaled i)) in
    Stmt ps (SpAssign ps (nth i (e_locals en) (Leaf KLocal "" 0 true)) (reify_e en pc v) (pname md))
  end.

Definition globals_s (en : env) (pc : Z) (s : stmt) : list node :=
  match s with
  | SSet t e => globals_e en pc e ++ match t with TGlob n => [Leaf KGlobal (nm en n) (pc + zlen (compile_e e)) true] | _ => [] end
  | SCallS _ args | SLCallS _ args => globals_args en pc args
  | SSetObj _ _ o v => globals_e en pc o ++ globals_e en (pc + zlen (compile_e o)) v
  | SSetThe _ _ v => globals_e en pc v
  | SSetAcc _ o v => globals_e en pc o ++ globals_e en (pc + zlen (compile_e o)) v
  | SSetMenu _ it mn v =>
    globals_e en pc it ++ globals_e en (pc + zlen (compile_e it)) mn ++ globals_e en (pc + zlen (compile_e it) + zlen (compile_e mn)) v
  | SExit => []
  | SPutField _ f v => globals_e en pc v ++ globals_e en (pc + zlen (compile_e v)) f
  | SPutLoc _ _ v => globals_e en pc v
  end.

Definition wf_target (en : env) (t : target) : Prop :=
  match t with
  | TLoc i => (i < List.length (e_locals en))%nat /\ scaled i < 256
  | TPar i => (i < List.length (e_params en))%nat /\ scaled i < 256
  | TGlob n | TProp n | TByName n => (n < List.length (e_names en))%nat /\ Z.of_nat n < 256
  end.
Definition wf_s (en : env) (s : stmt) : Prop :=
  match s with
  | SSet t e => wf_target en t /\ wf_e en e
  | SCallS f args => (f < List.length (e_names en))%nat /\ Z.of_nat f < 256 /\ Z.of_nat (List.length args) < 65536 /\ wf_args en args
  | SLCallS f args => (f < List.length (e_lfuncs en))%nat /\ Z.of_nat f < 256 /\ Z.of_nat (List.length args) < 65536 /\ wf_args en args
  | SSetObj f pid o v => assignable f = true /\ (pid < List.length (ftable f))%nat /\ wf_e en o /\ wf_e en v
  | SSetThe k i v => (k = TSpecial \/ k = TSystem) /\ (i < List.length (the_table k))%nat /\ wf_e en v
  | SSetAcc n o v => (n < List.length (e_names en))%nat /\ Z.of_nat n < 256 /\ wf_e en o /\ wf_e en v
  | SSetMenu pid it mn v => (pid < List.length MENUITEM_PROPERTIES)%nat /\ wf_e en it /\ wf_e en mn /\ wf_e en v
  | SExit => True
  | SPutField _ f v => wf_e en f /\ wf_e en v
  | SPutLoc _ i v => (i < List.length (e_locals en))%nat /\ scaled i < 256 /\ wf_e en v
  end.

(* a straight-line handler: its statements, then the handler's exit opcode *)
Definition compile_body (l : list stmt) : bytes := flat_map compile_s l.
Definition compile_straight (l : list stmt) : bytes := compile_body l ++ [b 1].
Fixpoint reify_body (en : env) (props : list string) (pc : Z) (l : list stmt) : list node :=
  match l with
  | [] => []
  | s :: r => reify_s en props pc s :: reify_body en props (pc + zlen (compile_s s)) r
  end.
Fixpoint globals_body (en : env) (pc : Z) (l : list stmt) : list node :=
  match l with
  | [] => []
  | s :: r => globals_s en pc s ++ globals_body en (pc + zlen (compile_s s)) r
  end.
Fixpoint wf_body (en : env) (l : list stmt) : Prop := match l with [] => True | s :: r => wf_s en s /\ wf_body en r end.
