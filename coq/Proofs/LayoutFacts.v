From Coq Require Import ZArith List Lia.
From Coq.Strings Require Import Byte.
From DRX Require Import Py.PyBytes Py.Layout Proofs.PyBytesFacts.
Import ListNotations.
Open Scope Z_scope.

Lemma zlen_firstn_fill n fill : zlen (firstn n (fill ++ zeros n)) = Z.of_nat n.
Proof.
  unfold zlen. rewrite firstn_length, app_length. unfold zeros. rewrite repeat_length. lia.
Qed.

Lemma zlen_enc_layout bo l : forall vs fill, zlen (enc_layout bo l vs fill) = lwidth l.
Proof.
  induction l as [|f r IH]; intros vs fill; cbn [enc_layout lwidth]; [reflexivity|].
  destruct f as [n|n|n]; cbn [fwidth].
  - destruct vs; rewrite zlen_app, zlen_pack, IH; reflexivity.
  - destruct vs; rewrite zlen_app, zlen_pack, IH; reflexivity.
  - rewrite zlen_app, zlen_firstn_fill, IH. reflexivity.
Qed.

Theorem read_enc_layout bo l : forall vs fill pre post p,
  p = zlen pre -> fits_all l vs ->
  read_layout bo l (pre ++ enc_layout bo l vs fill ++ post) p = Ok vs.
Proof.
  induction l as [|f r IH]; intros vs fill pre post p -> Hfit; cbn [read_layout enc_layout fits_all] in *.
  - subst. reflexivity.
  - destruct f as [n|n|n].
    + destruct vs as [|v vs]; [contradiction|]. destruct Hfit as [[Hn Hv] Hr].
      rewrite <- app_assoc. rewrite rd_s_at by auto. cbn [bind].
      replace (pre ++ pack n bo v ++ enc_layout bo r vs fill ++ post)
        with ((pre ++ pack n bo v) ++ enc_layout bo r vs fill ++ post) by (rewrite <- app_assoc; reflexivity).
      rewrite IH; [reflexivity | rewrite zlen_app, zlen_pack; reflexivity | exact Hr].
    + destruct vs as [|v vs]; [contradiction|]. destruct Hfit as [Hv Hr].
      rewrite <- app_assoc. rewrite rd_u_at by auto. cbn [bind].
      replace (pre ++ pack n bo v ++ enc_layout bo r vs fill ++ post)
        with ((pre ++ pack n bo v) ++ enc_layout bo r vs fill ++ post) by (rewrite <- app_assoc; reflexivity).
      rewrite IH; [reflexivity | rewrite zlen_app, zlen_pack; reflexivity | exact Hr].
    + rewrite <- app_assoc.
      replace (pre ++ firstn n (fill ++ zeros n) ++ enc_layout bo r vs (skipn n fill) ++ post)
        with ((pre ++ firstn n (fill ++ zeros n)) ++ enc_layout bo r vs (skipn n fill) ++ post)
        by (rewrite <- app_assoc; reflexivity).
      apply IH; [rewrite zlen_app, zlen_firstn_fill; reflexivity | exact Hfit].
Qed.

(* reading only looks at the record: bytes after it are irrelevant (already in the statement via
   [post]); reading a record from a too-short string fails *)

Lemma read_layout_app bo l1 : forall l2 d pos,
  read_layout bo (l1 ++ l2) d pos =
  (let! a := read_layout bo l1 d pos in let! b := read_layout bo l2 d (pos + lwidth l1) in Ok (a ++ b)).
Proof.
  induction l1 as [|f l1 IH]; intros l2 d pos; cbn [app read_layout lwidth].
  - rewrite Z.add_0_r. cbn [bind]. destruct (read_layout bo l2 d pos); reflexivity.
  - destruct f as [n|n|n]; cbn [fwidth].
    + destruct (rd_s n bo d pos); cbn [bind]; try reflexivity. rewrite IH.
      rewrite Z.add_assoc. destruct (read_layout bo l1 d (pos + Z.of_nat n)); cbn [bind]; try reflexivity.
      destruct (read_layout bo l2 d (pos + Z.of_nat n + lwidth l1)); reflexivity.
    + destruct (rd_u n bo d pos); cbn [bind]; try reflexivity. rewrite IH.
      rewrite Z.add_assoc. destruct (read_layout bo l1 d (pos + Z.of_nat n)); cbn [bind]; try reflexivity.
      destruct (read_layout bo l2 d (pos + Z.of_nat n + lwidth l1)); reflexivity.
    + rewrite IH. rewrite Z.add_assoc. reflexivity.
Qed.
