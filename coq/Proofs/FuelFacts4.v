(* C10 (continued): the styled-text and font-map loops never run out of fuel. *)
From Coq Require Import List ZArith Bool Lia.
From Coq.Strings Require Import Byte.
From DRX Require Import Py.PyBytes Py.Layout Proofs.PyBytesFacts Proofs.FuelFacts Model.Riff Model.Vwsc Model.Text Gen.Gen_Layouts.
Import ListNotations.
Open Scope Z_scope.

Lemma rd_s_not_oof n bo d a : rd_s n bo d a <> OutOfFuel.
Proof. unfold rd_s, of_option. destruct (unpack_s _ _ _); discriminate. Qed.
Lemma rd_u_not_oof n bo d a : rd_u n bo d a <> OutOfFuel.
Proof. unfold rd_u, of_option. destruct (unpack_u _ _ _); discriminate. Qed.
Lemma read_layout_not_oof bo l : forall d pos, read_layout bo l d pos <> OutOfFuel.
Proof.
  induction l as [|f r IH]; intros d pos; cbn [read_layout]; [discriminate|]. destruct f as [n|n|n]; [| |apply IH].
  - pose proof (rd_s_not_oof n bo d pos) as R. destruct (rd_s n bo d pos); cbn [bind]; [|discriminate|contradiction].
    specialize (IH d (pos + Z.of_nat n)). destruct (read_layout bo r d (pos + Z.of_nat n)); cbn [bind]; [discriminate|discriminate|contradiction].
  - pose proof (rd_u_not_oof n bo d pos) as R. destruct (rd_u n bo d pos); cbn [bind]; [|discriminate|contradiction].
    specialize (IH d (pos + Z.of_nat n)). destruct (read_layout bo r d (pos + Z.of_nat n)); cbn [bind]; [discriminate|discriminate|contradiction].
Qed.

(* a layout with at least one field of positive width is only read successfully strictly inside the data *)
Definition real_field (f : field) : bool := match f with FS (S _) | FU (S _) => true | _ => false end.
Lemma read_layout_ok_inside bo l : forall d pos v, existsb real_field l = true -> 0 <= pos ->
  read_layout bo l d pos = Ok v -> pos < zlen d.
Proof.
  induction l as [|f r IH]; intros d pos v Hf Hp H; cbn [existsb] in Hf; [discriminate|].
  cbn [read_layout] in H. destruct f as [n|n|n].
  - destruct (rd_s n bo d pos) eqn:E; cbn [bind] in H; try discriminate.
    destruct (read_layout bo r d (pos + Z.of_nat n)) eqn:E2; cbn [bind] in H; try discriminate.
    destruct n as [|n].
    + cbn [real_field orb] in Hf. replace (pos + Z.of_nat 0) with pos in E2 by lia. eapply IH; eauto.
    + apply rd_s_ok_bound in E; lia.
  - destruct (rd_u n bo d pos) eqn:E; cbn [bind] in H; try discriminate.
    destruct (read_layout bo r d (pos + Z.of_nat n)) eqn:E2; cbn [bind] in H; try discriminate.
    destruct n as [|n].
    + cbn [real_field orb] in Hf. replace (pos + Z.of_nat 0) with pos in E2 by lia. eapply IH; eauto.
    + apply rd_u_ok_bound in E; lia.
  - cbn [real_field orb] in Hf. assert (pos + Z.of_nat n < zlen d) by (eapply IH; eauto; lia). lia.
Qed.

Lemma runs_loop_not_oof fm d : forall fuel n idx, 0 <= idx -> (Z.to_nat (zlen d - idx) < fuel)%nat ->
  runs_loop fuel n fm d idx <> OutOfFuel.
Proof.
  assert (W : 0 < lwidth stxt_run_layout) by (vm_compute; reflexivity).
  assert (F : existsb real_field stxt_run_layout = true) by (vm_compute; reflexivity).
  induction fuel as [|k IH]; intros n idx Hi Hf; [lia|]. cbn [runs_loop].
  destruct (n <=? 0); [discriminate|].
  pose proof (read_layout_not_oof Big stxt_run_layout d idx) as R.
  destruct (read_layout Big stxt_run_layout d idx) as [v| |] eqn:E; cbn [bind]; [|discriminate|contradiction].
  pose proof (read_layout_ok_inside _ _ _ _ _ F Hi E) as B.
  specialize (IH (n - 1) (idx + lwidth stxt_run_layout) ltac:(lia) ltac:(lia)).
  destruct (runs_loop k (n - 1) fm d (idx + lwidth stxt_run_layout)); cbn [bind]; [discriminate|discriminate|contradiction].
Qed.
(* PARTIAL: for chunks whose style-run table starts at a non-negative position (data offset + text length >= 0, both
   signed 32-bit header fields).  With a negative position Python's slices count from the end of the data and the reads
   can succeed; the walk is still linear there (it advances 20 bytes per run towards the end), but that case is not
   proved here - it is covered by the measurement side of the C10 check only. *)
Theorem stxt_terminates_partial d fm :
  (forall a b, rd_s 4 Big d 0 = Ok a -> rd_s 4 Big d 4 = Ok b -> 0 <= a + b) -> parse_stxt_data d fm <> OutOfFuel.
Proof.
  intros Hpos. unfold parse_stxt_data.
  pose proof (rd_s_not_oof 4 Big d 0) as R1. destruct (rd_s 4 Big d 0) as [z| |] eqn:E1; cbn [bind]; [clear R1|discriminate|contradiction].
  pose proof (rd_s_not_oof 4 Big d 4) as R2. destruct (rd_s 4 Big d 4) as [z0| |] eqn:E2; cbn [bind]; [clear R2|discriminate|contradiction].
  pose proof (rd_s_not_oof 4 Big d 8) as R3. destruct (rd_s 4 Big d 8) as [z1| |]; cbn [bind]; [clear R3|discriminate|contradiction].
  pose proof (rd_s_not_oof 2 Big d (z + z0)) as R4. destruct (rd_s 2 Big d (z + z0)) as [z2| |]; cbn [bind]; [clear R4|discriminate|contradiction].
  specialize (Hpos z z0 eq_refl eq_refl).
  match goal with |- bind (runs_loop ?f ?n ?fm ?d ?i) _ <> _ => assert (L : runs_loop f n fm d i <> OutOfFuel) end.
  { apply runs_loop_not_oof; [lia|]. pose proof (zlen_nonneg d). unfold zlen in *. lia. }
  destruct (runs_loop _ _ _ _ _); cbn [bind]; [discriminate|discriminate|contradiction].
Qed.
