From Coq Require Import ZArith List Lia Bool.
From Coq.Strings Require Import Byte.
From DRX Require Import Py.PyBytes.
Import ListNotations.
Open Scope Z_scope.

Lemma u8_range b : 0 <= u8 b < 256.
Proof. unfold u8. pose proof (Byte.to_N_bounded b). lia. Qed.

Lemma u8_byte_of_Z z : u8 (byte_of_Z z) = z mod 256.
Proof.
  unfold u8, byte_of_Z.
  pose proof (Z.mod_pos_bound z 256 ltac:(lia)) as H.
  destruct (Byte.of_N (Z.to_N (z mod 256))) as [b|] eqn:E.
  - apply Byte.to_of_N in E. rewrite E. lia.
  - apply Byte.of_N_None_iff in E. lia.
Qed.

Lemma byte_of_Z_u8 b : byte_of_Z (u8 b) = b.
Proof.
  unfold byte_of_Z. pose proof (u8_range b).
  rewrite Z.mod_small by lia. unfold u8. rewrite N2Z.id, Byte.of_to_N. reflexivity.
Qed.

Lemma u8_inj a b : u8 a = u8 b -> a = b.
Proof. intros H. rewrite <- (byte_of_Z_u8 a), <- (byte_of_Z_u8 b), H. reflexivity. Qed.

Lemma zlen_app {A} (a b : list A) : zlen (a ++ b) = zlen a + zlen b.
Proof. unfold zlen. rewrite app_length. lia. Qed.
Lemma zlen_nonneg {A} (a : list A) : 0 <= zlen a.
Proof. unfold zlen. lia. Qed.
Lemma zlen_cons {A} (x : A) l : zlen (x :: l) = 1 + zlen l.
Proof. unfold zlen. cbn [length]. lia. Qed.
Lemma zlen_nil {A} : zlen (@nil A) = 0.
Proof. reflexivity. Qed.

(* ---------- be_unsigned / be_bytes ---------- *)
Lemma be_acc_app acc a b : be_acc acc (a ++ b) = be_acc (be_acc acc a) b.
Proof. revert acc; induction a as [|x a IH]; intros acc; cbn [be_acc app]; auto. Qed.

Lemma be_acc_shift acc l : be_acc acc l = acc * 256 ^ zlen l + be_acc 0 l.
Proof.
  revert acc; induction l as [|x l IH]; intros acc; cbn [be_acc].
  - change (zlen (@nil byte)) with 0. cbn. lia.
  - rewrite IH, (IH (0 * 256 + u8 x)), zlen_cons.
    rewrite Z.pow_add_r by (try lia; apply zlen_nonneg). lia.
Qed.

Lemma be_bytes_length n z : length (be_bytes n z) = n.
Proof. revert z; induction n as [|n IH]; intros z; cbn [be_bytes]; auto.
  rewrite app_length, IH. cbn. lia. Qed.

Lemma be_unsigned_range l : 0 <= be_unsigned l < 256 ^ zlen l.
Proof.
  unfold be_unsigned. induction l as [|x l IH] using rev_ind.
  - cbn. lia.
  - rewrite be_acc_app. cbn [be_acc]. rewrite zlen_app. change (zlen [x]) with 1.
    rewrite Z.pow_add_r by (try lia; apply zlen_nonneg).
    pose proof (u8_range x). rewrite Z.pow_1_r. nia.
Qed.

Lemma be_unsigned_be_bytes n z : be_unsigned (be_bytes n z) = z mod 256 ^ Z.of_nat n.
Proof.
  unfold be_unsigned. revert z; induction n as [|n IH]; intros z; cbn [be_bytes].
  - cbn. rewrite Z.mod_1_r. reflexivity.
  - rewrite be_acc_app, IH. cbn [be_acc]. rewrite u8_byte_of_Z.
    rewrite Nat2Z.inj_succ, Z.pow_succ_r by lia.
    assert (0 < 256 ^ Z.of_nat n) by (apply Z.pow_pos_nonneg; lia).
    rewrite Z.rem_mul_r by lia. lia.
Qed.

Lemma orient_length bo l : length (orient bo l) = length l.
Proof. destruct bo; cbn; [reflexivity | apply rev_length]. Qed.
Lemma orient_involutive bo l : orient bo (orient bo l) = l.
Proof. destruct bo; cbn; [reflexivity | apply rev_involutive]. Qed.

Lemma pack_length n bo z : length (pack n bo z) = n.
Proof. unfold pack. rewrite orient_length. apply be_bytes_length. Qed.
Lemma zlen_pack n bo z : zlen (pack n bo z) = Z.of_nat n.
Proof. unfold zlen. rewrite pack_length. reflexivity. Qed.

Lemma unpack_u_pack n bo z :
  0 <= z < 256 ^ Z.of_nat n -> unpack_u n bo (pack n bo z) = Some z.
Proof.
  intros H. unfold unpack_u. rewrite pack_length, Nat.eqb_refl.
  unfold pack. rewrite orient_involutive, be_unsigned_be_bytes, Z.mod_small by lia. reflexivity.
Qed.

Lemma unpack_s_pack n bo z : (0 < n)%nat ->
  - 2 ^ (8 * Z.of_nat n - 1) <= z < 2 ^ (8 * Z.of_nat n - 1) ->
  unpack_s n bo (pack n bo z) = Some z.
Proof.
  intros Hn H. unfold unpack_s. rewrite pack_length, Nat.eqb_refl.
  unfold pack. rewrite orient_involutive, be_unsigned_be_bytes. f_equal.
  assert (E : 256 ^ Z.of_nat n = 2 * 2 ^ (8 * Z.of_nat n - 1)).
  { change 256 with (2 ^ 8). rewrite <- Z.pow_mul_r by lia.
    rewrite <- Z.pow_succ_r by lia. f_equal. lia. }
  assert (E2 : 2 ^ (8 * Z.of_nat n) = 2 * 2 ^ (8 * Z.of_nat n - 1)).
  { rewrite <- Z.pow_succ_r by lia. f_equal. lia. }
  assert (0 < 2 ^ (8 * Z.of_nat n - 1)) by (apply Z.pow_pos_nonneg; lia).
  unfold sext. rewrite E, E2.
  destruct (Z.ltb_spec z 0).
  - rewrite <- (Z.mod_add z 1) by lia. rewrite Z.mod_small by lia.
    destruct (Z.ltb_spec (z + 1 * (2 * 2 ^ (8 * Z.of_nat n - 1))) (2 ^ (8 * Z.of_nat n - 1))); lia.
  - rewrite Z.mod_small by lia.
    destruct (Z.ltb_spec z (2 ^ (8 * Z.of_nat n - 1))); lia.
Qed.

Lemma unpack_u_range n bo l z : unpack_u n bo l = Some z -> 0 <= z < 256 ^ Z.of_nat n.
Proof.
  unfold unpack_u. destruct (Nat.eqb_spec (length l) n) as [E|]; [|discriminate].
  intros [= <-]. pose proof (be_unsigned_range (orient bo l)) as H.
  unfold zlen in H. rewrite orient_length, E in H. exact H.
Qed.

(* ---------- slicing ---------- *)
Lemma skipn_app_exact {A} (p r : list A) : skipn (length p) (p ++ r) = r.
Proof. induction p; cbn; auto. Qed.
Lemma firstn_app_exact {A} (p r : list A) : firstn (length p) (p ++ r) = p.
Proof. induction p; cbn; f_equal; auto. Qed.

Lemma slice_mid {A} (p x s : list A) a b :
  a = zlen p -> b = zlen p + zlen x -> slice (p ++ x ++ s) a b = x.
Proof.
  intros -> ->. unfold slice, norm_idx. rewrite !zlen_app.
  pose proof (zlen_nonneg p). pose proof (zlen_nonneg x). pose proof (zlen_nonneg s).
  destruct (Z.ltb_spec (zlen p) 0); [lia|].
  destruct (Z.ltb_spec (zlen p + zlen x) 0); [lia|].
  rewrite !Z.min_l by lia.
  replace (zlen p + zlen x - zlen p) with (zlen x) by lia.
  unfold zlen. rewrite !Nat2Z.id, skipn_app_exact, firstn_app_exact. reflexivity.
Qed.

Lemma slice_from_app {A} (p r : list A) a : a = zlen p -> slice_from (p ++ r) a = r.
Proof.
  intros ->. unfold slice_from, norm_idx. rewrite zlen_app.
  pose proof (zlen_nonneg p). pose proof (zlen_nonneg r).
  destruct (Z.ltb_spec (zlen p) 0); [lia|]. rewrite Z.min_l by lia.
  unfold zlen. rewrite Nat2Z.id. apply skipn_app_exact.
Qed.

Lemma rd_u_at n bo p z s a :
  a = zlen p -> 0 <= z < 256 ^ Z.of_nat n ->
  rd_u n bo (p ++ pack n bo z ++ s) a = Ok z.
Proof.
  intros -> H. unfold rd_u. rewrite slice_mid; auto.
  - rewrite unpack_u_pack; auto.
  - rewrite zlen_pack. reflexivity.
Qed.

Lemma rd_s_at n bo p z s a : (0 < n)%nat ->
  a = zlen p -> - 2 ^ (8 * Z.of_nat n - 1) <= z < 2 ^ (8 * Z.of_nat n - 1) ->
  rd_s n bo (p ++ pack n bo z ++ s) a = Ok z.
Proof.
  intros Hn -> H. unfold rd_s. rewrite slice_mid; auto.
  - rewrite unpack_s_pack; auto.
  - rewrite zlen_pack. reflexivity.
Qed.

Lemma index_app_at {A} (p : list A) x s i : i = zlen p -> index (p ++ x :: s) i = Some x.
Proof.
  intros ->. unfold index. rewrite zlen_app, zlen_cons.
  pose proof (zlen_nonneg p). pose proof (zlen_nonneg s).
  destruct (Z.ltb_spec (zlen p) 0); [lia|].
  destruct (Z.ltb_spec (zlen p) 0); [lia|].
  destruct (Z.leb_spec (zlen p + (1 + zlen s)) (zlen p)); [lia|]. cbn [orb].
  unfold zlen. rewrite Nat2Z.id. rewrite nth_error_app2 by lia.
  rewrite Nat.sub_diag. reflexivity.
Qed.

Lemma split3 {A} (d : list A) a b : 0 <= a -> a <= b -> b <= zlen d ->
  exists p x s, d = p ++ x ++ s /\ zlen p = a /\ zlen x = b - a.
Proof.
  intros Ha Hab Hb.
  exists (firstn (Z.to_nat a) d), (firstn (Z.to_nat (b - a)) (skipn (Z.to_nat a) d)),
         (skipn (Z.to_nat (b - a)) (skipn (Z.to_nat a) d)).
  split; [rewrite firstn_skipn, firstn_skipn; reflexivity|].
  unfold zlen in *. rewrite !firstn_length, skipn_length. lia.
Qed.

Lemma slice_app_l {A} (d t : list A) a b : 0 <= a -> a <= b -> b <= zlen d ->
  slice (d ++ t) a b = slice d a b.
Proof.
  intros Ha Hab Hb. destruct (split3 d a b Ha Hab Hb) as (p & x & s & -> & Hp & Hx).
  replace ((p ++ x ++ s) ++ t) with (p ++ x ++ (s ++ t)) by (repeat rewrite <- app_assoc; reflexivity).
  rewrite !slice_mid; auto; lia.
Qed.

Lemma slice_app_r {A} (p d : list A) a b : 0 <= a -> a <= b -> b <= zlen d ->
  slice (p ++ d) (zlen p + a) (zlen p + b) = slice d a b.
Proof.
  intros Ha Hab Hb. destruct (split3 d a b Ha Hab Hb) as (q & x & s & -> & Hq & Hx).
  replace (p ++ q ++ x ++ s) with ((p ++ q) ++ x ++ s) by (repeat rewrite <- app_assoc; reflexivity).
  rewrite !slice_mid; auto; rewrite ?zlen_app; lia.
Qed.

Lemma rd_s_app_l n bo d t a : 0 <= a -> a + Z.of_nat n <= zlen d -> rd_s n bo (d ++ t) a = rd_s n bo d a.
Proof. intros. unfold rd_s. rewrite slice_app_l by lia. reflexivity. Qed.
Lemma rd_s_app_r n bo p d a : 0 <= a -> a + Z.of_nat n <= zlen d -> rd_s n bo (p ++ d) (zlen p + a) = rd_s n bo d a.
Proof. intros. unfold rd_s. rewrite <- Z.add_assoc. rewrite slice_app_r by lia. reflexivity. Qed.

Lemma slice_0 {A} (d : list A) n : 0 <= n -> slice d 0 n = firstn (Z.to_nat n) d.
Proof.
  intros Hn. unfold slice, norm_idx. pose proof (zlen_nonneg d).
  destruct (Z.ltb_spec n 0); [lia|]. cbn [Z.ltb Z.compare].
  rewrite (Z.min_l 0) by lia. cbn [Z.to_nat skipn]. rewrite Z.sub_0_r.
  destruct (Z.le_ge_cases n (zlen d)).
  - rewrite Z.min_l by lia. reflexivity.
  - rewrite Z.min_r by lia. unfold zlen. rewrite Nat2Z.id.
    rewrite !firstn_all2; auto. unfold zlen in *. lia.
Qed.

Lemma zlen_le0_nil {A} (l : list A) : zlen l <= 0 -> l = [].
Proof. destruct l as [|x l]; [reflexivity|]. rewrite zlen_cons. pose proof (zlen_nonneg l). lia. Qed.
