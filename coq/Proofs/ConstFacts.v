From Coq Require Import List ZArith Bool Lia.
From DRX Require Import Py.PyBytes Py.PyStr Proofs.PyBytesFacts Model.Const Gen.Gen_OpTables.
Import ListNotations.
Open Scope Z_scope.

Definition valid (c : Z) : Prop := 0 <= c < 1114112.

(* ---------- inline integers ---------- *)
Theorem int1b_exact p : 0 <= p < 256 -> -128 <= int1b p < 128 /\ (int1b p) mod 256 = p.
Proof.
  intros H. unfold int1b. destruct (Z.gtb_spec p 127).
  - split; [lia|]. replace (p - 256) with (p + (-1) * 256) by lia. rewrite Z.mod_add by lia. apply Z.mod_small. lia.
  - split; [lia|]. apply Z.mod_small. lia.
Qed.
Theorem int2b_exact p1 p2 : 0 <= p1 < 256 -> 0 <= p2 < 256 ->
  -32768 <= int2b p1 p2 < 32768 /\ (int2b p1 p2) mod 65536 = p1 * 256 + p2.
Proof.
  intros H1 H2. unfold int2b. destruct (Z.gtb_spec (p1 * 256 + p2) 32767).
  - split; [lia|]. replace (p1 * 256 + p2 - 65536) with (p1 * 256 + p2 + (-1) * 65536) by lia.
    rewrite Z.mod_add by lia. apply Z.mod_small. lia.
  - split; [lia|]. apply Z.mod_small. lia.
Qed.

(* ---------- hexadecimal ---------- *)
Lemma hexv_hexd v : 0 <= v < 16 -> hexv (hexd v) = Some v.
Proof.
  intros H. unfold hexd, hexv. destruct (Z.ltb_spec v 10).
  - destruct (Z.leb_spec 48 (48 + v)); [|lia]. destruct (Z.leb_spec (48 + v) 57); [|lia]. cbn [andb]. f_equal. lia.
  - destruct (Z.leb_spec 48 (87 + v)); [|lia]. destruct (Z.leb_spec (87 + v) 57); [lia|]. cbn [andb].
    destruct (Z.leb_spec 97 (87 + v)); [|lia]. destruct (Z.leb_spec (87 + v) 102); [|lia]. cbn [andb]. f_equal. lia.
Qed.
Lemma hexd_plain v : 0 <= v < 16 -> hexd v <> 34 /\ hexd v <> 92.
Proof. intros H. unfold hexd. destruct (Z.ltb_spec v 10); lia. Qed.

Lemma hexval_snoc n : forall t acc, hexval (S n) t acc =
  match hexval n t acc with
  | Some (a, x :: r) => match hexv x with Some d => Some (a * 16 + d, r) | None => None end
  | _ => None end.
Proof.
  induction n as [|n IH]; intros t acc.
  - cbn [hexval]. destruct t as [|c r]; [reflexivity|]. destruct (hexv c); reflexivity.
  - change (hexval (S (S n)) t acc) with
      (match t with c :: r => match hexv c with Some v => hexval (S n) r (acc * 16 + v) | None => None end | [] => None end).
    change (hexval (S n) t acc) with
      (match t with c :: r => match hexv c with Some v => hexval n r (acc * 16 + v) | None => None end | [] => None end).
    destruct t as [|c r]; [reflexivity|]. destruct (hexv c); [|reflexivity]. apply IH.
Qed.

Lemma hexval_hexn n : forall v acc r, 0 <= v < 16 ^ Z.of_nat n ->
  hexval n (hexn n v ++ r) acc = Some (acc * 16 ^ Z.of_nat n + v, r).
Proof.
  induction n as [|n IH]; intros v acc r Hv.
  - cbn [hexval hexn app]. change (16 ^ Z.of_nat 0) with 1 in *. f_equal. f_equal. lia.
  - rewrite hexval_snoc. cbn [hexn]. rewrite Nat2Z.inj_succ, Z.pow_succ_r in Hv by lia.
    rewrite <- app_assoc. cbn [app].
    pose proof (Z.div_mod v 16 ltac:(lia)). pose proof (Z.mod_pos_bound v 16 ltac:(lia)).
    rewrite IH by (split; [apply Z.div_pos; lia | apply Z.div_lt_upper_bound; lia]).
    rewrite hexv_hexd by lia. f_equal. f_equal.
    rewrite Nat2Z.inj_succ, Z.pow_succ_r by lia. lia.
Qed.

Lemma hexn_length n : forall v, length (hexn n v) = n.
Proof. induction n as [|n IH]; intros v; cbn [hexn]; [reflexivity|]. rewrite app_length, IH. cbn. lia. Qed.
Lemma hexn_plain n : forall v x, In x (hexn n v) -> x <> 34 /\ x <> 92.
Proof.
  induction n as [|n IH]; intros v x Hin; cbn [hexn] in Hin; [destruct Hin|].
  apply in_app_or in Hin. destruct Hin as [Hin|[<-|[]]]; [eapply IH; eassumption|].
  apply hexd_plain. apply Z.mod_pos_bound. lia.
Qed.

(* ---------- the classes of escape sequences ---------- *)
Inductive esc_class (c : Z) : text -> Prop :=
| EC_bs : c = 92 -> esc_class c [92; 92]
| EC_tab : c = 9 -> esc_class c [92; 116]
| EC_nl : c = 10 -> esc_class c [92; 110]
| EC_cr : c = 13 -> esc_class c [92; 114]
| EC_plain : 32 <= c < 127 -> c <> 92 -> esc_class c [c]
| EC_x : 0 <= c < 256 -> ~ (32 <= c < 127) -> c <> 9 -> c <> 10 -> c <> 13 -> esc_class c (92 :: 120 :: hexn 2 c)
| EC_u : 256 <= c < 65536 -> esc_class c (92 :: 117 :: hexn 4 c)
| EC_U : 65536 <= c < 1114112 -> esc_class c (92 :: 85 :: hexn 8 c).

Lemma esc_char_class c : valid c -> esc_class c (esc_char c).
Proof.
  unfold valid, esc_char. intros H.
  destruct (Z.eqb_spec c 92); [apply EC_bs; assumption|].
  destruct (Z.eqb_spec c 9); [apply EC_tab; assumption|].
  destruct (Z.eqb_spec c 10); [apply EC_nl; assumption|].
  destruct (Z.eqb_spec c 13); [apply EC_cr; assumption|].
  destruct (Z.leb_spec 32 c); destruct (Z.ltb_spec c 127); cbn [andb]; try (apply EC_plain; lia);
  (destruct (Z.ltb_spec c 256); [apply EC_x; lia|]; destruct (Z.ltb_spec c 65536); [apply EC_u; lia| apply EC_U; lia]).
Qed.

Lemma unescape_char f c r : valid c ->
  unescape (S f) (esc_char c ++ r) = option_map (cons c) (unescape f r).
Proof.
  intros Hv. destruct (esc_char_class c Hv) as [->| -> | -> | -> |Hr Hn|Hr _ _ _ _|Hr|Hr]; try reflexivity.
  - cbn [app unescape]. destruct (Z.eqb_spec c 92); [contradiction|reflexivity].
  - cbn [app unescape]. change (92 =? 92) with true. change (120 =? 92) with false. change (120 =? 116) with false.
    change (120 =? 110) with false. change (120 =? 114) with false. change (120 =? 34) with false. change (120 =? 120) with true.
    cbv iota. rewrite (hexval_hexn 2 c 0 r) by (change (16 ^ Z.of_nat 2) with 256; lia).
    replace (0 * 16 ^ Z.of_nat 2 + c) with c by lia. reflexivity.
  - cbn [app unescape]. change (92 =? 92) with true. change (117 =? 92) with false. change (117 =? 116) with false.
    change (117 =? 110) with false. change (117 =? 114) with false. change (117 =? 34) with false. change (117 =? 120) with false.
    change (117 =? 117) with true.
    cbv iota. rewrite (hexval_hexn 4 c 0 r) by (change (16 ^ Z.of_nat 4) with 65536; lia).
    replace (0 * 16 ^ Z.of_nat 4 + c) with c by lia. reflexivity.
  - cbn [app unescape]. change (92 =? 92) with true. change (85 =? 92) with false. change (85 =? 116) with false.
    change (85 =? 110) with false. change (85 =? 114) with false. change (85 =? 34) with false. change (85 =? 120) with false.
    change (85 =? 117) with false. change (85 =? 85) with true.
    cbv iota. rewrite (hexval_hexn 8 c 0 r) by (change (16 ^ Z.of_nat 8) with 4294967296; lia).
    replace (0 * 16 ^ Z.of_nat 8 + c) with c by lia. reflexivity.
Qed.

Lemma unescape_escape s : forall f r, Forall valid s ->
  unescape (length s + f) (flat_map esc_char s ++ r) = option_map (app s) (unescape f r).
Proof.
  induction s as [|c s IH]; intros f r Hv.
  - cbn [length flat_map app Nat.add]. destruct (unescape f r); reflexivity.
  - inversion Hv as [|? ? Hc Hs]; subst. cbn [length flat_map Nat.add]. rewrite <- app_assoc.
    rewrite unescape_char by assumption. rewrite IH by assumption. destruct (unescape f r); reflexivity.
Qed.

Lemma esc_char_length c : (1 <= length (esc_char c))%nat.
Proof.
  unfold esc_char. repeat match goal with |- context [if ?b then _ else _] => destruct b end; cbn [length]; lia.
Qed.
Lemma flat_esc_length s : (length s <= length (flat_map esc_char s))%nat.
Proof. induction s as [|c s IH]; cbn [flat_map length]; [lia|]. rewrite app_length. pose proof (esc_char_length c). lia. Qed.

(* more fuel never changes a successful result *)
Lemma unescape_fuel f : forall t v, unescape f t = Some v -> forall g, (f <= g)%nat -> unescape g t = Some v.
Proof.
  induction f as [|f IH]; intros t v H g Hg.
  - destruct t; [|discriminate]. destruct g; exact H.
  - destruct g as [|g]; [lia|]. assert (Hfg : (f <= g)%nat) by lia.
    cbn [unescape] in *. destruct t as [|c r]; [exact H|].
    assert (OM : forall x t0 w, option_map (cons x) (unescape f t0) = Some w -> option_map (cons x) (unescape g t0) = Some w).
    { intros x t0 w E. destruct (unescape f t0) eqn:E1; [|discriminate]. rewrite (IH _ _ E1 g Hfg). exact E. }
    destruct (c =? 92); [|apply OM; exact H].
    destruct r as [|e r2]; [exact H|].
    repeat match goal with H : (if ?b then _ else _) = _ |- _ => destruct b; [apply OM; exact H|] end.
    destruct (e =? 120). { destruct (hexval 2 r2 0) as [[? ?]|]; [apply OM; exact H|discriminate]. }
    destruct (e =? 117). { destruct (hexval 4 r2 0) as [[? ?]|]; [apply OM; exact H|discriminate]. }
    destruct (e =? 85). { destruct (hexval 8 r2 0) as [[? ?]|]; [apply OM; exact H|discriminate]. }
    discriminate.
Qed.

Theorem unescape_escape_all s : Forall valid s ->
  unescape (length (flat_map esc_char s)) (flat_map esc_char s) = Some s.
Proof.
  intros Hv. apply (unescape_fuel (length s + 0)); [|pose proof (flat_esc_length s); lia].
  rewrite <- (app_nil_r (flat_map esc_char s)). rewrite unescape_escape by assumption.
  cbn [unescape option_map]. rewrite app_nil_r. reflexivity.
Qed.

(* ---------- the JavaScript literal ---------- *)
Definition jsq (c : Z) : text := if c =? 34 then [92; 34] else [c].
Lemma inner_escape s : inner (escape_string s) = flat_map esc_char s.
Proof.
  unfold inner, escape_string. cbn [skipn length]. rewrite app_length. cbn [length].
  replace (S (length (flat_map esc_char s) + 1) - 2)%nat with (length (flat_map esc_char s) + 0)%nat by lia.
  rewrite firstn_app_2. cbn [firstn]. apply app_nil_r.
Qed.
Lemma jsq_plain l : Forall (fun x => x <> 34) l -> flat_map jsq l = l.
Proof.
  induction 1 as [|x l Hx _ IH]; [reflexivity|]. cbn [flat_map]. rewrite IH. unfold jsq.
  destruct (Z.eqb_spec x 34); [contradiction|reflexivity].
Qed.
Lemma hexn_no34 n v : Forall (fun x => x <> 34) (hexn n v).
Proof. apply Forall_forall. intros x Hx. apply (hexn_plain n v x Hx). Qed.
Lemma unescape_js_char f c r : valid c ->
  unescape (S f) (flat_map jsq (esc_char c) ++ r) = option_map (cons c) (unescape f r).
Proof.
  intros Hv. destruct (Z.eqb_spec c 34) as [->|Hn]; [reflexivity|].
  rewrite jsq_plain; [apply unescape_char; assumption|].
  destruct (esc_char_class c Hv); subst; repeat (apply Forall_cons; [lia|]); try apply Forall_nil; apply hexn_no34.
Qed.
Lemma unescape_js s : forall f r, Forall valid s ->
  unescape (length s + f) (flat_map jsq (flat_map esc_char s) ++ r) = option_map (app s) (unescape f r).
Proof.
  induction s as [|c s IH]; intros f r Hv.
  - cbn [length flat_map app Nat.add]. destruct (unescape f r); reflexivity.
  - inversion Hv as [|? ? Hc Hs]; subst. cbn [length flat_map Nat.add]. rewrite flat_map_app, <- app_assoc.
    rewrite unescape_js_char by assumption. rewrite IH by assumption. destruct (unescape f r); reflexivity.
Qed.
Lemma jsq_length l : (length l <= length (flat_map jsq l))%nat.
Proof.
  induction l as [|x l IH]; [cbn; lia|]. cbn [flat_map]. rewrite app_length. unfold jsq at 1.
  destruct (x =? 34); cbn [length]; lia.
Qed.

Theorem js_literal_roundtrip s : Forall valid s ->
  eval_js_lit (generate_js_str (escape_string s)) = Some s.
Proof.
  intros Hv. unfold generate_js_str. rewrite inner_escape. change (fun c : Z => if c =? 34 then [92; 34] else [c]) with jsq. set (X := flat_map jsq (flat_map esc_char s)).
  unfold eval_js_lit.
  assert (E1 : starts_with js_prefix (js_prefix ++ X ++ js_suffix) = true) by reflexivity. rewrite E1.
  assert (E2 : skipn (length js_prefix) (js_prefix ++ X ++ js_suffix) = X ++ js_suffix) by reflexivity. rewrite E2.
  rewrite app_length. change (length js_suffix) with 2%nat.
  replace (length X + 2 - 2)%nat with (length X + 0)%nat by lia.
  rewrite firstn_app_2, skipn_app. rewrite skipn_all2 by lia. cbn [firstn]. rewrite app_nil_r.
  replace (length X + 0 - length X)%nat with 0%nat by lia. cbn [skipn app]. change (text_eqb js_suffix js_suffix) with true. cbv iota.
  apply (unescape_fuel (length s + 0)).
  - rewrite <- (app_nil_r X). unfold X. rewrite unescape_js by assumption. cbn [unescape option_map]. rewrite app_nil_r. reflexivity.
  - unfold X. pose proof (jsq_length (flat_map esc_char s)). pose proof (flat_esc_length s). lia.
Qed.

(* ---------- the Lingo literal: the scan ---------- *)
Definition name_of (c : Z) : option text :=
  if c =? 34 then Some [81; 85; 79; 84; 69]
  else if c =? 8 then Some [66; 65; 67; 75; 83; 80; 65; 67; 69]
  else if c =? 3 then Some [69; 78; 84; 69; 82]
  else if c =? 13 then Some [82; 69; 84; 85; 82; 78]
  else if c =? 9 then Some [84; 65; 66]
  else None.
Definition special (c : Z) : Prop := c = 34 \/ c = 8 \/ c = 3 \/ c = 13 \/ c = 9.
Lemma name_of_none c : ~ special c -> name_of c = None.
Proof.
  unfold special, name_of. intros H.
  repeat match goal with |- context [?a =? ?b] => destruct (Z.eqb_spec a b); [exfalso; apply H; lia|] end. reflexivity.
Qed.

Definition flush (pieces : list text) (cur : text) : list text :=
  if negb (text_eqb cur []) then pieces ++ [quote_lit cur] else pieces.
Definition step_state (st : list text * text) (c : Z) : list text * text :=
  match name_of c with
  | Some k => (flush (fst st) (snd st) ++ [k], [])
  | None => (fst st, snd st ++ esc_char c)
  end.
Definition finish (pieces : list text) (cur : text) : list text :=
  if negb (text_eqb cur []) || (match pieces with [] => true | _ => false end) then pieces ++ [quote_lit cur] else pieces.

Lemma scan_nil f pieces cur : scan f [] pieces cur = finish pieces cur.
Proof. destruct f; reflexivity. Qed.

Lemma scan_plain l : forall f rest pieces cur, Forall (fun x => x <> 34 /\ x <> 92) l ->
  scan (length l + f) (l ++ rest) pieces cur = scan f rest pieces (cur ++ l).
Proof.
  induction l as [|x l IH]; intros f rest pieces cur Hl.
  - cbn [length Nat.add app]. rewrite app_nil_r. reflexivity.
  - inversion Hl as [|? ? [H1 H2] Hl']; subst. cbn [length Nat.add app scan].
    destruct (Z.eqb_spec x 34); [contradiction|]. destruct (Z.eqb_spec x 92); [contradiction|].
    change (Z.to_nat 1) with 1%nat. cbn [skipn firstn]. rewrite IH by assumption. rewrite <- app_assoc. reflexivity.
Qed.

Lemma scan_unnamed2 f a b pieces cur :
  named_at REPLACEMENT_CONSTANTS (92 :: a :: b) None = None ->
  scan (S f) (92 :: a :: b) pieces cur = scan f b pieces (cur ++ [92; a]).
Proof.
  intros E. cbn [scan]. change (92 =? 34) with false. change (92 =? 92) with true. cbv iota. rewrite E.
  change (Z.to_nat 2) with 2%nat. reflexivity.
Qed.

Lemma hexd_eq v k : 0 <= v < 16 -> 0 <= k < 10 -> hexd v = 48 + k -> v = k.
Proof. unfold hexd. intros. destruct (Z.ltb_spec v 10); lia. Qed.

Lemma scan_char c : valid c -> exists n, (n <= length (esc_char c))%nat /\
  forall f rest pieces cur,
    scan (n + f) (esc_char c ++ rest) pieces cur =
    scan f rest (fst (step_state (pieces, cur) c)) (snd (step_state (pieces, cur) c)).
Proof.
  intros Hv. pose proof (esc_char_class c Hv) as Hcl. unfold step_state. remember (esc_char c) as e eqn:Ee. clear Ee.
  destruct Hcl as [->| -> | -> | -> |Hr Hn|Hr Hnp H9 H10 H13|Hr|Hr].
  - exists 1%nat. split; [cbn; lia|]. intros. reflexivity.
  - exists 1%nat. split; [cbn; lia|]. intros. reflexivity.
  - exists 1%nat. split; [cbn; lia|]. intros. reflexivity.
  - exists 1%nat. split; [cbn; lia|]. intros. reflexivity.
  - exists 1%nat. split; [cbn; lia|]. intros. destruct (Z.eqb_spec c 34) as [->|H34]; [reflexivity|].
    rewrite name_of_none by (unfold special; lia). cbn [fst snd].
    apply (scan_plain [c] f rest pieces cur). constructor; [split; assumption|constructor].
  - destruct (Z.eqb_spec c 8) as [->|H8]. { exists 1%nat. split; [cbn; lia|]. intros. reflexivity. }
    destruct (Z.eqb_spec c 3) as [->|H3]. { exists 1%nat. split; [cbn; lia|]. intros. reflexivity. }
    exists 3%nat. split; [cbn [length]; rewrite hexn_length; lia|]. intros.
    rewrite name_of_none by (unfold special; lia). cbn [fst snd].
    cbn [hexn app]. change (3 + f)%nat with (S (2 + f)).
    pose proof (Z.mod_pos_bound c 16 ltac:(lia)) as Hm. pose proof (Z.mod_pos_bound (c / 16) 16 ltac:(lia)) as Hm2.
    pose proof (Z.div_mod c 16 ltac:(lia)). pose proof (Z.div_mod (c / 16) 16 ltac:(lia)).
    assert (c / 16 / 16 = 0) by (apply Z.div_small; split; [apply Z.div_pos; lia|apply Z.div_lt_upper_bound; lia]).
    rewrite scan_unnamed2.
    + change (scan (length [hexd (c / 16 mod 16); hexd (c mod 16)] + f) ([hexd (c / 16 mod 16); hexd (c mod 16)] ++ rest) pieces (cur ++ [92; 120]) =
              scan f rest pieces (cur ++ [92; 120; hexd ((c / 16) mod 16); hexd (c mod 16)])).
      rewrite (scan_plain [hexd (c / 16 mod 16); hexd (c mod 16)] f rest pieces (cur ++ [92; 120])).
      * rewrite <- app_assoc. reflexivity.
      * constructor; [apply hexd_plain; lia|]. constructor; [apply hexd_plain; lia|constructor].
    + cbn [named_at REPLACEMENT_CONSTANTS text_eqb starts_with negb andb].
      change (92 =? 92) with true. change (120 =? 120) with true. change (114 =? 120) with false. change (116 =? 120) with false.
      change (92 =? 34) with false. change (34 =? 34) with true. cbn [andb negb].
      destruct (Z.eqb_spec 48 (hexd (c / 16 mod 16))) as [Ea|]; [|reflexivity].
      assert (c / 16 mod 16 = 0) by (apply (hexd_eq _ 0); lia).
      destruct (Z.eqb_spec 56 (hexd (c mod 16))) as [Eb|]; [exfalso; assert (c mod 16 = 8) by (apply (hexd_eq _ 8); lia); lia|].
      destruct (Z.eqb_spec 51 (hexd (c mod 16))) as [Eb|]; [exfalso; assert (c mod 16 = 3) by (apply (hexd_eq _ 3); lia); lia|].
      reflexivity.
  - exists 5%nat. split; [cbn [length]; rewrite hexn_length; lia|]. intros.
    rewrite name_of_none by (unfold special; lia). cbn [fst snd].
    change (5 + f)%nat with (S (4 + f)). cbn [app]. rewrite scan_unnamed2 by reflexivity.
    rewrite <- (hexn_length 4 c) at 1. rewrite scan_plain by (apply Forall_forall; intros x Hx; apply (hexn_plain 4 c x Hx)).
    rewrite <- app_assoc. reflexivity.
  - exists 9%nat. split; [cbn [length]; rewrite hexn_length; lia|]. intros.
    rewrite name_of_none by (unfold special; lia). cbn [fst snd].
    change (9 + f)%nat with (S (8 + f)). cbn [app]. rewrite scan_unnamed2 by reflexivity.
    rewrite <- (hexn_length 8 c) at 1. rewrite scan_plain by (apply Forall_forall; intros x Hx; apply (hexn_plain 8 c x Hx)).
    rewrite <- app_assoc. reflexivity.
Qed.

Lemma scan_all s : Forall valid s -> exists n, (n <= length (flat_map esc_char s))%nat /\
  forall f rest pieces cur,
    scan (n + f) (flat_map esc_char s ++ rest) pieces cur =
    scan f rest (fst (fold_left step_state s (pieces, cur))) (snd (fold_left step_state s (pieces, cur))).
Proof.
  induction 1 as [|c s Hc Hs IH].
  - exists 0%nat. split; [cbn; lia|]. intros. reflexivity.
  - destruct (scan_char c Hc) as [n1 [L1 E1]]. destruct IH as [n2 [L2 E2]].
    exists (n1 + n2)%nat. split; [cbn [flat_map]; rewrite app_length; lia|]. intros.
    cbn [flat_map fold_left]. rewrite <- app_assoc. rewrite <- Nat.add_assoc. rewrite E1, E2.
    destruct (step_state (pieces, cur) c); reflexivity.
Qed.

Lemma replace_chars_run s : Forall valid s ->
  replace_chars_with_lingo_constants (escape_string s) =
  join amp (finish (fst (fold_left step_state s ([], []))) (snd (fold_left step_state s ([], [])))).
Proof.
  intros Hv. unfold replace_chars_with_lingo_constants. rewrite inner_escape.
  destruct (scan_all s Hv) as [n [Ln En]].
  replace (length (flat_map esc_char s)) with (n + (length (flat_map esc_char s) - n))%nat by lia.
  rewrite <- (app_nil_r (flat_map esc_char s)) at 2. rewrite En, scan_nil. reflexivity.
Qed.

(* ---------- the Lingo literal: evaluation ---------- *)
Definition tail_ok (rest : text) : Prop := rest = [] \/ exists m, rest = amp ++ m.
Definition good (p v : text) : Prop :=
  (1 <= length p)%nat /\ forall rest, tail_ok rest -> eval_piece (p ++ rest) = Some (v, rest).

Lemma until_app a r : Forall (fun x => x <> 34) a -> until 34 (a ++ 34 :: r) = Some (a, r).
Proof.
  induction 1 as [|x a Hx _ IH]; [reflexivity|]. cbn [app until].
  destruct (Z.eqb_spec x 34); [contradiction|]. rewrite IH. reflexivity.
Qed.

Lemma esc_no34 c : valid c -> c <> 34 -> Forall (fun x => x <> 34) (esc_char c).
Proof.
  intros Hv Hn. destruct (esc_char_class c Hv); subst; repeat (apply Forall_cons; [lia|]); try apply Forall_nil; apply hexn_no34.
Qed.
Lemma flat_esc_no34 w : Forall valid w -> Forall (fun c => c <> 34) w -> Forall (fun x => x <> 34) (flat_map esc_char w).
Proof.
  induction 1 as [|c w Hc _ IH]; intros Hn; [constructor|]. inversion Hn; subst. cbn [flat_map].
  apply Forall_app. split; [apply esc_no34; assumption|apply IH; assumption].
Qed.

Lemma good_lit w : Forall valid w -> Forall (fun c => c <> 34) w -> good (quote_lit (flat_map esc_char w)) w.
Proof.
  intros Hv Hn. split; [cbn; lia|]. intros rest _. unfold quote_lit. cbn [app eval_piece]. rewrite <- app_assoc. cbn [app].
  rewrite until_app by (apply flat_esc_no34; assumption). rewrite unescape_escape_all by assumption. reflexivity.
Qed.

Lemma good_name c k : name_of c = Some k -> good k [c].
Proof.
  unfold name_of. intros H. split.
  - repeat match type of H with (if ?b then _ else _) = _ => destruct b; [injection H as <-; cbn; lia|] end. discriminate.
  - intros rest [->|[m ->]];
    repeat match type of H with (if ?a =? ?b then _ else _) = _ => destruct (Z.eqb_spec a b); [injection H as <-; subst; reflexivity|] end;
    discriminate.
Qed.

Lemma join_length ps : Forall (fun p => (1 <= length p)%nat) ps -> (length ps <= length (join amp ps))%nat.
Proof.
  induction 1 as [|p ps Hp Hps IH]; [cbn; lia|]. destruct ps as [|q r]; [cbn [join length]; lia|].
  change (join amp (p :: q :: r)) with (p ++ amp ++ join amp (q :: r)). rewrite !app_length. cbn [length] in *. lia.
Qed.

Lemma eval_join ps : forall vs f, Forall2 good ps vs -> ps <> [] -> (length ps <= f)%nat ->
  eval_lingo f (join amp ps) = Some (concat vs).
Proof.
  induction ps as [|p ps IH]; intros vs f H2 Hne Hf; [contradiction|].
  inversion H2 as [|? v ? vs' [_ Hg] H2']; subst. destruct f as [|f]; [cbn in Hf; lia|].
  destruct ps as [|q r].
  - inversion H2'; subst. cbn [join eval_lingo concat]. rewrite <- (app_nil_r p). rewrite (Hg [] (or_introl eq_refl)).
    rewrite app_nil_r. reflexivity.
  - change (join amp (p :: q :: r)) with (p ++ amp ++ join amp (q :: r)). cbn [eval_lingo].
    rewrite (Hg (amp ++ join amp (q :: r))) by (right; eexists; reflexivity).
    cbn [amp app]. rewrite (IH vs' f H2') by (try discriminate; cbn [length] in *; lia). reflexivity.
Qed.

(* invariant of the fold: the pieces evaluate to vs, cur is the escape of the pending word w *)
Definition inv (st : list text * text) (vs : list text) (w : text) : Prop :=
  Forall2 good (fst st) vs /\ snd st = flat_map esc_char w /\ Forall valid w /\ Forall (fun c => c <> 34) w.

Lemma text_eqb_nil t : text_eqb t [] = true <-> t = [].
Proof. destruct t; cbn; split; congruence. Qed.
Lemma flat_esc_nil w : flat_map esc_char w = [] -> w = [].
Proof.
  destruct w as [|c w]; [reflexivity|]. cbn [flat_map]. intros H. apply app_eq_nil in H. destruct H as [H _].
  pose proof (esc_char_length c). rewrite H in *. cbn in *. lia.
Qed.

Lemma flush_inv st vs w : inv st vs w -> exists vs', Forall2 good (flush (fst st) (snd st)) vs' /\ concat vs' = concat vs ++ w.
Proof.
  intros [H2 [Hc [Hv Hn]]]. unfold flush. destruct (text_eqb (snd st) []) eqn:E; cbn [negb].
  - apply text_eqb_nil in E. rewrite Hc in E. apply flat_esc_nil in E. subst w. exists vs. split; [assumption|]. rewrite app_nil_r. reflexivity.
  - exists (vs ++ [w]). split.
    + apply Forall2_app; [assumption|]. constructor; [|constructor]. rewrite Hc. apply good_lit; assumption.
    + rewrite concat_app. cbn [concat]. rewrite app_nil_r. reflexivity.
Qed.

Lemma step_inv st vs w c : valid c -> inv st vs w ->
  exists vs' w', inv (step_state st c) vs' w' /\ concat vs' ++ w' = (concat vs ++ w) ++ [c].
Proof.
  intros Hc Hi. unfold step_state. destruct (name_of c) as [k|] eqn:En.
  - destruct (flush_inv st vs w Hi) as [vs1 [G1 C1]].
    exists (vs1 ++ [[c]]), []. split.
    + split; [|split; [reflexivity|split; constructor]]. cbn [fst]. apply Forall2_app; [assumption|].
      constructor; [|constructor]. apply good_name. assumption.
    + rewrite concat_app. cbn [concat]. rewrite !app_nil_r, C1. reflexivity.
  - destruct Hi as [H2 [Hcur [Hv Hn]]]. exists vs, (w ++ [c]). split.
    + split; [assumption|]. cbn [snd]. split; [|split].
      * rewrite Hcur, flat_map_app. cbn [flat_map]. rewrite app_nil_r. reflexivity.
      * apply Forall_app. split; [assumption|constructor; [assumption|constructor]].
      * apply Forall_app. split; [assumption|]. constructor; [|constructor]. intros ->. discriminate.
    + rewrite app_assoc. reflexivity.
Qed.

Lemma fold_inv s : forall st vs w, Forall valid s -> inv st vs w ->
  exists vs' w', inv (fold_left step_state s st) vs' w' /\ concat vs' ++ w' = (concat vs ++ w) ++ s.
Proof.
  induction s as [|c s IH]; intros st vs w Hs Hi.
  - exists vs, w. split; [assumption|]. rewrite app_nil_r. reflexivity.
  - inversion Hs as [|? ? Hc Hs']; subst. destruct (step_inv st vs w c Hc Hi) as [vs1 [w1 [I1 C1]]].
    destruct (IH _ vs1 w1 Hs' I1) as [vs2 [w2 [I2 C2]]]. exists vs2, w2. split; [exact I2|].
    rewrite C2, C1, <- app_assoc. reflexivity.
Qed.

Lemma finish_inv st vs w : inv st vs w ->
  exists vs', Forall2 good (finish (fst st) (snd st)) vs' /\ finish (fst st) (snd st) <> [] /\ concat vs' = concat vs ++ w.
Proof.
  intros Hi. pose proof Hi as [H2 [Hc [Hv Hn]]]. unfold finish.
  destruct (text_eqb (snd st) []) eqn:E; cbn [negb orb].
  - apply text_eqb_nil in E. pose proof E as E'. rewrite Hc in E'. apply flat_esc_nil in E'. subst w.
    destruct (fst st) as [|p ps] eqn:Ef.
    + inversion H2; subst. exists [[]]. split; [|split; [discriminate|reflexivity]].
      cbn [app]. constructor; [|constructor]. rewrite E. apply (good_lit []); constructor.
    + exists vs. split; [assumption|split; [discriminate|]]. rewrite app_nil_r. reflexivity.
  - exists (vs ++ [w]). split; [|split].
    + apply Forall2_app; [assumption|]. constructor; [|constructor]. rewrite Hc. apply good_lit; assumption.
    + intros H. apply app_eq_nil in H. destruct H; discriminate.
    + rewrite concat_app. cbn [concat]. rewrite app_nil_r. reflexivity.
Qed.

Lemma good_lengths ps vs : Forall2 good ps vs -> Forall (fun p => (1 <= length p)%nat) ps.
Proof. induction 1 as [|p v ps vs [Hl _] _ IH]; constructor; assumption. Qed.

Theorem replace_chars_roundtrip s : Forall valid s ->
  eval_lingo_lit (replace_chars_with_lingo_constants (escape_string s)) = Some s.
Proof.
  intros Hv. rewrite replace_chars_run by assumption.
  assert (I0 : inv ([], []) [] []) by (split; [constructor|split; [reflexivity|split; constructor]]).
  destruct (fold_inv s _ _ _ Hv I0) as [vs [w [I C]]]. cbn [concat app] in C.
  destruct (finish_inv _ _ _ I) as [vs' [G [Hne Cf]]].
  unfold eval_lingo_lit. rewrite (eval_join _ vs' _ G Hne).
  - rewrite Cf, C. reflexivity.
  - apply le_S. exact (join_length _ (good_lengths _ _ G)).
Qed.

(* ---------- generate_lingo_str: the predefined names ---------- *)
Lemma text_eqb_eq a : forall b, text_eqb a b = true -> a = b.
Proof.
  induction a as [|x a IH]; intros [|y b] H; cbn [text_eqb] in H; try discriminate; [reflexivity|].
  apply andb_prop in H. destruct H as [H1 H2]. apply Z.eqb_eq in H1. subst. f_equal. apply IH. assumption.
Qed.

Lemma escape_injective s t : Forall valid s -> Forall valid t -> escape_string s = escape_string t -> s = t.
Proof.
  intros Hs Ht E. unfold escape_string in E. injection E as E. apply app_inv_tail in E.
  pose proof (unescape_escape_all s Hs) as A. pose proof (unescape_escape_all t Ht) as B.
  rewrite E in A. rewrite A in B. injection B as B. exact B.
Qed.

Lemma predefined_sound k name : lookup_text k PREDEFINED_CONSTANTS = Some name ->
  exists s0, Forall valid s0 /\ k = escape_string s0 /\ eval_lingo_lit name = Some s0.
Proof.
  unfold PREDEFINED_CONSTANTS. cbn [lookup_text]. intros H.
  repeat match type of H with
  | (if text_eqb ?key k then _ else _) = _ =>
    destruct (text_eqb key k) eqn:E; [apply text_eqb_eq in E; injection H as <-; subst k|clear E]
  end; [..|discriminate].
  - exists []. split; [constructor|split; reflexivity].
  - exists [8]. split; [repeat constructor; unfold valid; lia|split; reflexivity].
  - exists [3]. split; [repeat constructor; unfold valid; lia|split; reflexivity].
  - exists [34]. split; [repeat constructor; unfold valid; lia|split; reflexivity].
  - exists [13]. split; [repeat constructor; unfold valid; lia|split; reflexivity].
  - exists [9]. split; [repeat constructor; unfold valid; lia|split; reflexivity].
Qed.

Theorem lingo_literal_roundtrip s : Forall valid s ->
  eval_lingo_lit (generate_lingo_str (escape_string s)) = Some s.
Proof.
  intros Hv. unfold generate_lingo_str. destruct (lookup_text (escape_string s) PREDEFINED_CONSTANTS) as [name|] eqn:E.
  - destruct (predefined_sound _ _ E) as [s0 [V0 [K0 R0]]]. rewrite R0. f_equal. symmetry. apply escape_injective; assumption.
  - change (starts_with [34] (escape_string s)) with true. cbv iota. apply replace_chars_roundtrip. assumption.
Qed.

(* non-vacuity and a concrete instance with every kind of piece *)
Example lingo_example :
  generate_lingo_str (escape_string [97; 34; 98; 9; 13; 233; 8364; 128512; 92; 10; 11]) =
  [34;97;34; 32;38;32; 81;85;79;84;69; 32;38;32; 34;98;34; 32;38;32; 84;65;66; 32;38;32; 82;69;84;85;82;78; 32;38;32;
   34; 92;120;101;57; 92;117;50;48;97;99; 92;85;48;48;48;49;102;54;48;48; 92;92; 92;110; 92;120;48;98; 34].
Proof. vm_compute. reflexivity. Qed.

(* ---------- 80-bit floats ---------- *)
Lemma land_split16 x : 0 <= x < 65536 -> Z.land x 32768 = x - x mod 32768.
Proof.
  intros H. assert (E1 : Z.land x 32767 = x mod 32768) by (apply (Z.land_ones x 15); lia).
  assert (E2 : Z.land x 65535 = x) by (change 65535 with (Z.ones 16); rewrite Z.land_ones by lia; apply Z.mod_small; lia).
  change 65535 with (Z.lor 32767 32768) in E2. rewrite Z.land_lor_distr_r in E2.
  assert (D : Z.land (Z.land x 32767) (Z.land x 32768) = 0).
  { apply Z.bits_inj'. intros n Hn. rewrite !Z.land_spec, Z.bits_0.
    pose proof (Z.land_spec 32767 32768 n) as B. change (Z.land 32767 32768) with 0 in B. rewrite Z.bits_0 in B.
    destruct (Z.testbit x n), (Z.testbit 32767 n), (Z.testbit 32768 n); cbn in *; congruence. }
  pose proof (Z.add_nocarry_lxor _ _ D) as A. rewrite (Z.lxor_lor _ _ D) in A. lia.
Qed.

Theorem float80_roundtrip (sgn : bool) (ebits q : Z) : 0 <= ebits < 32768 -> 0 <= q < 2 ^ 64 ->
  float80_parts (pack 2 Big ((if sgn then 32768 else 0) + ebits) ++ pack 8 Big q) = Some (sgn, q, ebits - 16383 - 63).
Proof.
  intros He Hq. unfold float80_parts. set (w := (if sgn then 32768 else 0) + ebits).
  assert (Hw : 0 <= w < 65536) by (unfold w; destruct sgn; lia).
  assert (S1 : slice (pack 2 Big w ++ pack 8 Big q) 0 2 = pack 2 Big w)
    by (apply (slice_mid [] (pack 2 Big w) (pack 8 Big q) 0 2); rewrite ?zlen_pack; reflexivity).
  assert (S2 : slice (pack 2 Big w ++ pack 8 Big q) 2 10 = pack 8 Big q).
  { rewrite <- (app_nil_r (pack 8 Big q)) at 1. apply (slice_mid (pack 2 Big w) (pack 8 Big q) [] 2 10); rewrite ?zlen_pack; reflexivity. }
  rewrite S1, S2.
  rewrite !unpack_u_pack by (cbn; lia).
  rewrite land_split16 by assumption. change 32767 with (Z.ones 15). rewrite Z.land_ones by lia.
  assert (Em : w mod 2 ^ 15 = ebits).
  { unfold w. destruct sgn; [|apply Z.mod_small; cbn; lia].
    change 32768 with (1 * 2 ^ 15). rewrite Z.add_comm, Z.mod_add by (cbn; lia). apply Z.mod_small. cbn; lia. }
  change 32768 with (2 ^ 15). rewrite Em. f_equal. f_equal. f_equal.
  unfold w. destruct sgn.
  - replace (32768 + ebits - ebits) with 32768 by lia. reflexivity.
  - replace (0 + ebits - ebits) with 0 by lia. reflexivity.
Qed.
