(* C06: the 32-bit decoder (decoder24b.py).  The PackBits stream is written linearly into rows of 4 * w bytes (four
   colour planes per row), last row of the buffer first; tokens may cross plane and row boundaries.  Then the planes
   are interleaved into 3-byte pixels and every output row is padded to a multiple of 4 bytes. *)
From Coq Require Import List ZArith Bool Lia.
From Coq.Strings Require Import Byte.
From DRX Require Import Py.PyBytes Proofs.PyBytesFacts Model.Riff Model.Clut Model.Bitd Proofs.BitdFacts Proofs.BitdRawFacts Proofs.Bitd1Facts Proofs.BmpReadFacts.
Import ListNotations.
Open Scope Z_scope.

Section Linear.
Variable width : Z.
Hypothesis Hwidth : 0 < width.

(* the buffer while row y is being filled: rows below are still empty, [cur] are the x bytes of row y written so far,
   [above] the finished rows (rows y+1 ...); y = -1: everything is written *)
Definition layout (x y : Z) (cur above : bytes) : bytes :=
  if y <? 0 then above else zerosZ (width * y) ++ cur ++ zerosZ (width - x) ++ above.

(* writing a piece of the stream *)
Fixpoint wr (l : bytes) (x y : Z) (cur above : bytes) : Z * Z * bytes * bytes :=
  match l with
  | [] => (x, y, cur, above)
  | b :: l' => if x + 1 >=? width then wr l' 0 (y - 1) [] ((cur ++ [b]) ++ above) else wr l' (x + 1) y (cur ++ [b]) above
  end.

Lemma wr_app l1 : forall l2 x y cur above,
  wr (l1 ++ l2) x y cur above = let '(x', y', cur', above') := wr l1 x y cur above in wr l2 x' y' cur' above'.
Proof.
  induction l1 as [|b l1 IH]; intros l2 x y cur above; [reflexivity|].
  cbn [app wr]. destruct (x + 1 >=? width); apply IH.
Qed.

(* a piece that completes the current row *)
Lemma wr_row l : forall x y cur above, l <> [] -> zlen cur = x -> zlen l = width - x ->
  wr l x y cur above = (0, y - 1, [], (cur ++ l) ++ above).
Proof.
  induction l as [|b l IH]; intros x y cur above Hne Hc Hl; [congruence|].
  rewrite zlen_cons in Hl. pose proof (zlen_nonneg l). cbn [wr].
  destruct l as [|b2 l'].
  - change (zlen (@nil byte)) with 0 in Hl. destruct (Z.geb_spec (x + 1) width); [reflexivity | lia].
  - destruct (Z.geb_spec (x + 1) width) as [Hge|_]; [rewrite zlen_cons in Hl; pose proof (zlen_nonneg l'); lia|].
    rewrite (IH (x + 1) y (cur ++ [b]) above); [| discriminate | rewrite zlen_app; change (zlen [b]) with 1; lia | lia].
    replace ((cur ++ [b]) ++ b2 :: l') with (cur ++ b :: b2 :: l') by (rewrite <- app_assoc; reflexivity). reflexivity.
Qed.

Lemma wr_rows rows : forall y above, Forall (fun r => zlen r = width) rows ->
  wr (concat rows) 0 y [] above = (0, y - zlen rows, [], concat (rev rows) ++ above).
Proof.
  induction rows as [|r rows IH]; intros y above Hall.
  - cbn [concat wr rev app]. rewrite Z.sub_0_r. reflexivity.
  - pose proof (Forall_inv Hall) as Hr. cbv beta in Hr. pose proof (Forall_inv_tail Hall) as Hrest.
    cbn [concat]. rewrite wr_app, (wr_row r 0 y [] above); [| intros E; rewrite E in Hr; change (zlen (@nil byte)) with 0 in Hr; lia | reflexivity | lia].
    cbn [app]. rewrite IH by exact Hrest. rewrite zlen_cons. cbn [rev]. rewrite concat_app. cbn [concat]. rewrite app_nil_r, <- app_assoc.
    replace (y - 1 - zlen rows) with (y - (1 + zlen rows)) by lia. reflexivity.
Qed.

(* how much of the buffer is still free *)
Definition room (x y : Z) : Z := width * (y + 1) - x.

Lemma wr_facts l : forall x y cur above, 0 <= x < width -> zlen cur = x -> zlen l <= room x y ->
  let '(x', y', cur', _) := wr l x y cur above in
  0 <= x' < width /\ zlen cur' = x' /\ room x' y' = room x y - zlen l.
Proof.
  induction l as [|b l IH]; intros x y cur above Hx Hc Hl.
  - cbn [wr]. change (zlen (@nil byte)) with 0. repeat split; lia.
  - rewrite zlen_cons in Hl. pose proof (zlen_nonneg l). cbn [wr].
    destruct (Z.geb_spec (x + 1) width).
    + specialize (IH 0 (y - 1) [] ((cur ++ [b]) ++ above) ltac:(lia) eq_refl).
      unfold room in *. specialize (IH ltac:(nia)).
      destruct (wr l 0 (y - 1) [] ((cur ++ [b]) ++ above)) as [[[x' y'] cur'] ab']. rewrite zlen_cons.
      destruct IH as (I1 & I2 & I3). repeat split; try lia; try nia.
    + specialize (IH (x + 1) y (cur ++ [b]) above ltac:(lia)).
      rewrite zlen_app in IH. change (zlen [b]) with 1 in IH. unfold room in *. specialize (IH ltac:(lia) ltac:(lia)).
      destruct (wr l (x + 1) y (cur ++ [b]) above) as [[[x' y'] cur'] ab']. rewrite zlen_cons.
      destruct IH as (I1 & I2 & I3). repeat split; lia.
Qed.

(* one write *)
Lemma set_layout x y cur above v : 0 <= y -> 0 <= x < width -> zlen cur = x ->
  set_idx (layout x y cur above) (y * width + x) v
  = Ok (if x + 1 >=? width then layout 0 (y - 1) [] ((cur ++ [v]) ++ above) else layout (x + 1) y (cur ++ [v]) above).
Proof.
  intros Hy Hx Hc. unfold layout at 1. destruct (Z.ltb_spec y 0); [lia|].
  replace (zerosZ (width - x)) with (x00 :: zerosZ (width - x - 1)).
  2:{ change (x00 :: zerosZ (width - x - 1)) with (zerosZ 1 ++ zerosZ (width - x - 1)). rewrite <- zerosZ_add by lia. f_equal. lia. }
  replace (zerosZ (width * y) ++ cur ++ (x00 :: zerosZ (width - x - 1)) ++ above)
    with ((zerosZ (width * y) ++ cur) ++ x00 :: (zerosZ (width - x - 1) ++ above)) by (repeat rewrite <- app_assoc; reflexivity).
  rewrite set_idx_app by (rewrite zlen_app, zlen_zerosZ by nia; lia).
  f_equal. unfold layout.
  destruct (Z.geb_spec (x + 1) width).
  - replace (width - x - 1) with 0 by lia. change (zerosZ 0) with (@nil byte). cbn [app].
    destruct (Z.ltb_spec (y - 1) 0).
    + assert (y = 0) by lia. subst y. rewrite Z.mul_0_r. change (zerosZ 0) with (@nil byte). cbn [app]. rewrite <- app_assoc. reflexivity.
    + replace (width * y) with (width * (y - 1) + width) by lia. rewrite zerosZ_add by nia.
      rewrite Z.sub_0_r. repeat rewrite <- app_assoc. reflexivity.
  - destruct (Z.ltb_spec y 0); [lia|]. replace (width - (x + 1)) with (width - x - 1) by lia. repeat rewrite <- app_assoc. reflexivity.
Qed.

(* a run and a literal write their bytes *)
Lemma put_run_wrap_wr n : forall x y cur above v, 0 <= x < width -> zlen cur = x -> Z.of_nat n <= room x y ->
  put_run_wrap n (layout x y cur above) x y width v
  = let '(x', y', cur', above') := wr (repeat v n) x y cur above in Ok (layout x' y' cur' above', x', y').
Proof.
  induction n as [|n IH]; intros x y cur above v Hx Hc Hr; [reflexivity|].
  cbn [put_run_wrap repeat wr].
  assert (Hy : 0 <= y) by (unfold room in Hr; nia).
  rewrite set_layout by assumption. cbn [bind].
  destruct (Z.geb_spec (x + 1) width).
  - apply IH; [lia | reflexivity | unfold room in *; nia].
  - apply IH; [lia | rewrite zlen_app; change (zlen [v]) with 1; lia | unfold room in *; lia].
Qed.

Lemma put_lit_wrap_wr l : forall fp fs x y cur above, 0 <= x < width -> zlen cur = x -> zlen l <= room x y ->
  put_lit_wrap (length l) (fp ++ l ++ fs) (layout x y cur above) x y width (zlen fp)
  = let '(x', y', cur', above') := wr l x y cur above in Ok (layout x' y' cur' above', x', y', zlen fp + zlen l).
Proof.
  induction l as [|b l IH]; intros fp fs x y cur above Hx Hc Hr.
  - cbn [length put_lit_wrap wr]. change (zlen (@nil byte)) with 0. rewrite Z.add_0_r. reflexivity.
  - rewrite zlen_cons in *. pose proof (zlen_nonneg l). cbn [length put_lit_wrap wr].
    assert (Hy : 0 <= y) by (unfold room in Hr; nia).
    assert (Eg : get_idx (fp ++ (b :: l) ++ fs) (zlen fp) = Ok b).
    { unfold get_idx. cbn [app]. rewrite index_app_at by reflexivity. reflexivity. }
    rewrite Eg. cbn [bind]. rewrite set_layout by assumption. cbn [bind].
    replace (fp ++ (b :: l) ++ fs) with ((fp ++ [b]) ++ l ++ fs) by (cbn [app]; rewrite <- app_assoc; reflexivity).
    replace (zlen fp + 1) with (zlen (fp ++ [b])) by (rewrite zlen_app; reflexivity).
    destruct (Z.geb_spec (x + 1) width).
    + rewrite IH; [| lia | reflexivity | unfold room in *; nia].
      destruct (wr l 0 (y - 1) [] ((cur ++ [b]) ++ above)) as [[[x' y'] cur'] ab']. rewrite zlen_app. change (zlen [b]) with 1.
      f_equal. f_equal. lia.
    + rewrite IH; [| lia | rewrite zlen_app; change (zlen [b]) with 1; lia | unfold room in *; lia].
      destruct (wr l (x + 1) y (cur ++ [b]) above) as [[[x' y'] cur'] ab']. rewrite zlen_app. change (zlen [b]) with 1.
      f_equal. f_equal. lia.
Qed.

(* the token loop *)
Lemma loop24_tokens ts : forall fuel fp fs x y cur above,
  Forall wf_tok ts -> 0 <= x < width -> zlen cur = x -> zlen (dec_toks ts) <= room x y ->
  loop24 (length ts + fuel) (fp ++ enc_toks ts ++ fs) (Build_st (layout x y cur above) x y (zlen fp)) width
  = let '(x', y', cur', above') := wr (dec_toks ts) x y cur above in
    loop24 fuel (fp ++ enc_toks ts ++ fs) (Build_st (layout x' y' cur' above') x' y' (zlen fp + zlen (enc_toks ts))) width.
Proof.
  induction ts as [|t ts IH]; intros fuel fp fs x y cur above Hwf Hx Hc Hr.
  - cbn [length Nat.add dec_toks enc_toks map concat wr app]. change (zlen (@nil byte)) with 0. rewrite Z.add_0_r. reflexivity.
  - pose proof (Forall_inv Hwf) as Ht. pose proof (Forall_inv_tail Hwf) as Hts.
    unfold enc_toks, dec_toks in *. cbn [map concat] in *. fold (enc_toks ts) in *. fold (dec_toks ts) in *.
    rewrite zlen_app in Hr. pose proof (dec_tok_pos t Ht) as Hpos. pose proof (zlen_nonneg (dec_toks ts)) as Hnn.
    pose proof (zlen_nonneg fp). pose proof (zlen_nonneg fs). pose proof (zlen_nonneg (enc_toks ts)).
    assert (Hy : 0 <= y) by (unfold room in Hr; nia).
    cbn [length Nat.add loop24 s_idx s_y s_x s_data].
    rewrite wr_app.
    pose proof (wr_facts (dec_tok t) x y cur above Hx Hc ltac:(lia)) as Hf.
    replace (fp ++ (enc_tok t ++ enc_toks ts) ++ fs) with (fp ++ enc_tok t ++ (enc_toks ts ++ fs)) by (repeat rewrite <- app_assoc; reflexivity).
    destruct (Z.geb_spec y 0); [|lia].
    destruct t as [l|n v]; cbn [wf_tok enc_tok dec_tok] in *.
    + (* literal *)
      assert (Hl : 1 <= zlen l <= 128) by (unfold zlen; lia).
      assert (Hlt : zlen fp <? zlen (fp ++ (byte_of_Z (zlen l - 1) :: l) ++ enc_toks ts ++ fs) = true).
      { apply Z.ltb_lt. rewrite !zlen_app, zlen_cons. lia. }
      rewrite Hlt. cbn [andb].
      assert (Eg : get_idx (fp ++ (byte_of_Z (zlen l - 1) :: l) ++ enc_toks ts ++ fs) (zlen fp) = Ok (byte_of_Z (zlen l - 1))).
      { unfold get_idx. cbn [app]. rewrite index_app_at by reflexivity. reflexivity. }
      rewrite Eg. cbn [bind]. rewrite u8_byte_of_Z, Z.mod_small by lia.
      rewrite land128 by lia. destruct (Z.ltb_spec (zlen l - 1) 128); [|lia]. cbn [Z.eqb negb].
      destruct (Z.eqb_spec (zlen l - 1) 0) as [E0|E0]; cbn [negb].
      * (* a literal of one byte is stored as 00 c and decoded as a run of one *)
        destruct l as [|c [|c2 l']]; [cbn in Hl; lia | | rewrite !zlen_cons in E0; pose proof (zlen_nonneg l'); lia].
        assert (Eg2 : get_idx (fp ++ [byte_of_Z (zlen [c] - 1); c] ++ enc_toks ts ++ fs) (zlen fp + 1) = Ok c).
        { unfold get_idx. replace (fp ++ [byte_of_Z (zlen [c] - 1); c] ++ enc_toks ts ++ fs) with ((fp ++ [byte_of_Z (zlen [c] - 1)]) ++ c :: (enc_toks ts ++ fs))
            by (rewrite <- app_assoc; reflexivity).
          rewrite index_app_at by (rewrite zlen_app; reflexivity). reflexivity. }
        cbn [app] in Eg2 |- *. rewrite Eg2. cbn [bind].
        rewrite (put_run_wrap_wr 1 x y cur above c Hx Hc) by (change (Z.of_nat 1) with 1; change (zlen [c]) with 1 in Hr; lia).
        change (repeat c 1) with [c].
        destruct (wr [c] x y cur above) as [[[x1 y1] cur1] ab1]. destruct Hf as (F1 & F2 & F3). cbn [bind].
        replace (fp ++ byte_of_Z (zlen [c] - 1) :: c :: enc_toks ts ++ fs) with ((fp ++ [byte_of_Z (zlen [c] - 1); c]) ++ enc_toks ts ++ fs)
          by (rewrite <- app_assoc; reflexivity).
        replace (zlen fp + 2) with (zlen (fp ++ [byte_of_Z (zlen [c] - 1); c])) by (rewrite zlen_app; reflexivity).
        rewrite (IH fuel (fp ++ [byte_of_Z (zlen [c] - 1); c]) fs x1 y1 cur1 ab1 Hts F1 F2) by (change (zlen [c]) with 1 in *; lia).
        destruct (wr (dec_toks ts) x1 y1 cur1 ab1) as [[[x2 y2] cur2] ab2].
        match goal with |- loop24 _ _ ?a _ = loop24 _ _ ?b _ => replace b with a; [reflexivity|] end.
        f_equal. unfold zlen. rewrite ?app_length. cbn [length]. rewrite ?app_length. lia.
      * replace (Z.to_nat (zlen l - 1 + 1)) with (length l) by (unfold zlen; lia).
        replace (fp ++ (byte_of_Z (zlen l - 1) :: l) ++ enc_toks ts ++ fs) with ((fp ++ [byte_of_Z (zlen l - 1)]) ++ l ++ (enc_toks ts ++ fs)) at 1
          by (cbn [app]; rewrite <- app_assoc; reflexivity).
        replace (zlen fp + 1) with (zlen (fp ++ [byte_of_Z (zlen l - 1)])) by (rewrite zlen_app; reflexivity).
        rewrite (put_lit_wrap_wr l _ _ x y cur above Hx Hc) by lia.
        destruct (wr l x y cur above) as [[[x1 y1] cur1] ab1]. destruct Hf as (F1 & F2 & F3). cbn [bind].
        replace (fp ++ (byte_of_Z (zlen l - 1) :: l) ++ enc_toks ts ++ fs) with ((fp ++ byte_of_Z (zlen l - 1) :: l) ++ enc_toks ts ++ fs)
          by (repeat rewrite <- app_assoc; reflexivity).
        replace (zlen (fp ++ [byte_of_Z (zlen l - 1)]) + zlen l) with (zlen (fp ++ byte_of_Z (zlen l - 1) :: l))
          by (rewrite !zlen_app, zlen_cons; change (zlen [byte_of_Z (zlen l - 1)]) with 1; lia).
        rewrite (IH fuel (fp ++ byte_of_Z (zlen l - 1) :: l) fs x1 y1 cur1 ab1 Hts F1 F2) by lia.
        destruct (wr (dec_toks ts) x1 y1 cur1 ab1) as [[[x2 y2] cur2] ab2].
        match goal with |- loop24 _ ?f1 ?a _ = loop24 _ ?f2 ?b _ => replace b with a; [replace f2 with f1; [reflexivity|]|] end.
        { repeat rewrite <- app_assoc. reflexivity. }
        f_equal. unfold zlen. rewrite ?app_length. cbn [length]. rewrite ?app_length. lia.
    + (* run *)
      assert (Hn : 2 <= Z.of_nat n <= 129) by lia.
      assert (Hlt : zlen fp <? zlen (fp ++ [byte_of_Z (257 - Z.of_nat n); v] ++ enc_toks ts ++ fs) = true).
      { apply Z.ltb_lt. rewrite !zlen_app. change (zlen [byte_of_Z (257 - Z.of_nat n); v]) with 2. lia. }
      rewrite Hlt. cbn [andb].
      assert (Eg : get_idx (fp ++ [byte_of_Z (257 - Z.of_nat n); v] ++ enc_toks ts ++ fs) (zlen fp) = Ok (byte_of_Z (257 - Z.of_nat n))).
      { unfold get_idx. cbn [app]. rewrite index_app_at by reflexivity. reflexivity. }
      rewrite Eg. cbn [bind]. rewrite u8_byte_of_Z, Z.mod_small by lia.
      rewrite land128 by lia. destruct (Z.ltb_spec (257 - Z.of_nat n) 128); [lia|]. cbn [Z.eqb negb].
      assert (Eg2 : get_idx (fp ++ [byte_of_Z (257 - Z.of_nat n); v] ++ enc_toks ts ++ fs) (zlen fp + 1) = Ok v).
      { unfold get_idx. replace (fp ++ [byte_of_Z (257 - Z.of_nat n); v] ++ enc_toks ts ++ fs) with ((fp ++ [byte_of_Z (257 - Z.of_nat n)]) ++ v :: (enc_toks ts ++ fs))
          by (rewrite <- app_assoc; reflexivity).
        rewrite index_app_at by (rewrite zlen_app; reflexivity). reflexivity. }
      rewrite Eg2. cbn [bind].
      replace (Z.to_nat (257 - (257 - Z.of_nat n))) with n by lia.
      rewrite zlen_repeat in Hr.
      rewrite (put_run_wrap_wr n x y cur above v Hx Hc) by lia.
      destruct (wr (repeat v n) x y cur above) as [[[x1 y1] cur1] ab1]. destruct Hf as (F1 & F2 & F3). cbn [bind].
      replace (fp ++ [byte_of_Z (257 - Z.of_nat n); v] ++ enc_toks ts ++ fs) with ((fp ++ [byte_of_Z (257 - Z.of_nat n); v]) ++ enc_toks ts ++ fs)
        by (rewrite <- app_assoc; reflexivity).
      replace (zlen fp + 2) with (zlen (fp ++ [byte_of_Z (257 - Z.of_nat n); v])) by (rewrite zlen_app; reflexivity).
      rewrite zlen_repeat in F3.
      rewrite (IH fuel (fp ++ [byte_of_Z (257 - Z.of_nat n); v]) fs x1 y1 cur1 ab1 Hts F1 F2) by lia.
      destruct (wr (dec_toks ts) x1 y1 cur1 ab1) as [[[x2 y2] cur2] ab2].
      match goal with |- loop24 _ _ ?a _ = loop24 _ _ ?b _ => replace b with a; [reflexivity|] end.
      f_equal. unfold zlen. rewrite ?app_length. cbn [length]. rewrite ?app_length. lia.
Qed.
End Linear.

(* ---------- the planes of a row, interleaved ---------- *)
(* stored row: four planes of w bytes; pixel x = (plane 3, plane 2, plane 1) at x *)
Definition pixel24 (w : Z) (r : bytes) (x : Z) : bytes :=
  [nth (Z.to_nat (w * 3 + x)) r x00; nth (Z.to_nat (w * 2 + x)) r x00; nth (Z.to_nat (w + x)) r x00].
Definition out_row24 (w : Z) (r : bytes) : bytes :=
  concat (map (pixel24 w r) (zrange (Z.to_nat w))) ++ zeros (Z.to_nat (row_stride (w * 3) - w * 3)).

(* ---------- collect over ranges ---------- *)
Lemma collect_ok {A B} (g : A -> list B) (l : list A) : collect (map (fun a => Ok (g a)) l) = Ok (concat (map g l)).
Proof. induction l as [|a l IH]; [reflexivity|]. cbn [map collect bind concat]. rewrite IH. reflexivity. Qed.
Lemma collect_ext {A B} (F G : A -> result (list B)) (l : list A) : (forall a, In a l -> F a = G a) -> collect (map F l) = collect (map G l).
Proof.
  induction l as [|a l IH]; intros H; [reflexivity|]. cbn [map collect]. rewrite (H a (or_introl eq_refl)), IH; [reflexivity|].
  intros b Hb. apply H. right. exact Hb.
Qed.
Lemma in_zrange n x : In x (zrange n) -> 0 <= x < Z.of_nat n.
Proof.
  induction n as [|n IH]; [intros []|]. cbn [zrange]. intros H. apply in_app_or in H. destruct H as [H|[<-|[]]]; [specialize (IH H)|]; lia.
Qed.
Lemma zrange_length n : length (zrange n) = n.
Proof. induction n as [|n IH]; [reflexivity|]. cbn [zrange]. rewrite app_length, IH. cbn [length]. lia. Qed.
Lemma map_zrange_nth {A B} (h : A -> B) (d : A) (R : list A) : map (fun y => h (nth (Z.to_nat y) R d)) (zrange (length R)) = map h R.
Proof.
  induction R as [|r R IH] using rev_ind; [reflexivity|].
  rewrite app_length. cbn [length]. replace (length R + 1)%nat with (S (length R)) by lia. cbn [zrange].
  rewrite !map_app. cbn [map]. f_equal.
  - rewrite <- IH. apply map_ext_in. intros y Hy. apply in_zrange in Hy. rewrite app_nth1 by lia. reflexivity.
  - rewrite Nat2Z.id, app_nth2, Nat.sub_diag by lia. reflexivity.
Qed.

(* indexing a buffer made of equally long rows (as in BmpReadFacts, for get_idx) *)
Lemma get_idx_rows width (R : list (list byte)) y k : Forall (fun r => zlen r = width) R -> 0 <= y < zlen R -> 0 <= k < width ->
  get_idx (concat R) (y * width + k) = Ok (nth (Z.to_nat k) (nth (Z.to_nat y) R []) x00).
Proof.
  intros Hall Hy Hk. unfold get_idx. rewrite <- (app_nil_r (concat R)).
  rewrite (index_rows width R [] y k Hall Hy Hk).
  assert (Hr : zlen (nth (Z.to_nat y) R []) = width).
  { rewrite Forall_forall in Hall. apply Hall. apply nth_In. unfold zlen in Hy. lia. }
  rewrite index_nth by lia. reflexivity.
Qed.

Lemma mix24_rows w (R : list (list byte)) : 0 <= w -> Forall (fun r => zlen r = w * 4) R ->
  mix24 (concat R) w (zlen R) = Ok (concat (map (out_row24 w) R)).
Proof.
  intros Hw Hall. unfold mix24. unfold zlen at 1. rewrite Nat2Z.id.
  etransitivity; [apply (collect_ext _ (fun y => Ok (out_row24 w (nth (Z.to_nat y) R []))))|].
  - intros y Hy. apply in_zrange in Hy.
    assert (E : collect (map (fun x => let! r := get_idx (concat R) (y * (w * 4) + w * 3 + x) in
                                       let! g := get_idx (concat R) (y * (w * 4) + w * 2 + x) in
                                       let! b := get_idx (concat R) (y * (w * 4) + w + x) in Ok [r; g; b]) (zrange (Z.to_nat w)))
                = Ok (concat (map (pixel24 w (nth (Z.to_nat y) R [])) (zrange (Z.to_nat w))))).
    { etransitivity; [apply (collect_ext _ (fun x => Ok (pixel24 w (nth (Z.to_nat y) R []) x)))|apply collect_ok].
      intros x Hx. apply in_zrange in Hx. rewrite Z2Nat.id in Hx by lia.
      replace (y * (w * 4) + w * 3 + x) with (y * (w * 4) + (w * 3 + x)) by lia.
      replace (y * (w * 4) + w * 2 + x) with (y * (w * 4) + (w * 2 + x)) by lia.
      replace (y * (w * 4) + w + x) with (y * (w * 4) + (w + x)) by lia.
      rewrite !(get_idx_rows (w * 4) R y) by (try assumption; unfold zlen; lia). reflexivity. }
    rewrite E. reflexivity.
  - etransitivity; [apply (collect_ok (fun y => out_row24 w (nth (Z.to_nat y) R [])))|].
    f_equal. f_equal. apply (map_zrange_nth (out_row24 w) []).
Qed.

(* ---------- the whole 32-bit image ---------- *)
(* rows: the stored rows top-down, each 4 * w bytes (four planes); ts: any PackBits segmentation of their concatenation *)
Theorem compressed24_pixels w h ts rows :
  0 < w -> Forall wf_tok ts -> dec_toks ts = concat rows -> Forall (fun r => zlen r = w * 4) rows -> zlen rows = h ->
  decode_compressed24 (enc_toks ts) w h (w * 4) = Ok (concat (map (out_row24 w) (rev rows))).
Proof.
  intros Hw Hwf Hdec Hall Hh. unfold decode_compressed24.
  pose proof (zlen_nonneg rows) as Hrn.
  unfold bytearray. destruct (Z.ltb_spec (w * 4 * h) 0); [nia|]. cbn [bind].
  assert (Hs : zlen (dec_toks ts) = w * 4 * h) by (rewrite Hdec, (zlen_concat_rows (w * 4) rows Hall); lia).
  destruct (Z.eq_dec h 0) as [Hh0|Hh0].
  - (* no rows at all *)
    assert (rows = []) by (apply zlen_le0_nil; lia). subst rows. cbn [concat] in Hdec.
    assert (ts = []).
    { destruct ts as [|t ts']; [reflexivity|]. exfalso. unfold dec_toks in Hs. cbn [map concat] in Hs. rewrite zlen_app in Hs.
      pose proof (dec_tok_pos t (Forall_inv Hwf)). pose proof (zlen_nonneg (concat (map dec_tok ts'))). lia. }
    subst ts h. rewrite Hh0. cbn. rewrite Z.mul_0_r. reflexivity.
  - assert (Hn : (length ts <= length (enc_toks ts))%nat).
    { clear - Hwf. induction Hwf as [|t ts Ht _ IHt]; [cbn; lia|]. unfold enc_toks in *. cbn [map concat]. rewrite app_length. cbn [length].
      destruct t as [l|n v]; cbn [enc_tok length wf_tok] in *; lia. }
    replace (S (length (enc_toks ts))) with (length ts + S (length (enc_toks ts) - length ts))%nat by lia.
    replace (zeros (Z.to_nat (w * 4 * h))) with (layout (w * 4) 0 (h - 1) [] []).
    2:{ unfold layout. destruct (Z.ltb_spec (h - 1) 0); [lia|]. cbn [app]. rewrite app_nil_r, Z.sub_0_r.
        rewrite <- zerosZ_add by nia. unfold zerosZ. f_equal. f_equal. lia. }
    replace (enc_toks ts) with ([] ++ enc_toks ts ++ []) at 2 by (rewrite app_nil_r; reflexivity).
    change 0 with (zlen (@nil byte)) at 2.
    assert (Hw4 : 0 < w * 4) by lia.
    rewrite (loop24_tokens (w * 4) Hw4 ts); [| exact Hwf | change (zlen (@nil byte)) with 0; lia | reflexivity | change (zlen (@nil byte)) with 0; unfold room; rewrite Hs; lia].
    change (zlen (@nil byte)) with 0.
    rewrite Hdec, (wr_rows (w * 4) Hw4 rows (h - 1) [] Hall).
    replace (h - 1 - zlen rows) with (-1) by lia.
    (* everything is written: the loop stops *)
    assert (Estop : forall fuel f idx, loop24 fuel f (Build_st (layout (w * 4) 0 (-1) [] (concat (rev rows) ++ [])) 0 (-1) idx) (w * 4)
                                       = Ok (Build_st (layout (w * 4) 0 (-1) [] (concat (rev rows) ++ [])) 0 (-1) idx)).
    { intros fuel f idx. destruct fuel; cbn [loop24 s_idx s_y]; rewrite andb_false_r; reflexivity. }
    rewrite Estop. cbn [bind s_data]. unfold layout. cbn [Z.ltb Z.compare]. rewrite app_nil_r.
    destruct (Z.ltb_spec (row_stride (w * 3) * h) 0) as [Hneg|_].
    { exfalso. unfold row_stride in Hneg. assert (0 <= (w * 3 + 3) / 4) by (apply Z.div_pos; lia). nia. }
    cbn [bind].
    assert (Hrl : zlen (rev rows) = h) by (unfold zlen in *; rewrite rev_length; exact Hh).
    rewrite <- Hrl. apply mix24_rows; [lia|]. apply Forall_rev. exact Hall.
Qed.

Theorem compressed24_encoding_independent w h ts1 ts2 rows :
  0 < w -> Forall wf_tok ts1 -> Forall wf_tok ts2 -> dec_toks ts1 = concat rows -> dec_toks ts2 = concat rows ->
  Forall (fun r => zlen r = w * 4) rows -> zlen rows = h ->
  decode_compressed24 (enc_toks ts1) w h (w * 4) = decode_compressed24 (enc_toks ts2) w h (w * 4).
Proof. intros. rewrite (compressed24_pixels w h ts1 rows), (compressed24_pixels w h ts2 rows) by assumption. reflexivity. Qed.
