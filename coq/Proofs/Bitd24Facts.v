(* C06: the 32-bit decoder (decoder24b.py).  The PackBits stream is written linearly into rows of 4 * w bytes (four
   colour planes per row), last row of the buffer first; tokens may cross plane and row boundaries.  Then the planes
   are interleaved into 3-byte pixels and every output row is padded to a multiple of 4 bytes. *)
From Coq Require Import List ZArith Bool Lia.
From Coq.Strings Require Import Byte.
From DRX Require Import Py.PyBytes Proofs.PyBytesFacts Model.Riff Model.Clut Model.Bitd Proofs.BitdFacts Proofs.BitdRawFacts.
Import ListNotations.
Open Scope Z_scope.

Section Linear.
Variable width : Z.
Hypothesis Hwidth : 0 < width.

(* the buffer while row y is being filled: rows below are still empty, [cur] are the x bytes of row y written so far,
   [above] the finished rows (rows y+1 ...); y = -1: everything is written *)
Definition layout (x y : Z) (cur above : bytes) : bytes :=
  if y <? 0 then above else zerosZ (width * y) ++ cur ++ zerosZ (width - x) ++ above.

(* writing a piece of the stream *)
Fixpoint wr (l : bytes) (x y : Z) (cur above : bytes) : Z * Z * bytes * bytes :=
  match l with
  | [] => (x, y, cur, above)
  | b :: l' => if x + 1 >=? width then wr l' 0 (y - 1) [] ((cur ++ [b]) ++ above) else wr l' (x + 1) y (cur ++ [b]) above
  end.

Lemma wr_app l1 : forall l2 x y cur above,
  wr (l1 ++ l2) x y cur above = let '(x', y', cur', above') := wr l1 x y cur above in wr l2 x' y' cur' above'.
Proof.
  induction l1 as [|b l1 IH]; intros l2 x y cur above; [reflexivity|].
  cbn [app wr]. destruct (x + 1 >=? width); apply IH.
Qed.

(* a piece that completes the current row *)
Lemma wr_row l : forall x y cur above, l <> [] -> zlen cur = x -> zlen l = width - x ->
  wr l x y cur above = (0, y - 1, [], (cur ++ l) ++ above).
Proof.
  induction l as [|b l IH]; intros x y cur above Hne Hc Hl; [congruence|].
  rewrite zlen_cons in Hl. pose proof (zlen_nonneg l). cbn [wr].
  destruct l as [|b2 l'].
  - change (zlen (@nil byte)) with 0 in Hl. destruct (Z.geb_spec (x + 1) width); [reflexivity | lia].
  - destruct (Z.geb_spec (x + 1) width) as [Hge|_]; [rewrite zlen_cons in Hl; pose proof (zlen_nonneg l'); lia|].
    rewrite (IH (x + 1) y (cur ++ [b]) above); [| discriminate | rewrite zlen_app; change (zlen [b]) with 1; lia | lia].
    replace ((cur ++ [b]) ++ b2 :: l') with (cur ++ b :: b2 :: l') by (rewrite <- app_assoc; reflexivity). reflexivity.
Qed.

Lemma wr_rows rows : forall y above, Forall (fun r => zlen r = width) rows ->
  wr (concat rows) 0 y [] above = (0, y - zlen rows, [], concat (rev rows) ++ above).
Proof.
  induction rows as [|r rows IH]; intros y above Hall.
  - cbn [concat wr rev app]. rewrite Z.sub_0_r. reflexivity.
  - pose proof (Forall_inv Hall) as Hr. cbv beta in Hr. pose proof (Forall_inv_tail Hall) as Hrest.
    cbn [concat]. rewrite wr_app, (wr_row r 0 y [] above); [| intros E; rewrite E in Hr; change (zlen (@nil byte)) with 0 in Hr; lia | reflexivity | lia].
    cbn [app]. rewrite IH by exact Hrest. rewrite zlen_cons. cbn [rev]. rewrite concat_app. cbn [concat]. rewrite app_nil_r, <- app_assoc.
    replace (y - 1 - zlen rows) with (y - (1 + zlen rows)) by lia. reflexivity.
Qed.

(* how much of the buffer is still free *)
Definition room (x y : Z) : Z := width * (y + 1) - x.

Lemma wr_facts l : forall x y cur above, 0 <= x < width -> zlen cur = x -> zlen l <= room x y ->
  let '(x', y', cur', _) := wr l x y cur above in
  0 <= x' < width /\ zlen cur' = x' /\ room x' y' = room x y - zlen l.
Proof.
  induction l as [|b l IH]; intros x y cur above Hx Hc Hl.
  - cbn [wr]. change (zlen (@nil byte)) with 0. repeat split; lia.
  - rewrite zlen_cons in Hl. pose proof (zlen_nonneg l). cbn [wr].
    destruct (Z.geb_spec (x + 1) width).
    + specialize (IH 0 (y - 1) [] ((cur ++ [b]) ++ above) ltac:(lia) eq_refl).
      unfold room in *. specialize (IH ltac:(nia)).
      destruct (wr l 0 (y - 1) [] ((cur ++ [b]) ++ above)) as [[[x' y'] cur'] ab']. rewrite zlen_cons.
      destruct IH as (I1 & I2 & I3). repeat split; try lia; try nia.
    + specialize (IH (x + 1) y (cur ++ [b]) above ltac:(lia)).
      rewrite zlen_app in IH. change (zlen [b]) with 1 in IH. unfold room in *. specialize (IH ltac:(lia) ltac:(lia)).
      destruct (wr l (x + 1) y (cur ++ [b]) above) as [[[x' y'] cur'] ab']. rewrite zlen_cons.
      destruct IH as (I1 & I2 & I3). repeat split; lia.
Qed.

(* one write *)
Lemma set_layout x y cur above v : 0 <= y -> 0 <= x < width -> zlen cur = x ->
  set_idx (layout x y cur above) (y * width + x) v
  = Ok (if x + 1 >=? width then layout 0 (y - 1) [] ((cur ++ [v]) ++ above) else layout (x + 1) y (cur ++ [v]) above).
Proof.
  intros Hy Hx Hc. unfold layout at 1. destruct (Z.ltb_spec y 0); [lia|].
  replace (zerosZ (width - x)) with (x00 :: zerosZ (width - x - 1)).
  2:{ change (x00 :: zerosZ (width - x - 1)) with (zerosZ 1 ++ zerosZ (width - x - 1)). rewrite <- zerosZ_add by lia. f_equal. lia. }
  replace (zerosZ (width * y) ++ cur ++ (x00 :: zerosZ (width - x - 1)) ++ above)
    with ((zerosZ (width * y) ++ cur) ++ x00 :: (zerosZ (width - x - 1) ++ above)) by (repeat rewrite <- app_assoc; reflexivity).
  rewrite set_idx_app by (rewrite zlen_app, zlen_zerosZ by nia; lia).
  f_equal. unfold layout.
  destruct (Z.geb_spec (x + 1) width).
  - replace (width - x - 1) with 0 by lia. change (zerosZ 0) with (@nil byte). cbn [app].
    destruct (Z.ltb_spec (y - 1) 0).
    + assert (y = 0) by lia. subst y. rewrite Z.mul_0_r. change (zerosZ 0) with (@nil byte). cbn [app]. rewrite <- app_assoc. reflexivity.
    + replace (width * y) with (width * (y - 1) + width) by lia. rewrite zerosZ_add by nia.
      rewrite Z.sub_0_r. repeat rewrite <- app_assoc. reflexivity.
  - destruct (Z.ltb_spec y 0); [lia|]. replace (width - (x + 1)) with (width - x - 1) by lia. repeat rewrite <- app_assoc. reflexivity.
Qed.

(* a run and a literal write their bytes *)
Lemma put_run_wrap_wr n : forall x y cur above v, 0 <= x < width -> zlen cur = x -> Z.of_nat n <= room x y ->
  put_run_wrap n (layout x y cur above) x y width v
  = let '(x', y', cur', above') := wr (repeat v n) x y cur above in Ok (layout x' y' cur' above', x', y').
Proof.
  induction n as [|n IH]; intros x y cur above v Hx Hc Hr; [reflexivity|].
  cbn [put_run_wrap repeat wr].
  assert (Hy : 0 <= y) by (unfold room in Hr; nia).
  rewrite set_layout by assumption. cbn [bind].
  destruct (Z.geb_spec (x + 1) width).
  - apply IH; [lia | reflexivity | unfold room in *; nia].
  - apply IH; [lia | rewrite zlen_app; change (zlen [v]) with 1; lia | unfold room in *; lia].
Qed.

Lemma put_lit_wrap_wr l : forall fp fs x y cur above, 0 <= x < width -> zlen cur = x -> zlen l <= room x y ->
  put_lit_wrap (length l) (fp ++ l ++ fs) (layout x y cur above) x y width (zlen fp)
  = let '(x', y', cur', above') := wr l x y cur above in Ok (layout x' y' cur' above', x', y', zlen fp + zlen l).
Proof.
  induction l as [|b l IH]; intros fp fs x y cur above Hx Hc Hr.
  - cbn [length put_lit_wrap wr]. change (zlen (@nil byte)) with 0. rewrite Z.add_0_r. reflexivity.
  - rewrite zlen_cons in *. pose proof (zlen_nonneg l). cbn [length put_lit_wrap wr].
    assert (Hy : 0 <= y) by (unfold room in Hr; nia).
    assert (Eg : get_idx (fp ++ (b :: l) ++ fs) (zlen fp) = Ok b).
    { unfold get_idx. cbn [app]. rewrite index_app_at by reflexivity. reflexivity. }
    rewrite Eg. cbn [bind]. rewrite set_layout by assumption. cbn [bind].
    replace (fp ++ (b :: l) ++ fs) with ((fp ++ [b]) ++ l ++ fs) by (cbn [app]; rewrite <- app_assoc; reflexivity).
    replace (zlen fp + 1) with (zlen (fp ++ [b])) by (rewrite zlen_app; reflexivity).
    destruct (Z.geb_spec (x + 1) width).
    + rewrite IH; [| lia | reflexivity | unfold room in *; nia].
      destruct (wr l 0 (y - 1) [] ((cur ++ [b]) ++ above)) as [[[x' y'] cur'] ab']. rewrite zlen_app. change (zlen [b]) with 1.
      f_equal. f_equal. lia.
    + rewrite IH; [| lia | rewrite zlen_app; change (zlen [b]) with 1; lia | unfold room in *; lia].
      destruct (wr l (x + 1) y (cur ++ [b]) above) as [[[x' y'] cur'] ab']. rewrite zlen_app. change (zlen [b]) with 1.
      f_equal. f_equal. lia.
Qed.

(* the token loop *)
Lemma loop24_tokens ts : forall fuel fp fs x y cur above,
  Forall wf_tok ts -> 0 <= x < width -> zlen cur = x -> zlen (dec_toks ts) <= room x y ->
  loop24 (length ts + fuel) (fp ++ enc_toks ts ++ fs) (Build_st (layout x y cur above) x y (zlen fp)) width
  = let '(x', y', cur', above') := wr (dec_toks ts) x y cur above in
    loop24 fuel (fp ++ enc_toks ts ++ fs) (Build_st (layout x' y' cur' above') x' y' (zlen fp + zlen (enc_toks ts))) width.
Proof.
  induction ts as [|t ts IH]; intros fuel fp fs x y cur above Hwf Hx Hc Hr.
  - cbn [length Nat.add dec_toks enc_toks map concat wr app]. change (zlen (@nil byte)) with 0. rewrite Z.add_0_r. reflexivity.
  - pose proof (Forall_inv Hwf) as Ht. pose proof (Forall_inv_tail Hwf) as Hts.
    unfold enc_toks, dec_toks in *. cbn [map concat] in *. fold (enc_toks ts) in *. fold (dec_toks ts) in *.
    rewrite zlen_app in Hr. pose proof (dec_tok_pos t Ht) as Hpos. pose proof (zlen_nonneg (dec_toks ts)) as Hnn.
    pose proof (zlen_nonneg fp). pose proof (zlen_nonneg fs). pose proof (zlen_nonneg (enc_toks ts)).
    assert (Hy : 0 <= y) by (unfold room in Hr; nia).
    cbn [length Nat.add loop24 s_idx s_y s_x s_data].
    rewrite wr_app.
    pose proof (wr_facts (dec_tok t) x y cur above Hx Hc ltac:(lia)) as Hf.
    replace (fp ++ (enc_tok t ++ enc_toks ts) ++ fs) with (fp ++ enc_tok t ++ (enc_toks ts ++ fs)) by (repeat rewrite <- app_assoc; reflexivity).
    destruct (Z.geb_spec y 0); [|lia].
    destruct t as [l|n v]; cbn [wf_tok enc_tok dec_tok] in *.
    + (* literal *)
      assert (Hl : 1 <= zlen l <= 128) by (unfold zlen; lia).
      assert (Hlt : zlen fp <? zlen (fp ++ (byte_of_Z (zlen l - 1) :: l) ++ enc_toks ts ++ fs) = true).
      { apply Z.ltb_lt. rewrite !zlen_app, zlen_cons. lia. }
      rewrite Hlt. cbn [andb].
      assert (Eg : get_idx (fp ++ (byte_of_Z (zlen l - 1) :: l) ++ enc_toks ts ++ fs) (zlen fp) = Ok (byte_of_Z (zlen l - 1))).
      { unfold get_idx. cbn [app]. rewrite index_app_at by reflexivity. reflexivity. }
      rewrite Eg. cbn [bind]. rewrite u8_byte_of_Z, Z.mod_small by lia.
      rewrite land128 by lia. destruct (Z.ltb_spec (zlen l - 1) 128); [|lia]. cbn [Z.eqb negb].
      destruct (Z.eqb_spec (zlen l - 1) 0) as [E0|E0]; cbn [negb].
      * (* a literal of one byte is stored as 00 c and decoded as a run of one *)
        destruct l as [|c [|c2 l']]; [cbn in Hl; lia | | rewrite !zlen_cons in E0; pose proof (zlen_nonneg l'); lia].
        assert (Eg2 : get_idx (fp ++ [byte_of_Z (zlen [c] - 1); c] ++ enc_toks ts ++ fs) (zlen fp + 1) = Ok c).
        { unfold get_idx. replace (fp ++ [byte_of_Z (zlen [c] - 1); c] ++ enc_toks ts ++ fs) with ((fp ++ [byte_of_Z (zlen [c] - 1)]) ++ c :: (enc_toks ts ++ fs))
            by (rewrite <- app_assoc; reflexivity).
          rewrite index_app_at by (rewrite zlen_app; reflexivity). reflexivity. }
        cbn [app] in Eg2 |- *. rewrite Eg2. cbn [bind].
        rewrite (put_run_wrap_wr 1 x y cur above c Hx Hc) by (change (Z.of_nat 1) with 1; change (zlen [c]) with 1 in Hr; lia).
        change (repeat c 1) with [c].
        destruct (wr [c] x y cur above) as [[[x1 y1] cur1] ab1]. destruct Hf as (F1 & F2 & F3). cbn [bind].
        replace (fp ++ byte_of_Z (zlen [c] - 1) :: c :: enc_toks ts ++ fs) with ((fp ++ [byte_of_Z (zlen [c] - 1); c]) ++ enc_toks ts ++ fs)
          by (rewrite <- app_assoc; reflexivity).
        replace (zlen fp + 2) with (zlen (fp ++ [byte_of_Z (zlen [c] - 1); c])) by (rewrite zlen_app; reflexivity).
        rewrite (IH fuel (fp ++ [byte_of_Z (zlen [c] - 1); c]) fs x1 y1 cur1 ab1 Hts F1 F2) by (change (zlen [c]) with 1 in *; lia).
        destruct (wr (dec_toks ts) x1 y1 cur1 ab1) as [[[x2 y2] cur2] ab2].
        match goal with |- loop24 _ _ ?a _ = loop24 _ _ ?b _ => replace b with a; [reflexivity|] end.
        f_equal. unfold zlen. rewrite ?app_length. cbn [length]. rewrite ?app_length. lia.
      * replace (Z.to_nat (zlen l - 1 + 1)) with (length l) by (unfold zlen; lia).
        replace (fp ++ (byte_of_Z (zlen l - 1) :: l) ++ enc_toks ts ++ fs) with ((fp ++ [byte_of_Z (zlen l - 1)]) ++ l ++ (enc_toks ts ++ fs)) at 1
          by (cbn [app]; rewrite <- app_assoc; reflexivity).
        replace (zlen fp + 1) with (zlen (fp ++ [byte_of_Z (zlen l - 1)])) by (rewrite zlen_app; reflexivity).
        rewrite (put_lit_wrap_wr l _ _ x y cur above Hx Hc) by lia.
        destruct (wr l x y cur above) as [[[x1 y1] cur1] ab1]. destruct Hf as (F1 & F2 & F3). cbn [bind].
        replace (fp ++ (byte_of_Z (zlen l - 1) :: l) ++ enc_toks ts ++ fs) with ((fp ++ byte_of_Z (zlen l - 1) :: l) ++ enc_toks ts ++ fs)
          by (repeat rewrite <- app_assoc; reflexivity).
        replace (zlen (fp ++ [byte_of_Z (zlen l - 1)]) + zlen l) with (zlen (fp ++ byte_of_Z (zlen l - 1) :: l))
          by (rewrite !zlen_app, zlen_cons; change (zlen [byte_of_Z (zlen l - 1)]) with 1; lia).
        rewrite (IH fuel (fp ++ byte_of_Z (zlen l - 1) :: l) fs x1 y1 cur1 ab1 Hts F1 F2) by lia.
        destruct (wr (dec_toks ts) x1 y1 cur1 ab1) as [[[x2 y2] cur2] ab2].
        match goal with |- loop24 _ ?f1 ?a _ = loop24 _ ?f2 ?b _ => replace b with a; [replace f2 with f1; [reflexivity|]|] end.
        { repeat rewrite <- app_assoc. reflexivity. }
        f_equal. unfold zlen. rewrite ?app_length. cbn [length]. rewrite ?app_length. lia.
    + (* run *)
      assert (Hn : 2 <= Z.of_nat n <= 129) by lia.
      assert (Hlt : zlen fp <? zlen (fp ++ [byte_of_Z (257 - Z.of_nat n); v] ++ enc_toks ts ++ fs) = true).
      { apply Z.ltb_lt. rewrite !zlen_app. change (zlen [byte_of_Z (257 - Z.of_nat n); v]) with 2. lia. }
      rewrite Hlt. cbn [andb].
      assert (Eg : get_idx (fp ++ [byte_of_Z (257 - Z.of_nat n); v] ++ enc_toks ts ++ fs) (zlen fp) = Ok (byte_of_Z (257 - Z.of_nat n))).
      { unfold get_idx. cbn [app]. rewrite index_app_at by reflexivity. reflexivity. }
      rewrite Eg. cbn [bind]. rewrite u8_byte_of_Z, Z.mod_small by lia.
      rewrite land128 by lia. destruct (Z.ltb_spec (257 - Z.of_nat n) 128); [lia|]. cbn [Z.eqb negb].
      assert (Eg2 : get_idx (fp ++ [byte_of_Z (257 - Z.of_nat n); v] ++ enc_toks ts ++ fs) (zlen fp + 1) = Ok v).
      { unfold get_idx. replace (fp ++ [byte_of_Z (257 - Z.of_nat n); v] ++ enc_toks ts ++ fs) with ((fp ++ [byte_of_Z (257 - Z.of_nat n)]) ++ v :: (enc_toks ts ++ fs))
          by (rewrite <- app_assoc; reflexivity).
        rewrite index_app_at by (rewrite zlen_app; reflexivity). reflexivity. }
      rewrite Eg2. cbn [bind].
      replace (Z.to_nat (257 - (257 - Z.of_nat n))) with n by lia.
      rewrite zlen_repeat in Hr.
      rewrite (put_run_wrap_wr n x y cur above v Hx Hc) by lia.
      destruct (wr (repeat v n) x y cur above) as [[[x1 y1] cur1] ab1]. destruct Hf as (F1 & F2 & F3). cbn [bind].
      replace (fp ++ [byte_of_Z (257 - Z.of_nat n); v] ++ enc_toks ts ++ fs) with ((fp ++ [byte_of_Z (257 - Z.of_nat n); v]) ++ enc_toks ts ++ fs)
        by (rewrite <- app_assoc; reflexivity).
      replace (zlen fp + 2) with (zlen (fp ++ [byte_of_Z (257 - Z.of_nat n); v])) by (rewrite zlen_app; reflexivity).
      rewrite zlen_repeat in F3.
      rewrite (IH fuel (fp ++ [byte_of_Z (257 - Z.of_nat n); v]) fs x1 y1 cur1 ab1 Hts F1 F2) by lia.
      destruct (wr (dec_toks ts) x1 y1 cur1 ab1) as [[[x2 y2] cur2] ab2].
      match goal with |- loop24 _ _ ?a _ = loop24 _ _ ?b _ => replace b with a; [reflexivity|] end.
      f_equal. unfold zlen. rewrite ?app_length. cbn [length]. rewrite ?app_length. lia.
Qed.
End Linear.

(* ---------- the planes of a row, interleaved ---------- *)
(* stored row: four planes of w bytes; pixel x = (plane 3, plane 2, plane 1) at x *)
Definition pixel24 (w : Z) (r : bytes) (x : Z) : bytes :=
  [nth (Z.to_nat (w * 3 + x)) r x00; nth (Z.to_nat (w * 2 + x)) r x00; nth (Z.to_nat (w + x)) r x00].
Definition out_row24 (w : Z) (r : bytes) : bytes :=
  concat (map (pixel24 w r) (zrange (Z.to_nat w))) ++ zeros (Z.to_nat (row_stride (w * 3) - w * 3)).
