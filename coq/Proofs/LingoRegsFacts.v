(* C12, second half: the operand registers (param1 / param2 of the module-level opcode objects, which survive
   from one instruction, handler and script to the next) never influence what is parsed: every read of a
   register is preceded by a write in the same instruction.  Which registers an instruction reads depends on the
   dispatch table, so the per-entry check is a computation over the regenerated Gen_Lingo tables. *)
From Coq Require Import ZArith List Bool String Lia.
From Coq.Strings Require Import Byte.
From DRX Require Import Py.PyBytes Py.PyStr Py.PyString Model.LingoAst Model.LingoGen Model.LingoOps Model.LingoLoop Model.Lscr
  Gen.Gen_Lingo.
Import ListNotations.
Open Scope string_scope.
Open Scope list_scope.
Open Scope Z_scope.

Lemma reg_get_set_eq r op v : reg_get (reg_set r op v) op = v.
Proof. unfold reg_set. simpl. rewrite Z.eqb_refl. reflexivity. Qed.

Definition uses_p1 (oc : opclass) : bool :=
  match oc with
  | OInt1b | OInt2b | OLiteral | OLiteral2 | OSymbol | OProperty | OVariable | OGlobalVariable | OPropertyName
  | OParameterName | OLocalVariable | OTellProperty | OAssignGlobal | OLoadProperty | OAssignProperty | OAssignParameter
  | OAssignLocal | OJump | OFwdJump | OCondJump | OCallLocal | OCallExternal | OCallObjectMethod | OCallExternalMethod
  | OPropertyAccessor | OAssignPropertyAccessor | OKeyPropertyAccessor | OCopySymbol | ODiscardSymbols
  | OLoadList _ | OLoadLongList _ => true
  | _ => false
  end.
Definition uses_p2 (oc : opclass) : bool :=
  match oc with OInt2b | OLiteral2 | OFwdJump | OCondJump | OLoadLongList _ => true | _ => false end.

Lemma process_no_p2 oc : uses_p2 oc = false -> forall p1 p2 p2' i m, process oc p1 p2 i m = process oc p1 p2' i m.
Proof. destruct oc; intros H; try discriminate H; intros; reflexivity. Qed.
Lemma process_no_p1 oc : uses_p1 oc = false -> forall p1 p1' p2 i m, process oc p1 p2 i m = process oc p1' p2 i m.
Proof. destruct oc; intros H; try discriminate H; intros; reflexivity. Qed.

(* the table discipline: an entry whose instruction does not load a register must not read it *)
Definition entry_ok (e : Z * (Z * string * string * string)) : bool :=
  let '(_, (nb, kind, proc, attr)) := e in
  match opclass_of proc attr with
  | None => true
  | Some oc =>
    if nb =? 3 then true
    else if nb =? 2 then (String.eqb kind "BiOpcode") || negb (uses_p2 oc)
    else negb (uses_p1 oc) && negb (uses_p2 oc)
  end.
Lemma opcodes_ok : forallb entry_ok OPCODES = true.
Proof. vm_compute. reflexivity. Qed.

Lemma assocZ_in {V} k (t : list (Z * V)) v : assocZ k t = Some v -> In (k, v) t.
Proof.
  induction t as [|[k' v'] t IH]; simpl; [discriminate|].
  destruct (k =? k') eqn:E; intros H.
  - injection H as <-. left. f_equal. lia.
  - right. auto.
Qed.

(* results equal up to the register component *)
Definition rel3 (x y : result (Z * regs * mstate)) : Prop :=
  match x, y with
  | Ok (a1, _, m1), Ok (a2, _, m2) => a1 = a2 /\ m1 = m2
  | Err e1, Err e2 => e1 = e2
  | OutOfFuel, OutOfFuel => True
  | _, _ => False
  end.

Lemma rel3_bind_same {A} (x : result A) (f g : A -> result (Z * regs * mstate)) :
  (forall a, rel3 (f a) (g a)) -> rel3 (bind x f) (bind x g).
Proof. intros H. destruct x; simpl; auto. Qed.

Lemma step_regs d a r1 r2 m : rel3 (step d a r1 m) (step d a r2 m).
Proof.
  unfold step. apply rel3_bind_same. intros opcode.
  destruct (assocZ opcode OPCODES) as [[[[nb kind] proc] attr]|] eqn:Ea; [|reflexivity].
  pose proof (proj1 (forallb_forall entry_ok OPCODES) opcodes_ok _ (assocZ_in _ _ _ Ea)) as Hok.
  cbn [entry_ok] in Hok.
  destruct (nb =? 2) eqn:E2.
  - apply rel3_bind_same. intros opcode2.
    destruct (String.eqb kind "BiOpcode") eqn:Eb.
    + destruct (assocZ (opcode * 256 + opcode2) BI_OPCODES) as [[[[nb2 k2] proc2] attr2]|]; [|reflexivity].
      destruct (opclass_of proc2 attr2); [|reflexivity]. cbn [of_option bind].
      destruct (process o 0 0 a m); simpl; auto.
    + destruct (opclass_of proc attr) as [oc|] eqn:Eo; [|reflexivity]. cbn [of_option bind].
      rewrite !reg_get_set_eq.
      assert (Hn : nb =? 3 = false) by lia. rewrite Hn in Hok. cbn [orb] in Hok. apply negb_true_iff in Hok.
      rewrite (process_no_p2 oc Hok opcode2 (snd (reg_get r1 opcode)) (snd (reg_get r2 opcode))).
      destruct (process oc opcode2 (snd (reg_get r2 opcode)) a m); simpl; auto.
  - destruct (nb =? 3) eqn:E3.
    + apply rel3_bind_same. intros opcode2. apply rel3_bind_same. intros opcode3.
      destruct (opclass_of proc attr) as [oc|]; [|reflexivity]. cbn [of_option bind].
      rewrite !reg_get_set_eq. destruct (process oc opcode2 opcode3 a m); simpl; auto.
    + destruct (opclass_of proc attr) as [oc|] eqn:Eo; [|reflexivity]. cbn [of_option bind].
      apply andb_true_iff in Hok. destruct Hok as [H1 H2]. apply negb_true_iff in H1, H2.
      destruct (reg_get r1 opcode) as [p1 p2], (reg_get r2 opcode) as [q1 q2].
      rewrite (process_no_p1 oc H1 p1 q1 p2), (process_no_p2 oc H2 q1 p2 q2).
      destruct (process oc q1 q2 a m); simpl; auto.
Qed.

Definition rel2 {A} (x y : result (regs * A)) : Prop :=
  match x, y with
  | Ok (_, a1), Ok (_, a2) => a1 = a2
  | Err e1, Err e2 => e1 = e2
  | OutOfFuel, OutOfFuel => True
  | _, _ => False
  end.

Lemma run_ops_regs fuel d off len : forall a r1 r2 m, rel2 (run_ops fuel d off len a r1 m) (run_ops fuel d off len a r2 m).
Proof.
  induction fuel as [|f IH]; intros a r1 r2 m; cbn [run_ops]; destruct (negb (a - off <? len)); try reflexivity.
  pose proof (step_regs d a r1 r2 m) as H.
  destruct (step d a r1 m) as [[[a1 r1'] m1]|e1|], (step d a r2 m) as [[[a2 r2'] m2]|e2|]; simpl in H; try contradiction; cbn [bind].
  - destruct H as [-> ->]. apply IH.
  - exact H.
  - exact I.
Qed.

Definition rel_fn (x y : result (regs * ctx * fndef)) : Prop :=
  match x, y with
  | Ok (_, c1, f1), Ok (_, c2, f2) => c1 = c2 /\ f1 = f2
  | Err e1, Err e2 => e1 = e2
  | OutOfFuel, OutOfFuel => True
  | _, _ => False
  end.

Lemma parse_opcodes_regs d c r1 r2 off len fn : rel_fn (parse_opcodes d c r1 off len fn) (parse_opcodes d c r2 off len fn).
Proof.
  unfold parse_opcodes.
  pose proof (run_ops_regs (2 * List.length d + 2) d off len off r1 r2 (Build_mstate [] fn c)) as H.
  destruct (run_ops _ d off len off r1 _) as [[r1' m1]|e1|], (run_ops _ d off len off r2 _) as [[r2' m2]|e2|];
    simpl in H; try contradiction; cbn [bind]; auto.
  subst m2. destruct (detect (f_stmts (m_fn m1))); simpl; auto.
Qed.

Definition rel_fns (x y : result (regs * ctx * list fndef)) : Prop :=
  match x, y with
  | Ok (_, c1, f1), Ok (_, c2, f2) => c1 = c2 /\ f1 = f2
  | Err e1, Err e2 => e1 = e2
  | OutOfFuel, OutOfFuel => True
  | _, _ => False
  end.

Lemma frb_loop_regs n d : forall c r1 r2 idx, rel_fns (frb_loop n d c r1 idx) (frb_loop n d c r2 idx).
Proof.
  induction n as [|n IH]; intros c r1 r2 idx; cbn [frb_loop]; [simpl; auto|].
  destruct (Layout.read_layout Big Gen_Layouts.lscr_frb_layout d idx) as [v|e|]; cbn [bind]; try reflexivity.
  destruct (local_names _ 0 d (c_names c) _) as [locals|e|]; cbn [bind]; try reflexivity.
  destruct (param_names _ 0 d (c_names c) _) as [[params me]|e|]; cbn [bind]; try reflexivity.
  match goal with |- rel_fns (bind (parse_opcodes d c r1 ?o ?l ?f) _) _ =>
    pose proof (parse_opcodes_regs d c r1 r2 o l f) as H;
    destruct (parse_opcodes d c r1 o l f) as [[[r1' c1] f1]|e1|], (parse_opcodes d c r2 o l f) as [[[r2' c2] f2]|e2|] end;
    simpl in H; try contradiction; cbn [bind]; auto.
  destruct H as [-> ->].
  specialize (IH c2 r1' r2' (idx + frb_stride)).
  destruct (frb_loop n d c2 r1' (idx + frb_stride)) as [[[ra ca] fa]|ea|], (frb_loop n d c2 r2' (idx + frb_stride)) as [[[rb cb] fb]|eb|];
    simpl in IH; try contradiction; cbn [bind]; simpl; auto.
  destruct IH as [-> ->]. auto.
Qed.

(* the whole chunk: the script does not depend on what the registers held *)
Theorem parse_lscr_regs d names codec floats r1 r2 :
  rel2 (parse_lscr d names codec floats r1) (parse_lscr d names codec floats r2).
Proof.
  unfold parse_lscr.
  destruct (parse_header d) as [h|e|]; cbn [bind]; try reflexivity.
  destruct (crb_loop _ d h codec floats 6 _) as [[consts bpc]|e|]; cbn [bind]; try reflexivity.
  destruct (if 0 <=? h_factory_idx h then _ else _) as [factory|e|]; cbn [bind]; try reflexivity.
  destruct (block_names d names (h_prb_offset h) (h_grb_offset h)) as [props|e|]; cbn [bind]; try reflexivity.
  destruct (block_names d names (h_grb_offset h) (h_frb_offset h)) as [globs|e|]; cbn [bind]; try reflexivity.
  destruct (func_names _ d names _) as [lf|e|]; cbn [bind]; try reflexivity.
  match goal with |- rel2 (bind (frb_loop ?n d ?c r1 ?i) _) _ =>
    pose proof (frb_loop_regs n d c r1 r2 i) as H;
    destruct (frb_loop n d c r1 i) as [[[ra ca] fa]|ea|], (frb_loop n d c r2 i) as [[[rb cb] fb]|eb|] end;
    simpl in H; try contradiction; cbn [bind]; simpl; auto.
  destruct H as [_ ->]. reflexivity.
Qed.
Print Assumptions parse_lscr_regs.
