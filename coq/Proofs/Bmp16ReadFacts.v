(* C06, reader level, 16-bit images (BITMAPV5-style header of 124 bytes with 5-5-5 bit masks, pixel array at 138). *)
From Coq Require Import List ZArith Bool Lia.
From Coq.Strings Require Import Byte.
From DRX Require Import Py.PyBytes Proofs.PyBytesFacts Model.Riff Model.Clut Model.Bitd Proofs.BitdFacts Proofs.BitdRawFacts Proofs.Bitd1Facts Proofs.BmpReadFacts Proofs.Bitd24Facts Proofs.Bmp24ReadFacts Proofs.Bitd16Facts.
Import ListNotations.
Open Scope Z_scope.

(* the two bytes (low, high) of pixel (x, y), y counted from the top, of a 16-bit BMP *)
Definition bmp_read2 (bmp : bytes) (x y : Z) : option bytes :=
  match unpack_u 4 Little (slice bmp 10 14), unpack_s 4 Little (slice bmp 18 22),
        unpack_s 4 Little (slice bmp 22 26), unpack_u 2 Little (slice bmp 28 30) with
  | Some off, Some w, Some h, Some bpp =>
    if (0 <=? x) && (x <? w) && (0 <=? y) && (y <? h) && (bpp =? 16) then
      let stride := ((w * bpp + 31) / 32) * 4 in
      let p := off + (h - 1 - y) * stride + x * 2 in
      match index bmp p, index bmp (p + 1) with
      | Some a, Some b => Some [a; b]
      | _, _ => None
      end
    else None
  | _, _, _, _ => None
  end.

Lemma reader_stride16 w : 0 <= w -> ((w * 16 + 31) / 32) * 4 = row_stride (w * 2).
Proof.
  intros Hw. unfold row_stride. f_equal.
  pose proof (Z.div_mod (w * 2 + 3) 4 ltac:(lia)) as Hd. pose proof (Z.mod_pos_bound (w * 2 + 3) 4 ltac:(lia)) as Hm.
  symmetry. apply (Z.div_unique _ _ _ (8 * ((w * 2 + 3) mod 4) + 7)); lia.
Qed.

Lemma bmp16_fields size off w h data :
  let bmp := bmp_header size off ++ bmp_info_header16 w h 16 ++ data in
  0 <= off < 2 ^ 32 -> - 2 ^ 31 <= w < 2 ^ 31 -> - 2 ^ 31 <= h < 2 ^ 31 ->
  unpack_u 4 Little (slice bmp 10 14) = Some off /\ unpack_s 4 Little (slice bmp 18 22) = Some w /\
  unpack_s 4 Little (slice bmp 22 26) = Some h /\ unpack_u 2 Little (slice bmp 28 30) = Some 16 /\
  zlen (bmp_header size off ++ bmp_info_header16 w h 16) = 138.
Proof.
  intros bmp Hoff Hw Hh.
  destruct (bmp_header_fields size off (bmp_info_header16 w h 16 ++ data)) as [_ F1].
  assert (Hpre : zlen (bmp_header size off) = 14) by (unfold bmp_header; rewrite !zlen_app, !zlen_pack; reflexivity).
  unfold bmp. repeat split.
  - rewrite F1. apply unpack_u_pack. change (256 ^ Z.of_nat 4) with (2 ^ 32). lia.
  - unfold bmp_info_header16.
    replace (bmp_header size off ++ (pack 4 Little 124 ++ pack 4 Little w ++ pack 4 Little h ++ pack 2 Little 1 ++ pack 2 Little 16 ++
             u32 3 ++ u32 0 ++ u32 0 ++ u32 0 ++ u32 0 ++ u32 0 ++ u32 31744 ++ u32 992 ++ u32 31 ++ u32 0 ++ u32 1934772034 ++
             concat (repeat (u32 0) 12) ++ u32 2 ++ u32 0 ++ u32 0 ++ u32 0) ++ data)
      with ((bmp_header size off ++ pack 4 Little 124) ++ pack 4 Little w ++ (pack 4 Little h ++ pack 2 Little 1 ++ pack 2 Little 16 ++
             u32 3 ++ u32 0 ++ u32 0 ++ u32 0 ++ u32 0 ++ u32 0 ++ u32 31744 ++ u32 992 ++ u32 31 ++ u32 0 ++ u32 1934772034 ++
             concat (repeat (u32 0) 12) ++ u32 2 ++ u32 0 ++ u32 0 ++ u32 0 ++ data)) by (repeat rewrite <- app_assoc; reflexivity).
    rewrite (slice_mid _ (pack 4 Little w)) by (rewrite ?zlen_app, ?zlen_pack, ?Hpre; reflexivity).
    apply unpack_s_pack; [lia|]. change (8 * Z.of_nat 4 - 1) with 31. lia.
  - unfold bmp_info_header16.
    replace (bmp_header size off ++ (pack 4 Little 124 ++ pack 4 Little w ++ pack 4 Little h ++ pack 2 Little 1 ++ pack 2 Little 16 ++
             u32 3 ++ u32 0 ++ u32 0 ++ u32 0 ++ u32 0 ++ u32 0 ++ u32 31744 ++ u32 992 ++ u32 31 ++ u32 0 ++ u32 1934772034 ++
             concat (repeat (u32 0) 12) ++ u32 2 ++ u32 0 ++ u32 0 ++ u32 0) ++ data)
      with ((bmp_header size off ++ pack 4 Little 124 ++ pack 4 Little w) ++ pack 4 Little h ++ (pack 2 Little 1 ++ pack 2 Little 16 ++
             u32 3 ++ u32 0 ++ u32 0 ++ u32 0 ++ u32 0 ++ u32 0 ++ u32 31744 ++ u32 992 ++ u32 31 ++ u32 0 ++ u32 1934772034 ++
             concat (repeat (u32 0) 12) ++ u32 2 ++ u32 0 ++ u32 0 ++ u32 0 ++ data)) by (repeat rewrite <- app_assoc; reflexivity).
    rewrite (slice_mid _ (pack 4 Little h)) by (rewrite ?zlen_app, ?zlen_pack, ?Hpre; reflexivity).
    apply unpack_s_pack; [lia|]. change (8 * Z.of_nat 4 - 1) with 31. lia.
  - unfold bmp_info_header16.
    replace (bmp_header size off ++ (pack 4 Little 124 ++ pack 4 Little w ++ pack 4 Little h ++ pack 2 Little 1 ++ pack 2 Little 16 ++
             u32 3 ++ u32 0 ++ u32 0 ++ u32 0 ++ u32 0 ++ u32 0 ++ u32 31744 ++ u32 992 ++ u32 31 ++ u32 0 ++ u32 1934772034 ++
             concat (repeat (u32 0) 12) ++ u32 2 ++ u32 0 ++ u32 0 ++ u32 0) ++ data)
      with ((bmp_header size off ++ pack 4 Little 124 ++ pack 4 Little w ++ pack 4 Little h ++ pack 2 Little 1) ++ pack 2 Little 16 ++
            (u32 3 ++ u32 0 ++ u32 0 ++ u32 0 ++ u32 0 ++ u32 0 ++ u32 31744 ++ u32 992 ++ u32 31 ++ u32 0 ++ u32 1934772034 ++
             concat (repeat (u32 0) 12) ++ u32 2 ++ u32 0 ++ u32 0 ++ u32 0 ++ data)) by (repeat rewrite <- app_assoc; reflexivity).
    rewrite (slice_mid _ (pack 2 Little 16)) by (rewrite ?zlen_app, ?zlen_pack, ?Hpre; reflexivity).
    apply unpack_u_pack. change (256 ^ Z.of_nat 2) with 65536. lia.
Qed.

Lemma index_out_row16 w r x j : 0 <= x < w -> 0 <= j < 2 ->
  index (out_row16 w r) (x * 2 + j) = Some (nth (Z.to_nat j) (pixel16 w r x) x00).
Proof.
  intros Hx Hj. unfold out_row16.
  assert (Hall : Forall (fun p => zlen p = 2) (map (pixel16 w r) (zrange (Z.to_nat w)))).
  { apply Forall_forall. intros p Hin. apply in_map_iff in Hin. destruct Hin as (x0 & <- & _). reflexivity. }
  rewrite (index_rows 2 _ _ x j Hall) by (try lia; unfold zlen; rewrite map_length, zrange_length; lia).
  rewrite (nth_indep _ [] (pixel16 w r 0)) by (rewrite map_length, zrange_length; lia).
  rewrite map_nth, zrange_nth by lia. rewrite Z2Nat.id by lia.
  apply index_nth. change (zlen (pixel16 w r x)) with 2. lia.
Qed.
Lemma zlen_out_row16 w r : 0 <= w -> zlen (out_row16 w r) = row_stride (w * 2).
Proof.
  intros Hw. unfold out_row16. rewrite zlen_app, zlen_zeros.
  rewrite (zlen_concat_rows 2).
  - unfold zlen. rewrite map_length, zrange_length. pose proof (row_stride_spec (w * 2) ltac:(lia)). lia.
  - apply Forall_forall. intros p Hin. apply in_map_iff in Hin. destruct Hin as (x0 & <- & _). reflexivity.
Qed.

Lemma parts16_file f bw bh pw ph data :
  0 <= ph -> 0 <= bw < 2 ^ 31 -> 0 <= bh < 2 ^ 31 -> bw * bh * 2 + 138 < 2 ^ 31 ->
  zlen f <> (bw - pw) * 2 * (bh - ph) -> decode_compressed16 f bw bh (bw * 2) = Ok data ->
  decode16 f bw bh pw ph = Ok (bmp_header (bw * bh * 2 + 138) 138 ++ bmp_info_header16 bw bh 16 ++ data).
Proof.
  intros Hph Hbw Hbh Hsz Hne Hdata. unfold decode16, parts16.
  destruct (Z.ltb_spec ph 0); [lia|].
  unfold hdr_parts. cbn [app collect_parts].
  assert (F1 : fits_i32 (bw * bh * 2 + 124 + 14) = true) by (unfold fits_i32; apply andb_true_intro; split; [apply Z.leb_le | apply Z.ltb_lt]; nia).
  assert (F2 : fits_i32 bw = true) by (unfold fits_i32; apply andb_true_intro; split; [apply Z.leb_le | apply Z.ltb_lt]; lia).
  assert (F3 : fits_i32 bh = true) by (unfold fits_i32; apply andb_true_intro; split; [apply Z.leb_le | apply Z.ltb_lt]; lia).
  rewrite F1, F2, F3. change (fits_i32 138) with true. cbn [andb bind].
  destruct (Z.eqb_spec (zlen f) ((bw - pw) * 2 * (bh - ph))); [contradiction|].
  rewrite Hdata. cbn [bind]. unfold bmp_header. rewrite app_nil_r.
  replace (bw * bh * 2 + 124 + 14) with (bw * bh * 2 + 138) by lia. repeat rewrite <- app_assoc. reflexivity.
Qed.

(* A standard reader sees, at every canvas position, the 16-bit pixel whose high byte is the byte of the first plane
   and whose low byte is the byte of the second plane of the stored row.  As for 32 bit, the registration offsets are not
   applied by this decoder (open finding C06-16-32-offsets-ignored). *)
Theorem bmp16_reader bw bh pw ph ts rows :
  0 < bw -> 0 <= ph -> Forall wf_tok ts -> confined bw (bw * 2) 0 ts -> dec_toks ts = concat rows ->
  Forall (fun r => zlen r = bw * 2) rows -> zlen rows = bh ->
  bw < 2 ^ 31 -> bh < 2 ^ 31 -> bw * bh * 2 + 138 < 2 ^ 31 -> zlen (enc_toks ts) <> (bw - pw) * 2 * (bh - ph) ->
  exists bmp, decode16 (enc_toks ts) bw bh pw ph = Ok bmp /\
    forall x y, 0 <= x < bw -> 0 <= y < bh -> bmp_read2 bmp x y = Some (pixel16 bw (nth (Z.to_nat y) rows []) x).
Proof.
  intros Hbw Hph Hwf Hcf Hdec Hall Hrows Hbw31 Hbh31 Hsz Hne.
  pose proof (zlen_nonneg rows) as Hrn.
  eexists. split.
  - apply parts16_file; try assumption; try lia. apply (compressed16_pixels bw bh ts rows); assumption.
  - intros x y Hx Hy.
    destruct (bmp16_fields (bw * bh * 2 + 138) 138 bw bh (concat (map (out_row16 bw) (rev rows))) ltac:(lia) ltac:(lia) ltac:(lia))
      as (F1 & F2 & F3 & F4 & Hl).
    unfold bmp_read2. rewrite F1, F2, F3, F4.
    destruct (Z.leb_spec 0 x); [|lia]. destruct (Z.ltb_spec x bw); [|lia]. destruct (Z.leb_spec 0 y); [|lia]. destruct (Z.ltb_spec y bh); [|lia].
    cbn [andb Z.eqb Pos.eqb]. cbv zeta. rewrite reader_stride16 by lia.
    pose proof (row_stride_spec (bw * 2) ltac:(lia)) as Hs.
    set (st := row_stride (bw * 2)) in *.
    replace (bmp_header (bw * bh * 2 + 138) 138 ++ bmp_info_header16 bw bh 16 ++ concat (map (out_row16 bw) (rev rows)))
      with ((bmp_header (bw * bh * 2 + 138) 138 ++ bmp_info_header16 bw bh 16) ++ concat (map (out_row16 bw) (rev rows)))
      by (rewrite <- app_assoc; reflexivity).
    assert (Hrow : forall j, 0 <= j < 2 ->
              index ((bmp_header (bw * bh * 2 + 138) 138 ++ bmp_info_header16 bw bh 16) ++ concat (map (out_row16 bw) (rev rows)))
                    (138 + (bh - 1 - y) * st + x * 2 + j)
              = Some (nth (Z.to_nat j) (pixel16 bw (nth (Z.to_nat y) rows []) x) x00)).
    { intros j Hj.
      replace (138 + (bh - 1 - y) * st + x * 2 + j)
        with (zlen (bmp_header (bw * bh * 2 + 138) 138 ++ bmp_info_header16 bw bh 16) + ((bh - 1 - y) * st + (x * 2 + j))) by lia.
      rewrite index_app_r by nia.
      assert (HallO : Forall (fun r => zlen r = st) (map (out_row16 bw) (rev rows))).
      { apply Forall_forall. intros r Hin. apply in_map_iff in Hin. destruct Hin as (r0 & <- & _). apply zlen_out_row16. lia. }
      rewrite <- (app_nil_r (concat (map (out_row16 bw) (rev rows)))).
      rewrite (index_rows st _ [] (bh - 1 - y) (x * 2 + j) HallO) by (try lia; unfold zlen in *; rewrite map_length, rev_length; lia).
      rewrite (nth_indep _ [] (out_row16 bw [])) by (rewrite map_length, rev_length; unfold zlen in Hrows; lia).
      rewrite map_nth, rev_nth by (unfold zlen in Hrows; lia).
      replace (length rows - S (Z.to_nat (bh - 1 - y)))%nat with (Z.to_nat y) by (unfold zlen in Hrows; lia).
      apply index_out_row16; lia. }
    rewrite <- (Z.add_0_r (138 + (bh - 1 - y) * st + x * 2)) at 1.
    rewrite (Hrow 0) by lia.
    replace (138 + (bh - 1 - y) * st + x * 2 + 0 + 1) with (138 + (bh - 1 - y) * st + x * 2 + 1) by lia. rewrite (Hrow 1) by lia.
    reflexivity.
Qed.
