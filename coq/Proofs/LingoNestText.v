(* C02 + C03: the Lingo text emitted for a rebuilt nest of if / if-else / repeat while is the canonical layout of
   the source program: "if <cond> then", the body one level deeper, "else", "end if", "repeat while <cond without its
   outer parentheses>", "end repeat", every condition and statement printed as LingoTextFacts shows. *)
From Coq Require Import ZArith List Bool String Lia.
From DRX Require Import Py.PyBytes Py.PyStr Py.PyString Model.LingoAst Model.LingoGen Model.LingoOps Model.LingoLoop
  Spec.SpecLingo Spec.SpecText Spec.SpecNest Gen.Gen_Lingo
  Proofs.LingoExecFacts Proofs.LingoStmtFacts Proofs.LingoTextFacts Proofs.LingoNestFacts Proofs.LingoNestExec.
Import ListNotations.
Open Scope string_scope.
Open Scope list_scope.

(* the canonical text of a program at indentation level ind *)
Definition cond_text (en : env) (c : expr) : string := render en (pp_tok en c).
Definition while_cond_text (en : env) (c : expr) : string :=
  let t := cond_text en c in if starts_with "(" t then strip_ends t else t.

Fixpoint pp_p (en : env) (props : list string) (ind : nat) (p : prog) : string :=
  match p with
  | PNil => ""
  | PStmt s r => indent ind ++ stmt_text en props s ++ "
" ++ pp_p en props ind r
  | PIf c a r => indent ind ++ "if " ++ cond_text en c ++ " then
" ++ pp_p en props (S ind) a ++ indent ind ++ "end if
" ++ pp_p en props ind r
  | PIfE c a eb r => indent ind ++ "if " ++ cond_text en c ++ " then
" ++ pp_p en props (S ind) a ++ indent ind ++ "else
" ++ pp_p en props (S ind) eb ++ indent ind ++ "end if
" ++ pp_p en props ind r
  | PWhile c a r => indent ind ++ "repeat while " ++ while_cond_text en c ++ "
" ++ pp_p en props (S ind) a ++ indent ind ++ "end repeat
" ++ pp_p en props ind r
  | PExit _ r => indent ind ++ "exit repeat
" ++ pp_p en props ind r
  end.

Fixpoint text_ok_p (en : env) (props : list string) (p : prog) : Prop :=
  match p with
  | PNil => True
  | PStmt s r => text_ok_s en props s /\ text_ok_p en props r
  | PIf c a r => text_ok en c /\ text_ok_p en props a /\ text_ok_p en props r
  | PIfE c a eb r => text_ok en c /\ eb <> PNil /\ text_ok_p en props a /\ text_ok_p en props eb /\ text_ok_p en props r
  | PWhile c a r => text_ok en c /\ text_ok_p en props a /\ text_ok_p en props r
  | PExit _ r => text_ok_p en props r
  end.

Definition text_of (sts : list node) (ind : nat) : string := concat_all (map (fun st => gen_lingo st ind) sts).

Lemma items_ne en props pc p : p <> PNil -> fins (items en props pc p) <> [].
Proof. destruct p; [congruence | discriminate | discriminate | discriminate | discriminate | discriminate]. Qed.

Theorem nest_text en props : forall p, text_ok_p en props p -> forall pc ind,
  text_of (rebuilt en props pc p) ind = pp_p en props ind p.
Proof.
  unfold rebuilt, text_of.
  induction p as [|s r IH|c a IHa r IHr|c a IHa eb IHe r IHr|c a IHa r IHr|xoff r IH]; intros Hok pc ind.
  - reflexivity.
  - destruct Hok as [Hs Hr]. cbn [items fins fin_i map concat_all pp_p]. rewrite (stmt_line en props s Hs pc ind), (IH Hr).
    repeat rewrite sappend_assoc. reflexivity.
  - destruct Hok as (Hc & Ha & Hr). cbn [items fins map concat_all pp_p]. rewrite fin_if.
    unfold gen_lingo. cbn [gen_lingo_sp].
    pose proof (gen_lingo_is_render en c Hc pc 0%nat) as Ec. unfold gen_lingo in Ec. rewrite Ec.
    pose proof (IHa Ha (pc + zlen (compile_e c) + 3)%Z (S ind)) as Ea. unfold gen_lingo in Ea. rewrite Ea.
    pose proof (IHr Hr (pc + zlen (compile_e c) + 3 + zlen (compile_p a))%Z ind) as Er. unfold gen_lingo in Er. rewrite Er.
    unfold cond_text. repeat rewrite sappend_assoc. reflexivity.
  - destruct Hok as (Hc & Hne & Ha & He & Hr). cbn [items fins map concat_all pp_p]. rewrite fin_ife.
    unfold gen_lingo. cbn [gen_lingo_sp].
    pose proof (gen_lingo_is_render en c Hc pc 0%nat) as Ec. unfold gen_lingo in Ec. rewrite Ec.
    pose proof (IHa Ha (pc + zlen (compile_e c) + 3)%Z (S ind)) as Ea. unfold gen_lingo in Ea. rewrite Ea.
    pose proof (IHe He (pc + zlen (compile_e c) + 3 + zlen (compile_p a) + 3)%Z (S ind)) as Ee. unfold gen_lingo in Ee.
    pose proof (IHr Hr (pc + zlen (compile_e c) + 3 + zlen (compile_p a) + 3 + zlen (compile_p eb))%Z ind) as Er. unfold gen_lingo in Er. rewrite Er.
    destruct (fins (items en props (pc + zlen (compile_e c) + 3 + zlen (compile_p a) + 3) eb)) as [|x xs] eqn:Ex;
      [exfalso; exact (items_ne en props _ eb Hne Ex)|].
    rewrite Ee. unfold cond_text. repeat rewrite sappend_assoc. reflexivity.
  - destruct Hok as (Hc & Ha & Hr). cbn [items fins map concat_all pp_p]. rewrite fin_while.
    unfold gen_lingo, loop_stmt. cbn [gen_lingo_sp].
    pose proof (gen_lingo_is_render en c Hc pc 0%nat) as Ec. unfold gen_lingo in Ec. rewrite Ec.
    pose proof (IHa Ha (pc + zlen (compile_e c) + 3)%Z (S ind)) as Ea. unfold gen_lingo in Ea. rewrite Ea.
    pose proof (IHr Hr (pc + zlen (compile_e c) + 3 + zlen (compile_p a) + 2)%Z ind) as Er. unfold gen_lingo in Er. rewrite Er.
    change (String.eqb "while" "while") with true. cbn iota.
    unfold while_cond_text, cond_text. repeat rewrite sappend_assoc. reflexivity.
  - cbn [items fins fin_i map concat_all pp_p text_ok_p] in *. rewrite (IH Hok). unfold gen_lingo. cbn [gen_lingo_sp].
    repeat rewrite sappend_assoc. reflexivity.
Qed.
Print Assumptions nest_text.
