(* C10 (continued): score and bitmap walkers never run out of fuel. *)
From Coq Require Import List ZArith Bool Lia.
From Coq.Strings Require Import Byte.
From DRX Require Import Py.PyBytes Py.Layout Proofs.PyBytesFacts Proofs.FuelFacts Model.Riff Model.Vwsc Model.Bitd.
Import ListNotations.
Open Scope Z_scope.

Lemma patch_loop_not_oof n : forall buf off data, Vwsc.patch_loop buf off data n <> OutOfFuel.
Proof.
  induction n as [|n IH]; intros buf off data; destruct data as [|b data]; cbn [Vwsc.patch_loop]; try discriminate.
  unfold of_option. match goal with |- context[match ?x with Some _ => _ | None => _ end] => destruct x end; cbn [bind]; [apply IH | discriminate].
Qed.
Lemma patch_loop_ok_len n : forall buf off data b, Vwsc.patch_loop buf off data n = Ok b -> (n <= length data)%nat.
Proof.
  induction n as [|n IH]; intros buf off data b H; [lia|]. destruct data as [|x data]; cbn [Vwsc.patch_loop] in H; [discriminate|].
  unfold of_option in H. match type of H with context[match ?x with Some _ => _ | None => _ end] => destruct x end; cbn [bind] in H; [|discriminate]. apply IH in H. cbn [length]. lia.
Qed.

Lemma delta_loop_progress d : forall fuel buf idx csize, 0 <= idx -> (Z.to_nat (zlen d - idx) < fuel)%nat ->
  match delta_loop fuel d buf idx csize with
  | Ok (b, i', r) => i' + r = idx + csize /\ idx <= i'
  | Err _ => True
  | OutOfFuel => False
  end.
Proof.
  induction fuel as [|f IH]; intros buf idx csize Hi Hf; [lia|]. cbn [delta_loop].
  destruct (Z.gtb_spec csize 0); [|lia].
  destruct (rd_s 2 Big d idx) as [dsize| |] eqn:E1; cbn [bind]; try exact I.
  2:{ revert E1. unfold rd_s, of_option. destruct (unpack_s _ _ _); discriminate. }
  pose proof (rd_s_ok_bound _ _ _ _ _ E1 Hi ltac:(lia)) as Hb. change (Z.of_nat 2) with 2 in Hb.
  destruct (Z.gtb_spec dsize csize); cbn [orb]; [lia|].
  destruct (Z.leb_spec dsize 0); cbn [orb]; [lia|].
  unfold rd_s at 1, of_option; destruct (unpack_s _ _ _) as [doff|]; cbn [bind]; [|exact I].
  destruct (Vwsc.patch_loop buf _ (slice d (idx + 4) (idx + 4 + dsize)) (Z.to_nat dsize)) as [b'| |] eqn:P; cbn [bind];
    [| exact I | exfalso; eapply patch_loop_not_oof; eassumption].
  apply patch_loop_ok_len in P.
  pose proof (zlen_slice d (idx + 4) (idx + 4 + dsize) ltac:(lia) ltac:(lia)) as Z.
  pose proof (zlen_nonneg d). unfold zlen at 1 in Z.
  assert (idx + 4 + dsize <= zlen d) by lia.
  specialize (IH b' (idx + 4 + dsize) (csize - 4 - dsize) ltac:(lia) ltac:(lia)).
  destruct (delta_loop f d b' (idx + 4 + dsize) (csize - 4 - dsize)) as [[[b2 i2] r2]| |]; [|exact I|exact IH].
  lia.
Qed.

Lemma reader_not_oof l fr : read_layout Big l fr 0 <> OutOfFuel.
Proof.
  generalize 0. induction l as [|f l IH]; intros p; cbn [read_layout]; [discriminate|].
  destruct f as [n|n|n].
  - unfold rd_s, of_option; destruct (unpack_s _ _ _); cbn [bind]; [|discriminate].
    intros Hoof. apply bind_oof in Hoof. destruct Hoof as [Hoof|(x & _ & Hoof)]; [|discriminate]. revert Hoof. apply IH.
  - unfold rd_u, of_option; destruct (unpack_u _ _ _); cbn [bind]; [|discriminate].
    intros Hoof. apply bind_oof in Hoof. destruct Hoof as [Hoof|(x & _ & Hoof)]; [|discriminate]. revert Hoof. apply IH.
  - apply IH.
Qed.

Definition supported (cp : cparser) : Prop := cp = D4 \/ cp = D5.

Lemma cp_readers_not_oof cp fr : supported cp ->
  cp_main cp fr <> OutOfFuel /\ cp_palette cp fr <> OutOfFuel /\ cp_sprite cp fr <> OutOfFuel /\ 0 < cp_fs cp.
Proof.
  intros [->| ->]; cbn [cp_main cp_palette cp_sprite cp_fs D4 D5];
  unfold d4_main, d4_palette, d4_sprite, d5_main, d5_palette, d5_sprite, d4_main_dict, d4_palette_dict, d4_sprite_dict,
         d5_main_dict, d5_palette_dict, d5_sprite_dict;
  repeat split; try lia;
  match goal with |- bind ?r _ <> OutOfFuel =>
    let E := fresh in destruct r eqn:E; cbn [bind]; [| discriminate | exfalso; eapply reader_not_oof; eassumption] end;
  repeat match goal with |- context[if ?c then _ else _] => destruct c end; discriminate.
Qed.

Lemma sprites_loop_not_oof cp buf : supported cp -> forall fuel indx, 0 <= indx -> (Z.to_nat (zlen buf - indx) < fuel)%nat ->
  sprites_loop fuel cp buf indx <> OutOfFuel.
Proof.
  intros Hcp. induction fuel as [|f IH]; intros indx Hi Hf; [lia|]. cbn [sprites_loop].
  destruct (Z.ltb_spec indx (zlen buf)); [|discriminate].
  destruct (cp_readers_not_oof cp (slice buf indx (indx + cp_fs cp)) Hcp) as (_ & _ & Hs & Hfs).
  destruct (cp_sprite cp _); cbn [bind]; [|discriminate|contradiction].
  intros Hoof. apply bind_oof in Hoof. destruct Hoof as [Hoof|(x & _ & Hoof)]; [|discriminate].
  revert Hoof. apply IH; lia.
Qed.

Lemma channels_not_oof cp buf : supported cp -> parse_vwsc_channels cp buf <> OutOfFuel.
Proof.
  intros Hcp. unfold parse_vwsc_channels.
  destruct (cp_readers_not_oof cp (slice buf 0 (cp_fs cp)) Hcp) as (Hm & _ & _ & Hfs).
  destruct (cp_readers_not_oof cp (slice buf (cp_fs cp) (2 * cp_fs cp)) Hcp) as (_ & Hp & _ & _).
  destruct (cp_main cp _); cbn [bind]; [|discriminate|contradiction].
  destruct (cp_palette cp _); cbn [bind]; [|discriminate|contradiction].
  intros Hoof. apply bind_oof in Hoof. destruct Hoof as [Hoof|(x & _ & Hoof)]; [|discriminate].
  revert Hoof. apply sprites_loop_not_oof; [exact Hcp|lia|]. pose proof (zlen_nonneg buf). unfold zlen in *. lia.
Qed.

Lemma record_loop_not_oof cp d ds : supported cp -> forall fuel buf idx acc, 0 <= idx -> (Z.to_nat (zlen d - idx) < fuel)%nat ->
  record_loop fuel cp d ds buf idx acc <> OutOfFuel.
Proof.
  intros Hcp. induction fuel as [|f IH]; intros buf idx acc Hi Hf; [lia|]. cbn [record_loop].
  destruct (idx <? ds); [|discriminate].
  destruct (rd_s 2 Big d idx) as [csize| |] eqn:E1; cbn [bind]; try discriminate.
  2:{ revert E1. unfold rd_s, of_option. destruct (unpack_s _ _ _); discriminate. }
  pose proof (rd_s_ok_bound _ _ _ _ _ E1 Hi ltac:(lia)) as Hb. change (Z.of_nat 2) with 2 in Hb.
  destruct (Z.ltb_spec csize 2); [discriminate|].
  destruct (Z.eqb_spec csize 2).
  - destruct acc as [|last acc'].
    + pose proof (channels_not_oof cp buf Hcp) as Hc.
      destruct (parse_vwsc_channels cp buf); cbn [bind]; [|discriminate|contradiction]. apply IH; lia.
    + apply IH; lia.
  - destruct (Z.gtb_spec (csize - 2) 0); [|lia].
    pose proof (delta_loop_progress d (S (length d)) buf (idx + 2) (csize - 2) ltac:(lia)) as D.
    pose proof (zlen_nonneg d) as Hn.
    specialize (D ltac:(unfold zlen in *; lia)).
    destruct (delta_loop (S (length d)) d buf (idx + 2) (csize - 2)) as [[[b i'] r]| |]; cbn [bind]; [|discriminate|contradiction].
    pose proof (channels_not_oof cp b Hcp) as Hc.
    destruct (parse_vwsc_channels cp b); cbn [bind]; [|discriminate|contradiction].
    apply IH; lia.
Qed.

Theorem vwsc_data_terminates d : parse_vwsc_data d <> OutOfFuel.
Proof.
  unfold parse_vwsc_data.
  destruct (read_layout Big _ d 0) as [h| |] eqn:E; cbn [bind]; [|discriminate|exfalso; eapply reader_not_oof; eassumption].
  destruct (negb _); [discriminate|]. destruct (negb _); [discriminate|].
  destruct (getv h 4 =? 20) eqn:E20; cbn [bind].
  - destruct (_ <? 0); [discriminate|]. apply record_loop_not_oof; [left; reflexivity|lia|].
    pose proof (zlen_nonneg d). unfold zlen in *. lia.
  - destruct (getv h 4 =? 24); cbn [bind]; [|discriminate].
    destruct (_ <? 0); [discriminate|]. apply record_loop_not_oof; [right; reflexivity|lia|].
    pose proof (zlen_nonneg d). unfold zlen in *. lia.
Qed.

Theorem vwsc_file_terminates d : parse_vwsc_file_data d <> OutOfFuel.
Proof.
  unfold parse_vwsc_file_data.
  unfold rd_s at 1, of_option; destruct (unpack_s _ _ _); cbn [bind]; [|discriminate].
  unfold rd_s at 1, of_option; destruct (unpack_s _ _ _); cbn [bind]; [|discriminate].
  match goal with |- bind ?r _ <> _ => assert (Hr : r <> OutOfFuel) end.
  { destruct (negb _); [|discriminate]. destruct (negb _); [discriminate|].
    destruct (read_layout Big _ d 8) eqn:E; cbn [bind]; [|discriminate|exfalso; revert E].
    - repeat (unfold rd_s at 1, of_option; destruct (unpack_s _ _ _); cbn [bind]; [|discriminate]). discriminate.
    - cbn [read_layout]. repeat (unfold rd_s at 1, of_option; destruct (unpack_s _ _ _); cbn [bind]; try discriminate). }
  match goal with |- bind ?r _ <> _ => destruct r as [[[i ds] dm]| |]; cbn [bind]; [|discriminate|contradiction] end.
  destruct (negb _); [discriminate|]. apply vwsc_data_terminates.
Qed.

(* ---------- 8-bit PackBits loop: every iteration consumes at least one byte of the stream ---------- *)
Lemma put_run8_not_oof n : forall data x y w iw width pw v, put_run8 n data x y w iw width pw v <> OutOfFuel.
Proof.
  induction n as [|n IH]; intros; cbn [put_run8]; [discriminate|].
  destruct (_ >=? _); [discriminate|]. destruct (x <? iw); cbn [bind]; [|apply IH]. unfold set_idx, of_option.
  destruct (_ || _); cbn [bind]; [discriminate|].
  match goal with |- context[match ?x with Some _ => _ | None => _ end] => destruct x end; cbn [bind]; [apply IH|discriminate].
Qed.
Lemma put_lit8_spec n : forall f data x y w iw width pw idx,
  match put_lit8 n f data x y w iw width pw idx with Ok (_, _, i') => idx <= i' | Err _ => True | OutOfFuel => False end.
Proof.
  induction n as [|n IH]; intros; cbn [put_lit8]; [lia|].
  destruct (_ >=? _); [lia|].
  assert (K : forall a, match (if idx + 1 >? zlen f then Ok (a, x + 1, idx + 1) else put_lit8 n f a (x + 1) y w iw width pw (idx + 1)) with
                        | Ok (_, _, i') => idx <= i' | Err _ => True | OutOfFuel => False end).
  { intros a. destruct (_ >? _); [lia|].
    specialize (IH f a (x + 1) y w iw width pw (idx + 1)). destruct (put_lit8 n f a (x + 1) y w iw width pw (idx + 1)) as [[[? ?] ?]| |]; auto. lia. }
  destruct (x <? iw); cbn [bind]; [|apply K].
  unfold get_idx, of_option. destruct (index f idx); cbn [bind]; [|exact I].
  unfold set_idx. destruct (_ || _); cbn [bind]; [exact I|].
  destruct (set_nth data _ b) as [a|]; cbn [of_option bind]; [|exact I].
  apply K.
Qed.

Lemma loop8_not_oof f w iw width pw : forall fuel s, 0 <= s_idx s -> (Z.to_nat (zlen f - s_idx s) < fuel)%nat ->
  loop8 fuel f s w iw width pw <> OutOfFuel.
Proof.
  induction fuel as [|k IH]; intros s Hi Hf; [lia|]. cbn [loop8].
  destruct (Z.ltb_spec (s_idx s) (zlen f)); cbn [andb]; [|discriminate].
  destruct (s_y s >=? 0); [|discriminate].
  unfold get_idx at 1, of_option. destruct (index f (s_idx s)); cbn [bind]; [|discriminate].
  destruct (negb _).
  - destruct (_ >=? _); [discriminate|].
    unfold get_idx at 1, of_option. destruct (index f (s_idx s + 1)); cbn [bind]; [|discriminate].
    pose proof (put_run8_not_oof (Z.to_nat (257 - u8 b)) (s_data s) (s_x s) (s_y s) w iw width pw b0) as R.
    destruct (put_run8 _ _ _ _ _ _ _ _ _) as [[data x]| |]; cbn [bind]; [|discriminate|contradiction].
    destruct (_ >=? _).
    + destruct (_ <? 0); [discriminate|]. apply IH; cbn [s_idx]; lia.
    + apply IH; cbn [s_idx]; lia.
  - destruct (_ >? _); [discriminate|].
    pose proof (put_lit8_spec (Z.to_nat (u8 b + 1)) f (s_data s) (s_x s) (s_y s) w iw width pw (s_idx s + 1)) as L.
    destruct (put_lit8 _ _ _ _ _ _ _ _ _ _) as [[[data x] idx']| |]; cbn [bind]; [|discriminate|contradiction].
    destruct (_ >=? _).
    + destruct (_ <? 0); [discriminate|]. apply IH; cbn [s_idx]; lia.
    + apply IH; cbn [s_idx]; lia.
Qed.

Theorem compressed8_terminates f w0 h pw ph width : decode_compressed8 f w0 h pw ph width <> OutOfFuel.
Proof.
  unfold decode_compressed8, bytearray. destruct (_ <? 0); cbn [bind]; [discriminate|].
  pose proof (loop8_not_oof f (w0 - pw + (w0 - pw) mod 2) (w0 - pw) width pw (S (length f))
               (Build_st (zeros (Z.to_nat ((if w0 - pw + (w0 - pw) mod 2 + pw >? width then width + 4 else width) * h))) 0 (h - 1 - ph) 0)) as L.
  cbn [s_idx] in L. specialize (L ltac:(lia)). pose proof (zlen_nonneg f) as Hn.
  specialize (L ltac:(unfold zlen in *; lia)).
  destruct (loop8 _ _ _ _ _ _ _); cbn [bind]; [discriminate|discriminate|contradiction].
Qed.
