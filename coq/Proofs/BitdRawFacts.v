(* C06: the raw (uncompressed) row loops of the 8-bit and 1-bit decoders, for images of any size.
   A raw image is the concatenation of its stored rows (each w_size bytes); the decoder reads row y at y * w_size,
   starting with the last one, and writes the canvas rows one after another from the start of the pixel array. *)
From Coq Require Import List ZArith Bool Lia.
From Coq.Strings Require Import Byte.
From DRX Require Import Py.PyBytes Proofs.PyBytesFacts Model.Riff Model.Clut Model.Bitd Proofs.BitdFacts.
Import ListNotations.
Open Scope Z_scope.

(* ---------- stored rows inside the data ---------- *)
Lemma zlen_concat_rows W (rows : list (list byte)) : Forall (fun r => zlen r = W) rows -> zlen (concat rows) = W * zlen rows.
Proof.
  induction 1 as [|r rows Hr _ IH]; [cbn; lia|]. cbn [concat]. rewrite zlen_app, zlen_cons, IH, Hr. lia.
Qed.

Lemma rows_split {A} (rows : list A) k : (k < length rows)%nat ->
  exists R1 r R2, rows = R1 ++ r :: R2 /\ length R1 = k /\ firstn k rows = R1 /\ firstn (S k) rows = R1 ++ [r].
Proof.
  intros Hk. exists (firstn k rows).
  destruct (skipn k rows) as [|r R2] eqn:E.
  - exfalso. assert (length (skipn k rows) = 0%nat) by (rewrite E; reflexivity). rewrite skipn_length in H. lia.
  - exists r, R2. assert (Hs : rows = firstn k rows ++ r :: R2) by (rewrite <- E; symmetry; apply firstn_skipn).
    repeat split; [exact Hs | rewrite firstn_length; lia |].
    rewrite Hs at 1. assert (Hl : length (firstn k rows) = k) by (rewrite firstn_length; lia).
    replace (S k) with (length (firstn k rows) + 1)%nat by lia.
    rewrite firstn_app_2. reflexivity.
Qed.

(* ---------- 8 bit ---------- *)
Lemma raw_row8_copies l : forall fuel fp fs a seg b x w,
  l <> [] -> length seg = length l -> x + zlen l = w -> (length l <= fuel)%nat ->
  raw_row8 fuel (fp ++ l ++ fs) (a ++ seg ++ b) x w (zlen a) (zlen fp) = Ok (a ++ l ++ b, zlen a + zlen l).
Proof.
  induction l as [|c l IH]; intros fuel fp fs a seg b x w Hne Hseg Hx Hf; [congruence|].
  destruct seg as [|s seg]; [discriminate|]. destruct fuel as [|fuel]; [cbn in Hf; lia|].
  rewrite zlen_cons in *. pose proof (zlen_nonneg l) as Hl. cbn [raw_row8].
  destruct (Z.ltb_spec x w); [|lia].
  assert (Eg : get_idx (fp ++ (c :: l) ++ fs) (zlen fp) = Ok c).
  { unfold get_idx. cbn [app]. rewrite index_app_at by reflexivity. reflexivity. }
  rewrite Eg. cbn [bind app]. rewrite set_idx_app by reflexivity. cbn [bind].
  destruct l as [|c2 l'].
  - destruct seg; [|discriminate]. change (zlen (@nil byte)) with 0 in *.
    destruct (Z.geb_spec (x + 1) w); [|lia]. cbn [app]. f_equal.
  - destruct (Z.geb_spec (x + 1) w) as [Hge|_]; [rewrite zlen_cons in Hx; pose proof (zlen_nonneg l'); lia|].
    replace (fp ++ c :: (c2 :: l') ++ fs) with ((fp ++ [c]) ++ (c2 :: l') ++ fs) by (rewrite <- app_assoc; reflexivity).
    replace (a ++ c :: seg ++ b) with ((a ++ [c]) ++ seg ++ b) by (rewrite <- app_assoc; reflexivity).
    replace (zlen a + 1) with (zlen (a ++ [c])) by (rewrite zlen_app; reflexivity).
    replace (zlen fp + 1) with (zlen (fp ++ [c])) by (rewrite zlen_app; reflexivity).
    rewrite (IH fuel (fp ++ [c]) fs (a ++ [c]) seg b (x + 1) w); [| discriminate | cbn in Hseg |- *; lia | lia | cbn in Hf |- *; lia].
    repeat rewrite <- app_assoc. cbn [app]. rewrite zlen_app. change (zlen [c]) with 1. f_equal. f_equal. lia.
Qed.


Lemma zlen_firstn_le {A} (l : list A) n : 0 <= n <= zlen l -> zlen (firstn (Z.to_nat n) l) = n.
Proof. intros H. unfold zlen in *. rewrite firstn_length. rewrite Nat2Z.inj_min, Z2Nat.id by lia. lia. Qed.

Lemma zlen_canvas_row pw W width r : 0 <= pw -> zlen r = W -> pw + W <= width -> zlen (canvas_row pw W width r) = width.
Proof. intros. unfold canvas_row. rewrite !zlen_app, !zlen_zerosZ by lia. lia. Qed.

Lemma raw_rows8_image W w width pw rows : forall k fuel A T,
  0 <= pw -> 0 < w -> w <= W -> pw + w <= width -> Forall (fun r => zlen r = W) rows ->
  (k <= length rows)%nat -> (k <= fuel)%nat ->
  raw_rows8 fuel (concat rows) (A ++ zerosZ (width * Z.of_nat k) ++ T) (Z.of_nat k - 1) w width pw W (zlen A)
  = Ok (A ++ concat (map (raw_canvas8 pw w width) (rev (firstn k rows))) ++ T).
Proof.
  induction k as [|k IH]; intros fuel A T Hpw Hw HwW Hfit Hrows Hk Hf.
  - replace (width * Z.of_nat 0) with 0 by lia. change (zerosZ 0) with (@nil byte). cbn [firstn rev map concat app].
    destruct fuel; reflexivity.
  - destruct fuel as [|fuel]; [lia|].
    assert (Hklt : (k < length rows)%nat) by lia.
    destruct (rows_split rows k Hklt) as (R1 & r & R2 & Hs & HR1 & Hf1 & Hf2).
    assert (HrW : zlen r = W).
    { rewrite Forall_forall in Hrows. apply Hrows. rewrite Hs. apply in_or_app. right. left. reflexivity. }
    assert (HR1W : Forall (fun r => zlen r = W) R1).
    { rewrite Hs in Hrows. apply Forall_app in Hrows. tauto. }
    cbn [raw_rows8]. replace (Z.of_nat (S k) - 1) with (Z.of_nat k) by lia.
    destruct (Z.geb_spec (Z.of_nat k) 0); [|lia].
    (* the row: its first w bytes are pixels *)
    set (l := firstn (Z.to_nat w) r). set (rest := skipn (Z.to_nat w) r).
    assert (Hr : r = l ++ rest) by (symmetry; apply firstn_skipn).
    assert (Hll : zlen l = w) by (apply zlen_firstn_le; lia).
    assert (Hcat : concat rows = concat R1 ++ l ++ (rest ++ concat R2)).
    { rewrite Hs, concat_app. cbn [concat]. rewrite Hr at 1. repeat rewrite <- app_assoc. reflexivity. }
    assert (Hfp : Z.of_nat k * W = zlen (concat R1)).
    { rewrite (zlen_concat_rows W R1 HR1W). unfold zlen. rewrite HR1. lia. }
    assert (Hdata : A ++ zerosZ (width * Z.of_nat (S k)) ++ T
                    = (A ++ zerosZ pw) ++ zerosZ w ++ (zerosZ (width - pw - w) ++ zerosZ (width * Z.of_nat k) ++ T)).
    { replace (width * Z.of_nat (S k)) with (pw + (w + ((width - pw - w) + width * Z.of_nat k))) by lia.
      rewrite zerosZ_add by nia. rewrite zerosZ_add by nia. rewrite zerosZ_add by nia.
      repeat rewrite <- app_assoc. reflexivity. }
    rewrite Hdata, Hcat, Hfp.
    replace (zlen A + pw) with (zlen (A ++ zerosZ pw)) by (rewrite zlen_app, zlen_zerosZ by lia; reflexivity).
    rewrite (raw_row8_copies l); [| | | lia | ].
    2:{ intros E. rewrite E in Hll. change (zlen (@nil byte)) with 0 in Hll. lia. }
    2:{ unfold zerosZ, zeros. rewrite repeat_length. unfold zlen in Hll. lia. }
    2:{ unfold zlen in Hll. lia. }
    cbn [bind]. rewrite Hll.
    set (di := if width - w - pw >? 0 then zlen (A ++ zerosZ pw) + w + width - w - pw else zlen (A ++ zerosZ pw) + w).
    assert (Hdi : di = zlen (A ++ raw_canvas8 pw w width r)).
    { unfold di, raw_canvas8. fold l. rewrite !zlen_app, zlen_canvas_row, zlen_zerosZ by lia.
      destruct (Z.gtb_spec (width - w - pw) 0); lia. }
    rewrite Hdi.
    replace ((A ++ zerosZ pw) ++ l ++ zerosZ (width - pw - w) ++ zerosZ (width * Z.of_nat k) ++ T)
      with ((A ++ raw_canvas8 pw w width r) ++ zerosZ (width * Z.of_nat k) ++ T)
      by (unfold raw_canvas8, canvas_row; fold l; repeat rewrite <- app_assoc; reflexivity).
    rewrite <- Hcat.
    rewrite (IH fuel (A ++ raw_canvas8 pw w width r) T); try assumption; try lia.
    rewrite Hf1, Hf2, rev_app_distr. cbn [rev app map concat]. repeat rewrite <- app_assoc. reflexivity.
Qed.

(* the pixel array of a raw 8-bit image: the first w bytes of every stored row at (w_padding, h_padding),
   background elsewhere, the last stored row first *)
Theorem raw8_pixels bw bh pw ph W rows :
  let w := bw - pw in let width := stride4 bw in
  0 <= pw -> 0 < w -> w <= W -> 0 <= ph -> zlen rows = bh - ph -> Forall (fun r => zlen r = W) rows ->
  decode_raw8 (concat rows) bw bh pw ph width W
  = Ok (concat (map (raw_canvas8 pw w width) (rev rows)) ++ zerosZ (width * ph)).
Proof.
  intros w width Hpw Hw HwW Hph Hrows Hall. unfold decode_raw8. fold w.
  pose proof (stride4_spec bw ltac:(lia)) as [_ Hst]. fold width in Hst.
  pose proof (zlen_nonneg rows) as Hrn.
  unfold bytearray. destruct (Z.ltb_spec (width * bh) 0); [nia|]. cbn [bind].
  replace (zeros (Z.to_nat (width * bh))) with ([] ++ zerosZ (width * Z.of_nat (length rows)) ++ zerosZ (width * ph)).
  2:{ cbn [app]. rewrite <- zerosZ_add by nia. unfold zerosZ. f_equal. f_equal. unfold zlen in Hrows. lia. }
  replace (bh - 1 - ph) with (Z.of_nat (length rows) - 1) by (unfold zlen in Hrows; lia).
  change 0 with (zlen (@nil byte)).
  rewrite (raw_rows8_image W w width pw rows (length rows)); try assumption; try lia.
  - rewrite firstn_all. reflexivity.
  - unfold zlen in Hrows. lia.
Qed.

(* ---------- 1 bit ---------- *)
(* the bits of a byte from bit (8 - j) on, most significant first *)
Fixpoint bits_tail (v : Z) (j : nat) : bytes :=
  match j with O => [] | S m => bit_of v (8 - Z.of_nat j) :: bits_tail v m end.
Definition bits8 (c : byte) : bytes := bits_tail (u8 c) 8.
Definition bits_of (l : bytes) : bytes := flat_map bits8 l.

Lemma bits_tail_length v j : length (bits_tail v j) = j.
Proof. induction j; cbn [bits_tail length]; [reflexivity | rewrite IHj; reflexivity]. Qed.
Lemma bits_of_length l : length (bits_of l) = (8 * length l)%nat.
Proof. induction l as [|c l IH]; [reflexivity|]. cbn [bits_of flat_map]. fold (bits_of l). rewrite app_length, IH. unfold bits8. rewrite bits_tail_length. cbn [length]. lia. Qed.

Lemma raw_bits1_writes j : forall a seg b x w v,
  let n := Nat.min j (Z.to_nat (w - x)) in
  length seg = n -> x < w ->
  raw_bits1 j (a ++ seg ++ b) x w (zlen a) v = Ok (a ++ firstn n (bits_tail v j) ++ b, x + Z.of_nat n, zlen a + Z.of_nat n).
Proof.
  induction j as [|j IH]; intros a seg b x w v n Hseg Hx.
  - subst n. cbn [Nat.min] in *. destruct seg; [|discriminate]. cbn [raw_bits1 firstn app]. rewrite !Z.add_0_r. reflexivity.
  - assert (Hn : n = S (Nat.min j (Z.to_nat (w - x) - 1))) by (subst n; lia).
    rewrite Hn in *. destruct seg as [|s seg]; [discriminate|].
    cbn [raw_bits1 app]. rewrite set_idx_app by reflexivity. cbn [bind].
    cbn [bits_tail firstn].
    destruct (Z.geb_spec (x + 1) w) as [Hge|Hlt].
    + assert (E : Nat.min j (Z.to_nat (w - x) - 1) = 0%nat) by lia. rewrite E in *.
      destruct seg; [|discriminate]. cbn [firstn app]. reflexivity.
    + replace (a ++ bit_of v (8 - Z.of_nat (S j)) :: seg ++ b) with ((a ++ [bit_of v (8 - Z.of_nat (S j))]) ++ seg ++ b)
        by (rewrite <- app_assoc; reflexivity).
      replace (zlen a + 1) with (zlen (a ++ [bit_of v (8 - Z.of_nat (S j))])) by (rewrite zlen_app; reflexivity).
      rewrite (IH (a ++ [bit_of v (8 - Z.of_nat (S j))]) seg b (x + 1) w v); [| cbn in Hseg; lia | lia].
      replace (Z.to_nat (w - (x + 1))) with (Z.to_nat (w - x) - 1)%nat by lia.
      repeat rewrite <- app_assoc. cbn [app]. rewrite zlen_app. change (zlen [bit_of v (8 - Z.of_nat (S j))]) with 1.
      f_equal. f_equal; [f_equal|]; lia.
Qed.

Lemma raw_row1_copies l : forall fuel fp fs a seg b x w,
  l <> [] -> length seg = Z.to_nat (w - x) -> 8 * (zlen l - 1) < w - x <= 8 * zlen l -> (length l <= fuel)%nat ->
  raw_row1 fuel (fp ++ l ++ fs) (a ++ seg ++ b) x w (zlen a) (zlen fp)
  = Ok (a ++ firstn (Z.to_nat (w - x)) (bits_of l) ++ b, zlen a + (w - x)).
Proof.
  induction l as [|c l IH]; intros fuel fp fs a seg b x w Hne Hseg Hx Hf; [congruence|].
  destruct fuel as [|fuel]; [cbn in Hf; lia|].
  rewrite zlen_cons in Hx. pose proof (zlen_nonneg l) as Hl. cbn [raw_row1].
  destruct (Z.ltb_spec x w); [|lia].
  assert (Eg : get_idx (fp ++ (c :: l) ++ fs) (zlen fp) = Ok c).
  { unfold get_idx. cbn [app]. rewrite index_app_at by reflexivity. reflexivity. }
  rewrite Eg. cbn [bind].
  set (n := Nat.min 8 (Z.to_nat (w - x))).
  set (seg1 := firstn n seg). set (seg2 := skipn n seg).
  assert (Hs : seg = seg1 ++ seg2) by (symmetry; apply firstn_skipn).
  assert (Hl1 : length seg1 = n) by (unfold seg1; rewrite firstn_length; lia).
  rewrite Hs. replace (a ++ (seg1 ++ seg2) ++ b) with (a ++ seg1 ++ (seg2 ++ b)) by (repeat rewrite <- app_assoc; reflexivity).
  rewrite (raw_bits1_writes 8 a seg1 (seg2 ++ b) x w (u8 c)) by (fold n; assumption). fold n. cbn [bind].
  cbn [bits_of flat_map]. fold (bits_of l). unfold bits8 at 1.
  destruct l as [|c2 l'].
  - (* the last byte of the row *)
    change (zlen (@nil byte)) with 0 in Hx.
    assert (Hn : Z.to_nat (w - x) = n) by (subst n; lia).
    assert (Hl2 : seg2 = []).
    { apply length_zero_iff_nil. unfold seg2. rewrite skipn_length. lia. }
    rewrite Hl2. cbn [app bits_of flat_map]. rewrite app_nil_r.
    assert (E : raw_row1 fuel (fp ++ [c] ++ fs) (a ++ firstn n (bits_tail (u8 c) 8) ++ b) (x + Z.of_nat n) w (zlen a + Z.of_nat n) (zlen fp + 1)
                = Ok (a ++ firstn n (bits_tail (u8 c) 8) ++ b, zlen a + Z.of_nat n)).
    { destruct fuel; cbn [raw_row1]; (destruct (Z.ltb_spec (x + Z.of_nat n) w); [lia|reflexivity]). }
    cbn [app] in E |- *. rewrite E, Hn. f_equal. f_equal. lia.
  - rewrite zlen_cons in Hx. pose proof (zlen_nonneg l') as Hl'.
    assert (Hn : n = 8%nat) by (subst n; lia).
    rewrite Hn in *.
    assert (Hl2 : length seg2 = Z.to_nat (w - (x + 8))) by (unfold seg2; rewrite skipn_length; lia).
    rewrite (firstn_all2 (bits_tail (u8 c) 8)) by (rewrite bits_tail_length; lia).
    replace (fp ++ (c :: c2 :: l') ++ fs) with ((fp ++ [c]) ++ (c2 :: l') ++ fs) by (rewrite <- app_assoc; reflexivity).
    replace (a ++ bits_tail (u8 c) 8 ++ seg2 ++ b) with ((a ++ bits_tail (u8 c) 8) ++ seg2 ++ b) by (rewrite <- app_assoc; reflexivity).
    replace (zlen a + Z.of_nat 8) with (zlen (a ++ bits_tail (u8 c) 8)) by (rewrite zlen_app; unfold zlen; rewrite bits_tail_length; reflexivity).
    replace (zlen fp + 1) with (zlen (fp ++ [c])) by (rewrite zlen_app; reflexivity).
    change (Z.of_nat 8) with 8.
    rewrite (IH fuel (fp ++ [c]) fs (a ++ bits_tail (u8 c) 8) seg2 b (x + 8) w); [| discriminate | exact Hl2 | rewrite zlen_cons; lia | cbn in Hf |- *; lia].
    repeat rewrite <- app_assoc. rewrite zlen_app.
    replace (zlen (bits_tail (u8 c) 8)) with 8 by (unfold zlen; rewrite bits_tail_length; reflexivity).
    f_equal. f_equal; [|lia]. f_equal.
    replace (Z.to_nat (w - x)) with (length (bits_tail (u8 c) 8) + Z.to_nat (w - (x + 8)))%nat by (rewrite bits_tail_length; lia).
    rewrite firstn_app_2. rewrite <- app_assoc. reflexivity.
Qed.

(* the canvas row of a stored 1-bit row: one byte per pixel, the first w bits of the row *)
Definition raw_canvas1 (pw w width : Z) (r : bytes) : bytes := canvas_row pw w width (firstn (Z.to_nat w) (bits_of r)).

Lemma firstn_bits_of_app l rest n : (n <= 8 * length l)%nat -> firstn n (bits_of (l ++ rest)) = firstn n (bits_of l).
Proof.
  intros H. unfold bits_of. rewrite flat_map_app. fold (bits_of l). fold (bits_of rest).
  rewrite firstn_app. replace (n - length (bits_of l))%nat with 0%nat by (rewrite bits_of_length; lia).
  cbn [firstn]. apply app_nil_r.
Qed.

Lemma raw_rows1_image W w width pw rows : forall k fuel A T,
  0 <= pw -> 0 < w -> (w + 7) / 8 <= W -> pw + w <= width -> Forall (fun r => zlen r = W) rows ->
  (k <= length rows)%nat -> (k <= fuel)%nat ->
  raw_rows1 fuel (concat rows) (A ++ zerosZ (width * Z.of_nat k) ++ T) (Z.of_nat k - 1) w width pw W (zlen A)
  = Ok (A ++ concat (map (raw_canvas1 pw w width) (rev (firstn k rows))) ++ T).
Proof.
  induction k as [|k IH]; intros fuel A T Hpw Hw HwW Hfit Hrows Hk Hf.
  - replace (width * Z.of_nat 0) with 0 by lia. change (zerosZ 0) with (@nil byte). cbn [firstn rev map concat app].
    destruct fuel; reflexivity.
  - destruct fuel as [|fuel]; [lia|].
    assert (Hklt : (k < length rows)%nat) by lia.
    destruct (rows_split rows k Hklt) as (R1 & r & R2 & Hs & HR1 & Hf1 & Hf2).
    assert (HrW : zlen r = W).
    { rewrite Forall_forall in Hrows. apply Hrows. rewrite Hs. apply in_or_app. right. left. reflexivity. }
    assert (HR1W : Forall (fun r => zlen r = W) R1).
    { rewrite Hs in Hrows. apply Forall_app in Hrows. tauto. }
    cbn [raw_rows1]. replace (Z.of_nat (S k) - 1) with (Z.of_nat k) by lia.
    destruct (Z.geb_spec (Z.of_nat k) 0); [|lia].
    (* the row: its first ceil(w / 8) bytes hold the pixels *)
    set (nb := (w + 7) / 8).
    assert (Hnb : 8 * (nb - 1) < w <= 8 * nb).
    { unfold nb. pose proof (Z.div_mod (w + 7) 8 ltac:(lia)). pose proof (Z.mod_pos_bound (w + 7) 8 ltac:(lia)). lia. }
    set (l := firstn (Z.to_nat nb) r). set (rest := skipn (Z.to_nat nb) r).
    assert (Hr : r = l ++ rest) by (symmetry; apply firstn_skipn).
    assert (Hll : zlen l = nb) by (apply zlen_firstn_le; lia).
    assert (Hcat : concat rows = concat R1 ++ l ++ (rest ++ concat R2)).
    { rewrite Hs, concat_app. cbn [concat]. rewrite Hr at 1. repeat rewrite <- app_assoc. reflexivity. }
    assert (Hfp : Z.of_nat k * W = zlen (concat R1)).
    { rewrite (zlen_concat_rows W R1 HR1W). unfold zlen. rewrite HR1. lia. }
    assert (Hdata : A ++ zerosZ (width * Z.of_nat (S k)) ++ T
                    = (A ++ zerosZ pw) ++ zerosZ w ++ (zerosZ (width - pw - w) ++ zerosZ (width * Z.of_nat k) ++ T)).
    { replace (width * Z.of_nat (S k)) with (pw + (w + ((width - pw - w) + width * Z.of_nat k))) by lia.
      rewrite zerosZ_add by nia. rewrite zerosZ_add by nia. rewrite zerosZ_add by nia.
      repeat rewrite <- app_assoc. reflexivity. }
    rewrite Hdata, Hcat, Hfp.
    replace (zlen A + pw) with (zlen (A ++ zerosZ pw)) by (rewrite zlen_app, zlen_zerosZ by lia; reflexivity).
    rewrite (raw_row1_copies l); [| | | rewrite Hll; lia | ].
    2:{ intros E. rewrite E in Hll. change (zlen (@nil byte)) with 0 in Hll. lia. }
    2:{ unfold zerosZ, zeros. rewrite repeat_length. f_equal. lia. }
    2:{ unfold zlen in Hll. lia. }
    cbn [bind]. rewrite !Z.sub_0_r.
    assert (Hbits : firstn (Z.to_nat w) (bits_of l) = firstn (Z.to_nat w) (bits_of r)).
    { rewrite Hr at 1. symmetry. apply firstn_bits_of_app. unfold zlen in Hll. lia. }
    rewrite Hbits.
    set (di := if width - w - pw >? 0 then zlen (A ++ zerosZ pw) + w + width - w - pw else zlen (A ++ zerosZ pw) + w).
    assert (Hdi : di = zlen (A ++ raw_canvas1 pw w width r)).
    { unfold di, raw_canvas1. rewrite !zlen_app, zlen_canvas_row, zlen_zerosZ; try lia.
      - destruct (Z.gtb_spec (width - w - pw) 0); lia.
      - unfold zlen. rewrite firstn_length, bits_of_length. unfold zlen in HrW. lia. }
    rewrite Hdi.
    replace ((A ++ zerosZ pw) ++ firstn (Z.to_nat w) (bits_of r) ++ zerosZ (width - pw - w) ++ zerosZ (width * Z.of_nat k) ++ T)
      with ((A ++ raw_canvas1 pw w width r) ++ zerosZ (width * Z.of_nat k) ++ T)
      by (unfold raw_canvas1, canvas_row; repeat rewrite <- app_assoc; reflexivity).
    rewrite <- Hcat.
    rewrite (IH fuel (A ++ raw_canvas1 pw w width r) T); try assumption; try lia.
    rewrite Hf1, Hf2, rev_app_distr. cbn [rev app map concat]. repeat rewrite <- app_assoc. reflexivity.
Qed.

(* the pixel array of a raw 1-bit image: pixel x of a row is bit 7 - x mod 8 of its byte x / 8 *)
Theorem raw1_pixels bw bh pw ph W rows :
  let w := bw - pw in let width := stride4 bw in
  0 <= pw -> 0 < w -> (w + 7) / 8 <= W -> 0 <= ph -> zlen rows = bh - ph -> Forall (fun r => zlen r = W) rows ->
  decode_raw1 (concat rows) bw bh pw ph width W
  = Ok (concat (map (raw_canvas1 pw w width) (rev rows)) ++ zerosZ (width * ph)).
Proof.
  intros w width Hpw Hw HwW Hph Hrows Hall. unfold decode_raw1. fold w.
  pose proof (stride4_spec bw ltac:(lia)) as [_ Hst]. fold width in Hst.
  pose proof (zlen_nonneg rows) as Hrn.
  unfold bytearray. destruct (Z.ltb_spec (width * bh) 0); [nia|]. cbn [bind].
  replace (zeros (Z.to_nat (width * bh))) with ([] ++ zerosZ (width * Z.of_nat (length rows)) ++ zerosZ (width * ph)).
  2:{ cbn [app]. rewrite <- zerosZ_add by nia. unfold zerosZ. f_equal. f_equal. unfold zlen in Hrows. lia. }
  replace (bh - 1 - ph) with (Z.of_nat (length rows) - 1) by (unfold zlen in Hrows; lia).
  change 0 with (zlen (@nil byte)).
  rewrite (raw_rows1_image W w width pw rows (length rows)); try assumption; try lia.
  - rewrite firstn_all. reflexivity.
  - unfold zlen in Hrows. lia.
Qed.
