(* C06, reader level, 32-bit images (written as 24 bits per pixel): what a standard BMP reader sees in the file. *)
From Coq Require Import List ZArith Bool Lia.
From Coq.Strings Require Import Byte.
From DRX Require Import Py.PyBytes Proofs.PyBytesFacts Model.Riff Model.Clut Model.Bitd Proofs.BitdFacts Proofs.BitdRawFacts Proofs.Bitd1Facts Proofs.BmpReadFacts Proofs.Bitd24Facts.
Import ListNotations.
Open Scope Z_scope.

(* the three bytes of pixel (x, y), y counted from the top, of a 24-bit BMP *)
Definition bmp_read3 (bmp : bytes) (x y : Z) : option bytes :=
  match unpack_u 4 Little (slice bmp 10 14), unpack_s 4 Little (slice bmp 18 22),
        unpack_s 4 Little (slice bmp 22 26), unpack_u 2 Little (slice bmp 28 30) with
  | Some off, Some w, Some h, Some bpp =>
    if (0 <=? x) && (x <? w) && (0 <=? y) && (y <? h) && (bpp =? 24) then
      let stride := ((w * bpp + 31) / 32) * 4 in
      let p := off + (h - 1 - y) * stride + x * 3 in
      match index bmp p, index bmp (p + 1), index bmp (p + 2) with
      | Some a, Some b, Some c => Some [a; b; c]
      | _, _, _ => None
      end
    else None
  | _, _, _, _ => None
  end.

Lemma reader_stride24 w : 0 <= w -> ((w * 24 + 31) / 32) * 4 = row_stride (w * 3).
Proof.
  intros Hw. unfold row_stride. f_equal.
  pose proof (Z.div_mod (w * 3 + 3) 4 ltac:(lia)) as Hd. pose proof (Z.mod_pos_bound (w * 3 + 3) 4 ltac:(lia)) as Hm.
  symmetry. apply (Z.div_unique _ _ _ (8 * ((w * 3 + 3) mod 4) + 7)); lia.
Qed.
Lemma row_stride_spec n : 0 <= n -> n <= row_stride n < n + 4.
Proof.
  intros Hn. unfold row_stride. pose proof (Z.div_mod (n + 3) 4 ltac:(lia)). pose proof (Z.mod_pos_bound (n + 3) 4 ltac:(lia)). lia.
Qed.

Lemma bmp_fields_bpp size off w h bpp nc data :
  let bmp := bmp_header size off ++ bmp_info_header w h bpp nc ++ data in
  0 <= off < 2 ^ 32 -> - 2 ^ 31 <= w < 2 ^ 31 -> - 2 ^ 31 <= h < 2 ^ 31 -> 0 <= bpp < 65536 ->
  unpack_u 4 Little (slice bmp 10 14) = Some off /\ unpack_s 4 Little (slice bmp 18 22) = Some w /\
  unpack_s 4 Little (slice bmp 22 26) = Some h /\ unpack_u 2 Little (slice bmp 28 30) = Some bpp.
Proof.
  intros bmp Hoff Hw Hh Hb.
  destruct (bmp_header_fields size off (bmp_info_header w h bpp nc ++ data)) as [_ F1].
  assert (Hpre : zlen (bmp_header size off) = 14) by (unfold bmp_header; rewrite !zlen_app, !zlen_pack; reflexivity).
  destruct (bmp_info_fields w h bpp nc (bmp_header size off) data Hpre) as (F2 & F3 & F4).
  unfold bmp. repeat split.
  - rewrite F1. apply unpack_u_pack. change (256 ^ Z.of_nat 4) with (2 ^ 32). lia.
  - rewrite F2. apply unpack_s_pack; [lia|]. change (8 * Z.of_nat 4 - 1) with 31. lia.
  - rewrite F3. apply unpack_s_pack; [lia|]. change (8 * Z.of_nat 4 - 1) with 31. lia.
  - rewrite F4. apply unpack_u_pack. change (256 ^ Z.of_nat 2) with 65536. lia.
Qed.

Lemma zrange_nth n : forall k d, (k < n)%nat -> nth k (zrange n) d = Z.of_nat k.
Proof.
  induction n as [|n IH]; intros k d Hk; [lia|]. cbn [zrange].
  destruct (Nat.eq_dec k n) as [->|Hne].
  - rewrite app_nth2 by (rewrite zrange_length; lia). rewrite zrange_length, Nat.sub_diag. reflexivity.
  - rewrite app_nth1 by (rewrite zrange_length; lia). apply IH. lia.
Qed.

(* a byte of a pixel inside an output row *)
Lemma index_out_row24 w r x j : 0 <= x < w -> 0 <= j < 3 ->
  index (out_row24 w r) (x * 3 + j) = Some (nth (Z.to_nat j) (pixel24 w r x) x00).
Proof.
  intros Hx Hj. unfold out_row24.
  assert (Hall : Forall (fun p => zlen p = 3) (map (pixel24 w r) (zrange (Z.to_nat w)))).
  { apply Forall_forall. intros p Hin. apply in_map_iff in Hin. destruct Hin as (x0 & <- & _). reflexivity. }
  rewrite (index_rows 3 _ _ x j Hall) by (try lia; unfold zlen; rewrite map_length, zrange_length; lia).
  rewrite (nth_indep _ [] (pixel24 w r 0)) by (rewrite map_length, zrange_length; lia).
  rewrite map_nth, zrange_nth by lia. rewrite Z2Nat.id by lia.
  apply index_nth. change (zlen (pixel24 w r x)) with 3. lia.
Qed.
Lemma zlen_out_row24 w r : 0 <= w -> zlen (out_row24 w r) = row_stride (w * 3).
Proof.
  intros Hw. unfold out_row24. rewrite zlen_app, zlen_zeros.
  rewrite (zlen_concat_rows 3).
  - unfold zlen. rewrite map_length, zrange_length. pose proof (row_stride_spec (w * 3) ltac:(lia)). lia.
  - apply Forall_forall. intros p Hin. apply in_map_iff in Hin. destruct Hin as (x0 & <- & _). reflexivity.
Qed.

Lemma parts24_file f bw bh pw ph data :
  0 <= ph -> 0 <= bw < 2 ^ 31 -> 0 <= bh < 2 ^ 31 -> bw * bh * 3 + 54 < 2 ^ 31 ->
  zlen f <> (bw - pw) * 2 * (bh - ph) -> decode_compressed24 f bw bh (bw * 4) = Ok data ->
  decode24 f bw bh pw ph = Ok (bmp_header (bw * bh * 3 + 54) 54 ++ bmp_info_header bw bh 24 0 ++ data).
Proof.
  intros Hph Hbw Hbh Hsz Hne Hdata. unfold decode24, parts24.
  destruct (Z.ltb_spec ph 0); [lia|].
  unfold hdr_parts, info_part. cbn [app collect_parts].
  assert (F1 : fits_i32 (bw * bh * 3 + 40 + 14) = true) by (unfold fits_i32; apply andb_true_intro; split; [apply Z.leb_le | apply Z.ltb_lt]; nia).
  assert (F2 : fits_i32 bw = true) by (unfold fits_i32; apply andb_true_intro; split; [apply Z.leb_le | apply Z.ltb_lt]; lia).
  assert (F3 : fits_i32 bh = true) by (unfold fits_i32; apply andb_true_intro; split; [apply Z.leb_le | apply Z.ltb_lt]; lia).
  rewrite F1, F2, F3. change (fits_i32 54) with true. cbn [andb bind].
  destruct (Z.eqb_spec (zlen f) ((bw - pw) * 2 * (bh - ph))); [contradiction|].
  rewrite Hdata. cbn [bind]. unfold bmp_header. rewrite app_nil_r.
  replace (bw * bh * 3 + 40 + 14) with (bw * bh * 3 + 54) by lia. repeat rewrite <- app_assoc. reflexivity.
Qed.

(* A standard reader sees, at every canvas position, the three colour bytes of the stored row: plane 3, plane 2, plane 1
   (blue, green, red of the BMP pixel); the fourth plane (plane 0) is dropped.  The decoder takes the rows as full canvas
   rows: the registration offsets are not applied (open finding C06-16-32-offsets-ignored), so this is the property's
   demand for images without offsets. *)
Theorem bmp24_reader bw bh pw ph ts rows :
  0 < bw -> 0 <= ph -> Forall wf_tok ts -> dec_toks ts = concat rows -> Forall (fun r => zlen r = bw * 4) rows -> zlen rows = bh ->
  bw < 2 ^ 31 -> bh < 2 ^ 31 -> bw * bh * 3 + 54 < 2 ^ 31 -> zlen (enc_toks ts) <> (bw - pw) * 2 * (bh - ph) ->
  exists bmp, decode24 (enc_toks ts) bw bh pw ph = Ok bmp /\
    forall x y, 0 <= x < bw -> 0 <= y < bh -> bmp_read3 bmp x y = Some (pixel24 bw (nth (Z.to_nat y) rows []) x).
Proof.
  intros Hbw Hph Hwf Hdec Hall Hrows Hbw31 Hbh31 Hsz Hne.
  pose proof (zlen_nonneg rows) as Hrn.
  eexists. split.
  - apply parts24_file; try assumption; try lia. apply (compressed24_pixels bw bh ts rows); assumption.
  - intros x y Hx Hy.
    destruct (bmp_fields_bpp (bw * bh * 3 + 54) 54 bw bh 24 0 (concat (map (out_row24 bw) (rev rows))) ltac:(lia) ltac:(lia) ltac:(lia) ltac:(lia))
      as (F1 & F2 & F3 & F4).
    unfold bmp_read3. rewrite F1, F2, F3, F4.
    destruct (Z.leb_spec 0 x); [|lia]. destruct (Z.ltb_spec x bw); [|lia]. destruct (Z.leb_spec 0 y); [|lia]. destruct (Z.ltb_spec y bh); [|lia].
    cbn [andb Z.eqb Pos.eqb]. cbv zeta. rewrite reader_stride24 by lia.
    pose proof (row_stride_spec (bw * 3) ltac:(lia)) as Hs.
    set (st := row_stride (bw * 3)) in *.
    replace (bmp_header (bw * bh * 3 + 54) 54 ++ bmp_info_header bw bh 24 0 ++ concat (map (out_row24 bw) (rev rows)))
      with ((bmp_header (bw * bh * 3 + 54) 54 ++ bmp_info_header bw bh 24 0) ++ concat (map (out_row24 bw) (rev rows)))
      by (rewrite <- app_assoc; reflexivity).
    assert (Hl : zlen (bmp_header (bw * bh * 3 + 54) 54 ++ bmp_info_header bw bh 24 0) = 54).
    { unfold bmp_header, bmp_info_header. rewrite !zlen_app, !zlen_pack. reflexivity. }
    assert (Hrow : forall j, 0 <= j < 3 ->
              index ((bmp_header (bw * bh * 3 + 54) 54 ++ bmp_info_header bw bh 24 0) ++ concat (map (out_row24 bw) (rev rows)))
                    (54 + (bh - 1 - y) * st + x * 3 + j)
              = Some (nth (Z.to_nat j) (pixel24 bw (nth (Z.to_nat y) rows []) x) x00)).
    { intros j Hj.
      replace (54 + (bh - 1 - y) * st + x * 3 + j)
        with (zlen (bmp_header (bw * bh * 3 + 54) 54 ++ bmp_info_header bw bh 24 0) + ((bh - 1 - y) * st + (x * 3 + j))) by lia.
      rewrite index_app_r by nia.
      assert (HallO : Forall (fun r => zlen r = st) (map (out_row24 bw) (rev rows))).
      { apply Forall_forall. intros r Hin. apply in_map_iff in Hin. destruct Hin as (r0 & <- & _). apply zlen_out_row24. lia. }
      rewrite <- (app_nil_r (concat (map (out_row24 bw) (rev rows)))).
      rewrite (index_rows st _ [] (bh - 1 - y) (x * 3 + j) HallO) by (try lia; unfold zlen in *; rewrite map_length, rev_length; lia).
      rewrite (nth_indep _ [] (out_row24 bw [])) by (rewrite map_length, rev_length; unfold zlen in Hrows; lia).
      rewrite map_nth, rev_nth by (unfold zlen in Hrows; lia).
      replace (length rows - S (Z.to_nat (bh - 1 - y)))%nat with (Z.to_nat y) by (unfold zlen in Hrows; lia).
      apply index_out_row24; lia. }
    rewrite <- (Z.add_0_r (54 + (bh - 1 - y) * st + x * 3)) at 1.
    rewrite (Hrow 0) by lia.
    replace (54 + (bh - 1 - y) * st + x * 3 + 0 + 1) with (54 + (bh - 1 - y) * st + x * 3 + 1) by lia. rewrite (Hrow 1) by lia.
    replace (54 + (bh - 1 - y) * st + x * 3 + 0 + 2) with (54 + (bh - 1 - y) * st + x * 3 + 2) by lia. rewrite (Hrow 2) by lia.
    reflexivity.
Qed.
