(* C06: the compressed 1-bit decoder, for every PackBits segmentation of every row (tokens as in BitdFacts.v).
   A stored row has w' / 8 bytes, w' = the image width rounded up to a multiple of 16; every byte paints 8 pixels. *)
From Coq Require Import List ZArith Bool Lia.
From Coq.Strings Require Import Byte.
From DRX Require Import Py.PyBytes Proofs.PyBytesFacts Model.Riff Model.Clut Model.Bitd Proofs.BitdFacts Proofs.BitdRawFacts.
Import ListNotations.
Open Scope Z_scope.

Lemma bits_of_app a b : bits_of (a ++ b) = bits_of a ++ bits_of b.
Proof. unfold bits_of. apply flat_map_app. Qed.
Lemma zlen_bits_of l : zlen (bits_of l) = 8 * zlen l.
Proof. unfold zlen. rewrite bits_of_length. lia. Qed.
Lemma zlen_bits_tail v j : zlen (bits_tail v j) = Z.of_nat j.
Proof. unfold zlen. rewrite bits_tail_length. reflexivity. Qed.

(* the bits of one byte over the cells of the row that lie inside the image *)
Lemma put_bits_paints j : forall a seg b x y w iw width pw v,
  length seg = length (vis iw x (bits_tail v j)) -> (x < iw -> zlen a = y * width + x + pw) -> x + Z.of_nat j <= w ->
  put_bits j (a ++ seg ++ b) x y w iw width pw v = Ok (a ++ vis iw x (bits_tail v j) ++ b, x + Z.of_nat j).
Proof.
  induction j as [|j IH]; intros a seg b x y w iw width pw v Hl Ha Hx.
  - cbn [bits_tail] in *. rewrite vis_nil in *. destruct seg; [|discriminate]. cbn [put_bits app]. rewrite Z.add_0_r. reflexivity.
  - cbn [put_bits bits_tail] in *. destruct (Z.geb_spec x w); [lia|].
    set (c := bit_of v (8 - Z.of_nat (S j))) in *.
    destruct (Z.ltb_spec x iw) as [Hin|Hout].
    + rewrite vis_cons_in in * by assumption. destruct seg as [|s seg]; [discriminate|].
      cbn [app]. rewrite set_idx_app by (rewrite (Ha Hin); reflexivity). cbn [bind].
      replace (a ++ c :: seg ++ b) with ((a ++ [c]) ++ seg ++ b) by (rewrite <- app_assoc; reflexivity).
      rewrite IH; [| cbn in Hl; lia | intros _; rewrite zlen_app, (Ha Hin); change (zlen [c]) with 1; lia | lia].
      rewrite <- app_assoc. cbn [app]. f_equal. f_equal. lia.
    + rewrite vis_out in * by assumption. destruct seg; [|discriminate]. cbn [bind app].
      pose proof (IH a [] b (x + 1) y w iw width pw v) as E. rewrite vis_out in E by lia. cbn [app length] in E.
      rewrite E; [| reflexivity | intros; lia | lia]. f_equal. f_equal. lia.
Qed.

Lemma vis_bits_cons iw x c l : vis iw x (bits_of (c :: l)) = vis iw x (bits8 c) ++ vis iw (x + 8) (bits_of l).
Proof.
  cbn [bits_of flat_map]. fold (bits_of l). rewrite vis_app. unfold bits8. rewrite zlen_bits_tail. reflexivity.
Qed.

(* a run token: n copies of one byte, 8 pixels each *)
Lemma put_run1_paints n : forall a seg b x y w iw width pw c,
  length seg = length (vis iw x (bits_of (repeat c n))) -> (x < iw -> zlen a = y * width + x + pw) -> x + 8 * Z.of_nat n <= w ->
  put_run1 n (a ++ seg ++ b) x y w iw width pw (u8 c) = Ok (a ++ vis iw x (bits_of (repeat c n)) ++ b, x + 8 * Z.of_nat n).
Proof.
  induction n as [|n IH]; intros a seg b x y w iw width pw c Hl Ha Hx.
  - cbn [repeat bits_of flat_map] in *. rewrite vis_nil in *. destruct seg; [|discriminate]. cbn [put_run1 app]. rewrite Z.add_0_r. reflexivity.
  - cbn [put_run1 repeat] in *. rewrite vis_bits_cons in *. rewrite app_length in Hl.
    set (n1 := length (vis iw x (bits8 c))) in *.
    set (seg1 := firstn n1 seg). set (seg2 := skipn n1 seg).
    assert (Hs : seg = seg1 ++ seg2) by (symmetry; apply firstn_skipn).
    assert (Hl1 : length seg1 = n1) by (unfold seg1; rewrite firstn_length; lia).
    assert (Hl2 : length seg2 = length (vis iw (x + 8) (bits_of (repeat c n)))) by (unfold seg2; rewrite skipn_length; lia).
    rewrite Hs. replace (a ++ (seg1 ++ seg2) ++ b) with (a ++ seg1 ++ (seg2 ++ b)) by (repeat rewrite <- app_assoc; reflexivity).
    unfold bits8 in *. rewrite (put_bits_paints 8) by (try assumption; lia). cbn [bind].
    replace (a ++ vis iw x (bits_tail (u8 c) 8) ++ seg2 ++ b) with ((a ++ vis iw x (bits_tail (u8 c) 8)) ++ seg2 ++ b) by (rewrite <- app_assoc; reflexivity).
    change (Z.of_nat 8) with 8.
    rewrite IH; [| exact Hl2 | | lia].
    2:{ intros Hin. rewrite zlen_app, (vis_all iw x (bits_tail (u8 c) 8)) by (rewrite zlen_bits_tail; lia). rewrite zlen_bits_tail, Ha by lia. lia. }
    repeat rewrite <- app_assoc. f_equal. f_equal. lia.
Qed.

(* a literal token: the bytes of the stream, 8 pixels each *)
Lemma put_lit1_paints l : forall fp fs a seg b x y w iw width pw,
  length seg = length (vis iw x (bits_of l)) -> (x < iw -> zlen a = y * width + x + pw) -> x + 8 * zlen l <= w ->
  put_lit1 (length l) (fp ++ l ++ fs) (a ++ seg ++ b) x y w iw width pw (zlen fp)
  = Ok (a ++ vis iw x (bits_of l) ++ b, x + 8 * zlen l, zlen fp + zlen l).
Proof.
  induction l as [|c l IH]; intros fp fs a seg b x y w iw width pw Hl Ha Hx.
  - cbn [bits_of flat_map] in *. rewrite vis_nil in *. destruct seg; [|discriminate]. cbn [put_lit1 length app]. change (zlen (@nil byte)) with 0. rewrite Z.mul_0_r, !Z.add_0_r. reflexivity.
  - cbn [put_lit1 length]. rewrite zlen_cons in *. pose proof (zlen_nonneg l).
    assert (Eg : get_idx (fp ++ (c :: l) ++ fs) (zlen fp) = Ok c).
    { unfold get_idx. cbn [app]. rewrite index_app_at by reflexivity. reflexivity. }
    rewrite Eg. cbn [bind].
    rewrite vis_bits_cons in *. rewrite app_length in Hl.
    set (n1 := length (vis iw x (bits8 c))) in *.
    set (seg1 := firstn n1 seg). set (seg2 := skipn n1 seg).
    assert (Hs : seg = seg1 ++ seg2) by (symmetry; apply firstn_skipn).
    assert (Hl1 : length seg1 = n1) by (unfold seg1; rewrite firstn_length; lia).
    assert (Hl2 : length seg2 = length (vis iw (x + 8) (bits_of l))) by (unfold seg2; rewrite skipn_length; lia).
    rewrite Hs. replace (a ++ (seg1 ++ seg2) ++ b) with (a ++ seg1 ++ (seg2 ++ b)) by (repeat rewrite <- app_assoc; reflexivity).
    unfold bits8 in *. rewrite (put_bits_paints 8) by (try assumption; lia). cbn [bind].
    pose proof (zlen_nonneg fs).
    destruct (Z.gtb_spec (zlen fp + 1) (zlen (fp ++ (c :: l) ++ fs))) as [Hgt|_].
    { rewrite zlen_app in Hgt. cbn [app] in Hgt. rewrite zlen_cons, zlen_app in Hgt. lia. }
    replace (fp ++ (c :: l) ++ fs) with ((fp ++ [c]) ++ l ++ fs) by (cbn [app]; rewrite <- app_assoc; reflexivity).
    replace (a ++ vis iw x (bits_tail (u8 c) 8) ++ seg2 ++ b) with ((a ++ vis iw x (bits_tail (u8 c) 8)) ++ seg2 ++ b) by (rewrite <- app_assoc; reflexivity).
    replace (zlen fp + 1) with (zlen (fp ++ [c])) by (rewrite zlen_app; reflexivity).
    change (Z.of_nat 8) with 8.
    rewrite IH; [| exact Hl2 | | lia].
    2:{ intros Hin. rewrite zlen_app, (vis_all iw x (bits_tail (u8 c) 8)) by (rewrite zlen_bits_tail; lia). rewrite zlen_bits_tail, Ha by lia. lia. }
    repeat rewrite <- app_assoc. rewrite zlen_app. change (zlen [c]) with 1.
    f_equal. f_equal; [f_equal|]; lia.
Qed.

Section Row1.
Variables (w iw width pw : Z).

(* one token, started inside a stored row that it does not overrun *)
Lemma token_step1 t fuel fp fs a seg b x y :
  wf_tok t -> length seg = length (vis iw x (bits_of (dec_tok t))) -> (x < iw -> zlen a = y * width + x + pw) ->
  x + 8 * zlen (dec_tok t) <= w -> 0 <= y ->
  loop1 (S fuel) (fp ++ enc_tok t ++ fs) (Build_st (a ++ seg ++ b) x y (zlen fp)) w iw width pw =
  let s' := Build_st (a ++ vis iw x (bits_of (dec_tok t)) ++ b) in
  let x' := x + 8 * zlen (dec_tok t) in
  let idx' := zlen fp + zlen (enc_tok t) in
  if x' >=? w then (if y - 1 <? 0 then Ok (s' 0 (y - 1) idx') else loop1 fuel (fp ++ enc_tok t ++ fs) (s' 0 (y - 1) idx') w iw width pw)
  else loop1 fuel (fp ++ enc_tok t ++ fs) (s' x' y idx') w iw width pw.
Proof.
  intros Hwf Hseg Ha Hx Hy. cbn [loop1 s_idx s_y s_x s_data].
  pose proof (zlen_nonneg fp). pose proof (zlen_nonneg fs).
  destruct t as [l|n v]; cbn [wf_tok enc_tok dec_tok] in *.
  - (* literal *)
    assert (Hl : 1 <= zlen l <= 128) by (unfold zlen; lia).
    assert (Hlt : zlen fp <? zlen (fp ++ (byte_of_Z (zlen l - 1) :: l) ++ fs) = true).
    { apply Z.ltb_lt. rewrite !zlen_app, zlen_cons. lia. }
    rewrite Hlt. destruct (Z.geb_spec y 0); [|lia]. cbn [andb].
    assert (Eg : get_idx (fp ++ (byte_of_Z (zlen l - 1) :: l) ++ fs) (zlen fp) = Ok (byte_of_Z (zlen l - 1))).
    { unfold get_idx. cbn [app]. rewrite index_app_at by reflexivity. reflexivity. }
    rewrite Eg. cbn [bind]. rewrite u8_byte_of_Z, Z.mod_small by lia.
    rewrite land128 by lia. destruct (Z.ltb_spec (zlen l - 1) 128); [|lia]. cbn [Z.eqb negb].
    destruct (Z.gtb_spec (zlen fp + 1 + (zlen l - 1 + 1)) (zlen (fp ++ (byte_of_Z (zlen l - 1) :: l) ++ fs))) as [Hgt|_].
    { rewrite !zlen_app, zlen_cons in Hgt. lia. }
    replace (Z.to_nat (zlen l - 1 + 1)) with (length l) by (unfold zlen; lia).
    replace (fp ++ (byte_of_Z (zlen l - 1) :: l) ++ fs) with ((fp ++ [byte_of_Z (zlen l - 1)]) ++ l ++ fs) at 1
      by (cbn [app]; rewrite <- app_assoc; reflexivity).
    replace (zlen fp + 1) with (zlen (fp ++ [byte_of_Z (zlen l - 1)])) by (rewrite zlen_app; reflexivity).
    rewrite put_lit1_paints by assumption. cbn [bind].
    replace ((fp ++ [byte_of_Z (zlen l - 1)]) ++ l ++ fs) with (fp ++ (byte_of_Z (zlen l - 1) :: l) ++ fs)
      by (cbn [app]; rewrite <- app_assoc; reflexivity).
    replace (zlen (fp ++ [byte_of_Z (zlen l - 1)]) + zlen l) with (zlen fp + zlen (byte_of_Z (zlen l - 1) :: l))
      by (rewrite zlen_app, zlen_cons; change (zlen [byte_of_Z (zlen l - 1)]) with 1; lia).
    reflexivity.
  - (* run *)
    assert (Hn : 2 <= Z.of_nat n <= 129) by lia.
    assert (Hlt : zlen fp <? zlen (fp ++ [byte_of_Z (257 - Z.of_nat n); v] ++ fs) = true).
    { apply Z.ltb_lt. rewrite !zlen_app. change (zlen [byte_of_Z (257 - Z.of_nat n); v]) with 2. lia. }
    rewrite Hlt. destruct (Z.geb_spec y 0); [|lia]. cbn [andb].
    assert (Eg : get_idx (fp ++ [byte_of_Z (257 - Z.of_nat n); v] ++ fs) (zlen fp) = Ok (byte_of_Z (257 - Z.of_nat n))).
    { unfold get_idx. cbn [app]. rewrite index_app_at by reflexivity. reflexivity. }
    rewrite Eg. cbn [bind]. rewrite u8_byte_of_Z, Z.mod_small by lia.
    rewrite land128 by lia. destruct (Z.ltb_spec (257 - Z.of_nat n) 128); [lia|]. cbn [Z.eqb negb].
    destruct (Z.geb_spec (zlen fp + 1) (zlen (fp ++ [byte_of_Z (257 - Z.of_nat n); v] ++ fs))) as [Hge|_].
    { rewrite !zlen_app in Hge. change (zlen [byte_of_Z (257 - Z.of_nat n); v]) with 2 in Hge. lia. }
    assert (Eg2 : get_idx (fp ++ [byte_of_Z (257 - Z.of_nat n); v] ++ fs) (zlen fp + 1) = Ok v).
    { unfold get_idx. replace (fp ++ [byte_of_Z (257 - Z.of_nat n); v] ++ fs) with ((fp ++ [byte_of_Z (257 - Z.of_nat n)]) ++ v :: fs)
        by (rewrite <- app_assoc; reflexivity).
      rewrite index_app_at by (rewrite zlen_app; reflexivity). reflexivity. }
    rewrite Eg2. cbn [bind].
    replace (Z.to_nat (257 - (257 - Z.of_nat n))) with n by lia.
    rewrite zlen_repeat in Hx.
    rewrite put_run1_paints by assumption. cbn [bind].
    rewrite zlen_repeat. change (zlen [byte_of_Z (257 - Z.of_nat n); v]) with 2.
    reflexivity.
Qed.

(* a whole stored row, cut into tokens in any way, started at x and ending exactly at w *)
Lemma row_tokens1 ts : forall fuel fp fs a seg b x y,
  ts <> [] -> Forall wf_tok ts -> length seg = length (vis iw x (bits_of (dec_toks ts))) -> (x < iw -> zlen a = y * width + x + pw) ->
  x + 8 * zlen (dec_toks ts) = w -> 0 <= y ->
  loop1 (length ts + fuel) (fp ++ enc_toks ts ++ fs) (Build_st (a ++ seg ++ b) x y (zlen fp)) w iw width pw =
  let s' := Build_st (a ++ vis iw x (bits_of (dec_toks ts)) ++ b) 0 (y - 1) (zlen fp + zlen (enc_toks ts)) in
  if y - 1 <? 0 then Ok s' else loop1 fuel (fp ++ enc_toks ts ++ fs) s' w iw width pw.
Proof.
  induction ts as [|t ts IH]; intros fuel fp fs a seg b x y Hne Hwf Hseg Ha Hx Hy; [congruence|].
  pose proof (Forall_inv Hwf) as Ht. pose proof (Forall_inv_tail Hwf) as Hts.
  unfold enc_toks, dec_toks in *. cbn [map concat] in *. fold (enc_toks ts) in *. fold (dec_toks ts) in *.
  rewrite bits_of_app, vis_app, zlen_bits_of in *. rewrite app_length in Hseg. rewrite zlen_app in Hx.
  pose proof (dec_tok_pos t Ht) as Hpos. pose proof (zlen_nonneg (dec_toks ts)) as Hnn.
  set (n1 := length (vis iw x (bits_of (dec_tok t)))) in *.
  set (seg1 := firstn n1 seg). set (seg2 := skipn n1 seg).
  assert (Hs : seg = seg1 ++ seg2) by (symmetry; apply firstn_skipn).
  assert (Hl1 : length seg1 = n1) by (unfold seg1; rewrite firstn_length; lia).
  assert (Hl2 : length seg2 = length (vis iw (x + 8 * zlen (dec_tok t)) (bits_of (dec_toks ts)))) by (unfold seg2; rewrite skipn_length; lia).
  cbn [length Nat.add].
  replace (fp ++ (enc_tok t ++ enc_toks ts) ++ fs) with (fp ++ enc_tok t ++ (enc_toks ts ++ fs)) by (repeat rewrite <- app_assoc; reflexivity).
  rewrite Hs. replace (a ++ (seg1 ++ seg2) ++ b) with (a ++ seg1 ++ (seg2 ++ b)) by (repeat rewrite <- app_assoc; reflexivity).
  rewrite token_step1; try assumption; [|lia]. cbv zeta.
  destruct ts as [|t2 ts'].
  - (* last token of the row *)
    change (dec_toks []) with (@nil byte) in *. change (zlen (@nil byte)) with 0 in Hx. cbn [bits_of flat_map] in *. rewrite vis_nil in *.
    destruct seg2; [|discriminate]. cbn [app].
    destruct (Z.geb_spec (x + 8 * zlen (dec_tok t)) w); [|lia].
    change (enc_toks []) with (@nil byte). rewrite !app_nil_r. cbn [length Nat.add].
    reflexivity.
  - assert (Hpos2 : 0 < zlen (dec_toks (t2 :: ts'))).
    { unfold dec_toks. cbn [map concat]. rewrite zlen_app. pose proof (dec_tok_pos t2 (Forall_inv Hts)).
      pose proof (zlen_nonneg (concat (map dec_tok ts'))). lia. }
    destruct (Z.geb_spec (x + 8 * zlen (dec_tok t)) w); [lia|].
    replace (fp ++ enc_tok t ++ enc_toks (t2 :: ts') ++ fs) with ((fp ++ enc_tok t) ++ enc_toks (t2 :: ts') ++ fs)
      by (repeat rewrite <- app_assoc; reflexivity).
    replace (a ++ vis iw x (bits_of (dec_tok t)) ++ seg2 ++ b) with ((a ++ vis iw x (bits_of (dec_tok t))) ++ seg2 ++ b) by (repeat rewrite <- app_assoc; reflexivity).
    replace (zlen fp + zlen (enc_tok t)) with (zlen (fp ++ enc_tok t)) by (rewrite zlen_app; reflexivity).
    rewrite (IH fuel (fp ++ enc_tok t) fs (a ++ vis iw x (bits_of (dec_tok t))) seg2 b (x + 8 * zlen (dec_tok t)) y); try assumption;
      [| discriminate | | lia].
    2:{ intros Hin. rewrite zlen_app, (vis_all iw x (bits_of (dec_tok t))) by (rewrite zlen_bits_of; lia). rewrite zlen_bits_of, Ha by lia. lia. }
    cbv zeta. repeat rewrite <- app_assoc. rewrite !zlen_app.
    replace (zlen fp + zlen (enc_tok t) + zlen (enc_toks (t2 :: ts'))) with (zlen fp + (zlen (enc_tok t) + zlen (enc_toks (t2 :: ts')))) by lia.
    reflexivity.
Qed.
End Row1.

(* ---------- a whole compressed 1-bit image ---------- *)
Definition canvas1 (pw iw width : Z) (ts : list tok) : bytes := raw_canvas1 pw iw width (dec_toks ts).

Lemma rows_image1 Wb W iw width pw rows : forall fuel fp above y,
  0 <= pw -> 0 < iw -> iw <= W -> W = 8 * Wb -> pw + iw <= width ->
  Forall (wf_row Wb) rows -> y + 1 = zlen rows ->
  loop1 (ntoks rows + S fuel) (fp ++ concat (map enc_toks rows))
        (Build_st (zerosZ (width * (y + 1)) ++ above) 0 y (zlen fp)) W iw width pw
  = Ok (Build_st (concat (map (canvas1 pw iw width) (rev rows)) ++ above) 0 (-1)
                 (zlen (fp ++ concat (map enc_toks rows)))).
Proof.
  induction rows as [|r rows IH]; intros fuel fp above y Hpw Hiw HiW HW Hfit Hwf Hy.
  - change (zlen (@nil (list tok))) with 0 in Hy. assert (y = -1) by lia. subst y.
    replace (width * (-1 + 1)) with 0 by lia. change (zerosZ 0) with (@nil byte).
    cbn [ntoks concat length map rev app Nat.add loop1 s_idx s_y]. rewrite app_nil_r.
    destruct (zlen fp <? zlen fp); cbn [andb Z.geb Z.compare]; reflexivity.
  - pose proof (Forall_inv Hwf) as (Hne & Hts & Hlen). pose proof (Forall_inv_tail Hwf) as Hrest.
    rewrite zlen_cons in Hy. pose proof (zlen_nonneg rows) as Hrn. assert (Hy0 : 0 <= y) by lia.
    unfold ntoks. cbn [concat map]. rewrite app_length. fold (ntoks rows).
    replace (length r + ntoks rows + S fuel)%nat with (length r + (ntoks rows + S fuel))%nat by lia.
    assert (Hsplit : zerosZ (width * (y + 1)) = (zerosZ (width * y) ++ zerosZ pw) ++ zerosZ iw ++ zerosZ (width - pw - iw)).
    { replace (width * (y + 1)) with (width * y + (pw + (iw + (width - pw - iw)))) by lia.
      rewrite zerosZ_add by nia. rewrite zerosZ_add by lia. rewrite zerosZ_add by lia.
      repeat rewrite <- app_assoc. reflexivity. }
    rewrite Hsplit.
    replace (((zerosZ (width * y) ++ zerosZ pw) ++ zerosZ iw ++ zerosZ (width - pw - iw)) ++ above)
      with ((zerosZ (width * y) ++ zerosZ pw) ++ zerosZ iw ++ (zerosZ (width - pw - iw) ++ above))
      by (repeat rewrite <- app_assoc; reflexivity).
    assert (Hvis : vis iw 0 (bits_of (dec_toks r)) = firstn (Z.to_nat iw) (bits_of (dec_toks r))) by (unfold vis; rewrite Z.sub_0_r; reflexivity).
    rewrite (row_tokens1 W iw width pw r (ntoks rows + S fuel) fp (concat (map enc_toks rows))); try assumption.
    2:{ rewrite Hvis. unfold zerosZ, zeros. rewrite repeat_length, firstn_length, bits_of_length. unfold zlen in Hlen. lia. }
    2:{ intros _. rewrite zlen_app, !zlen_zerosZ by nia. lia. }
    2:{ lia. }
    cbv zeta. rewrite Hvis.
    destruct rows as [|r2 rows'].
    + change (zlen (@nil (list tok))) with 0 in Hy. assert (y = 0) by lia. subst y.
      cbn [Z.sub Z.ltb Z.compare Z.add Z.opp Z.pos_sub]. cbn [rev map concat app].
      f_equal. f_equal.
      * replace (width * 0) with 0 by lia. change (zerosZ 0) with (@nil byte). cbn [app].
        unfold canvas1, raw_canvas1, canvas_row. repeat rewrite <- app_assoc. reflexivity.
      * rewrite app_nil_r, zlen_app. reflexivity.
    + assert (Hy1 : 1 <= y) by (rewrite zlen_cons in Hy; pose proof (zlen_nonneg rows'); lia).
      destruct (Z.ltb_spec (y - 1) 0); [lia|].
      replace (fp ++ enc_toks r ++ concat (map enc_toks (r2 :: rows'))) with ((fp ++ enc_toks r) ++ concat (map enc_toks (r2 :: rows')))
        by (rewrite <- app_assoc; reflexivity).
      replace (zlen fp + zlen (enc_toks r)) with (zlen (fp ++ enc_toks r)) by (rewrite zlen_app; reflexivity).
      replace ((zerosZ (width * y) ++ zerosZ pw) ++ firstn (Z.to_nat iw) (bits_of (dec_toks r)) ++ zerosZ (width - pw - iw) ++ above)
        with (zerosZ (width * (y - 1 + 1)) ++ (canvas1 pw iw width r ++ above)).
      2:{ replace (y - 1 + 1) with y by lia. unfold canvas1, raw_canvas1, canvas_row. repeat rewrite <- app_assoc. reflexivity. }
      rewrite (IH fuel (fp ++ enc_toks r) (canvas1 pw iw width r ++ above) (y - 1)); try assumption; [|lia].
      f_equal. f_equal. cbn [rev]. rewrite !map_app, !concat_app. cbn [map concat]. rewrite app_nil_r.
      repeat rewrite <- app_assoc. reflexivity.
Qed.

(* the row length the 1-bit decoder works with: the image width rounded up to a multiple of 16 *)
Definition width16 (w : Z) : Z := w + (16 - w mod 16) mod 16.
Lemma width16_spec w : 0 <= w -> width16 w mod 16 = 0 /\ w <= width16 w < w + 16.
Proof.
  intros Hw. unfold width16. pose proof (Z.mod_pos_bound w 16 ltac:(lia)) as Hm. pose proof (Z.div_mod w 16 ltac:(lia)) as Hd.
  destruct (Z.eq_dec (w mod 16) 0) as [E|E].
  - rewrite E. change ((16 - 0) mod 16) with 0. rewrite Z.add_0_r. split; [exact E | lia].
  - rewrite (Z.mod_small (16 - w mod 16) 16) by lia. split; [|lia].
    replace (w + (16 - w mod 16)) with ((w / 16 + 1) * 16) by lia. apply Z.mod_mul. lia.
Qed.
Lemma width16_bytes w : 0 <= w -> width16 w = 8 * (width16 w / 8).
Proof.
  intros Hw. pose proof (width16_spec w Hw) as [H16 _]. set (W := width16 w) in *.
  pose proof (Z.div_mod W 16 ltac:(lia)) as Hd. rewrite H16 in Hd.
  pose proof (Z.div_mod W 8 ltac:(lia)) as Hd8. pose proof (Z.mod_pos_bound W 8 ltac:(lia)).
  assert (W mod 8 = 0); [|lia]. rewrite Hd. rewrite Z.add_0_r. replace (16 * (W / 16)) with ((2 * (W / 16)) * 8) by lia. apply Z.mod_mul. lia.
Qed.

(* The decoder's pixel array for a compressed 1-bit image: every valid scan-line PackBits encoding of rows of
   width16 w / 8 bytes; pixel x of a row is bit 7 - x mod 8 of byte x / 8 of the decoded row; the pad bits are not
   painted.  No geometry condition (since the repair of C06-1bit-narrow / C06-1bit-pad-overflow). *)
Theorem compressed1_pixels bw bh pw ph rows :
  let w := bw - pw in let W := width16 w in let width := stride4 bw in
  0 <= pw -> 0 < w -> 0 <= ph -> zlen rows = bh - ph ->
  Forall (wf_row (W / 8)) rows ->
  decode_compressed1 (concat (map enc_toks rows)) bw bh pw ph width
  = Ok (concat (map (canvas1 pw w width) (rev rows)) ++ zerosZ (width * ph)).
Proof.
  intros w W width Hpw Hw Hph Hrows Hwf. unfold decode_compressed1. fold w.
  pose proof (width16_spec w ltac:(lia)) as [H16 HWr]. fold W in H16, HWr.
  pose proof (width16_bytes w ltac:(lia)) as HW8. fold W in HW8.
  pose proof (stride4_spec bw ltac:(lia)) as [_ Hst]. fold width in Hst.
  lazy zeta. change (w + (16 - w mod 16) mod 16) with W.
  pose proof (zlen_nonneg rows) as Hrn.
  unfold bytearray. destruct (Z.ltb_spec (width * bh) 0); [nia|]. cbn [bind].
  replace (zeros (Z.to_nat (width * bh))) with (zerosZ (width * (bh - 1 - ph + 1)) ++ zerosZ (width * ph)).
  2:{ rewrite <- zerosZ_add by nia. unfold zerosZ. f_equal. f_equal. lia. }
  assert (Hall : Forall (Forall wf_tok) rows) by (eapply Forall_impl; [|exact Hwf]; intros r (_ & Hr & _); exact Hr).
  pose proof (ntoks_le rows Hall) as Hn.
  replace (S (length (concat (map enc_toks rows)))) with (ntoks rows + S (length (concat (map enc_toks rows)) - ntoks rows))%nat by lia.
  replace (concat (map enc_toks rows)) with ([] ++ concat (map enc_toks rows)) at 2 by reflexivity.
  change 0 with (zlen (@nil byte)) at 2.
  rewrite (rows_image1 (W / 8) W w width pw rows); try assumption; try lia.
  reflexivity.
Qed.

Theorem compressed1_encoding_independent bw bh pw ph rows1 rows2 :
  let w := bw - pw in let W := width16 w in let width := stride4 bw in
  0 <= pw -> 0 < w -> 0 <= ph -> zlen rows1 = bh - ph -> zlen rows2 = bh - ph ->
  Forall (wf_row (W / 8)) rows1 -> Forall (wf_row (W / 8)) rows2 ->
  map dec_toks rows1 = map dec_toks rows2 ->
  decode_compressed1 (concat (map enc_toks rows1)) bw bh pw ph width
  = decode_compressed1 (concat (map enc_toks rows2)) bw bh pw ph width.
Proof.
  intros w W width H1 H2 H3 H4 H5 H7 H8 Heq. subst w W width.
  rewrite (compressed1_pixels bw bh pw ph rows1), (compressed1_pixels bw bh pw ph rows2) by assumption.
  f_equal. f_equal.
  assert (E : forall rows, map (canvas1 pw (bw - pw) (stride4 bw)) (rev rows)
                         = map (raw_canvas1 pw (bw - pw) (stride4 bw)) (rev (map dec_toks rows))).
  { intros rows. rewrite <- map_rev, map_map. reflexivity. }
  rewrite !E, Heq. reflexivity.
Qed.
