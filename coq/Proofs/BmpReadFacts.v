(* C06, reader level: what a standard BMP reader sees in the file the 8-bit and 1-bit decoders produce
   (both write 8 bits per pixel).  The reader takes the pixel-array offset from the file header (offset 10), width,
   height and bits per pixel from the info header (18, 22, 28), computes the 4-byte aligned stride and reads rows
   bottom-up. *)
From Coq Require Import List ZArith Bool Lia.
From Coq.Strings Require Import Byte.
From DRX Require Import Py.PyBytes Proofs.PyBytesFacts Model.Riff Model.Clut Model.Bitd Proofs.BitdFacts Proofs.BitdRawFacts Proofs.Bitd1Facts.
Import ListNotations.
Open Scope Z_scope.

Definition bmp_read (bmp : bytes) (x y : Z) : option byte :=
  match unpack_u 4 Little (slice bmp 10 14), unpack_s 4 Little (slice bmp 18 22),
        unpack_s 4 Little (slice bmp 22 26), unpack_u 2 Little (slice bmp 28 30) with
  | Some off, Some w, Some h, Some bpp =>
    if (0 <=? x) && (x <? w) && (0 <=? y) && (y <? h) && (bpp =? 8) then
      let stride := ((w * bpp + 31) / 32) * 4 in
      index bmp (off + (h - 1 - y) * stride + x)
    else None
  | _, _, _, _ => None
  end.

(* ---------- the stride formula of the reader is the decoder's ---------- *)
Lemma reader_stride w : 0 <= w -> ((w * 8 + 31) / 32) * 4 = stride4 w.
Proof.
  intros Hw. unfold stride4.
  pose proof (Z.div_mod w 4 ltac:(lia)) as Hd. pose proof (Z.mod_pos_bound w 4 ltac:(lia)) as Hm.
  assert (E : (w * 8 + 31) / 32 = w / 4 + (if w mod 4 >? 0 then 1 else 0)).
  { destruct (Z.gtb_spec (w mod 4) 0).
    - symmetry. apply (Z.div_unique _ _ _ (8 * (w mod 4) - 1)); lia.
    - symmetry. apply (Z.div_unique _ _ _ 31); lia. }
  rewrite E. destruct (Z.gtb_spec (w mod 4) 0); lia.
Qed.

(* ---------- indexing ---------- *)
Lemma index_app_r {A} (p d : list A) i : 0 <= i -> index (p ++ d) (zlen p + i) = index d i.
Proof.
  intros Hi. unfold index. rewrite zlen_app. pose proof (zlen_nonneg p). pose proof (zlen_nonneg d).
  destruct (Z.ltb_spec (zlen p + i) 0); [lia|]. destruct (Z.ltb_spec i 0); [lia|].
  destruct (Z.ltb_spec (zlen p + i) 0); [lia|]. destruct (Z.ltb_spec i 0); [lia|].
  destruct (Z.leb_spec (zlen p + zlen d) (zlen p + i)); destruct (Z.leb_spec (zlen d) i); try lia; cbn [orb]; [reflexivity|].
  rewrite nth_error_app2 by (unfold zlen in *; lia). f_equal. unfold zlen. lia.
Qed.
Lemma index_app_l {A} (p d : list A) i : 0 <= i < zlen p -> index (p ++ d) i = index p i.
Proof.
  intros Hi. unfold index. rewrite zlen_app. pose proof (zlen_nonneg d).
  destruct (Z.ltb_spec i 0); [lia|]. destruct (Z.ltb_spec i 0); [lia|].
  destruct (Z.leb_spec (zlen p + zlen d) i); [lia|]. destruct (Z.leb_spec (zlen p) i); [lia|]. cbn [orb].
  apply nth_error_app1. unfold zlen in *. lia.
Qed.
Lemma index_zerosZ n i : 0 <= i < n -> index (zerosZ n) i = Some x00.
Proof.
  intros Hi. unfold index. rewrite zlen_zerosZ by lia.
  destruct (Z.ltb_spec i 0); [lia|]. destruct (Z.ltb_spec i 0); [lia|]. destruct (Z.leb_spec n i); [lia|]. cbn [orb].
  unfold zerosZ, zeros. apply nth_error_repeat. lia.
Qed.
Lemma index_nth (l : bytes) i : 0 <= i < zlen l -> index l i = Some (nth (Z.to_nat i) l x00).
Proof.
  intros Hi. unfold index. destruct (Z.ltb_spec i 0); [lia|]. destruct (Z.ltb_spec i 0); [lia|]. destruct (Z.leb_spec (zlen l) i); [lia|]. cbn [orb].
  apply nth_error_nth'. unfold zlen in Hi. lia.
Qed.

Lemma nth_firstn_lt {A} (l : list A) n m d : (n < m)%nat -> nth n (firstn m l) d = nth n l d.
Proof.
  revert n m. induction l as [|a l IH]; intros n m H; [destruct m, n; reflexivity|].
  destruct m; [lia|]. destruct n; [reflexivity|]. cbn [firstn nth]. apply IH. lia.
Qed.

(* a pixel array of equally long rows *)
Lemma index_rows width (L : list (list byte)) : forall T k x,
  Forall (fun r => zlen r = width) L -> 0 <= k < zlen L -> 0 <= x < width ->
  index (concat L ++ T) (k * width + x) = index (nth (Z.to_nat k) L []) x.
Proof.
  induction L as [|r L IH]; intros T k x Hall Hk Hx.
  - unfold zlen in Hk. cbn [length] in Hk. lia.
  - pose proof (Forall_inv Hall) as Hr. cbv beta in Hr. pose proof (Forall_inv_tail Hall) as HL. rewrite zlen_cons in Hk.
    cbn [concat]. rewrite <- app_assoc.
    destruct (Z.eq_dec k 0) as [->|Hk0].
    + cbn [Z.to_nat nth]. rewrite Z.mul_0_l, Z.add_0_l. apply index_app_l. lia.
    + replace (k * width + x) with (zlen r + ((k - 1) * width + x)) by lia.
      rewrite index_app_r by nia. assert (Hk1 : 0 <= k - 1 < zlen L) by lia. rewrite (IH T (k - 1) x HL Hk1 Hx).
      replace (Z.to_nat k) with (S (Z.to_nat (k - 1))) by lia. reflexivity.
Qed.
Lemma index_rows_top width (L : list (list byte)) n k x :
  Forall (fun r => zlen r = width) L -> zlen L <= k < zlen L + n -> 0 <= x < width ->
  index (concat L ++ zerosZ (width * n)) (k * width + x) = Some x00.
Proof.
  intros Hall Hk Hx. pose proof (zlen_concat_rows width L Hall) as Hc. pose proof (zlen_nonneg L).
  assert (E : k * width + x = zlen (concat L) + ((k - zlen L) * width + x)) by (rewrite Hc; ring).
  rewrite E. rewrite index_app_r by nia. apply index_zerosZ. nia.
Qed.

Lemma index_canvas_row pw W width r x : 0 <= pw -> zlen r = W -> pw + W <= width -> 0 <= x < width ->
  index (canvas_row pw W width r) x = if (pw <=? x) && (x <? pw + W) then index r (x - pw) else Some x00.
Proof.
  intros Hpw Hr Hfit Hx. unfold canvas_row. pose proof (zlen_nonneg r).
  destruct (Z.leb_spec pw x); cbn [andb].
  - replace x with (zlen (zerosZ pw) + (x - pw)) at 1 by (rewrite zlen_zerosZ; lia).
    rewrite index_app_r by lia.
    destruct (Z.ltb_spec x (pw + W)).
    + apply index_app_l. lia.
    + replace (x - pw) with (zlen r + (x - pw - W)) by lia. rewrite index_app_r by lia. apply index_zerosZ. lia.
  - rewrite index_app_l by (rewrite zlen_zerosZ; lia). apply index_zerosZ. lia.
Qed.

(* ---------- the file: headers, colour table, pixel array ---------- *)
Lemma bmp_fields size off w h nc pal data :
  let bmp := bmp_header size off ++ bmp_info_header w h 8 nc ++ pal ++ data in
  0 <= off < 2 ^ 32 -> - 2 ^ 31 <= w < 2 ^ 31 -> - 2 ^ 31 <= h < 2 ^ 31 ->
  unpack_u 4 Little (slice bmp 10 14) = Some off /\ unpack_s 4 Little (slice bmp 18 22) = Some w /\
  unpack_s 4 Little (slice bmp 22 26) = Some h /\ unpack_u 2 Little (slice bmp 28 30) = Some 8.
Proof.
  intros bmp Hoff Hw Hh.
  destruct (bmp_header_fields size off (bmp_info_header w h 8 nc ++ pal ++ data)) as [_ F1].
  assert (Hpre : zlen (bmp_header size off) = 14) by (unfold bmp_header; rewrite !zlen_app, !zlen_pack; reflexivity).
  destruct (bmp_info_fields w h 8 nc (bmp_header size off) (pal ++ data) Hpre) as (F2 & F3 & F4).
  unfold bmp. repeat split.
  - rewrite F1. apply unpack_u_pack. change (256 ^ Z.of_nat 4) with (2 ^ 32). lia.
  - rewrite F2. apply unpack_s_pack; [lia|]. change (8 * Z.of_nat 4 - 1) with 31. lia.
  - rewrite F3. apply unpack_s_pack; [lia|]. change (8 * Z.of_nat 4 - 1) with 31. lia.
  - rewrite F4. apply unpack_u_pack. change (256 ^ Z.of_nat 2) with 65536. lia.
Qed.

Theorem bmp_read_data size w h nc pal data x y :
  let off := 54 + zlen pal in
  off < 2 ^ 32 -> 0 <= w < 2 ^ 31 -> 0 <= h < 2 ^ 31 -> 0 <= x < w -> 0 <= y < h ->
  bmp_read (bmp_header size off ++ bmp_info_header w h 8 nc ++ pal ++ data) x y = index data ((h - 1 - y) * stride4 w + x).
Proof.
  intros off Hoff Hw Hh Hx Hy. pose proof (zlen_nonneg pal) as Hp.
  destruct (bmp_fields size off w h nc pal data ltac:(unfold off; lia) ltac:(lia) ltac:(lia)) as (F1 & F2 & F3 & F4).
  unfold bmp_read. rewrite F1, F2, F3, F4.
  destruct (Z.leb_spec 0 x); [|lia]. destruct (Z.ltb_spec x w); [|lia]. destruct (Z.leb_spec 0 y); [|lia]. destruct (Z.ltb_spec y h); [|lia].
  cbn [andb Z.eqb Pos.eqb]. cbv zeta. rewrite reader_stride by lia.
  pose proof (stride4_spec w ltac:(lia)) as [_ Hs].
  replace (bmp_header size off ++ bmp_info_header w h 8 nc ++ pal ++ data)
    with ((bmp_header size off ++ bmp_info_header w h 8 nc ++ pal) ++ data) by (repeat rewrite <- app_assoc; reflexivity).
  assert (Hl : zlen (bmp_header size off ++ bmp_info_header w h 8 nc ++ pal) = off).
  { unfold bmp_header, bmp_info_header, off. rewrite !zlen_app, !zlen_pack. change (zlen ["B"%byte; "M"%byte]) with 2. lia. }
  replace (off + (h - 1 - y) * stride4 w + x) with (zlen (bmp_header size off ++ bmp_info_header w h 8 nc ++ pal) + ((h - 1 - y) * stride4 w + x)) by lia.
  apply index_app_r. nia.
Qed.

(* ---------- pixels of a canvas built from stored rows ---------- *)
(* rows: the stored rows top-down (the decoder's input order), crow: the canvas row of a stored row *)
Lemma canvas_pixel {R} (crow : R -> list byte) (dflt : R) width (rows : list R) bh ph x y :
  (forall r, zlen (crow r) = width) -> zlen rows = bh - ph -> 0 <= ph -> 0 <= x < width -> 0 <= y < bh ->
  index (concat (map crow (rev rows)) ++ zerosZ (width * ph)) ((bh - 1 - y) * width + x)
  = if ph <=? y then index (crow (nth (Z.to_nat (y - ph)) rows dflt)) x else Some x00.
Proof.
  intros Hc Hrows Hph Hx Hy. pose proof (zlen_nonneg rows) as Hn.
  assert (Hall : Forall (fun r => zlen r = width) (map crow (rev rows))).
  { apply Forall_forall. intros r Hin. apply in_map_iff in Hin. destruct Hin as (r0 & <- & _). apply Hc. }
  assert (Hlen : zlen (map crow (rev rows)) = zlen rows) by (unfold zlen; rewrite map_length, rev_length; reflexivity).
  destruct (Z.leb_spec ph y).
  - rewrite index_rows by (try assumption; lia).
    assert (Hk : (Z.to_nat (bh - 1 - y) < length (rev rows))%nat) by (rewrite rev_length; unfold zlen in Hrows; lia).
    rewrite (nth_indep _ [] (crow dflt)) by (rewrite map_length; exact Hk).
    rewrite map_nth. rewrite rev_nth by (unfold zlen in Hrows; lia).
    f_equal. f_equal. f_equal. unfold zlen in Hrows. lia.
  - apply index_rows_top; try assumption. lia.
Qed.

(* ---------- the whole file of an 8-bit image ---------- *)
Definition pal_ok (nbits ncolors : Z) (pname pdata pal : bytes) : Prop :=
  write_color_palette nbits ncolors pname pdata = Ok pal /\ zlen pal = ncolors * 4.

Lemma parts8_file f bw bh pw ph pname pdata pal data :
  0 <= ph -> 0 <= bw < 2 ^ 31 -> 0 <= bh < 2 ^ 31 -> bw * bh + 1078 < 2 ^ 31 ->
  pal_ok 8 256 pname pdata pal ->
  (let w := bw - pw in let W := w + w mod 2 in
   (if zlen f =? W * (bh - ph) then decode_raw8 f bw bh pw ph (stride4 bw) W else decode_compressed8 f bw bh pw ph (stride4 bw)) = Ok data) ->
  decode8 f bw bh pw ph pname pdata = Ok (bmp_header (bw * bh + 1078) 1078 ++ bmp_info_header bw bh 8 256 ++ pal ++ data).
Proof.
  intros Hph Hbw Hbh Hsz [Hpal _] Hdata. unfold decode8, parts8.
  destruct (Z.ltb_spec ph 0); [lia|].
  change (256 * 4 + 40 + 14) with 1078. cbv zeta in Hdata.
  unfold hdr_parts, info_part. cbn [app collect_parts].
  assert (F1 : fits_i32 (bw * bh + 1078) = true) by (unfold fits_i32; apply andb_true_intro; split; [apply Z.leb_le | apply Z.ltb_lt]; nia).
  assert (F2 : fits_i32 bw = true) by (unfold fits_i32; apply andb_true_intro; split; [apply Z.leb_le | apply Z.ltb_lt]; lia).
  assert (F3 : fits_i32 bh = true) by (unfold fits_i32; apply andb_true_intro; split; [apply Z.leb_le | apply Z.ltb_lt]; lia).
  replace (bw * bh + 256 * 4 + 40 + 14) with (bw * bh + 1078) by lia.
  rewrite F1, F2, F3. change (fits_i32 1078) with true. cbn [andb bind].
  rewrite Hpal. cbn [bind]. rewrite Hdata. cbn [bind].
  unfold bmp_header. rewrite app_nil_r. repeat rewrite <- app_assoc. reflexivity.
Qed.

(* the pixel the property demands at canvas position (x, y), y counted from the top: the source pixel inside the
   image area, background (index 0) elsewhere; src gives the source row (at least w pixels) *)
Definition want {R} (src : R -> list byte) (dflt : R) (rows : list R) (pw ph w x y : Z) : byte :=
  if (pw <=? x) && (x <? pw + w) && (ph <=? y) then nth (Z.to_nat (x - pw)) (src (nth (Z.to_nat (y - ph)) rows dflt)) x00 else x00.

(* reading a file whose pixel array is made of canvas rows (the first w values of every source row at w_padding), the
   last source row first, then h_padding background rows, then anything *)
Theorem read_canvas {R} (src : R -> list byte) (dflt : R) (rows : list R) bw bh pw ph size nc pal E x y :
  let w := bw - pw in let width := stride4 bw in
  0 <= pw -> 0 < w -> 0 <= ph -> zlen rows = bh - ph -> (forall r, In r rows -> w <= zlen (src r)) ->
  bw < 2 ^ 31 -> bh < 2 ^ 31 -> 54 + zlen pal < 2 ^ 32 -> 0 <= x < bw -> 0 <= y < bh ->
  bmp_read (bmp_header size (54 + zlen pal) ++ bmp_info_header bw bh 8 nc ++ pal ++
            (concat (map (fun r => canvas_row pw w width (firstn (Z.to_nat w) (src r))) (rev rows)) ++ zerosZ (width * ph) ++ E)) x y
  = Some (want src dflt rows pw ph w x y).
Proof.
  intros w width Hpw Hw Hph Hrows Hsrc Hbw Hbh Hoff Hx Hy.
  pose proof (zlen_nonneg rows) as Hrn.
  rewrite bmp_read_data by lia. fold width.
  pose proof (stride4_spec bw ltac:(lia)) as [_ Hs]. fold width in Hs.
  set (crow := fun r => if w <=? zlen (src r) then canvas_row pw w width (firstn (Z.to_nat w) (src r)) else zerosZ width).
  assert (Emap : map (fun r => canvas_row pw w width (firstn (Z.to_nat w) (src r))) (rev rows) = map crow (rev rows)).
  { apply map_ext_in. intros r Hin. apply in_rev in Hin. unfold crow. destruct (Z.leb_spec w (zlen (src r))); [reflexivity|]. pose proof (Hsrc r Hin). lia. }
  rewrite Emap.
  assert (Hcl : forall r, zlen (crow r) = width).
  { intros r. unfold crow. destruct (Z.leb_spec w (zlen (src r))); [|apply zlen_zerosZ; lia].
    apply zlen_canvas_row; try lia. apply zlen_firstn_le. lia. }
  assert (Hx' : 0 <= x < width) by lia.
  (* the part of the pixel array a reader looks at *)
  rewrite app_assoc.
  assert (HD : zlen (concat (map crow (rev rows)) ++ zerosZ (width * ph)) = width * bh).
  { rewrite zlen_app, zlen_zerosZ by nia.
    rewrite (zlen_concat_rows width).
    - unfold zlen. rewrite map_length, rev_length. unfold zlen in Hrows. lia.
    - apply Forall_forall. intros r0 Hin. apply in_map_iff in Hin. destruct Hin as (r1 & <- & _). apply Hcl. }
  rewrite index_app_l by (rewrite HD; nia).
  etransitivity; [exact (canvas_pixel crow dflt width rows bh ph x y Hcl Hrows Hph Hx' Hy)|].
  unfold want. destruct (Z.leb_spec ph y); [|rewrite andb_false_r; reflexivity].
  assert (Hin : In (nth (Z.to_nat (y - ph)) rows dflt) rows) by (apply nth_In; unfold zlen in Hrows; lia).
  pose proof (Hsrc _ Hin) as Hr.
  unfold crow. destruct (Z.leb_spec w (zlen (src (nth (Z.to_nat (y - ph)) rows dflt)))); [|lia].
  rewrite index_canvas_row by (try lia; apply zlen_firstn_le; lia).
  destruct (Z.leb_spec pw x); cbn [andb].
  - destruct (Z.ltb_spec x (pw + w)); [|lia].
    rewrite index_nth by (rewrite zlen_firstn_le by lia; lia). f_equal. apply nth_firstn_lt. lia.
  - reflexivity.
Qed.

Theorem bmp8_compressed_reader bw bh pw ph rows pname pdata pal :
  let w := bw - pw in let W := w + w mod 2 in let enc := concat (map enc_toks rows) in
  0 <= pw -> 0 < w -> 0 <= ph -> zlen rows = bh - ph -> Forall (wf_row W) rows ->
  bw < 2 ^ 31 -> bh < 2 ^ 31 -> bw * bh + 1078 < 2 ^ 31 -> pal_ok 8 256 pname pdata pal ->
  zlen enc <> W * (bh - ph) ->
  exists bmp, decode8 enc bw bh pw ph pname pdata = Ok bmp /\
    forall x y, 0 <= x < bw -> 0 <= y < bh -> bmp_read bmp x y = Some (want dec_toks [] rows pw ph w x y).
Proof.
  intros w W enc Hpw Hw Hph Hrows Hwf Hbw Hbh Hsz Hpal Hne.
  pose proof (zlen_nonneg rows) as Hrn.
  eexists. split.
  - apply (parts8_file enc bw bh pw ph pname pdata pal); try assumption; try lia.
    cbv zeta. fold w. fold W. destruct (Z.eqb_spec (zlen enc) (W * (bh - ph))); [contradiction|].
    apply (compressed8_pixels bw bh pw ph rows); assumption.
  - intros x y Hx Hy. destruct Hpal as [_ Hpl].
    change 1078 with (54 + 256 * 4) at 2. rewrite <- Hpl.
    apply (read_canvas dec_toks [] rows bw bh pw ph); try assumption; try lia.
    intros r Hin. rewrite Forall_forall in Hwf. destruct (Hwf r Hin) as (_ & _ & Hl). fold w. rewrite Hl.
    unfold W. pose proof (Z.mod_pos_bound w 2 ltac:(lia)). lia.
Qed.

Theorem bmp8_raw_reader bw bh pw ph rows pname pdata pal :
  let w := bw - pw in let W := w + w mod 2 in
  0 <= pw -> 0 < w -> 0 <= ph -> zlen rows = bh - ph -> Forall (fun r => zlen r = W) rows ->
  bw < 2 ^ 31 -> bh < 2 ^ 31 -> bw * bh + 1078 < 2 ^ 31 -> pal_ok 8 256 pname pdata pal ->
  exists bmp, decode8 (concat rows) bw bh pw ph pname pdata = Ok bmp /\
    forall x y, 0 <= x < bw -> 0 <= y < bh -> bmp_read bmp x y = Some (want (fun r => r) [] rows pw ph w x y).
Proof.
  intros w W Hpw Hw Hph Hrows Hall Hbw Hbh Hsz Hpal.
  pose proof (zlen_nonneg rows) as Hrn.
  assert (HW : w <= W <= w + 1) by (unfold W; pose proof (Z.mod_pos_bound w 2 ltac:(lia)); lia).
  eexists. split.
  - apply (parts8_file (concat rows) bw bh pw ph pname pdata pal); try assumption; try lia.
    cbv zeta. fold w. fold W. rewrite (zlen_concat_rows W rows Hall), Hrows, Z.eqb_refl.
    apply (raw8_pixels bw bh pw ph W rows); try assumption; lia.
  - intros x y Hx Hy. destruct Hpal as [_ Hpl].
    change 1078 with (54 + 256 * 4) at 2. rewrite <- Hpl.
    rewrite <- (app_nil_r (zerosZ (stride4 bw * ph))).
    apply (read_canvas (fun r : list byte => r) [] rows bw bh pw ph); try assumption; try lia.
    intros r Hin. rewrite Forall_forall in Hall. fold w. rewrite (Hall r Hin). lia.
Qed.

(* ---------- the whole file of a 1-bit image (written with one byte per pixel and a 2-colour table) ---------- *)
Definition w_size1 (w : Z) : Z :=
  let s := Z.quot w 8 in let s := if w mod 8 >? 0 then s + 1 else s in s + s mod 2.
Lemma w_size1_ge w : 0 < w -> (w + 7) / 8 <= w_size1 w.
Proof.
  intros Hw. unfold w_size1. rewrite Z.quot_div_nonneg by lia.
  pose proof (Z.div_mod w 8 ltac:(lia)) as Hd. pose proof (Z.mod_pos_bound w 8 ltac:(lia)) as Hm.
  set (s := if w mod 8 >? 0 then w / 8 + 1 else w / 8).
  assert (Hs : (w + 7) / 8 = s).
  { unfold s. destruct (Z.gtb_spec (w mod 8) 0).
    - symmetry. apply (Z.div_unique _ _ _ (w mod 8 - 1)); lia.
    - symmetry. apply (Z.div_unique _ _ _ 7); lia. }
  rewrite Hs. pose proof (Z.mod_pos_bound s 2 ltac:(lia)). lia.
Qed.

Lemma parts1_file f bw bh pw ph pname pdata pal data :
  0 <= ph -> 0 <= bw < 2 ^ 31 -> 0 <= bh < 2 ^ 31 -> bw * bh + 62 < 2 ^ 31 ->
  pal_ok 1 2 pname pdata pal ->
  (if zlen f =? w_size1 (bw - pw) * (bh - ph) then decode_raw1 f bw bh pw ph (stride4 bw) (w_size1 (bw - pw))
   else decode_compressed1 f bw bh pw ph (stride4 bw)) = Ok data ->
  decode1 f bw bh pw ph pname pdata = Ok (bmp_header (bw * bh + 62) 62 ++ bmp_info_header bw bh 8 2 ++ pal ++ data).
Proof.
  intros Hph Hbw Hbh Hsz [Hpal _] Hdata. unfold decode1, parts1.
  destruct (Z.ltb_spec ph 0); [lia|].
  change (2 * 4 + 40 + 14) with 62. cbv zeta. fold (w_size1 (bw - pw)).
  unfold hdr_parts, info_part. cbn [app collect_parts].
  assert (F1 : fits_i32 (bw * bh + 62) = true) by (unfold fits_i32; apply andb_true_intro; split; [apply Z.leb_le | apply Z.ltb_lt]; nia).
  assert (F2 : fits_i32 bw = true) by (unfold fits_i32; apply andb_true_intro; split; [apply Z.leb_le | apply Z.ltb_lt]; lia).
  assert (F3 : fits_i32 bh = true) by (unfold fits_i32; apply andb_true_intro; split; [apply Z.leb_le | apply Z.ltb_lt]; lia).
  replace (bw * bh + 2 * 4 + 40 + 14) with (bw * bh + 62) by lia.
  rewrite F1, F2, F3. change (fits_i32 62) with true. cbn [andb bind].
  rewrite Hpal. cbn [bind]. rewrite Hdata. cbn [bind].
  unfold bmp_header. rewrite app_nil_r. repeat rewrite <- app_assoc. reflexivity.
Qed.

Theorem bmp1_compressed_reader bw bh pw ph rows pname pdata pal :
  let w := bw - pw in let W := width16 w in let enc := concat (map enc_toks rows) in
  0 <= pw -> 0 < w -> 0 <= ph -> zlen rows = bh - ph -> Forall (wf_row (W / 8)) rows ->
  bw < 2 ^ 31 -> bh < 2 ^ 31 -> bw * bh + 62 < 2 ^ 31 -> pal_ok 1 2 pname pdata pal ->
  zlen enc <> w_size1 w * (bh - ph) ->
  exists bmp, decode1 enc bw bh pw ph pname pdata = Ok bmp /\
    forall x y, 0 <= x < bw -> 0 <= y < bh ->
    bmp_read bmp x y = Some (want (fun ts => bits_of (dec_toks ts)) [] rows pw ph w x y).
Proof.
  intros w W enc Hpw Hw Hph Hrows Hwf Hbw Hbh Hsz Hpal Hne.
  pose proof (zlen_nonneg rows) as Hrn.
  pose proof (width16_spec w ltac:(lia)) as [H16 HWr]. fold W in H16, HWr.
  pose proof (width16_bytes w ltac:(lia)) as HW8. fold W in HW8.
  eexists. split.
  - apply (parts1_file enc bw bh pw ph pname pdata pal); try assumption; try lia.
    fold w. destruct (Z.eqb_spec (zlen enc) (w_size1 w * (bh - ph))); [contradiction|].
    apply (compressed1_pixels bw bh pw ph rows); assumption.
  - intros x y Hx Hy. destruct Hpal as [_ Hpl].
    change 62 with (54 + 2 * 4) at 2. rewrite <- Hpl.
    rewrite <- (app_nil_r (zerosZ (stride4 bw * ph))).
    apply (read_canvas (fun ts => bits_of (dec_toks ts)) [] rows bw bh pw ph); try assumption; try lia.
    intros r Hin. rewrite Forall_forall in Hwf. destruct (Hwf r Hin) as (_ & _ & Hl). fold w. rewrite zlen_bits_of, Hl. lia.
Qed.

Theorem bmp1_raw_reader bw bh pw ph rows pname pdata pal :
  let w := bw - pw in let W := w_size1 w in
  0 <= pw -> 0 < w -> 0 <= ph -> zlen rows = bh - ph -> Forall (fun r => zlen r = W) rows ->
  bw < 2 ^ 31 -> bh < 2 ^ 31 -> bw * bh + 62 < 2 ^ 31 -> pal_ok 1 2 pname pdata pal ->
  exists bmp, decode1 (concat rows) bw bh pw ph pname pdata = Ok bmp /\
    forall x y, 0 <= x < bw -> 0 <= y < bh -> bmp_read bmp x y = Some (want bits_of [] rows pw ph w x y).
Proof.
  intros w W Hpw Hw Hph Hrows Hall Hbw Hbh Hsz Hpal.
  pose proof (zlen_nonneg rows) as Hrn.
  pose proof (w_size1_ge w Hw) as HW. fold W in HW.
  assert (Hnb : w <= 8 * W).
  { pose proof (Z.div_mod (w + 7) 8 ltac:(lia)). pose proof (Z.mod_pos_bound (w + 7) 8 ltac:(lia)). lia. }
  eexists. split.
  - apply (parts1_file (concat rows) bw bh pw ph pname pdata pal); try assumption; try lia.
    fold w. fold W. rewrite (zlen_concat_rows W rows Hall), Hrows, Z.eqb_refl.
    apply (raw1_pixels bw bh pw ph W rows); try assumption.
  - intros x y Hx Hy. destruct Hpal as [_ Hpl].
    change 62 with (54 + 2 * 4) at 2. rewrite <- Hpl.
    rewrite <- (app_nil_r (zerosZ (stride4 bw * ph))).
    apply (read_canvas bits_of [] rows bw bh pw ph); try assumption; try lia.
    intros r Hin. rewrite Forall_forall in Hall. fold w. rewrite zlen_bits_of, (Hall r Hin). lia.
Qed.
