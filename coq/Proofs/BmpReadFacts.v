(* C06, reader level: what a standard BMP reader sees in the file the 8-bit and 1-bit decoders produce
   (both write 8 bits per pixel).  The reader takes the pixel-array offset from the file header (offset 10), width,
   height and bits per pixel from the info header (18, 22, 28), computes the 4-byte aligned stride and reads rows
   bottom-up. *)
From Coq Require Import List ZArith Bool Lia.
From Coq.Strings Require Import Byte.
From DRX Require Import Py.PyBytes Proofs.PyBytesFacts Model.Riff Model.Clut Model.Bitd Proofs.BitdFacts Proofs.BitdRawFacts Proofs.Bitd1Facts.
Import ListNotations.
Open Scope Z_scope.

Definition bmp_read (bmp : bytes) (x y : Z) : option byte :=
  match unpack_u 4 Little (slice bmp 10 14), unpack_s 4 Little (slice bmp 18 22),
        unpack_s 4 Little (slice bmp 22 26), unpack_u 2 Little (slice bmp 28 30) with
  | Some off, Some w, Some h, Some bpp =>
    if (0 <=? x) && (x <? w) && (0 <=? y) && (y <? h) && (bpp =? 8) then
      let stride := ((w * bpp + 31) / 32) * 4 in
      index bmp (off + (h - 1 - y) * stride + x)
    else None
  | _, _, _, _ => None
  end.

(* ---------- the stride formula of the reader is the decoder's ---------- *)
Lemma reader_stride w : 0 <= w -> ((w * 8 + 31) / 32) * 4 = stride4 w.
Proof.
  intros Hw. unfold stride4.
  pose proof (Z.div_mod w 4 ltac:(lia)) as Hd. pose proof (Z.mod_pos_bound w 4 ltac:(lia)) as Hm.
  assert (E : (w * 8 + 31) / 32 = w / 4 + (if w mod 4 >? 0 then 1 else 0)).
  { destruct (Z.gtb_spec (w mod 4) 0).
    - symmetry. apply (Z.div_unique _ _ _ (8 * (w mod 4) - 1)); lia.
    - symmetry. apply (Z.div_unique _ _ _ 31); lia. }
  rewrite E. destruct (Z.gtb_spec (w mod 4) 0); lia.
Qed.

(* ---------- indexing ---------- *)
Lemma index_app_r {A} (p d : list A) i : 0 <= i -> index (p ++ d) (zlen p + i) = index d i.
Proof.
  intros Hi. unfold index. rewrite zlen_app. pose proof (zlen_nonneg p). pose proof (zlen_nonneg d).
  destruct (Z.ltb_spec (zlen p + i) 0); [lia|]. destruct (Z.ltb_spec i 0); [lia|].
  destruct (Z.ltb_spec (zlen p + i) 0); [lia|]. destruct (Z.ltb_spec i 0); [lia|].
  destruct (Z.leb_spec (zlen p + zlen d) (zlen p + i)); destruct (Z.leb_spec (zlen d) i); try lia; cbn [orb]; [reflexivity|].
  rewrite nth_error_app2 by (unfold zlen in *; lia). f_equal. unfold zlen. lia.
Qed.
Lemma index_app_l {A} (p d : list A) i : 0 <= i < zlen p -> index (p ++ d) i = index p i.
Proof.
  intros Hi. unfold index. rewrite zlen_app. pose proof (zlen_nonneg d).
  destruct (Z.ltb_spec i 0); [lia|]. destruct (Z.ltb_spec i 0); [lia|].
  destruct (Z.leb_spec (zlen p + zlen d) i); [lia|]. destruct (Z.leb_spec (zlen p) i); [lia|]. cbn [orb].
  apply nth_error_app1. unfold zlen in *. lia.
Qed.
Lemma index_zerosZ n i : 0 <= i < n -> index (zerosZ n) i = Some x00.
Proof.
  intros Hi. unfold index. rewrite zlen_zerosZ by lia.
  destruct (Z.ltb_spec i 0); [lia|]. destruct (Z.ltb_spec i 0); [lia|]. destruct (Z.leb_spec n i); [lia|]. cbn [orb].
  unfold zerosZ, zeros. apply nth_error_repeat. lia.
Qed.
Lemma index_nth (l : bytes) i : 0 <= i < zlen l -> index l i = Some (nth (Z.to_nat i) l x00).
Proof.
  intros Hi. unfold index. destruct (Z.ltb_spec i 0); [lia|]. destruct (Z.ltb_spec i 0); [lia|]. destruct (Z.leb_spec (zlen l) i); [lia|]. cbn [orb].
  apply nth_error_nth'. unfold zlen in Hi. lia.
Qed.

(* a pixel array of equally long rows *)
Lemma index_rows width (L : list bytes) : forall T k x,
  Forall (fun r => zlen r = width) L -> 0 <= k < zlen L -> 0 <= x < width ->
  index (concat L ++ T) (k * width + x) = index (nth (Z.to_nat k) L []) x.
Proof.
  induction L as [|r L IH]; intros T k x Hall Hk Hx.
  - change (zlen (@nil bytes)) with 0 in Hk. lia.
  - pose proof (Forall_inv Hall) as Hr. pose proof (Forall_inv_tail Hall) as HL. rewrite zlen_cons in Hk.
    cbn [concat]. rewrite <- app_assoc.
    destruct (Z.eq_dec k 0) as [->|Hk0].
    + cbn [Z.to_nat nth]. rewrite Z.mul_0_l, Z.add_0_l. apply index_app_l. lia.
    + replace (k * width + x) with (zlen r + ((k - 1) * width + x)) by lia.
      rewrite index_app_r by nia. rewrite (IH T (k - 1) x HL ltac:(lia) Hx).
      replace (Z.to_nat k) with (S (Z.to_nat (k - 1))) by lia. reflexivity.
Qed.
Lemma index_rows_top width (L : list bytes) n k x :
  Forall (fun r => zlen r = width) L -> zlen L <= k < zlen L + n -> 0 <= x < width ->
  index (concat L ++ zerosZ (width * n)) (k * width + x) = Some x00.
Proof.
  intros Hall Hk Hx. pose proof (zlen_concat_rows width L Hall) as Hc. pose proof (zlen_nonneg L).
  replace (k * width + x) with (zlen (concat L) + ((k - zlen L) * width + x)) by lia.
  rewrite index_app_r by nia. apply index_zerosZ. nia.
Qed.

Lemma index_canvas_row pw W width r x : 0 <= pw -> zlen r = W -> pw + W <= width -> 0 <= x < width ->
  index (canvas_row pw W width r) x = if (pw <=? x) && (x <? pw + W) then index r (x - pw) else Some x00.
Proof.
  intros Hpw Hr Hfit Hx. unfold canvas_row. pose proof (zlen_nonneg r).
  destruct (Z.leb_spec pw x); cbn [andb].
  - replace x with (zlen (zerosZ pw) + (x - pw)) at 1 by (rewrite zlen_zerosZ; lia).
    rewrite index_app_r by lia.
    destruct (Z.ltb_spec x (pw + W)).
    + apply index_app_l. lia.
    + replace (x - pw) with (zlen r + (x - pw - W)) by lia. rewrite index_app_r by lia. apply index_zerosZ. lia.
  - rewrite index_app_l by (rewrite zlen_zerosZ; lia). apply index_zerosZ. lia.
Qed.

(* ---------- the file: headers, colour table, pixel array ---------- *)
Lemma bmp_fields size off w h nc pal data :
  let bmp := bmp_header size off ++ bmp_info_header w h 8 nc ++ pal ++ data in
  0 <= off < 2 ^ 32 -> - 2 ^ 31 <= w < 2 ^ 31 -> - 2 ^ 31 <= h < 2 ^ 31 ->
  unpack_u 4 Little (slice bmp 10 14) = Some off /\ unpack_s 4 Little (slice bmp 18 22) = Some w /\
  unpack_s 4 Little (slice bmp 22 26) = Some h /\ unpack_u 2 Little (slice bmp 28 30) = Some 8.
Proof.
  intros bmp Hoff Hw Hh.
  destruct (bmp_header_fields size off (bmp_info_header w h 8 nc ++ pal ++ data)) as [_ F1].
  assert (Hpre : zlen (bmp_header size off) = 14) by (unfold bmp_header; rewrite !zlen_app, !zlen_pack; reflexivity).
  destruct (bmp_info_fields w h 8 nc (bmp_header size off) (pal ++ data) Hpre) as (F2 & F3 & F4).
  unfold bmp. repeat split.
  - rewrite F1. apply unpack_u_pack. change (256 ^ Z.of_nat 4) with (2 ^ 32). lia.
  - rewrite F2. apply unpack_s_pack; [lia|]. change (8 * Z.of_nat 4 - 1) with 31. lia.
  - rewrite F3. apply unpack_s_pack; [lia|]. change (8 * Z.of_nat 4 - 1) with 31. lia.
  - rewrite F4. apply unpack_u_pack. change (256 ^ Z.of_nat 2) with 65536. lia.
Qed.

Theorem bmp_read_data size w h nc pal data x y :
  let off := 54 + zlen pal in
  off < 2 ^ 32 -> 0 <= w < 2 ^ 31 -> 0 <= h < 2 ^ 31 -> 0 <= x < w -> 0 <= y < h ->
  bmp_read (bmp_header size off ++ bmp_info_header w h 8 nc ++ pal ++ data) x y = index data ((h - 1 - y) * stride4 w + x).
Proof.
  intros off Hoff Hw Hh Hx Hy. pose proof (zlen_nonneg pal) as Hp.
  destruct (bmp_fields size off w h nc pal data ltac:(unfold off; lia) ltac:(lia) ltac:(lia)) as (F1 & F2 & F3 & F4).
  unfold bmp_read. rewrite F1, F2, F3, F4.
  destruct (Z.leb_spec 0 x); [|lia]. destruct (Z.ltb_spec x w); [|lia]. destruct (Z.leb_spec 0 y); [|lia]. destruct (Z.ltb_spec y h); [|lia].
  cbn [andb Z.eqb Pos.eqb]. cbv zeta. rewrite reader_stride by lia.
  pose proof (stride4_spec w ltac:(lia)) as [_ Hs].
  replace (bmp_header size off ++ bmp_info_header w h 8 nc ++ pal ++ data)
    with ((bmp_header size off ++ bmp_info_header w h 8 nc ++ pal) ++ data) by (repeat rewrite <- app_assoc; reflexivity).
  assert (Hl : zlen (bmp_header size off ++ bmp_info_header w h 8 nc ++ pal) = off).
  { unfold bmp_header, bmp_info_header, off. rewrite !zlen_app, !zlen_pack. change (zlen ["B"%byte; "M"%byte]) with 2. lia. }
  replace (off + (h - 1 - y) * stride4 w + x) with (zlen (bmp_header size off ++ bmp_info_header w h 8 nc ++ pal) + ((h - 1 - y) * stride4 w + x)) by lia.
  apply index_app_r. nia.
Qed.

(* ---------- pixels of a canvas built from stored rows ---------- *)
(* rows: the stored rows top-down (the decoder's input order), crow: the canvas row of a stored row *)
Lemma canvas_pixel {R} (crow : R -> bytes) (dflt : R) width (rows : list R) bh ph x y :
  (forall r, zlen (crow r) = width) -> zlen rows = bh - ph -> 0 <= ph -> 0 <= x < width -> 0 <= y < bh ->
  index (concat (map crow (rev rows)) ++ zerosZ (width * ph)) ((bh - 1 - y) * width + x)
  = if ph <=? y then index (crow (nth (Z.to_nat (y - ph)) rows dflt)) x else Some x00.
Proof.
  intros Hc Hrows Hph Hx Hy. pose proof (zlen_nonneg rows) as Hn.
  assert (Hall : Forall (fun r => zlen r = width) (map crow (rev rows))).
  { apply Forall_forall. intros r Hin. apply in_map_iff in Hin. destruct Hin as (r0 & <- & _). apply Hc. }
  assert (Hlen : zlen (map crow (rev rows)) = zlen rows) by (unfold zlen; rewrite map_length, rev_length; reflexivity).
  destruct (Z.leb_spec ph y).
  - rewrite index_rows by (try assumption; lia).
    assert (Hk : (Z.to_nat (bh - 1 - y) < length (rev rows))%nat) by (rewrite rev_length; unfold zlen in Hrows; lia).
    rewrite (nth_indep _ [] (crow dflt)) by (rewrite map_length; exact Hk).
    rewrite map_nth. rewrite rev_nth by (unfold zlen in Hrows; lia).
    f_equal. f_equal. f_equal. unfold zlen in Hrows. lia.
  - apply index_rows_top; try assumption. lia.
Qed.

(* ---------- the whole file of an 8-bit image ---------- *)
Definition pal_ok (nbits ncolors : Z) (pname pdata pal : bytes) : Prop :=
  write_color_palette nbits ncolors pname pdata = Ok pal /\ zlen pal = ncolors * 4.

Lemma parts8_file f bw bh pw ph pname pdata pal data :
  0 <= ph -> 0 <= bw < 2 ^ 31 -> 0 <= bh < 2 ^ 31 -> bw * bh + 1078 < 2 ^ 31 ->
  pal_ok 8 256 pname pdata pal ->
  (let w := bw - pw in let W := w + w mod 2 in
   (if zlen f =? W * (bh - ph) then decode_raw8 f bw bh pw ph (stride4 bw) W else decode_compressed8 f bw bh pw ph (stride4 bw)) = Ok data) ->
  decode8 f bw bh pw ph pname pdata = Ok (bmp_header (bw * bh + 1078) 1078 ++ bmp_info_header bw bh 8 256 ++ pal ++ data).
Proof.
  intros Hph Hbw Hbh Hsz [Hpal _] Hdata. unfold decode8, parts8.
  destruct (Z.ltb_spec ph 0); [lia|].
  change (256 * 4 + 40 + 14) with 1078. cbv zeta in Hdata.
  unfold hdr_parts, info_part. cbn [app collect_parts].
  assert (F1 : fits_i32 (bw * bh + 1078) = true) by (unfold fits_i32; apply andb_true_intro; split; [apply Z.leb_le | apply Z.ltb_lt]; nia).
  assert (F2 : fits_i32 bw = true) by (unfold fits_i32; apply andb_true_intro; split; [apply Z.leb_le | apply Z.ltb_lt]; lia).
  assert (F3 : fits_i32 bh = true) by (unfold fits_i32; apply andb_true_intro; split; [apply Z.leb_le | apply Z.ltb_lt]; lia).
  rewrite F1, F2, F3. change (fits_i32 1078) with true. cbn [andb bind].
  rewrite Hpal. cbn [bind]. rewrite Hdata. cbn [bind].
  unfold bmp_header. rewrite app_nil_r. repeat rewrite <- app_assoc. reflexivity.
Qed.

(* the pixel the property demands at canvas position (x, y), y counted from the top: the source pixel inside the
   image area, background (index 0) elsewhere; src gives the source row (at least w pixels) *)
Definition want {R} (src : R -> bytes) (dflt : R) (rows : list R) (pw ph w x y : Z) : byte :=
  if (pw <=? x) && (x <? pw + w) && (ph <=? y) then nth (Z.to_nat (x - pw)) (src (nth (Z.to_nat (y - ph)) rows dflt)) x00 else x00.

Theorem bmp8_compressed_reader bw bh pw ph rows pname pdata pal :
  let w := bw - pw in let W := w + w mod 2 in let enc := concat (map enc_toks rows) in
  0 <= pw -> 0 < w -> 0 <= ph -> zlen rows = bh - ph -> pw + W <= stride4 bw -> Forall (wf_row W) rows ->
  bw < 2 ^ 31 -> bh < 2 ^ 31 -> bw * bh + 1078 < 2 ^ 31 -> pal_ok 8 256 pname pdata pal ->
  zlen enc <> W * (bh - ph) ->
  exists bmp, decode8 enc bw bh pw ph pname pdata = Ok bmp /\
    forall x y, 0 <= x < bw -> 0 <= y < bh -> bmp_read bmp x y = Some (want dec_toks [] rows pw ph w x y).
Proof.
  intros w W enc Hpw Hw Hph Hrows Hfit Hwf Hbw Hbh Hsz Hpal Hne.
  pose proof (zlen_nonneg rows) as Hrn.
  eexists. split.
  - apply (parts8_file enc bw bh pw ph pname pdata pal); try assumption; try lia.
    cbv zeta. fold w. fold W. destruct (Z.eqb_spec (zlen enc) (W * (bh - ph))); [contradiction|].
    apply (compressed8_pixels bw bh pw ph rows); assumption.
  - intros x y Hx Hy. destruct Hpal as [_ Hpl].
    change 1078 with (54 + 256 * 4) at 2. rewrite <- Hpl.
    rewrite bmp_read_data by (try lia; rewrite Hpl; lia).
    pose proof (stride4_spec bw ltac:(lia)) as [_ Hs].
    assert (HW : w <= W <= w + 1) by (unfold W; pose proof (Z.mod_pos_bound w 2 ltac:(lia)); lia).
    assert (Hcrow : forall ts, In ts rows -> zlen (dec_toks ts) = W).
    { intros ts Hin. rewrite Forall_forall in Hwf. apply (Hwf ts Hin). }
    (* canvas rows: equal length needs the row length, so go through a total version *)
    set (crow := fun ts => if zlen (dec_toks ts) =? W then canvas_row pw W (stride4 bw) (dec_toks ts) else zerosZ (stride4 bw)).
    assert (Emap : map (fun ts => canvas_row pw W (stride4 bw) (dec_toks ts)) (rev rows) = map crow (rev rows)).
    { apply map_ext_in. intros ts Hin. apply in_rev in Hin. unfold crow. rewrite (Hcrow ts Hin), Z.eqb_refl. reflexivity. }
    rewrite Emap.
    rewrite (canvas_pixel crow [] (stride4 bw) rows bh ph x y); try assumption; try lia.
    2:{ intros ts. unfold crow. destruct (Z.eqb_spec (zlen (dec_toks ts)) W); [apply zlen_canvas_row; lia | apply zlen_zerosZ; lia]. }
    unfold want. destruct (Z.leb_spec ph y); [|rewrite andb_false_r; reflexivity].
    assert (Hin : In (nth (Z.to_nat (y - ph)) rows []) rows) by (apply nth_In; unfold zlen in Hrows; lia).
    unfold crow. rewrite (Hcrow _ Hin), Z.eqb_refl.
    rewrite index_canvas_row by (try lia; apply Hcrow; exact Hin).
    destruct (Z.leb_spec pw x); cbn [andb].
    + destruct (Z.ltb_spec x (pw + W)); [|lia]. destruct (Z.ltb_spec x (pw + w)); [|lia].
      apply index_nth. rewrite (Hcrow _ Hin). lia.
    + reflexivity.
Qed.

Theorem bmp8_raw_reader bw bh pw ph rows pname pdata pal :
  let w := bw - pw in let W := w + w mod 2 in
  0 <= pw -> 0 < w -> 0 <= ph -> zlen rows = bh - ph -> Forall (fun r => zlen r = W) rows ->
  bw < 2 ^ 31 -> bh < 2 ^ 31 -> bw * bh + 1078 < 2 ^ 31 -> pal_ok 8 256 pname pdata pal ->
  exists bmp, decode8 (concat rows) bw bh pw ph pname pdata = Ok bmp /\
    forall x y, 0 <= x < bw -> 0 <= y < bh -> bmp_read bmp x y = Some (want (fun r => r) [] rows pw ph w x y).
Proof.
  intros w W Hpw Hw Hph Hrows Hall Hbw Hbh Hsz Hpal.
  pose proof (zlen_nonneg rows) as Hrn.
  assert (HW : w <= W <= w + 1) by (unfold W; pose proof (Z.mod_pos_bound w 2 ltac:(lia)); lia).
  eexists. split.
  - apply (parts8_file (concat rows) bw bh pw ph pname pdata pal); try assumption; try lia.
    cbv zeta. fold w. fold W. rewrite (zlen_concat_rows W rows Hall), Hrows, Z.eqb_refl.
    apply (raw8_pixels bw bh pw ph W rows); try assumption; lia.
  - intros x y Hx Hy. destruct Hpal as [_ Hpl].
    change 1078 with (54 + 256 * 4) at 2. rewrite <- Hpl.
    rewrite bmp_read_data by (try lia; rewrite Hpl; lia).
    pose proof (stride4_spec bw ltac:(lia)) as [_ Hs].
    set (crow := fun r : bytes => if zlen r =? W then raw_canvas8 pw w (stride4 bw) r else zerosZ (stride4 bw)).
    assert (Emap : map (raw_canvas8 pw w (stride4 bw)) (rev rows) = map crow (rev rows)).
    { apply map_ext_in. intros r Hin. apply in_rev in Hin. unfold crow. rewrite Forall_forall in Hall. rewrite (Hall r Hin), Z.eqb_refl. reflexivity. }
    rewrite Emap.
    rewrite (canvas_pixel crow [] (stride4 bw) rows bh ph x y); try assumption; try lia.
    2:{ intros r. unfold crow. destruct (Z.eqb_spec (zlen r) W); [|apply zlen_zerosZ; lia].
        unfold raw_canvas8. apply zlen_canvas_row; try lia. apply zlen_firstn_le. lia. }
    unfold want. destruct (Z.leb_spec ph y); [|rewrite andb_false_r; reflexivity].
    assert (Hin : In (nth (Z.to_nat (y - ph)) rows []) rows) by (apply nth_In; unfold zlen in Hrows; lia).
    rewrite Forall_forall in Hall. pose proof (Hall _ Hin) as Hr.
    unfold crow. rewrite Hr, Z.eqb_refl. unfold raw_canvas8.
    rewrite index_canvas_row by (try lia; apply zlen_firstn_le; lia).
    destruct (Z.leb_spec pw x); cbn [andb].
    + destruct (Z.ltb_spec x (pw + w)); [|lia].
      rewrite index_nth by (rewrite zlen_firstn_le by lia; lia). f_equal.
      rewrite <- (firstn_skipn (Z.to_nat w) (nth (Z.to_nat (y - ph)) rows [])) at 2.
      rewrite app_nth1; [reflexivity|]. rewrite firstn_length. unfold zlen in Hr. lia.
    + reflexivity.
Qed.
