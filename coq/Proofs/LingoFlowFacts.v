(* C03: bounded characterisation of the control-flow reconstruction, by computation in the kernel over the
   faithful model (JumpOpcode, condition_detect, break_detect, loop_detect).  The bounds are part of the
   statements. *)
From Coq Require Import ZArith List Bool String.
From DRX Require Import Model.LingoAst Spec.SpecFlow.
Import ListNotations.

Definition safe_ok (l : list sk) : bool := bad l || reconstructed l.

Lemma pattern_free_22 : forallb safe_ok (skeletons 2 2) = true.
Proof. vm_compute. reflexivity. Qed.
Lemma pattern_free_41 : forallb safe_ok (skeletons 4 1) = true.
Proof. vm_compute. reflexivity. Qed.

Lemma safe_ok_spec l : safe_ok l = true -> bad l = false -> reconstructed l = true.
Proof. unfold safe_ok. intros H Hb. rewrite Hb in H. exact H. Qed.

Theorem pattern_free_reconstructed :
  forall l, In l (skeletons 2 2 ++ skeletons 4 1) -> bad l = false -> reconstructed l = true.
Proof.
  intros l Hin. apply safe_ok_spec. apply in_app_or in Hin. destruct Hin as [H|H].
  - exact (proj1 (forallb_forall safe_ok _) pattern_free_22 l H).
  - exact (proj1 (forallb_forall safe_ok _) pattern_free_41 l H).
Qed.

(* every construct on its own, and every nesting of two, is in the enumeration *)
Example enumeration_sizes : List.length (skeletons 2 2) = 4430%nat /\ List.length (skeletons 4 1) = 5893%nat.
Proof. vm_compute. split; reflexivity. Qed.

(* the four open findings: smallest witnesses on which the reconstruction fails *)
Example P1_refuted : reconstructed [SWhile 1 [SS 1; SX]] = false.
Proof. vm_compute. reflexivity. Qed.
Example P2_refuted : reconstructed [SWhile 1 [SIfE 2 [SS 1] [SX]]] = false.
Proof. vm_compute. reflexivity. Qed.
Example P3_refuted : reconstructed [SWhile 1 [SIf 2 [SX; SS 1; SS 2]]] = false.
Proof. vm_compute. reflexivity. Qed.
Example P4_refuted : reconstructed [SWhile 1 [SIf 2 [SX]; SIf 3 [SS 1]]] = false.
Proof. vm_compute. reflexivity. Qed.
(* and the form that does work: exit repeat as the last statement of a then-branch, followed by a loop *)
Example exit_if_then_loop : reconstructed [SWhile 1 [SIf 2 [SS 1; SX]; SWith 2 [SS 2]]] = true.
Proof. vm_compute. reflexivity. Qed.
