(* C03: bounded, exhaustive part of the control-flow reconstruction, by computation in the kernel over the
   faithful model (JumpOpcode, condition_detect with its exit-jump conversion, break_detect, loop_detect).  The
   bounds are part of the statements.  Since the repair ca070ba of /repo (exit repeat recognised wherever it
   stands) the statement is unconditional: every skeleton of the enumeration is reconstructed exactly, the four
   former refutation witnesses included. *)
From Coq Require Import ZArith List Bool String.
From DRX Require Import Model.LingoAst Spec.SpecFlow.
Import ListNotations.

Lemma all_22 : forallb reconstructed (skeletons 2 2) = true.
Proof. vm_compute. reflexivity. Qed.
Lemma all_41 : forallb reconstructed (skeletons 4 1) = true.
Proof. vm_compute. reflexivity. Qed.

Theorem all_reconstructed :
  forall l, In l (skeletons 2 2 ++ skeletons 4 1) -> reconstructed l = true.
Proof.
  intros l Hin. apply in_app_or in Hin. destruct Hin as [H|H].
  - exact (proj1 (forallb_forall reconstructed _) all_22 l H).
  - exact (proj1 (forallb_forall reconstructed _) all_41 l H).
Qed.

(* every construct on its own, and every nesting of two, is in the enumeration *)
Example enumeration_sizes : List.length (skeletons 2 2) = 4430%nat /\ List.length (skeletons 4 1) = 5893%nat.
Proof. vm_compute. split; reflexivity. Qed.

(* how many of them contain one of the four exit-repeat patterns that were decompiled wrongly before the repair
   (non-vacuity of the claim that the repair matters), and the four smallest witnesses *)
Example formerly_bad : (List.length (filter bad (skeletons 2 2)) =? 0)%nat = false /\ (List.length (filter bad (skeletons 4 1)) =? 0)%nat = false.
Proof. vm_compute. split; reflexivity. Qed.
Example P1_now : reconstructed [SWhile 1 [SS 1; SX]] = true.
Proof. vm_compute. reflexivity. Qed.
Example P2_now : reconstructed [SWhile 1 [SIfE 2 [SS 1] [SX]]] = true.
Proof. vm_compute. reflexivity. Qed.
Example P3_now : reconstructed [SWhile 1 [SIf 2 [SX; SS 1; SS 2]]] = true.
Proof. vm_compute. reflexivity. Qed.
Example P4_now : reconstructed [SWhile 1 [SIf 2 [SX]; SIf 3 [SS 1]]] = true.
Proof. vm_compute. reflexivity. Qed.
Example exit_if_then_loop : reconstructed [SWhile 1 [SIf 2 [SS 1; SX]; SWith 2 [SS 2]]] = true.
Proof. vm_compute. reflexivity. Qed.
