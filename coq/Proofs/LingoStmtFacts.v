(* C02, statements: a straight-line handler (assignments to every variable kind, statement-position calls)
   decompiles to exactly the reified statement list; the control-flow passes leave it untouched. *)
From Coq Require Import ZArith List Bool String Lia ZifyBool.
From Coq.Strings Require Import Byte.
From DRX Require Import Py.PyBytes Py.PyStr Py.PyString Model.LingoAst Model.LingoGen Model.LingoOps Model.LingoLoop
  Spec.SpecLingo Gen.Gen_Lingo Proofs.PyBytesFacts Proofs.LingoExecFacts.
Import ListNotations.
Open Scope string_scope.
Open Scope list_scope.
Open Scope Z_scope.
Local Notation length := List.length (only parsing).
Ltac Zify.zify_post_hook ::= Z.to_euclidean_division_equations.

(* statement-position argument list *)
Lemma exec_arglist_stmt d off len a0 fuel r m ns st n :
  code_at d a0 (compile_arglist n false) -> n = length ns -> Z.of_nat n < 65536 -> m_stack m = rev ns ++ st ->
  off <= a0 -> a0 + arglist_len n <= off + len ->
  exists r', run_ops (S fuel) d off len a0 r m
             = run_ops fuel d off len (a0 + arglist_len n) r' (with_stack m (LoadList "load_list" a0 (rev ns) :: st)).
Proof.
  intros Hc Hn H64 Hst Hoff Hlen. unfold compile_arglist, arglist_len in *.
  assert (Hrl : length (rev ns) = n) by (rewrite rev_length; auto).
  destruct (Z.of_nat n <? 256) eqn:E.
  - assert (Hs : exists r', step d a0 r m = Ok (a0 + 2, r', with_stack m (LoadList "load_list" a0 (rev ns) :: st))).
    { apply (step_2 d a0 r m (b 66) (b (Z.of_nat n)) "LoadListOpcode" "load_list" (OLoadList "load_list")
                    (with_stack m (LoadList "load_list" a0 (rev ns) :: st)) Hc); [vm_compute; reflexivity | reflexivity |].
      intros p2. cbn [process]. rewrite u8_b by lia. rewrite Nat2Z.id. rewrite <- Hrl.
      rewrite (popn_app (rev ns) m st Hst). cbn [bind]. reflexivity. }
    destruct Hs as [r' Hs]. exists r'. erewrite run_ops_step; [reflexivity | lia | exact Hs].
  - assert (Hs : exists r', step d a0 r m = Ok (a0 + 3, r', with_stack m (LoadList "load_list" a0 (rev ns) :: st))).
    { apply (step_3 d a0 r m (b 130) (b (Z.of_nat n / 256)) (b (Z.of_nat n)) "LoadLongListOpcode" "load_list" (OLoadLongList "load_list")
                    (with_stack m (LoadList "load_list" a0 (rev ns) :: st)) Hc); [vm_compute; reflexivity | reflexivity |].
      cbn [process]. unfold b. rewrite !u8_byte_of_Z.
      replace ((Z.of_nat n / 256) mod 256 * 256 + Z.of_nat n mod 256) with (Z.of_nat n) by lia.
      rewrite Nat2Z.id. rewrite <- Hrl. rewrite (popn_app (rev ns) m st Hst). cbn [bind]. reflexivity. }
    destruct Hs as [r' Hs]. exists r'. erewrite run_ops_step; [reflexivity | lia | exact Hs].
Qed.

Lemma arglist_len_zlen_stmt n : zlen (compile_arglist n false) = arglist_len n.
Proof. unfold compile_arglist, arglist_len. destruct (Z.of_nat n <? 256); reflexivity. Qed.

(* the state after a statement *)
Definition after_s (en : env) (props : list string) (pc : Z) (s : stmt) (m : mstate) : mstate :=
  Build_mstate (m_stack m)
    (Build_fndef (f_name (m_fn m)) (f_pos (m_fn m)) (f_params (m_fn m)) (f_locals (m_fn m))
                 (add_globals (f_globals (m_fn m)) (globals_s en pc s))
                 (f_stmts (m_fn m) ++ [reify_s en props pc s]) (f_is_method (m_fn m)))
    (m_ctx m).

Definition agrees_p (en : env) (props : list string) (m : mstate) : Prop := agrees en m /\ c_props (m_ctx m) = props.

Lemma agrees_after_s en props pc s m : agrees_p en props m -> agrees_p en props (after_s en props pc s m).
Proof. unfold agrees_p, agrees, after_s. destruct m as [st fn c]; simpl. tauto. Qed.

Definition exec_s_spec (en : env) (props : list string) (s : stmt) : Prop :=
  forall d off len a fuel r m,
    agrees_p en props m -> m_stack m = [] -> code_at d a (compile_s s) -> off <= a -> a + zlen (compile_s s) <= off + len ->
    exists r', run_ops (ninstr_s s + fuel) d off len a r m = run_ops fuel d off len (a + zlen (compile_s s)) r' (after_s en props a s m).

Lemma after_s_stack en props pc s m : m_stack (after_s en props pc s m) = m_stack m.
Proof. reflexivity. Qed.

Lemma mstate_eq2 (m1 m2 : mstate) :
  m_stack m1 = m_stack m2 -> m_ctx m1 = m_ctx m2 -> m_fn m1 = m_fn m2 -> m1 = m2.
Proof. destruct m1, m2; simpl; intros; subst; reflexivity. Qed.

Lemma assign_global_state m st lhs r idx :
  (if mem_node lhs (f_globals (m_fn (stmt_assign (with_stack m st) idx lhs r))) then Ok (stmt_assign (with_stack m st) idx lhs r)
   else Ok (Build_mstate (m_stack (stmt_assign (with_stack m st) idx lhs r))
                         (set_globals (m_fn (stmt_assign (with_stack m st) idx lhs r))
                                      (f_globals (m_fn (stmt_assign (with_stack m st) idx lhs r)) ++ [lhs]))
                         (m_ctx (stmt_assign (with_stack m st) idx lhs r))))
  = Ok (Build_mstate st
          (Build_fndef (f_name (m_fn m)) (f_pos (m_fn m)) (f_params (m_fn m)) (f_locals (m_fn m))
                       (add_global (f_globals (m_fn m)) lhs)
                       (f_stmts (m_fn m) ++ [Stmt idx (Binary "assign" idx lhs r)]) (f_is_method (m_fn m)))
          (m_ctx m)).
Proof.
  destruct m as [st0 [? ? ? ? g ? ?] cx]. unfold add_global. cbn.
  destruct (mem_node lhs g); reflexivity.
Qed.

Lemma exec_set en props t e : wf_s en (SSet t e) -> exec_s_spec en props (SSet t e).
Proof.
  intros [Ht He] d off len a fuel r m [Hag Hpr] Hst Hc Hoff Hlen.
  cbn [compile_s ninstr_s] in *. rewrite zlen_app in *. apply code_at_app in Hc. destruct Hc as [Hce Hcs].
  pose proof (zlen_nonneg (compile_e e)).
  replace (ninstr e + 1 + fuel)%nat with (ninstr e + (1 + fuel))%nat by lia.
  assert (Hz : zlen (compile_store t) = 2) by (destruct t; reflexivity). rewrite Hz in *.
  destruct (exec_e en e He d off len a (1 + fuel)%nat r m Hag Hce ltac:(lia) ltac:(lia)) as [r1 E1]. rewrite E1.
  set (m1 := after_e en a e m). set (ps := a + zlen (compile_e e)) in *.
  pose proof (agrees_after_e en a e m Hag) as Hag1. fold m1 in Hag1.
  destruct Hag1 as (Hnm & Hlf & Hcs' & Hb & Hp & Hl & _).
  assert (Hstk : m_stack m1 = [reify_e en a e]) by (subst m1; rewrite after_e_stack, Hst; reflexivity).
  assert (Hpr1 : c_props (m_ctx m1) = props) by (subst m1; destruct m as [? ? ?]; exact Hpr).
  assert (Hs : exists r', step d ps r1 m1 = Ok (ps + 2, r', after_s en props a (SSet t e) m)).
  { destruct t as [i|i|n|n|n]; cbn [compile_store wf_target] in *; destruct Ht as [Ht1 Ht2].
    - (* local *)
      apply (step_2 d ps r1 m1 (b 82) (b (scaled i)) "AssignLocalVariableOpcode" "" OAssignLocal (after_s en props a (SSet (TLoc i) e) m) Hcs);
        [vm_compute; reflexivity | reflexivity |].
      intros p2. cbn [process]. rewrite u8_b by (pose proof (scaled_nonneg i); lia).
      assert (Hsc : scale m1 (scaled i) = (m1, Z.of_nat i)) by (unfold scaled; apply scale_six; [exact Hb | lia]). rewrite Hsc. rewrite Hl, (index_nth _ i (Leaf KLocal "" 0 true)) by exact Ht1. cbn [of_option bind].
      unfold pop. rewrite Hstk. cbn [bind]. f_equal.
      apply mstate_eq2; [exact (eq_sym Hst) | subst m1; destruct m as [? ? ?]; reflexivity |].
      unfold after_s, stmt_assign, add_stmt, with_stack. cbn [m_fn reify_s target_node globals_s]. subst m1.
      rewrite app_nil_r. destruct m as [st0 [? ? ? ? ? ? ?] cx]. reflexivity.
    - (* parameter *)
      apply (step_2 d ps r1 m1 (b 81) (b (scaled i)) "AssignParameterOpcode" "" OAssignParameter (after_s en props a (SSet (TPar i) e) m) Hcs);
        [vm_compute; reflexivity | reflexivity |].
      intros p2. cbn [process]. rewrite u8_b by (pose proof (scaled_nonneg i); lia).
      assert (Hsc : scale m1 (scaled i) = (m1, Z.of_nat i)) by (unfold scaled; apply scale_six; [exact Hb | lia]). rewrite Hsc. rewrite Hp, (index_nth _ i (Leaf KParam "" 0 true)) by exact Ht1. cbn [of_option bind].
      unfold pop. rewrite Hstk. cbn [bind]. f_equal.
      apply mstate_eq2; [exact (eq_sym Hst) | subst m1; destruct m as [? ? ?]; reflexivity |].
      unfold after_s, stmt_assign, add_stmt, with_stack. cbn [m_fn reify_s target_node globals_s]. subst m1.
      rewrite app_nil_r. destruct m as [st0 [? ? ? ? ? ? ?] cx]. reflexivity.
    - (* global *)
      apply (step_2 d ps r1 m1 (b 79) (b (Z.of_nat n)) "AssignGlobalVariableOpcode" "" OAssignGlobal (after_s en props a (SSet (TGlob n) e) m) Hcs);
        [vm_compute; reflexivity | reflexivity |].
      intros p2. cbn [process]. rewrite u8_b by lia. rewrite Hnm, nth_name_ok by exact Ht1. cbn [bind].
      unfold pop. rewrite Hstk. cbn [bind]. fold (nm en n). unfold global_of.
      rewrite (assign_global_state m1 [] (Leaf KGlobal (nm en n) ps true) (reify_e en a e) ps). f_equal.
      unfold after_s. cbn [reify_s target_node globals_s]. rewrite add_globals_app. cbn [add_globals fold_left].
      subst m1. rewrite after_e_globals.
      apply mstate_eq; cbn [m_stack m_ctx m_fn f_globals f_name f_pos f_params f_locals f_stmts f_is_method];
        try (destruct m as [? [? ? ? ? ? ? ?] ?]; reflexivity). exact (eq_sym Hst).
    - (* property *)
      apply (step_2 d ps r1 m1 (b 80) (b (Z.of_nat n)) "AssignPropertyOpcode" "" OAssignProperty (after_s en props a (SSet (TProp n) e) m) Hcs);
        [vm_compute; reflexivity | reflexivity |].
      intros p2. cbn [process]. rewrite u8_b by lia. rewrite Hnm, nth_name_ok by exact Ht1. cbn [bind].
      unfold pop. rewrite Hstk. cbn [bind]. rewrite Hpr1. fold (nm en n). f_equal.
      apply mstate_eq2; [exact (eq_sym Hst) | subst m1; destruct m as [? ? ?]; reflexivity |].
      unfold after_s, stmt_assign, add_stmt, with_stack. cbn [m_fn reify_s target_node globals_s]. subst m1.
      rewrite app_nil_r. destruct m as [st0 [? ? ? ? ? ? ?] cx]. reflexivity.
    - (* property by name: the same class under its second opcode *)
      apply (step_2 d ps r1 m1 (b 96) (b (Z.of_nat n)) "AssignPropertyOpcode" "" OAssignProperty (after_s en props a (SSet (TByName n) e) m) Hcs);
        [vm_compute; reflexivity | reflexivity |].
      intros p2. cbn [process]. rewrite u8_b by lia. rewrite Hnm, nth_name_ok by exact Ht1. cbn [bind].
      unfold pop. rewrite Hstk. cbn [bind]. rewrite Hpr1. fold (nm en n). f_equal.
      apply mstate_eq2; [exact (eq_sym Hst) | subst m1; destruct m as [? ? ?]; reflexivity |].
      unfold after_s, stmt_assign, add_stmt, with_stack. cbn [m_fn reify_s target_node globals_s]. subst m1.
      rewrite app_nil_r. destruct m as [st0 [? ? ? ? ? ? ?] cx]. reflexivity. }
  destruct Hs as [r2 Hs]. exists r2. cbn [Nat.add]. erewrite run_ops_step; [| subst ps; lia | exact Hs]. f_equal. subst ps. lia.
Qed.

Lemma exec_call_stmt en props (loc : bool) f args :
  wf_s en (if loc then SLCallS f args else SCallS f args) -> exec_s_spec en props (if loc then SLCallS f args else SCallS f args).
Proof.
  intros Hwf d off len a fuel r m [Hag Hpr] Hst Hc Hoff Hlen.
  assert (Hcc : compile_s (if loc then SLCallS f args else SCallS f args)
                = flat_map compile_e args ++ compile_arglist (length args) false ++ [b (if loc then 86 else 87); b (Z.of_nat f)])
    by (destruct loc; reflexivity).
  assert (Hni : ninstr_s (if loc then SLCallS f args else SCallS f args) = (fold_right (fun x a => ninstr x + a) 0 args + 2)%nat)
    by (destruct loc; reflexivity).
  assert (Hw : Z.of_nat f < 256 /\ Z.of_nat (length args) < 65536 /\ wf_args en args) by (destruct loc; cbn [wf_s] in Hwf; tauto).
  destruct Hw as (Hf256 & H64 & Hargs).
  rewrite Hcc in *. rewrite Hni. rewrite !zlen_app in *. rewrite arglist_len_zlen_stmt in *. rewrite !zlen_cons, zlen_nil in *.
  apply code_at_app in Hc. destruct Hc as [Hcl Hc]. apply code_at_app in Hc. destruct Hc as [Hca Hct].
  rewrite arglist_len_zlen_stmt in *.
  pose proof (zlen_nonneg (flat_map compile_e args)).
  assert (0 < arglist_len (length args)) by (unfold arglist_len; destruct (_ <? _); lia).
  replace (fold_right (fun x a => ninstr x + a) 0 args + 2 + fuel)%nat
    with (fold_right (fun x a => ninstr x + a) 0 args + (S (S fuel)))%nat by lia.
  assert (IHl : exec_args_spec en args).
  { clear - Hargs. induction args as [|x l IH]; [apply exec_args_nil|]. destruct Hargs as [Hx Hl].
    apply exec_args_cons; [apply exec_e; exact Hx | apply IH; exact Hl]. }
  destruct (IHl d off len a (S (S fuel)) r m Hag Hcl ltac:(lia) ltac:(lia)) as [r1 E1]. rewrite E1.
  set (m1 := after_args en a args m). set (pa := a + zlen (flat_map compile_e args)) in *.
  assert (Hstk1 : m_stack m1 = rev (fst (reify_args en a args)) ++ []) by (subst m1; rewrite after_args_stack, Hst; reflexivity).
  destruct (exec_arglist_stmt d off len pa (S fuel) r1 m1 (fst (reify_args en a args)) [] (length args) Hca
              (eq_sym (reify_args_len en args a)) H64 Hstk1 ltac:(lia) ltac:(lia)) as [r2 E2].
  rewrite E2.
  set (ll := LoadList "load_list" pa (rev (fst (reify_args en a args)))).
  set (m2 := with_stack m1 [ll]). set (pt := pa + arglist_len (length args)) in *.
  assert (Hpa : snd (reify_args en a args) = pa) by apply reify_args_pc.
  pose proof (agrees_after_args en a args m Hag) as Hag1. fold m1 in Hag1. destruct Hag1 as (Hnm & Hlf & _).
  assert (Hs : exists r', step d pt r2 m2 = Ok (pt + 2, r', after_s en props a (if loc then SLCallS f args else SCallS f args) m)).
  { destruct loc; cbn [wf_s] in Hwf; destruct Hwf as (Hf & _).
    - apply (step_2 d pt r2 m2 (b 86) (b (Z.of_nat f)) "CallLocalOpcode" "" OCallLocal (after_s en props a (SLCallS f args) m) Hct);
        [vm_compute; reflexivity | reflexivity |].
      intros p2. cbn [process]. rewrite u8_b by lia. subst m2. cbn [m_ctx with_stack]. rewrite Hlf, nth_name_ok by exact Hf. cbn [bind].
      unfold pop. cbn [m_stack with_stack bind]. subst ll. cbn [is_loadlist negb]. unfold push_or_stmt. cbn [name_of name_is_int].
      change (starts_with "<" "load_list" && negb false) with false. cbn iota. f_equal.
      unfold after_s. cbn [reify_s globals_s]. destruct (reify_args en a args) as [ns pa'] eqn:Er. cbn [fst snd] in *. subst pa'.
      apply mstate_eq; cbn [add_stmt m_stack m_ctx m_fn set_stmts f_globals f_name f_pos f_params f_locals f_stmts f_is_method with_stack];
        try (subst m1; destruct m as [? [? ? ? ? ? ? ?] ?]; reflexivity);
        try exact (eq_sym Hst); try (subst m1; rewrite after_args_globals; reflexivity).
    - apply (step_2 d pt r2 m2 (b 87) (b (Z.of_nat f)) "CallExternalOpcode" "" OCallExternal (after_s en props a (SCallS f args) m) Hct);
        [vm_compute; reflexivity | reflexivity |].
      intros p2. cbn [process]. rewrite u8_b by lia. subst m2. cbn [m_ctx with_stack]. rewrite Hnm, nth_name_ok by exact Hf. cbn [bind].
      unfold pop. cbn [m_stack with_stack bind]. subst ll. cbn [is_loadlist negb]. unfold push_or_stmt. cbn [name_of name_is_int].
      change (starts_with "<" "load_list" && negb false) with false. cbn iota. f_equal.
      unfold after_s. cbn [reify_s globals_s]. destruct (reify_args en a args) as [ns pa'] eqn:Er. cbn [fst snd] in *. subst pa'.
      apply mstate_eq; cbn [add_stmt m_stack m_ctx m_fn set_stmts f_globals f_name f_pos f_params f_locals f_stmts f_is_method with_stack];
        try (subst m1; destruct m as [? [? ? ? ? ? ? ?] ?]; reflexivity);
        try exact (eq_sym Hst); try (subst m1; rewrite after_args_globals; reflexivity). }
  destruct Hs as [r3 Hs]. exists r3. erewrite run_ops_step; [| subst pt pa; lia | exact Hs]. f_equal. subst pt pa. lia.
Qed.

(* set the <property> of <sound / sprite / cast> o to v *)
Definition assign_proc (f : ofam) : string :=
  match f with FSound => "AssignSoundPropertiesOpcode" | FSprite => "AssignSpritePropertiesOpcode"
             | FVideo => "AssignVideoPropertiesOpcode" | _ => "AssignCastPropertiesOpcode" end.
Definition assign_opk (f : ofam) : opclass :=
  match f with FSound => OAssignSoundProps | FSprite => OAssignSpriteProps | FVideo => OAssignVideoProps | _ => OAssignCastProps end.
Lemma tbl_assign_obj f : assignable f = true -> assocZ (u8 (b 93) * 256 + u8 (b (fcode f))) BI_OPCODES = Some (2, "BiOpcode", assign_proc f, "").
Proof. destruct f; try discriminate; intros _; vm_compute; reflexivity. Qed.
Lemma ftable_small f : (length (ftable f) < 512)%nat.
Proof. destruct f; vm_compute; lia. Qed.

Lemma exec_set_obj en props f pid o v : wf_s en (SSetObj f pid o v) -> exec_s_spec en props (SSetObj f pid o v).
Proof.
  intros (Hasg & Hpid & Ho & Hv) d off len a fuel r m [Hag Hpr] Hst Hc Hoff Hlen.
  pose proof (ftable_small f) as Hsm.
  cbn [compile_s ninstr_s] in *. rewrite !zlen_app in *. change (zlen [b 93; b (fcode f)]) with 2 in *.
  apply code_at_app in Hc. destruct Hc as [Hco Hc]. apply code_at_app in Hc. destruct Hc as [Hcv Hc].
  apply code_at_app in Hc. destruct Hc as [Hci Hcs].
  pose proof (zlen_nonneg (compile_e o)). pose proof (zlen_nonneg (compile_e v)). pose proof (zlen_nonneg (compile_int (Z.of_nat pid))).
  replace (ninstr o + (ninstr v + 2) + fuel)%nat with (ninstr o + (ninstr v + (1 + (1 + fuel))))%nat by lia.
  destruct (exec_e en o Ho d off len a (ninstr v + (1 + (1 + fuel)))%nat r m Hag Hco ltac:(lia) ltac:(lia)) as [r1 E1]. rewrite E1.
  set (m1 := after_e en a o m). set (pv := a + zlen (compile_e o)) in *.
  pose proof (agrees_after_e en a o m Hag) as Hag1. fold m1 in Hag1.
  destruct (exec_e en v Hv d off len pv (1 + (1 + fuel))%nat r1 m1 Hag1 Hcv ltac:(subst pv; lia) ltac:(subst pv; lia)) as [r2 E2]. rewrite E2.
  set (m2 := after_e en pv v m1). set (pi := pv + zlen (compile_e v)) in *.
  pose proof (agrees_after_e en pv v m1 Hag1) as Hag2. fold m2 in Hag2.
  assert (Hwi : wf_e en (EInt (Z.of_nat pid))) by (cbn [wf_e]; lia).
  destruct (exec_int en (Z.of_nat pid) Hwi d off len pi (1 + fuel)%nat r2 m2 Hag2 Hci ltac:(subst pi pv; lia) ltac:(subst pi pv; cbn [compile_e]; lia)) as [r3 E3].
  cbn [ninstr compile_e] in E3. rewrite E3.
  set (m3 := after_e en pi (EInt (Z.of_nat pid)) m2). set (ps := pi + zlen (compile_int (Z.of_nat pid))) in *.
  assert (Hs : step d ps r3 m3 = Ok (ps + 2, r3, after_s en props a (SSetObj f pid o v) m)).
  { eapply step_bi with (proc0 := "AssignSoundPropertiesOpcode") (attr0 := "") (oc := assign_opk f);
      [exact Hcs | reflexivity | apply tbl_assign_obj; exact Hasg | destruct f; try discriminate Hasg; reflexivity |].
    assert (E : assign_obj_prop m3 ps (fclass f) (ftable f) = Ok (after_s en props a (SSetObj f pid o v) m)).
    { unfold assign_obj_prop, pop. subst m3. rewrite after_e_stack. cbn [bind reify_e]. unfold int_name. cbn [name_of].
      rewrite int_of_str_small by lia. cbn [of_option bind]. unfold with_stack at 1. cbn [m_stack].
      subst m2. rewrite after_e_stack. cbn [bind]. unfold with_stack at 1. cbn [m_stack].
      subst m1. rewrite after_e_stack. cbn [bind]. rewrite nth_name_ok by exact Hpid. cbn [bind]. f_equal.
      unfold after_s, stmt_assign, add_stmt, with_stack. cbn [reify_s globals_s].
      apply mstate_eq; cbn [m_stack m_ctx m_fn f_globals f_name f_pos f_params f_locals f_stmts f_is_method set_stmts].
      - rewrite Hst. reflexivity.
      - destruct m as [? [? ? ? ? ? ? ?] ?]; reflexivity.
      - rewrite !after_e_globals. cbn [globals_e add_globals fold_left]. rewrite add_globals_app. reflexivity.
      - destruct m as [? [? ? ? ? ? ? ?] ?]; reflexivity.
      - destruct m as [? [? ? ? ? ? ? ?] ?]; reflexivity.
      - destruct m as [? [? ? ? ? ? ? ?] ?]; reflexivity.
      - destruct m as [? [? ? ? ? ? ? ?] ?]; reflexivity.
      - subst ps pi pv. destruct m as [? [? ? ? ? ? ? ?] ?]; reflexivity.
      - destruct m as [? [? ? ? ? ? ? ?] ?]; reflexivity. }
    destruct f; try discriminate Hasg; cbn [assign_opk process fclass ftable] in *; exact E. }
  exists r3. cbn [Nat.add]. erewrite run_ops_step; [| subst ps pi pv; lia | exact Hs]. f_equal. subst ps pi pv. lia.
Qed.

(* ---- set the <special / system property> = v ---- *)
Definition assign_the_proc (k : thekind) : string :=
  match k with TSystem => "AssignSystemPropertiesOpcode" | _ => "AssignSpecialPropertiesOpcode" end.
Definition assign_the_opk (k : thekind) : opclass := match k with TSystem => OAssignSystemProps | _ => OAssignSpecialProps end.
Lemma tbl_assign_the k : k = TSpecial \/ k = TSystem ->
  assocZ (u8 (b 93) * 256 + u8 (b (the_code k))) BI_OPCODES = Some (2, "BiOpcode", assign_the_proc k, "").
Proof. intros [-> | ->]; vm_compute; reflexivity. Qed.

Lemma exec_set_the en props k i v : wf_s en (SSetThe k i v) -> exec_s_spec en props (SSetThe k i v).
Proof.
  intros (Hk & Hi & Hv) d off len a fuel r m [Hag Hpr] Hst Hc Hoff Hlen.
  pose proof (the_small k i Hi) as Hsm.
  cbn [compile_s ninstr_s] in *. rewrite !zlen_app in *. change (zlen [b 93; b (the_code k)]) with 2 in *.
  apply code_at_app in Hc. destruct Hc as [Hcv Hc]. apply code_at_app in Hc. destruct Hc as [Hci Hcs].
  pose proof (zlen_nonneg (compile_e v)). pose proof (zlen_nonneg (compile_int (the_num k i))).
  replace (ninstr v + 2 + fuel)%nat with (ninstr v + (1 + (1 + fuel)))%nat by lia.
  destruct (exec_e en v Hv d off len a (1 + (1 + fuel))%nat r m Hag Hcv ltac:(lia) ltac:(lia)) as [r1 E1]. rewrite E1.
  set (m1 := after_e en a v m). set (pi := a + zlen (compile_e v)) in *.
  pose proof (agrees_after_e en a v m Hag) as Hag1. fold m1 in Hag1.
  assert (Hwi : wf_e en (EInt (the_num k i))) by (cbn [wf_e]; rewrite the_num_nat; destruct k; lia).
  destruct (exec_int en (the_num k i) Hwi d off len pi (1 + fuel)%nat r1 m1 Hag1 Hci ltac:(subst pi; lia) ltac:(subst pi; cbn [compile_e]; lia)) as [r2 E2].
  cbn [ninstr compile_e] in E2. rewrite E2.
  set (m2 := after_e en pi (EInt (the_num k i)) m1). set (ps := pi + zlen (compile_int (the_num k i))) in *.
  pose proof (agrees_after_e en pi (EInt (the_num k i)) m1 Hag1) as Hag2. fold m2 in Hag2.
  assert (Htell : c_tell (m_ctx m2) = false) by (unfold agrees in Hag2; tauto).
  assert (Hstk2 : m_stack m2 = Leaf KConst (str_of_int (the_num k i)) pi true :: [reify_e en a v]).
  { subst m2 m1. rewrite !after_e_stack, Hst. reflexivity. }
  assert (Hs : step d ps r2 m2 = Ok (ps + 2, r2, after_s en props a (SSetThe k i v) m)).
  { eapply step_bi with (proc0 := "AssignSoundPropertiesOpcode") (attr0 := "") (oc := assign_the_opk k);
      [exact Hcs | reflexivity | apply tbl_assign_the; exact Hk | destruct Hk as [-> | ->]; reflexivity |].
    pose proof (the_process k i m2 pi Hi Htell) as Hp. rewrite Hstk2 in Hp. specialize (Hp eq_refl [reify_e en a v] eq_refl ps).
    assert (E : (let! m' := process (the_opk k) 0 0 ps m2 in assign_top m' ps) = Ok (after_s en props a (SSetThe k i v) m)).
    { rewrite Hp. cbn [bind]. unfold assign_top, pop, push, with_stack. cbn [m_stack bind]. f_equal.
      unfold after_s, stmt_assign, add_stmt. cbn [reify_s globals_s].
      apply mstate_eq; cbn [m_stack m_ctx m_fn f_globals f_name f_pos f_params f_locals f_stmts f_is_method set_stmts].
      - rewrite Hst. reflexivity.
      - subst m2 m1. destruct m as [? [? ? ? ? ? ? ?] ?]; reflexivity.
      - subst m2 m1. rewrite !after_e_globals. cbn [globals_e add_globals fold_left]. reflexivity.
      - subst m2 m1. destruct m as [? [? ? ? ? ? ? ?] ?]; reflexivity.
      - subst m2 m1. destruct m as [? [? ? ? ? ? ? ?] ?]; reflexivity.
      - subst m2 m1. destruct m as [? [? ? ? ? ? ? ?] ?]; reflexivity.
      - subst m2 m1. destruct m as [? [? ? ? ? ? ? ?] ?]; reflexivity.
      - subst m2 m1 ps pi. destruct m as [? [? ? ? ? ? ? ?] ?]; reflexivity.
      - subst m2 m1. destruct m as [? [? ? ? ? ? ? ?] ?]; reflexivity. }
    destruct Hk as [-> | ->]; cbn [assign_the_opk the_opk process] in *; exact E. }
  exists r2. cbn [Nat.add]. erewrite run_ops_step; [| subst ps pi; lia | exact Hs]. f_equal. subst ps pi. lia.
Qed.

(* ---- set the <name> of o = v ---- *)
Lemma exec_set_acc en props n o v : wf_s en (SSetAcc n o v) -> exec_s_spec en props (SSetAcc n o v).
Proof.
  intros (Hn & H256 & Ho & Hv) d off len a fuel r m [Hag Hpr] Hst Hc Hoff Hlen.
  cbn [compile_s ninstr_s] in *. rewrite !zlen_app in *. rewrite !zlen_cons, zlen_nil in *.
  apply code_at_app in Hc. destruct Hc as [Hco Hc]. apply code_at_app in Hc. destruct Hc as [Hcv Hcs].
  pose proof (zlen_nonneg (compile_e o)). pose proof (zlen_nonneg (compile_e v)).
  replace (ninstr o + (ninstr v + 1) + fuel)%nat with (ninstr o + (ninstr v + (1 + fuel)))%nat by lia.
  destruct (exec_e en o Ho d off len a (ninstr v + (1 + fuel))%nat r m Hag Hco ltac:(lia) ltac:(lia)) as [r1 E1]. rewrite E1.
  set (m1 := after_e en a o m). set (pv := a + zlen (compile_e o)) in *.
  pose proof (agrees_after_e en a o m Hag) as Hag1. fold m1 in Hag1.
  destruct (exec_e en v Hv d off len pv (1 + fuel)%nat r1 m1 Hag1 Hcv ltac:(subst pv; lia) ltac:(subst pv; lia)) as [r2 E2]. rewrite E2.
  set (m2 := after_e en pv v m1). set (ps := pv + zlen (compile_e v)) in *.
  pose proof (agrees_after_e en pv v m1 Hag1) as Hag2. fold m2 in Hag2. destruct Hag2 as (Hnm & _).
  assert (Hs : exists r', step d ps r2 m2 = Ok (ps + 2, r', after_s en props a (SSetAcc n o v) m)).
  { eapply step_2 with (proc := "AssignPropertyAccesorOpcode") (attr := "") (oc := OAssignPropertyAccessor); [exact Hcs | reflexivity | reflexivity |].
    intros p2. cbn [process]. rewrite u8_b by lia. unfold pop. subst m2. rewrite after_e_stack. cbn [bind].
    unfold with_stack at 1. cbn [m_stack]. subst m1. rewrite after_e_stack. cbn [bind].
    cbn [m_ctx with_stack] in *.
    rewrite Hnm, nth_name_ok by exact Hn. cbn [bind]. fold (nm en n). f_equal.
    unfold after_s, stmt_assign, add_stmt, with_stack. cbn [reify_s globals_s].
    apply mstate_eq; cbn [m_stack m_ctx m_fn f_globals f_name f_pos f_params f_locals f_stmts f_is_method set_stmts].
    - rewrite Hst. reflexivity.
    - destruct m as [? [? ? ? ? ? ? ?] ?]; reflexivity.
    - rewrite !after_e_globals. rewrite add_globals_app. reflexivity.
    - destruct m as [? [? ? ? ? ? ? ?] ?]; reflexivity.
    - destruct m as [? [? ? ? ? ? ? ?] ?]; reflexivity.
    - destruct m as [? [? ? ? ? ? ? ?] ?]; reflexivity.
    - destruct m as [? [? ? ? ? ? ? ?] ?]; reflexivity.
    - subst ps pv. destruct m as [? [? ? ? ? ? ? ?] ?]; reflexivity.
    - destruct m as [? [? ? ? ? ? ? ?] ?]; reflexivity. }
  destruct Hs as [r3 Hs]. exists r3. cbn [Nat.add]. erewrite run_ops_step; [| subst ps pv; lia | exact Hs]. f_equal. subst ps pv. lia.
Qed.

(* ---- set the <property> of menuItem it of menu mn = v ---- *)
Lemma menu_small pid : (pid < List.length MENUITEM_PROPERTIES)%nat -> (pid < 512)%nat.
Proof. intros H. assert (L : (List.length MENUITEM_PROPERTIES <= 64)%nat) by (vm_compute; lia). lia. Qed.

Lemma exec_set_menu en props pid it mn v : wf_s en (SSetMenu pid it mn v) -> exec_s_spec en props (SSetMenu pid it mn v).
Proof.
  intros (Hpid & Hi & Hm & Hv) d off len a fuel r m [Hag Hpr] Hst Hc Hoff Hlen.
  pose proof (menu_small pid Hpid) as Hsm.
  cbn [compile_s ninstr_s] in *. rewrite !zlen_app in *. change (zlen [b 93; b 3]) with 2 in *.
  apply code_at_app in Hc. destruct Hc as [Hcit Hc]. apply code_at_app in Hc. destruct Hc as [Hcm Hc].
  apply code_at_app in Hc. destruct Hc as [Hcv Hc]. apply code_at_app in Hc. destruct Hc as [Hci Hcs].
  pose proof (zlen_nonneg (compile_e it)). pose proof (zlen_nonneg (compile_e mn)). pose proof (zlen_nonneg (compile_e v)).
  pose proof (zlen_nonneg (compile_int (Z.of_nat pid))).
  replace (ninstr it + (ninstr mn + (ninstr v + 2)) + fuel)%nat with (ninstr it + (ninstr mn + (ninstr v + (1 + (1 + fuel)))))%nat by lia.
  destruct (exec_e en it Hi d off len a (ninstr mn + (ninstr v + (1 + (1 + fuel))))%nat r m Hag Hcit ltac:(lia) ltac:(lia)) as [r1 E1]. rewrite E1.
  set (m1 := after_e en a it m). set (pm := a + zlen (compile_e it)) in *.
  pose proof (agrees_after_e en a it m Hag) as Hag1. fold m1 in Hag1.
  destruct (exec_e en mn Hm d off len pm (ninstr v + (1 + (1 + fuel)))%nat r1 m1 Hag1 Hcm ltac:(subst pm; lia) ltac:(subst pm; lia)) as [r2 E2]. rewrite E2.
  set (m2 := after_e en pm mn m1). set (pv := pm + zlen (compile_e mn)) in *.
  pose proof (agrees_after_e en pm mn m1 Hag1) as Hag2. fold m2 in Hag2.
  destruct (exec_e en v Hv d off len pv (1 + (1 + fuel))%nat r2 m2 Hag2 Hcv ltac:(subst pv pm; lia) ltac:(subst pv pm; lia)) as [r3 E3]. rewrite E3.
  set (m3 := after_e en pv v m2). set (pi := pv + zlen (compile_e v)) in *.
  pose proof (agrees_after_e en pv v m2 Hag2) as Hag3. fold m3 in Hag3.
  assert (Hwi : wf_e en (EInt (Z.of_nat pid))) by (cbn [wf_e]; lia).
  destruct (exec_int en (Z.of_nat pid) Hwi d off len pi (1 + fuel)%nat r3 m3 Hag3 Hci ltac:(subst pi pv pm; lia) ltac:(subst pi pv pm; cbn [compile_e]; lia)) as [r4 E4].
  cbn [ninstr compile_e] in E4. rewrite E4.
  set (m4 := after_e en pi (EInt (Z.of_nat pid)) m3). set (ps := pi + zlen (compile_int (Z.of_nat pid))) in *.
  assert (Hs : step d ps r4 m4 = Ok (ps + 2, r4, after_s en props a (SSetMenu pid it mn v) m)).
  { eapply step_bi with (proc0 := "AssignSoundPropertiesOpcode") (attr0 := "") (proc := "AssignMenuitemPropertiesOpcode") (attr := "") (oc := OAssignMenuitemProps);
      [exact Hcs | reflexivity | reflexivity | reflexivity |].
    cbn [process]. unfold pop. subst m4. rewrite after_e_stack. cbn [bind reify_e]. unfold int_name. cbn [name_of].
    rewrite int_of_str_small by lia. cbn [of_option bind]. unfold with_stack at 1. cbn [m_stack].
    subst m3. rewrite after_e_stack. cbn [bind]. unfold with_stack at 1. cbn [m_stack].
    subst m2. rewrite after_e_stack. cbn [bind]. unfold with_stack at 1. cbn [m_stack].
    subst m1. rewrite after_e_stack. cbn [bind]. rewrite nth_name_ok by exact Hpid. cbn [bind]. f_equal.
    unfold after_s, stmt_assign, add_stmt, with_stack. cbn [reify_s globals_s].
    apply mstate_eq; cbn [m_stack m_ctx m_fn f_globals f_name f_pos f_params f_locals f_stmts f_is_method set_stmts].
    - rewrite Hst. reflexivity.
    - destruct m as [? [? ? ? ? ? ? ?] ?]; reflexivity.
    - rewrite !after_e_globals. cbn [globals_e add_globals fold_left]. rewrite !add_globals_app. reflexivity.
    - destruct m as [? [? ? ? ? ? ? ?] ?]; reflexivity.
    - destruct m as [? [? ? ? ? ? ? ?] ?]; reflexivity.
    - destruct m as [? [? ? ? ? ? ? ?] ?]; reflexivity.
    - destruct m as [? [? ? ? ? ? ? ?] ?]; reflexivity.
    - subst ps pi pv pm. destruct m as [? [? ? ? ? ? ? ?] ?]; reflexivity.
    - destruct m as [? [? ? ? ? ? ? ?] ?]; reflexivity. }
  exists r4. cbn [Nat.add]. erewrite run_ops_step; [| subst ps pi pv pm; lia | exact Hs]. f_equal. subst ps pi pv pm. lia.
Qed.

Lemma exec_exit en props : exec_s_spec en props SExit.
Proof.
  intros d off len a fuel r m [Hag Hpr] Hst Hc Hoff Hlen. cbn [compile_s ninstr_s] in *. rewrite zlen_cons, zlen_nil in *.
  assert (Hs : step d a r m = Ok (a + 1, r, after_s en props a SExit m)).
  { apply (step_1 d a r m (b 1) "ExitOpcode" "" OExit _ Hc); [vm_compute; reflexivity | reflexivity |].
    intros p1 p2. cbn [process]. unfold after_s, add_stmt. cbn [reify_s globals_s add_globals fold_left].
    destruct m as [? [? ? ? ? ? ? ?] ?]; reflexivity. }
  exists r. cbn [Nat.add]. erewrite run_ops_step; [| lia | exact Hs]. reflexivity.
Qed.

(* ---- put v into / after / before field f, and a local variable ---- *)
Lemma tbl_put_field md : assocZ (u8 (b 89) * 256 + u8 (b (16 * pcode md + 6))) BI_OPCODES = Some (2, "BiOpcode", "AssignModeFieldOpcode", pname md).
Proof. destruct md; vm_compute; reflexivity. Qed.
Lemma tbl_put_loc md : assocZ (u8 (b 89) * 256 + u8 (b (16 * pcode md + 5))) BI_OPCODES = Some (2, "BiOpcode", "AssignModeLocalVarOpcode", pname md).
Proof. destruct md; vm_compute; reflexivity. Qed.

Lemma exec_put_field en props md f v : wf_s en (SPutField md f v) -> exec_s_spec en props (SPutField md f v).
Proof.
  intros (Hf & Hv) d off len a fuel r m [Hag Hpr] Hst Hc Hoff Hlen.
  cbn [compile_s ninstr_s] in *. rewrite !zlen_app in *. change (zlen [b 89; b (16 * pcode md + 6)]) with 2 in *.
  apply code_at_app in Hc. destruct Hc as [Hcv Hc]. apply code_at_app in Hc. destruct Hc as [Hcf Hcs].
  pose proof (zlen_nonneg (compile_e f)). pose proof (zlen_nonneg (compile_e v)).
  replace (ninstr v + (ninstr f + 1) + fuel)%nat with (ninstr v + (ninstr f + (1 + fuel)))%nat by lia.
  destruct (exec_e en v Hv d off len a (ninstr f + (1 + fuel))%nat r m Hag Hcv ltac:(lia) ltac:(lia)) as [r1 E1]. rewrite E1.
  set (m1 := after_e en a v m). set (pf := a + zlen (compile_e v)) in *.
  pose proof (agrees_after_e en a v m Hag) as Hag1. fold m1 in Hag1.
  destruct (exec_e en f Hf d off len pf (1 + fuel)%nat r1 m1 Hag1 Hcf ltac:(subst pf; lia) ltac:(subst pf; lia)) as [r2 E2]. rewrite E2.
  set (m2 := after_e en pf f m1). set (ps := pf + zlen (compile_e f)) in *.
  assert (Hs : step d ps r2 m2 = Ok (ps + 2, r2, after_s en props a (SPutField md f v) m)).
  { eapply step_bi with (proc0 := "AssignModeFieldOpcode") (attr0 := "before") (oc := OAssignModeField (pname md));
      [exact Hcs | reflexivity | apply tbl_put_field | destruct md; reflexivity |].
    cbn [process]. unfold pop. subst m2. rewrite after_e_stack. cbn [bind].
    unfold with_stack at 1. cbn [m_stack]. subst m1. rewrite after_e_stack. cbn [bind]. f_equal.
    unfold after_s, add_stmt, with_stack. cbn [reify_s globals_s].
    apply mstate_eq; cbn [m_stack m_ctx m_fn f_globals f_name f_pos f_params f_locals f_stmts f_is_method set_stmts].
    - rewrite Hst. reflexivity.
    - destruct m as [? [? ? ? ? ? ? ?] ?]; reflexivity.
    - rewrite !after_e_globals. rewrite add_globals_app. reflexivity.
    - destruct m as [? [? ? ? ? ? ? ?] ?]; reflexivity.
    - destruct m as [? [? ? ? ? ? ? ?] ?]; reflexivity.
    - destruct m as [? [? ? ? ? ? ? ?] ?]; reflexivity.
    - destruct m as [? [? ? ? ? ? ? ?] ?]; reflexivity.
    - subst ps pf. destruct m as [? [? ? ? ? ? ? ?] ?]; reflexivity.
    - destruct m as [? [? ? ? ? ? ? ?] ?]; reflexivity. }
  exists r2. cbn [Nat.add]. erewrite run_ops_step; [| subst ps pf; lia | exact Hs]. f_equal. subst ps pf. lia.
Qed.

Lemma exec_put_loc en props md i v : wf_s en (SPutLoc md i v) -> exec_s_spec en props (SPutLoc md i v).
Proof.
  intros (Hi & H256 & Hv) d off len a fuel r m [Hag Hpr] Hst Hc Hoff Hlen.
  cbn [compile_s ninstr_s] in *. rewrite !zlen_app in *. change (zlen [b 89; b (16 * pcode md + 5)]) with 2 in *.
  apply code_at_app in Hc. destruct Hc as [Hcv Hc]. apply code_at_app in Hc. destruct Hc as [Hci Hcs].
  pose proof (zlen_nonneg (compile_e v)). pose proof (zlen_nonneg (compile_int (scaled i))). pose proof (scaled_nonneg i).
  replace (ninstr v + 2 + fuel)%nat with (ninstr v + (1 + (1 + fuel)))%nat by lia.
  destruct (exec_e en v Hv d off len a (1 + (1 + fuel))%nat r m Hag Hcv ltac:(lia) ltac:(lia)) as [r1 E1]. rewrite E1.
  set (m1 := after_e en a v m). set (pi := a + zlen (compile_e v)) in *.
  pose proof (agrees_after_e en a v m Hag) as Hag1. fold m1 in Hag1.
  assert (Hwi : wf_e en (EInt (scaled i))) by (cbn [wf_e]; lia).
  destruct (exec_int en (scaled i) Hwi d off len pi (1 + fuel)%nat r1 m1 Hag1 Hci ltac:(subst pi; lia) ltac:(subst pi; cbn [compile_e]; lia)) as [r2 E2].
  cbn [ninstr compile_e] in E2. rewrite E2.
  set (m2 := after_e en pi (EInt (scaled i)) m1). set (ps := pi + zlen (compile_int (scaled i))) in *.
  pose proof (agrees_after_e en pi (EInt (scaled i)) m1 Hag1) as Hag2. fold m2 in Hag2.
  assert (Hs : step d ps r2 m2 = Ok (ps + 2, r2, after_s en props a (SPutLoc md i v) m)).
  { eapply step_bi with (proc0 := "AssignModeFieldOpcode") (attr0 := "before") (oc := OAssignModeLocal (pname md));
      [exact Hcs | reflexivity | apply tbl_put_loc | destruct md; reflexivity |].
    cbn [process]. unfold pop. subst m2. rewrite after_e_stack. cbn [bind reify_e is_const negb].
    unfold int_name. cbn [name_of]. unfold scaled in *.
    replace (Z.of_nat i * 6) with (Z.of_nat (i * 6)) by lia. rewrite int_of_str_small by lia. cbn [of_option bind].
    replace (Z.of_nat (i * 6)) with (Z.of_nat i * 6) by lia.
    set (mm := with_stack (after_e en pi (EInt (Z.of_nat i * 6)) m1) (m_stack m1)).
    assert (Hb : c_bpc (m_ctx mm) = 6) by (subst mm m1; unfold agrees in Hag2; destruct m as [? ? ?]; tauto).
    rewrite (scale_six mm (Z.of_nat i) Hb) by lia.
    assert (Hl : f_locals (m_fn mm) = e_locals en) by (subst mm m1; unfold agrees in Hag2; destruct m as [? [? ? ? ? ? ? ?] ?]; tauto).
    rewrite Hl, (index_nth _ i (Leaf KLocal "" 0 true)) by exact Hi. cbn [of_option bind].
    subst mm. unfold with_stack at 1. cbn [m_stack]. subst m1. rewrite after_e_stack. cbn [bind]. apply f_equal.
    unfold after_s, add_stmt, with_stack. cbn [reify_s globals_s].
    apply mstate_eq; cbn [m_stack m_ctx m_fn f_globals f_name f_pos f_params f_locals f_stmts f_is_method set_stmts].
    - rewrite Hst. reflexivity.
    - destruct m as [? [? ? ? ? ? ? ?] ?]; reflexivity.
    - rewrite !after_e_globals. cbn [globals_e add_globals fold_left]. reflexivity.
    - destruct m as [? [? ? ? ? ? ? ?] ?]; reflexivity.
    - destruct m as [? [? ? ? ? ? ? ?] ?]; reflexivity.
    - destruct m as [? [? ? ? ? ? ? ?] ?]; reflexivity.
    - destruct m as [? [? ? ? ? ? ? ?] ?]; reflexivity.
    - subst ps pi. unfold scaled. destruct m as [? [? ? ? ? ? ? ?] ?]; reflexivity.
    - destruct m as [? [? ? ? ? ? ? ?] ?]; reflexivity. }
  exists r2. cbn [Nat.add]. erewrite run_ops_step; [| subst ps pi; lia | exact Hs]. f_equal. subst ps pi. lia.
Qed.

Theorem exec_s en props s : wf_s en s -> exec_s_spec en props s.
Proof.
  destruct s as [t e|f args|f args|f pid o v|k i v|n o v|pid it mn v| |md f v|md i v]; intros Hwf.
  - apply exec_set; exact Hwf.
  - apply (exec_call_stmt en props false f args); exact Hwf.
  - apply (exec_call_stmt en props true f args); exact Hwf.
  - apply exec_set_obj; exact Hwf.
  - apply exec_set_the; exact Hwf.
  - apply exec_set_acc; exact Hwf.
  - apply exec_set_menu; exact Hwf.
  - apply exec_exit.
  - apply exec_put_field; exact Hwf.
  - apply exec_put_loc; exact Hwf.
Qed.

(* ---- a sequence of statements ---- *)
Definition after_body (en : env) (props : list string) (pc : Z) (l : list stmt) (m : mstate) : mstate :=
  Build_mstate (m_stack m)
    (Build_fndef (f_name (m_fn m)) (f_pos (m_fn m)) (f_params (m_fn m)) (f_locals (m_fn m))
                 (add_globals (f_globals (m_fn m)) (globals_body en pc l))
                 (f_stmts (m_fn m) ++ reify_body en props pc l) (f_is_method (m_fn m)))
    (m_ctx m).

Lemma exec_body en props : forall l, wf_body en l ->
  forall d off len a fuel r m,
    agrees_p en props m -> m_stack m = [] -> code_at d a (compile_body l) -> off <= a -> a + zlen (compile_body l) <= off + len ->
    exists r', run_ops (fold_right (fun s n => ninstr_s s + n)%nat 0%nat l + fuel) d off len a r m
               = run_ops fuel d off len (a + zlen (compile_body l)) r' (after_body en props a l m).
Proof.
  induction l as [|s l IH]; intros Hwf d off len a fuel r m Hag Hst Hc Hoff Hlen.
  - exists r. cbn [fold_right compile_body flat_map Nat.add]. rewrite zlen_nil, Z.add_0_r. f_equal.
    unfold after_body. cbn [globals_body reify_body add_globals fold_left]. rewrite app_nil_r.
    destruct m as [? [? ? ? ? ? ? ?] ?]; reflexivity.
  - destruct Hwf as [Hs Hl]. cbn [fold_right compile_body flat_map] in *. fold (compile_body l) in *. rewrite zlen_app in *.
    apply code_at_app in Hc. destruct Hc as [Hcs Hcl].
    pose proof (zlen_nonneg (compile_s s)). pose proof (zlen_nonneg (compile_body l)).
    replace (ninstr_s s + fold_right (fun s n => ninstr_s s + n) 0 l + fuel)%nat
      with (ninstr_s s + (fold_right (fun s n => ninstr_s s + n) 0 l + fuel))%nat by lia.
    destruct (exec_s en props s Hs d off len a (fold_right (fun s n => ninstr_s s + n) 0 l + fuel)%nat r m Hag Hst Hcs ltac:(lia) ltac:(lia)) as [r1 E1]. rewrite E1.
    destruct (IH Hl d off len (a + zlen (compile_s s)) fuel r1 (after_s en props a s m) (agrees_after_s _ _ _ _ _ Hag)
                 (eq_trans (after_s_stack _ _ _ _ _) Hst) Hcl ltac:(lia) ltac:(lia)) as [r2 E2].
    rewrite E2. exists r2. f_equal; [lia|].
    unfold after_body, after_s. cbn [m_stack m_fn m_ctx f_name f_pos f_params f_locals f_globals f_stmts f_is_method reify_body globals_body].
    rewrite add_globals_app, <- app_assoc. reflexivity.
Qed.

(* ---- the control-flow passes do nothing on statements that are assignments and calls ---- *)
Definition plain_stmt (st : node) : bool :=
  match st with
  | Stmt _ (Binary _ _ _ _) | Stmt _ (Call _ _ _ _ _ _) | Stmt _ (SpAssign _ _ _ _) => true
  | _ => false
  end.

Lemma map_result_plain (f : nat) (e : option Z) (sts : list node) : forallb plain_stmt sts = true ->
  map_result (fun st => match st with
                        | Stmt p (Repeat rp re c body ty a bb v s) =>
                          let! body' := condition_detect f body (Some re) in Ok (Stmt p (Repeat rp re c body' ty a bb v s))
                        | _ => Ok st end) sts = Ok sts.
Proof.
  induction sts as [|st sts IH]; intros H; cbn [map_result]; [reflexivity|].
  cbn [forallb] in H. apply andb_true_iff in H. destruct H as [H1 H2].
  rewrite (IH H2). destruct st; try discriminate H1. destruct st; try discriminate H1; reflexivity.
Qed.

Lemma scan_plain e : forall sts s, forallb plain_stmt sts = true -> sc_jz s = [] ->
  (match sc_prev s with Some p => plain_stmt p = true | None => True end) ->
  sc_jz (fold_left (scan_step e) sts s) = [].
Proof.
  induction sts as [|st sts IH]; intros s H Hj Hp; [exact Hj|].
  cbn [forallb] in H. apply andb_true_iff in H. destruct H as [H1 H2]. cbn [fold_left]. apply IH; [exact H2| |].
  - unfold scan_step. destruct (match sc_addr s with Some a => pos_of st <? a | None => false end); [exact Hj|].
    destruct (sc_in_else s); cbn [sc_prev sc_jz].
    + destruct st; try discriminate H1. destruct st; try discriminate H1; exact Hj.
    + destruct (sc_prev s) as [p|] eqn:Ep.
      * destruct p; try discriminate Hp. destruct p; try discriminate Hp;
          (destruct st; try discriminate H1; destruct st; try discriminate H1; exact Hj).
      * destruct st; try discriminate H1. destruct st; try discriminate H1; exact Hj.
  - unfold scan_step. destruct (match sc_addr s with Some a => pos_of st <? a | None => false end); [exact H1|].
    destruct (sc_in_else s); cbn [sc_prev].
    + destruct st; try discriminate H1. destruct st; try discriminate H1; exact I.
    + destruct (sc_prev s) as [p|] eqn:Ep.
      * destruct p; try discriminate Hp. destruct p; try discriminate Hp;
          (destruct st; try discriminate H1; destruct st; try discriminate H1; cbn [sc_prev]; rewrite ?Ep; exact Hp).
      * destruct st; try discriminate H1. destruct st; try discriminate H1; cbn [sc_prev]; rewrite ?Ep; exact I.
Qed.

Lemma exit_jumps_plain e sts : forallb plain_stmt sts = true -> exit_jumps sts e = sts.
Proof.
  intros H. destruct e as [x|]; [|reflexivity]. cbn [exit_jumps].
  induction sts as [|st sts IH]; [reflexivity|]. cbn [forallb] in H. apply andb_true_iff in H. destruct H as [H1 H2].
  cbn [map]. rewrite (IH H2). destruct st; try discriminate H1. destruct st; try discriminate H1; reflexivity.
Qed.

Lemma condition_detect_plain f e sts : forallb plain_stmt sts = true -> condition_detect (S f) sts e = Ok sts.
Proof.
  intros H. cbn [condition_detect]. rewrite (exit_jumps_plain e sts H). rewrite (map_result_plain f e sts H). cbn [bind].
  unfold scan_jz. rewrite (scan_plain e sts (Build_scan_state None None false []) H eq_refl I). reflexivity.
Qed.

Lemma loop_detect_plain f sts : forallb plain_stmt sts = true -> loop_detect (S f) sts = Ok sts.
Proof.
  intros H. cbn [loop_detect].
  match goal with |- bind (fold_left ?step sts ?init) ?k = _ =>
    assert (E : forall l out prev, forallb plain_stmt l = true ->
                exists prev', fold_left step l (Ok (out, prev, [])) = Ok (out ++ l, prev', [])) end.
  { induction l as [|st l IH]; intros out prev Hl; [exists prev; rewrite app_nil_r; reflexivity|].
    cbn [forallb] in Hl. apply andb_true_iff in Hl. destruct Hl as [H1 H2]. cbn [fold_left bind].
    destruct st as [| | | | | | | | | | | | |sp code| | | | | | | | |]; try discriminate H1.
    destruct code; try discriminate H1;
      match goal with |- context [Stmt sp ?c] =>
        destruct (IH (out ++ [Stmt sp c]) (Some (Stmt sp c)) H2) as [p' E]; exists p'; rewrite E, <- app_assoc; reflexivity end. }
  destruct (E sts [] None H) as [p' E']. rewrite E'. cbn [bind app]. reflexivity.
Qed.

Lemma stmts_count_pos l : (0 <= stmts_count l)%nat. Proof. lia. Qed.

Lemma detect_plain sts : forallb plain_stmt sts = true -> detect sts = Ok sts.
Proof.
  intros H. unfold detect. rewrite (condition_detect_plain _ None sts H). cbn [bind]. apply loop_detect_plain. exact H.
Qed.

Lemma plain_reify_body en props : forall l pc, forallb plain_stmt (reify_body en props pc l) = true.
Proof.
  induction l as [|s l IH]; intros pc; [reflexivity|]. cbn [reify_body forallb]. rewrite IH, andb_true_r.
  destruct s; cbn [reify_s plain_stmt]; try reflexivity; destruct (reify_args en pc args); reflexivity.
Qed.

(* ---- a whole straight-line handler ---- *)
Theorem straight_handler en props l d off fuel r m :
  wf_body en l -> agrees_p en props m -> m_stack m = [] -> f_stmts (m_fn m) = [] ->
  code_at d off (compile_straight l) ->
  let pexit := off + zlen (compile_body l) in
  let sts := reify_body en props off l ++ [Stmt pexit (Call "exit" pexit None true false false)] in
  exists r' m',
    run_ops (fold_right (fun s n => ninstr_s s + n)%nat 0%nat l + (1 + fuel)) d off (zlen (compile_straight l)) off r m = Ok (r', m') /\
    f_stmts (m_fn m') = sts /\ detect sts = Ok sts /\
    f_globals (m_fn m') = add_globals (f_globals (m_fn m)) (globals_body en off l) /\ m_stack m' = [].
Proof.
  intros Hwf Hag Hst Hnil Hc pexit sts. unfold compile_straight in *. rewrite zlen_app, zlen_cons, zlen_nil in *.
  apply code_at_app in Hc. destruct Hc as [Hcb Hce]. pose proof (zlen_nonneg (compile_body l)).
  destruct (exec_body en props l Hwf d off (zlen (compile_body l) + (1 + 0)) off (1 + fuel)%nat r m Hag Hst Hcb ltac:(lia) ltac:(lia)) as [r1 E1].
  rewrite E1. set (m1 := after_body en props off l m).
  assert (Hs : step d pexit r1 m1 = Ok (pexit + 1, r1, add_stmt m1 pexit (Call "exit" pexit None true false false))).
  { apply (step_1 d pexit r1 m1 (b 1) "ExitOpcode" "" OExit _ Hce); [vm_compute; reflexivity | reflexivity | intros; reflexivity]. }
  cbn [Nat.add]. erewrite run_ops_step; [| subst pexit; lia | exact Hs].
  rewrite run_ops_end by (subst pexit; lia).
  eexists; eexists; split; [reflexivity|].
  subst m1. unfold after_body, add_stmt. cbn [m_fn m_stack f_stmts f_globals set_stmts]. rewrite Hnil. cbn [app].
  repeat split; try assumption.
  apply detect_plain. subst sts. rewrite forallb_app, plain_reify_body. reflexivity.
Qed.
Print Assumptions straight_handler.
