(* C03, counting loops: a  repeat with v = a to b  /  down to b  is compiled as an assignment and a while loop whose
   body ends in the step assignment (Spec/SpecFor.desugar), so execution and condition_detect are those of
   LingoNestExec / LingoNestFacts; here loop_detect is followed on the converted statement list: it recognises the
   pattern (previous statement assigns the variable, condition v <= b / v >= b, last statement adds 1 / -1 to it),
   rebuilds the header, drops the step and, at the end of the level, deletes the initial assignments. *)
From Coq Require Import ZArith List Bool String Lia.
From Coq.Strings Require Import Byte.
From DRX Require Import Py.PyBytes Py.PyStr Py.PyString Model.LingoAst Model.LingoGen Model.LingoOps Model.LingoLoop
  Spec.SpecLingo Spec.SpecFlow Spec.SpecNest Spec.SpecFor Gen.Gen_Lingo
  Proofs.PyBytesFacts Proofs.LingoExecFacts Proofs.LingoStmtFacts Proofs.LingoNestFacts Proofs.LingoNestExec.
Import ListNotations.
Open Scope list_scope.
Open Scope Z_scope.

(* ---- programs followed by programs ---- *)
Lemma compile_papp p q : compile_p (papp p q) = compile_p p ++ compile_p q.
Proof.
  induction p as [|s r IH|c a _ r IH|c a _ eb _ r IH|c a _ r IH]; cbn [papp compile_p].
  - reflexivity.
  - rewrite IH, app_assoc. reflexivity.
  - rewrite IH. rewrite <- !app_assoc. reflexivity.
  - rewrite IH. rewrite <- !app_assoc. reflexivity.
  - rewrite IH. rewrite <- !app_assoc. reflexivity.
Qed.

Lemma items_papp en props p q : forall pc,
  items en props pc (papp p q) = items en props pc p ++ items en props (pc + zlen (compile_p p)) q.
Proof.
  induction p as [|s r IH|c a _ r IH|c a _ eb _ r IH|c a _ r IH]; intros pc; cbn [papp items compile_p app].
  - rewrite zlen_nil, Z.add_0_r. reflexivity.
  - rewrite IH, zlen_app. f_equal. f_equal. f_equal. lia.
  - rewrite IH, !zlen_app. change (zlen (jz (3 + zlen (compile_p a)))) with 3. f_equal. f_equal. f_equal. lia.
  - rewrite IH, !zlen_app. change (zlen (jz (3 + zlen (compile_p a) + 3))) with 3. change (zlen (jmp (3 + zlen (compile_p eb)))) with 3.
    f_equal. f_equal. f_equal. lia.
  - rewrite IH, !zlen_app. change (zlen (jz (3 + zlen (compile_p a) + 2))) with 3. rewrite zlen_cons, zlen_cons, zlen_nil.
    f_equal. f_equal. f_equal. lia.
Qed.

(* ---- the pattern of a counting loop ---- *)
Lemma name_eq_refl n : name_eq n n = true.
Proof. unfold name_eq. rewrite Bool.eqb_reflx, String.eqb_refl. reflexivity. Qed.

Definition step_node (down : bool) (L : node) (p1 p2 p3 : Z) : node :=
  Stmt p3 (Binary "assign" p3 L (Binary "add" p2 (Leaf KConst (if down then "-1" else "1") p1 true) L)).

Lemma is_repeat_with_yes (down : bool) L p0 lo_n pc cr body p1 p2 p3 :
  is_repeat_with (Binary (if down then "gte" else "lte") pc L cr) (body ++ [step_node down L p1 p2 p3])
                 (Some (Stmt p0 (Binary "assign" p0 L lo_n))) = true.
Proof.
  unfold is_repeat_with, step_node. change (String.eqb "assign" "assign") with true. cbn [andb].
  rewrite rev_app_distr. cbn [rev app]. rewrite !name_eq_refl. change (String.eqb "add" "add") with true. cbn [andb is_const].
  destruct down; reflexivity.
Qed.

Lemma in_list_no cn pc k nm p fl cr body : is_const (Leaf k nm p fl) = false ->
  is_repeat_with_in_list (Binary cn pc (Leaf k nm p fl) cr) body = Ok None.
Proof. intros H. unfold is_repeat_with_in_list. destruct cr; try reflexivity. rewrite H. reflexivity. Qed.
