(* C03, counting loops: a  repeat with v = a to b  /  down to b  is compiled as an assignment and a while loop whose
   body ends in the step assignment (Spec/SpecFor.desugar), so execution and condition_detect are those of
   LingoNestExec / LingoNestFacts; here loop_detect is followed on the converted statement list: it recognises the
   pattern (previous statement assigns the variable, condition v <= b / v >= b, last statement adds 1 / -1 to it),
   rebuilds the header, drops the step and, at the end of the level, deletes the initial assignments. *)
From Coq Require Import ZArith List Bool String Lia.
From Coq.Strings Require Import Byte.
From DRX Require Import Py.PyBytes Py.PyStr Py.PyString Model.LingoAst Model.LingoGen Model.LingoOps Model.LingoLoop
  Spec.SpecLingo Spec.SpecFlow Spec.SpecNest Spec.SpecFor Gen.Gen_Lingo
  Proofs.PyBytesFacts Proofs.LingoExecFacts Proofs.LingoStmtFacts Proofs.LingoNestFacts Proofs.LingoNestExec.
Import ListNotations.
Open Scope list_scope.
Open Scope Z_scope.

(* ---- programs followed by programs ---- *)
Lemma compile_papp p q : compile_p (papp p q) = compile_p p ++ compile_p q.
Proof.
  induction p as [|s r IH|c a _ r IH|c a _ eb _ r IH|c a _ r IH|xoff r IH]; cbn [papp compile_p].
  - reflexivity.
  - rewrite IH, app_assoc. reflexivity.
  - rewrite IH. rewrite <- !app_assoc. reflexivity.
  - rewrite IH. rewrite <- !app_assoc. reflexivity.
  - rewrite IH. rewrite <- !app_assoc. reflexivity.
  - rewrite IH. rewrite <- !app_assoc. reflexivity.
Qed.

Lemma items_papp en props p q : forall pc,
  items en props pc (papp p q) = items en props pc p ++ items en props (pc + zlen (compile_p p)) q.
Proof.
  induction p as [|s r IH|c a _ r IH|c a _ eb _ r IH|c a _ r IH|xoff r IH]; intros pc; cbn [papp items compile_p app].
  - f_equal. cbn. lia.
  - rewrite IH, zlen_app. f_equal. f_equal. f_equal. lia.
  - rewrite IH, !zlen_app. change (zlen (jz (3 + zlen (compile_p a)))) with 3. f_equal. f_equal. f_equal. lia.
  - rewrite IH, !zlen_app. change (zlen (jz (3 + zlen (compile_p a) + 3))) with 3. change (zlen (jmp (3 + zlen (compile_p eb)))) with 3.
    f_equal. f_equal. f_equal. lia.
  - rewrite IH, !zlen_app. change (zlen (jz (3 + zlen (compile_p a) + 2))) with 3.
    rewrite !zlen_cons.
    f_equal. f_equal. f_equal. lia.
  - rewrite IH, zlen_app. change (zlen (jmp xoff)) with 3. f_equal. f_equal. f_equal. lia.
Qed.

Lemma exit_free_papp p q : exit_free p -> exit_free q -> exit_free (papp p q).
Proof.
  induction p as [|s r IH|c a _ r IH|c a _ eb _ r IH|c a _ r IH|xoff r IH]; cbn [papp exit_free]; intros Hp Hq;
    try tauto; repeat split; try tauto; apply IH; tauto.
Qed.
(* ---- the pattern of a counting loop ---- *)
Lemma name_eq_refl n : name_eq n n = true.
Proof. unfold name_eq. rewrite Bool.eqb_reflx, String.eqb_refl. reflexivity. Qed.

Definition step_node (down : bool) (L : node) (p1 p2 p3 : Z) : node :=
  Stmt p3 (Binary "assign" p3 L (Binary "add" p2 (Leaf KConst (if down then "-1" else "1") p1 true) L)).

Lemma is_repeat_with_yes (down : bool) L p0 lo_n pc cr body p1 p2 p3 :
  is_repeat_with (Binary (if down then "gte" else "lte") pc L cr) (body ++ [step_node down L p1 p2 p3])
                 (Some (Stmt p0 (Binary "assign" p0 L lo_n))) = true.
Proof.
  unfold is_repeat_with, step_node. change (String.eqb "assign" "assign") with true. cbn [andb].
  rewrite rev_app_distr. cbn [rev app]. rewrite !name_eq_refl. change (String.eqb "add" "add") with true. cbn [andb is_const].
  destruct down; reflexivity.
Qed.

Lemma in_list_no cn pc k nm p fl cr body : is_const (Leaf k nm p fl) = false ->
  is_repeat_with_in_list (Binary cn pc (Leaf k nm p fl) cr) body = Ok None.
Proof. intros H. unfold is_repeat_with_in_list. destruct cr; try reflexivity. rewrite H. reflexivity. Qed.

(* ---- node equality on statements is equality of positions ---- *)
Lemma node_eq_stmt p c p' c' : node_eq (Stmt p c) (Stmt p' c') = (p =? p').
Proof. reflexivity. Qed.

Definition spos (lo : Z) (st : node) : Prop := match st with Stmt p _ => lo <= p | _ => False end.
Definition shead (hi : Z) (st : node) : Prop := match st with Stmt p _ => p < hi | _ => False end.

Lemma spos_weaken lo lo' l : Forall (spos lo) l -> lo' <= lo -> Forall (spos lo') l.
Proof. intros H Hl. eapply Forall_impl; [|exact H]. intros x Hx. destruct x; try contradiction. cbn [spos] in *. lia. Qed.

(* removing, one after the other, elements that all lie after the head leaves the head in place *)
Lemma remove_all_skip_head x hi I : shead hi x -> Forall (spos hi) I -> forall X Y,
  remove_all I X = Ok Y -> remove_all I (x :: X) = Ok (x :: Y).
Proof.
  intros Hx HI. unfold remove_all. induction HI as [|i I Hi _ IH]; intros X Y H.
  - cbn in *. injection H as <-. reflexivity.
  - cbn [fold_left bind] in *.
    destruct (remove_first i X) as [X1|] eqn:E.
    + cbn [of_option] in H. cbn [remove_first].
      assert (Hne : node_eq x i = false).
      { destruct x; try contradiction. destruct i; try contradiction. cbn [shead spos] in *. rewrite node_eq_stmt. apply Z.eqb_neq. lia. }
      rewrite Hne, E. cbn [option_map of_option]. apply IH. exact H.
    + cbn [of_option] in H. exfalso.
      assert (Hf : forall l, fold_left (fun acc s => let! a := acc in of_option EValue (remove_first s a)) l (Err EValue) = Err EValue)
        by (induction l; [reflexivity | cbn [fold_left bind]; assumption]).
      rewrite Hf in H. discriminate H.
Qed.

Lemma remove_all_head x I X : node_eq x x = true -> remove_all (x :: I) (x :: X) = remove_all I X.
Proof. intros H. unfold remove_all. cbn [fold_left bind remove_first]. rewrite H. reflexivity. Qed.

(* ---- positions ---- *)
Lemma code2_nonneg q : 0 <= zlen (code2 q). Proof. apply zlen_nonneg. Qed.

Lemma reify_s_spos en props pc s : spos pc (reify_s en props pc s) /\ shead (pc + zlen (compile_s s)) (reify_s en props pc s).
Proof.
  pose proof (reify_s_pos en props pc s) as H.
  destruct s as [t e|f args|f args|fam pid o v|tk ti tv|an ao av|mp mi mm mv| |pmd pf pv|lmd li lv]; cbn [reify_s] in *; try (destruct (reify_args en pc args)); cbn [pos_of spos shead] in *; lia.
Qed.

Lemma for_lens down v lo hi :
  zlen (compile_s (for_init v lo)) = zlen (compile_e lo) + 2 /\
  zlen (compile_e (for_cond down v hi)) = 2 + zlen (compile_e hi) + 1 /\
  0 <= zlen (compile_s (for_step down v)).
Proof.
  split; [|split; [|apply zlen_nonneg]].
  - unfold for_init. cbn [compile_s compile_store]. rewrite zlen_app. reflexivity.
  - unfold for_cond. cbn [compile_e]. rewrite !zlen_app. change (zlen [b 76; b (scaled v)]) with 2.
    change (zlen [b (bcode (if down then Gte else Lte))]) with 1. lia.
Qed.

Lemma inits_spos en props : forall q pc, Forall (spos pc) (inits en props pc q).
Proof.
  induction q as [|s r IH|c a _ r IH|c a _ eb _ r IH|c a _ r IH|down v lo hi a _ r IH|xoff r IH]; intros pc; cbn [inits].
  - constructor.
  - apply (spos_weaken _ _ _ (IH _)). pose proof (zlen_nonneg (compile_s s)). lia.
  - apply (spos_weaken _ _ _ (IH _)). pose proof (zlen_nonneg (compile_e c)). pose proof (code2_nonneg a). lia.
  - apply (spos_weaken _ _ _ (IH _)). pose proof (zlen_nonneg (compile_e c)). pose proof (code2_nonneg a). pose proof (code2_nonneg eb). lia.
  - apply (spos_weaken _ _ _ (IH _)). pose proof (zlen_nonneg (compile_e c)). pose proof (code2_nonneg a). lia.
  - destruct (for_lens down v lo hi) as (L1 & L2 & L3). pose proof (zlen_nonneg (compile_e lo)). pose proof (zlen_nonneg (compile_e hi)).
    pose proof (code2_nonneg a).
    constructor; [apply reify_s_spos|]. apply (spos_weaken _ _ _ (IH _)). lia.
  - apply (spos_weaken _ _ _ (IH _)). lia.
Qed.

(* ---- deleting the initial assignments at the end of a level ---- *)
Lemma removal en props : forall q pc X,
  remove_all (inits en props pc q) (final_k true en props pc q ++ X) = Ok (final_k false en props pc q ++ X).
Proof.
  induction q as [|s r IH|c a _ r IH|c a _ eb _ r IH|c a _ r IH|down v lo hi a _ r IH|xoff r IH]; intros pc X; cbn [inits final_k app].
  - reflexivity.
  - apply (remove_all_skip_head _ (pc + zlen (compile_s s))); [apply reify_s_spos | apply inits_spos | apply IH].
  - pose proof (code2_nonneg a).
    apply (remove_all_skip_head _ (pc + zlen (compile_e c) + 3 + zlen (code2 a))); [cbn [shead]; lia | apply inits_spos | apply IH].
  - pose proof (code2_nonneg a). pose proof (code2_nonneg eb).
    apply (remove_all_skip_head _ (pc + zlen (compile_e c) + 3 + zlen (code2 a) + 3 + zlen (code2 eb))); [cbn [shead]; lia | apply inits_spos | apply IH].
  - pose proof (code2_nonneg a).
    apply (remove_all_skip_head _ (pc + zlen (compile_e c) + 3 + zlen (code2 a) + 2)); [unfold loop_stmt; cbn [shead]; lia | apply inits_spos | apply IH].
  - destruct (for_lens down v lo hi) as (L1 & L2 & L3). pose proof (code2_nonneg a).
    rewrite remove_all_head by (destruct (reify_s_spos en props pc (for_init v lo)) as [K _];
                                 destruct (reify_s en props pc (for_init v lo)); try contradiction; rewrite node_eq_stmt; apply Z.eqb_refl).
    match goal with |- remove_all ?I (Stmt ?pe ?c :: ?Y) = _ => apply (remove_all_skip_head _ (pe + 2)); [cbn [shead]; lia | apply inits_spos | apply IH] end.
  - apply (remove_all_skip_head _ (pc + 3)); [cbn [shead]; lia | apply inits_spos | apply IH].
Qed.

(* ---- the converted statement list of a program with counting loops ---- *)
Definition T (en : env) (props : list string) (pc : Z) (q : prog2) : list node := trees (items en props pc (desugar q)).

Fixpoint depth2 (q : prog2) : nat :=
  match q with
  | QNil => O
  | QStmt _ r => depth2 r
  | QIf _ a r => Nat.max (S (depth2 a)) (depth2 r)
  | QIfE _ a eb r => Nat.max (S (Nat.max (depth2 a) (depth2 eb))) (depth2 r)
  | QWhile _ a r => Nat.max (S (depth2 a)) (depth2 r)
  | QFor _ _ _ _ a r => Nat.max (S (depth2 a)) (depth2 r)
  | QExit _ r => depth2 r
  end.

Lemma str_of_int_1 : str_of_int 1 = "1"%string. Proof. reflexivity. Qed.
Lemma str_of_int_m1 : str_of_int (-1) = "-1"%string. Proof. reflexivity. Qed.

Lemma trees_snoc l x : trees (l ++ [x]) = trees l ++ [tree_i x].
Proof. rewrite trees_app. reflexivity. Qed.

Section LD.
  Variables (en : env) (props : list string).
  Variable f : nat.
  Hypothesis IHf : forall q pc, ok2 en q -> (depth2 q < f)%nat -> loop_detect (S f) (T en props pc q) = Ok (final en props pc q).

  Lemma fold_for : forall q pc, ok2 en q -> (depth2 q < S f)%nat -> forall out prev rm,
    exists prev', fold_left (ld_step (S f)) (T en props pc q) (Ok (out, prev, rm))
                  = Ok (out ++ final_k true en props pc q, prev', rm ++ inits en props pc q).
  Proof.
    unfold T.
    induction q as [|s r IH|c a _ r IH|c a _ eb _ r IH|c a _ r IH|down v lo hi a _ r IH|xoff r IH]; intros pc Hok Hd out prev rm;
      cbn [desugar items trees final_k inits depth2 ok2] in *.
    - exists prev. rewrite !app_nil_r. reflexivity.
    - cbn [tree_i fold_left].
      assert (Es : ld_step (S f) (Ok (out, prev, rm)) (reify_s en props pc s)
                   = Ok (out ++ [reify_s en props pc s], Some (reify_s en props pc s), rm)).
      { pose proof (reify_s_plain en props pc s) as Hp. destruct (reify_s en props pc s); try discriminate Hp.
        destruct n; try discriminate Hp; reflexivity. }
      rewrite Es. destruct (IH (pc + zlen (compile_s s)) Hok Hd (out ++ [reify_s en props pc s]) (Some (reify_s en props pc s)) rm) as [p' E].
      exists p'. rewrite E, <- app_assoc. reflexivity.
    - destruct Hok as [Ha Hr]. rewrite tree_if. cbn [fold_left].
      set (pj := pc + zlen (compile_e c)). fold (code2 a).
      assert (Es : ld_step (S f) (Ok (out, prev, rm)) (Stmt pj (IfThen pj (reify_e en pc c) (trees (items en props (pj + 3) (desugar a))) []))
                   = Ok (out ++ [Stmt pj (IfThen pj (reify_e en pc c) (final_k false en props (pj + 3) a) [])],
                         Some (Stmt pj (IfThen pj (reify_e en pc c) (final_k false en props (pj + 3) a) [])), rm)).
      { cbn [ld_step bind]. fold (T en props (pj + 3) a). rewrite (IHf a (pj + 3) Ha) by lia. cbn [bind]. rewrite loop_detect_nil. reflexivity. }
      rewrite Es. destruct (IH (pj + 3 + zlen (code2 a)) Hr ltac:(lia) (out ++ [Stmt pj (IfThen pj (reify_e en pc c) (final_k false en props (pj + 3) a) [])])
                               (Some (Stmt pj (IfThen pj (reify_e en pc c) (final_k false en props (pj + 3) a) []))) rm) as [p' E].
      exists p'. unfold code2 in *. rewrite E, <- app_assoc. reflexivity.
    - destruct Hok as (Ha & He & Hr). rewrite tree_ife. cbn [fold_left].
      set (pj := pc + zlen (compile_e c)). fold (code2 a). fold (code2 eb).
      set (jp := pj + 3 + zlen (code2 a)).
      assert (Es : ld_step (S f) (Ok (out, prev, rm)) (Stmt pj (IfThen pj (reify_e en pc c) (trees (items en props (pj + 3) (desugar a))) (trees (items en props (jp + 3) (desugar eb)))))
                   = Ok (out ++ [Stmt pj (IfThen pj (reify_e en pc c) (final_k false en props (pj + 3) a) (final_k false en props (jp + 3) eb))],
                         Some (Stmt pj (IfThen pj (reify_e en pc c) (final_k false en props (pj + 3) a) (final_k false en props (jp + 3) eb))), rm)).
      { cbn [ld_step bind]. fold (T en props (pj + 3) a). rewrite (IHf a (pj + 3) Ha) by lia. cbn [bind].
        fold (T en props (jp + 3) eb). rewrite (IHf eb (jp + 3) He) by lia. reflexivity. }
      unfold code2 in *. rewrite Es.
      destruct (IH (jp + 3 + zlen (compile_p (desugar eb))) Hr ltac:(lia) (out ++ [Stmt pj (IfThen pj (reify_e en pc c) (final_k false en props (pj + 3) a) (final_k false en props (jp + 3) eb))])
                   (Some (Stmt pj (IfThen pj (reify_e en pc c) (final_k false en props (pj + 3) a) (final_k false en props (jp + 3) eb)))) rm) as [p' E].
      exists p'. rewrite E, <- app_assoc. reflexivity.
    - destruct Hok as (Hc & Ha & Hr). rewrite tree_while. cbn [fold_left].
      set (pj := pc + zlen (compile_e c)). fold (code2 a).
      set (pe := pj + 3 + zlen (code2 a)).
      assert (Es : ld_step (S f) (Ok (out, prev, rm)) (loop_stmt pc pe (true_at pc) (exit_if pj (reify_e en pc c) :: trees (items en props (pj + 3) (desugar a))))
                   = Ok (out ++ [loop_stmt pc pe (reify_e en pc c) (final_k false en props (pj + 3) a)],
                         Some (loop_stmt pc pe (reify_e en pc c) (final_k false en props (pj + 3) a)), rm)).
      { unfold loop_stmt, exit_if. cbn [ld_step bind is_repeat_while]. change (String.eqb "not" "not") with true. cbn [tl].
        rewrite (is_repeat_with_no _ _ prev (Hc pc)), (is_repeat_with_in_list_no _ _ (Hc pc)). cbn [bind].
        fold (T en props (pj + 3) a). rewrite (IHf a (pj + 3) Ha) by lia. reflexivity. }
      unfold code2 in *. rewrite Es.
      destruct (IH (pe + 2) Hr ltac:(lia) (out ++ [loop_stmt pc pe (reify_e en pc c) (final_k false en props (pj + 3) a)])
                   (Some (loop_stmt pc pe (reify_e en pc c) (final_k false en props (pj + 3) a))) rm) as [p' E].
      exists p'. rewrite E, <- app_assoc. reflexivity.
    - (* the counting loop: the initial assignment, then the loop with the step as last statement *)
      destruct Hok as (Hv & Ha & Hr).
      rewrite tree_while. cbn [tree_i fold_left].
      rewrite items_papp. cbn [items]. rewrite trees_snoc. cbn [tree_i].
      set (L := nth v (e_locals en) (Leaf KLocal "" 0 true)) in *.
      set (ps := pc + zlen (compile_s (for_init v lo))).
      set (cnd := for_cond down v hi).
      set (pj := ps + zlen (compile_e cnd)).
      set (pstep := pj + 3 + zlen (compile_p (desugar a))).
      rewrite compile_papp, zlen_app. cbn [compile_p]. rewrite app_nil_r.
      set (pe := pj + 3 + (zlen (compile_p (desugar a)) + zlen (compile_s (for_step down v)))).
      (* the initial assignment is a plain statement *)
      assert (Ei : reify_s en props pc (for_init v lo) = Stmt (pc + zlen (compile_e lo)) (Binary "assign" (pc + zlen (compile_e lo)) L (reify_e en pc lo)))
        by reflexivity.
      rewrite Ei. cbn [ld_step bind].
      (* the loop statement *)
      assert (Ec : reify_e en ps cnd = Binary (if down then "gte" else "lte") (ps + 2 + zlen (compile_e hi)) L (reify_e en (ps + 2) hi)).
      { unfold cnd, for_cond. cbn [reify_e compile_e]. change (zlen [b 76; b (scaled v)]) with 2. destruct down; reflexivity. }
      assert (Est : reify_s en props pstep (for_step down v) = step_node down L pstep (pstep + zlen (compile_int (if down then -1 else 1)) + 2)
                                                                (pstep + zlen (compile_e (EBin Add (EInt (if down then -1 else 1)) (ELoc v))))).
      { unfold for_step, step_node. cbn [reify_s reify_e target_node compile_e]. rewrite !zlen_app.
        change (zlen [b 76; b (scaled v)]) with 2. change (zlen [b (bcode Add)]) with 1.
        destruct down; cbn [bname]; rewrite ?str_of_int_1, ?str_of_int_m1; do 3 f_equal; try lia; f_equal; lia. }
      rewrite Est, Ec.
      unfold loop_stmt, exit_if. cbn [ld_step bind is_repeat_while]. change (String.eqb "not" "not") with true. cbn [tl].
      rewrite is_repeat_with_yes. rewrite rev_app_distr. cbn [rev app]. unfold step_node at 1. rewrite rev_involutive.
      assert (HL : is_const L = false) by (subst L; destruct (nth v (e_locals en) (Leaf KLocal "" 0 true)); try contradiction; destruct k; try contradiction; reflexivity).
      assert (Einl : is_repeat_with_in_list (Binary (if down then "gte" else "lte") (ps + 2 + zlen (compile_e hi)) L (reify_e en (ps + 2) hi))
                                            (trees (items en props (pj + 3) (desugar a))) = Ok None).
      { subst L. destruct (nth v (e_locals en) (Leaf KLocal "" 0 true)); try contradiction. apply in_list_no. exact HL. }
      rewrite Einl. cbn [bind]. fold (T en props (pj + 3) a). rewrite (IHf a (pj + 3) Ha) by lia. cbn [bind].
      unfold code2 in *.
      match goal with |- exists p', fold_left _ _ (Ok (?o, ?pv, ?r0)) = _ =>
        destruct (IH (pe + 2) Hr ltac:(lia) o pv r0) as [p1 E] end.
      exists p1. 
      replace (pj + 3 + zlen (compile_p (desugar a)) + zlen (compile_s (for_step down v)) + 2) with (pe + 2) by (subst pe; lia).
      replace (ps + zlen (compile_e (for_cond down v hi)) + 3 + zlen (compile_p (desugar a)) + zlen (compile_s (for_step down v)) + 2) with (pe + 2)
        by (subst pe pj cnd; lia).
      rewrite E. 
      assert (Hsign : (if is_const (Leaf KConst (if down then "-1" else "1")%string pstep true) && name_is (Leaf KConst (if down then "-1" else "1")%string pstep true) "-1"
                       then "-"%string else "+"%string) = (if down then "-" else "+")%string) by (destruct down; reflexivity).
      rewrite Hsign. unfold final.
      replace (pj + 3 + zlen (compile_p (desugar a)) + zlen (compile_s (for_step down v))) with pe by (subst pe; lia).
      rewrite <- !app_assoc. reflexivity.
    - (* exit repeat: already a statement of its own *)
      cbn [tree_i fold_left ld_step bind].
      destruct (IH (pc + 3) Hok Hd (out ++ [Stmt pc (ExitRepeat pc)]) (Some (Stmt pc (ExitRepeat pc))) rm) as [p' E].
      exists p'. rewrite E, <- app_assoc. reflexivity.
  Qed.
End LD.

(* ---- loop_detect on a whole level, followed by plain statements (the handler's exit) ---- *)
Lemma ld_plain_tail f : forall tl out prev rm, forallb plain_stmt tl = true ->
  exists prev', fold_left (ld_step f) tl (Ok (out, prev, rm)) = Ok (out ++ tl, prev', rm).
Proof.
  induction tl as [|st tl IH]; intros out prev rm H; [exists prev; rewrite app_nil_r; reflexivity|].
  cbn [forallb] in H. apply andb_true_iff in H. destruct H as [H1 H2]. cbn [fold_left].
  assert (Es : ld_step f (Ok (out, prev, rm)) st = Ok (out ++ [st], Some st, rm))
    by (destruct st; try discriminate H1; destruct st; try discriminate H1; reflexivity).
  rewrite Es. destruct (IH (out ++ [st]) (Some st) rm H2) as [p' E]. exists p'. rewrite E, <- app_assoc. reflexivity.
Qed.

Theorem loop_detect_for en props : forall f q pc tl, ok2 en q -> (depth2 q < f)%nat -> forallb plain_stmt tl = true ->
  loop_detect (S f) (T en props pc q ++ tl) = Ok (final en props pc q ++ tl).
Proof.
  induction f as [|f IHf]; intros q pc tl Hok Hd Htl; [lia|].
  rewrite loop_detect_unfold, fold_left_app.
  assert (IH0 : forall q pc, ok2 en q -> (depth2 q < f)%nat -> loop_detect (S f) (T en props pc q) = Ok (final en props pc q)).
  { intros q0 pc0 H0 Hd0. pose proof (IHf q0 pc0 [] H0 Hd0 eq_refl) as E. rewrite !app_nil_r in E. exact E. }
  destruct (fold_for en props f IH0 q pc Hok Hd [] None []) as [p1 E1]. rewrite E1.
  destruct (ld_plain_tail (S f) tl ([] ++ final_k true en props pc q) p1 ([] ++ inits en props pc q) Htl) as [p2 E2]. rewrite E2.
  cbn [bind app]. apply removal.
Qed.
Print Assumptions loop_detect_for.

(* ---- depth of the desugared items ---- *)
Lemma depths_app l1 l2 : depths (l1 ++ l2) = Nat.max (depths l1) (depths l2).
Proof. induction l1 as [|x r IH]; [reflexivity|]. cbn [app depths]. rewrite IH. lia. Qed.

Lemma depth2_le en props : forall q pc, (depth2 q <= depths (items en props pc (desugar q)))%nat.
Proof.
  induction q as [|s r IH|c a IHa r IH|c a IHa eb IHe r IH|c a IHa r IH|down v lo hi a IHa r IH|xoff r IH]; intros pc; cbn [desugar items depth2].
  - reflexivity.
  - rewrite depths_cons. specialize (IH (pc + zlen (compile_s s))). cbn [depth_i]. lia.
  - rewrite depths_cons, depth_if. specialize (IHa (pc + zlen (compile_e c) + 3)). specialize (IH (pc + zlen (compile_e c) + 3 + zlen (compile_p (desugar a)))). lia.
  - rewrite depths_cons, depth_ife. specialize (IHa (pc + zlen (compile_e c) + 3)).
    specialize (IHe (pc + zlen (compile_e c) + 3 + zlen (compile_p (desugar a)) + 3)).
    specialize (IH (pc + zlen (compile_e c) + 3 + zlen (compile_p (desugar a)) + 3 + zlen (compile_p (desugar eb)))). lia.
  - rewrite depths_cons, depth_while. specialize (IHa (pc + zlen (compile_e c) + 3)).
    specialize (IH (pc + zlen (compile_e c) + 3 + zlen (compile_p (desugar a)) + 2)). lia.
  - rewrite !depths_cons, depth_while, items_papp, depths_app.
    specialize (IHa (pc + zlen (compile_s (for_init v lo)) + zlen (compile_e (for_cond down v hi)) + 3)).
    match goal with |- context [items en props ?x (desugar r)] => specialize (IH x) end. cbn [depth_i]. lia.
  - rewrite depths_cons. specialize (IH (pc + 3)). cbn [depth_i]. lia.
Qed.

Lemma depth_le_count_any wc : forall l lo hi, @wp wc lo hi l ->
  (depths l <= stmts_count (flats l))%nat /\ (depths l <= stmts_count (trees l))%nat.
Proof.
  induction 1 as [lo hi H | lo hi st r Hp Hlo Hr IH | lo hi p c a body r Hlo Hne Hb IHb Hr IHr
                 | lo hi p c eb body jp je ebody r Hlo Hne Hne' Hb IHb Hj He IHe Hr IHr
                 | lo hi done ps pj c pe body r Hlo Hpj Hc Hb IHb Hx Hr IHr
                 | lo hi conv xp xt r Hlo Hr IHr].
  - split; reflexivity.
  - destruct IH as [I1 I2]. unfold stmts_count in *. cbn [flats flat_i trees tree_i app depths depth_i fold_right]. rewrite Nat.max_0_l. split; lia.
  - destruct IHb as [B1 B2]. destruct IHr as [R1 R2]. rewrite depths_cons, depth_if. cbn [flats trees]. rewrite flat_if, tree_if.
    unfold stmts_count in *. cbn [app fold_right stmt_count]. rewrite fold_right_app.
    rewrite (count_split (flats body)). split; lia.
  - destruct IHb as [B1 B2]. destruct IHe as [E1 E2]. destruct IHr as [R1 R2]. rewrite depths_cons, depth_ife. cbn [flats trees]. rewrite flat_ife, tree_ife.
    unfold stmts_count in *. cbn [app fold_right stmt_count]. rewrite !fold_right_app. cbn [fold_right stmt_count].
    rewrite (count_split (flats body)), (count_split (flats ebody)). split; lia.
  - destruct IHb as [B1 B2]. destruct IHr as [R1 R2]. rewrite depths_cons, depth_while. cbn [flats trees]. rewrite flat_while, tree_while.
    unfold stmts_count, loop_stmt, exit_if in *. cbn [app fold_right stmt_count]. destruct done; cbn [fold_right stmt_count]; split; lia.
  - destruct IHr as [R1 R2]. rewrite depths_cons. unfold stmts_count in *. cbn [flats flat_i trees tree_i app depth_i fold_right]. rewrite Nat.max_0_l.
    destruct conv; cbn [stmt_count]; split; lia.
Qed.

(* ---- a whole handler with counting loops ---- *)
Definition any_cond (c : node) : bool := true.

Theorem for_handler en props q d off fuel r m :
  wf_p any_cond en (desugar q) -> exits_ok None (desugar q) -> ok2 en q -> agrees_p en props m -> m_stack m = [] -> f_stmts (m_fn m) = [] ->
  code_at d off (code2 q ++ [b 1]) ->
  let pexit := off + zlen (code2 q) in
  let exit_st := Stmt pexit (Call "exit" pexit None true false false) in
  exists r' m',
    run_ops (ninstr_p (desugar q) + (1 + fuel)) d off (zlen (code2 q ++ [b 1])) off r m = Ok (r', m') /\
    detect (f_stmts (m_fn m')) = Ok (final en props off q ++ [exit_st]).
Proof.
  intros Hwf Hxk Hok Hag Hst Hnil Hc pexit exit_st. unfold code2 in *. set (p := desugar q) in *.
  rewrite zlen_app, zlen_cons, zlen_nil in *.
  apply code_at_app in Hc. destruct Hc as [Hcb Hce]. pose proof (zlen_nonneg (compile_p p)).
  assert (Hsi : sinv off m) by (unfold sinv; rewrite Hnil; constructor).
  destruct (exec_p any_cond en props p Hwf None Hxk d off (zlen (compile_p p) + (1 + 0)) off (1 + fuel)%nat r m Hag Hst Hsi Hcb ltac:(lia) ltac:(lia)) as [r1 E1].
  rewrite E1. set (m1 := after_p en props off p m).
  assert (Hs : step d pexit r1 m1 = Ok (pexit + 1, r1, add_stmt m1 pexit (Call "exit" pexit None true false false))).
  { apply (step_1 d pexit r1 m1 (b 1) "ExitOpcode" "" OExit _ Hce); [vm_compute; reflexivity | reflexivity | intros; reflexivity]. }
  cbn [Nat.add]. erewrite run_ops_step; [| subst pexit; lia | exact Hs].
  rewrite run_ops_end by (subst pexit; lia).
  eexists; eexists; split; [reflexivity|].
  destruct (after_p_facts en props p off m Hag) as (_ & _ & Hsts).
  assert (Hf : f_stmts (m_fn (add_stmt m1 pexit (Call "exit" pexit None true false false))) = flats (items en props off p) ++ [exit_st]).
  { unfold add_stmt. cbn [m_fn f_stmts set_stmts]. subst m1. rewrite Hsts, Hnil. reflexivity. }
  rewrite Hf.
  assert (Hwp0 : @wp any_cond off pexit (items en props off p)) by (apply (items_wp _ _ _ _ _ None); [exact Hwf | exact Hxk]).
  assert (Hwp : @wp any_cond off (pexit + 1) (items en props off p ++ [IPlain exit_st])).
  { apply (wp_app off pexit); [exact Hwp0|].
    apply wp_plain; [reflexivity | cbn [pos_of exit_st]; lia | apply wp_nil; cbn [pos_of exit_st]; lia]. }
  assert (Hxd : exits_done (items en props off p ++ [IPlain exit_st]) = true)
    by (rewrite exits_done_app, (items_exits_done en props p off Hxk); reflexivity).
  unfold detect.
  destruct (depth_le_count_any any_cond _ _ _ Hwp) as [H1 H2].
  pose proof (condition_detect_nest (S (S (stmts_count (flats (items en props off p) ++ [exit_st])))) None
                (items en props off p ++ [IPlain exit_st]) off (pexit + 1) [] Hwp Hxd I (Forall_nil _) (Forall_nil _)) as Ecd.
  rewrite flats_app, trees_app in Ecd. cbn [flats flat_i trees tree_i app] in Ecd. rewrite ?app_nil_r in Ecd.
  rewrite flats_app in H1. cbn [flats flat_i app] in H1. rewrite ?app_nil_r in H1.
  rewrite Ecd by lia. cbn [bind].
  fold (T en props off q). 
  rewrite trees_app in H2. cbn [trees tree_i] in H2.
  apply (loop_detect_for en props _ q off [exit_st] Hok); [|reflexivity].
  pose proof (depth2_le en props q off) as Hd2. rewrite depths_app in H2. unfold T. subst p. lia.
Qed.
Print Assumptions for_handler.
