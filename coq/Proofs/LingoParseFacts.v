(* C02, text level (2): the precedence parser reads the canonical token list of an expression back as that
   expression (printer / parser round trip, any depth and width). *)
From Coq Require Import ZArith List Bool String Lia.
From DRX Require Import Py.PyBytes Py.PyStr Py.PyString Model.LingoAst Model.LingoGen Model.LingoOps Spec.SpecLingo Spec.SpecText
  Proofs.LingoExecFacts.
Import ListNotations.
Open Scope list_scope.
Local Notation length := List.length (only parsing).

Fixpoint size (e : expr) {struct e} : nat :=
  let sizes := fix sizes (l : list expr) : nat := match l with [] => O | x :: r => (size x + sizes r)%nat end in
  match e with
  | EBin _ x y => S (size x + size y)
  | ENeg x | ENot x | EObj _ _ x | EAcc _ x | EField x => S (size x)
  | EMenu _ x y => S (size x + size y)
  | ECall _ l | ELCall _ l | EList l | EPList l => S (sizes l)
  | _ => 1%nat
  end.
Fixpoint sizes (l : list expr) : nat := match l with [] => O | x :: r => (size x + sizes r)%nat end.
Lemma sizes_eq l : (fix sizes (l : list expr) : nat := match l with [] => O | x :: r => (size x + sizes r)%nat end) l = sizes l.
Proof. induction l as [|x r IH]; simpl; [reflexivity|]. rewrite IH. reflexivity. Qed.
Lemma size_pos e : (1 <= size e)%nat.
Proof. destruct e; simpl; lia. Qed.

Lemma strip_app a b : strip (a ++ b) = strip a ++ strip b.
Proof. apply filter_app. Qed.

Definition rest_ok (r : list tok) : Prop := match r with TLP :: _ => False | _ => True end.
Definition stops (r : list tok) : Prop := match r with TOp _ :: _ => False | _ => True end.

Lemma parse_loop_stop f lvl a ts : stops ts -> parse_loop (S f) lvl a ts = Some (a, ts).
Proof. intros H. cbn [parse_loop]. destruct ts as [|t r]; [reflexivity|]. destruct t; try reflexivity. contradiction. Qed.

Definition pe (f : nat) (ts : list tok) : option (expr * list tok) :=
  match parse_u f ts with Some (a, r) => parse_loop f 1 a r | None => None end.

(* the first token of a printed expression never is a closing bracket, separator, operator or blank *)
Definition head_ok (ts : list tok) : Prop :=
  match ts with
  | t :: _ => match t with TRP | TRB | TComma | TColon | TOp _ | TSp => False | _ => True end
  | [] => False
  end.
Lemma head_ok_app a b : head_ok a -> head_ok (a ++ b).
Proof. destruct a; simpl; [contradiction|auto]. Qed.
(* a printed expression never starts with the bare-identifier token *)
Lemma pp_not_raw en e rest : let ts := strip (pp_tok en e) ++ rest in match ts with TRawInt _ :: _ | TRawConst _ :: _ => False | _ => True end.
Proof.
  cbv zeta. destruct e; cbn [pp_tok strip filter app]; try exact I.
  - destruct (is_sprite_op o); exact I.
  - destruct args; exact I.
  - destruct args; exact I.
  - destruct items; exact I.
Qed.

Lemma pp_head en e : head_ok (strip (pp_tok en e)).
Proof.
  destruct e; cbn [pp_tok]; try exact I.
  - destruct (is_sprite_op o); exact I.
  - destruct args; exact I.
  - destruct args; exact I.
  - destruct items; exact I.
Qed.

Definition P (en : env) (e : expr) : Prop :=
  forall fuel rest, (3 * size e <= fuel)%nat -> rest_ok rest -> parse_u fuel (strip (pp_tok en e) ++ rest) = Some (e, rest).

Lemma prec_pos o : is_sprite_op o = false -> (1 <=? prec o)%nat = true.
Proof. destruct o; intros H; try discriminate H; reflexivity. Qed.

(* a full expression followed by a token that ends it *)
Lemma pe_ok en e f rest : P en e -> (3 * size e <= f)%nat -> rest_ok rest -> stops rest ->
  pe f (strip (pp_tok en e) ++ rest) = Some (e, rest).
Proof.
  intros HP Hf Hr Hs. unfold pe. rewrite (HP f rest Hf Hr).
  destruct f as [|f']; [pose proof (size_pos e); lia|]. apply parse_loop_stop. exact Hs.
Qed.

Lemma sep_cons2 (x y : list tok) r : sep_toks (x :: y :: r) = x ++ [TComma; TSp] ++ sep_toks (y :: r).
Proof. reflexivity. Qed.

Lemma args_ok en f : forall l, l <> [] -> Forall (P en) l -> (forall x, In x l -> (3 * size x <= f)%nat) ->
  forall g t rest, (length l <= g)%nat -> (t = TRP \/ t = TRB) ->
  args_loop (pe f) g (strip (sep_toks (map (pp_tok en) l)) ++ t :: rest) = Some (l, t :: rest).
Proof.
  induction l as [|x l IH]; intros Hne HP Hsz g t rest Hg Ht; [contradiction|].
  inversion HP as [|? ? Hx Hl]; subst.
  destruct g as [|g']; [cbn [length] in Hg; lia|].
  destruct l as [|y r].
  - cbn [map sep_toks args_loop].
    rewrite (pe_ok en x f (t :: rest) Hx (Hsz x (or_introl eq_refl))); [| destruct Ht as [-> | ->]; exact I | destruct Ht as [-> | ->]; exact I].
    destruct Ht as [-> | ->]; reflexivity.
  - cbn [map]. rewrite sep_cons2. rewrite !strip_app. cbn [strip filter app]. fold (strip (sep_toks (pp_tok en y :: map (pp_tok en) r))).
    rewrite <- !app_assoc. cbn [app args_loop].
    rewrite (pe_ok en x f (TComma :: _) Hx (Hsz x (or_introl eq_refl)) I I).
    change (pp_tok en y :: map (pp_tok en) r) with (map (pp_tok en) (y :: r)).
    rewrite (IH ltac:(discriminate) Hl (fun z Hz => Hsz z (or_intror Hz)) g' t rest ltac:(cbn [length] in *; lia) Ht).
    reflexivity.
Qed.

(* the tokens that follow the first value of a property list: ", k: v, ..." *)
Definition more_pairs (en : env) (l : list expr) : list tok :=
  match l with [] => [] | _ => TComma :: strip (sep_toks (pair_toks (map (pp_tok en) l))) end.

Lemma strip_pairs en k v l : Nat.even (length l) = true ->
  strip (sep_toks (pair_toks (map (pp_tok en) (k :: v :: l))))
  = strip (pp_tok en k) ++ TColon :: strip (pp_tok en v) ++ more_pairs en l.
Proof.
  intros Hev. cbn [map pair_toks].
  destruct l as [|k2 [|v2 l']].
  - cbn [map pair_toks sep_toks more_pairs]. rewrite !strip_app. cbn [strip filter app]. rewrite ?app_nil_r. reflexivity.
  - discriminate Hev.
  - change (pair_toks (map (pp_tok en) (k2 :: v2 :: l'))) with
      ((pp_tok en k2 ++ [TColon; TSp] ++ pp_tok en v2) :: pair_toks (map (pp_tok en) l')).
    rewrite sep_cons2. rewrite !strip_app. cbn [strip filter app more_pairs].
    change (pair_toks (map (pp_tok en) (k2 :: v2 :: l'))) with
      ((pp_tok en k2 ++ [TColon; TSp] ++ pp_tok en v2) :: pair_toks (map (pp_tok en) l')).
    rewrite <- !app_assoc. reflexivity.
Qed.

Lemma pairs_ok en f : forall l k v, Nat.even (length l) = true -> Forall (P en) (k :: v :: l) ->
  (forall x, In x (k :: v :: l) -> (3 * size x <= f)%nat) ->
  forall g rest, (length l <= 2 * g - 2)%nat -> (1 <= g)%nat ->
  pairs_loop (pe f) g k (strip (pp_tok en v) ++ more_pairs en l ++ TRB :: rest) = Some (k :: v :: l, rest).
Proof.
  fix IH 1. intros [|k2 [|v2 l']] k v Hev HP Hsz g rest Hg Hg1; try discriminate Hev.
  - inversion HP as [|? ? Hk HP1]; subst. inversion HP1 as [|? ? Hv _]; subst.
    destruct g as [|g']; [lia|]. cbn [more_pairs app pairs_loop].
    rewrite (pe_ok en v f (TRB :: rest) Hv (Hsz v (or_intror (or_introl eq_refl))) I I). reflexivity.
  - inversion HP as [|? ? Hk HP1]; subst. inversion HP1 as [|? ? Hv HP2]; subst.
    inversion HP2 as [|? ? Hk2 HP3]; subst.
    destruct g as [|g']; [lia|]. cbn [more_pairs].
    rewrite (strip_pairs en k2 v2 l' Hev). cbn [app]. rewrite <- ?app_assoc. cbn [app]. rewrite <- ?app_assoc. cbn [app pairs_loop].
    rewrite (pe_ok en v f (TComma :: _) Hv (Hsz v (or_intror (or_introl eq_refl))) I I).
    rewrite (pe_ok en k2 f (TColon :: _) Hk2 (Hsz k2 (or_intror (or_intror (or_introl eq_refl)))) I I).
    rewrite (IH l' k2 v2 Hev HP2 (fun z Hz => Hsz z (or_intror (or_intror Hz))) g' rest ltac:(cbn [length] in *; lia) ltac:(cbn [length] in *; lia)).
    reflexivity.
Qed.

(* ---- how parse_u dispatches on the leading tokens (the alternatives are told apart by head_ok) ---- *)
Lemma parse_u_fun f fn ts : head_ok ts ->
  parse_u (S f) (TFun fn :: TLP :: ts) = match args_loop (pe f) f ts with Some (es, TRP :: r') => Some (ECall fn es, r') | _ => None end.
Proof. destruct ts as [|t r]; [contradiction|]. destruct t; intros H; try contradiction; reflexivity. Qed.
Lemma parse_u_lfun f fn ts :
  parse_u (S f) (TLFun fn :: TLP :: ts) = match args_loop (pe f) f ts with Some (es, TRP :: r') => Some (ELCall fn es, r') | _ => None end.
Proof. reflexivity. Qed.
Lemma parse_u_lfun0 f fn rest : rest_ok rest -> parse_u (S f) (TLFun fn :: rest) = Some (ELCall fn [], rest).
Proof. destruct rest as [|t r]; [reflexivity|]. destruct t; intros H; try contradiction; reflexivity. Qed.
Lemma parse_u_list f ts : head_ok ts ->
  parse_u (S f) (TLB :: ts) =
  match pe f ts with
  | Some (k, TColon :: r1) => match pairs_loop (pe f) f k r1 with Some (kv, r') => Some (EPList kv, r') | None => None end
  | Some (e, TComma :: r1) => match args_loop (pe f) f r1 with Some (es, TRB :: r') => Some (EList (e :: es), r') | _ => None end
  | Some (e, TRB :: r') => Some (EList [e], r')
  | _ => None
  end.
Proof. destruct ts as [|t r]; [contradiction|]. destruct t; intros H; try contradiction; reflexivity. Qed.
Lemma parse_u_paren f ts :
  parse_u (S f) (TLP :: ts) = match pe f ts with Some (e, TRP :: r') => Some (e, r') | _ => None end.
Proof. reflexivity. Qed.

(* every property list has an even number of elements *)
Fixpoint lists_even (e : expr) {struct e} : Prop :=
  let all := fix all (l : list expr) : Prop := match l with [] => True | x :: r => lists_even x /\ all r end in
  match e with
  | EBin _ x y => lists_even x /\ lists_even y
  | ENeg x | ENot x | EField x => lists_even x
  | ECall _ l | ELCall _ l | EList l => all l
  | EPList l => Nat.even (length l) = true /\ all l
  | EObj _ _ x | EAcc _ x => lists_even x
  | EMenu _ x y => lists_even x /\ lists_even y
  | _ => True
  end.
Fixpoint lists_even_all (l : list expr) : Prop := match l with [] => True | x :: r => lists_even x /\ lists_even_all r end.
Lemma lists_even_all_eq l :
  (fix all (l : list expr) : Prop := match l with [] => True | x :: r => lists_even x /\ all r end) l = lists_even_all l.
Proof. induction l as [|x r IH]; cbn [lists_even_all]; [reflexivity|]. rewrite IH. reflexivity. Qed.

Lemma size_in x l : In x l -> (size x <= sizes l)%nat.
Proof. induction l as [|y r IH]; intros H; [contradiction|]. cbn [sizes]. destruct H as [->|H]; [lia|]. specialize (IH H). lia. Qed.
Lemma length_sizes l : (length l <= sizes l)%nat.
Proof. induction l as [|y r IH]; cbn [length sizes]; [lia|]. pose proof (size_pos y). lia. Qed.

Definition PP (en : env) (e : expr) : Prop := lists_even e -> P en e.
Definition QQ (en : env) (l : list expr) : Prop := lists_even_all l -> Forall (P en) l.

Ltac fuelS fuel f := destruct fuel as [|f]; [exfalso; cbn [size] in *; lia|].

Theorem parse_pp en : forall e, PP en e.
Proof.
  apply (expr_ind2 (PP en) (QQ en)); unfold PP, P.
  - intros n _ fuel rest Hf Hr. fuelS fuel f. reflexivity.
  - intros k _ fuel rest Hf Hr. fuelS fuel f. reflexivity.
  - intros n _ fuel rest Hf Hr. fuelS fuel f. reflexivity.
  - intros i _ fuel rest Hf Hr. fuelS fuel f. reflexivity.
  - intros i _ fuel rest Hf Hr. fuelS fuel f. reflexivity.
  - intros n _ fuel rest Hf Hr. fuelS fuel f. reflexivity.
  - intros n _ fuel rest Hf Hr. fuelS fuel f. reflexivity.
  - (* binary *) intros o x y IHx IHy [Hx Hy] fuel rest Hf Hr. cbn [size] in Hf. cbn [pp_tok].
    pose proof (size_pos x). pose proof (size_pos y).
    destruct (is_sprite_op o) eqn:Eo.
    + (* sprite a op b *)
      rewrite !strip_app. cbn [strip filter app]. repeat rewrite <- app_assoc. cbn [app]. repeat rewrite <- app_assoc. cbn [app].
      fuelS fuel f. cbn [parse_u].
      rewrite (IHx Hx f (TOp o :: _) ltac:(lia) I). rewrite Eo.
      rewrite (IHy Hy f rest ltac:(lia) Hr). reflexivity.
    + (* ( a op b ) *)
      rewrite !strip_app. cbn [strip filter app]. repeat rewrite <- app_assoc. cbn [app]. repeat rewrite <- app_assoc. cbn [app].
      fuelS fuel f. rewrite parse_u_paren. unfold pe.
      rewrite (IHx Hx f (TOp o :: _) ltac:(lia) I).
      destruct f as [|f1]; [lia|]. cbn [parse_loop]. rewrite Eo. cbn [negb andb]. rewrite (prec_pos o Eo).
      rewrite (IHy Hy f1 (TRP :: rest) ltac:(lia) I).
      destruct f1 as [|f2]; [lia|]. rewrite !parse_loop_stop by exact I. reflexivity.
  - (* minus *) intros x IHx Hx fuel rest Hf Hr. cbn [size] in Hf. cbn [pp_tok]. pose proof (size_pos x).
    destruct (starts_with "-" (render en (pp_tok en x))).
    + cbn [strip filter app]. rewrite !strip_app. cbn [strip filter app]. repeat rewrite <- app_assoc. cbn [app]. repeat rewrite <- app_assoc. cbn [app].
      fuelS fuel f. cbn [parse_u]. destruct f as [|f1]; [lia|]. rewrite parse_u_paren. unfold pe.
      rewrite (IHx Hx f1 (TRP :: rest) ltac:(lia) I).
      destruct f1 as [|f2]; [lia|]. rewrite parse_loop_stop by exact I. reflexivity.
    + cbn [strip filter app]. fuelS fuel f. cbn [parse_u]. fold (strip (pp_tok en x)).
      rewrite (IHx Hx f rest ltac:(lia) Hr). reflexivity.
  - (* not *) intros x IHx Hx fuel rest Hf Hr. cbn [size] in Hf. cbn [pp_tok]. pose proof (size_pos x).
    cbn [strip filter app]. fuelS fuel f. cbn [parse_u]. fold (strip (pp_tok en x)).
    rewrite (IHx Hx f rest ltac:(lia) Hr). reflexivity.
  - (* external call *) intros fn l IHl Hl fuel rest Hf Hr. cbn [lists_even] in Hl. rewrite lists_even_all_eq in Hl.
    cbn [size] in Hf. rewrite sizes_eq in Hf. cbn [pp_tok].
    destruct l as [|x l'].
    + fuelS fuel f. reflexivity.
    + fuelS fuel f. rewrite !strip_app. cbn [strip filter app]. repeat rewrite <- app_assoc. cbn [app]. repeat rewrite <- app_assoc. cbn [app].
      rewrite parse_u_fun by (apply head_ok_app; change (map (pp_tok en) (x :: l')) with (pp_tok en x :: map (pp_tok en) l');
                              destruct l'; [cbn [map sep_toks]; apply pp_head | cbn [map]; rewrite sep_cons2, strip_app; apply head_ok_app, pp_head]).
      rewrite (args_ok en f (x :: l') ltac:(discriminate) (IHl Hl)
                 (fun z Hz => ltac:(pose proof (size_in z (x :: l') Hz); lia)) f TRP rest
                 ltac:(pose proof (length_sizes (x :: l')); lia) (or_introl eq_refl)).
      reflexivity.
  - (* local call *) intros fn l IHl Hl fuel rest Hf Hr. cbn [lists_even] in Hl. rewrite lists_even_all_eq in Hl.
    cbn [size] in Hf. rewrite sizes_eq in Hf. cbn [pp_tok].
    destruct l as [|x l'].
    + fuelS fuel f. cbn [strip filter app]. apply parse_u_lfun0. exact Hr.
    + fuelS fuel f. rewrite !strip_app. cbn [strip filter app]. repeat rewrite <- app_assoc. cbn [app]. repeat rewrite <- app_assoc. cbn [app].
      rewrite parse_u_lfun.
      rewrite (args_ok en f (x :: l') ltac:(discriminate) (IHl Hl)
                 (fun z Hz => ltac:(pose proof (size_in z (x :: l') Hz); lia)) f TRP rest
                 ltac:(pose proof (length_sizes (x :: l')); lia) (or_introl eq_refl)).
      reflexivity.
  - (* list *) intros l IHl Hl fuel rest Hf Hr. cbn [lists_even] in Hl. rewrite lists_even_all_eq in Hl.
    cbn [size] in Hf. rewrite sizes_eq in Hf. cbn [pp_tok].
    destruct l as [|x l'].
    + fuelS fuel f. reflexivity.
    + fuelS fuel f. rewrite !strip_app. cbn [strip filter app]. repeat rewrite <- app_assoc. cbn [app]. repeat rewrite <- app_assoc. cbn [app].
      pose proof (IHl Hl) as HF. inversion HF as [|? ? Hx HF']; subst.
      assert (Hsx : (3 * size x <= f)%nat) by (cbn [sizes] in Hf; lia).
      destruct l' as [|y r].
      * cbn [map sep_toks]. rewrite parse_u_list by (apply head_ok_app, pp_head).
        rewrite (pe_ok en x f (TRB :: rest) Hx Hsx I I). reflexivity.
      * cbn [map]. rewrite sep_cons2. rewrite !strip_app. cbn [strip filter app]. repeat rewrite <- app_assoc. cbn [app]. repeat rewrite <- app_assoc. cbn [app].
        rewrite parse_u_list by (apply head_ok_app, pp_head).
        rewrite (pe_ok en x f (TComma :: _) Hx Hsx I I).
        change (pp_tok en y :: map (pp_tok en) r) with (map (pp_tok en) (y :: r)).
        rewrite (args_ok en f (y :: r) ltac:(discriminate) HF'
                   (fun z Hz => ltac:(pose proof (size_in z (y :: r) Hz); cbn [sizes] in *; lia)) f TRB rest
                   ltac:(pose proof (length_sizes (y :: r)); cbn [sizes] in *; lia) (or_intror eq_refl)).
        reflexivity.
  - (* property list *) intros l IHl [Hev Hl] fuel rest Hf Hr. rewrite lists_even_all_eq in Hl.
    cbn [size] in Hf. rewrite sizes_eq in Hf. cbn [pp_tok].
    destruct l as [|k [|v l']]; try discriminate Hev.
    + fuelS fuel f. reflexivity.
    + fuelS fuel f. rewrite !strip_app. cbn [strip filter app].
      rewrite (strip_pairs en k v l' Hev). repeat rewrite <- app_assoc. cbn [app]. repeat rewrite <- app_assoc. cbn [app]. rewrite <- ?app_assoc. cbn [app].
      pose proof (IHl Hl) as HF. inversion HF as [|? ? Hk HF']; subst.
      rewrite parse_u_list by (apply head_ok_app, pp_head).
      rewrite (pe_ok en k f (TColon :: _) Hk ltac:(cbn [sizes] in Hf; lia) I I).
      rewrite (pairs_ok en f l' k v Hev HF
                 (fun z Hz => ltac:(pose proof (size_in z (k :: v :: l') Hz); lia)) f rest
                 ltac:(pose proof (length_sizes l'); pose proof (size_pos k); pose proof (size_pos v); cbn [sizes] in Hf; lia)
                 ltac:(pose proof (size_pos k); cbn [sizes] in Hf; lia)).
      reflexivity.
  - (* the <property> of <object> <id> *)
    intros fam pid x IHx Hx fuel rest Hf Hr. cbn [size] in Hf. cbn [lists_even] in Hx. pose proof (size_pos x).
    fuelS fuel f.
    set (operand := fun ts : list tok => match ts with TRawInt n :: r' => Some (EInt n, r') | TRawConst k :: r' => Some (EConst k, r') | _ => parse_u f ts end).
    assert (Hgen : operand (strip (pp_tok en x) ++ rest) = Some (x, rest)).
    { unfold operand. pose proof (IHx Hx f rest ltac:(lia) Hr) as E. pose proof (pp_not_raw en x rest) as Hn. cbv zeta in Hn.
      destruct (strip (pp_tok en x) ++ rest) as [|t0 ts0]; [exact E|]. destruct t0; try exact E; contradiction. }
    assert (Hraw : operand (strip (raw_or x (pp_tok en x)) ++ rest) = Some (x, rest)).
    { destruct x; try exact Hgen; reflexivity. }
    unfold operand in Hgen, Hraw.
    cbn [pp_tok]. rewrite !strip_app. cbn [strip filter app].
    unfold strip in Hgen, Hraw.
    destruct fam; cbn [raw_fam strip filter app parse_u]; first [rewrite Hraw | rewrite Hgen]; reflexivity.
  - (* the <property> of menuItem <id> of menu <id> *)
    intros pid it mn IHi IHm [Hi Hm] fuel rest Hf Hr. cbn [size] in Hf. pose proof (size_pos it). pose proof (size_pos mn).
    fuelS fuel f.
    set (operand := fun ts : list tok => match ts with TRawInt n :: r' => Some (EInt n, r') | TRawConst k :: r' => Some (EConst k, r') | _ => parse_u f ts end).
    assert (Hop : forall x r0, P en x -> lists_even x -> (3 * size x <= f)%nat -> rest_ok r0 ->
                   operand (strip (raw_or x (pp_tok en x)) ++ r0) = Some (x, r0)).
    { intros x r0 HPx Hlx Hfx Hr0.
      assert (Hgen : operand (strip (pp_tok en x) ++ r0) = Some (x, r0)).
      { unfold operand. pose proof (HPx f r0 Hfx Hr0) as E. pose proof (pp_not_raw en x r0) as Hn. cbv zeta in Hn.
        destruct (strip (pp_tok en x) ++ r0) as [|t0 ts0]; [exact E|]. destruct t0; try exact E; contradiction. }
      destruct x; try exact Hgen; reflexivity. }
    unfold operand in Hop.
    cbn [pp_tok]. rewrite !strip_app. cbn [strip filter app]. repeat rewrite <- app_assoc. cbn [app parse_u].
    erewrite (Hop it); [| exact (IHi Hi) | exact Hi | lia | exact I].
    erewrite (Hop mn rest); [reflexivity | exact (IHm Hm) | exact Hm | lia | exact Hr].
  - (* the <special / date-time / system property> *)
    intros k i _ fuel rest Hf Hr. cbn [size] in Hf. fuelS fuel f. cbn [pp_tok strip filter app parse_u]. reflexivity.
  - (* the <name> *)
    intros n _ fuel rest Hf Hr. cbn [size] in Hf. fuelS fuel f. cbn [pp_tok strip filter app parse_u]. reflexivity.
  - (* the <name> of <expression> *)
    intros n x IHx Hx fuel rest Hf Hr. cbn [size] in Hf. pose proof (size_pos x). fuelS fuel f.
    cbn [pp_tok]. rewrite !strip_app. cbn [strip filter app parse_u].
    rewrite (IHx Hx f rest ltac:(lia) Hr). reflexivity.
  - (* the <key property> *)
    intros n _ fuel rest Hf Hr. cbn [size] in Hf. fuelS fuel f. cbn [pp_tok strip filter app parse_u]. reflexivity.
  - (* field <expression> *)
    intros x IHx Hx fuel rest Hf Hr. cbn [size] in Hf. pose proof (size_pos x). fuelS fuel f.
    cbn [pp_tok]. rewrite !strip_app. cbn [strip filter app parse_u].
    rewrite (IHx Hx f rest ltac:(lia) Hr). reflexivity.
  - intros _. constructor.
  - intros x l IHx IHl [Hx Hl]. constructor; [exact (IHx Hx) | exact (IHl Hl)].
Qed.
Print Assumptions parse_pp.

Corollary parse_expr_pp en e fuel : lists_even e -> (3 * size e <= fuel)%nat ->
  parse_expr fuel (strip (pp_tok en e)) = Some (e, []).
Proof.
  intros He Hf. unfold parse_expr. pose proof (parse_pp en e He fuel [] Hf I) as H. rewrite app_nil_r in H. rewrite H.
  destruct fuel as [|f]; [pose proof (size_pos e); lia|]. apply parse_loop_stop. exact I.
Qed.
