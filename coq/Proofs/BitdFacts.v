From Coq Require Import List ZArith Bool Lia.
From Coq.Strings Require Import Byte.
From DRX Require Import Py.PyBytes Proofs.PyBytesFacts Model.Riff Model.Clut Model.Bitd.
Import ListNotations.
Open Scope Z_scope.

(* ---------- the BMP stride of an 8-bit row ---------- *)
Theorem stride4_spec w : 0 <= w -> stride4 w mod 4 = 0 /\ w <= stride4 w < w + 4.
Proof.
  intros H. unfold stride4. pose proof (Z.mod_pos_bound w 4 ltac:(lia)) as Hm.
  pose proof (Z.div_mod w 4 ltac:(lia)) as Hd.
  destruct (Z.gtb_spec (w mod 4) 0).
  - split; [|lia]. replace (w + 4 - w mod 4) with ((w / 4 + 1) * 4) by lia. apply Z.mod_mul. lia.
  - assert (w mod 4 = 0) by lia. split; [assumption|lia].
Qed.

(* ---------- array writes ---------- *)
Lemma set_nth_app (a : bytes) x b v : set_nth (a ++ x :: b) (length a) v = Some (a ++ v :: b).
Proof. induction a as [|y a IH]; cbn [app length set_nth]; [reflexivity|]. rewrite IH. reflexivity. Qed.

Theorem set_idx_app a x b v p : p = zlen a -> set_idx (a ++ x :: b) p v = Ok (a ++ v :: b).
Proof.
  intros ->. unfold set_idx. pose proof (zlen_nonneg a). pose proof (zlen_nonneg b).
  rewrite zlen_app, zlen_cons.
  destruct (Z.ltb_spec (zlen a) 0); [lia|]. destruct (Z.ltb_spec (zlen a) 0); [lia|].
  destruct (Z.leb_spec (zlen a + (1 + zlen b)) (zlen a)); [lia|]. cbn [orb].
  unfold zlen. rewrite Nat2Z.id, set_nth_app. reflexivity.
Qed.

(* the part of a piece of a stored row, starting at column x, that lies inside the image (columns < iw): the stored
   row of an image of odd width ends with a pad byte, which is consumed but not painted *)
Definition vis (iw x : Z) (l : bytes) : bytes := firstn (Z.to_nat (iw - x)) l.
Lemma vis_cons_in iw x c l : x < iw -> vis iw x (c :: l) = c :: vis iw (x + 1) l.
Proof. intros H. unfold vis. replace (Z.to_nat (iw - x)) with (S (Z.to_nat (iw - (x + 1)))) by lia. reflexivity. Qed.
Lemma vis_out iw x l : iw <= x -> vis iw x l = [].
Proof. intros H. unfold vis. replace (Z.to_nat (iw - x)) with 0%nat by lia. reflexivity. Qed.
Lemma vis_nil iw x : vis iw x [] = [].
Proof. unfold vis. apply firstn_nil. Qed.
Lemma vis_app iw x l1 l2 : vis iw x (l1 ++ l2) = vis iw x l1 ++ vis iw (x + zlen l1) l2.
Proof. unfold vis. rewrite firstn_app. f_equal. f_equal. unfold zlen. lia. Qed.
Lemma vis_all iw x l : x + zlen l <= iw -> vis iw x l = l.
Proof. intros H. unfold vis. apply firstn_all2. unfold zlen in H. lia. Qed.

(* painting n equal values over the cells of a row segment (the run token) *)
Theorem put_run8_paints n : forall a seg b x y w iw width pw v,
  length seg = length (vis iw x (repeat v n)) -> (x < iw -> zlen a = y * width + x + pw) -> x + Z.of_nat n <= w ->
  put_run8 n (a ++ seg ++ b) x y w iw width pw v = Ok (a ++ vis iw x (repeat v n) ++ b, x + Z.of_nat n).
Proof.
  induction n as [|n IH]; intros a seg b x y w iw width pw v Hl Ha Hx.
  - cbn [repeat] in *. rewrite vis_nil in *. destruct seg; [|discriminate]. cbn [put_run8 app]. rewrite Z.add_0_r. reflexivity.
  - cbn [put_run8 repeat] in *. destruct (Z.geb_spec x w); [lia|].
    destruct (Z.ltb_spec x iw) as [Hin|Hout].
    + rewrite vis_cons_in in * by assumption. destruct seg as [|s seg]; [discriminate|].
      cbn [app]. rewrite set_idx_app by (rewrite (Ha Hin); reflexivity). cbn [bind].
      replace (a ++ v :: seg ++ b) with ((a ++ [v]) ++ seg ++ b) by (rewrite <- app_assoc; reflexivity).
      rewrite IH; [| cbn in Hl; lia | intros _; rewrite zlen_app, (Ha Hin); change (zlen [v]) with 1; lia | lia].
      rewrite <- app_assoc. cbn [app]. f_equal. f_equal. lia.
    + rewrite vis_out in * by assumption. destruct seg; [|discriminate]. cbn [bind app].
      pose proof (IH a [] b (x + 1) y w iw width pw v) as E. rewrite vis_out in E by lia. cbn [app length] in E.
      rewrite E; [| reflexivity | intros; lia | lia]. f_equal. f_equal. lia.
Qed.

(* copying a literal of the encoded stream over the cells of a row segment (the literal token) *)
Theorem put_lit8_paints l : forall fp fs a seg b x y w iw width pw,
  length seg = length (vis iw x l) -> (x < iw -> zlen a = y * width + x + pw) -> x + zlen l <= w ->
  put_lit8 (length l) (fp ++ l ++ fs) (a ++ seg ++ b) x y w iw width pw (zlen fp)
  = Ok (a ++ vis iw x l ++ b, x + zlen l, zlen fp + zlen l).
Proof.
  induction l as [|c l IH]; intros fp fs a seg b x y w iw width pw Hl Ha Hx.
  - rewrite vis_nil in *. destruct seg; [|discriminate]. cbn [put_lit8 length app]. change (zlen (@nil byte)) with 0. rewrite !Z.add_0_r. reflexivity.
  - cbn [put_lit8 length]. rewrite zlen_cons in *. pose proof (zlen_nonneg l).
    destruct (Z.geb_spec x w); [lia|].
    pose proof (zlen_nonneg fs).
    assert (Hgt : (zlen fp + 1 >? zlen (fp ++ (c :: l) ++ fs)) = false).
    { destruct (Z.gtb_spec (zlen fp + 1) (zlen (fp ++ (c :: l) ++ fs))) as [Hgt|_]; [|reflexivity].
      rewrite zlen_app in Hgt. cbn [app] in Hgt. rewrite zlen_cons, zlen_app in Hgt. lia. }
    destruct (Z.ltb_spec x iw) as [Hin|Hout].
    + rewrite vis_cons_in in * by assumption. destruct seg as [|s seg]; [discriminate|].
      assert (Eg : get_idx (fp ++ (c :: l) ++ fs) (zlen fp) = Ok c).
      { unfold get_idx. cbn [app]. rewrite index_app_at by reflexivity. reflexivity. }
      rewrite Eg. cbn [bind app]. rewrite set_idx_app by (rewrite (Ha Hin); reflexivity). cbn [bind].
      cbn [app] in Hgt. rewrite Hgt.
      replace (fp ++ c :: l ++ fs) with ((fp ++ [c]) ++ l ++ fs) by (rewrite <- app_assoc; reflexivity).
      replace (a ++ c :: seg ++ b) with ((a ++ [c]) ++ seg ++ b) by (rewrite <- app_assoc; reflexivity).
      replace (zlen fp + 1) with (zlen (fp ++ [c])) by (rewrite zlen_app; reflexivity).
      rewrite IH; [| cbn in Hl; lia | intros _; rewrite zlen_app, (Ha Hin); change (zlen [c]) with 1; lia | lia].
      repeat rewrite <- app_assoc. cbn [app]. rewrite zlen_app. change (zlen [c]) with 1.
      f_equal. f_equal; [f_equal|]; lia.
    + rewrite vis_out in * by assumption. destruct seg; [|discriminate]. cbn [bind app].
      cbn [app] in Hgt. rewrite Hgt.
      replace (fp ++ c :: l ++ fs) with ((fp ++ [c]) ++ l ++ fs) by (rewrite <- app_assoc; reflexivity).
      replace (zlen fp + 1) with (zlen (fp ++ [c])) by (rewrite zlen_app; reflexivity).
      pose proof (IH (fp ++ [c]) fs a [] b (x + 1) y w iw width pw) as E. rewrite vis_out in E by lia. cbn [app length] in E.
      rewrite E; [| reflexivity | intros; lia | lia].
      rewrite zlen_app. change (zlen [c]) with 1. f_equal. f_equal; [f_equal|]; lia.
Qed.

(* ---------- header fields a BMP reader looks at ---------- *)
Theorem bmp_header_fields size offset rest :
  slice (bmp_header size offset ++ rest) 0 2 = ["B"; "M"]%byte /\
  slice (bmp_header size offset ++ rest) 10 14 = pack 4 Little offset.
Proof.
  unfold bmp_header. split.
  - replace ((["B"; "M"]%byte ++ pack 4 Little size ++ pack 2 Little 0 ++ pack 2 Little 0 ++ pack 4 Little offset) ++ rest)
      with ([] ++ ["B"; "M"]%byte ++ (pack 4 Little size ++ pack 2 Little 0 ++ pack 2 Little 0 ++ pack 4 Little offset ++ rest))
      by (cbn [app]; repeat rewrite <- app_assoc; reflexivity).
    apply slice_mid; reflexivity.
  - replace ((["B"; "M"]%byte ++ pack 4 Little size ++ pack 2 Little 0 ++ pack 2 Little 0 ++ pack 4 Little offset) ++ rest)
      with ((["B"; "M"]%byte ++ pack 4 Little size ++ pack 2 Little 0 ++ pack 2 Little 0) ++ pack 4 Little offset ++ rest)
      by (repeat rewrite <- app_assoc; reflexivity).
    apply slice_mid; rewrite ?zlen_app, ?zlen_pack; reflexivity.
Qed.

Theorem bmp_info_fields w h bpp nc pre rest : zlen pre = 14 ->
  slice (pre ++ bmp_info_header w h bpp nc ++ rest) 18 22 = pack 4 Little w /\
  slice (pre ++ bmp_info_header w h bpp nc ++ rest) 22 26 = pack 4 Little h /\
  slice (pre ++ bmp_info_header w h bpp nc ++ rest) 28 30 = pack 2 Little bpp.
Proof.
  intros Hp. unfold bmp_info_header. repeat split.
  - replace (pre ++ (pack 4 Little 40 ++ pack 4 Little w ++ pack 4 Little h ++ pack 2 Little 1 ++ pack 2 Little bpp ++ pack 4 Little 0 ++ pack 4 Little 0 ++ pack 4 Little 0 ++ pack 4 Little 0 ++ pack 4 Little nc ++ pack 4 Little nc) ++ rest)
      with ((pre ++ pack 4 Little 40) ++ pack 4 Little w ++ (pack 4 Little h ++ pack 2 Little 1 ++ pack 2 Little bpp ++ pack 4 Little 0 ++ pack 4 Little 0 ++ pack 4 Little 0 ++ pack 4 Little 0 ++ pack 4 Little nc ++ pack 4 Little nc ++ rest))
      by (repeat rewrite <- app_assoc; reflexivity).
    apply slice_mid; rewrite ?zlen_app, ?zlen_pack, ?Hp; reflexivity.
  - replace (pre ++ (pack 4 Little 40 ++ pack 4 Little w ++ pack 4 Little h ++ pack 2 Little 1 ++ pack 2 Little bpp ++ pack 4 Little 0 ++ pack 4 Little 0 ++ pack 4 Little 0 ++ pack 4 Little 0 ++ pack 4 Little nc ++ pack 4 Little nc) ++ rest)
      with ((pre ++ pack 4 Little 40 ++ pack 4 Little w) ++ pack 4 Little h ++ (pack 2 Little 1 ++ pack 2 Little bpp ++ pack 4 Little 0 ++ pack 4 Little 0 ++ pack 4 Little 0 ++ pack 4 Little 0 ++ pack 4 Little nc ++ pack 4 Little nc ++ rest))
      by (repeat rewrite <- app_assoc; reflexivity).
    apply slice_mid; rewrite ?zlen_app, ?zlen_pack, ?Hp; reflexivity.
  - replace (pre ++ (pack 4 Little 40 ++ pack 4 Little w ++ pack 4 Little h ++ pack 2 Little 1 ++ pack 2 Little bpp ++ pack 4 Little 0 ++ pack 4 Little 0 ++ pack 4 Little 0 ++ pack 4 Little 0 ++ pack 4 Little nc ++ pack 4 Little nc) ++ rest)
      with ((pre ++ pack 4 Little 40 ++ pack 4 Little w ++ pack 4 Little h ++ pack 2 Little 1) ++ pack 2 Little bpp ++ (pack 4 Little 0 ++ pack 4 Little 0 ++ pack 4 Little 0 ++ pack 4 Little 0 ++ pack 4 Little nc ++ pack 4 Little nc ++ rest))
      by (repeat rewrite <- app_assoc; reflexivity).
    apply slice_mid; rewrite ?zlen_app, ?zlen_pack, ?Hp; reflexivity.
Qed.

(* ---------- PackBits tokens ---------- *)
Inductive tok := TLit (l : bytes) | TRun (n : nat) (v : byte).
Definition wf_tok (t : tok) : Prop :=
  match t with TLit l => (1 <= length l <= 128)%nat | TRun n v => (2 <= n <= 129)%nat end.
Definition enc_tok (t : tok) : bytes :=
  match t with TLit l => byte_of_Z (zlen l - 1) :: l | TRun n v => [byte_of_Z (257 - Z.of_nat n); v] end.
Definition dec_tok (t : tok) : bytes := match t with TLit l => l | TRun n v => repeat v n end.
Definition enc_toks (ts : list tok) : bytes := concat (map enc_tok ts).
Definition dec_toks (ts : list tok) : bytes := concat (map dec_tok ts).

Lemma land128_table :
  forallb (fun k => Z.land (Z.of_nat k) 128 =? (if Z.of_nat k <? 128 then 0 else 128)) (seq 0 256) = true.
Proof. vm_compute. reflexivity. Qed.
Lemma land128 v : 0 <= v < 256 -> Z.land v 128 = if v <? 128 then 0 else 128.
Proof.
  intros H. pose proof land128_table as T. rewrite forallb_forall in T.
  specialize (T (Z.to_nat v)). rewrite Z2Nat.id in T by lia.
  apply Z.eqb_eq. apply T. apply in_seq. lia.
Qed.

Lemma dec_tok_pos t : wf_tok t -> 0 < zlen (dec_tok t).
Proof. destruct t as [l|n v]; cbn [wf_tok dec_tok]; intros H; unfold zlen; [lia|]. rewrite repeat_length. lia. Qed.

Lemma zlen_repeat {A} (v : A) n : zlen (repeat v n) = Z.of_nat n.
Proof. unfold zlen. rewrite repeat_length. reflexivity. Qed.

Section Row8.
Variables (w iw width pw : Z).

(* one token, started inside a stored row that it does not overrun *)
Lemma token_step t fuel fp fs a seg b x y :
  wf_tok t -> length seg = length (vis iw x (dec_tok t)) -> (x < iw -> zlen a = y * width + x + pw) ->
  x + zlen (dec_tok t) <= w -> 0 <= y ->
  loop8 (S fuel) (fp ++ enc_tok t ++ fs) (Build_st (a ++ seg ++ b) x y (zlen fp)) w iw width pw =
  let s' := Build_st (a ++ vis iw x (dec_tok t) ++ b) in
  let x' := x + zlen (dec_tok t) in
  let idx' := zlen fp + zlen (enc_tok t) in
  if x' >=? w then (if y - 1 <? 0 then Ok (s' 0 (y - 1) idx') else loop8 fuel (fp ++ enc_tok t ++ fs) (s' 0 (y - 1) idx') w iw width pw)
  else loop8 fuel (fp ++ enc_tok t ++ fs) (s' x' y idx') w iw width pw.
Proof.
  intros Hwf Hseg Ha Hx Hy. cbn [loop8 s_idx s_y s_x s_data].
  pose proof (zlen_nonneg fp). pose proof (zlen_nonneg fs).
  destruct t as [l|n v]; cbn [wf_tok enc_tok dec_tok] in *.
  - (* literal *)
    assert (Hl : 1 <= zlen l <= 128) by (unfold zlen; lia).
    assert (Hlt : zlen fp <? zlen (fp ++ (byte_of_Z (zlen l - 1) :: l) ++ fs) = true).
    { apply Z.ltb_lt. rewrite !zlen_app, zlen_cons. lia. }
    rewrite Hlt. destruct (Z.geb_spec y 0); [|lia]. cbn [andb].
    assert (Eg : get_idx (fp ++ (byte_of_Z (zlen l - 1) :: l) ++ fs) (zlen fp) = Ok (byte_of_Z (zlen l - 1))).
    { unfold get_idx. cbn [app]. rewrite index_app_at by reflexivity. reflexivity. }
    rewrite Eg. cbn [bind]. rewrite u8_byte_of_Z, Z.mod_small by lia.
    rewrite land128 by lia. destruct (Z.ltb_spec (zlen l - 1) 128); [|lia]. cbn [Z.eqb negb].
    destruct (Z.gtb_spec (zlen fp + 1 + (zlen l - 1 + 1)) (zlen (fp ++ (byte_of_Z (zlen l - 1) :: l) ++ fs))) as [Hgt|_].
    { rewrite !zlen_app, zlen_cons in Hgt. lia. }
    replace (Z.to_nat (zlen l - 1 + 1)) with (length l) by (unfold zlen; lia).
    replace (fp ++ (byte_of_Z (zlen l - 1) :: l) ++ fs) with ((fp ++ [byte_of_Z (zlen l - 1)]) ++ l ++ fs) at 1
      by (cbn [app]; rewrite <- app_assoc; reflexivity).
    replace (zlen fp + 1) with (zlen (fp ++ [byte_of_Z (zlen l - 1)])) by (rewrite zlen_app; reflexivity).
    rewrite put_lit8_paints by assumption. cbn [bind].
    replace ((fp ++ [byte_of_Z (zlen l - 1)]) ++ l ++ fs) with (fp ++ (byte_of_Z (zlen l - 1) :: l) ++ fs)
      by (cbn [app]; rewrite <- app_assoc; reflexivity).
    replace (zlen (fp ++ [byte_of_Z (zlen l - 1)]) + zlen l) with (zlen fp + zlen (byte_of_Z (zlen l - 1) :: l))
      by (rewrite zlen_app, zlen_cons; change (zlen [byte_of_Z (zlen l - 1)]) with 1; lia).
    reflexivity.
  - (* run *)
    assert (Hn : 2 <= Z.of_nat n <= 129) by lia.
    assert (Hlt : zlen fp <? zlen (fp ++ [byte_of_Z (257 - Z.of_nat n); v] ++ fs) = true).
    { apply Z.ltb_lt. rewrite !zlen_app. change (zlen [byte_of_Z (257 - Z.of_nat n); v]) with 2. lia. }
    rewrite Hlt. destruct (Z.geb_spec y 0); [|lia]. cbn [andb].
    assert (Eg : get_idx (fp ++ [byte_of_Z (257 - Z.of_nat n); v] ++ fs) (zlen fp) = Ok (byte_of_Z (257 - Z.of_nat n))).
    { unfold get_idx. cbn [app]. rewrite index_app_at by reflexivity. reflexivity. }
    rewrite Eg. cbn [bind]. rewrite u8_byte_of_Z, Z.mod_small by lia.
    rewrite land128 by lia. destruct (Z.ltb_spec (257 - Z.of_nat n) 128); [lia|]. cbn [Z.eqb negb].
    destruct (Z.geb_spec (zlen fp + 1) (zlen (fp ++ [byte_of_Z (257 - Z.of_nat n); v] ++ fs))) as [Hge|_].
    { rewrite !zlen_app in Hge. change (zlen [byte_of_Z (257 - Z.of_nat n); v]) with 2 in Hge. lia. }
    assert (Eg2 : get_idx (fp ++ [byte_of_Z (257 - Z.of_nat n); v] ++ fs) (zlen fp + 1) = Ok v).
    { unfold get_idx. replace (fp ++ [byte_of_Z (257 - Z.of_nat n); v] ++ fs) with ((fp ++ [byte_of_Z (257 - Z.of_nat n)]) ++ v :: fs)
        by (rewrite <- app_assoc; reflexivity).
      rewrite index_app_at by (rewrite zlen_app; reflexivity). reflexivity. }
    rewrite Eg2. cbn [bind].
    replace (Z.to_nat (257 - (257 - Z.of_nat n))) with n by lia.
    rewrite zlen_repeat in Hx.
    rewrite put_run8_paints by assumption. cbn [bind].
    rewrite zlen_repeat. change (zlen [byte_of_Z (257 - Z.of_nat n); v]) with 2.
    reflexivity.
Qed.

(* a whole stored row, cut into tokens in any way, started at x and ending exactly at w *)
Lemma row_tokens ts : forall fuel fp fs a seg b x y,
  ts <> [] -> Forall wf_tok ts -> length seg = length (vis iw x (dec_toks ts)) -> (x < iw -> zlen a = y * width + x + pw) ->
  x + zlen (dec_toks ts) = w -> 0 <= y ->
  loop8 (length ts + fuel) (fp ++ enc_toks ts ++ fs) (Build_st (a ++ seg ++ b) x y (zlen fp)) w iw width pw =
  let s' := Build_st (a ++ vis iw x (dec_toks ts) ++ b) 0 (y - 1) (zlen fp + zlen (enc_toks ts)) in
  if y - 1 <? 0 then Ok s' else loop8 fuel (fp ++ enc_toks ts ++ fs) s' w iw width pw.
Proof.
  induction ts as [|t ts IH]; intros fuel fp fs a seg b x y Hne Hwf Hseg Ha Hx Hy; [congruence|].
  pose proof (Forall_inv Hwf) as Ht. pose proof (Forall_inv_tail Hwf) as Hts.
  unfold enc_toks, dec_toks in *. cbn [map concat] in *. fold (enc_toks ts) in *. fold (dec_toks ts) in *.
  rewrite vis_app in *. rewrite app_length in Hseg. rewrite zlen_app in Hx.
  pose proof (dec_tok_pos t Ht) as Hpos. pose proof (zlen_nonneg (dec_toks ts)) as Hnn.
  set (n1 := length (vis iw x (dec_tok t))) in *.
  set (seg1 := firstn n1 seg). set (seg2 := skipn n1 seg).
  assert (Hs : seg = seg1 ++ seg2) by (symmetry; apply firstn_skipn).
  assert (Hl1 : length seg1 = n1) by (unfold seg1; rewrite firstn_length; lia).
  assert (Hl2 : length seg2 = length (vis iw (x + zlen (dec_tok t)) (dec_toks ts))) by (unfold seg2; rewrite skipn_length; lia).
  cbn [length Nat.add].
  replace (fp ++ (enc_tok t ++ enc_toks ts) ++ fs) with (fp ++ enc_tok t ++ (enc_toks ts ++ fs)) by (repeat rewrite <- app_assoc; reflexivity).
  rewrite Hs. replace (a ++ (seg1 ++ seg2) ++ b) with (a ++ seg1 ++ (seg2 ++ b)) by (repeat rewrite <- app_assoc; reflexivity).
  rewrite token_step; try assumption; [|lia]. cbv zeta.
  destruct ts as [|t2 ts'].
  - (* last token of the row *)
    change (dec_toks []) with (@nil byte) in *. change (zlen (@nil byte)) with 0 in Hx. rewrite vis_nil in *.
    destruct seg2; [|discriminate]. cbn [app].
    destruct (Z.geb_spec (x + zlen (dec_tok t)) w); [|lia].
    change (enc_toks []) with (@nil byte). rewrite !app_nil_r. cbn [length Nat.add].
    reflexivity.
  - assert (Hpos2 : 0 < zlen (dec_toks (t2 :: ts'))).
    { unfold dec_toks. cbn [map concat]. rewrite zlen_app. pose proof (dec_tok_pos t2 (Forall_inv Hts)).
      pose proof (zlen_nonneg (concat (map dec_tok ts'))). lia. }
    destruct (Z.geb_spec (x + zlen (dec_tok t)) w); [lia|].
    replace (fp ++ enc_tok t ++ enc_toks (t2 :: ts') ++ fs) with ((fp ++ enc_tok t) ++ enc_toks (t2 :: ts') ++ fs)
      by (repeat rewrite <- app_assoc; reflexivity).
    replace (a ++ vis iw x (dec_tok t) ++ seg2 ++ b) with ((a ++ vis iw x (dec_tok t)) ++ seg2 ++ b) by (repeat rewrite <- app_assoc; reflexivity).
    replace (zlen fp + zlen (enc_tok t)) with (zlen (fp ++ enc_tok t)) by (rewrite zlen_app; reflexivity).
    rewrite (IH fuel (fp ++ enc_tok t) fs (a ++ vis iw x (dec_tok t)) seg2 b (x + zlen (dec_tok t)) y); try assumption;
      [| discriminate | | lia].
    2:{ intros Hin. rewrite zlen_app, (vis_all iw x (dec_tok t)) by lia. rewrite Ha by lia. lia. }
    cbv zeta. repeat rewrite <- app_assoc. rewrite !zlen_app.
    replace (zlen fp + zlen (enc_tok t) + zlen (enc_toks (t2 :: ts'))) with (zlen fp + (zlen (enc_tok t) + zlen (enc_toks (t2 :: ts')))) by lia.
    reflexivity.
Qed.
End Row8.

(* ---------- a whole compressed 8-bit image ---------- *)
Lemma zeros_app a b : zeros (a + b) = zeros a ++ zeros b.
Proof. unfold zeros. apply repeat_app. Qed.
Lemma zlen_zeros n : zlen (zeros n) = Z.of_nat n.
Proof. unfold zlen, zeros. rewrite repeat_length. reflexivity. Qed.

Definition zerosZ (n : Z) : bytes := zeros (Z.to_nat n).
Lemma zerosZ_add a b : 0 <= a -> 0 <= b -> zerosZ (a + b) = zerosZ a ++ zerosZ b.
Proof. intros. unfold zerosZ. rewrite Z2Nat.inj_add by lia. apply zeros_app. Qed.
Lemma zlen_zerosZ n : 0 <= n -> zlen (zerosZ n) = n.
Proof. intros. unfold zerosZ. rewrite zlen_zeros. lia. Qed.

(* the bytes of one BMP row: background, the pixels, background *)
Definition canvas_row (pw W width : Z) (r : bytes) : bytes := zerosZ pw ++ r ++ zerosZ (width - pw - W).
(* the canvas row of a stored 8-bit row: its first w bytes are the pixels (a pad byte may follow) *)
Definition raw_canvas8 (pw w width : Z) (r : bytes) : bytes := canvas_row pw w width (firstn (Z.to_nat w) r).

Definition wf_row (W : Z) (ts : list tok) : Prop := ts <> [] /\ Forall wf_tok ts /\ zlen (dec_toks ts) = W.
Definition ntoks (rows : list (list tok)) : nat := length (concat rows).

Lemma rows_image W iw width pw rows : forall fuel fp above y,
  0 <= pw -> 0 < iw -> iw <= W -> pw + iw <= width ->
  Forall (wf_row W) rows -> y + 1 = zlen rows ->
  loop8 (ntoks rows + S fuel) (fp ++ concat (map enc_toks rows))
        (Build_st (zerosZ (width * (y + 1)) ++ above) 0 y (zlen fp)) W iw width pw
  = Ok (Build_st (concat (map (fun ts => raw_canvas8 pw iw width (dec_toks ts)) (rev rows)) ++ above) 0 (-1)
                 (zlen (fp ++ concat (map enc_toks rows)))).
Proof.
  induction rows as [|r rows IH]; intros fuel fp above y Hpw Hiw HW Hfit Hwf Hy.
  - change (zlen (@nil (list tok))) with 0 in Hy. assert (y = -1) by lia. subst y.
    replace (width * (-1 + 1)) with 0 by lia. change (zerosZ 0) with (@nil byte).
    cbn [ntoks concat length map rev app Nat.add loop8 s_idx s_y]. rewrite app_nil_r.
    destruct (zlen fp <? zlen fp); cbn [andb Z.geb Z.compare]; reflexivity.
  - pose proof (Forall_inv Hwf) as (Hne & Hts & Hlen). pose proof (Forall_inv_tail Hwf) as Hrest.
    rewrite zlen_cons in Hy. pose proof (zlen_nonneg rows) as Hrn. assert (Hy0 : 0 <= y) by lia.
    unfold ntoks. cbn [concat map]. rewrite app_length. fold (ntoks rows).
    replace (length r + ntoks rows + S fuel)%nat with (length r + (ntoks rows + S fuel))%nat by lia.
    (* split the unpainted area: rows below, left margin, the pixels of the row, right margin *)
    assert (Hsplit : zerosZ (width * (y + 1)) = (zerosZ (width * y) ++ zerosZ pw) ++ zerosZ iw ++ zerosZ (width - pw - iw)).
    { replace (width * (y + 1)) with (width * y + (pw + (iw + (width - pw - iw)))) by lia.
      rewrite zerosZ_add by nia. rewrite zerosZ_add by lia. rewrite zerosZ_add by lia.
      repeat rewrite <- app_assoc. reflexivity. }
    rewrite Hsplit.
    replace (((zerosZ (width * y) ++ zerosZ pw) ++ zerosZ iw ++ zerosZ (width - pw - iw)) ++ above)
      with ((zerosZ (width * y) ++ zerosZ pw) ++ zerosZ iw ++ (zerosZ (width - pw - iw) ++ above))
      by (repeat rewrite <- app_assoc; reflexivity).
    assert (Hvis : vis iw 0 (dec_toks r) = firstn (Z.to_nat iw) (dec_toks r)) by (unfold vis; rewrite Z.sub_0_r; reflexivity).
    rewrite (row_tokens W iw width pw r (ntoks rows + S fuel) fp (concat (map enc_toks rows))); try assumption.
    2:{ rewrite Hvis. unfold zerosZ, zeros. rewrite repeat_length, firstn_length. unfold zlen in Hlen. lia. }
    2:{ intros _. rewrite zlen_app, !zlen_zerosZ by nia. lia. }
    cbv zeta. rewrite Hvis.
    destruct rows as [|r2 rows'].
    + (* that was the bottom row *)
      change (zlen (@nil (list tok))) with 0 in Hy. assert (y = 0) by lia. subst y.
      cbn [Z.sub Z.ltb Z.compare Z.add Z.opp Z.pos_sub]. cbn [rev map concat app].
      f_equal. f_equal.
      * replace (width * 0) with 0 by lia. change (zerosZ 0) with (@nil byte). cbn [app].
        unfold raw_canvas8, canvas_row. repeat rewrite <- app_assoc. reflexivity.
      * rewrite app_nil_r, zlen_app. reflexivity.
    + assert (Hy1 : 1 <= y) by (rewrite zlen_cons in Hy; pose proof (zlen_nonneg rows'); lia).
      destruct (Z.ltb_spec (y - 1) 0); [lia|].
      replace (fp ++ enc_toks r ++ concat (map enc_toks (r2 :: rows'))) with ((fp ++ enc_toks r) ++ concat (map enc_toks (r2 :: rows')))
        by (rewrite <- app_assoc; reflexivity).
      replace (zlen fp + zlen (enc_toks r)) with (zlen (fp ++ enc_toks r)) by (rewrite zlen_app; reflexivity).
      replace ((zerosZ (width * y) ++ zerosZ pw) ++ firstn (Z.to_nat iw) (dec_toks r) ++ zerosZ (width - pw - iw) ++ above)
        with (zerosZ (width * (y - 1 + 1)) ++ (raw_canvas8 pw iw width (dec_toks r) ++ above)).
      2:{ replace (y - 1 + 1) with y by lia. unfold raw_canvas8, canvas_row. repeat rewrite <- app_assoc. reflexivity. }
      rewrite (IH fuel (fp ++ enc_toks r) (raw_canvas8 pw iw width (dec_toks r) ++ above) (y - 1)); try assumption; [|lia].
      f_equal. f_equal. cbn [rev]. rewrite !map_app, !concat_app. cbn [map concat]. rewrite app_nil_r.
      repeat rewrite <- app_assoc. reflexivity.
Qed.

Lemma ntoks_le rows : Forall (Forall wf_tok) rows -> (ntoks rows <= length (concat (map enc_toks rows)))%nat.
Proof.
  unfold ntoks. induction 1 as [|r rows Hr _ IH]; [cbn; lia|]. cbn [concat map]. rewrite !app_length.
  assert (length r <= length (enc_toks r))%nat; [|lia].
  clear - Hr. induction Hr as [|t ts Ht _ IHt]; [cbn; lia|]. unfold enc_toks in *. cbn [map concat]. rewrite app_length. cbn [length].
  destruct t as [l|n v]; cbn [enc_tok length wf_tok] in *; lia.
Qed.

(* bytes the decoder appends to the pixel array when the stored row (with its pad byte) is wider than the BMP stride
   (pinned by the fixtures of tests/test_cast.py; outside the area a reader looks at) *)
Definition extra8 (bw bh pw : Z) : Z :=
  let w := bw - pw in if w + w mod 2 + pw >? stride4 bw then 4 * bh else 0.

(* The decoder's pixel array for a compressed 8-bit image: every valid scan-line PackBits encoding (every segmentation
   of every row into literals and runs) of rows of W = image width rounded up to even bytes: the first w bytes of
   every decoded row at (w_padding, h_padding), background elsewhere - the pad byte is not painted.  No geometry
   condition (since the repair of C06-8bit-pad-leak). *)
Theorem compressed8_pixels bw bh pw ph rows :
  let w := bw - pw in let W := w + w mod 2 in let width := stride4 bw in
  0 <= pw -> 0 < w -> 0 <= ph -> zlen rows = bh - ph ->
  Forall (wf_row W) rows ->
  decode_compressed8 (concat (map enc_toks rows)) bw bh pw ph width
  = Ok (concat (map (fun ts => raw_canvas8 pw w width (dec_toks ts)) (rev rows)) ++ zerosZ (width * ph) ++ zerosZ (extra8 bw bh pw)).
Proof.
  intros w W width Hpw Hw Hph Hrows Hwf. unfold decode_compressed8. fold w. fold W.
  pose proof (stride4_spec bw ltac:(lia)) as [_ Hst]. fold width in Hst.
  assert (HW : w <= W <= w + 1) by (unfold W; pose proof (Z.mod_pos_bound w 2 ltac:(lia)); lia).
  pose proof (zlen_nonneg rows) as Hrn.
  set (bwid := if W + pw >? width then width + 4 else width).
  assert (Hb : bwid * bh = width * bh + extra8 bw bh pw).
  { unfold bwid, extra8. fold w. fold W. fold width. destruct (Z.gtb_spec (W + pw) width); lia. }
  assert (He : 0 <= extra8 bw bh pw) by (unfold extra8; destruct (_ >? _); lia).
  unfold bytearray. destruct (Z.ltb_spec (bwid * bh) 0); [nia|]. cbn [bind].
  replace (zeros (Z.to_nat (bwid * bh))) with (zerosZ (width * (bh - 1 - ph + 1)) ++ (zerosZ (width * ph) ++ zerosZ (extra8 bw bh pw))).
  2:{ rewrite <- !zerosZ_add by nia. unfold zerosZ. f_equal. f_equal. lia. }
  assert (Hall : Forall (Forall wf_tok) rows) by (eapply Forall_impl; [|exact Hwf]; intros r (_ & Hr & _); exact Hr).
  pose proof (ntoks_le rows Hall) as Hn.
  replace (S (length (concat (map enc_toks rows)))) with (ntoks rows + S (length (concat (map enc_toks rows)) - ntoks rows))%nat by lia.
  replace (concat (map enc_toks rows)) with ([] ++ concat (map enc_toks rows)) at 2 by reflexivity.
  change 0 with (zlen (@nil byte)) at 2.
  rewrite (rows_image W w width pw rows); try assumption; try lia.
  reflexivity.
Qed.

(* two valid encodings of the same stored rows give the same pixel array *)
Theorem compressed8_encoding_independent bw bh pw ph rows1 rows2 :
  let w := bw - pw in let W := w + w mod 2 in let width := stride4 bw in
  0 <= pw -> 0 < w -> 0 <= ph -> zlen rows1 = bh - ph -> zlen rows2 = bh - ph ->
  Forall (wf_row W) rows1 -> Forall (wf_row W) rows2 ->
  map dec_toks rows1 = map dec_toks rows2 ->
  decode_compressed8 (concat (map enc_toks rows1)) bw bh pw ph width
  = decode_compressed8 (concat (map enc_toks rows2)) bw bh pw ph width.
Proof.
  intros w W width H1 H2 H3 H4 H5 H7 H8 Heq. subst w W width.
  rewrite (compressed8_pixels bw bh pw ph rows1), (compressed8_pixels bw bh pw ph rows2) by assumption.
  f_equal. f_equal.
  assert (E : forall rows, map (fun ts => raw_canvas8 pw (bw - pw) (stride4 bw) (dec_toks ts)) (rev rows)
                         = map (raw_canvas8 pw (bw - pw) (stride4 bw)) (rev (map dec_toks rows))).
  { intros rows. rewrite <- map_rev, map_map. reflexivity. }
  rewrite !E, Heq. reflexivity.
Qed.

(* the geometry in which the pad byte used to leak (canvas width 4, w_padding 1: image width 3, stored rows of 4
   bytes): the pad byte 0x55 of the lower row is no longer painted on column 0 of the row above *)
Definition leak_rows : list (list tok) := [[TLit [x01; x02; x03; x00]]; [TLit [x04; x05; x06; x55]]].
Theorem compressed8_former_leak :
  exists data, decode_compressed8 (concat (map enc_toks leak_rows)) 4 2 1 0 (stride4 4) = Ok data /\
               firstn 8 data = canvas_row 1 3 4 [x04; x05; x06] ++ canvas_row 1 3 4 [x01; x02; x03].
Proof. eexists. split; [vm_compute; reflexivity|]. reflexivity. Qed.
