From Coq Require Import List ZArith Bool Lia.
From Coq.Strings Require Import Byte.
From DRX Require Import Py.PyBytes Py.Layout Proofs.PyBytesFacts Proofs.LayoutFacts Model.Riff Proofs.RiffFacts
  Model.Vwsc Model.Text Gen.Gen_Layouts.
Import ListNotations.
Open Scope Z_scope.

(* ================= styled text ================= *)
Definition enc_run (vs : list Z) : bytes := enc_layout Big stxt_run_layout vs [].
Definition enc_stxt (gap text : bytes) (fds : Z) (runs : list (list Z)) (tail : bytes) : bytes :=
  pack 4 Big (12 + zlen gap) ++ pack 4 Big (zlen text) ++ pack 4 Big fds ++ gap ++ text ++
  pack 2 Big (zlen runs) ++ concat (map enc_run runs) ++ tail.

Lemma zlen_enc_run vs : zlen (enc_run vs) = lwidth stxt_run_layout.
Proof. apply zlen_enc_layout. Qed.

Lemma lwidth_nonneg l : 0 <= lwidth l.
Proof. induction l as [|f l IH]; cbn [lwidth]; lia. Qed.

Lemma runs_loop_enc fm runs : forall fuel pre post,
  (length runs < fuel)%nat -> Forall (fits_all stxt_run_layout) runs ->
  runs_loop fuel (zlen runs) fm (pre ++ concat (map enc_run runs) ++ post) (zlen pre)
  = Ok (map (fun vs => run_of_fields fm (fld stxt_run_names vs)) runs).
Proof.
  induction runs as [|vs runs IH]; intros fuel pre post Hf Hwf.
  - destruct fuel; reflexivity.
  - destruct fuel as [|f]; [cbn in Hf; lia|].
    pose proof (Forall_inv Hwf) as Hv. pose proof (Forall_inv_tail Hwf) as Hvs.
    cbn [runs_loop map concat]. rewrite zlen_cons. pose proof (zlen_nonneg runs).
    destruct (Z.leb_spec (1 + zlen runs) 0); [lia|].
    rewrite <- app_assoc. unfold enc_run at 1. rewrite read_enc_layout by auto. cbn [bind].
    replace (pre ++ enc_run vs ++ concat (map enc_run runs) ++ post)
      with ((pre ++ enc_run vs) ++ concat (map enc_run runs) ++ post) by (rewrite <- app_assoc; reflexivity).
    replace (zlen pre + lwidth stxt_run_layout) with (zlen (pre ++ enc_run vs)) by (rewrite zlen_app, zlen_enc_run; reflexivity).
    replace (1 + zlen runs - 1) with (zlen runs) by lia.
    rewrite IH by (try assumption; cbn in Hf; lia). reflexivity.
Qed.

Theorem stxt_roundtrip fm gap text fds runs tail :
  in32 (12 + zlen gap) -> in32 (zlen text) -> in32 fds -> in16 (zlen runs) ->
  Forall (fits_all stxt_run_layout) runs -> 0 < lwidth stxt_run_layout ->
  parse_stxt_data (enc_stxt gap text fds runs tail) fm
  = Ok (text, map (fun vs => run_of_fields fm (fld stxt_run_names vs)) runs).
Proof.
  intros H1 H2 H3 H4 Hwf Hw. unfold parse_stxt_data, enc_stxt.
  set (rest := gap ++ text ++ pack 2 Big (zlen runs) ++ concat (map enc_run runs) ++ tail).
  rewrite rd_s4_at0 by exact H1. cbn [bind].
  rewrite (rd_s4_at Big (pack 4 Big (12 + zlen gap))) by (try assumption; rewrite zlen_pack; reflexivity). cbn [bind].
  replace (pack 4 Big (12 + zlen gap) ++ pack 4 Big (zlen text) ++ pack 4 Big fds ++ rest)
    with ((pack 4 Big (12 + zlen gap) ++ pack 4 Big (zlen text)) ++ pack 4 Big fds ++ rest)
    by (repeat rewrite <- app_assoc; reflexivity).
  rewrite rd_s4_at; [| rewrite zlen_app, !zlen_pack; reflexivity | exact H3]. cbn [bind].
  set (H := (pack 4 Big (12 + zlen gap) ++ pack 4 Big (zlen text)) ++ pack 4 Big fds).
  assert (HL : zlen H = 12) by (unfold H; rewrite !zlen_app, !zlen_pack; reflexivity).
  set (d := (pack 4 Big (12 + zlen gap) ++ pack 4 Big (zlen text)) ++ pack 4 Big fds ++ rest).
  assert (Hd1 : d = (H ++ gap) ++ text ++ (pack 2 Big (zlen runs) ++ concat (map enc_run runs) ++ tail))
    by (unfold d, H, rest; repeat rewrite <- app_assoc; reflexivity).
  assert (Et : slice d (12 + zlen gap) (12 + zlen gap + zlen text) = text).
  { rewrite Hd1. apply slice_mid; rewrite zlen_app, HL; lia. }
  rewrite Et.
  assert (Hd2 : d = (H ++ gap ++ text) ++ pack 2 Big (zlen runs) ++ (concat (map enc_run runs) ++ tail))
    by (unfold d, H, rest; repeat rewrite <- app_assoc; reflexivity).
  assert (En : rd_s 2 Big d (12 + zlen gap + zlen text) = Ok (zlen runs)).
  { rewrite Hd2. apply rd_s2_at; [rewrite !zlen_app, HL; lia | exact H4]. }
  rewrite En. cbn [bind].
  assert (Hd3 : d = (H ++ gap ++ text ++ pack 2 Big (zlen runs)) ++ concat (map enc_run runs) ++ tail)
    by (unfold d, H, rest; repeat rewrite <- app_assoc; reflexivity).
  replace (12 + zlen gap + zlen text + 2) with (zlen (H ++ gap ++ text ++ pack 2 Big (zlen runs)))
    by (rewrite !zlen_app, HL, zlen_pack; lia).
  rewrite Hd3 at 2. rewrite runs_loop_enc; [reflexivity | | exact Hwf].
  rewrite Hd3, !app_length.
  assert (length runs <= length (concat (map enc_run runs)))%nat; [|lia].
  clear - Hw. induction runs as [|v r IH]; [cbn; lia|]. cbn [map concat length]. rewrite app_length.
  pose proof (zlen_enc_run v) as E. unfold zlen in E. lia.
Qed.

(* font lookup: the entry with the run's id, or the explicit unknown marker *)
Theorem find_font_unknown fm id : (forall f, In f fm -> f_id f <> id) -> forall acc, find_font fm id acc = acc.
Proof.
  induction fm as [|f fm IH]; intros H acc; cbn [find_font]; [reflexivity|].
  destruct (Z.eqb_spec (f_id f) id) as [E|_]; [exfalso; apply (H f); [left; reflexivity|exact E]|].
  apply IH. intros g Hg. apply H. right. exact Hg.
Qed.

Theorem find_font_known fm f : NoDup (map f_id fm) -> In f fm -> forall acc, find_font fm (f_id f) acc = Known (f_name f).
Proof.
  induction fm as [|g fm IH]; intros Hnd Hin acc; [destruct Hin|].
  cbn [find_font map] in *. inversion Hnd as [|? ? Hnin Hnd']; subst.
  destruct Hin as [->|Hin].
  - rewrite Z.eqb_refl. apply find_font_unknown. intros h Hh E. apply Hnin. rewrite <- E. apply in_map. exact Hh.
  - apply IH; assumption.
Qed.

(* ================= font map ================= *)
Record slot := { sl_vals : list Z; sl_name : bytes }.     (* metadata record values; name (used slots only) *)
Definition disp_of (s : slot) : Z := fld fmap_meta_names (sl_vals s) k_displacement.
Definition id_of (s : slot) : Z := fld fmap_meta_names (sl_vals s) k_font_id.
Definition enc_slot (s : slot) : bytes := enc_layout Big fmap_meta_layout (sl_vals s) [].
(* the name of a used slot is stored in the name area at its displacement: 4-byte length, then the bytes *)
Definition stored (basic : bytes) (s : slot) : Prop :=
  rd_s 4 Big basic (disp_of s) = Ok (zlen (sl_name s)) /\
  slice basic (disp_of s + 4) (disp_of s + 4 + zlen (sl_name s)) = sl_name s.

Definition enc_fmap (hv : list Z) (used spare : list slot) (basic : bytes) : bytes :=
  let header := enc_layout Big fmap_header_layout hv [] ++ concat (map enc_slot (used ++ spare)) in
  pack 4 Big (zlen header) ++ pack 4 Big (zlen basic) ++ header ++ basic.

Lemma zlen_enc_slot s : zlen (enc_slot s) = lwidth fmap_meta_layout.
Proof. apply zlen_enc_layout. Qed.

Lemma meta_loop_enc ss : forall fuel pre post,
  (length ss < fuel)%nat -> Forall (fun s => fits_all fmap_meta_layout (sl_vals s)) ss ->
  meta_loop fuel (zlen ss) (pre ++ concat (map enc_slot ss) ++ post) (zlen pre)
  = Ok (map (fun s => (disp_of s, id_of s)) ss).
Proof.
  induction ss as [|s ss IH]; intros fuel pre post Hf Hwf.
  - destruct fuel; reflexivity.
  - destruct fuel as [|f]; [cbn in Hf; lia|].
    pose proof (Forall_inv Hwf) as Hv. pose proof (Forall_inv_tail Hwf) as Hvs.
    cbn [meta_loop map concat]. rewrite zlen_cons. pose proof (zlen_nonneg ss).
    destruct (Z.leb_spec (1 + zlen ss) 0); [lia|].
    rewrite <- app_assoc. unfold enc_slot at 1. rewrite read_enc_layout by auto. cbn [bind].
    replace (pre ++ enc_slot s ++ concat (map enc_slot ss) ++ post)
      with ((pre ++ enc_slot s) ++ concat (map enc_slot ss) ++ post) by (rewrite <- app_assoc; reflexivity).
    replace (zlen pre + lwidth fmap_meta_layout) with (zlen (pre ++ enc_slot s)) by (rewrite zlen_app, zlen_enc_slot; reflexivity).
    replace (1 + zlen ss - 1) with (zlen ss) by lia.
    rewrite IH by (try assumption; cbn in Hf; lia). reflexivity.
Qed.

Lemma names_loop_enc basic used : forall fuel before after,
  (length used < fuel)%nat -> Forall (stored basic) used ->
  names_loop fuel (zlen before) (zlen before + zlen used)
    (map (fun s => (disp_of s, id_of s)) (before ++ used ++ after)) basic
  = Ok (map (fun s => Build_font (sl_name s) (id_of s)) used).
Proof.
  induction used as [|s used IH]; intros fuel before after Hf Hst.
  - change (zlen (@nil slot)) with 0. rewrite Z.add_0_r. destruct fuel; cbn [names_loop]; rewrite Z.leb_refl; reflexivity.
  - destruct fuel as [|f]; [cbn in Hf; lia|].
    pose proof (Forall_inv Hst) as [Hs1 Hs2]. pose proof (Forall_inv_tail Hst) as Hst'.
    cbn [names_loop]. rewrite zlen_cons. pose proof (zlen_nonneg used). pose proof (zlen_nonneg before).
    destruct (Z.leb_spec (zlen before + (1 + zlen used)) (zlen before)); [lia|].
    rewrite map_app. cbn [app map].
    replace (zlen before) with (zlen (map (fun s0 => (disp_of s0, id_of s0)) before)) at 1
      by (unfold zlen; rewrite map_length; reflexivity).
    rewrite index_app_at by reflexivity. cbn [of_option bind fst snd].
    rewrite Hs1. cbn [bind]. rewrite Hs2.
    replace (map (fun s0 => (disp_of s0, id_of s0)) before ++ (disp_of s, id_of s) :: map (fun s0 => (disp_of s0, id_of s0)) (used ++ after))
      with (map (fun s0 => (disp_of s0, id_of s0)) ((before ++ [s]) ++ used ++ after))
      by (rewrite !map_app; cbn [map]; rewrite <- app_assoc; reflexivity).
    replace (zlen before + 1) with (zlen (before ++ [s])) by (rewrite zlen_app; reflexivity).
    replace (zlen before + (1 + zlen used)) with (zlen (before ++ [s]) + zlen used) by (rewrite zlen_app; change (zlen [s]) with 1; lia).
    rewrite IH by (try assumption; cbn in Hf; lia). reflexivity.
Qed.

Theorem fmap_roundtrip hv used spare basic :
  fits_all fmap_header_layout hv ->
  fld fmap_header_names hv k_nfonts = zlen used ->
  fld fmap_header_names hv k_nfonts_cap = zlen (used ++ spare) ->
  Forall (fun s => fits_all fmap_meta_layout (sl_vals s)) (used ++ spare) ->
  Forall (stored basic) used -> 0 < lwidth fmap_meta_layout ->
  in32 (zlen (enc_layout Big fmap_header_layout hv [] ++ concat (map enc_slot (used ++ spare)))) -> in32 (zlen basic) ->
  parse_fmap_data (enc_fmap hv used spare basic) = Ok (map (fun s => Build_font (sl_name s) (id_of s)) used).
Proof.
  intros Hh Hn Hc Hslots Hst Hw Hsz Hbz. unfold parse_fmap_data, enc_fmap. cbv zeta.
  set (HD := enc_layout Big fmap_header_layout hv []).
  set (header := HD ++ concat (map enc_slot (used ++ spare))) in *.
  rewrite rd_s4_at0 by exact Hsz. cbn [bind].
  rewrite (rd_s4_at Big (pack 4 Big (zlen header))) by (try assumption; rewrite zlen_pack; reflexivity). cbn [bind].
  set (d := pack 4 Big (zlen header) ++ pack 4 Big (zlen basic) ++ header ++ basic).
  assert (Hz : zlen d = 8 + zlen header + zlen basic) by (unfold d; rewrite !zlen_app, !zlen_pack; lia).
  rewrite Hz, Z.eqb_refl. cbn [negb].
  assert (Eh : slice d 8 (8 + zlen header) = header).
  { unfold d. replace (pack 4 Big (zlen header) ++ pack 4 Big (zlen basic) ++ header ++ basic)
      with ((pack 4 Big (zlen header) ++ pack 4 Big (zlen basic)) ++ header ++ basic) by (repeat rewrite <- app_assoc; reflexivity).
    apply slice_mid; rewrite zlen_app, !zlen_pack; reflexivity. }
  assert (Eb : slice d (8 + zlen header) (8 + zlen header + zlen basic) = basic).
  { unfold d. replace (pack 4 Big (zlen header) ++ pack 4 Big (zlen basic) ++ header ++ basic)
      with ((pack 4 Big (zlen header) ++ pack 4 Big (zlen basic) ++ header) ++ basic ++ []) by (repeat rewrite <- app_assoc; rewrite app_nil_r; reflexivity).
    apply slice_mid; rewrite !zlen_app, !zlen_pack; lia. }
  rewrite Eh, Eb.
  unfold header at 1. replace (HD ++ concat (map enc_slot (used ++ spare))) with ([] ++ HD ++ concat (map enc_slot (used ++ spare))) at 1 by reflexivity.
  unfold HD at 1. rewrite read_enc_layout; [| reflexivity | exact Hh]. cbn [bind].
  rewrite Hn, Hc.
  assert (HLH : zlen HD = lwidth fmap_header_layout) by (unfold HD; apply zlen_enc_layout).
  unfold header at 1.
  replace (HD ++ concat (map enc_slot (used ++ spare))) with (HD ++ concat (map enc_slot (used ++ spare)) ++ []) by (rewrite app_nil_r; reflexivity).
  rewrite <- HLH. rewrite meta_loop_enc; [| | exact Hslots].
  2:{ assert (Hlen : (length (concat (map enc_slot (used ++ spare))) <= length d)%nat)
        by (unfold d, header; rewrite !app_length; lia).
      assert (length (used ++ spare) <= length (concat (map enc_slot (used ++ spare))))%nat; [|lia].
      clear - Hw. induction (used ++ spare) as [|v r IH]; [cbn; lia|]. cbn [map concat length]. rewrite app_length.
      pose proof (zlen_enc_slot v) as E. unfold zlen in E. lia. }
  cbn [bind].
  replace (used ++ spare) with ([] ++ used ++ spare) by reflexivity.
  change 0 with (zlen (@nil slot)) at 1.
  replace (zlen used) with (zlen (@nil slot) + zlen used) at 1 by reflexivity.
  apply names_loop_enc; [|exact Hst].
  rewrite map_length. cbn [app]. rewrite app_length. lia.
Qed.

(* a font map whose stated sizes do not add up is rejected *)
Theorem fmap_size_mismatch hs asz rest :
  in32 hs -> in32 asz -> 8 + hs + asz <> 8 + zlen rest ->
  parse_fmap_data (pack 4 Big hs ++ pack 4 Big asz ++ rest) = Err EValue.
Proof.
  intros H1 H2 Hne. unfold parse_fmap_data.
  rewrite rd_s4_at0 by exact H1. cbn [bind].
  rewrite (rd_s4_at Big (pack 4 Big hs)) by (try assumption; rewrite zlen_pack; reflexivity). cbn [bind].
  rewrite !zlen_app, !zlen_pack. change (Z.of_nat 4) with 4.
  destruct (Z.eqb_spec (8 + hs + asz) (4 + (4 + zlen rest))); [lia|reflexivity].
Qed.
