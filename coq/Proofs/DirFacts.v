From Coq Require Import List ZArith Bool Lia String.
From Coq.Strings Require Import Byte.
From DRX Require Import Py.PyBytes Py.Layout Py.PyStr Proofs.PyBytesFacts Model.Riff Proofs.RiffFacts Model.Index Proofs.IndexFacts
  Model.Vwsc Model.Cast Model.Text Model.Xtract Proofs.XtractFacts Model.Dir.
Import ListNotations.
Open Scope Z_scope.
Local Notation length := List.length (only parsing).

Lemma nth_error_firstn' {A} (l : list A) : forall n k, (k < n)%nat -> nth_error (firstn n l) k = nth_error l k.
Proof.
  induction l as [|x l IH]; intros n k H; [destruct n; reflexivity|].
  destruct n as [|n]; [lia|]. destruct k as [|k]; cbn [firstn nth_error]; [reflexivity|]. apply IH. lia.
Qed.

Section DirFacts.
Variable decompile : bytes -> list bytes -> result (Z * Z * bytes * bytes).

(* ---- one cast entry per cast-table slot, in order; empty slots stay empty ---- *)
Lemma cast_loop_length chunks off rs fontmap key cas : forall cast pd out pd',
  cast_loop chunks off rs fontmap key cas cast pd = Ok (out, pd') -> length out = (length cast + length cas)%nat.
Proof.
  induction cas as [|ci cas IH]; intros cast pd out pd' H; cbn [cast_loop] in H.
  - injection H as <- _. cbn. lia.
  - destruct (Z.eqb_spec ci 0).
    + apply IH in H. rewrite app_length in H. cbn [length] in *. lia.
    + destruct (of_option EIndex (index rs ci)) as [res| |]; cbn [bind] in H; try discriminate.
      destruct (chunk_of chunks off res) as [ch| |]; cbn [bind] in H; try discriminate.
      destruct (parse_cast_file_data (snd ch)) as [cd| |]; cbn [bind] in H; try discriminate.
      destruct (link_all _ _ _ _ _ _) as [[m ps]| |]; cbn [bind] in H; try discriminate.
      apply IH in H. rewrite app_length in H. cbn [length] in *. lia.
Qed.

Lemma cast_loop_prefix chunks off rs fontmap key cas : forall cast pd out pd',
  cast_loop chunks off rs fontmap key cas cast pd = Ok (out, pd') -> firstn (length cast) out = cast.
Proof.
  induction cas as [|ci cas IH]; intros cast pd out pd' H; cbn [cast_loop] in H.
  - injection H as <- _. apply firstn_all.
  - assert (Hgen : forall x pdx, cast_loop chunks off rs fontmap key cas (cast ++ [x]) pdx = Ok (out, pd') -> firstn (length cast) out = cast).
    { intros x pdx Hx. apply IH in Hx. rewrite app_length in Hx. cbn [length] in Hx.
      assert (E : firstn (length cast) (firstn (length cast + 1) out) = firstn (length cast) (cast ++ [x])) by (rewrite Hx; reflexivity).
      rewrite firstn_firstn in E. replace (Nat.min (length cast) (length cast + 1)) with (length cast) in E by lia.
      rewrite E. rewrite firstn_app, firstn_all, Nat.sub_diag. cbn. apply app_nil_r. }
    destruct (Z.eqb_spec ci 0); [eapply Hgen; eassumption|].
    destruct (of_option EIndex (index rs ci)) as [res| |]; cbn [bind] in H; try discriminate.
    destruct (chunk_of chunks off res) as [ch| |]; cbn [bind] in H; try discriminate.
    destruct (parse_cast_file_data (snd ch)) as [cd| |]; cbn [bind] in H; try discriminate.
    destruct (link_all _ _ _ _ _ _) as [[m ps]| |]; cbn [bind] in H; try discriminate.
    eapply Hgen; eassumption.
Qed.

Theorem empty_slot_is_empty chunks off rs fontmap key cas1 cas2 out pd' :
  cast_loop chunks off rs fontmap key (cas1 ++ 0 :: cas2) [] [] = Ok (out, pd') -> nth_error out (length cas1) = Some None.
Proof.
  revert out. assert (G : forall cast pd out, cast_loop chunks off rs fontmap key (cas1 ++ 0 :: cas2) cast pd = Ok (out, pd') ->
                     nth_error out (length cast + length cas1) = Some None).
  { induction cas1 as [|ci cas1 IH]; intros cast pd out H; cbn [app cast_loop] in H.
    - cbn [Z.eqb] in H. pose proof (cast_loop_prefix _ _ _ _ _ _ _ _ _ _ H) as P.
      rewrite app_length in P. cbn [length] in P.
      assert (E : nth_error (firstn (length cast + 1) out) (length cast) = nth_error (cast ++ [None]) (length cast)) by (rewrite P; reflexivity).
      rewrite nth_error_firstn' in E by lia. rewrite nth_error_app2 in E by lia. rewrite Nat.sub_diag in E.
      cbn [length]. rewrite Nat.add_0_r. exact E.
    - assert (Hgen : forall x pdx, cast_loop chunks off rs fontmap key (cas1 ++ 0 :: cas2) (cast ++ [x]) pdx = Ok (out, pd') ->
                               nth_error out (length cast + length (ci :: cas1)) = Some None).
      { intros x pdx Hx. apply IH in Hx. rewrite app_length in Hx. cbn [length] in *.
        replace (length cast + S (length cas1))%nat with (length cast + 1 + length cas1)%nat by lia. exact Hx. }
      destruct (Z.eqb_spec ci 0); [eapply Hgen; eassumption|].
      destruct (of_option EIndex (index rs ci)) as [res| |]; cbn [bind] in H; try discriminate.
      destruct (chunk_of chunks off res) as [ch| |]; cbn [bind] in H; try discriminate.
      destruct (parse_cast_file_data (snd ch)) as [cd| |]; cbn [bind] in H; try discriminate.
      destruct (link_all _ _ _ _ _ _) as [[m ps]| |]; cbn [bind] in H; try discriminate.
      eapply Hgen; eassumption. }
  intros out H. exact (G [] [] out H).
Qed.

(* ---- the bitmap pass keeps the slots: same number of entries, empty slots stay empty, and only 'bitmap' changes ---- *)
Lemma set_slot_length cast k v : length (set_slot cast k v) = length cast.
Proof. revert k. induction cast as [|x r IH]; intros [|k]; cbn [set_slot length]; try reflexivity. rewrite IH. reflexivity. Qed.
Lemma set_slot_other cast k v j : j <> k -> nth_error (set_slot cast k v) j = nth_error cast j.
Proof.
  revert k j. induction cast as [|x r IH]; intros [|k] [|j] H; cbn [set_slot nth_error]; try reflexivity; try congruence.
  apply IH. congruence.
Qed.
Lemma bitmap_pass_length pd : forall cast out, bitmap_pass cast pd = Ok out -> length out = length cast.
Proof.
  induction pd as [|[[slot pid] data] pd IH]; intros cast out H; cbn [bitmap_pass] in H.
  - injection H as <-. reflexivity.
  - destruct (nth_error cast slot) as [[m|]|]; try discriminate.
    destruct (decode_bitmap cast m pid data) as [m'| |]; cbn [bind] in H; try discriminate.
    apply IH in H. rewrite set_slot_length in H. exact H.
Qed.
Lemma bitmap_pass_empty pd : forall cast out k, bitmap_pass cast pd = Ok out -> nth_error cast k = Some None -> nth_error out k = Some None.
Proof.
  induction pd as [|[[slot pid] data] pd IH]; intros cast out k H Hk; cbn [bitmap_pass] in H.
  - injection H as <-. exact Hk.
  - destruct (nth_error cast slot) as [[m|]|] eqn:Es; try discriminate.
    destruct (decode_bitmap cast m pid data) as [m'| |]; cbn [bind] in H; try discriminate.
    apply (IH _ _ k H). rewrite set_slot_other; [exact Hk|]. intros ->. rewrite Es in Hk. discriminate.
Qed.
(* what a decode changes in a member *)
Lemma decode_bitmap_keeps cast m pid data m' : decode_bitmap cast m pid data = Ok m' ->
  m_cast m' = m_cast m /\ m_text m' = m_text m /\ m_sound m' = m_sound m /\ m_palette m' = m_palette m.
Proof.
  unfold decode_bitmap. intros H.
  repeat match type of H with (let! _ := ?x in _) = _ => destruct x; cbn [bind] in H; try discriminate end.
  injection H as <-. repeat split; reflexivity.
Qed.

(* ---- frame: a slot is assembled from its own key links only ---- *)
Theorem cast_depends_on_own_links chunks off rs fontmap key1 key2 cas : forall cast pd,
  (forall ci, In ci cas -> key_refs key1 ci = key_refs key2 ci) ->
  cast_loop chunks off rs fontmap key1 cas cast pd = cast_loop chunks off rs fontmap key2 cas cast pd.
Proof.
  induction cas as [|ci cas IH]; intros cast pd H; cbn [cast_loop]; [reflexivity|].
  assert (Hrest : forall c p, cast_loop chunks off rs fontmap key1 cas c p = cast_loop chunks off rs fontmap key2 cas c p).
  { intros c p. apply IH. intros x Hx. apply H. right. exact Hx. }
  destruct (Z.eqb_spec ci 0); [apply Hrest|].
  destruct (of_option EIndex (index rs ci)) as [res| |]; cbn [bind]; try reflexivity.
  destruct (chunk_of chunks off res) as [ch| |]; cbn [bind]; try reflexivity.
  destruct (parse_cast_file_data (snd ch)) as [cd| |]; cbn [bind]; try reflexivity.
  rewrite (H ci (or_introl eq_refl)).
  destruct (link_all _ _ _ _ _ _) as [[m ps]| |]; cbn [bind]; try reflexivity.
  apply Hrest.
Qed.

(* the palette a bitmap gets is the one of the member it designates, wherever that member stands in the cast *)
Theorem bitmap_palette_of_designated_member cast m pid data m' pm c :
  decode_bitmap cast m pid data = Ok m' -> pid > 0 -> index cast (pid - 1) = Some (Some pm) -> m_palette pm = Some c ->
  exists h w depth pw ph ptxt bmp,
    dict_Z (m_cast m) (B "height"%string) = Ok h /\ dict_Z (m_cast m) (B "width"%string) = Ok w /\ dict_Z (m_cast m) (B "depth"%string) = Ok depth /\
    dict_Z (m_cast m) (B "w_padding"%string) = Ok pw /\ dict_Z (m_cast m) (B "h_padding"%string) = Ok ph /\
    Bitd.bitd2bmp w h depth pw ph ptxt c data = Ok bmp /\ m_bitmap m' = Some bmp.
Proof.
  unfold decode_bitmap. intros H Hp Hi Hc. destruct (Z.gtb_spec pid 0); [|lia]. rewrite Hi, Hc in H. cbn [bind] in H.
  destruct (dict_Z (m_cast m) (B "height"%string)) as [h| |]; cbn [bind] in H; try discriminate.
  destruct (dict_Z (m_cast m) (B "width"%string)) as [w| |]; cbn [bind] in H; try discriminate.
  destruct (dict_Z (m_cast m) (B "depth"%string)) as [depth| |]; cbn [bind] in H; try discriminate.
  destruct (dict_Z (m_cast m) (B "w_padding"%string)) as [pw| |]; cbn [bind] in H; try discriminate.
  destruct (dict_Z (m_cast m) (B "h_padding"%string)) as [ph| |]; cbn [bind] in H; try discriminate.
  destruct (if depth =? 8 then dict_S (m_cast m) (B "palette_txt"%string) else Ok []) as [ptxt| |]; cbn [bind] in H; try discriminate.
  destruct (Bitd.bitd2bmp w h depth pw ph ptxt c data) as [bmp| |] eqn:Eb; cbn [bind] in H; try discriminate.
  injection H as <-. exists h, w, depth, pw, ph, ptxt, bmp. repeat split; try reflexivity. exact Eb.
Qed.

(* the links listed under an owner are exactly the key entries with that owner (C17) *)
Theorem key_refs_of_group es owner :
  key_refs (group es) owner = map ref_of (filter (fun e => linked e && (k_owner e =? owner)) es).
Proof. unfold key_refs. apply group_links. Qed.

(* ---- scripts are keyed by script number ---- *)
Lemma assoc_scr_set_same s n v : assoc n (scr_set s n v) = Some v.
Proof.
  induction s as [|[k o] s IH]; cbn [scr_set assoc].
  - rewrite Z.eqb_refl. reflexivity.
  - destruct (Z.eqb_spec k n) as [->|Hne]; cbn [assoc].
    + rewrite Z.eqb_refl. reflexivity.
    + destruct (Z.eqb_spec n k); [congruence|]. exact IH.
Qed.
Lemma assoc_scr_set_other s n m v : m <> n -> assoc m (scr_set s n v) = assoc m s.
Proof.
  intros Hmn. induction s as [|[k o] s IH]; cbn [scr_set assoc].
  - destruct (Z.eqb_spec m n); [contradiction|reflexivity].
  - destruct (Z.eqb_spec k n) as [->|Hne]; cbn [assoc].
    + destruct (Z.eqb_spec m n); [contradiction|reflexivity].
    + destruct (Z.eqb_spec m k); [reflexivity|exact IH].
Qed.

(* ---- the byte order enters only through container, memory map and key table ---- *)
Theorem byte_order_factored bo1 bo2 off d1 d2 p :
  load_parts bo1 off d1 = Ok p -> load_parts bo2 off d2 = Ok p ->
  parse_dir_file_data decompile bo1 off d1 = parse_dir_file_data decompile bo2 off d2.
Proof. intros H1 H2. unfold parse_dir_file_data. rewrite H1, H2. reflexivity. Qed.
End DirFacts.
