From Coq Require Import List ZArith Bool Lia.
From Coq.Strings Require Import Byte.
From DRX Require Import Py.PyBytes Py.Layout Py.PyStr Proofs.PyBytesFacts Model.Riff Proofs.RiffFacts Model.Index Proofs.IndexFacts
  Model.Vwsc Model.Cast Model.Text Model.Xtract Proofs.XtractFacts Model.Dir.
Import ListNotations.
Open Scope Z_scope.

Lemma nth_error_firstn' {A} (l : list A) : forall n k, (k < n)%nat -> nth_error (firstn n l) k = nth_error l k.
Proof.
  induction l as [|x l IH]; intros n k H; [destruct n; reflexivity|].
  destruct n as [|n]; [lia|]. destruct k as [|k]; cbn [firstn nth_error]; [reflexivity|]. apply IH. lia.
Qed.

Section DirFacts.
Variable decompile : bytes -> list bytes -> result (Z * Z * bytes * bytes).

(* ---- one cast entry per cast-table slot, in order; empty slots stay empty ---- *)
Lemma cast_loop_length chunks off rs fontmap key cas : forall cast out,
  cast_loop chunks off rs fontmap key cas cast = Ok out -> length out = (length cast + length cas)%nat.
Proof.
  induction cas as [|ci cas IH]; intros cast out H; cbn [cast_loop] in H.
  - injection H as <-. cbn. lia.
  - destruct (Z.eqb_spec ci 0).
    + apply IH in H. rewrite app_length in H. cbn [length] in *. lia.
    + destruct (of_option EIndex (index rs ci)) as [res| |]; cbn [bind] in H; try discriminate.
      destruct (chunk_of chunks off res) as [ch| |]; cbn [bind] in H; try discriminate.
      destruct (parse_cast_file_data (snd ch)) as [cd| |]; cbn [bind] in H; try discriminate.
      destruct (link_all _ _ _ _ _ _ _) as [m| |]; cbn [bind] in H; try discriminate.
      apply IH in H. rewrite app_length in H. cbn [length] in *. lia.
Qed.

Lemma cast_loop_prefix chunks off rs fontmap key cas : forall cast out,
  cast_loop chunks off rs fontmap key cas cast = Ok out -> firstn (length cast) out = cast.
Proof.
  induction cas as [|ci cas IH]; intros cast out H; cbn [cast_loop] in H.
  - injection H as <-. apply firstn_all.
  - assert (Hgen : forall x, cast_loop chunks off rs fontmap key cas (cast ++ [x]) = Ok out -> firstn (length cast) out = cast).
    { intros x Hx. apply IH in Hx. rewrite app_length in Hx. cbn [length] in Hx.
      assert (E : firstn (length cast) (firstn (length cast + 1) out) = firstn (length cast) (cast ++ [x])) by (rewrite Hx; reflexivity).
      rewrite firstn_firstn in E. replace (Nat.min (length cast) (length cast + 1)) with (length cast) in E by lia.
      rewrite E. rewrite firstn_app, firstn_all, Nat.sub_diag. cbn. apply app_nil_r. }
    destruct (Z.eqb_spec ci 0); [eapply Hgen; eassumption|].
    destruct (of_option EIndex (index rs ci)) as [res| |]; cbn [bind] in H; try discriminate.
    destruct (chunk_of chunks off res) as [ch| |]; cbn [bind] in H; try discriminate.
    destruct (parse_cast_file_data (snd ch)) as [cd| |]; cbn [bind] in H; try discriminate.
    destruct (link_all _ _ _ _ _ _ _) as [m| |]; cbn [bind] in H; try discriminate.
    eapply Hgen; eassumption.
Qed.

Theorem empty_slot_is_empty chunks off rs fontmap key cas1 cas2 out :
  cast_loop chunks off rs fontmap key (cas1 ++ 0 :: cas2) [] = Ok out -> nth_error out (length cas1) = Some None.
Proof.
  revert out. assert (G : forall cast out, cast_loop chunks off rs fontmap key (cas1 ++ 0 :: cas2) cast = Ok out ->
                     nth_error out (length cast + length cas1) = Some None).
  { induction cas1 as [|ci cas1 IH]; intros cast out H; cbn [app cast_loop] in H.
    - cbn [Z.eqb] in H. pose proof (cast_loop_prefix _ _ _ _ _ _ _ _ H) as P.
      rewrite app_length in P. cbn [length] in P.
      assert (E : nth_error (firstn (length cast + 1) out) (length cast) = nth_error (cast ++ [None]) (length cast)) by (rewrite P; reflexivity).
      rewrite nth_error_firstn' in E by lia. rewrite nth_error_app2 in E by lia. rewrite Nat.sub_diag in E.
      cbn [length]. rewrite Nat.add_0_r. exact E.
    - assert (Hgen : forall x, cast_loop chunks off rs fontmap key (cas1 ++ 0 :: cas2) (cast ++ [x]) = Ok out ->
                               nth_error out (length cast + length (ci :: cas1)) = Some None).
      { intros x Hx. apply IH in Hx. rewrite app_length in Hx. cbn [length] in *.
        replace (length cast + S (length cas1))%nat with (length cast + 1 + length cas1)%nat by lia. exact Hx. }
      destruct (Z.eqb_spec ci 0); [eapply Hgen; eassumption|].
      destruct (of_option EIndex (index rs ci)) as [res| |]; cbn [bind] in H; try discriminate.
      destruct (chunk_of chunks off res) as [ch| |]; cbn [bind] in H; try discriminate.
      destruct (parse_cast_file_data (snd ch)) as [cd| |]; cbn [bind] in H; try discriminate.
      destruct (link_all _ _ _ _ _ _ _) as [m| |]; cbn [bind] in H; try discriminate.
      eapply Hgen; eassumption. }
  intros out H. exact (G [] out H).
Qed.

(* ---- frame: a slot is assembled from its own key links only ---- *)
Theorem cast_depends_on_own_links chunks off rs fontmap key1 key2 cas : forall cast,
  (forall ci, In ci cas -> key_refs key1 ci = key_refs key2 ci) ->
  cast_loop chunks off rs fontmap key1 cas cast = cast_loop chunks off rs fontmap key2 cas cast.
Proof.
  induction cas as [|ci cas IH]; intros cast H; cbn [cast_loop]; [reflexivity|].
  assert (Hrest : forall c, cast_loop chunks off rs fontmap key1 cas c = cast_loop chunks off rs fontmap key2 cas c).
  { intros c. apply IH. intros x Hx. apply H. right. exact Hx. }
  destruct (Z.eqb_spec ci 0); [apply Hrest|].
  destruct (of_option EIndex (index rs ci)) as [res| |]; cbn [bind]; try reflexivity.
  destruct (chunk_of chunks off res) as [ch| |]; cbn [bind]; try reflexivity.
  destruct (parse_cast_file_data (snd ch)) as [cd| |]; cbn [bind]; try reflexivity.
  rewrite (H ci (or_introl eq_refl)).
  destruct (link_all _ _ _ _ _ _ _) as [m| |]; cbn [bind]; try reflexivity.
  apply Hrest.
Qed.

(* the links listed under an owner are exactly the key entries with that owner (C17) *)
Theorem key_refs_of_group es owner :
  key_refs (group es) owner = map ref_of (filter (fun e => linked e && (k_owner e =? owner)) es).
Proof. unfold key_refs. apply group_links. Qed.

(* ---- scripts are keyed by script number ---- *)
Lemma assoc_scr_set_same s n v : assoc n (scr_set s n v) = Some v.
Proof.
  induction s as [|[k o] s IH]; cbn [scr_set assoc].
  - rewrite Z.eqb_refl. reflexivity.
  - destruct (Z.eqb_spec k n) as [->|Hne]; cbn [assoc].
    + rewrite Z.eqb_refl. reflexivity.
    + destruct (Z.eqb_spec n k); [congruence|]. exact IH.
Qed.
Lemma assoc_scr_set_other s n m v : m <> n -> assoc m (scr_set s n v) = assoc m s.
Proof.
  intros Hmn. induction s as [|[k o] s IH]; cbn [scr_set assoc].
  - destruct (Z.eqb_spec m n); [contradiction|reflexivity].
  - destruct (Z.eqb_spec k n) as [->|Hne]; cbn [assoc].
    + destruct (Z.eqb_spec m n); [contradiction|reflexivity].
    + destruct (Z.eqb_spec m k); [reflexivity|exact IH].
Qed.

(* ---- the byte order enters only through container, memory map and key table ---- *)
Theorem byte_order_factored bo1 bo2 off d1 d2 p :
  load_parts bo1 off d1 = Ok p -> load_parts bo2 off d2 = Ok p ->
  parse_dir_file_data decompile bo1 off d1 = parse_dir_file_data decompile bo2 off d2.
Proof. intros H1 H2. unfold parse_dir_file_data. rewrite H1, H2. reflexivity. Qed.
End DirFacts.
