From Coq Require Import List ZArith Bool Lia.
From Coq.Strings Require Import Byte.
From DRX Require Import Py.PyBytes Py.Layout Py.PyStr Proofs.PyBytesFacts Proofs.LayoutFacts
  Model.Riff Proofs.RiffFacts Model.Index Gen.Gen_Common.
Import ListNotations.
Open Scope Z_scope.

(* ================================================================ cast table *)
Definition enc_cas (vs : list Z) : bytes := concat (map (pack 4 Big) vs).

Lemma zlen_enc_cas vs : zlen (enc_cas vs) = 4 * zlen vs.
Proof.
  induction vs as [|v vs IH]; [reflexivity|]. unfold enc_cas in *. cbn [map concat].
  rewrite zlen_app, zlen_pack, IH, zlen_cons. lia.
Qed.

Lemma cas_loop_enc vs : forall fuel pre tail,
  (length vs < fuel)%nat -> Forall in32 vs -> zlen tail < 4 ->
  cas_loop fuel (pre ++ enc_cas vs ++ tail) (zlen pre) = Ok vs.
Proof.
  induction vs as [|v vs IH]; intros fuel pre tail Hf Hin Ht.
  - cbn [enc_cas map concat app]. pose proof (zlen_nonneg tail).
    destruct fuel; cbn [cas_loop]; rewrite zlen_app;
      destruct (Z.geb_spec (zlen pre + zlen tail) (zlen pre + 4)); try lia; reflexivity.
  - destruct fuel as [|f]; [cbn in Hf; lia|]. inversion Hin as [|? ? Hv Hvs]; subst.
    unfold enc_cas. cbn [map concat]. fold (enc_cas vs). cbn [cas_loop].
    pose proof (zlen_nonneg tail). pose proof (zlen_nonneg (enc_cas vs)).
    destruct (Z.geb_spec (zlen (pre ++ (pack 4 Big v ++ enc_cas vs) ++ tail)) (zlen pre + 4)) as [_|Hlt].
    2:{ rewrite !zlen_app, zlen_pack in Hlt. lia. }
    repeat rewrite <- app_assoc.
    rewrite rd_s4_at by auto. cbn [bind].
    replace (pre ++ pack 4 Big v ++ enc_cas vs ++ tail) with ((pre ++ pack 4 Big v) ++ enc_cas vs ++ tail)
      by (rewrite <- app_assoc; reflexivity).
    replace (zlen pre + 4) with (zlen (pre ++ pack 4 Big v)) by (rewrite zlen_app, zlen_pack; reflexivity).
    rewrite IH; [reflexivity | cbn in Hf; lia | assumption | assumption].
Qed.

Theorem cas_roundtrip vs tail :
  Forall in32 vs -> zlen tail < 4 -> parse_cas_file_data (enc_cas vs ++ tail) = Ok vs.
Proof.
  intros Hin Ht. unfold parse_cas_file_data.
  change (enc_cas vs ++ tail) with ([] ++ enc_cas vs ++ tail) at 2.
  apply cas_loop_enc; auto.
  rewrite app_length. pose proof (zlen_enc_cas vs) as H. unfold zlen in H. lia.
Qed.

(* ================================================================ key table *)
Record key_entry := { k_nfile : Z; k_owner : Z; k_cc : bytes }.
Definition enc_key_entry (bo : byteorder) (e : key_entry) : bytes :=
  pack 4 bo (k_nfile e) ++ pack 4 bo (k_owner e) ++ orient bo (k_cc e).
Definition enc_key (bo : byteorder) (u1 u2 used : Z) (es : list key_entry) : bytes :=
  pack 4 bo u1 ++ pack 4 bo u2 ++ pack 4 bo used ++ concat (map (enc_key_entry bo) es).
Definition wf_key_entry (e : key_entry) : Prop := in32 (k_nfile e) /\ in32 (k_owner e) /\ length (k_cc e) = 4%nat.

Definition linked (e : key_entry) : bool := (k_owner e >? 0) && (k_nfile e >? 0).
Definition ref_of (e : key_entry) : bytes * Z := (map sanitize_char (k_cc e), k_nfile e).
(* the table the entries denote: first-seen owner order, links in entry order *)
Definition group_step (m : keymap) (e : key_entry) : keymap :=
  if linked e then key_insert m (k_owner e) (ref_of e) else m.
Definition group (es : list key_entry) : keymap := fold_left group_step es [].

Lemma zlen_enc_key_entry bo e : length (k_cc e) = 4%nat -> zlen (enc_key_entry bo e) = 12.
Proof. intros H. unfold enc_key_entry. rewrite !zlen_app, !zlen_pack, zlen_orient, (zlen4 _ H). reflexivity. Qed.

Lemma key_loop_enc bo es : forall fuel pre post m,
  (length es < fuel)%nat -> Forall wf_key_entry es ->
  key_loop fuel (zlen es) bo (pre ++ concat (map (enc_key_entry bo) es) ++ post) (zlen pre) m
  = Ok (fold_left group_step es m).
Proof.
  induction es as [|e es IH]; intros fuel pre post m Hf Hwf.
  - destruct fuel; reflexivity.
  - destruct fuel as [|f]; [cbn in Hf; lia|]. inversion Hwf as [|? ? He Hes]; subst.
    destruct He as (Hn & Ho & Hc).
    cbn [key_loop map concat fold_left]. rewrite zlen_cons. pose proof (zlen_nonneg es).
    destruct (Z.leb_spec (1 + zlen es) 0); [lia|].
    change (enc_key_entry bo e) with (pack 4 bo (k_nfile e) ++ pack 4 bo (k_owner e) ++ orient bo (k_cc e)).
    repeat rewrite <- app_assoc.
    rewrite rd_s4_at by auto. cbn [bind].
    replace (pre ++ pack 4 bo (k_nfile e) ++ pack 4 bo (k_owner e) ++ orient bo (k_cc e) ++ concat (map (enc_key_entry bo) es) ++ post)
      with ((pre ++ pack 4 bo (k_nfile e)) ++ pack 4 bo (k_owner e) ++ (orient bo (k_cc e) ++ concat (map (enc_key_entry bo) es) ++ post))
      by (repeat rewrite <- app_assoc; reflexivity).
    rewrite rd_s4_at; [| rewrite zlen_app, zlen_pack; reflexivity | exact Ho]. cbn [bind].
    replace ((pre ++ pack 4 bo (k_nfile e)) ++ pack 4 bo (k_owner e) ++ orient bo (k_cc e) ++ concat (map (enc_key_entry bo) es) ++ post)
      with ((pre ++ pack 4 bo (k_nfile e) ++ pack 4 bo (k_owner e)) ++ orient bo (k_cc e) ++ (concat (map (enc_key_entry bo) es) ++ post))
      by (repeat rewrite <- app_assoc; reflexivity).
    rewrite chunk_id_at; [| rewrite !zlen_app, !zlen_pack; lia | exact Hc]. cbn [bind].
    replace ((pre ++ pack 4 bo (k_nfile e) ++ pack 4 bo (k_owner e)) ++ orient bo (k_cc e) ++ concat (map (enc_key_entry bo) es) ++ post)
      with ((pre ++ enc_key_entry bo e) ++ concat (map (enc_key_entry bo) es) ++ post)
      by (unfold enc_key_entry; repeat rewrite <- app_assoc; reflexivity).
    replace (zlen pre + 12) with (zlen (pre ++ enc_key_entry bo e)) by (rewrite zlen_app, (zlen_enc_key_entry bo e Hc); reflexivity).
    replace (1 + zlen es - 1) with (zlen es) by lia.
    rewrite IH; [| cbn in Hf; lia | exact Hes].
    unfold group_step at 2, linked, ref_of. reflexivity.
Qed.

Lemma length_concat_key bo es : Forall wf_key_entry es -> (length es <= length (concat (map (enc_key_entry bo) es)))%nat.
Proof.
  induction 1 as [|e es He _ IH]; [cbn; lia|]. cbn [map concat length]. rewrite app_length.
  destruct He as (_ & _ & Hc). pose proof (zlen_enc_key_entry bo e Hc) as H. unfold zlen in H. lia.
Qed.

(* What the parser computes on a table with [used] = number of entries: it reads used-1 of them.
   [es ++ [last]] is the used part, [unused] are slots after it. *)
Theorem key_roundtrip_partial bo u1 u2 es last unused :
  in32 u1 -> in32 u2 -> in32 (zlen es + 1) -> Forall wf_key_entry es ->
  parse_key_file_data bo (enc_key bo u1 u2 (zlen es + 1) (es ++ [last]) ++ unused) = Ok (group es).
Proof.
  intros H1 H2 H3 Hwf. unfold parse_key_file_data, enc_key.
  repeat rewrite <- app_assoc.
  rewrite rd_s4_at0 by auto. cbn [bind].
  rewrite (rd_s4_at bo (pack 4 bo u1) u2) by (try assumption; rewrite zlen_pack; reflexivity). cbn [bind].
  replace (pack 4 bo u1 ++ pack 4 bo u2 ++ pack 4 bo (zlen es + 1) ++ concat (map (enc_key_entry bo) (es ++ [last])) ++ unused)
    with ((pack 4 bo u1 ++ pack 4 bo u2) ++ pack 4 bo (zlen es + 1) ++ (concat (map (enc_key_entry bo) (es ++ [last])) ++ unused))
    by (repeat rewrite <- app_assoc; reflexivity).
  rewrite rd_s4_at; [| rewrite zlen_app, !zlen_pack; reflexivity | exact H3]. cbn [bind].
  rewrite map_app, concat_app. cbn [map concat]. rewrite app_nil_r.
  replace (zlen es + 1 - 1) with (zlen es) by lia.
  replace ((pack 4 bo u1 ++ pack 4 bo u2) ++ pack 4 bo (zlen es + 1) ++ (concat (map (enc_key_entry bo) es) ++ enc_key_entry bo last) ++ unused)
    with ((pack 4 bo u1 ++ pack 4 bo u2 ++ pack 4 bo (zlen es + 1)) ++ concat (map (enc_key_entry bo) es) ++ (enc_key_entry bo last ++ unused))
    by (repeat rewrite <- app_assoc; reflexivity).
  replace 12 with (zlen (pack 4 bo u1 ++ pack 4 bo u2 ++ pack 4 bo (zlen es + 1)))
    by (rewrite !zlen_app, !zlen_pack; reflexivity).
  unfold group. apply key_loop_enc; [| exact Hwf].
  rewrite !app_length. pose proof (length_concat_key bo es Hwf). lia.
Qed.

(* meaning of [group]: the links listed under an owner are exactly the entries of that owner with
   positive ids, in order; owners are distinct *)
Definition refs (m : keymap) (owner : Z) : list (bytes * Z) :=
  match assoc owner m with Some l => l | None => [] end.

Lemma refs_key_insert m o r owner :
  refs (key_insert m o r) owner = if owner =? o then refs m owner ++ [r] else refs m owner.
Proof.
  unfold refs. induction m as [|[o' l] m IH]; cbn [key_insert assoc].
  - destruct (Z.eqb_spec owner o); reflexivity.
  - destruct (Z.eqb_spec o' o) as [->|Hne]; cbn [assoc].
    + destruct (Z.eqb_spec owner o); reflexivity.
    + destruct (Z.eqb_spec owner o') as [->|Hne2].
      * destruct (Z.eqb_spec o' o); [congruence|reflexivity].
      * exact IH.
Qed.

Lemma refs_fold es : forall m owner,
  refs (fold_left group_step es m) owner
  = refs m owner ++ map ref_of (filter (fun e => linked e && (k_owner e =? owner)) es).
Proof.
  induction es as [|e es IH]; intros m owner; cbn [fold_left filter map]; [rewrite app_nil_r; reflexivity|].
  rewrite IH. unfold group_step at 1. destruct (linked e) eqn:L; cbn [andb].
  - rewrite refs_key_insert. rewrite (Z.eqb_sym owner). destruct (k_owner e =? owner); cbn [map].
    + rewrite <- app_assoc. reflexivity.
    + reflexivity.
  - reflexivity.
Qed.

Theorem group_links es owner :
  refs (group es) owner = map ref_of (filter (fun e => linked e && (k_owner e =? owner)) es).
Proof. unfold group. rewrite refs_fold. reflexivity. Qed.

Lemma key_insert_keys m o r : forall k, In k (map fst (key_insert m o r)) <-> In k (map fst m) \/ k = o.
Proof.
  induction m as [|[o' l] m IH]; intros k; cbn [key_insert map fst In].
  - intuition.
  - destruct (Z.eqb_spec o' o) as [->|Hne]; cbn [map fst In].
    + intuition.
    + rewrite IH. intuition.
Qed.

Lemma key_insert_nodup m o r : NoDup (map fst m) -> NoDup (map fst (key_insert m o r)).
Proof.
  induction m as [|[o' l] m IH]; intros H; cbn [key_insert map fst].
  - constructor; [intros []|constructor].
  - inversion H as [|? ? Hnin Hnd]; subst. destruct (Z.eqb_spec o' o) as [->|Hne]; cbn [map fst].
    + constructor; assumption.
    + constructor; [|apply IH; assumption]. rewrite key_insert_keys. intros [Hin|Heq]; [contradiction|congruence].
Qed.

Theorem group_owners_distinct es : NoDup (map fst (group es)).
Proof.
  unfold group. assert (H : NoDup (map fst (@nil (Z * list (bytes * Z))))) by constructor.
  revert H. generalize (@nil (Z * list (bytes * Z))).
  induction es as [|e es IH]; intros m H; cbn [fold_left]; [exact H|].
  apply IH. unfold group_step. destruct (linked e); [apply key_insert_nodup|]; exact H.
Qed.

(* Mac and PC encodings of one table decode identically *)
Theorem key_mac_pc u1 u2 es last unused1 unused2 :
  in32 u1 -> in32 u2 -> in32 (zlen es + 1) -> Forall wf_key_entry es ->
  parse_key_file_data Big (enc_key Big u1 u2 (zlen es + 1) (es ++ [last]) ++ unused1)
  = parse_key_file_data Little (enc_key Little u1 u2 (zlen es + 1) (es ++ [last]) ++ unused2).
Proof. intros. rewrite !key_roundtrip_partial by assumption. reflexivity. Qed.

(* the full statement "every used entry is decoded" is false: the last used entry is dropped *)
Definition key_full_statement : Prop :=
  forall bo u1 u2 es, in32 u1 -> in32 u2 -> in32 (zlen es) -> Forall wf_key_entry es ->
  parse_key_file_data bo (enc_key bo u1 u2 (zlen es) es) = Ok (group es).
Theorem key_roundtrip_refuted : ~ key_full_statement.
Proof.
  intros H.
  specialize (H Big 0 0 [Build_key_entry 7 3 ["B";"I";"T";"D"]%byte]).
  assert (E : parse_key_file_data Big (enc_key Big 0 0 (zlen [Build_key_entry 7 3 ["B";"I";"T";"D"]%byte])
                [Build_key_entry 7 3 ["B";"I";"T";"D"]%byte]) = Ok []) by (vm_compute; reflexivity).
  rewrite E in H.
  assert (G : group [Build_key_entry 7 3 ["B";"I";"T";"D"]%byte] = [(3, [(["B";"I";"T";"D"]%byte, 7)])])
    by (vm_compute; reflexivity).
  rewrite G in H.
  assert (Ok (@nil (Z * list (bytes * Z))) = Ok [(3, [(["B";"I";"T";"D"]%byte, 7)])]); [|discriminate].
  apply H; unfold in32; try (cbn; lia).
  constructor; [|constructor]. unfold wf_key_entry, in32. cbn. repeat split; lia.
Qed.

(* ================================================================ script-context table *)
Definition lctx_hdr_layout : layout := [FS 4; FS 4; FS 4; FS 4; FS 2].
Definition enc_lctx_entry (e : Z * Z * Z) : bytes :=
  let '(k, s, u) := e in pack 4 Big k ++ pack 4 Big s ++ pack 4 Big u.
Definition wf_lctx_entry (e : Z * Z * Z) : Prop :=
  let '(k, s, u) := e in 0 <= k < 256 ^ 4 /\ in32 s /\ in32 u.
Definition enc_lctx (u1 u2 ns2 : Z) (gap : bytes) (es : list (Z * Z * Z)) : bytes :=
  enc_layout Big lctx_hdr_layout [u1; u2; zlen es; ns2; 18 + zlen gap] [] ++ gap ++ concat (map enc_lctx_entry es).

Lemma zlen_enc_lctx_entry e : zlen (enc_lctx_entry e) = 12.
Proof. destruct e as [[k s] u]. cbn [enc_lctx_entry]. rewrite !zlen_app, !zlen_pack. reflexivity. Qed.

Lemma lctx_loop_enc es : forall fuel pre post,
  (length es < fuel)%nat -> Forall wf_lctx_entry es ->
  lctx_loop fuel (zlen es) (pre ++ concat (map enc_lctx_entry es) ++ post) (zlen pre)
  = Ok (map (fun e : Z * Z * Z => (fst (fst e), snd (fst e))) es).
Proof.
  induction es as [|e es IH]; intros fuel pre post Hf Hwf.
  - destruct fuel; reflexivity.
  - destruct fuel as [|f]; [cbn in Hf; lia|]. inversion Hwf as [|? ? He Hes]; subst.
    destruct e as [[k s] u]. destruct He as (Hk & Hs & Hu).
    cbn [lctx_loop map concat]. rewrite zlen_cons. pose proof (zlen_nonneg es).
    destruct (Z.leb_spec (1 + zlen es) 0); [lia|].
    cbn [enc_lctx_entry]. repeat rewrite <- app_assoc.
    rewrite rd_u_at by auto. cbn [bind].
    replace (pre ++ pack 4 Big k ++ pack 4 Big s ++ pack 4 Big u ++ concat (map enc_lctx_entry es) ++ post)
      with ((pre ++ pack 4 Big k) ++ pack 4 Big s ++ (pack 4 Big u ++ concat (map enc_lctx_entry es) ++ post))
      by (repeat rewrite <- app_assoc; reflexivity).
    rewrite rd_s4_at; [| rewrite zlen_app, zlen_pack; reflexivity | exact Hs]. cbn [bind].
    replace ((pre ++ pack 4 Big k) ++ pack 4 Big s ++ pack 4 Big u ++ concat (map enc_lctx_entry es) ++ post)
      with ((pre ++ pack 4 Big k ++ pack 4 Big s) ++ pack 4 Big u ++ (concat (map enc_lctx_entry es) ++ post))
      by (repeat rewrite <- app_assoc; reflexivity).
    rewrite rd_s4_at; [| rewrite !zlen_app, !zlen_pack; lia | exact Hu]. cbn [bind].
    replace ((pre ++ pack 4 Big k ++ pack 4 Big s) ++ pack 4 Big u ++ concat (map enc_lctx_entry es) ++ post)
      with ((pre ++ enc_lctx_entry (k, s, u)) ++ concat (map enc_lctx_entry es) ++ post)
      by (cbn [enc_lctx_entry]; repeat rewrite <- app_assoc; reflexivity).
    replace (zlen pre + 12) with (zlen (pre ++ enc_lctx_entry (k, s, u)))
      by (rewrite zlen_app, zlen_enc_lctx_entry; reflexivity).
    replace (1 + zlen es - 1) with (zlen es) by lia.
    rewrite IH; [reflexivity | cbn in Hf; lia | exact Hes].
Qed.

Theorem lctx_roundtrip u1 u2 ns2 gap es tail :
  fits_all lctx_hdr_layout [u1; u2; zlen es; ns2; 18 + zlen gap] -> Forall wf_lctx_entry es ->
  parse_lctx_file_data (enc_lctx u1 u2 ns2 gap es ++ tail)
  = Ok (map (fun e : Z * Z * Z => (fst (fst e), snd (fst e))) es).
Proof.
  intros Hh Hes. unfold parse_lctx_file_data, enc_lctx.
  set (H := enc_layout Big lctx_hdr_layout [u1; u2; zlen es; ns2; 18 + zlen gap] []).
  assert (HL : zlen H = 18) by (unfold H; rewrite zlen_enc_layout; reflexivity).
  replace ((H ++ gap ++ concat (map enc_lctx_entry es)) ++ tail)
    with ([] ++ H ++ (gap ++ concat (map enc_lctx_entry es) ++ tail))
    by (cbn [app]; repeat rewrite <- app_assoc; reflexivity).
  unfold H at 1. fold lctx_hdr_layout. rewrite read_enc_layout; [| reflexivity | exact Hh]. cbn [bind app].
  change (getv [u1; u2; zlen es; ns2; 18 + zlen gap] 2) with (zlen es).
  change (getv [u1; u2; zlen es; ns2; 18 + zlen gap] 4) with (18 + zlen gap).
  fold H.
  replace (H ++ gap ++ concat (map enc_lctx_entry es) ++ tail)
    with ((H ++ gap) ++ concat (map enc_lctx_entry es) ++ tail) by (rewrite <- app_assoc; reflexivity).
  replace (18 + zlen gap) with (zlen (H ++ gap)) by (rewrite zlen_app, HL; reflexivity).
  apply lctx_loop_enc; [|exact Hes].
  rewrite !app_length.
  assert (length es <= length (concat (map enc_lctx_entry es)))%nat; [|lia].
  clear. induction es as [|e es IH]; [cbn; lia|]. cbn [map concat length]. rewrite app_length.
  pose proof (zlen_enc_lctx_entry e) as H. unfold zlen in H. lia.
Qed.

(* ================================================================ name table *)
Definition lnam_hdr_layout : layout := [FS 4; FS 4; FS 4; FS 4; FS 2; FS 2].
Definition enc_name (n : bytes) : bytes := byte_of_Z (zlen n) :: n.
Definition enc_lnam (u1 u2 fs u3 : Z) (names : list bytes) : bytes :=
  enc_layout Big lnam_hdr_layout [u1; u2; fs; fs; u3; zlen names] [] ++ concat (map enc_name names).

Lemma lnam_loop_enc names : forall fuel pre post,
  (length names < fuel)%nat -> Forall (fun n => zlen n <= 255) names ->
  lnam_loop fuel (zlen names) (pre ++ concat (map enc_name names) ++ post) (zlen pre) = Ok names.
Proof.
  induction names as [|n names IH]; intros fuel pre post Hf Hwf.
  - destruct fuel; reflexivity.
  - destruct fuel as [|f]; [cbn in Hf; lia|]. inversion Hwf as [|? ? Hn Hns]; subst.
    cbn [lnam_loop map concat]. rewrite zlen_cons. pose proof (zlen_nonneg names). pose proof (zlen_nonneg n).
    destruct (Z.leb_spec (1 + zlen names) 0); [lia|].
    set (d := pre ++ (enc_name n ++ concat (map enc_name names)) ++ post).
    assert (E1 : index d (zlen pre) = Some (byte_of_Z (zlen n))).
    { unfold d, enc_name. cbn [app]. apply index_app_at. reflexivity. }
    assert (E2 : slice d (zlen pre + 1) (zlen pre + 1 + zlen n) = n).
    { unfold d. change (enc_name n) with (byte_of_Z (zlen n) :: n).
      replace (pre ++ ((byte_of_Z (zlen n) :: n) ++ concat (map enc_name names)) ++ post)
        with ((pre ++ [byte_of_Z (zlen n)]) ++ n ++ (concat (map enc_name names) ++ post))
        by (cbn [app]; repeat rewrite <- app_assoc; cbn [app]; repeat rewrite <- app_assoc; reflexivity).
      apply slice_mid; rewrite zlen_app; change (zlen [byte_of_Z (zlen n)]) with 1; lia. }
    assert (E3 : d = (pre ++ enc_name n) ++ concat (map enc_name names) ++ post)
      by (unfold d; repeat rewrite <- app_assoc; reflexivity).
    rewrite E1. cbn [of_option bind]. rewrite u8_byte_of_Z, Z.mod_small by lia. rewrite E2, E3.
    replace (zlen pre + 1 + zlen n) with (zlen (pre ++ enc_name n))
      by (unfold enc_name; rewrite zlen_app, zlen_cons; lia).
    replace (1 + zlen names - 1) with (zlen names) by lia.
    rewrite IH; [reflexivity | cbn in Hf; lia | exact Hns].
Qed.

Theorem lnam_roundtrip u1 u2 fs u3 names tail :
  fits_all lnam_hdr_layout [u1; u2; fs; fs; u3; zlen names] -> Forall (fun n => zlen n <= 255) names ->
  parse_lnam_file_data (enc_lnam u1 u2 fs u3 names ++ tail) = Ok names.
Proof.
  intros Hh Hn. unfold parse_lnam_file_data, enc_lnam.
  match goal with |- context[read_layout _ _ ((?h ++ _) ++ _) _] => set (H := h) end.
  assert (HL : zlen H = 20) by (unfold H; rewrite zlen_enc_layout; reflexivity).
  replace ((H ++ concat (map enc_name names)) ++ tail) with ([] ++ H ++ (concat (map enc_name names) ++ tail))
    by (cbn [app]; repeat rewrite <- app_assoc; reflexivity).
  unfold H at 1. fold lnam_hdr_layout. rewrite read_enc_layout; [| reflexivity | exact Hh]. cbn [bind app].
  change (getv [u1; u2; fs; fs; u3; zlen names] 3) with fs.
  change (getv [u1; u2; fs; fs; u3; zlen names] 2) with fs.
  change (getv [u1; u2; fs; fs; u3; zlen names] 5) with (zlen names).
  rewrite Z.eqb_refl. cbn [negb]. fold H.
  replace 20 with (zlen H) by exact HL.
  apply lnam_loop_enc; [|exact Hn].
  rewrite !app_length.
  assert (length names <= length (concat (map enc_name names)))%nat; [|lia].
  clear. induction names as [|n ns IH]; [cbn; lia|]. cbn [map concat length]. rewrite app_length. cbn [enc_name length]. lia.
Qed.

(* a different size copy is rejected *)
Theorem lnam_size_mismatch u1 u2 fs fs2 u3 n rest :
  fits_all lnam_hdr_layout [u1; u2; fs; fs2; u3; n] -> fs2 <> fs ->
  parse_lnam_file_data (enc_layout Big lnam_hdr_layout [u1; u2; fs; fs2; u3; n] [] ++ rest) = Err EValue.
Proof.
  intros Hh Hne. unfold parse_lnam_file_data.
  replace (enc_layout Big lnam_hdr_layout [u1; u2; fs; fs2; u3; n] [] ++ rest)
    with ([] ++ enc_layout Big lnam_hdr_layout [u1; u2; fs; fs2; u3; n] [] ++ rest) by reflexivity.
  fold lnam_hdr_layout. rewrite read_enc_layout; [| reflexivity | exact Hh]. cbn [bind].
  change (getv [u1; u2; fs; fs2; u3; n] 3) with fs2. change (getv [u1; u2; fs; fs2; u3; n] 2) with fs.
  destruct (Z.eqb_spec fs2 fs); [contradiction|reflexivity].
Qed.

(* ================================================================ marker list *)
Definition enc_ent (e : Z * Z) : bytes := pack 2 Big (fst e) ++ pack 2 Big (snd e).   (* frame, offset *)
Definition enc_tab (t : list (Z * Z)) : bytes := concat (map enc_ent t).
Definition wf_ent (e : Z * Z) : Prop := in16 (fst e) /\ in16 (snd e).

(* what the loop reads from a table [e1; e2; ...]: (d[mn+off e1 : mn+off e2], frame e1), ... *)
Fixpoint names_of (d : bytes) (mn : Z) (e1 : Z * Z) (t : list (Z * Z)) : list (bytes * Z) :=
  match t with
  | [] => []
  | e2 :: t' => (slice d (mn + snd e1) (mn + snd e2), fst e1) :: names_of d mn e2 t'
  end.

Lemma zlen_enc_ent e : zlen (enc_ent e) = 4.
Proof. unfold enc_ent. rewrite zlen_app, !zlen_pack. reflexivity. Qed.

(* the offsets of a table do not decrease *)
Fixpoint mono (e1 : Z * Z) (t : list (Z * Z)) : Prop :=
  match t with [] => True | e2 :: t' => snd e1 <= snd e2 /\ mono e2 t' end.

Lemma vwlb_loop_tab t : forall fuel e1 pre post d mn,
  (length t < fuel)%nat -> wf_ent e1 -> Forall wf_ent t -> mono e1 t ->
  d = pre ++ enc_tab (e1 :: t) ++ post ->
  vwlb_loop fuel (zlen t) d (zlen pre) mn = Ok (names_of d mn e1 t).
Proof.
  induction t as [|e2 t IH]; intros fuel e1 pre post d mn Hf H1 Ht Hm Hd.
  - destruct fuel; reflexivity.
  - destruct fuel as [|f]; [cbn in Hf; lia|]. pose proof (Forall_inv Ht) as H2. pose proof (Forall_inv_tail Ht) as Ht'.
    destruct Hm as [Hm1 Hm'].
    cbn [vwlb_loop names_of]. rewrite zlen_cons. pose proof (zlen_nonneg t).
    destruct (Z.leb_spec (1 + zlen t) 0); [lia|].
    destruct H1 as [H1a H1b]. destruct H2 as [H2a H2b].
    assert (Ea : rd_s 2 Big d (zlen pre) = Ok (fst e1)).
    { rewrite Hd. unfold enc_tab. cbn [map concat]. unfold enc_ent at 1. repeat rewrite <- app_assoc.
      apply rd_s2_at; auto. }
    assert (Eb : rd_s 2 Big d (zlen pre + 2) = Ok (snd e1)).
    { rewrite Hd. unfold enc_tab. cbn [map concat]. unfold enc_ent at 1. repeat rewrite <- app_assoc.
      rewrite app_assoc. apply rd_s2_at; [rewrite zlen_app, zlen_pack; reflexivity | exact H1b]. }
    assert (Ec : rd_s 2 Big d (zlen pre + 6) = Ok (snd e2)).
    { rewrite Hd. unfold enc_tab. cbn [map concat]. unfold enc_ent at 1 2. repeat rewrite <- app_assoc.
      replace (pre ++ pack 2 Big (fst e1) ++ pack 2 Big (snd e1) ++ pack 2 Big (fst e2) ++ pack 2 Big (snd e2) ++ concat (map enc_ent t) ++ post)
        with ((pre ++ pack 2 Big (fst e1) ++ pack 2 Big (snd e1) ++ pack 2 Big (fst e2)) ++ pack 2 Big (snd e2) ++ (concat (map enc_ent t) ++ post))
        by (repeat rewrite <- app_assoc; reflexivity).
      apply rd_s2_at; [rewrite !zlen_app, !zlen_pack; lia | exact H2b]. }
    rewrite Ea, Eb, Ec. cbn [bind]. destruct (Z.ltb_spec (snd e2) (snd e1)); [lia|].
    replace (1 + zlen t - 1) with (zlen t) by lia.
    replace (zlen pre + 4) with (zlen (pre ++ enc_ent e1)) by (rewrite zlen_app, zlen_enc_ent; reflexivity).
    rewrite (IH f e2 (pre ++ enc_ent e1) post d mn); [reflexivity | cbn in Hf; lia | split; assumption | exact Ht' | exact Hm' |].
    rewrite Hd. unfold enc_tab. cbn [map concat]. repeat rewrite <- app_assoc. reflexivity.
Qed.

(* the proper encoding: offsets are the running lengths of the labels in the string pool *)
Fixpoint mk_tab (start : Z) (ms : list (bytes * Z)) (sentinel_frame : Z) : list (Z * Z) :=
  match ms with
  | [] => [(sentinel_frame, start)]
  | (lab, fr) :: r => (fr, start) :: mk_tab (start + zlen lab) r sentinel_frame
  end.
Definition pool (ms : list (bytes * Z)) : bytes := concat (map fst ms).
Definition enc_vwlb (ms : list (bytes * Z)) (sf : Z) : bytes :=
  pack 2 Big (zlen ms) ++ enc_tab (mk_tab 0 ms sf) ++ pool ms.

Lemma names_of_mk_tab ms : forall sf pre0 H post d lab0 fr0,
  d = H ++ pre0 ++ lab0 ++ pool ms ++ post ->
  names_of d (zlen H) (fr0, zlen pre0) (mk_tab (zlen pre0 + zlen lab0) ms sf) = (lab0, fr0) :: ms.
Proof.
  induction ms as [|[lab fr] ms IH]; intros sf pre0 H post d lab0 fr0 Hd.
  - cbn [mk_tab names_of fst snd]. f_equal. f_equal. rewrite Hd.
    rewrite app_assoc. apply slice_mid; rewrite zlen_app; lia.
  - cbn [mk_tab names_of fst snd]. f_equal.
    + f_equal. rewrite Hd. rewrite app_assoc. apply slice_mid; rewrite zlen_app; lia.
    + replace (zlen pre0 + zlen lab0) with (zlen (pre0 ++ lab0)) by (rewrite zlen_app; reflexivity).
      apply (IH sf (pre0 ++ lab0) H post d lab fr).
      rewrite Hd. unfold pool. cbn [map concat fst]. repeat rewrite <- app_assoc. reflexivity.
Qed.

Lemma mk_tab_mono ms : forall start fr sf, mono (fr, start) (mk_tab (start + 0) ms sf) /\ forall l, 0 <= l -> mono (fr, start) (mk_tab (start + l) ms sf).
Proof.
  assert (G : forall ms start fr sf l, 0 <= l -> mono (fr, start) (mk_tab (start + l) ms sf)).
  { clear ms. induction ms as [|[lab fr'] ms IH]; intros start fr sf l Hl; cbn [mk_tab mono snd].
    - split; [lia | exact I].
    - split; [lia|]. apply IH. apply zlen_nonneg. }
  intros start fr sf. split; [apply G; lia | intros l Hl; apply G; exact Hl].
Qed.

Lemma mk_tab_length ms : forall s sf, length (mk_tab s ms sf) = S (length ms).
Proof. induction ms as [|[lab fr] ms IH]; intros s sf; cbn [mk_tab length]; [reflexivity|]. rewrite IH. reflexivity. Qed.

Lemma zlen_mk_tab ms s sf : zlen (mk_tab s ms sf) = zlen ms + 1.
Proof. unfold zlen. rewrite mk_tab_length. lia. Qed.

Lemma zlen_enc_tab t : zlen (enc_tab t) = 4 * zlen t.
Proof.
  induction t as [|e t IH]; [reflexivity|]. unfold enc_tab in *. cbn [map concat].
  rewrite zlen_app, zlen_enc_ent, IH, zlen_cons. lia.
Qed.

Theorem vwlb_roundtrip ms sf tail :
  in16 (zlen ms) -> Forall wf_ent (mk_tab 0 ms sf) ->
  parse_vwlb_data (enc_vwlb ms sf ++ tail) = Ok ms.
Proof.
  intros Hn Hwf. unfold parse_vwlb_data, enc_vwlb.
  repeat rewrite <- app_assoc. rewrite rd_s2_at0 by exact Hn. cbn [bind].
  destruct ms as [|[lab0 fr0] ms].
  - cbn [zlen length Z.of_nat]. destruct (length _); reflexivity.
  - set (d := pack 2 Big (zlen ((lab0, fr0) :: ms)) ++ enc_tab (mk_tab 0 ((lab0, fr0) :: ms) sf) ++ pool ((lab0, fr0) :: ms) ++ tail).
    cbn [mk_tab] in Hwf. inversion Hwf as [|? ? He1 Ht]; subst.
    assert (Hmn : 2 + 4 * (zlen ((lab0, fr0) :: ms) + 1) = zlen (pack 2 Big (zlen ((lab0, fr0) :: ms)) ++ enc_tab (mk_tab 0 ((lab0, fr0) :: ms) sf))).
    { rewrite zlen_app, zlen_pack, zlen_enc_tab, zlen_mk_tab. reflexivity. }
    rewrite Hmn.
    pose proof (vwlb_loop_tab (mk_tab (0 + zlen lab0) ms sf) (S (length d)) (fr0, 0)
               (pack 2 Big (zlen ((lab0, fr0) :: ms))) (pool ((lab0, fr0) :: ms) ++ tail) d
               (zlen (pack 2 Big (zlen ((lab0, fr0) :: ms)) ++ enc_tab (mk_tab 0 ((lab0, fr0) :: ms) sf)))) as Hloop.
    rewrite zlen_mk_tab, zlen_pack in Hloop. change (Z.of_nat 2) with 2 in Hloop.
    replace (zlen ms + 1) with (zlen ((lab0, fr0) :: ms)) in Hloop by (rewrite zlen_cons; lia).
    rewrite Hloop.
    + f_equal. change (fr0, 0) with (fr0, zlen (@nil byte)).
      replace (0 + zlen lab0) with (zlen (@nil byte) + zlen lab0) by reflexivity.
      apply (names_of_mk_tab ms sf [] (pack 2 Big (zlen ((lab0, fr0) :: ms)) ++ enc_tab (mk_tab 0 ((lab0, fr0) :: ms) sf)) tail d lab0 fr0).
      unfold d, pool. cbn [map concat fst app]. repeat rewrite <- app_assoc. reflexivity.
    + unfold d. rewrite !app_length. rewrite mk_tab_length.
      pose proof (zlen_enc_tab (mk_tab 0 ((lab0, fr0) :: ms) sf)) as HT. unfold zlen in HT.
      rewrite mk_tab_length in HT. cbn [length] in *. lia.
    + exact He1.
    + exact Ht.
    + apply (proj2 (mk_tab_mono ms 0 fr0 sf)). apply zlen_nonneg.
    + unfold d. cbn [mk_tab]. reflexivity.
Qed.

(* ================================================================ movie settings *)
Definition vwcf_layout : layout := [FS 2; FS 2; FS 2; FS 2; FS 2; FS 2; FS 2; FS 2; FSkip 9; FU 1].

(* record: size word, the fixed fields, 42 bytes, dir4 palette word, 6 bytes, dir5 palette word, rest *)
Definition enc_vwcf (f : list Z) (fill r1 r2 r3 : bytes) (pal4 pal5 : Z) : bytes :=
  let body := enc_layout Big vwcf_layout f fill ++ r1 ++ pack 2 Big pal4 ++ r2 ++ pack 2 Big pal5 ++ r3 in
  pack 2 Big (2 + zlen body) ++ body.

Definition vwcf_expected (f : list Z) (pal4 pal5 : Z) : vwcf :=
  let vc := version_class (getv f 0) in
  {| v_version := vc; v_top := getv f 1; v_left := getv f 2; v_bottom := getv f 3; v_right := getv f 4;
     v_castStart := getv f 5; v_castEnd := getv f 6; v_rate := getv f 7; v_color := getv f 8;
     v_palette := if bytes_eqb vc dir4 then get_palette_name pal4
                  else if bytes_eqb vc dir5 then get_palette_name pal5
                  else ["u";"n";"k";"n";"o";"n";"w"]%byte |}.

Theorem vwcf_roundtrip f fill r1 r2 r3 pal4 pal5 :
  fits_all vwcf_layout f -> zlen r1 = 42 -> zlen r2 = 6 -> in16 pal4 -> in16 pal5 ->
  in16 (2 + zlen (enc_layout Big vwcf_layout f fill ++ r1 ++ pack 2 Big pal4 ++ r2 ++ pack 2 Big pal5 ++ r3)) ->
  parse_vwcf_file_data (enc_vwcf f fill r1 r2 r3 pal4 pal5) = Ok (vwcf_expected f pal4 pal5).
Proof.
  intros Hf H1 H2 Hp4 Hp5 Hsz. unfold parse_vwcf_file_data, enc_vwcf. cbv zeta.
  set (L := enc_layout Big vwcf_layout f fill).
  assert (HL : zlen L = 26) by (unfold L; rewrite zlen_enc_layout; reflexivity).
  set (body := L ++ r1 ++ pack 2 Big pal4 ++ r2 ++ pack 2 Big pal5 ++ r3) in *.
  set (d := pack 2 Big (2 + zlen body) ++ body).
  assert (E0 : rd_s 2 Big d 0 = Ok (2 + zlen body)) by (unfold d; apply rd_s2_at0; exact Hsz).
  assert (Ez : zlen d = 2 + zlen body) by (unfold d; rewrite zlen_app, zlen_pack; lia).
  assert (EL : read_layout Big vwcf_layout d 2 = Ok f).
  { unfold d, body. fold L. unfold L. apply read_enc_layout; [rewrite zlen_pack; reflexivity | exact Hf]. }
  assert (E4 : rd_s 2 Big d 70 = Ok pal4).
  { unfold d, body.
    replace (pack 2 Big (2 + zlen (L ++ r1 ++ pack 2 Big pal4 ++ r2 ++ pack 2 Big pal5 ++ r3)) ++ L ++ r1 ++ pack 2 Big pal4 ++ r2 ++ pack 2 Big pal5 ++ r3)
      with ((pack 2 Big (2 + zlen (L ++ r1 ++ pack 2 Big pal4 ++ r2 ++ pack 2 Big pal5 ++ r3)) ++ L ++ r1) ++ pack 2 Big pal4 ++ (r2 ++ pack 2 Big pal5 ++ r3))
      by (repeat rewrite <- app_assoc; reflexivity).
    apply rd_s2_at; [rewrite !zlen_app, zlen_pack, HL, H1; reflexivity | exact Hp4]. }
  assert (E5 : rd_s 2 Big d 78 = Ok pal5).
  { unfold d, body.
    replace (pack 2 Big (2 + zlen (L ++ r1 ++ pack 2 Big pal4 ++ r2 ++ pack 2 Big pal5 ++ r3)) ++ L ++ r1 ++ pack 2 Big pal4 ++ r2 ++ pack 2 Big pal5 ++ r3)
      with ((pack 2 Big (2 + zlen (L ++ r1 ++ pack 2 Big pal4 ++ r2 ++ pack 2 Big pal5 ++ r3)) ++ L ++ r1 ++ pack 2 Big pal4 ++ r2) ++ pack 2 Big pal5 ++ r3)
      by (repeat rewrite <- app_assoc; reflexivity).
    apply rd_s2_at; [rewrite !zlen_app, !zlen_pack, HL, H1, H2; reflexivity | exact Hp5]. }
  rewrite E0. cbn [bind]. rewrite Ez, Z.eqb_refl. cbn [negb].
  fold vwcf_layout. rewrite EL. cbn [bind]. unfold vwcf_expected.
  destruct (bytes_eqb (version_class (getv f 0)) dir4).
  - rewrite E4. reflexivity.
  - destruct (bytes_eqb (version_class (getv f 0)) dir5); [rewrite E5|]; reflexivity.
Qed.

Theorem vwcf_size_mismatch d sz : rd_s 2 Big d 0 = Ok sz -> sz <> zlen d -> parse_vwcf_file_data d = Err EValue.
Proof.
  intros H Hne. unfold parse_vwcf_file_data. rewrite H. cbn [bind].
  destruct (Z.eqb_spec (zlen d) sz); [congruence|reflexivity].
Qed.

(* pinned reference copy of the palette-name table: stops checking when an entry is edited *)
Theorem palette_names_pinned :
  DIR_PALETTE_NAMES = [
    (-1, ["s";"y";"s";"t";"e";"m";"M";"a";"c"]); (-102, ["s";"y";"s";"t";"e";"m";"W";"i";"n"]);
    (-2, ["r";"a";"i";"n";"b";"o";"w"]); (-3, ["g";"r";"a";"y";"s";"c";"a";"l";"e"]);
    (-4, ["p";"a";"s";"t";"e";"l";"s"]); (-5, ["v";"i";"v";"i";"d"]); (-6, ["n";"t";"s";"c"]);
    (-7, ["m";"e";"t";"a";"l";"l";"i";"c"]); (-8, ["w";"e";"b";"2";"1";"6"]);
    (-101, ["s";"y";"s";"t";"e";"m";"W";"i";"n";"D";"i";"r";"4"])]%byte.
Proof. reflexivity. Qed.
