From Coq Require Import List ZArith Bool Lia.
From Coq.Strings Require Import Byte.
From DRX Require Import Py.PyBytes Py.PyStr Proofs.PyBytesFacts Model.Riff Proofs.RiffFacts Model.Index Model.Clut Gen.Gen_Common.
From DRX Require Gen.Gen_Palettes Spec.SpecPalettes Proofs.IndexFacts.
Import ListNotations.
Open Scope Z_scope.

(* a CLUT entry: three 16-bit components, high byte first *)
Record centry := { rh : byte; rl : byte; gh : byte; gl : byte; bh : byte; bl : byte }.
Definition enc_centry (e : centry) : bytes := [rh e; rl e; gh e; gl e; bh e; bl e].
Definition enc_clut (es : list centry) : bytes := concat (map enc_centry es).
Definition bgr0 (e : centry) : bytes := [bh e; gh e; rh e; x00].
Definition rgb (e : centry) : byte * byte * byte := (rh e, gh e, bh e).

Lemma idx3 pre e rest :
  idx_or_err (pre ++ enc_centry e ++ rest) (zlen pre) = Ok (rh e) /\
  idx_or_err (pre ++ enc_centry e ++ rest) (zlen pre + 2) = Ok (gh e) /\
  idx_or_err (pre ++ enc_centry e ++ rest) (zlen pre + 4) = Ok (bh e).
Proof.
  unfold idx_or_err, enc_centry. cbn [app]. repeat split.
  - rewrite index_app_at by reflexivity. reflexivity.
  - replace (pre ++ rh e :: rl e :: gh e :: gl e :: bh e :: bl e :: rest)
      with ((pre ++ [rh e; rl e]) ++ gh e :: (gl e :: bh e :: bl e :: rest)) by (rewrite <- app_assoc; reflexivity).
    rewrite index_app_at by (rewrite zlen_app; reflexivity). reflexivity.
  - replace (pre ++ rh e :: rl e :: gh e :: gl e :: bh e :: bl e :: rest)
      with ((pre ++ [rh e; rl e; gh e; gl e]) ++ bh e :: (bl e :: rest)) by (rewrite <- app_assoc; reflexivity).
    rewrite index_app_at by (rewrite zlen_app; reflexivity). reflexivity.
Qed.

Lemma clut2palette_loop_enc es : forall pre post,
  clut2palette_loop (length es) (pre ++ enc_clut es ++ post) (zlen pre) = Ok (concat (map bgr0 es)).
Proof.
  induction es as [|e es IH]; intros pre post; [reflexivity|].
  cbn [length clut2palette_loop]. unfold enc_clut. cbn [map concat]. fold (enc_clut es).
  rewrite <- app_assoc.
  destruct (idx3 pre e (enc_clut es ++ post)) as (E1 & E2 & E3). rewrite E1, E2, E3. cbn [bind].
  replace (pre ++ enc_centry e ++ enc_clut es ++ post) with ((pre ++ enc_centry e) ++ enc_clut es ++ post)
    by (rewrite <- app_assoc; reflexivity).
  replace (zlen pre + 6) with (zlen (pre ++ enc_centry e)) by (rewrite zlen_app; reflexivity).
  rewrite IH. reflexivity.
Qed.

(* BMP colour-table entry i = (hi blue, hi green, hi red, 0) of CLUT entry i, for all 256 entries *)
Theorem custom_table es tail : length es = 256%nat ->
  clut2palette (enc_clut es ++ tail) = Ok (concat (map bgr0 es)).
Proof.
  intros H. unfold clut2palette. rewrite <- H.
  exact (clut2palette_loop_enc es [] tail).
Qed.

Lemma zlen_enc_clut es : zlen (enc_clut es) = 6 * zlen es.
Proof. induction es as [|e es IH]; [reflexivity|]. unfold enc_clut in *. cbn [map concat]. rewrite zlen_app, IH, zlen_cons. change (zlen (enc_centry e)) with 6. lia. Qed.

Lemma clut2rgb_loop_enc es : forall fuel pre,
  (length es < fuel)%nat ->
  clut2rgb_loop fuel (pre ++ enc_clut es) (zlen pre) = Ok (map rgb es).
Proof.
  induction es as [|e es IH]; intros fuel pre Hf.
  - unfold enc_clut. cbn [map concat]. rewrite app_nil_r. destruct fuel; cbn [clut2rgb_loop]; rewrite Z.ltb_irrefl; reflexivity.
  - destruct fuel as [|f]; [cbn in Hf; lia|]. cbn [clut2rgb_loop].
    unfold enc_clut. cbn [map concat]. fold (enc_clut es).
    pose proof (zlen_nonneg (enc_clut es)).
    destruct (Z.ltb_spec (zlen pre) (zlen (pre ++ enc_centry e ++ enc_clut es))) as [_|Hge].
    2:{ rewrite !zlen_app in Hge. change (zlen (enc_centry e)) with 6 in Hge. lia. }
    destruct (idx3 pre e (enc_clut es)) as (E1 & E2 & E3). rewrite E1, E2, E3. cbn [bind].
    replace (pre ++ enc_centry e ++ enc_clut es) with ((pre ++ enc_centry e) ++ enc_clut es) by (rewrite <- app_assoc; reflexivity).
    replace (zlen pre + 6) with (zlen (pre ++ enc_centry e)) by (rewrite zlen_app; reflexivity).
    rewrite IH by (cbn in Hf; lia). reflexivity.
Qed.

Theorem json_colours es : clut2rgb (enc_clut es) = Ok (map rgb es).
Proof.
  unfold clut2rgb. apply (clut2rgb_loop_enc es _ []).
  pose proof (zlen_enc_clut es) as H. unfold zlen in H. lia.
Qed.

(* the JSON list and the BMP table derived from one chunk agree entry for entry *)
Theorem json_agrees es : length es = 256%nat ->
  exists cs p, clut2rgb (enc_clut es) = Ok cs /\ clut2palette (enc_clut es) = Ok p /\
    p = concat (map (fun c : byte * byte * byte => [snd c; snd (fst c); fst (fst c); x00]) cs).
Proof.
  intros H. exists (map rgb es), (concat (map bgr0 es)). split; [apply json_colours|]. split.
  - rewrite <- (app_nil_r (enc_clut es)). apply custom_table. exact H.
  - rewrite map_map. reflexivity.
Qed.

(* ---------- named tables ---------- *)
(* the generated tables (from the current source) equal the pinned reference copy *)
Theorem palettes_pinned : Gen.Gen_Palettes.PALETTES = Spec.SpecPalettes.PALETTES.
Proof. vm_compute. reflexivity. Qed.

Definition tables8 : list (bytes * bytes) :=
  match assoc 8 Gen.Gen_Palettes.PALETTES with Some t => t | None => [] end.

Theorem tables8_wellformed :
  forallb (fun nt : bytes * bytes => (zlen (snd nt) =? 1024) &&
            forallb (fun i => match nth_error (snd nt) (4 * i + 3) with Some b => Byte.eqb b x00 | None => false end) (seq 0 256))
          tables8 = true.
Proof. vm_compute. reflexivity. Qed.

Theorem named_table name t : assoc_bytes name tables8 = Some t -> write_color_palette 8 256 name [] = Ok t.
Proof.
  intros H. unfold write_color_palette. cbn [zlen length Z.of_nat Z.ltb Z.compare].
  unfold tables8 in H. destruct (assoc 8 Gen_Palettes.PALETTES) as [tbls|] eqn:E; [|discriminate].
  unfold bytes in *. rewrite H. unfold pack_table.
  pose proof tables8_wellformed as W. unfold tables8 in W. rewrite E in W.
  rewrite forallb_forall in W.
  assert (Hin : In (name, t) tbls).
  { clear - H. induction tbls as [|[k v] r IH]; cbn [assoc_bytes] in H; [discriminate|].
    destruct (bytes_eqb k name) eqn:B.
    - injection H as <-. left. f_equal. apply bytes_eqb_true. exact B.
    - right. auto. }
  specialize (W _ Hin). apply andb_true_iff in W. destruct W as [W _]. cbn [snd] in W.
  change (256 * 4) with 1024. rewrite W. reflexivity.
Qed.

Theorem unknown_default name : assoc_bytes name tables8 = None ->
  write_color_palette 8 256 name [] = Ok Gen.Gen_Palettes.SYSTEM_WINDOWS_256COLORS_PALETTE.
Proof.
  intros H. unfold write_color_palette. cbn [zlen length Z.of_nat Z.ltb Z.compare].
  unfold tables8 in H. destruct (assoc 8 Gen_Palettes.PALETTES) as [tbls|] eqn:E.
  - unfold bytes in *. rewrite H. revert E. vm_compute. intros [= <-]. reflexivity.
  - revert E. vm_compute. discriminate.
Qed.

(* a custom palette wins over any name; it must supply all 1024 bytes *)
Theorem custom_wins name data : 1024 <= zlen data ->
  write_color_palette 8 256 name data = Ok (firstn 1024 data).
Proof.
  intros H. unfold write_color_palette. destruct (Z.ltb_spec 0 (zlen data)); [|lia].
  change (256 * 4) with 1024. unfold pack_table.
  assert (S : slice data 0 1024 = firstn 1024 data) by (rewrite slice_0 by lia; reflexivity).
  rewrite S. unfold zlen in *. rewrite firstn_length.
  replace (Z.of_nat (Nat.min 1024 (length data))) with 1024 by lia. reflexivity.
Qed.
Theorem custom_short_rejected name data : 0 < zlen data < 1024 ->
  write_color_palette 8 256 name data = Err EStruct.
Proof.
  intros H. unfold write_color_palette. destruct (Z.ltb_spec 0 (zlen data)); [|lia].
  change (256 * 4) with 1024. unfold pack_table.
  assert (S : zlen (slice data 0 1024) = zlen data).
  { rewrite slice_0 by lia. unfold zlen in *. rewrite firstn_length. lia. }
  rewrite S. destruct (Z.eqb_spec (zlen data) 1024); [lia|reflexivity].
Qed.

(* ---------- palette number -> name ---------- *)
Lemma assoc_none_outside v : ~ In v (map fst DIR_PALETTE_NAMES) -> assoc v DIR_PALETTE_NAMES = None.
Proof.
  generalize DIR_PALETTE_NAMES. induction l as [|[k s] l IH]; intros H; cbn [assoc]; [reflexivity|].
  destruct (Z.eqb_spec v k) as [->|Hne]; [exfalso; apply H; left; reflexivity|].
  apply IH. intros Hin. apply H. right. exact Hin.
Qed.

Lemma palette_keys : map fst DIR_PALETTE_NAMES = [-1; -102; -2; -3; -4; -5; -6; -7; -8; -101].
Proof. rewrite IndexFacts.palette_names_pinned. reflexivity. Qed.

(* a positive number is a cast member, never a system palette *)
Theorem palette_name_positive v : 0 < v -> get_palette_name v = str_of_Z v.
Proof.
  intros H. unfold get_palette_name. destruct (Z.leb_spec v 0); [lia|].
  unfold name_or_str. rewrite assoc_none_outside; [reflexivity|].
  rewrite palette_keys. cbn [In]. lia.
Qed.

(* values <= 0 are shifted by one before the lookup *)
Theorem palette_name_nonpositive v : v <= 0 ->
  get_palette_name v = name_or_str DIR_PALETTE_NAMES (v - 1).
Proof.
  intros H. unfold get_palette_name. destruct (Z.leb_spec v 0); [|lia].
  unfold palette_shift_nonpositive. f_equal.
Qed.

Theorem palette_name_unlisted v : v <= 0 -> ~ In (v - 1) [-1; -102; -2; -3; -4; -5; -6; -7; -8; -101] ->
  get_palette_name v = str_of_Z (v - 1).
Proof.
  intros H Hn. rewrite palette_name_nonpositive by exact H. unfold name_or_str.
  rewrite assoc_none_outside; [reflexivity|]. rewrite palette_keys. exact Hn.
Qed.

Theorem palette_names_listed :
  map get_palette_name [0; -1; -2; -3; -4; -5; -6; -7; -100; -101] =
  map (fun s => s) [
    ["s";"y";"s";"t";"e";"m";"M";"a";"c"]; ["r";"a";"i";"n";"b";"o";"w"]; ["g";"r";"a";"y";"s";"c";"a";"l";"e"];
    ["p";"a";"s";"t";"e";"l";"s"]; ["v";"i";"v";"i";"d"]; ["n";"t";"s";"c"]; ["m";"e";"t";"a";"l";"l";"i";"c"];
    ["w";"e";"b";"2";"1";"6"]; ["s";"y";"s";"t";"e";"m";"W";"i";"n";"D";"i";"r";"4"]; ["s";"y";"s";"t";"e";"m";"W";"i";"n"]]%byte.
Proof. vm_compute. reflexivity. Qed.
