From Coq Require Import List ZArith Bool Lia.
From Coq.Strings Require Import Byte.
From DRX Require Import Py.PyBytes Py.Layout Py.PyStr Proofs.PyBytesFacts Proofs.LayoutFacts Model.Riff Proofs.RiffFacts
  Model.Index Model.Vwsc Model.Cast Gen.Gen_Layouts.
Import ListNotations.
Open Scope Z_scope.

(* ================= the two record layouts ================= *)
Definition enc_d4 (t : Z) (header info : bytes) : bytes :=
  pack 2 Big (zlen header + 1) ++ pack 4 Big (zlen info) ++ [byte_of_Z t] ++ header ++ info.
Definition enc_d5 (t : Z) (header info : bytes) : bytes :=
  pack 4 Big t ++ pack 4 Big (zlen info) ++ pack 4 Big (zlen header) ++ info ++ header.

Lemma app_nil_if (c : bool) (x : bytes) : (if c then x else []) = x \/ (c = false).
Proof. destruct c; auto. Qed.

Theorem struct_d4_roundtrip t header info :
  0 <= t < 256 -> in16 (zlen header + 1) -> in32 (zlen info) ->
  parse_struct_dir4 (enc_d4 t header info) = Ok (Build_cast_struct t header info).
Proof.
  intros Ht Hh Hi. unfold parse_struct_dir4, enc_d4.
  pose proof (zlen_nonneg header). pose proof (zlen_nonneg info).
  rewrite rd_s2_at0 by exact Hh. cbn [bind].
  rewrite (rd_s4_at Big (pack 2 Big (zlen header + 1))) by (try assumption; rewrite zlen_pack; reflexivity). cbn [bind].
  set (d := pack 2 Big (zlen header + 1) ++ pack 4 Big (zlen info) ++ [byte_of_Z t] ++ header ++ info).
  assert (Hz : zlen d = 6 + (zlen header + 1) + zlen info).
  { unfold d. rewrite !zlen_app, !zlen_pack. change (zlen [byte_of_Z t]) with 1. lia. }
  rewrite Hz, Z.eqb_refl. cbn [negb].
  assert (E6 : index d 6 = Some (byte_of_Z t)).
  { unfold d. replace (pack 2 Big (zlen header + 1) ++ pack 4 Big (zlen info) ++ [byte_of_Z t] ++ header ++ info)
      with ((pack 2 Big (zlen header + 1) ++ pack 4 Big (zlen info)) ++ byte_of_Z t :: (header ++ info))
      by (repeat rewrite <- app_assoc; reflexivity).
    apply index_app_at. rewrite zlen_app, !zlen_pack. reflexivity. }
  rewrite E6. cbn [of_option bind]. rewrite u8_byte_of_Z, Z.mod_small by lia.
  assert (Eh : slice d 7 (7 + (zlen header + 1) - 1) = header).
  { unfold d. replace (pack 2 Big (zlen header + 1) ++ pack 4 Big (zlen info) ++ [byte_of_Z t] ++ header ++ info)
      with ((pack 2 Big (zlen header + 1) ++ pack 4 Big (zlen info) ++ [byte_of_Z t]) ++ header ++ info)
      by (repeat rewrite <- app_assoc; reflexivity).
    apply slice_mid; rewrite !zlen_app, !zlen_pack; change (zlen [byte_of_Z t]) with 1; lia. }
  rewrite Eh.
  destruct (Z.gtb_spec (zlen info) 0).
  - assert (Ei : slice d (7 + (zlen header + 1 - 1)) (7 + (zlen header + 1 - 1) + zlen info) = info).
    { unfold d. replace (pack 2 Big (zlen header + 1) ++ pack 4 Big (zlen info) ++ [byte_of_Z t] ++ header ++ info)
        with ((pack 2 Big (zlen header + 1) ++ pack 4 Big (zlen info) ++ [byte_of_Z t] ++ header) ++ info ++ [])
        by (repeat rewrite <- app_assoc; rewrite app_nil_r; reflexivity).
      apply slice_mid; rewrite !zlen_app, !zlen_pack; change (zlen [byte_of_Z t]) with 1; lia. }
    rewrite Ei. reflexivity.
  - assert (info = []) by (apply zlen_le0_nil; lia). subst. reflexivity.
Qed.

Theorem struct_d5_roundtrip t header info :
  in32 t -> in32 (zlen header) -> in32 (zlen info) ->
  parse_struct_dir5 (enc_d5 t header info) = Ok (Build_cast_struct t header info).
Proof.
  intros Ht Hh Hi. unfold parse_struct_dir5, enc_d5.
  pose proof (zlen_nonneg header). pose proof (zlen_nonneg info).
  rewrite rd_s4_at0 by exact Ht. cbn [bind].
  rewrite (rd_s4_at Big (pack 4 Big t)) by (try assumption; rewrite zlen_pack; reflexivity). cbn [bind].
  set (d := pack 4 Big t ++ pack 4 Big (zlen info) ++ pack 4 Big (zlen header) ++ info ++ header).
  assert (E8 : rd_s 4 Big d 8 = Ok (zlen header)).
  { unfold d. replace (pack 4 Big t ++ pack 4 Big (zlen info) ++ pack 4 Big (zlen header) ++ info ++ header)
      with ((pack 4 Big t ++ pack 4 Big (zlen info)) ++ pack 4 Big (zlen header) ++ (info ++ header))
      by (repeat rewrite <- app_assoc; reflexivity).
    apply rd_s4_at; [rewrite zlen_app, !zlen_pack; reflexivity | exact Hh]. }
  rewrite E8. cbn [bind].
  assert (Hz : zlen d = 12 + zlen header + zlen info) by (unfold d; rewrite !zlen_app, !zlen_pack; lia).
  rewrite Hz, Z.eqb_refl. cbn [negb].
  assert (Ei : slice d 12 (12 + zlen info) = info).
  { unfold d. replace (pack 4 Big t ++ pack 4 Big (zlen info) ++ pack 4 Big (zlen header) ++ info ++ header)
      with ((pack 4 Big t ++ pack 4 Big (zlen info) ++ pack 4 Big (zlen header)) ++ info ++ header)
      by (repeat rewrite <- app_assoc; reflexivity).
    apply slice_mid; rewrite !zlen_app, !zlen_pack; lia. }
  assert (Eh : slice d (12 + zlen info) (12 + zlen info + zlen header) = header).
  { unfold d. replace (pack 4 Big t ++ pack 4 Big (zlen info) ++ pack 4 Big (zlen header) ++ info ++ header)
      with ((pack 4 Big t ++ pack 4 Big (zlen info) ++ pack 4 Big (zlen header) ++ info) ++ header ++ [])
      by (repeat rewrite <- app_assoc; rewrite app_nil_r; reflexivity).
    apply slice_mid; rewrite !zlen_app, !zlen_pack; lia. }
  destruct (Z.gtb_spec (zlen info) 0).
  - rewrite Ei, Eh. reflexivity.
  - assert (info = []) by (apply zlen_le0_nil; lia). subst.
    change (zlen (@nil byte)) with 0 in Eh. rewrite Z.add_0_r in Eh. rewrite Eh. reflexivity.
Qed.

(* any mismatch between the declared sizes and the actual length is rejected *)
Theorem struct_d4_mismatch d hs asz :
  rd_s 2 Big d 0 = Ok hs -> rd_s 4 Big d 2 = Ok asz -> 6 + hs + asz <> zlen d ->
  parse_struct_dir4 d = Err EValue.
Proof.
  intros H1 H2 Hne. unfold parse_struct_dir4. rewrite H1, H2. cbn [bind].
  destruct (Z.eqb_spec (6 + hs + asz) (zlen d)); [contradiction|reflexivity].
Qed.
Theorem struct_d5_mismatch d t asz hs :
  rd_s 4 Big d 0 = Ok t -> rd_s 4 Big d 4 = Ok asz -> rd_s 4 Big d 8 = Ok hs -> 12 + hs + asz <> zlen d ->
  parse_struct_dir5 d = Err EValue.
Proof.
  intros H0 H1 H2 Hne. unfold parse_struct_dir5. rewrite H0, H1, H2. cbn [bind].
  destruct (Z.eqb_spec (12 + hs + asz) (zlen d)); [contradiction|reflexivity].
Qed.

(* ================= layout detection ================= *)
Lemma be_bytes_2_of_4 z : be_bytes 4 z = be_bytes 2 (z / 65536) ++ [byte_of_Z (z / 256); byte_of_Z z].
Proof.
  cbn [be_bytes]. rewrite <- !app_assoc. cbn [app].
  replace (z / 256 / 256 / 256) with (z / 65536 / 256) by (rewrite !Z.div_div by lia; reflexivity).
  replace (z / 256 / 256) with (z / 65536) by (rewrite Z.div_div by lia; reflexivity).
  reflexivity.
Qed.

Lemma d4_first_word t header info :
  in16 (zlen header + 1) -> 
  exists w, rd_s 4 Big (enc_d4 t header info) 0 = Ok w /\ w / 256 <> 0.
Proof.
  intros Hh. pose proof (zlen_nonneg header) as Hn. unfold enc_d4, rd_s.
  set (hs := zlen header + 1) in *.
  assert (Hs : slice (pack 2 Big hs ++ pack 4 Big (zlen info) ++ [byte_of_Z t] ++ header ++ info) 0 (0 + Z.of_nat 4)
               = pack 2 Big hs ++ be_bytes 2 (zlen info / 65536)).
  { unfold pack at 2. cbn [orient]. rewrite be_bytes_2_of_4.
    replace (pack 2 Big hs ++ (be_bytes 2 (zlen info / 65536) ++ [byte_of_Z (zlen info / 256); byte_of_Z (zlen info)]) ++ [byte_of_Z t] ++ header ++ info)
      with ([] ++ (pack 2 Big hs ++ be_bytes 2 (zlen info / 65536)) ++ ([byte_of_Z (zlen info / 256); byte_of_Z (zlen info)] ++ [byte_of_Z t] ++ header ++ info))
      by (cbn [app]; repeat rewrite <- app_assoc; reflexivity).
    apply slice_mid; [reflexivity|]. rewrite zlen_app, zlen_pack. unfold zlen. rewrite be_bytes_length. reflexivity. }
  rewrite Hs. unfold unpack_s. rewrite app_length, pack_length, be_bytes_length. cbn [Nat.add Nat.eqb of_option orient].
  eexists. split; [reflexivity|].
  unfold be_unsigned. rewrite be_acc_app.
  change (be_acc 0 (pack 2 Big hs)) with (be_unsigned (be_bytes 2 hs)). rewrite be_unsigned_be_bytes.
  rewrite be_acc_shift. change (be_acc 0 (be_bytes 2 (zlen info / 65536))) with (be_unsigned (be_bytes 2 (zlen info / 65536))).
  rewrite be_unsigned_be_bytes.
  replace (zlen (be_bytes 2 (zlen info / 65536))) with 2 by (unfold zlen; rewrite be_bytes_length; reflexivity).
  change (256 ^ Z.of_nat 2) with 65536. change (256 ^ 2) with 65536.
  unfold in16 in Hh. rewrite (Z.mod_small hs 65536) by lia.
  pose proof (Z.mod_pos_bound (zlen info / 65536) 65536 ltac:(lia)) as Hm.
  set (lo := (zlen info / 65536) mod 65536) in *.
  unfold sext. change (2 ^ (8 * Z.of_nat 4 - 1)) with 2147483648. change (2 ^ (8 * Z.of_nat 4)) with 4294967296.
  assert (hs * 65536 + lo < 2147483648) by lia.
  destruct (Z.ltb_spec (hs * 65536 + lo) 2147483648); [|lia].
  intros E. assert (256 * 256 <= hs * 65536 + lo) by lia.
  pose proof (Z.div_le_mono (256 * 256) (hs * 65536 + lo) 256 ltac:(lia) ltac:(lia)) as D.
  rewrite Z.div_mul in D by lia. lia.
Qed.

Theorem d4_decodes t header info :
  0 <= t < 256 -> in16 (zlen header + 1) -> in32 (zlen info) ->
  parse_cast_file_data (enc_d4 t header info) = decode_member t header info.
Proof.
  intros Ht Hh Hi. unfold parse_cast_file_data.
  destruct (d4_first_word t header info Hh) as (w & Ew & Hw). rewrite Ew. cbn [bind].
  destruct (Z.eqb_spec (w / 256) 0); [contradiction|]. cbn [negb].
  rewrite struct_d4_roundtrip by assumption. reflexivity.
Qed.

Theorem d5_decodes t header info :
  0 <= t < 256 -> in32 (zlen header) -> in32 (zlen info) ->
  parse_cast_file_data (enc_d5 t header info) = decode_member t header info.
Proof.
  intros Ht Hh Hi. unfold parse_cast_file_data.
  assert (E : rd_s 4 Big (enc_d5 t header info) 0 = Ok t) by (unfold enc_d5; apply rd_s4_at0; unfold in32; lia).
  rewrite E. cbn [bind]. rewrite (Z.div_small t 256) by lia. cbn [Z.eqb negb].
  rewrite struct_d5_roundtrip by (try assumption; unfold in32; lia). reflexivity.
Qed.

(* the Director 4 and Director 5 layouts of one member decode to the same result *)
Theorem layouts_agree t header info :
  0 <= t < 256 -> in16 (zlen header + 1) -> in32 (zlen info) ->
  parse_cast_file_data (enc_d4 t header info) = parse_cast_file_data (enc_d5 t header info).
Proof.
  intros Ht Hh Hi. rewrite d4_decodes, d5_decodes; auto.
  unfold in16, in32 in *. pose proof (zlen_nonneg header). lia.
Qed.

(* ================= typed headers ================= *)
Lemma read_at0 l vs fill tail : fits_all l vs ->
  read_layout Big l (enc_layout Big l vs fill ++ tail) 0 = Ok vs.
Proof.
  intros H. replace (enc_layout Big l vs fill ++ tail) with ([] ++ enc_layout Big l vs fill ++ tail) by reflexivity.
  apply read_enc_layout; [reflexivity | exact H].
Qed.

Theorem field_header vs fill tail : fits_all cast_field_layout vs ->
  parse_field (enc_layout Big cast_field_layout vs fill ++ tail) = Ok (field_dict (fld cast_field_names vs)).
Proof. intros H. unfold parse_field. rewrite read_at0 by exact H. reflexivity. Qed.
Theorem button_header vs fill tail : fits_all cast_button_layout vs ->
  parse_button (enc_layout Big cast_button_layout vs fill ++ tail) = Ok (button_dict (fld cast_button_names vs)).
Proof. intros H. unfold parse_button. rewrite read_at0 by exact H. reflexivity. Qed.
Theorem shape_header vs fill tail : fits_all cast_shape_layout vs ->
  parse_shape (enc_layout Big cast_shape_layout vs fill ++ tail) = Ok (shape_dict (fld cast_shape_names vs)).
Proof. intros H. unfold parse_shape. rewrite read_at0 by exact H. reflexivity. Qed.
Theorem text_header vs fill tail : fits_all cast_text_layout vs ->
  parse_text (enc_layout Big cast_text_layout vs fill ++ tail) = Ok (text_dict (fld cast_text_names vs)).
Proof. intros H. unfold parse_text. rewrite read_at0 by exact H. reflexivity. Qed.
Theorem transition_header vs fill tail : fits_all cast_transition_layout vs ->
  parse_transition (enc_layout Big cast_transition_layout vs fill ++ tail) = Ok (transition_dict (fld cast_transition_names vs)).
Proof. intros H. unfold parse_transition. rewrite read_at0 by exact H. reflexivity. Qed.

Theorem image_header_short vs fill tail : fits_all cast_image_layout vs ->
  lwidth cast_image_layout + zlen tail <= 24 ->
  parse_image (enc_layout Big cast_image_layout vs fill ++ tail) = Ok (image_dict (fld cast_image_names vs) None).
Proof.
  intros H Hl. unfold parse_image. rewrite read_at0 by exact H. cbn [bind].
  rewrite zlen_app, zlen_enc_layout. destruct (Z.gtb_spec (lwidth cast_image_layout + zlen tail) 24); [lia|reflexivity].
Qed.
Theorem image_header_extended vs es fill fill2 tail :
  fits_all cast_image_layout vs -> fits_all cast_image_ext_layout es ->
  24 < lwidth cast_image_layout + lwidth cast_image_ext_layout + zlen tail ->
  parse_image (enc_layout Big cast_image_layout vs fill ++ enc_layout Big cast_image_ext_layout es fill2 ++ tail)
  = Ok (image_dict (fld cast_image_names vs) (Some (fld cast_image_ext_names es))).
Proof.
  intros H He Hl. unfold parse_image. rewrite read_at0 by exact H. cbn [bind].
  rewrite !zlen_app, !zlen_enc_layout.
  destruct (Z.gtb_spec (lwidth cast_image_layout + (lwidth cast_image_ext_layout + zlen tail)) 24); [|lia].
  rewrite read_enc_layout; [reflexivity | rewrite zlen_enc_layout; reflexivity | exact He].
Qed.

(* ================= the info block ================= *)
Fixpoint offsets_of (o : Z) (es : list bytes) : list Z :=
  o :: match es with [] => [] | e :: r => offsets_of (o + zlen e) r end.
Definition enc_nums (ns : list Z) : bytes := concat (map (pack 4 Big) ns).

Definition enc_info (sk b1 b2 si : Z) (nums : list Z) (off0 : Z) (es : list bytes) (tail : bytes) : bytes :=
  pack 4 Big (20 + 4 * zlen nums) ++ pack 4 Big sk ++ pack 4 Big b1 ++ pack 4 Big b2 ++ pack 4 Big si ++
  enc_nums nums ++ pack 2 Big (zlen es) ++
  (match es with [] => [] | _ => enc_nums (offsets_of off0 es) ++ concat es end) ++ tail.

Lemma zlen_enc_nums ns : zlen (enc_nums ns) = 4 * zlen ns.
Proof. induction ns as [|n ns IH]; [reflexivity|]. unfold enc_nums in *. cbn [map concat]. rewrite zlen_app, zlen_pack, IH, zlen_cons. lia. Qed.

Lemma skip_loop_enc ns : forall fuel pre post,
  (length ns < fuel)%nat -> Forall in32 ns ->
  skip_loop fuel (zlen ns) (pre ++ enc_nums ns ++ post) (zlen pre) = Ok (zlen pre + 4 * zlen ns).
Proof.
  induction ns as [|n ns IH]; intros fuel pre post Hf Hwf.
  - change (zlen (@nil Z)) with 0. rewrite Z.mul_0_r, Z.add_0_r. destruct fuel; reflexivity.
  - destruct fuel as [|f]; [cbn in Hf; lia|]. pose proof (Forall_inv Hwf). pose proof (Forall_inv_tail Hwf).
    cbn [skip_loop]. rewrite zlen_cons. pose proof (zlen_nonneg ns).
    destruct (Z.leb_spec (1 + zlen ns) 0); [lia|].
    unfold enc_nums. cbn [map concat]. fold (enc_nums ns). rewrite <- app_assoc.
    rewrite rd_s4_at by auto. cbn [bind].
    replace (pre ++ pack 4 Big n ++ enc_nums ns ++ post) with ((pre ++ pack 4 Big n) ++ enc_nums ns ++ post)
      by (rewrite <- app_assoc; reflexivity).
    replace (zlen pre + 4) with (zlen (pre ++ pack 4 Big n)) by (rewrite zlen_app, zlen_pack; reflexivity).
    replace (1 + zlen ns - 1) with (zlen ns) by lia.
    rewrite IH by (try assumption; cbn in Hf; lia). f_equal. rewrite zlen_app, zlen_pack. lia.
Qed.

Lemma offs_loop_enc ns : forall fuel pre post,
  (length ns < fuel)%nat -> Forall in32 ns ->
  offs_loop fuel (zlen ns) (pre ++ enc_nums ns ++ post) (zlen pre) = Ok (ns, zlen pre + 4 * zlen ns).
Proof.
  induction ns as [|n ns IH]; intros fuel pre post Hf Hwf.
  - change (zlen (@nil Z)) with 0. rewrite Z.mul_0_r, Z.add_0_r. destruct fuel; reflexivity.
  - destruct fuel as [|f]; [cbn in Hf; lia|]. pose proof (Forall_inv Hwf). pose proof (Forall_inv_tail Hwf).
    cbn [offs_loop]. rewrite zlen_cons. pose proof (zlen_nonneg ns).
    destruct (Z.leb_spec (1 + zlen ns) 0); [lia|].
    unfold enc_nums. cbn [map concat]. fold (enc_nums ns). rewrite <- app_assoc.
    rewrite rd_s4_at by auto. cbn [bind].
    replace (pre ++ pack 4 Big n ++ enc_nums ns ++ post) with ((pre ++ pack 4 Big n) ++ enc_nums ns ++ post)
      by (rewrite <- app_assoc; reflexivity).
    replace (zlen pre + 4) with (zlen (pre ++ pack 4 Big n)) by (rewrite zlen_app, zlen_pack; reflexivity).
    replace (1 + zlen ns - 1) with (zlen ns) by lia.
    rewrite IH by (try assumption; cbn in Hf; lia). cbn [bind]. f_equal. f_equal. rewrite zlen_app, zlen_pack. lia.
Qed.

Lemma extra_loop_enc es : forall o pre post,
  extra_loop (offsets_of o es) (pre ++ concat es ++ post) (zlen pre) = es.
Proof.
  induction es as [|e es IH]; intros o pre post; [reflexivity|].
  cbn [offsets_of]. destruct es as [|e2 es'] eqn:Ees.
  - cbn [offsets_of extra_loop concat]. replace (o + zlen e - o) with (zlen e) by lia.
    pose proof (zlen_nonneg e). destruct (Z.gtb_spec (zlen e) 0).
    + rewrite app_nil_r. rewrite slice_mid by reflexivity. reflexivity.
    + rewrite (zlen_le0_nil e) by lia. reflexivity.
  - rewrite <- Ees in *. cbn [extra_loop].
    assert (Hh : exists rest, offsets_of (o + zlen e) es = (o + zlen e) :: rest) by (rewrite Ees; eexists; reflexivity).
    destruct Hh as (rest & Hr). rewrite Hr. replace (o + zlen e - o) with (zlen e) by lia.
    pose proof (zlen_nonneg e). cbn [concat]. rewrite <- app_assoc.
    destruct (Z.gtb_spec (zlen e) 0).
    + rewrite slice_mid by reflexivity. f_equal. rewrite <- Hr.
      replace (pre ++ e ++ concat es ++ post) with ((pre ++ e) ++ concat es ++ post) by (rewrite <- app_assoc; reflexivity).
      replace (zlen pre + zlen e) with (zlen (pre ++ e)) by (rewrite zlen_app; reflexivity).
      apply IH.
    + assert (He : e = []) by (apply zlen_le0_nil; lia). subst e.
      f_equal. rewrite <- Hr. cbn [app]. apply IH.
Qed.

Lemma offsets_of_length o es : zlen (offsets_of o es) = zlen es + 1.
Proof. revert o; induction es as [|e es IH]; intros o; cbn [offsets_of]; rewrite zlen_cons; [reflexivity|]. rewrite IH, zlen_cons. lia. Qed.

Definition content_of (sk b1 b2 si : Z) (es : list bytes) : dict :=
  match es with
  | [] => [(k_basic, PD (basic_dict sk b1 b2 si))]
  | _ => [(k_basic, PD (basic_dict sk b1 b2 si)); (k_extra, PL (map PS es)); (k_name, PS (name_of_extra es))]
  end.

Theorem info_roundtrip sk b1 b2 si nums off0 es tail :
  0 <= sk < 256 ^ 4 -> in32 b1 -> in32 b2 -> in32 si -> Forall in32 nums -> in32 (20 + 4 * zlen nums) ->
  in16 (zlen es) -> Forall in32 (offsets_of off0 es) ->
  parse_basic_cast_data (enc_info sk b1 b2 si nums off0 es tail) = Ok (content_of sk b1 b2 si es).
Proof.
  intros Hsk H1 H2 H3 Hn Hns Hes Hoffs. unfold parse_basic_cast_data, enc_info.
  set (rest := match es with [] => [] | _ => enc_nums (offsets_of off0 es) ++ concat es end).
  set (d := pack 4 Big (20 + 4 * zlen nums) ++ pack 4 Big sk ++ pack 4 Big b1 ++ pack 4 Big b2 ++ pack 4 Big si ++
            enc_nums nums ++ pack 2 Big (zlen es) ++ rest ++ tail).
  pose proof (zlen_nonneg nums) as Hnn. pose proof (zlen_nonneg es) as Hen.
  assert (Hzd : 0 < zlen d) by (unfold d; rewrite zlen_app, zlen_pack; pose proof (zlen_nonneg (pack 4 Big sk ++ pack 4 Big b1 ++ pack 4 Big b2 ++ pack 4 Big si ++ enc_nums nums ++ pack 2 Big (zlen es) ++ rest ++ tail)); lia).
  destruct (Z.leb_spec (zlen d) 0); [lia|].
  assert (E0 : rd_s 4 Big d 0 = Ok (20 + 4 * zlen nums)) by (unfold d; apply rd_s4_at0; exact Hns).
  assert (E4 : rd_u 4 Big d 4 = Ok sk).
  { unfold d. rewrite app_assoc. apply (rd_u_at 4 Big (pack 4 Big (20 + 4 * zlen nums))); [rewrite zlen_pack; reflexivity | exact Hsk]. }
  assert (E8 : rd_s 4 Big d 8 = Ok b1).
  { unfold d. replace (pack 4 Big (20 + 4 * zlen nums) ++ pack 4 Big sk ++ pack 4 Big b1 ++ pack 4 Big b2 ++ pack 4 Big si ++ enc_nums nums ++ pack 2 Big (zlen es) ++ rest ++ tail)
      with ((pack 4 Big (20 + 4 * zlen nums) ++ pack 4 Big sk) ++ pack 4 Big b1 ++ (pack 4 Big b2 ++ pack 4 Big si ++ enc_nums nums ++ pack 2 Big (zlen es) ++ rest ++ tail))
      by (repeat rewrite <- app_assoc; reflexivity).
    apply rd_s4_at; [rewrite zlen_app, !zlen_pack; reflexivity | exact H1]. }
  assert (E12 : rd_s 4 Big d 12 = Ok b2).
  { unfold d. replace (pack 4 Big (20 + 4 * zlen nums) ++ pack 4 Big sk ++ pack 4 Big b1 ++ pack 4 Big b2 ++ pack 4 Big si ++ enc_nums nums ++ pack 2 Big (zlen es) ++ rest ++ tail)
      with ((pack 4 Big (20 + 4 * zlen nums) ++ pack 4 Big sk ++ pack 4 Big b1) ++ pack 4 Big b2 ++ (pack 4 Big si ++ enc_nums nums ++ pack 2 Big (zlen es) ++ rest ++ tail))
      by (repeat rewrite <- app_assoc; reflexivity).
    apply rd_s4_at; [rewrite !zlen_app, !zlen_pack; reflexivity | exact H2]. }
  assert (E16 : rd_s 4 Big d 16 = Ok si).
  { unfold d. replace (pack 4 Big (20 + 4 * zlen nums) ++ pack 4 Big sk ++ pack 4 Big b1 ++ pack 4 Big b2 ++ pack 4 Big si ++ enc_nums nums ++ pack 2 Big (zlen es) ++ rest ++ tail)
      with ((pack 4 Big (20 + 4 * zlen nums) ++ pack 4 Big sk ++ pack 4 Big b1 ++ pack 4 Big b2) ++ pack 4 Big si ++ (enc_nums nums ++ pack 2 Big (zlen es) ++ rest ++ tail))
      by (repeat rewrite <- app_assoc; reflexivity).
    apply rd_s4_at; [rewrite !zlen_app, !zlen_pack; reflexivity | exact H3]. }
  rewrite E0. cbn [bind]. destruct (Z.ltb_spec (20 + 4 * zlen nums) 20); [lia|].
  rewrite E4, E8, E12, E16. cbn [bind].
  replace ((20 + 4 * zlen nums - 20) / 4) with (zlen nums) by (replace (20 + 4 * zlen nums - 20) with (zlen nums * 4) by lia; rewrite Z.div_mul by lia; reflexivity).
  set (P := pack 4 Big (20 + 4 * zlen nums) ++ pack 4 Big sk ++ pack 4 Big b1 ++ pack 4 Big b2 ++ pack 4 Big si).
  assert (HP : zlen P = 20) by (unfold P; rewrite !zlen_app, !zlen_pack; reflexivity).
  assert (Hd1 : d = P ++ enc_nums nums ++ (pack 2 Big (zlen es) ++ rest ++ tail)) by (unfold d, P; repeat rewrite <- app_assoc; reflexivity).
  assert (Hlen : (length nums < S (length d))%nat).
  { rewrite Hd1, !app_length. pose proof (zlen_enc_nums nums) as Z1. unfold zlen in Z1. lia. }
  rewrite Hd1 at 2. replace 20 with (zlen P) at 1 by exact HP.
  rewrite skip_loop_enc by assumption. cbn [bind].
  assert (Hd2 : d = (P ++ enc_nums nums) ++ pack 2 Big (zlen es) ++ (rest ++ tail)) by (unfold d, P; repeat rewrite <- app_assoc; reflexivity).
  assert (En : rd_s 2 Big d (zlen P + 4 * zlen nums) = Ok (zlen es)).
  { rewrite Hd2. apply rd_s2_at; [rewrite zlen_app, zlen_enc_nums; reflexivity | exact Hes]. }
  rewrite En. cbn [bind].
  destruct (Z.gtb_spec (zlen es) 0) as [Hpos|Hz0].
  2:{ assert (He : es = []) by (apply zlen_le0_nil; lia). subst es. reflexivity. }
  - assert (Hrest : rest = enc_nums (offsets_of off0 es) ++ concat es).
    { unfold rest. destruct es; [change (zlen (@nil bytes)) with 0 in Hpos; lia | reflexivity]. }
    assert (Hd3 : d = (P ++ enc_nums nums ++ pack 2 Big (zlen es)) ++ enc_nums (offsets_of off0 es) ++ (concat es ++ tail))
      by (unfold d, P; rewrite Hrest; repeat rewrite <- app_assoc; reflexivity).
    replace (zlen P + 4 * zlen nums + 2) with (zlen (P ++ enc_nums nums ++ pack 2 Big (zlen es)))
      by (rewrite !zlen_app, zlen_enc_nums, zlen_pack; lia).
    rewrite <- (offsets_of_length off0 es).
    rewrite Hd3 at 2. rewrite offs_loop_enc; [| | exact Hoffs].
    2:{ rewrite Hd3, !app_length. pose proof (zlen_enc_nums (offsets_of off0 es)) as Z1. unfold zlen in Z1. lia. }
    cbn [bind].
    assert (Hd4 : d = (P ++ enc_nums nums ++ pack 2 Big (zlen es) ++ enc_nums (offsets_of off0 es)) ++ concat es ++ tail)
      by (rewrite Hd3; repeat rewrite <- app_assoc; reflexivity).
    replace (zlen (P ++ enc_nums nums ++ pack 2 Big (zlen es)) + 4 * zlen (offsets_of off0 es))
      with (zlen (P ++ enc_nums nums ++ pack 2 Big (zlen es) ++ enc_nums (offsets_of off0 es)))
      by (rewrite !zlen_app, !zlen_enc_nums, zlen_pack; lia).
    assert (Ex : extra_loop (offsets_of off0 es) d (zlen (P ++ enc_nums nums ++ pack 2 Big (zlen es) ++ enc_nums (offsets_of off0 es))) = es)
      by (rewrite Hd4 at 1; apply extra_loop_enc).
    rewrite Ex. unfold content_of. destruct es; [change (zlen (@nil bytes)) with 0 in Hpos; lia | reflexivity].
Qed.

(* whatever bytes the name entry holds, the reported name only has characters safe in a file name *)
Lemma name_char_safe b : name_safe (name_char b) = true.
Proof. unfold name_char. destruct (name_safe b) eqn:E; [exact E|reflexivity]. Qed.
Theorem member_name_safe extra : Forall (fun b => name_safe b = true) (name_of_extra extra).
Proof.
  unfold name_of_extra. destruct extra as [|e0 [|[|c r] rest]]; try constructor.
  apply Forall_forall. intros x Hx. apply in_map_iff in Hx. destruct Hx as (y & <- & _). apply name_char_safe.
Qed.
