(* Facts about the append-or-extend loop of Model/RL.v, for every column of cells. *)
From Coq Require Import List Arith Bool Lia.
From DRX Require Import Model.RL.
Import ListNotations.

Section RLFacts.
Variable A : Type.
Variable eqb : A -> A -> bool.
Hypothesis eqb_spec : forall a b, eqb a b = true <-> a = b.

Notation span := (span A).

(* The loop seen on the reversed list (newest span first). *)
Definition new_span (i : nat) (a : A) : span := Build_span (i + 1) (i + 1) a.
Definition stepr (i : nat) (r : list span) (c : option A) : list span :=
  match c with
  | None => r
  | Some a =>
    match r with
    | last :: before =>
      if Nat.eqb (send last) i && eqb (sattrs last) a
      then Build_span (sstart last) (i + 1) (sattrs last) :: before
      else new_span i a :: r
    | [] => [new_span i a]
    end
  end.

Lemma step_stepr i sp c : step eqb i sp c = rev (stepr i (rev sp) c).
Proof.
  unfold step, stepr. destruct c as [a|]; [|symmetry; apply rev_involutive].
  destruct (rev sp) as [|last before] eqn:E.
  - reflexivity.
  - destruct (Nat.eqb (send last) i && eqb (sattrs last) a); cbn [rev].
    + reflexivity.
    + assert (Hsp : sp = rev before ++ [last]) by (rewrite <- (rev_involutive sp), E; reflexivity).
      rewrite Hsp at 1. reflexivity.
Qed.

Fixpoint runr (i : nat) (r : list span) (col : list (option A)) : list span :=
  match col with [] => r | c :: rest => runr (S i) (stepr i r c) rest end.

Lemma run_runr col : forall i sp, run eqb i sp col = rev (runr i (rev sp) col).
Proof.
  induction col as [|c rest IH]; intros i sp; cbn [run runr].
  - symmetry; apply rev_involutive.
  - rewrite IH, step_stepr, rev_involutive. reflexivity.
Qed.

(* ---- invariant on the reversed list ---- *)
(* well-formed: newest first, each span non-empty, within 1..i, strictly separated *)
Fixpoint wfr (i : nat) (r : list span) : Prop :=
  match r with
  | [] => True
  | s :: rest => 1 <= sstart s /\ sstart s <= send s /\ send s <= i /\ wfr (sstart s - 1) rest
  end.
(* maximal: two spans adjacent in the list and contiguous in time differ in attributes *)
Fixpoint maxr (r : list span) : Prop :=
  match r with
  | s2 :: rest =>
    match rest with
    | s1 :: _ => (send s1 + 1 = sstart s2 -> sattrs s1 <> sattrs s2) /\ maxr rest
    | [] => True
    end
  | [] => True
  end.
Definition cell (pre : list (option A)) (k : nat) : option A := nth k pre None.
Definition sound (pre : list (option A)) (r : list span) : Prop :=
  forall s k, In s r -> covers s k -> cell pre k = Some (sattrs s).
Definition complete (pre : list (option A)) (r : list span) : Prop :=
  forall k a, cell pre k = Some a -> exists s, In s r /\ covers s k.

Lemma wfr_mono r : forall i j, wfr i r -> i <= j -> wfr j r.
Proof. destruct r as [|s rest]; cbn [wfr]; intros i j H Hij; [exact I|]. intuition lia. Qed.

Lemma wfr_bounds r : forall i s, wfr i r -> In s r -> 1 <= sstart s /\ sstart s <= send s /\ send s <= i.
Proof.
  induction r as [|x rest IH]; cbn [wfr In]; intros i s H Hin; [contradiction|].
  destruct H as (H1 & H2 & H3 & H4). destruct Hin as [<-|Hin]; [lia|].
  specialize (IH _ _ H4 Hin). lia.
Qed.

Lemma cell_app_old pre c k : k < length pre -> cell (pre ++ [c]) k = cell pre k.
Proof. intros H. unfold cell. apply app_nth1. exact H. Qed.
Lemma cell_app_new pre c : cell (pre ++ [c]) (length pre) = c.
Proof. unfold cell. rewrite app_nth2 by lia. rewrite Nat.sub_diag. reflexivity. Qed.
Lemma cell_beyond pre k : length pre <= k -> cell pre k = None.
Proof. intros H. unfold cell. apply nth_overflow. exact H. Qed.

Record Inv (i : nat) (pre : list (option A)) (r : list span) : Prop := {
  inv_len : length pre = i;
  inv_wf : wfr i r;
  inv_sound : sound pre r;
  inv_complete : complete pre r;
  inv_max : maxr r }.

Lemma covers_lt i r s k : wfr i r -> In s r -> covers s k -> k < i.
Proof. intros H Hin [_ Hc]. pose proof (wfr_bounds _ _ _ H Hin). lia. Qed.

Lemma step_inv i pre r c : Inv i pre r -> Inv (S i) (pre ++ [c]) (stepr i r c).
Proof.
  intros [Hlen Hwf Hs Hc Hm].
  assert (Hold : forall s k, In s r -> covers s k -> cell (pre ++ [c]) k = Some (sattrs s)).
  { intros s k Hin Hcov. rewrite cell_app_old; [eauto|].
    rewrite Hlen. eapply covers_lt; eauto. }
  assert (Hcomp_old : forall k a, k <> i -> cell (pre ++ [c]) k = Some a ->
            exists s, In s r /\ covers s k).
  { intros k a Hk Hcell. destruct (Nat.lt_ge_cases k i) as [Hlt|Hge].
    - rewrite cell_app_old in Hcell by lia. eauto.
    - rewrite cell_beyond in Hcell; [discriminate|]. rewrite app_length. cbn. lia. }
  assert (Hnew : cell (pre ++ [c]) i = c) by (rewrite <- Hlen; apply cell_app_new).
  destruct c as [a|]; cbn [stepr].
  - (* a sprite in this cell *)
    destruct r as [|last before].
    + (* first span of the channel *)
      split.
      * rewrite app_length; cbn; lia.
      * cbn; lia.
      * intros s k [<-|[]] [H1 H2]. cbn in *. replace k with i by lia. exact Hnew.
      * intros k a' Hcell. destruct (Nat.eq_dec k i) as [->|Hk].
        -- exists (new_span i a). split; [left; reflexivity|]. unfold covers; cbn; lia.
        -- destruct (Hcomp_old _ _ Hk Hcell) as (s & [] & _).
      * exact I.
    + destruct (Nat.eqb (send last) i && eqb (sattrs last) a) eqn:C.
      * (* extend the last span *)
        apply andb_true_iff in C. destruct C as [C1 C2].
        apply Nat.eqb_eq in C1. apply eqb_spec in C2.
        cbn [wfr] in Hwf. destruct Hwf as (W1 & W2 & W3 & W4).
        split.
        -- rewrite app_length; cbn; lia.
        -- cbn [wfr sstart send]. split; [lia|split; [lia|split; [lia|]]]. exact W4.
        -- intros s k [<-|Hin] Hcov.
           ++ cbn [sattrs]. destruct Hcov as [Hc1 Hc2]. cbn [sstart send] in *.
              destruct (Nat.eq_dec k i) as [->|Hk].
              ** rewrite Hnew, C2. reflexivity.
              ** apply (Hold last k); [left; reflexivity|]. unfold covers. lia.
           ++ apply Hold; [right; exact Hin|exact Hcov].
        -- intros k a' Hcell. destruct (Nat.eq_dec k i) as [->|Hk].
           ++ eexists. split; [left; reflexivity|]. unfold covers; cbn; lia.
           ++ destruct (Hcomp_old _ _ Hk Hcell) as (s & [<-|Hin] & Hcov).
              ** eexists. split; [left; reflexivity|]. destruct Hcov. unfold covers; cbn; lia.
              ** exists s. split; [right; exact Hin|exact Hcov].
        -- cbn [maxr] in *. destruct before as [|s1 rest]; [exact I|]. exact Hm.
      * (* start a new span *)
        split.
        -- rewrite app_length; cbn; lia.
        -- cbn [wfr new_span sstart send]. split; [lia|split; [lia|split; [lia|]]].
           replace (i + 1 - 1) with i by lia. exact Hwf.
        -- intros s k [<-|Hin] Hcov.
           ++ destruct Hcov as [Hc1 Hc2]. cbn in *. replace k with i by lia. exact Hnew.
           ++ apply Hold; assumption.
        -- intros k a' Hcell. destruct (Nat.eq_dec k i) as [->|Hk].
           ++ exists (new_span i a). split; [left; reflexivity|]. unfold covers; cbn; lia.
           ++ destruct (Hcomp_old _ _ Hk Hcell) as (s & Hin & Hcov).
              exists s. split; [right; exact Hin|exact Hcov].
        -- cbn [maxr new_span sstart sattrs]. split; [|exact Hm].
           intros Hadj Heq. apply andb_false_iff in C. destruct C as [C|C].
           ++ apply Nat.eqb_neq in C. lia.
           ++ assert (eqb (sattrs last) a = true) by (apply eqb_spec; exact Heq). congruence.
  - (* empty cell: nothing changes *)
    split.
    + rewrite app_length; cbn; lia.
    + eapply wfr_mono; eauto.
    + exact Hold.
    + intros k a Hcell. destruct (Nat.eq_dec k i) as [->|Hk].
      * rewrite Hnew in Hcell. discriminate.
      * eauto.
    + exact Hm.
Qed.

Lemma run_inv col : forall i pre r, Inv i pre r -> Inv (i + length col) (pre ++ col) (runr i r col).
Proof.
  induction col as [|c rest IH]; intros i pre r H; cbn [runr length].
  - rewrite Nat.add_0_r, app_nil_r. exact H.
  - replace (i + S (length rest)) with (S i + length rest) by lia.
    replace (pre ++ c :: rest) with ((pre ++ [c]) ++ rest) by (rewrite <- app_assoc; reflexivity).
    apply IH. apply step_inv. exact H.
Qed.

Lemma inv_init : Inv 0 [] [].
Proof. split; cbn; auto. - intros s k []. - intros k a H. unfold cell in H. destruct k; discriminate. Qed.

Lemma spans_inv col : Inv (length col) col (rev (spans_of eqb col)).
Proof.
  unfold spans_of. rewrite run_runr, rev_involutive. cbn [rev].
  exact (run_inv col 0 [] [] inv_init).
Qed.

(* ---------------- the statements used by the property file ---------------- *)

(* every span lies inside the table and is non-empty *)
Theorem spans_bounds col s :
  In s (spans_of eqb col) -> 1 <= sstart s /\ sstart s <= send s /\ send s <= length col.
Proof. intros H. apply (wfr_bounds _ _ _ (inv_wf _ _ _ (spans_inv col))). apply in_rev in H. exact H. Qed.

(* a span covers only cells holding exactly its attributes (so: no span on an empty cell) *)
Theorem spans_sound col s k :
  In s (spans_of eqb col) -> covers s k -> nth k col None = Some (sattrs s).
Proof. intros H. apply (inv_sound _ _ _ (spans_inv col)). apply in_rev in H. exact H. Qed.

(* every occupied cell is covered *)
Theorem spans_complete col k a :
  nth k col None = Some a -> exists s, In s (spans_of eqb col) /\ covers s k /\ sattrs s = a.
Proof.
  intros H. destruct (inv_complete _ _ _ (spans_inv col) k a H) as (s & Hin & Hcov).
  apply in_rev in Hin. exists s. split; [exact Hin|]. split; [exact Hcov|].
  pose proof (spans_sound col s k Hin Hcov) as H2. congruence.
Qed.

(* ordered and disjoint: in list order, each span starts after the previous one ended *)
Lemma wfr_sorted r : forall i l1 s2 l2 s1 l3, wfr i r -> r = l1 ++ s2 :: l2 ++ s1 :: l3 -> send s1 < sstart s2.
Proof.
  induction r as [|x rest IH]; intros i l1 s2 l2 s1 l3 H E.
  - destruct l1; discriminate.
  - cbn [wfr] in H. destruct H as (H1 & H2 & H3 & H4).
    destruct l1 as [|y l1]; cbn in E; injection E as -> ->.
    + assert (In s1 (l2 ++ s1 :: l3)) by (apply in_or_app; right; left; reflexivity).
      pose proof (wfr_bounds _ _ _ H4 H). lia.
    + eapply IH; eauto.
Qed.

Theorem spans_sorted col l1 s1 l2 s2 l3 :
  spans_of eqb col = l1 ++ s1 :: l2 ++ s2 :: l3 -> send s1 < sstart s2.
Proof.
  intros E. pose proof (inv_wf _ _ _ (spans_inv col)) as H. rewrite E in H.
  eapply (wfr_sorted _ _ (rev l3) s2 (rev l2) s1 (rev l1) H).
  rewrite rev_app_distr. cbn [rev]. rewrite rev_app_distr. cbn [rev].
  repeat (rewrite <- app_assoc; cbn [app]). reflexivity.
Qed.

(* at most one span covers a cell *)
Lemma wfr_unique r : forall i s1 s2 k, wfr i r -> In s1 r -> In s2 r -> covers s1 k -> covers s2 k -> s1 = s2.
Proof.
  induction r as [|x rest IH]; intros i s1 s2 k H H1 H2 C1 C2; [destruct H1|].
  cbn [wfr] in H. destruct H as (W1 & W2 & W3 & W4).
  destruct H1 as [<-|H1], H2 as [<-|H2]; auto.
  - pose proof (wfr_bounds _ _ _ W4 H2). destruct C1, C2. lia.
  - pose proof (wfr_bounds _ _ _ W4 H1). destruct C1, C2. lia.
  - eapply IH; eauto.
Qed.

Theorem spans_unique col s1 s2 k :
  In s1 (spans_of eqb col) -> In s2 (spans_of eqb col) -> covers s1 k -> covers s2 k -> s1 = s2.
Proof.
  intros H1 H2. apply in_rev in H1. apply in_rev in H2.
  eapply wfr_unique; eauto. exact (inv_wf _ _ _ (spans_inv col)).
Qed.

(* maximal: consecutive spans that touch differ in a compared attribute *)
Lemma maxr_adjacent r : forall l1 s2 s1 l2, maxr r -> r = l1 ++ s2 :: s1 :: l2 ->
  send s1 + 1 = sstart s2 -> sattrs s1 <> sattrs s2.
Proof.
  induction r as [|x rest IH]; intros l1 s2 s1 l2 H E.
  - destruct l1; discriminate.
  - destruct l1 as [|y l1]; cbn in E; injection E as -> ->.
    + cbn [maxr] in H. tauto.
    + cbn [maxr] in H. destruct (l1 ++ s2 :: s1 :: l2) eqn:E2.
      * destruct l1; discriminate.
      * destruct H as [_ H]. eapply IH; [exact H | symmetry; exact E2].
Qed.

Theorem spans_maximal col l1 s1 s2 l2 :
  spans_of eqb col = l1 ++ s1 :: s2 :: l2 -> send s1 + 1 = sstart s2 -> sattrs s1 <> sattrs s2.
Proof.
  intros E. pose proof (inv_max _ _ _ (spans_inv col)) as H. rewrite E in H.
  eapply (maxr_adjacent _ (rev l2) s2 s1 (rev l1) H).
  rewrite rev_app_distr. cbn [rev]. repeat (rewrite <- app_assoc; cbn [app]). reflexivity.
Qed.

End RLFacts.
