(* C10 (continued): the 1-bit PackBits loop never runs out of fuel (it consumes at least one byte of the stream per
   iteration, exactly like the 8-bit loop). *)
From Coq Require Import List ZArith Bool Lia.
From Coq.Strings Require Import Byte.
From DRX Require Import Py.PyBytes Py.Layout Proofs.PyBytesFacts Proofs.FuelFacts Model.Riff Model.Bitd.
Import ListNotations.
Open Scope Z_scope.

Lemma put_bits_not_oof j : forall data x y w iw width pw v, put_bits j data x y w iw width pw v <> OutOfFuel.
Proof.
  induction j as [|j IH]; intros; cbn [put_bits]; [discriminate|].
  destruct (_ >=? _); [discriminate|]. destruct (x <? iw); cbn [bind]; [|apply IH]. unfold set_idx, of_option.
  destruct (_ || _); cbn [bind]; [discriminate|].
  match goal with |- context[match ?x with Some _ => _ | None => _ end] => destruct x end; cbn [bind]; [apply IH|discriminate].
Qed.
Lemma put_run1_not_oof n : forall data x y w iw width pw v, put_run1 n data x y w iw width pw v <> OutOfFuel.
Proof.
  induction n as [|n IH]; intros; cbn [put_run1]; [discriminate|].
  pose proof (put_bits_not_oof 8 data x y w iw width pw v) as B.
  destruct (put_bits 8 data x y w iw width pw v) as [[d x']| |]; cbn [bind]; [apply IH|discriminate|contradiction].
Qed.
Lemma put_lit1_spec n : forall f data x y w iw width pw idx,
  match put_lit1 n f data x y w iw width pw idx with Ok (_, _, i') => idx <= i' | Err _ => True | OutOfFuel => False end.
Proof.
  induction n as [|n IH]; intros; cbn [put_lit1]; [lia|].
  unfold get_idx, of_option. destruct (index f idx); cbn [bind]; [|exact I].
  pose proof (put_bits_not_oof 8 data x y w iw width pw (u8 b)) as B.
  destruct (put_bits 8 data x y w iw width pw (u8 b)) as [[d x']| |]; cbn [bind]; [|exact I|contradiction].
  destruct (_ >? _); [lia|].
  specialize (IH f d x' y w iw width pw (idx + 1)).
  destruct (put_lit1 n f d x' y w iw width pw (idx + 1)) as [[[? ?] ?]| |]; auto. lia.
Qed.

Lemma loop1_not_oof f w iw width pw : forall fuel s, 0 <= s_idx s -> (Z.to_nat (zlen f - s_idx s) < fuel)%nat ->
  loop1 fuel f s w iw width pw <> OutOfFuel.
Proof.
  induction fuel as [|k IH]; intros s Hi Hf; [lia|]. cbn [loop1].
  destruct (Z.ltb_spec (s_idx s) (zlen f)); cbn [andb]; [|discriminate].
  destruct (s_y s >=? 0); [|discriminate].
  unfold get_idx at 1, of_option. destruct (index f (s_idx s)); cbn [bind]; [|discriminate].
  destruct (negb _).
  - destruct (_ >=? _); [discriminate|].
    unfold get_idx at 1, of_option. destruct (index f (s_idx s + 1)); cbn [bind]; [|discriminate].
    pose proof (put_run1_not_oof (Z.to_nat (257 - u8 b)) (s_data s) (s_x s) (s_y s) w iw width pw (u8 b0)) as R.
    destruct (put_run1 _ _ _ _ _ _ _ _ _) as [[data x]| |]; cbn [bind]; [|discriminate|contradiction].
    destruct (_ >=? _).
    + destruct (_ <? 0); [discriminate|]. apply IH; cbn [s_idx]; lia.
    + apply IH; cbn [s_idx]; lia.
  - destruct (_ >? _); [discriminate|].
    pose proof (put_lit1_spec (Z.to_nat (u8 b + 1)) f (s_data s) (s_x s) (s_y s) w iw width pw (s_idx s + 1)) as L.
    destruct (put_lit1 _ _ _ _ _ _ _ _ _ _) as [[[data x] idx']| |]; cbn [bind]; [|discriminate|contradiction].
    destruct (_ >=? _).
    + destruct (_ <? 0); [discriminate|]. apply IH; cbn [s_idx]; lia.
    + apply IH; cbn [s_idx]; lia.
Qed.

Theorem compressed1_terminates f w0 h pw ph width : decode_compressed1 f w0 h pw ph width <> OutOfFuel.
Proof.
  unfold decode_compressed1, bytearray. destruct (_ <? 0); cbn [bind]; [discriminate|].
  pose proof (loop1_not_oof f (w0 - pw + (16 - (w0 - pw) mod 16) mod 16) (w0 - pw) width pw (S (length f))
               (Build_st (zeros (Z.to_nat (width * h))) 0 (h - 1 - ph) 0)) as L.
  cbn [s_idx] in L. specialize (L ltac:(lia)). pose proof (zlen_nonneg f) as Hn.
  specialize (L ltac:(unfold zlen in *; lia)).
  destruct (loop1 _ _ _ _ _ _ _); cbn [bind]; [discriminate|discriminate|contradiction].
Qed.

(* ---------- 16- and 32-bit loops ---------- *)
Lemma put_n_not_oof n : forall data x y width v, put_n n data x y width v <> OutOfFuel.
Proof.
  induction n as [|n IH]; intros; cbn [put_n]; [discriminate|]. unfold set_idx, of_option.
  destruct (_ || _); cbn [bind]; [discriminate|].
  match goal with |- context[match ?x with Some _ => _ | None => _ end] => destruct x end; cbn [bind]; [apply IH|discriminate].
Qed.
Lemma put_run_wrap_not_oof n : forall data x y width v, put_run_wrap n data x y width v <> OutOfFuel.
Proof.
  induction n as [|n IH]; intros; cbn [put_run_wrap]; [discriminate|]. unfold set_idx, of_option.
  destruct (_ || _); cbn [bind]; [discriminate|].
  match goal with |- context[match ?x with Some _ => _ | None => _ end] => destruct x end; cbn [bind]; [|discriminate].
  destruct (_ >=? _); apply IH.
Qed.
Lemma put_lit_wrap_spec n : forall f data x y width idx,
  match put_lit_wrap n f data x y width idx with Ok (_, _, _, i') => i' = idx + Z.of_nat n | Err _ => True | OutOfFuel => False end.
Proof.
  induction n as [|n IH]; intros; cbn [put_lit_wrap]; [lia|].
  unfold get_idx, of_option. destruct (index f idx); cbn [bind]; [|exact I].
  unfold set_idx. destruct (_ || _); cbn [bind]; [exact I|].
  destruct (set_nth data _ b) as [a|]; cbn [of_option bind]; [|exact I].
  destruct (_ >=? _).
  - specialize (IH f a 0 (y - 1) width (idx + 1)). destruct (put_lit_wrap n f a 0 (y - 1) width (idx + 1)) as [[[[? ?] ?] ?]| |]; auto. lia.
  - specialize (IH f a (x + 1) y width (idx + 1)). destruct (put_lit_wrap n f a (x + 1) y width (idx + 1)) as [[[[? ?] ?] ?]| |]; auto. lia.
Qed.

Lemma loop16_not_oof f w width : forall fuel s, 0 <= s_idx s -> (Z.to_nat (zlen f - s_idx s) < fuel)%nat ->
  loop16 fuel f s w width <> OutOfFuel.
Proof.
  induction fuel as [|k IH]; intros s Hi Hf; [lia|]. cbn [loop16].
  destruct (Z.ltb_spec (s_idx s) (zlen f)); cbn [andb]; [|discriminate].
  destruct (s_y s >=? 0); [|discriminate].
  unfold get_idx at 1, of_option. destruct (index f (s_idx s)); cbn [bind]; [|discriminate].
  destruct (negb _).
  - unfold get_idx at 1, of_option. destruct (index f (s_idx s + 1)); cbn [bind]; [|discriminate].
    destruct (adjust16 _ _ _ _ _) as [x y].
    pose proof (put_n_not_oof (Z.to_nat (257 - u8 b)) (s_data s) x y width b0) as R.
    destruct (put_n _ _ _ _ _ _) as [[data x']| |]; cbn [bind]; [|discriminate|contradiction].
    apply IH; cbn [s_idx]; lia.
  - destruct (adjust16 _ _ _ _ _) as [x y].
    pose proof (put_lit_wrap_spec (Z.to_nat (u8 b + 1)) f (s_data s) x y width (s_idx s + 1)) as L.
    destruct (put_lit_wrap _ _ _ _ _ _ _) as [[[[data x'] y'] idx']| |]; cbn [bind]; [|discriminate|contradiction].
    apply IH; cbn [s_idx]; lia.
Qed.

Lemma loop24_not_oof f width : forall fuel s, 0 <= s_idx s -> (Z.to_nat (zlen f - s_idx s) < fuel)%nat ->
  loop24 fuel f s width <> OutOfFuel.
Proof.
  induction fuel as [|k IH]; intros s Hi Hf; [lia|]. cbn [loop24].
  destruct (Z.ltb_spec (s_idx s) (zlen f)); cbn [andb]; [|discriminate].
  destruct (s_y s >=? 0); [|discriminate].
  unfold get_idx at 1, of_option. destruct (index f (s_idx s)); cbn [bind]; [|discriminate].
  destruct (negb (Z.land _ _ =? 0)); [|destruct (negb (_ =? 0))].
  - unfold get_idx at 1, of_option. destruct (index f (s_idx s + 1)); cbn [bind]; [|discriminate].
    pose proof (put_run_wrap_not_oof (Z.to_nat (257 - u8 b)) (s_data s) (s_x s) (s_y s) width b0) as R.
    destruct (put_run_wrap _ _ _ _ _ _) as [[[data x] y]| |]; cbn [bind]; [|discriminate|contradiction].
    apply IH; cbn [s_idx]; lia.
  - pose proof (put_lit_wrap_spec (Z.to_nat (u8 b + 1)) f (s_data s) (s_x s) (s_y s) width (s_idx s + 1)) as L.
    destruct (put_lit_wrap _ _ _ _ _ _ _) as [[[[data x] y] idx']| |]; cbn [bind]; [|discriminate|contradiction].
    apply IH; cbn [s_idx]; lia.
  - unfold get_idx at 1, of_option. destruct (index f (s_idx s + 1)); cbn [bind]; [|discriminate].
    pose proof (put_run_wrap_not_oof 1 (s_data s) (s_x s) (s_y s) width b0) as R.
    destruct (put_run_wrap _ _ _ _ _ _) as [[[data x] y]| |]; cbn [bind]; [|discriminate|contradiction].
    apply IH; cbn [s_idx]; lia.
Qed.

Lemma collect_not_oof {A} (l : list (result (list A))) : Forall (fun r => r <> OutOfFuel) l -> collect l <> OutOfFuel.
Proof.
  induction 1 as [|r l Hr _ IH]; cbn [collect]; [discriminate|].
  destruct r; cbn [bind]; [|discriminate|contradiction]. destruct (collect l); cbn [bind]; [discriminate|discriminate|contradiction].
Qed.
Lemma get_idx_not_oof d p : get_idx d p <> OutOfFuel.
Proof. unfold get_idx, of_option. destruct (index d p); discriminate. Qed.

Lemma mix16_not_oof data w h : mix16 data w h <> OutOfFuel.
Proof.
  unfold mix16. apply collect_not_oof. apply Forall_forall. intros r Hr. apply in_map_iff in Hr. destruct Hr as [y [<- _]].
  match goal with |- bind ?c _ <> _ => assert (Hc : c <> OutOfFuel) end.
  { apply collect_not_oof. apply Forall_forall. intros r Hr. apply in_map_iff in Hr. destruct Hr as [x [<- _]].
    pose proof (get_idx_not_oof data (y * (w * 2) + w + x)) as G1. destruct (get_idx data (y * (w * 2) + w + x)); cbn [bind]; [|discriminate|contradiction].
    pose proof (get_idx_not_oof data (y * (w * 2) + x)) as G2. destruct (get_idx data (y * (w * 2) + x)); cbn [bind]; [discriminate|discriminate|contradiction]. }
  match goal with |- bind ?c _ <> _ => destruct c end; cbn [bind]; [discriminate|discriminate|contradiction].
Qed.
Lemma mix24_not_oof data w h : mix24 data w h <> OutOfFuel.
Proof.
  unfold mix24. apply collect_not_oof. apply Forall_forall. intros r Hr. apply in_map_iff in Hr. destruct Hr as [y [<- _]].
  match goal with |- bind ?c _ <> _ => assert (Hc : c <> OutOfFuel) end.
  { apply collect_not_oof. apply Forall_forall. intros r Hr. apply in_map_iff in Hr. destruct Hr as [x [<- _]].
    pose proof (get_idx_not_oof data (y * (w * 4) + w * 3 + x)) as G1. destruct (get_idx data (y * (w * 4) + w * 3 + x)); cbn [bind]; [|discriminate|contradiction].
    pose proof (get_idx_not_oof data (y * (w * 4) + w * 2 + x)) as G2. destruct (get_idx data (y * (w * 4) + w * 2 + x)); cbn [bind]; [|discriminate|contradiction].
    pose proof (get_idx_not_oof data (y * (w * 4) + w + x)) as G3. destruct (get_idx data (y * (w * 4) + w + x)); cbn [bind]; [discriminate|discriminate|contradiction]. }
  match goal with |- bind ?c _ <> _ => destruct c end; cbn [bind]; [discriminate|discriminate|contradiction].
Qed.

Theorem compressed16_terminates f w h width : decode_compressed16 f w h width <> OutOfFuel.
Proof.
  unfold decode_compressed16, bytearray. destruct (_ <? 0); cbn [bind]; [discriminate|].
  pose proof (loop16_not_oof f w width (S (length f)) (Build_st (zeros (Z.to_nat (width * h))) 0 (h - 1) 0)) as L.
  cbn [s_idx] in L. specialize (L ltac:(lia)). pose proof (zlen_nonneg f) as Hn.
  specialize (L ltac:(unfold zlen in *; lia)).
  destruct (loop16 _ _ _ _ _); cbn [bind]; [apply mix16_not_oof|discriminate|contradiction].
Qed.
Theorem compressed24_terminates f w h width : decode_compressed24 f w h width <> OutOfFuel.
Proof.
  unfold decode_compressed24, bytearray. destruct (_ <? 0); cbn [bind]; [discriminate|].
  pose proof (loop24_not_oof f width (S (length f)) (Build_st (zeros (Z.to_nat (width * h))) 0 (h - 1) 0)) as L.
  cbn [s_idx] in L. specialize (L ltac:(lia)). pose proof (zlen_nonneg f) as Hn.
  specialize (L ltac:(unfold zlen in *; lia)).
  destruct (loop24 _ _ _ _); cbn [bind]; [|discriminate|contradiction].
  destruct (_ <? 0); cbn [bind]; [discriminate|]. apply mix24_not_oof.
Qed.
