(* C02 / C04 for programs with counting loops: the Lingo text and the JavaScript emitted for the decompiled program
   (SpecFor.final) are the canonical layouts of the source program, "repeat with v = a to b" / "down to" and
   "for(v = a; v <= b; v++) {" included. *)
From Coq Require Import ZArith List Bool String Lia.
From DRX Require Import Py.PyBytes Py.PyStr Py.PyString Model.LingoAst Model.LingoGen Model.LingoOps Model.LingoLoop
  Spec.SpecLingo Spec.SpecText Spec.SpecJs Spec.SpecNest Spec.SpecFor Gen.Gen_Lingo
  Proofs.LingoExecFacts Proofs.LingoStmtFacts Proofs.LingoTextFacts Proofs.LingoJsFacts Proofs.LingoNestFacts Proofs.LingoNestExec
  Proofs.LingoNestText Proofs.LingoNestJs Proofs.LingoNestFor.
Import ListNotations.
Open Scope string_scope.
Open Scope list_scope.

Definition var_name (en : env) (v : nat) : string := name_of (nth v (e_locals en) (Leaf KLocal "" 0 true)).

(* ---- Lingo ---- *)
Fixpoint pp_q (en : env) (props : list string) (ind : nat) (q : prog2) : string :=
  match q with
  | QNil => ""
  | QStmt s r => indent ind ++ stmt_text en props s ++ "
" ++ pp_q en props ind r
  | QIf c a r => indent ind ++ "if " ++ cond_text en c ++ " then
" ++ pp_q en props (S ind) a ++ indent ind ++ "end if
" ++ pp_q en props ind r
  | QIfE c a eb r => indent ind ++ "if " ++ cond_text en c ++ " then
" ++ pp_q en props (S ind) a ++ indent ind ++ "else
" ++ pp_q en props (S ind) eb ++ indent ind ++ "end if
" ++ pp_q en props ind r
  | QWhile c a r => indent ind ++ "repeat while " ++ while_cond_text en c ++ "
" ++ pp_q en props (S ind) a ++ indent ind ++ "end repeat
" ++ pp_q en props ind r
  | QFor down v lo hi a r =>
    indent ind ++ "repeat with " ++ var_name en v ++ " = " ++ cond_text en lo ++ (if down then " down to " else " to ") ++ cond_text en hi ++ "
" ++ pp_q en props (S ind) a ++ indent ind ++ "end repeat
" ++ pp_q en props ind r
  | QExit _ r => indent ind ++ "exit repeat
" ++ pp_q en props ind r
  end.

Fixpoint text_ok_q (en : env) (props : list string) (q : prog2) : Prop :=
  match q with
  | QNil => True
  | QStmt s r => text_ok_s en props s /\ text_ok_q en props r
  | QIf c a r => text_ok en c /\ text_ok_q en props a /\ text_ok_q en props r
  | QIfE c a eb r => text_ok en c /\ eb <> QNil /\ text_ok_q en props a /\ text_ok_q en props eb /\ text_ok_q en props r
  | QWhile c a r => text_ok en c /\ text_ok_q en props a /\ text_ok_q en props r
  | QFor _ _ lo hi a r => text_ok en lo /\ text_ok en hi /\ text_ok_q en props a /\ text_ok_q en props r
  | QExit _ r => text_ok_q en props r
  end.

Lemma final_ne en props pc q : q <> QNil -> final_k false en props pc q <> [].
Proof. destruct q; [congruence | discriminate..]. Qed.

Theorem for_text en props : forall q, text_ok_q en props q -> forall pc ind,
  text_of (final en props pc q) ind = pp_q en props ind q.
Proof.
  unfold final, text_of.
  induction q as [|s r IH|c a IHa r IHr|c a IHa eb IHe r IHr|c a IHa r IHr|down v lo hi a IHa r IHr|xoff r IH]; intros Hok pc ind.
  - reflexivity.
  - destruct Hok as [Hs Hr]. cbn [final_k map concat_all pp_q]. rewrite (stmt_line en props s Hs pc ind), (IH Hr).
    repeat rewrite sappend_assoc. reflexivity.
  - destruct Hok as (Hc & Ha & Hr). cbn [final_k map concat_all pp_q].
    unfold gen_lingo. cbn [gen_lingo_sp].
    pose proof (gen_lingo_is_render en c Hc pc 0%nat) as Ec. unfold gen_lingo in Ec. rewrite Ec.
    pose proof (IHa Ha (pc + zlen (compile_e c) + 3)%Z (S ind)) as Ea. unfold gen_lingo in Ea. rewrite Ea.
    pose proof (IHr Hr (pc + zlen (compile_e c) + 3 + zlen (code2 a))%Z ind) as Er. unfold gen_lingo in Er. rewrite Er.
    unfold cond_text. repeat rewrite sappend_assoc. reflexivity.
  - destruct Hok as (Hc & Hne & Ha & He & Hr). cbn [final_k map concat_all pp_q].
    unfold gen_lingo. cbn [gen_lingo_sp].
    pose proof (gen_lingo_is_render en c Hc pc 0%nat) as Ec. unfold gen_lingo in Ec. rewrite Ec.
    pose proof (IHa Ha (pc + zlen (compile_e c) + 3)%Z (S ind)) as Ea. unfold gen_lingo in Ea. rewrite Ea.
    pose proof (IHe He (pc + zlen (compile_e c) + 3 + zlen (code2 a) + 3)%Z (S ind)) as Ee. unfold gen_lingo in Ee.
    pose proof (IHr Hr (pc + zlen (compile_e c) + 3 + zlen (code2 a) + 3 + zlen (code2 eb))%Z ind) as Er. unfold gen_lingo in Er. rewrite Er.
    destruct (final_k false en props (pc + zlen (compile_e c) + 3 + zlen (code2 a) + 3) eb) as [|x xs] eqn:Ex;
      [exfalso; exact (final_ne en props _ eb Hne Ex)|].
    rewrite Ee. unfold cond_text. repeat rewrite sappend_assoc. reflexivity.
  - destruct Hok as (Hc & Ha & Hr). cbn [final_k map concat_all pp_q].
    unfold gen_lingo, loop_stmt. cbn [gen_lingo_sp].
    pose proof (gen_lingo_is_render en c Hc pc 0%nat) as Ec. unfold gen_lingo in Ec. rewrite Ec.
    pose proof (IHa Ha (pc + zlen (compile_e c) + 3)%Z (S ind)) as Ea. unfold gen_lingo in Ea. rewrite Ea.
    pose proof (IHr Hr (pc + zlen (compile_e c) + 3 + zlen (code2 a) + 2)%Z ind) as Er. unfold gen_lingo in Er. rewrite Er.
    change (String.eqb "while" "while") with true. cbn iota.
    unfold while_cond_text, cond_text. repeat rewrite sappend_assoc. reflexivity.
  - destruct Hok as (Hlo & Hhi & Ha & Hr). cbn [final_k map concat_all pp_q app].
    unfold gen_lingo. cbn [gen_lingo_sp].
    change (String.eqb "for" "while") with false. change (String.eqb "for" "for") with true. cbn iota.
    pose proof (gen_lingo_is_render en lo Hlo pc 0%nat) as Elo. unfold gen_lingo in Elo. rewrite Elo.
    pose proof (gen_lingo_is_render en hi Hhi (pc + zlen (compile_s (for_init v lo)) + 2)%Z 0%nat) as Ehi. unfold gen_lingo in Ehi. rewrite Ehi.
    match goal with |- context [map (fun st => gen_lingo_sp false st (S ind)) (final_k false en props ?x a)] =>
      pose proof (IHa Ha x (S ind)) as Ea end. unfold gen_lingo in Ea. rewrite Ea.
    match goal with |- context [map (fun st => gen_lingo_sp false st ind) (final_k false en props ?x r)] =>
      pose proof (IHr Hr x ind) as Er end. unfold gen_lingo in Er. rewrite Er.
    unfold cond_text, var_name. destruct down; cbn [String.eqb]; repeat rewrite sappend_assoc; reflexivity.
  - cbn [final_k map concat_all pp_q text_ok_q] in *. rewrite (IH Hok). unfold gen_lingo. cbn [gen_lingo_sp].
    repeat rewrite sappend_assoc. reflexivity.
Qed.
Print Assumptions for_text.

(* ---- JavaScript ---- *)
Fixpoint pp_js_q (fm : bool) (en : env) (props : list string) (ind : nat) (q : prog2) : string :=
  match q with
  | QNil => ""
  | QStmt s r => js_line ind (js_stmt_text fm en props s) ++ pp_js_q fm en props ind r
  | QIf c a r => indent ind ++ "if " ++ js_cond fm en c ++ " {
" ++ pp_js_q fm en props (S ind) a ++ indent ind ++ "}
" ++ pp_js_q fm en props ind r
  | QIfE c a eb r => indent ind ++ "if " ++ js_cond fm en c ++ " {
" ++ pp_js_q fm en props (S ind) a ++ indent ind ++ "} else {
" ++ pp_js_q fm en props (S ind) eb ++ indent ind ++ "}
" ++ pp_js_q fm en props ind r
  | QWhile c a r => indent ind ++ "while " ++ js_cond fm en c ++ " {
" ++ pp_js_q fm en props (S ind) a ++ indent ind ++ "}
" ++ pp_js_q fm en props ind r
  | QFor down v lo hi a r =>
    indent ind ++ "for(" ++ var_name en v ++ " = " ++ pp_js (to_js fm en lo) ++ "; " ++
    strip_ends (js_cond fm en (for_cond down v hi)) ++ "; " ++ var_name en v ++ (if down then "--" else "++") ++ ") {
" ++ pp_js_q fm en props (S ind) a ++ indent ind ++ "}
" ++ pp_js_q fm en props ind r
  | QExit _ r => js_line ind "break" ++ pp_js_q fm en props ind r
  end.

Fixpoint js_ok_q (en : env) (props : list string) (q : prog2) : Prop :=
  match q with
  | QNil => True
  | QStmt s r => js_ok_s en props s /\ js_ok_q en props r
  | QIf c a r => js_ok en c /\ js_ok_q en props a /\ js_ok_q en props r
  | QIfE c a eb r => js_ok en c /\ eb <> QNil /\ js_ok_q en props a /\ js_ok_q en props eb /\ js_ok_q en props r
  | QWhile c a r => js_ok en c /\ js_ok_q en props a /\ js_ok_q en props r
  | QFor down v lo hi a r => js_ok en lo /\ js_ok en (for_cond down v hi) /\ js_ok_q en props a /\ js_ok_q en props r
  | QExit _ r => js_ok_q en props r
  end.

Theorem for_js fm en props : forall q, js_ok_q en props q -> forall pc ind,
  js_of (final en props pc q) ind fm = pp_js_q fm en props ind q.
Proof.
  unfold final, js_of.
  induction q as [|s r IH|c a IHa r IHr|c a IHa eb IHe r IHr|c a IHa r IHr|down v lo hi a IHa r IHr|xoff r IH]; intros Hok pc ind.
  - reflexivity.
  - destruct Hok as [Hs Hr]. cbn [final_k map concat_all pp_js_q]. rewrite (js_stmt_line fm en props s Hs pc ind), (IH Hr). reflexivity.
  - destruct Hok as (Hc & Ha & Hr). cbn [final_k map concat_all pp_js_q gen_js].
    rewrite (gen_js_is_pp fm en c Hc pc 0%nat), (wrap_paren_reify fm en pc c Hc). rewrite (IHa Ha), (IHr Hr).
    repeat rewrite <- sappend_assoc. rewrite ends_with_brace. repeat rewrite sappend_assoc. reflexivity.
  - destruct Hok as (Hc & Hne & Ha & He & Hr). cbn [final_k map concat_all pp_js_q gen_js].
    rewrite (gen_js_is_pp fm en c Hc pc 0%nat), (wrap_paren_reify fm en pc c Hc). rewrite (IHa Ha), (IHr Hr).
    pose proof (IHe He (pc + zlen (compile_e c) + 3 + zlen (code2 a) + 3)%Z (S ind)) as Ee.
    destruct (final_k false en props (pc + zlen (compile_e c) + 3 + zlen (code2 a) + 3) eb) as [|x xs] eqn:Ex;
      [exfalso; exact (final_ne en props _ eb Hne Ex)|].
    rewrite Ee. repeat rewrite <- sappend_assoc. rewrite ends_with_brace. repeat rewrite sappend_assoc. reflexivity.
  - destruct Hok as (Hc & Ha & Hr). cbn [final_k map concat_all pp_js_q]. unfold loop_stmt. cbn [gen_js].
    rewrite (gen_js_is_pp fm en c Hc pc 0%nat), (wrap_paren_reify fm en pc c Hc). rewrite (IHa Ha), (IHr Hr).
    change (String.eqb "while" "while") with true. cbn iota.
    repeat rewrite <- sappend_assoc. rewrite ends_with_brace. repeat rewrite sappend_assoc. reflexivity.
  - destruct Hok as (Hlo & Hc & Ha & Hr). cbn [final_k map concat_all pp_js_q app]. cbn [gen_js].
    change (String.eqb "for" "while") with false. change (String.eqb "for" "for") with true. cbn iota.
    rewrite (gen_js_is_pp fm en lo Hlo pc 0%nat).
    rewrite (gen_js_is_pp fm en (for_cond down v hi) Hc _ 0%nat), (wrap_paren_reify fm en _ (for_cond down v hi) Hc).
    rewrite (IHa Ha), (IHr Hr).
    unfold var_name. destruct down; cbn [String.eqb];
      repeat rewrite <- sappend_assoc; rewrite ends_with_brace; repeat rewrite sappend_assoc; reflexivity.
  - cbn [final_k map concat_all pp_js_q js_ok_q] in *. rewrite (IH Hok). reflexivity.
Qed.
Print Assumptions for_js.
