(* C04: for the expression core the emitted JavaScript is the print of the JavaScript tree to_js e. *)
From Coq Require Import ZArith List Bool String Lia.
From DRX Require Import Py.PyBytes Py.PyStr Py.PyString Model.LingoAst Model.LingoGen Model.LingoOps Spec.SpecLingo Spec.SpecJs
  Gen.Gen_Lingo Proofs.LingoExecFacts Proofs.StrIntFacts.
Import ListNotations.
Open Scope string_scope.
Open Scope list_scope.
Local Notation length := List.length (only parsing).

Lemma js_ok_args_eq en : forall l,
  (fix all (l : list expr) : Prop := match l with [] => True | x :: r => js_ok en x /\ all r end) l = js_ok_args en l.
Proof. induction l as [|x r IH]; cbn [js_ok_args]; [reflexivity|]. rewrite IH. reflexivity. Qed.

Lemma plain_not (nm s : string) : mem_str nm ["birth"; "new"; "go"; "cast"; "continue"; "return"; "me"] = false ->
  In s ["birth"; "new"; "go"; "cast"; "continue"; "return"; "me"] -> String.eqb nm s = false.
Proof.
  cbn [mem_str]. intros H Hin. repeat (apply orb_false_iff in H; destruct H as [? H]).
  cbn [In] in Hin. repeat (destruct Hin as [<-|Hin]; [assumption|]). contradiction.
Qed.

Lemma js_call_plain nm it fm strs ln ops :
  plain_call_name nm = true -> js_call nm it fm true strs ln (go_sym nm ops) = (nm ++ "(" ++ join ", " (rev strs) ++ ")")%string.
Proof.
  unfold plain_call_name. intros H. apply andb_true_iff in H. destruct H as [H _]. apply negb_true_iff in H.
  unfold js_call, js_call_code.
  rewrite (plain_not nm "birth" H) by (cbn; tauto). rewrite (plain_not nm "new" H) by (cbn; tauto).
  rewrite (plain_not nm "go" H) by (cbn; tauto). rewrite (plain_not nm "cast" H) by (cbn; tauto).
  rewrite (plain_not nm "continue" H) by (cbn; tauto). rewrite (plain_not nm "me" H) by (cbn; tauto).
  rewrite (plain_not nm "return" H) by (cbn; tauto). rewrite andb_false_r. reflexivity.
Qed.

Lemma gv_none nm ops : plain_call_name nm = true -> gv_sym_name nm ops = None.
Proof.
  unfold plain_call_name. intros H. apply andb_true_iff in H. destruct H as [_ H]. apply negb_true_iff in H.
  unfold gv_sym_name. destruct (rev ops) as [|x r]; [reflexivity|]. destruct x; try reflexivity. destruct k; try reflexivity.
  rewrite H. reflexivity.
Qed.

Definition PJs (fm : bool) (en : env) (e : expr) : Prop :=
  js_ok en e -> forall pc ind, gen_js (reify_e en pc e) ind fm = pp_js (to_js fm en e).
Definition PJsArgs (fm : bool) (en : env) (l : list expr) : Prop :=
  js_ok_args en l -> forall pc ind, map (fun n => gen_js n ind fm) (fst (reify_args en pc l)) = map (fun e => pp_js (to_js fm en e)) l.

Lemma js_list_strs fm en l : PJsArgs fm en l -> js_ok_args en l -> forall pc ind,
  rev (map (fun x => gen_js x ind fm) (rev (fst (reify_args en pc l)))) = map pp_js (map (to_js fm en) l).
Proof.
  intros H Hok pc ind. rewrite map_rev, rev_involutive. rewrite (H Hok pc ind). rewrite map_map. reflexivity.
Qed.

Lemma js_receiver_reify en pc x s : js_ok en x ->
  js_receiver (reify_e en pc x) s = if needs_paren en x then ("(" ++ s ++ ")")%string else s.
Proof.
  destruct x as [n|k|n|i|i|n|n|o a b|a|a|f args|f args|items|items|fam pid a|pid it mn|tk ti|tn|an ax|kn|fx]; intros Hok; cbn [reify_e needs_paren js_receiver]; try reflexivity.
  - rewrite str_of_int_no_quote. reflexivity.
  - destruct (nth k (e_consts en) (CInt 0)); cbn [const_node js_receiver]; [|rewrite str_of_int_no_quote; reflexivity].
    match goal with |- context[starts_with ?q ?t] => destruct (starts_with q t) end; reflexivity.
  - cbn [js_ok] in Hok. destruct (nth i (e_locals en) (Leaf KLocal "" 0 true)) as [k nme p fl| | | | | | | | | | | | | | | | | | | | | |]; try contradiction. destruct k; try contradiction. reflexivity.
  - rewrite reify_args_eq. destruct (reify_args en pc args); reflexivity.
  - rewrite reify_args_eq. destruct (reify_args en pc args); reflexivity.
  - rewrite reify_args_eq. destruct (reify_args en pc items); reflexivity.
  - rewrite reify_args_eq. destruct (reify_args en pc items); reflexivity.
  - destruct fam; reflexivity.
  - destruct tk; try reflexivity; unfold the_node; destruct (String.eqb _ "perFrameHook"); reflexivity.
  - unfold the_name_node. destruct (assoc_str (nm en tn) ASSIGN_KNOWN_PROPERTIES); reflexivity.
Qed.

(* ---- object properties ---- *)
Lemma sapp_assoc (a b c : string) : ((a ++ b) ++ c)%string = (a ++ (b ++ c))%string.
Proof. induction a as [|ch a IH]; simpl; [reflexivity|]. rewrite IH. reflexivity. Qed.

Lemma is_const_reify_js en pc x : js_ok en x ->
  is_const_node (reify_e en pc x) = match x with EInt _ | EConst _ => true | _ => false end.
Proof.
  destruct x; intros Hok; cbn [reify_e]; try reflexivity.
  - destruct (nth k (e_consts en) (CInt 0)); reflexivity.
  - cbn [js_ok] in Hok. destruct (nth i (e_locals en) (Leaf KLocal "" 0 true)); try contradiction. destruct k; try contradiction. reflexivity.
  - match goal with |- context [let '(a, b) := ?X in _] => destruct X end; reflexivity.
  - match goal with |- context [let '(a, b) := ?X in _] => destruct X end; reflexivity.
  - match goal with |- context [let '(a, b) := ?X in _] => destruct X end; reflexivity.
  - match goal with |- context [let '(a, b) := ?X in _] => destruct X end. destruct items; reflexivity.
  - destruct f; reflexivity.
  - destruct k; try reflexivity; unfold the_node; destruct (String.eqb _ "perFrameHook"); reflexivity.
  - unfold the_name_node. destruct (assoc_str (nm en n) ASSIGN_KNOWN_PROPERTIES); reflexivity.
Qed.

Lemma objref_js fm en pc x : PJs fm en x -> js_ok en x -> forall k po ind,
  gen_js (ObjRef k (name_of (reify_e en pc x)) po (reify_e en pc x)) ind fm = js_leaf k (pp_js (js_raw_or en x (to_js fm en x))) fm.
Proof.
  intros HP Hok k po ind. cbn [gen_js]. rewrite (is_const_reify_js en pc x Hok).
  destruct x; cbn [js_raw_or]; try (f_equal; exact (HP Hok pc ind)).
  - cbn [reify_e pp_js]. unfold raw_const. destruct (nth k0 (e_consts en) (CInt 0)); reflexivity.
Qed.

Lemma accessor_js p obj prop ind fm o : gen_js obj ind fm = o -> String.eqb o "tell_obj" = false ->
  gen_js (Accessor p obj prop) ind fm = (o ++ "." ++ prop)%string.
Proof. intros E H. cbn [gen_js]. rewrite E, H. reflexivity. Qed.
Lemma unary_js nm p obj ind fm o : gen_js obj ind fm = o -> gen_js (Unary nm p obj) ind fm = (js_una nm ++ "(" ++ o ++ ")")%string.
Proof. intros E. cbn [gen_js]. rewrite E. reflexivity. Qed.
Lemma ustrop_last_js p t obj ind fm o : gen_js obj ind fm = o ->
  gen_js (UStrOp "last" p (Some t) obj) ind fm = (o ++ "." ++ t ++ "[""" ++ js_una "last" ++ """]")%string.
Proof. intros E. cbn [gen_js]. rewrite E. reflexivity. Qed.
Lemma ustrop_number_js p t obj ind fm o : gen_js obj ind fm = o ->
  gen_js (UStrOp "number" p (Some t) obj) ind fm = (o ++ "." ++ t ++ "." ++ js_una "number")%string.
Proof. intros E. cbn [gen_js]. rewrite E. reflexivity. Qed.
Lemma ustrop_none_js nm p obj ind fm o : gen_js obj ind fm = o -> (match obj with Leaf _ _ _ _ => False | _ => True end) ->
  gen_js (UStrOp nm p None obj) ind fm = (o ++ "." ++ js_una nm)%string.
Proof. intros E H. cbn [gen_js]. destruct obj; try contradiction; destruct (name_is _ "menus"); rewrite E; reflexivity. Qed.
Lemma menuitems_js p m ind fm o : gen_js m 0%nat fm = o -> gen_js (MenuItemsAcc p m) ind fm = (o ++ ".item")%string.
Proof. intros E. cbn [gen_js]. rewrite E. reflexivity. Qed.
Lemma menuitem_js p m i ind fm om oi : gen_js m 0%nat fm = om -> gen_js i 0%nat fm = oi ->
  gen_js (MenuItemAcc p m i) ind fm = (om ++ "." ++ oi)%string.
Proof. intros E1 E2. cbn [gen_js]. rewrite E1, E2. reflexivity. Qed.

Lemma append_nil_r0 s : (s ++ "")%string = s.
Proof. induction s as [|c s IH]; simpl; [reflexivity|]. rewrite IH. reflexivity. Qed.
Lemma sys_owners_table : forallb (fun p : string * string => sys_owner_ok (snd p)) SYSTEM_PROPERTIES = true.
Proof. vm_compute. reflexivity. Qed.
Lemma assoc_in0 (k : string) (t : list (string * string)) v : assoc_str k t = Some v -> In (k, v) t.
Proof.
  induction t as [|[k' v'] t IH]; simpl; [discriminate|].
  destruct (String.eqb k k') eqn:E; intros H.
  - injection H as <-. apply String.eqb_eq in E. subst. left. reflexivity.
  - right. auto.
Qed.
Lemma assign_owners_table : forallb (fun p : string * string => sys_owner_ok (snd p)) ASSIGN_KNOWN_PROPERTIES = true.
Proof. vm_compute. reflexivity. Qed.
Lemma sys_owner name : sys_owner_ok (assoc_or name SYSTEM_PROPERTIES) = true.
Proof.
  unfold assoc_or. destruct (assoc_str name SYSTEM_PROPERTIES) as [v|] eqn:E; [|reflexivity].
  exact (proj1 (forallb_forall _ _) sys_owners_table _ (assoc_in0 _ _ _ E)).
Qed.

Theorem gen_js_is_pp fm en : forall e, PJs fm en e.
Proof.
  apply (expr_ind2 (PJs fm en) (PJsArgs fm en)); unfold PJs.
  - intros n _ pc ind. reflexivity.
  - intros k _ pc ind. cbn [reify_e to_js]. destruct (nth k (e_consts en) (CInt 0)); reflexivity.
  - intros n _ pc ind. reflexivity.
  - intros i Hok pc ind. cbn [reify_e to_js js_ok] in *. destruct (nth i (e_locals en) (Leaf KLocal "" 0 true)); try contradiction.
    destruct k; try contradiction. cbn [gen_js js_leaf name_of]. unfold js_var. destruct (fm && String.eqb name "me"); reflexivity.
  - intros i _ pc ind. cbn [reify_e to_js gen_js js_leaf]. unfold js_var.
    destruct (fm && String.eqb (name_of (nth i (e_params en) (Leaf KParam "" 0 true))) "me"); reflexivity.
  - intros n _ pc ind. reflexivity.
  - intros n _ pc ind. reflexivity.
  - intros o x y IHx IHy [Hx Hy] pc ind. cbn [reify_e to_js gen_js]. rewrite (IHx Hx), (IHy Hy), (js_receiver_reify en pc x _ Hx).
    unfold js_recv. destruct o; try reflexivity; cbn [js_binop]; destruct (needs_paren en x); reflexivity.
  - intros x IHx Hx pc ind. cbn [reify_e to_js gen_js]. rewrite (IHx Hx). reflexivity.
  - intros x IHx Hx pc ind. cbn [reify_e to_js gen_js]. rewrite (IHx Hx). reflexivity.
  - intros f l IHl [Hp Hl] pc ind. rewrite js_ok_args_eq in Hl. cbn [reify_e to_js]. rewrite reify_args_eq.
    destruct (reify_args en pc l) as [ns pa] eqn:Er. cbn [gen_js].
    rewrite (gv_none _ _ Hp). cbn [option_map set_last]. rewrite (js_call_plain _ _ _ _ _ _ Hp).
    pose proof (js_list_strs fm en l IHl Hl pc ind) as E. rewrite Er in E. cbn [fst] in E. rewrite E. reflexivity.
  - intros f l IHl [Hp Hl] pc ind. rewrite js_ok_args_eq in Hl. cbn [reify_e to_js]. rewrite reify_args_eq.
    destruct (reify_args en pc l) as [ns pa] eqn:Er. cbn [gen_js].
    rewrite (gv_none _ _ Hp). cbn [option_map set_last]. rewrite (js_call_plain _ _ _ _ _ _ Hp).
    pose proof (js_list_strs fm en l IHl Hl pc ind) as E. rewrite Er in E. cbn [fst] in E. rewrite E. reflexivity.
  - intros l IHl Hl pc ind. cbn [js_ok] in Hl. rewrite js_ok_args_eq in Hl. cbn [reify_e to_js]. rewrite reify_args_eq.
    destruct (reify_args en pc l) as [ns pa] eqn:Er. cbn [gen_js].
    pose proof (js_list_strs fm en l IHl Hl pc ind) as E. rewrite Er in E. cbn [fst] in E. rewrite E. reflexivity.
  - intros l IHl Hl pc ind. cbn [js_ok] in Hl. rewrite js_ok_args_eq in Hl. cbn [reify_e to_js]. rewrite reify_args_eq.
    destruct (reify_args en pc l) as [ns pa] eqn:Er. cbn [gen_js].
    pose proof (js_list_strs fm en l IHl Hl pc ind) as E. rewrite Er in E. cbn [fst] in E. rewrite E. reflexivity.
  - (* object properties *) intros f pid x IHx [Hx Hf] pc ind. cbn [reify_e to_js].
    pose proof (objref_js fm en pc x IHx Hx) as Hid. pose proof (IHx Hx pc) as Hg.
    destruct f; cbn [obj_node fclass].
    + erewrite accessor_js; [|apply Hid|reflexivity]. reflexivity.
    + erewrite accessor_js; [|apply Hid|reflexivity]. reflexivity.
    + erewrite accessor_js; [|apply Hid|reflexivity]. reflexivity.
    + erewrite accessor_js; [|apply Hid|reflexivity]. reflexivity.
    + erewrite accessor_js; [|apply unary_js; apply Hg|reflexivity]. reflexivity.
    + erewrite ustrop_last_js; [|apply Hg]. cbn [pp_js]. repeat rewrite sapp_assoc. reflexivity.
    + erewrite ustrop_number_js; [|apply Hg]. cbn [pp_js]. repeat rewrite sapp_assoc. reflexivity.
    + erewrite ustrop_none_js; [|apply Hid|exact I]. reflexivity.
    + erewrite ustrop_none_js; [|apply menuitems_js; apply Hid|exact I]. cbn [pp_js js_leaf]. repeat rewrite sapp_assoc. reflexivity.
  - (* menu item properties *) intros pid it mn IHi IHm [Hi Hm] pc ind. cbn [reify_e to_js].
    erewrite accessor_js; [|apply menuitem_js; [apply (objref_js fm en _ mn IHm Hm)|apply (objref_js fm en pc it IHi Hi)]|reflexivity].
    cbn [pp_js js_leaf]. repeat rewrite sapp_assoc. reflexivity.
  - (* the <special / date-time / system property> *) intros k i Hok pc ind. cbn [reify_e to_js].
    destruct k; cbn [the_node the_table]; try reflexivity; try (destruct Hok; fail).
    { cbn [gen_js js_leaf pp_js map]. unfold join. cbn [concat_all map]. repeat rewrite sapp_assoc. rewrite ?append_nil_r0. reflexivity. }
    pose proof (sys_owner (nth i (map fst SYSTEM_PROPERTIES) "")) as Ho. unfold sys_owner_ok in Ho.
    apply andb_true_iff in Ho. destruct Ho as [Ho _]. apply andb_true_iff in Ho. destruct Ho as [Hme Htell].
    apply negb_true_iff in Hme. apply negb_true_iff in Htell.
    erewrite accessor_js; [reflexivity | | exact Htell]. cbn [gen_js js_leaf]. rewrite Hme, andb_false_r. reflexivity.
  - (* the <name> *) intros n _ pc ind. cbn [reify_e to_js]. unfold the_name_node.
    destruct (assoc_str (nm en n) ASSIGN_KNOWN_PROPERTIES) as [o|] eqn:E; [|reflexivity].
    pose proof (proj1 (forallb_forall _ _) assign_owners_table _ (assoc_in0 _ _ _ E)) as Ho. cbn [snd] in Ho. unfold sys_owner_ok in Ho.
    apply andb_true_iff in Ho. destruct Ho as [Ho _]. apply andb_true_iff in Ho. destruct Ho as [Hme Htell].
    apply negb_true_iff in Hme. apply negb_true_iff in Htell.
    erewrite accessor_js; [reflexivity | | exact Htell]. cbn [gen_js js_leaf]. rewrite Hme, andb_false_r. reflexivity.
  - intros n x _ [].
  - (* key / mouse / date property *) intros n _ pc ind. cbn [reify_e to_js gen_js].
    destruct (String.eqb (nm en n) "date" || String.eqb (nm en n) "time").
    + cbn [pp_js map]. unfold join. repeat rewrite sapp_assoc. reflexivity.
    + destruct (assoc_str (nm en n) OPERATION_KNOWN_PROPERTIES); reflexivity.
  - (* field *) intros x IHx Hx pc ind. cbn [reify_e to_js gen_js]. rewrite (IHx Hx). reflexivity.
  - intros _ pc ind. reflexivity.
  - intros x l IHx IHl [Hx Hl] pc ind. cbn [reify_args]. destruct (reify_args en (pc + zlen (compile_e x)) l) as [ns pa] eqn:Er.
    cbn [fst map]. rewrite (IHx Hx). specialize (IHl Hl (pc + zlen (compile_e x))%Z ind). rewrite Er in IHl. cbn [fst] in IHl. rewrite IHl. reflexivity.
Qed.
Print Assumptions gen_js_is_pp.

(* ---- the JavaScript tree can be read back: it denotes the source expression ---- *)
Lemma binop_of_js o : binop_of (js_binop o) = Some o.
Proof. destruct o; reflexivity. Qed.

Lemma owners_not_global : forallb (fun p : string * string => negb (String.eqb (snd p) "_global")) VARIABLE_KNOWN_PROPERTIES = true.
Proof. vm_compute. reflexivity. Qed.
Lemma assoc_in (k : string) (t : list (string * string)) v : assoc_str k t = Some v -> In (k, v) t.
Proof.
  induction t as [|[k' v'] t IH]; simpl; [discriminate|].
  destruct (String.eqb k k') eqn:E; intros H.
  - injection H as <-. apply String.eqb_eq in E. subst. left. reflexivity.
  - right. auto.
Qed.

Lemma all_some_map (f : expr -> nexpr) (g : expr -> js) l :
  Forall (fun e => read_js (g e) = Some (f e)) l -> all_some_n (map read_js (map g l)) = Some (map f l).
Proof. induction 1 as [|x l H _ IH]; simpl; [reflexivity|]. rewrite H, IH. reflexivity. Qed.

(* no expression is written as an element of the menu bar: x.item.length is read as a chunk count unless x is _menuBar.menu[..] *)
Lemma not_menubar_idx fm en x : match to_js fm en x with JIdx m0 _ => is_menubar m0 = false | _ => True end.
Proof.
  destruct x; cbn [to_js]; try exact I.
  - destruct (nth k (e_consts en) (CInt 0)); exact I.
  - unfold js_var. destruct (fm && _); exact I.
  - unfold js_var. destruct (fm && _); exact I.
  - destruct (js_binop o); unfold js_recv; try destruct (needs_paren en x1); exact I.
  - destruct f; try exact I. reflexivity.
  - destruct k; exact I.
  - destruct (assoc_str (nm en n) ASSIGN_KNOWN_PROPERTIES); exact I.
  - destruct (String.eqb (nm en n) "date" || String.eqb (nm en n) "time"); exact I.
Qed.
Lemma read_count j t : (match j with JIdx m0 _ => is_menubar m0 = false | _ => True end) ->
  read_js (JDot (JDot j t) (js_una "number")) = option_map (NChunkCount t) (read_js j).
Proof. intros H. cbn [read_js]. rewrite String.eqb_refl. destruct j; try reflexivity. rewrite H. reflexivity. Qed.
Lemma read_raw fm en x : read_js (to_js fm en x) = Some (name_e fm en x) ->
  read_js (js_raw_or en x (to_js fm en x)) = Some (n_raw_or en x (name_e fm en x)).
Proof. intros H. destruct x; try exact H; reflexivity. Qed.

Theorem read_to_js fm en : forall e, read_js (to_js fm en e) = Some (name_e fm en e).
Proof.
  apply (expr_ind2 (fun e => read_js (to_js fm en e) = Some (name_e fm en e))
                   (fun l => Forall (fun e => read_js (to_js fm en e) = Some (name_e fm en e)) l)).
  - reflexivity.
  - intros k. cbn [to_js name_e]. destruct (nth k (e_consts en) (CInt 0)); reflexivity.
  - reflexivity.
  - intros i. cbn [to_js name_e]. unfold js_var. destruct (fm && String.eqb _ "me"); reflexivity.
  - intros i. cbn [to_js name_e]. unfold js_var. destruct (fm && String.eqb _ "me"); reflexivity.
  - reflexivity.
  - intros n. cbn [to_js name_e]. unfold js_prop. cbn [read_js].
    destruct (assoc_str (nm en n) VARIABLE_KNOWN_PROPERTIES) as [o|] eqn:E.
    + pose proof (proj1 (forallb_forall _ _) owners_not_global _ (assoc_in _ _ _ E)) as H. cbn [snd] in H.
      apply negb_true_iff in H. rewrite H. reflexivity.
    + destruct fm; reflexivity.
  - intros o x y Hx Hy. cbn [to_js name_e]. pose proof (binop_of_js o) as Hb.
    destruct (js_binop o) eqn:Eo; cbn [read_js]; unfold js_recv; try destruct (needs_paren en x); cbn [read_js]; rewrite Hb, Hx, Hy; reflexivity.
  - intros x Hx. cbn [to_js name_e read_js]. rewrite Hx. reflexivity.
  - intros x Hx. cbn [to_js name_e read_js]. rewrite Hx. reflexivity.
  - intros f l Hl. cbn [to_js name_e read_js]. rewrite (all_some_map (name_e fm en) (to_js fm en) l Hl). reflexivity.
  - intros f l Hl. cbn [to_js name_e read_js]. rewrite (all_some_map (name_e fm en) (to_js fm en) l Hl). reflexivity.
  - intros l Hl. cbn [to_js name_e read_js]. rewrite (all_some_map (name_e fm en) (to_js fm en) l Hl). reflexivity.
  - intros l Hl. cbn [to_js name_e read_js]. rewrite (all_some_map (name_e fm en) (to_js fm en) l Hl). reflexivity.
  - intros f pid x Hx. pose proof (read_raw fm en x Hx) as Hr. cbn [to_js name_e].
    destruct f.
    + cbn [read_js]. change (obj_kind "sound") with true. cbn iota. rewrite Hr. reflexivity.
    + cbn [read_js]. change (obj_kind "sprite") with true. cbn iota. rewrite Hr. reflexivity.
    + cbn [read_js]. change (obj_kind "member") with true. cbn iota. rewrite Hr. reflexivity.
    + cbn [read_js]. change (obj_kind "member") with true. cbn iota. rewrite Hr. reflexivity.
    + cbn [read_js]. change (obj_kind "field") with true. cbn iota. rewrite Hx. reflexivity.
    + cbn [read_js]. rewrite String.eqb_refl, Hx. reflexivity.
    + rewrite (read_count _ _ (not_menubar_idx fm en x)), Hx. reflexivity.
    + cbn [read_js]. change (is_menubar js_menubar) with true. cbn iota. rewrite String.eqb_refl, Hr. reflexivity.
    + cbn [read_js]. rewrite String.eqb_refl. change (is_menubar js_menubar) with true. change (String.eqb "item" "item") with true.
      cbn [andb]. rewrite Hr. reflexivity.
  - intros pid it mn Hi Hm. pose proof (read_raw fm en it Hi) as Hri. pose proof (read_raw fm en mn Hm) as Hrm.
    cbn [to_js name_e read_js]. change (is_menubar (JDot (JIdx js_menubar (js_raw_or en mn (to_js fm en mn))) "item")) with false.
    cbn iota. change (is_menubar js_menubar) with true. change (String.eqb "item" "item") with true. cbn [andb].
    rewrite Hri, Hrm. reflexivity.
  - intros k i. cbn [to_js name_e]. destruct k.
    + unfold js_prop. cbn [read_js].
      destruct (assoc_str (nth i (the_table TSpecial) "") VARIABLE_KNOWN_PROPERTIES) as [o|] eqn:E.
      * pose proof (proj1 (forallb_forall _ _) owners_not_global _ (assoc_in _ _ _ E)) as H. cbn [snd] in H.
        apply negb_true_iff in H. rewrite H. reflexivity.
      * destruct fm; reflexivity.
    + reflexivity.
    + cbn [read_js]. destruct (String.eqb _ "_global"); reflexivity.
    + reflexivity.
  - intros n. cbn [to_js name_e]. destruct (assoc_str (nm en n) ASSIGN_KNOWN_PROPERTIES) as [o|]; [cbn [read_js]; destruct (String.eqb o "_global"); reflexivity|].
    unfold js_prop. cbn [read_js].
    destruct (assoc_str (nm en n) VARIABLE_KNOWN_PROPERTIES) as [o|] eqn:E.
    + pose proof (proj1 (forallb_forall _ _) owners_not_global _ (assoc_in _ _ _ E)) as H. cbn [snd] in H.
      apply negb_true_iff in H. rewrite H. reflexivity.
    + destruct fm; reflexivity.
  - intros n x _. reflexivity.
  - intros n. cbn [to_js name_e]. destruct (String.eqb (nm en n) "date" || String.eqb (nm en n) "time"); [reflexivity|].
    cbn [read_js]. destruct (String.eqb _ "_global"); reflexivity.
  - intros x Hx. cbn [to_js name_e read_js]. rewrite Hx. reflexivity.
  - constructor.
  - intros x l Hx Hl. constructor; assumption.
Qed.
Print Assumptions read_to_js.
