(* str(int) never starts with a double quote: its bytes are "-" and decimal digits *)
From Coq Require Import ZArith List Bool String Lia.
From Coq.Strings Require Import Byte Ascii.
From DRX Require Import Py.PyBytes Py.PyStr Py.PyString.
Import ListNotations.
Open Scope Z_scope.

Definition nq (b : byte) : Prop := b <> x22.
Lemma digit_nq d : 0 <= d < 10 -> nq (digit d).
Proof.
  intros H. assert (E : d = 0 \/ d = 1 \/ d = 2 \/ d = 3 \/ d = 4 \/ d = 5 \/ d = 6 \/ d = 7 \/ d = 8 \/ d = 9) by lia.
  unfold nq. repeat (destruct E as [->|E]; [vm_compute; discriminate|]). subst. vm_compute. discriminate.
Qed.
Lemma dec_nq fuel : forall n acc, 0 <= n -> Forall nq acc -> Forall nq (dec_pos_fuel fuel n acc).
Proof.
  induction fuel as [|f IH]; intros n acc Hn Ha; cbn [dec_pos_fuel]; [exact Ha|].
  destruct (n <? 10) eqn:E.
  - constructor; [apply digit_nq; lia|exact Ha].
  - apply IH; [apply Z.div_pos; lia|]. constructor; [apply digit_nq; apply Z.mod_pos_bound; lia|exact Ha].
Qed.
Lemma str_of_Z_nq z : Forall nq (str_of_Z z).
Proof.
  unfold str_of_Z. destruct (z <? 0) eqn:E.
  - constructor; [unfold nq; discriminate|]. apply dec_nq; [lia|constructor].
  - apply dec_nq; [lia|constructor].
Qed.
Lemma starts_with_quote_bytes l : Forall nq l -> starts_with """" (str_of_bytes l) = false.
Proof.
  intros H. destruct H as [|b l Hb _]; [reflexivity|].
  unfold starts_with, str_of_bytes. change (string_of_list_byte (b :: l)) with (String (ascii_of_byte b) (string_of_list_byte l)). cbn [prefix].
  destruct (ascii_dec """"%char (ascii_of_byte b)) as [e|ne]; [|reflexivity].
  exfalso. apply Hb. apply (f_equal byte_of_ascii) in e. rewrite byte_of_ascii_of_byte in e. rewrite <- e. reflexivity.
Qed.
Lemma str_of_int_no_quote z : starts_with """" (str_of_int z) = false.
Proof. apply starts_with_quote_bytes. apply str_of_Z_nq. Qed.
