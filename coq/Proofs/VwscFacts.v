From Coq Require Import List ZArith Bool Lia.
From Coq.Strings Require Import Byte.
From DRX Require Import Py.PyBytes Py.Layout Proofs.PyBytesFacts Proofs.LayoutFacts Proofs.RiffFacts Model.Vwsc Gen.Gen_Layouts.
Import ListNotations.
Open Scope Z_scope.

(* ---------------- specification: states and their encodings ---------------- *)
Inductive record := RSame | RDelta (ps : list (Z * bytes)).

Definition apply_patch (st : bytes) (p : Z * bytes) : bytes :=
  firstn (Z.to_nat (fst p)) st ++ snd p ++ skipn (Z.to_nat (fst p) + length (snd p)) st.
Definition apply_rec (st : bytes) (r : record) : bytes :=
  match r with RSame => st | RDelta ps => fold_left apply_patch ps st end.
Fixpoint states (st : bytes) (rs : list record) : list bytes :=
  match rs with [] => [] | r :: rest => let st' := apply_rec st r in st' :: states st' rest end.

Definition enc_patch (p : Z * bytes) : bytes := pack 2 Big (zlen (snd p)) ++ pack 2 Big (fst p) ++ snd p.
Definition enc_body (ps : list (Z * bytes)) : bytes := concat (map enc_patch ps).
Definition enc_rec (r : record) : bytes :=
  match r with
  | RSame => pack 2 Big 2
  | RDelta ps => pack 2 Big (2 + zlen (enc_body ps)) ++ enc_body ps
  end.

(* a patch lies inside a buffer of n bytes and is non-empty *)
Definition wf_patch (n : Z) (p : Z * bytes) : Prop :=
  0 <= fst p /\ 0 < zlen (snd p) /\ fst p + zlen (snd p) <= n /\ in16 (zlen (snd p)) /\ in16 (fst p).
Definition wf_rec (n : Z) (r : record) : Prop :=
  match r with
  | RSame => True
  | RDelta ps => ps <> [] /\ Forall (wf_patch n) ps /\ in16 (2 + zlen (enc_body ps))
  end.

(* ---------------- patching ---------------- *)
Lemma set_nth_spec buf : forall p b, (p < length buf)%nat ->
  set_nth buf p b = Some (firstn p buf ++ b :: skipn (S p) buf).
Proof.
  induction buf as [|x buf IH]; intros p b Hp; [cbn in Hp; lia|].
  destruct p as [|p]; cbn [set_nth firstn skipn app]; [reflexivity|].
  rewrite IH by (cbn in Hp; lia). reflexivity.
Qed.

Lemma firstn_S_set (buf : bytes) : forall k b, (k < length buf)%nat ->
  firstn (S k) (firstn k buf ++ b :: skipn (S k) buf) = firstn k buf ++ [b].
Proof.
  induction buf as [|x buf IH]; intros k b Hk; [cbn in Hk; lia|].
  destruct k as [|k]; [reflexivity|].
  change (firstn (S (S k)) (firstn (S k) (x :: buf) ++ b :: skipn (S (S k)) (x :: buf)))
    with (x :: firstn (S k) (firstn k buf ++ b :: skipn (S k) buf)).
  rewrite IH by (cbn in Hk; lia). reflexivity.
Qed.
Lemma skipn_S_set (buf : bytes) : forall k m b, (k < length buf)%nat ->
  skipn (S k + m) (firstn k buf ++ b :: skipn (S k) buf) = skipn (S k + m) buf.
Proof.
  induction buf as [|x buf IH]; intros k m b Hk; [cbn in Hk; lia|].
  destruct k as [|k]; [reflexivity|].
  change (skipn (S (S k) + m) (firstn (S k) (x :: buf) ++ b :: skipn (S (S k)) (x :: buf)))
    with (skipn (S k + m) (firstn k buf ++ b :: skipn (S k) buf)).
  rewrite IH by (cbn in Hk; lia). reflexivity.
Qed.

Lemma apply_patch_length st p n : zlen st = n -> wf_patch n p -> zlen (apply_patch st p) = n.
Proof.
  intros Hn (H0 & H1 & H2 & _). unfold apply_patch, zlen in *.
  rewrite !app_length, firstn_length, skipn_length. lia.
Qed.

Lemma patch_loop_spec data : forall buf off,
  0 <= off -> off + zlen data <= zlen buf ->
  patch_loop buf off data (List.length data) = Ok (apply_patch buf (off, data)).
Proof.
  induction data as [|b data IH]; intros buf off H0 H1.
  - cbn [patch_loop length]. unfold apply_patch. cbn [fst snd length app]. rewrite Nat.add_0_r, firstn_skipn. reflexivity.
  - cbn [patch_loop length]. rewrite zlen_cons in H1. pose proof (zlen_nonneg data).
    destruct (Z.ltb_spec off 0); [lia|].
    rewrite set_nth_spec by (unfold zlen in H1; lia). cbn [of_option bind].
    rewrite IH.
    + f_equal. unfold apply_patch. cbn [fst snd length].
      assert (Hlen : (Z.to_nat off < length buf)%nat) by (unfold zlen in H1; lia).
      replace (Z.to_nat (off + 1)) with (S (Z.to_nat off)) by lia.
      rewrite firstn_S_set by exact Hlen. rewrite <- app_assoc. cbn [app]. f_equal. f_equal. f_equal.
      replace (S (Z.to_nat off) + length data)%nat with (S (Z.to_nat off) + length data)%nat by lia.
      rewrite skipn_S_set by exact Hlen. f_equal. lia.
    + lia.
    + unfold zlen. rewrite !app_length, firstn_length. cbn [length]. rewrite skipn_length.
      unfold zlen in H1. lia.
Qed.

(* ---------------- the delta loop of one record ---------------- *)
Lemma zlen_enc_patch p : zlen (enc_patch p) = 4 + zlen (snd p).
Proof. unfold enc_patch. rewrite !zlen_app, !zlen_pack. lia. Qed.

Lemma zlen_enc_body_cons p ps : zlen (enc_body (p :: ps)) = 4 + zlen (snd p) + zlen (enc_body ps).
Proof. unfold enc_body. cbn [map concat]. rewrite zlen_app, zlen_enc_patch. reflexivity. Qed.

Lemma enc_body_nonneg ps : 0 <= zlen (enc_body ps).
Proof. apply zlen_nonneg. Qed.

Lemma delta_loop_enc ps : forall fuel pre post buf n,
  (List.length ps < fuel)%nat -> zlen buf = n -> Forall (wf_patch n) ps ->
  delta_loop fuel (pre ++ enc_body ps ++ post) buf (zlen pre) (zlen (enc_body ps))
  = Ok (fold_left apply_patch ps buf, zlen pre + zlen (enc_body ps), 0).
Proof.
  induction ps as [|p ps IH]; intros fuel pre post buf n Hf Hn Hwf.
  - cbn [enc_body map concat fold_left]. change (zlen (@nil byte)) with 0. rewrite Z.add_0_r.
    destruct fuel; reflexivity.
  - destruct fuel as [|f]; [cbn in Hf; lia|]. destruct p as [po pd].
    pose proof (Forall_inv Hwf) as Hp. pose proof (Forall_inv_tail Hwf) as Hps.
    destruct Hp as (Ho & Hl & Hr & Hl16 & Ho16). cbn [fst snd] in *.
    cbn [delta_loop fold_left]. rewrite zlen_enc_body_cons. cbn [fst snd]. pose proof (enc_body_nonneg ps).
    destruct (Z.gtb_spec (4 + zlen pd + zlen (enc_body ps)) 0); [|lia].
    set (d := pre ++ enc_body ((po, pd) :: ps) ++ post).
    assert (E1 : rd_s 2 Big d (zlen pre) = Ok (zlen pd)).
    { unfold d, enc_body. cbn [map concat]. unfold enc_patch at 1. cbn [fst snd]. repeat rewrite <- app_assoc. apply rd_s2_at; auto. }
    assert (E2 : rd_s 2 Big d (zlen pre + 2) = Ok po).
    { unfold d, enc_body. cbn [map concat]. unfold enc_patch at 1. cbn [fst snd]. repeat rewrite <- app_assoc.
      replace (pre ++ pack 2 Big (zlen pd) ++ pack 2 Big po ++ pd ++ concat (map enc_patch ps) ++ post)
        with ((pre ++ pack 2 Big (zlen pd)) ++ pack 2 Big po ++ (pd ++ concat (map enc_patch ps) ++ post))
        by (repeat rewrite <- app_assoc; reflexivity).
      apply rd_s2_at; [rewrite zlen_app, zlen_pack; reflexivity | exact Ho16]. }
    assert (E3 : slice d (zlen pre + 4) (zlen pre + 4 + zlen pd) = pd).
    { unfold d, enc_body. cbn [map concat]. unfold enc_patch at 1. cbn [fst snd]. repeat rewrite <- app_assoc.
      replace (pre ++ pack 2 Big (zlen pd) ++ pack 2 Big po ++ pd ++ concat (map enc_patch ps) ++ post)
        with ((pre ++ pack 2 Big (zlen pd) ++ pack 2 Big po) ++ pd ++ (concat (map enc_patch ps) ++ post))
        by (repeat rewrite <- app_assoc; reflexivity).
      apply slice_mid; rewrite !zlen_app, !zlen_pack; lia. }
    rewrite E1. cbn [bind].
    destruct (Z.gtb_spec (zlen pd) (4 + zlen pd + zlen (enc_body ps))); [lia|].
    destruct (Z.leb_spec (zlen pd) 0); [lia|]. cbn [orb].
    rewrite E2. cbn [bind]. destruct (Z.ltb_spec po 0); [lia|].
    rewrite E3. replace (Z.to_nat (zlen pd)) with (length pd) by (unfold zlen; lia).
    rewrite patch_loop_spec by lia. cbn [bind].
    replace (4 + zlen pd + zlen (enc_body ps) - 4 - zlen pd) with (zlen (enc_body ps)) by lia.
    replace d with ((pre ++ enc_patch (po, pd)) ++ enc_body ps ++ post)
      by (unfold d, enc_body; cbn [map concat]; repeat rewrite <- app_assoc; reflexivity).
    replace (zlen pre + 4 + zlen pd) with (zlen (pre ++ enc_patch (po, pd))) by (rewrite zlen_app, zlen_enc_patch; cbn [snd]; lia).
    rewrite (IH f _ post _ n).
    + f_equal. f_equal. f_equal. rewrite zlen_app, zlen_enc_patch. cbn [snd]. lia.
    + cbn in Hf. lia.
    + apply apply_patch_length; [exact Hn|]. unfold wf_patch. cbn [fst snd]. tauto.
    + exact Hps.
Qed.

(* ---------------- the record loop ---------------- *)
Fixpoint mapM {A B} (f : A -> result B) (l : list A) : result (list B) :=
  match l with
  | [] => Ok []
  | x :: r => let! y := f x in let! ys := mapM f r in Ok (y :: ys)
  end.

Definition enc_recs (rs : list record) : bytes := concat (map enc_rec rs).

Definition acc_ok (cp : cparser) (acc : list entry) (buf : bytes) : Prop :=
  match acc with [] => True | e :: _ => exists fr, parse_vwsc_channels cp buf = Ok fr /\ e = EFrame fr end.

Lemma zlen_enc_rec_ge r : 2 <= zlen (enc_rec r).
Proof.
  destruct r as [|ps]; cbn [enc_rec].
  - rewrite zlen_pack. lia.
  - rewrite zlen_app, zlen_pack. pose proof (enc_body_nonneg ps). lia.
Qed.

Lemma enc_body_pos n ps : ps <> [] -> Forall (wf_patch n) ps -> 0 < zlen (enc_body ps).
Proof.
  destruct ps as [|p ps]; [congruence|]. intros _ H. rewrite zlen_enc_body_cons.
  pose proof (enc_body_nonneg ps). pose proof (zlen_nonneg (snd p)). lia.
Qed.

Lemma length_enc_body_ge ps : (length ps <= length (enc_body ps))%nat.
Proof.
  induction ps as [|p ps IH]; [cbn; lia|]. unfold enc_body in *. cbn [map concat length]. rewrite app_length.
  pose proof (zlen_enc_patch p) as H. unfold zlen in H. lia.
Qed.

Lemma fold_apply_length n ps : forall buf, zlen buf = n -> Forall (wf_patch n) ps -> zlen (fold_left apply_patch ps buf) = n.
Proof.
  induction ps as [|p ps IH]; intros buf Hn Hwf; cbn [fold_left]; [exact Hn|].
  apply IH; [apply apply_patch_length; [exact Hn | exact (Forall_inv Hwf)] | exact (Forall_inv_tail Hwf)].
Qed.

Lemma record_loop_enc cp rs : forall fuel pre buf acc n,
  (List.length rs < fuel)%nat -> zlen buf = n -> Forall (wf_rec n) rs -> acc_ok cp acc buf ->
  record_loop fuel cp (pre ++ enc_recs rs) (zlen (pre ++ enc_recs rs)) buf (zlen pre) acc
  = (let! frs := mapM (parse_vwsc_channels cp) (states buf rs) in Ok (rev acc ++ map EFrame frs)).
Proof.
  induction rs as [|r rs IH]; intros fuel pre buf acc n Hf Hn Hwf Hacc.
  - unfold enc_recs. cbn [map concat states mapM bind]. rewrite !app_nil_r.
    destruct fuel; cbn [record_loop]; rewrite Z.ltb_irrefl; reflexivity.
  - destruct fuel as [|f]; [cbn in Hf; lia|].
    pose proof (Forall_inv Hwf) as Hr. pose proof (Forall_inv_tail Hwf) as Hrs.
    unfold enc_recs. cbn [map concat]. fold (enc_recs rs).
    set (d := pre ++ enc_rec r ++ enc_recs rs).
    cbn [record_loop].
    pose proof (zlen_enc_rec_ge r). pose proof (zlen_nonneg (enc_recs rs)).
    destruct (Z.ltb_spec (zlen pre) (zlen d)) as [_|Hge]; [|unfold d in Hge; rewrite !zlen_app in Hge; lia].
    assert (Hd2 : d = (pre ++ enc_rec r) ++ enc_recs rs) by (unfold d; rewrite <- app_assoc; reflexivity).
    destruct r as [|ps].
    + (* same as previous *)
      assert (E : rd_s 2 Big d (zlen pre) = Ok 2).
      { unfold d. cbn [enc_rec]. apply rd_s2_at; [reflexivity | unfold in16; lia]. }
      rewrite E. cbn [bind Z.ltb Z.compare Pos.compare Pos.compare_cont Z.eqb Pos.eqb states apply_rec mapM].
      replace (zlen pre + 2) with (zlen (pre ++ enc_rec RSame)) by (rewrite zlen_app; cbn [enc_rec]; rewrite zlen_pack; reflexivity).
      destruct acc as [|last acc'].
      * destruct (parse_vwsc_channels cp buf) as [fr| e |] eqn:P; cbn [bind]; try reflexivity.
        rewrite Hd2. rewrite (IH f _ buf [EFrame fr] n); try assumption; [| cbn in Hf; lia | exists fr; auto].
        destruct (mapM (parse_vwsc_channels cp) (states buf rs)); reflexivity.
      * destruct Hacc as (fr & P & ->). rewrite P. cbn [bind].
        rewrite Hd2. rewrite (IH f _ buf (EFrame fr :: EFrame fr :: acc') n); try assumption; [| cbn in Hf; lia | exists fr; auto].
        destruct (mapM (parse_vwsc_channels cp) (states buf rs)); cbn [bind]; try reflexivity.
        cbn [rev map]. repeat rewrite <- app_assoc. reflexivity.
    + (* a list of deltas *)
      destruct Hr as (Hne & Hps & Hsz).
      pose proof (enc_body_pos n ps Hne Hps) as Hpos.
      assert (E : rd_s 2 Big d (zlen pre) = Ok (2 + zlen (enc_body ps))).
      { unfold d. cbn [enc_rec]. repeat rewrite <- app_assoc. apply rd_s2_at; [reflexivity | exact Hsz]. }
      rewrite E. cbn [bind].
      destruct (Z.ltb_spec (2 + zlen (enc_body ps)) 2); [lia|].
      destruct (Z.eqb_spec (2 + zlen (enc_body ps)) 2); [lia|].
      replace (2 + zlen (enc_body ps) - 2) with (zlen (enc_body ps)) by lia.
      destruct (Z.gtb_spec (zlen (enc_body ps)) 0); [|lia].
      assert (Hd3 : d = (pre ++ pack 2 Big (2 + zlen (enc_body ps))) ++ enc_body ps ++ enc_recs rs)
        by (unfold d; cbn [enc_rec]; repeat rewrite <- app_assoc; reflexivity).
      replace (zlen pre + 2) with (zlen (pre ++ pack 2 Big (2 + zlen (enc_body ps)))) by (rewrite zlen_app, zlen_pack; reflexivity).
      rewrite Hd3 at 2.
      rewrite (delta_loop_enc ps _ _ _ buf n); try assumption.
      2:{ rewrite Hd3, !app_length. pose proof (length_enc_body_ge ps). lia. }
      cbn [bind states apply_rec mapM].
      destruct (parse_vwsc_channels cp (fold_left apply_patch ps buf)) as [fr| e |] eqn:P; cbn [bind]; try reflexivity.
      replace (zlen (pre ++ pack 2 Big (2 + zlen (enc_body ps))) + zlen (enc_body ps) + 0) with (zlen (pre ++ enc_rec (RDelta ps)))
        by (cbn [enc_rec]; rewrite !zlen_app, zlen_pack; lia).
      rewrite Hd2.
      rewrite (IH f _ (fold_left apply_patch ps buf) (EFrame fr :: acc) n); try assumption;
        [| cbn in Hf; lia | apply fold_apply_length; assumption | exists fr; auto].
      destruct (mapM (parse_vwsc_channels cp) (states (fold_left apply_patch ps buf) rs)); cbn [bind]; try reflexivity.
      cbn [rev map]. repeat rewrite <- app_assoc. reflexivity.
Qed.

(* ---------------- whole chunk ---------------- *)
Definition inner_layout : layout := [FS 4; FS 4; FS 4; FS 2; FS 2; FS 2; FS 2].
Definition enc_inner (fs cc fcount u1 u2 : Z) (rs : list record) : bytes :=
  enc_layout Big inner_layout [20 + zlen (enc_recs rs); 20; fcount; u1; fs; cc; u2] [] ++ enc_recs rs.
Definition parser_of (fs : Z) : cparser := if fs =? 20 then D4 else D5.
Definition decoded (fs cc : Z) (rs : list record) : result (list entry) :=
  let! frs := mapM (parse_vwsc_channels (parser_of fs)) (states (zeros (Z.to_nat (cc * fs))) rs) in
  Ok (map EFrame frs).

Lemma zlen_zeros n : zlen (zeros n) = Z.of_nat n.
Proof. unfold zlen, zeros. rewrite repeat_length. reflexivity. Qed.

Lemma length_enc_recs_ge rs : (length rs <= length (enc_recs rs))%nat.
Proof.
  induction rs as [|r rs IH]; [cbn; lia|]. unfold enc_recs in *. cbn [map concat length]. rewrite app_length.
  pose proof (zlen_enc_rec_ge r) as H. unfold zlen in H. lia.
Qed.

Theorem score_decode fs cc fcount u1 u2 rs :
  fs = 20 \/ fs = 24 -> 0 <= cc ->
  fits_all inner_layout [20 + zlen (enc_recs rs); 20; fcount; u1; fs; cc; u2] ->
  Forall (wf_rec (cc * fs)) rs ->
  parse_vwsc_data (enc_inner fs cc fcount u1 u2 rs) = decoded fs cc rs.
Proof.
  intros Hfs Hcc Hfit Hwf. unfold parse_vwsc_data, enc_inner.
  set (H := enc_layout Big inner_layout [20 + zlen (enc_recs rs); 20; fcount; u1; fs; cc; u2] []).
  assert (HL : zlen H = 20) by (unfold H; rewrite zlen_enc_layout; reflexivity).
  replace (H ++ enc_recs rs) with ([] ++ H ++ enc_recs rs) at 1 by reflexivity.
  unfold H at 1. fold inner_layout. rewrite read_enc_layout; [| reflexivity | exact Hfit]. cbn [bind app]. fold H.
  change (getv [20 + zlen (enc_recs rs); 20; fcount; u1; fs; cc; u2] 0) with (20 + zlen (enc_recs rs)).
  change (getv [20 + zlen (enc_recs rs); 20; fcount; u1; fs; cc; u2] 1) with 20.
  change (getv [20 + zlen (enc_recs rs); 20; fcount; u1; fs; cc; u2] 4) with fs.
  change (getv [20 + zlen (enc_recs rs); 20; fcount; u1; fs; cc; u2] 5) with cc.
  cbn [Z.eqb Pos.eqb negb].
  assert (Hz : zlen (H ++ enc_recs rs) = 20 + zlen (enc_recs rs)) by (rewrite zlen_app, HL; reflexivity).
  rewrite Hz, Z.eqb_refl. cbn [negb].
  assert (Hcp : (if fs =? 20 then Ok D4 else if fs =? 24 then Ok D5 else Err EKey) = Ok (parser_of fs)).
  { unfold parser_of. destruct Hfs; subst; reflexivity. }
  rewrite Hcp. cbn [bind].
  destruct (Z.ltb_spec (cc * fs) 0); [destruct Hfs; subst; lia|].
  rewrite <- Hz. replace 20 with (zlen H) at 2 by exact HL.
  rewrite (record_loop_enc (parser_of fs) rs _ H _ [] (cc * fs)).
  - cbn [rev app]. reflexivity.
  - rewrite app_length. pose proof (length_enc_recs_ge rs). lia.
  - rewrite zlen_zeros. lia.
  - exact Hwf.
  - exact I.
Qed.

(* two encodings of the same state sequence decode identically *)
Theorem segmentation_independent fs cc f1 f2 a1 a2 b1 b2 r1 r2 :
  fs = 20 \/ fs = 24 -> 0 <= cc ->
  fits_all inner_layout [20 + zlen (enc_recs r1); 20; f1; a1; fs; cc; b1] ->
  fits_all inner_layout [20 + zlen (enc_recs r2); 20; f2; a2; fs; cc; b2] ->
  Forall (wf_rec (cc * fs)) r1 -> Forall (wf_rec (cc * fs)) r2 ->
  states (zeros (Z.to_nat (cc * fs))) r1 = states (zeros (Z.to_nat (cc * fs))) r2 ->
  parse_vwsc_data (enc_inner fs cc f1 a1 b1 r1) = parse_vwsc_data (enc_inner fs cc f2 a2 b2 r2).
Proof.
  intros. rewrite !score_decode by assumption. unfold decoded. congruence.
Qed.

(* the file-level entry point: bare chunk (DRX) ... *)
Theorem file_unwrapped inner tail :
  rd_s 4 Big inner 0 = Ok (zlen inner) -> rd_s 4 Big inner 4 = Ok 20 -> 8 <= zlen inner ->
  parse_vwsc_file_data (inner ++ tail) = parse_vwsc_data inner.
Proof.
  intros H0 H4 Hlen. unfold parse_vwsc_file_data.
  assert (E0 : rd_s 4 Big (inner ++ tail) 0 = Ok (zlen inner)).
  { rewrite rd_s_app_l by (change (Z.of_nat 4) with 4; lia). exact H0. }
  assert (E4 : rd_s 4 Big (inner ++ tail) 4 = Ok 20).
  { rewrite rd_s_app_l by (change (Z.of_nat 4) with 4; lia). exact H4. }
  rewrite E0, E4. cbn [bind Z.eqb Pos.eqb negb].
  replace (8 - 8) with 0 by reflexivity.
  f_equal. replace (inner ++ tail) with ([] ++ inner ++ tail) by reflexivity. apply slice_mid; reflexivity.
Qed.

(* ... or wrapped (DIR): outer size, a marker other than 0x14, three words, a marker table, then the chunk *)
Theorem file_wrapped total marker u nm nm1 lm markers inner tail :
  let d := enc_layout Big [FS 4; FS 4; FS 4; FS 4; FS 4; FS 4] [total; marker; u; nm; nm1; lm] [] ++ markers ++ inner ++ tail in
  fits_all [FS 4; FS 4; FS 4; FS 4; FS 4; FS 4] [total; marker; u; nm; nm1; lm] ->
  marker <> 20 -> total = zlen d -> zlen markers = nm1 * 4 ->
  rd_s 4 Big inner 0 = Ok (zlen inner) -> rd_s 4 Big inner 4 = Ok 20 -> 8 <= zlen inner ->
  parse_vwsc_file_data d = parse_vwsc_data inner.
Proof.
  intros d Hfit Hm Htot Hmk H0 H4 Hlen. unfold parse_vwsc_file_data.
  set (W := enc_layout Big [FS 4; FS 4; FS 4; FS 4; FS 4; FS 4] [total; marker; u; nm; nm1; lm] []) in *.
  assert (HW : zlen W = 24) by (unfold W; rewrite zlen_enc_layout; reflexivity).
  assert (Hall : read_layout Big [FS 4; FS 4; FS 4; FS 4; FS 4; FS 4] d 0 = Ok [total; marker; u; nm; nm1; lm]).
  { unfold d. replace (W ++ markers ++ inner ++ tail) with ([] ++ W ++ (markers ++ inner ++ tail)) by reflexivity.
    unfold W. apply read_enc_layout; [reflexivity | exact Hfit]. }
  change [FS 4; FS 4; FS 4; FS 4; FS 4; FS 4] with ([FS 4; FS 4] ++ [FS 4; FS 4; FS 4; FS 4]) in Hall.
  rewrite read_layout_app in Hall. change (0 + lwidth [FS 4; FS 4]) with 8 in Hall.
  cbn [read_layout] in Hall. change (0 + Z.of_nat 4) with 4 in Hall.
  destruct (rd_s 4 Big d 0) as [a0| |] eqn:R0; cbn [bind] in Hall; try discriminate.
  destruct (rd_s 4 Big d 4) as [a1| |] eqn:R1; cbn [bind] in Hall; try discriminate.
  match type of Hall with context[bind ?x _] => destruct x as [w| |] eqn:RW end; cbn [bind app] in Hall; try discriminate.
  injection Hall as -> -> ->.
  assert (RW' : read_layout Big [FS 4; FS 4; FS 4; FS 4] d 8 = Ok [u; nm; nm1; lm]) by exact RW.
  cbn [bind]. destruct (Z.eqb_spec marker 20); [contradiction|]. cbn [negb].
  rewrite <- Htot, Z.eqb_refl. cbn [negb]. rewrite RW'. cbn [bind].
  change (getv [u; nm; nm1; lm] 2) with nm1.
  assert (Hin : d = (W ++ markers) ++ inner ++ tail) by (unfold d; repeat rewrite <- app_assoc; reflexivity).
  assert (Hp : zlen (W ++ markers) = 24 + nm1 * 4) by (rewrite zlen_app, HW, Hmk; reflexivity).
  assert (E0 : rd_s 4 Big d (24 + nm1 * 4) = Ok (zlen inner)).
  { rewrite <- Hp, Hin. replace (zlen (W ++ markers)) with (zlen (W ++ markers) + 0) by lia.
    rewrite rd_s_app_r by (rewrite ?zlen_app; change (Z.of_nat 4) with 4; pose proof (zlen_nonneg tail); lia).
    rewrite rd_s_app_l by (change (Z.of_nat 4) with 4; lia). exact H0. }
  assert (E4 : rd_s 4 Big d (24 + nm1 * 4 + 4) = Ok 20).
  { rewrite <- Hp, Hin.
    rewrite rd_s_app_r by (rewrite ?zlen_app; change (Z.of_nat 4) with 4; pose proof (zlen_nonneg tail); lia).
    rewrite rd_s_app_l by (change (Z.of_nat 4) with 4; lia). exact H4. }
  rewrite E0. cbn [bind]. rewrite E4. cbn [bind Z.eqb Pos.eqb negb].
  replace (24 + nm1 * 4 + 8 - 8) with (zlen (W ++ markers)) by lia.
  f_equal. rewrite Hin. apply slice_mid; reflexivity.
Qed.

(* ---------------- per-channel fields: the readers see exactly the encoded record ---------------- *)
Lemma read_enc0 l vs fill : fits_all l vs -> read_layout Big l (enc_layout Big l vs fill) 0 = Ok vs.
Proof.
  intros H. replace (enc_layout Big l vs fill) with ([] ++ enc_layout Big l vs fill ++ []) by (cbn [app]; apply app_nil_r).
  apply read_enc_layout; [reflexivity | exact H].
Qed.

Theorem d4_sprite_fields vs fill : fits_all d4_sprite_layout vs ->
  d4_sprite (enc_layout Big d4_sprite_layout vs fill) = d4_sprite_dict (fld d4_sprite_names vs).
Proof. intros H. unfold d4_sprite. rewrite read_enc0 by exact H. reflexivity. Qed.
Theorem d5_sprite_fields vs fill : fits_all d5_sprite_layout vs ->
  d5_sprite (enc_layout Big d5_sprite_layout vs fill) = d5_sprite_dict (fld d5_sprite_names vs).
Proof. intros H. unfold d5_sprite. rewrite read_enc0 by exact H. reflexivity. Qed.
Theorem d4_main_fields vs fill : fits_all d4_main_layout vs ->
  d4_main (enc_layout Big d4_main_layout vs fill) = d4_main_dict (fld d4_main_names vs).
Proof. intros H. unfold d4_main. rewrite read_enc0 by exact H. reflexivity. Qed.
Theorem d5_main_fields vs fill : fits_all d5_main_layout vs ->
  d5_main (enc_layout Big d5_main_layout vs fill) = d5_main_dict (fld d5_main_names vs).
Proof. intros H. unfold d5_main. rewrite read_enc0 by exact H. reflexivity. Qed.

Definition example_rs : list record :=
  [RDelta [(46, [x00; x07])]; RSame; RDelta [(44, [x00; x01; x00; x09]); (46, [x00; x08])]].
Lemma example_rs_wf : Forall (wf_rec 60) example_rs.
Proof.
  unfold example_rs. repeat constructor; cbn; try lia; try discriminate; unfold in16; cbn; lia.
Qed.
