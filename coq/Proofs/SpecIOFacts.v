(* The boolean side conditions the spec tie evaluates (Spec/SpecIO.v) imply the hypotheses of the theorems: when the
   harness compares the text of a theorem with the emitted text, the theorem does apply to that handler. *)
From Coq Require Import ZArith List Bool String Lia.
From DRX Require Import Proofs.LingoNestFacts Py.PyBytes Py.PyStr Py.PyString Py.Val Model.LingoAst Model.LingoGen Model.LingoOps
  Gen.Gen_Lingo Spec.SpecLingo Spec.SpecText Spec.SpecJs Spec.SpecNest Spec.SpecFor Spec.SpecIO
  Proofs.LingoExecFacts Proofs.LingoTextFacts Proofs.LingoJsFacts Proofs.LingoNestText Proofs.LingoNestJs Proofs.LingoNestForText.
Import ListNotations.

Lemma text_okb_sound en : forall e, text_okb en e = true -> text_ok en e.
Proof.
  apply (expr_ind2 (fun e => text_okb en e = true -> text_ok en e)
                   (fun l => forallb (text_okb en) l = true -> text_ok_args en l)); cbn [text_okb text_ok]; try (intros; exact I).
  - intros i H. unfold loc_okb in H. destruct (nth i (e_locals en) (Leaf KLocal "" 0 true)); try discriminate H. destruct k; try discriminate H. exact I.
  - intros o x y IHx IHy H. apply andb_true_iff in H. destruct H as [Hx Hy]. split; [apply IHx | apply IHy]; assumption.
  - intros x IHx H. apply IHx. exact H.
  - intros x IHx H. apply IHx. exact H.
  - intros f l IHl H. apply andb_true_iff in H. destruct H as [Hp Hl]. split; [exact Hp|]. rewrite text_ok_args_eq. apply IHl. exact Hl.
  - intros f l IHl H. apply andb_true_iff in H. destruct H as [Hp Hl]. split; [exact Hp|]. rewrite text_ok_args_eq. apply IHl. exact Hl.
  - intros l IHl H. rewrite text_ok_args_eq. apply IHl. exact H.
  - intros l IHl H. apply andb_true_iff in H. destruct H as [Hp Hl]. split; [exact Hp|]. rewrite text_ok_args_eq. apply IHl. exact Hl.
  - intros f pid x IHx H. apply IHx. exact H.
  - intros pid it mn IHi IHm H. apply andb_true_iff in H. destruct H as [Hi Hm]. split; [apply IHi | apply IHm]; assumption.
  - intros k i H. destruct k; try exact I. exact H.
  - intros n x IHx H. apply andb_true_iff in H. destruct H as [Hx Hp]. split; [apply IHx; exact Hx | exact Hp].
  - intros x IHx H. apply IHx. exact H.
  - intros x l IHx IHl H. cbn [forallb] in H. apply andb_true_iff in H. destruct H as [Hx Hl]. split; [apply IHx | apply IHl]; assumption.
Qed.

Lemma text_okb_args_sound en l : forallb (text_okb en) l = true -> text_ok_args en l.
Proof.
  induction l as [|x l IH]; cbn [forallb text_ok_args]; [intros; exact I|]. intros H. apply andb_true_iff in H. destruct H as [Hx Hl].
  split; [apply text_okb_sound; exact Hx | apply IH; exact Hl].
Qed.

Lemma js_okb_sound en : forall e, js_okb en e = true -> js_ok en e.
Proof.
  apply (expr_ind2 (fun e => js_okb en e = true -> js_ok en e)
                   (fun l => forallb (js_okb en) l = true -> js_ok_args en l)); cbn [js_okb js_ok]; try (intros; exact I).
  - intros i H. unfold loc_okb in H. destruct (nth i (e_locals en) (Leaf KLocal "" 0 true)); try discriminate H. destruct k; try discriminate H. exact I.
  - intros o x y IHx IHy H. apply andb_true_iff in H. destruct H as [Hx Hy]. split; [apply IHx | apply IHy]; assumption.
  - intros x IHx H. apply IHx. exact H.
  - intros x IHx H. apply IHx. exact H.
  - intros f l IHl H. apply andb_true_iff in H. destruct H as [Hp Hl]. split; [exact Hp|]. rewrite js_ok_args_eq. apply IHl. exact Hl.
  - intros f l IHl H. apply andb_true_iff in H. destruct H as [Hp Hl]. split; [exact Hp|]. rewrite js_ok_args_eq. apply IHl. exact Hl.
  - intros l IHl H. rewrite js_ok_args_eq. apply IHl. exact H.
  - intros l IHl H. rewrite js_ok_args_eq. apply IHl. exact H.
  - intros f pid x IHx H. apply andb_true_iff in H. destruct H as [Hx Hf]. split; [apply IHx; exact Hx|].
    destruct f; try exact I; apply negb_true_iff in Hf; exact Hf.
  - intros pid it mn IHi IHm H. apply andb_true_iff in H. destruct H as [Hi Hm]. split; [apply IHi | apply IHm]; assumption.
  - intros k i H. destruct k; try exact I; discriminate H.
  - intros n x _ H. discriminate H.
  - intros x IHx H. apply IHx. exact H.
  - intros x l IHx IHl H. cbn [forallb] in H. apply andb_true_iff in H. destruct H as [Hx Hl]. split; [apply IHx | apply IHl]; assumption.
Qed.
Lemma js_okb_args_sound en l : forallb (js_okb en) l = true -> js_ok_args en l.
Proof.
  induction l as [|x l IH]; cbn [forallb js_ok_args]; [intros; exact I|]. intros H. apply andb_true_iff in H. destruct H as [Hx Hl].
  split; [apply js_okb_sound; exact Hx | apply IH; exact Hl].
Qed.

Lemma loc_okb_leaf en i : loc_okb en i = true -> leaf_like KLocal (nth i (e_locals en) (Leaf KLocal "" 0 true)).
Proof. unfold loc_okb. destruct (nth i (e_locals en) (Leaf KLocal "" 0 true)); try discriminate. destruct k; try discriminate. reflexivity. Qed.
Lemma par_okb_leaf en i : par_okb en i = true -> leaf_like KParam (nth i (e_params en) (Leaf KParam "" 0 true)).
Proof. unfold par_okb. destruct (nth i (e_params en) (Leaf KParam "" 0 true)); try discriminate. destruct k; try discriminate. reflexivity. Qed.

Lemma text_okb_s_sound en props s : text_okb_s en props s = true -> text_ok_s en props s.
Proof.
  destruct s as [t e|f args|f args|fam pid o v|tk ti tv|an ao av|mp mi mm mv| |pmd pf pv|lmd li lv]; cbn [text_okb_s text_ok_s]; intros H.
  10:{ apply andb_true_iff in H. destruct H as [Hl Hv]. split; [apply loc_okb_leaf; exact Hl | apply text_okb_sound; exact Hv]. }
  9:{ apply andb_true_iff in H. destruct H as [Hf Hv]. split; apply text_okb_sound; assumption. }
  8:{ exact I. }
  7:{ apply andb_true_iff in H. destruct H as [Hk Hv]. split; apply text_okb_sound; assumption. }
  6:{ apply andb_true_iff in H. destruct H as [Hk Hv]. split; apply text_okb_sound; assumption. }
  5:{ apply andb_true_iff in H. destruct H as [H Hv]. apply andb_true_iff in H. destruct H as [Hk Hf].
      split; [apply text_okb_sound; exact Hk|]. split; [apply negb_true_iff in Hf; exact Hf | apply text_okb_sound; exact Hv]. }
  - apply andb_true_iff in H. destruct H as [H Ht]. apply andb_true_iff in H. destruct H as [He Hf].
    split; [apply text_okb_sound; exact He|]. split; [apply negb_true_iff in Hf; exact Hf|].
    destruct t; try exact I; [apply loc_okb_leaf | apply par_okb_leaf]; exact Ht.
  - apply andb_true_iff in H. destruct H as [H Hl]. apply andb_true_iff in H. destruct H as [Hp Hg].
    split; [split; [exact Hp | apply negb_true_iff in Hg; exact Hg] | apply text_okb_args_sound; exact Hl].
  - apply andb_true_iff in H. destruct H as [H Hl]. apply andb_true_iff in H. destruct H as [Hp Hg].
    split; [split; [exact Hp | apply negb_true_iff in Hg; exact Hg] | apply text_okb_args_sound; exact Hl].
  - apply andb_true_iff in H. destruct H as [H Hv]. apply andb_true_iff in H. destruct H as [Ha Ho].
    split; [exact Ha|]. split; apply text_okb_sound; assumption.
Qed.

Lemma loc_okb_js en i : loc_okb en i = true -> match nth i (e_locals en) (Leaf KLocal "" 0 true) with Leaf KLocal _ _ _ => True | _ => False end.
Proof. unfold loc_okb. destruct (nth i (e_locals en) (Leaf KLocal "" 0 true)); try discriminate. destruct k; try discriminate. intros; exact I. Qed.
Lemma par_okb_js en i : par_okb en i = true -> match nth i (e_params en) (Leaf KParam "" 0 true) with Leaf KParam _ _ _ => True | _ => False end.
Proof. unfold par_okb. destruct (nth i (e_params en) (Leaf KParam "" 0 true)); try discriminate. destruct k; try discriminate. intros; exact I. Qed.

Lemma js_okb_s_sound en props s : js_okb_s en props s = true -> js_ok_s en props s.
Proof.
  destruct s as [t e|f args|f args|fam pid o v|tk ti tv|an ao av|mp mi mm mv| |pmd pf pv|lmd li lv]; cbn [js_okb_s js_ok_s]; intros H.
  10:{ discriminate H. }
  9:{ discriminate H. }
  8:{ exact I. }
  7:{ apply andb_true_iff in H. destruct H as [Hk Hv]. split; apply js_okb_sound; assumption. }
  6:{ discriminate H. }
  5:{ apply andb_true_iff in H. destruct H as [Hk Hv]. split; apply js_okb_sound; assumption. }
  - apply andb_true_iff in H. destruct H as [He Ht]. split; [apply js_okb_sound; exact He|].
    destruct t; try exact I; [apply loc_okb_js | apply par_okb_js]; exact Ht.
  - apply andb_true_iff in H. destruct H as [Hp Hl]. split; [exact Hp | apply js_okb_args_sound; exact Hl].
  - apply andb_true_iff in H. destruct H as [Hp Hl]. split; [exact Hp | apply js_okb_args_sound; exact Hl].
  - apply andb_true_iff in H. destruct H as [H Hv]. apply andb_true_iff in H. destruct H as [Ha Ho].
    split; [exact Ha|]. split; apply js_okb_sound; assumption.
Qed.

Lemma is_qnil_false q : is_qnil q = false -> q <> QNil.
Proof. destruct q; [discriminate|..]; intros _ E; discriminate E. Qed.

Lemma text_okb_q_sound en props : forall q, text_okb_q en props q = true -> text_ok_q en props q.
Proof.
  induction q as [|s r IH|c a IHa r IH|c a IHa eb IHe r IH|c a IHa r IH|down v lo hi a IHa r IH|off r IH];
    cbn [text_okb_q text_ok_q]; intros H; repeat (apply andb_true_iff in H; let H2 := fresh "H" in destruct H as [H H2]).
  - exact I.
  - split; [apply text_okb_s_sound | apply IH]; assumption.
  - repeat split; [apply text_okb_sound | apply IHa | apply IH]; assumption.
  - repeat split; [apply text_okb_sound | apply is_qnil_false; apply negb_true_iff | apply IHa | apply IHe | apply IH]; assumption.
  - repeat split; [apply text_okb_sound | apply IHa | apply IH]; assumption.
  - repeat split; [apply text_okb_sound | apply text_okb_sound | apply IHa | apply IH]; assumption.
  - apply IH. exact H.
Qed.

Lemma js_okb_q_sound en props : forall q, js_okb_q en props q = true -> js_ok_q en props q.
Proof.
  induction q as [|s r IH|c a IHa r IH|c a IHa eb IHe r IH|c a IHa r IH|down v lo hi a IHa r IH|off r IH];
    cbn [js_okb_q js_ok_q]; intros H; repeat (apply andb_true_iff in H; let H2 := fresh "H" in destruct H as [H H2]).
  - exact I.
  - split; [apply js_okb_s_sound | apply IH]; assumption.
  - repeat split; [apply js_okb_sound | apply IHa | apply IH]; assumption.
  - repeat split; [apply js_okb_sound | apply is_qnil_false; apply negb_true_iff | apply IHa | apply IHe | apply IH]; assumption.
  - repeat split; [apply js_okb_sound | apply IHa | apply IH]; assumption.
  - refine (conj _ (conj _ (conj _ _))); [apply js_okb_sound | apply js_okb_sound | apply IHa | apply IH]; assumption.
  - apply IH. exact H.
Qed.

(* wcond_ok does not look at positions *)
Lemma wcond_pc en c pc : wcond_ok (reify_e en pc c) = wcond_ok (reify_e en 0 c).
Proof.
  destruct c; cbn [reify_e]; try reflexivity.
  - destruct (nth k (e_consts en) (CInt 0)); reflexivity.
  - cbn [wcond_ok]. f_equal. destruct c1; cbn [reify_e]; try reflexivity.
    + destruct (nth k (e_consts en) (CInt 0)); reflexivity.
    + repeat match goal with |- context [let '(a, b) := ?X in _] => destruct X end; reflexivity.
    + repeat match goal with |- context [let '(a, b) := ?X in _] => destruct X end; reflexivity.
    + repeat match goal with |- context [let '(a, b) := ?X in _] => destruct X end; reflexivity.
    + repeat match goal with |- context [let '(a, b) := ?X in _] => destruct X end; destruct items; reflexivity.
    + destruct f; reflexivity.
    + destruct k; try reflexivity; unfold the_node; destruct (String.eqb _ "perFrameHook"); reflexivity.
    + unfold the_name_node. destruct (assoc_str (nm en n) ASSIGN_KNOWN_PROPERTIES); reflexivity.
  - repeat match goal with |- context [let '(a, b) := ?X in _] => destruct X end; reflexivity.
  - repeat match goal with |- context [let '(a, b) := ?X in _] => destruct X end; reflexivity.
  - repeat match goal with |- context [let '(a, b) := ?X in _] => destruct X end; reflexivity.
  - repeat match goal with |- context [let '(a, b) := ?X in _] => destruct X end; destruct items; reflexivity.
  - destruct f; reflexivity.
  - destruct k; try reflexivity; unfold the_node; destruct (String.eqb _ "perFrameHook"); reflexivity.
  - unfold the_name_node. destruct (assoc_str (nm en n) ASSIGN_KNOWN_PROPERTIES); reflexivity.
Qed.

Lemma ok2b_sound en : forall q, ok2b en q = true -> ok2 en q.
Proof.
  induction q as [|s r IH|c a IHa r IH|c a IHa eb IHe r IH|c a IHa r IH|down v lo hi a IHa r IH|off r IH];
    cbn [ok2b ok2]; intros H; repeat (apply andb_true_iff in H; let H2 := fresh "H" in destruct H as [H H2]).
  - exact I.
  - apply IH. exact H.
  - split; [apply IHa | apply IH]; assumption.
  - repeat split; [apply IHa | apply IHe | apply IH]; assumption.
  - repeat split; [intros pc; rewrite wcond_pc; assumption | apply IHa | apply IH]; assumption.
  - repeat split; [apply loc_okb_js | apply IHa | apply IH]; assumption.
  - apply IH. exact H.
Qed.
Print Assumptions ok2b_sound.
