(* C12, first half: the generators' own tree updates never change what either generator returns, so any
   sequence of Lingo / JavaScript generations on one tree yields the texts of a fresh tree. *)
From Coq Require Import ZArith List Bool String Lia.
From DRX Require Import Py.PyString Model.LingoAst Model.LingoGen Model.LingoMut Gen.Gen_Lingo.
Import ListNotations.
Open Scope string_scope.
Open Scope list_scope.
Local Notation length := List.length (only parsing).

Definition Popt (P : node -> Prop) (o : option node) : Prop := match o with Some x => P x | None => True end.
(* the operands, when the node is an operand list *)
Definition Pops (P : node -> Prop) (o : node) : Prop := match o with LoadList _ _ l => Forall P l | _ => True end.
Definition Popts (P : node -> Prop) (o : option node) : Prop := match o with Some x => Pops P x | None => True end.

Section NodeInd.
  Variable P : node -> Prop.
  Hypothesis HLeaf : forall k s p f, P (Leaf k s p f).
  Hypothesis HUnary : forall s p o, P o -> P (Unary s p o).
  Hypothesis HBinary : forall s p l r, P l -> P r -> P (Binary s p l r).
  Hypothesis HSpAssign : forall p l r m, P l -> P r -> P (SpAssign p l r m).
  Hypothesis HStrOp : forall s p a e o, P a -> Popt P e -> P o -> P (StrOp s p a e o).
  Hypothesis HUStrOp : forall s p t o, P o -> P (UStrOp s p t o).
  Hypothesis HAccessor : forall p o s, P o -> P (Accessor p o s).
  Hypothesis HKeyAccessor : forall p s, P (KeyAccessor p s).
  Hypothesis HMenuItemAcc : forall p m i, P m -> P i -> P (MenuItemAcc p m i).
  Hypothesis HMenuItemsAcc : forall p m, P m -> P (MenuItemsAcc p m).
  Hypothesis HLoadList : forall s p l, Forall P l -> P (LoadList s p l).
  Hypothesis HToList : forall p o, P o -> Pops P o -> P (ToList p o).
  Hypothesis HToDict : forall p o, P o -> Pops P o -> P (ToDict p o).
  Hypothesis HStmt : forall p c, P c -> P (Stmt p c).
  Hypothesis HCall : forall s p o a b c, Popt P o -> Popts P o -> P (Call s p o a b c).
  Hypothesis HCallMethod : forall s p o q, P o -> P q -> P (CallMethod s p o q).
  Hypothesis HRepeat : forall p e c body ty st en v sg, P c -> Forall P body -> Popt P st -> Popt P en -> P (Repeat p e c body ty st en v sg).
  Hypothesis HIfThen : forall p c a b, P c -> Forall P a -> Forall P b -> P (IfThen p c a b).
  Hypothesis HJump : forall p a, P (Jump p a).
  Hypothesis HJz : forall p c a, P c -> P (Jz p c a).
  Hypothesis HExit : forall p, P (ExitRepeat p).
  Hypothesis HTell : forall p o body, P o -> Forall P body -> P (Tell p o body).
  Hypothesis HObjRef : forall k s p i, P i -> P (ObjRef k s p i).
  Fixpoint node_ind2 (n : node) : P n :=
    let go := fix go (l : list node) : Forall P l :=
      match l with [] => Forall_nil P | x :: r => Forall_cons x (node_ind2 x) (go r) end in
    let goo := fun (o : option node) => match o return Popt P o with Some x => node_ind2 x | None => I end in
    let gops := fun (o : node) => match o return Pops P o with LoadList _ _ l => go l | _ => I end in
    match n with
    | Leaf k s p f => HLeaf k s p f
    | Unary s p o => HUnary s p o (node_ind2 o)
    | Binary s p l r => HBinary s p l r (node_ind2 l) (node_ind2 r)
    | SpAssign p l r m => HSpAssign p l r m (node_ind2 l) (node_ind2 r)
    | StrOp s p a e o => HStrOp s p a e o (node_ind2 a) (goo e) (node_ind2 o)
    | UStrOp s p t o => HUStrOp s p t o (node_ind2 o)
    | Accessor p o s => HAccessor p o s (node_ind2 o)
    | KeyAccessor p s => HKeyAccessor p s
    | MenuItemAcc p m i => HMenuItemAcc p m i (node_ind2 m) (node_ind2 i)
    | MenuItemsAcc p m => HMenuItemsAcc p m (node_ind2 m)
    | LoadList s p l => HLoadList s p l (go l)
    | ToList p o => HToList p o (node_ind2 o) (gops o)
    | ToDict p o => HToDict p o (node_ind2 o) (gops o)
    | Stmt p c => HStmt p c (node_ind2 c)
    | Call s p o a b c => HCall s p o a b c (goo o) (match o return Popts P o with Some x => gops x | None => I end)
    | CallMethod s p o q => HCallMethod s p o q (node_ind2 o) (node_ind2 q)
    | Repeat p e c body ty st en v sg => HRepeat p e c body ty st en v sg (node_ind2 c) (go body) (goo st) (goo en)
    | IfThen p c a b => HIfThen p c a b (node_ind2 c) (go a) (go b)
    | Jump p a => HJump p a
    | Jz p c a => HJz p c a (node_ind2 c)
    | ExitRepeat p => HExit p
    | Tell p o body => HTell p o body (node_ind2 o) (go body)
    | ObjRef k s p i => HObjRef k s p i (node_ind2 i)
    end.
End NodeInd.

(* ---- list helpers ---- *)
Lemma map_map_Forall {B} (f : node -> B) (g : node -> node) l :
  Forall (fun x => f (g x) = f x) l -> map f (map g l) = map f l.
Proof. induction 1 as [|x l H _ IH]; simpl; [reflexivity|]. rewrite H, IH. reflexivity. Qed.

Lemma map_but_last_length {A} (f : A -> A) l : length (map_but_last f l) = length l.
Proof. induction l as [|x [|y r] IH]; simpl in *; auto. Qed.

Lemma map_but_last_snoc {A} (f : A -> A) l x : map_but_last f (l ++ [x]) = map f l ++ [x].
Proof.
  induction l as [|y r IH]; [reflexivity|].
  change ((y :: r) ++ [x]) with (y :: (r ++ [x])). cbn [map].
  destruct (r ++ [x]) as [|z t] eqn:E; [destruct r; discriminate|].
  cbn [map_but_last]. cbn [map_but_last] in IH. rewrite IH. reflexivity.
Qed.

Lemma rev_cases {A} (l : list A) : l = [] \/ exists b x, l = b ++ [x].
Proof. destruct (rev l) as [|x b] eqn:E.
  - left. rewrite <- (rev_involutive l), E. reflexivity.
  - right. exists (rev b), x. rewrite <- (rev_involutive l), E. reflexivity.
Qed.

(* ---- what the updates preserve ---- *)
Lemma name_of_mutg ml n : name_of (mutg ml n) = name_of n.
Proof.
  destruct n; try reflexivity; try (destruct k; reflexivity); try (cbn [mutg]; destruct (mutg ml n); reflexivity).
Qed.

Lemma is_const_node_mutg ml n : is_const_node (mutg ml n) = is_const_node n.
Proof. destruct n; try reflexivity; try (destruct k; reflexivity); try (cbn [mutg]; destruct (mutg ml n); reflexivity). Qed.

(* the symbol name, when the node is a Symbol *)
Definition sym_name (n : node) : option string := match n with Leaf KSymbol s _ _ => Some s | _ => None end.
Lemma sym_name_mutg ml n : sym_name (mutg ml n) = sym_name n.
Proof.
  destruct n; try reflexivity; try (destruct k; reflexivity); try (cbn [mutg]; destruct (mutg ml n); reflexivity).
Qed.

Lemma gv_sym_name_snoc nm b x :
  gv_sym_name nm (b ++ [x]) = match sym_name x with Some s => if mem_str (lower nm) LIST_FUNCTIONS then Some s else None | None => None end.
Proof.
  unfold gv_sym_name. rewrite rev_app_distr. cbn [rev app]. destruct x; try reflexivity. destruct k; reflexivity.
Qed.
Lemma gv_sym_name_nil nm : gv_sym_name nm [] = None. Proof. reflexivity. Qed.

Lemma gv_update_snoc nm b x :
  gv_update nm (b ++ [x]) =
  match x with
  | Leaf KSymbol s p _ => if mem_str (lower nm) LIST_FUNCTIONS then b ++ [Leaf KGlobal s p true] else b ++ [x]
  | _ => b ++ [x]
  end.
Proof.
  unfold gv_update, gv_as_sym. rewrite rev_app_distr. cbn [rev app].
  destruct x; try reflexivity. destruct k; try reflexivity.
  destruct (mem_str (lower nm) LIST_FUNCTIONS); [|reflexivity]. cbn [rev]. rewrite rev_involutive. reflexivity.
Qed.

Lemma set_last_snoc l x o : set_last (l ++ [x]) o = match o with Some s => l ++ [s] | None => l ++ [x] end.
Proof. unfold set_last. destruct o; [|reflexivity]. rewrite rev_app_distr. cbn [rev app]. rewrite rev_involutive. reflexivity. Qed.

(* ---- the operand list of a call after the updates ---- *)
Definition visited (ml : bool) (nm : string) (ops : list node) : list node :=
  gv_update nm (if ml && String.eqb nm "sound" then map_but_last (mutg ml) ops else map (mutg ml) ops).

Lemma visited_nil ml nm : visited ml nm [] = [].
Proof. unfold visited. destruct (ml && String.eqb nm "sound"); reflexivity. Qed.

Lemma gv_update_nosym nm b y : sym_name y = None -> gv_update nm (b ++ [y]) = b ++ [y].
Proof. intros H. rewrite gv_update_snoc. destruct y; try reflexivity. destruct k; try reflexivity. discriminate H. Qed.

Lemma visited_snoc ml nm b x :
  exists x', visited ml nm (b ++ [x]) = map (mutg ml) b ++ [x'] /\ name_of x' = name_of x /\
    (forall (g : node -> string) (glob : string -> string),
        (forall s p, g (Leaf KGlobal s p true) = glob s) ->
        ml && String.eqb nm "sound" = false -> g (mutg ml x) = g x ->
        match option_map glob (gv_sym_name nm (map (mutg ml) b ++ [x'])) with Some s => s | None => g x' end
        = match option_map glob (gv_sym_name nm (b ++ [x])) with Some s => s | None => g x end).
Proof.
  unfold visited. destruct (ml && String.eqb nm "sound") eqn:Es.
  - rewrite map_but_last_snoc, gv_update_snoc.
    destruct x as [k s p f| | | | | | | | | | | | | | | | | | | | | |];
      try (eexists; split; [reflexivity|split; [reflexivity| intros; discriminate]]).
    destruct k; try (eexists; split; [reflexivity|split; [reflexivity| intros; discriminate]]).
    destruct (mem_str (lower nm) LIST_FUNCTIONS); eexists; (split; [reflexivity|split; [reflexivity| intros; discriminate]]).
  - rewrite map_app. cbn [map].
    destruct (sym_name x) as [sn|] eqn:Ex.
    + (* a symbol stays a symbol of the same name *)
      destruct x as [k s p f| | | | | | | | | | | | | | | | | | | | | |]; try discriminate Ex.
      destruct k; try discriminate Ex. cbn [sym_name] in Ex. injection Ex as <-.
      cbn [mutg]. rewrite gv_update_snoc.
      destruct (mem_str (lower nm) LIST_FUNCTIONS) eqn:El.
      * eexists; split; [reflexivity|split; [reflexivity|]]. intros g glob Hg _ Hx.
        rewrite !gv_sym_name_snoc. cbn [sym_name]. rewrite El. cbn [option_map]. apply Hg.
      * eexists; split; [reflexivity|split; [reflexivity|]]. intros g glob Hg _ Hx.
        rewrite !gv_sym_name_snoc. cbn [sym_name]. rewrite El. cbn [option_map]. cbn [mutg] in Hx. exact Hx.
    + pose proof (sym_name_mutg ml x) as Hs. rewrite Ex in Hs.
      rewrite (gv_update_nosym nm _ _ Hs).
      eexists; split; [reflexivity|split; [apply name_of_mutg|]]. intros g glob Hg _ Hx.
      rewrite !gv_sym_name_snoc. rewrite Hs, Ex. cbn [option_map]. exact Hx.
Qed.

(* ---- gen_lingo is blind to the updates ---- *)
Definition PL (ml : bool) (n : node) : Prop := forall sp ind, gen_lingo_sp sp (mutg ml n) ind = gen_lingo_sp sp n ind.

Lemma Forall_PL_map ml l : Forall (PL ml) l -> forall sp ind, map (fun x => gen_lingo_sp sp x ind) (map (mutg ml) l) = map (fun x => gen_lingo_sp sp x ind) l.
Proof. intros H sp ind. apply map_map_Forall. eapply Forall_impl; [|exact H]. intros x Hx. apply Hx. Qed.

Lemma but_last_snoc {A} (l : list A) x : but_last (l ++ [x]) = l.
Proof. unfold but_last. rewrite rev_app_distr. simpl. apply rev_involutive. Qed.
Lemma last_opt_snoc {A} (l : list A) x : last_opt (l ++ [x]) = Some x.
Proof. unfold last_opt. rewrite rev_app_distr. reflexivity. Qed.

Lemma sym_single_cons2 (a c : node) l : single_sym (a :: c :: l) = None.
Proof. unfold single_sym. destruct a as [k ? ? ?| | | | | | | | | | | | | | | | | | | | | |]; try reflexivity. destruct k; reflexivity. Qed.

Lemma single_sym_visited_go ml ops : single_sym (visited ml "go" ops) = single_sym ops.
Proof.
  unfold visited. change (String.eqb "go" "sound") with false. rewrite andb_false_r.
  destruct (rev_cases ops) as [->|[b [x ->]]]; [reflexivity|].
  rewrite map_app. cbn [map]. rewrite gv_update_snoc.
  change (mem_str (lower "go") LIST_FUNCTIONS) with false.
  assert (E : match mutg ml x with Leaf KSymbol s p _ => map (mutg ml) b ++ [mutg ml x] | _ => map (mutg ml) b ++ [mutg ml x] end
              = map (mutg ml) b ++ [mutg ml x]) by (destruct (mutg ml x) as [k ? ? ?| | | | | | | | | | | | | | | | | | | | | |]; try reflexivity; destruct k; reflexivity).
  cbv iota. rewrite E.
  destruct b as [|y b]; cbn [map app].
  - unfold single_sym. destruct x as [k s p f| | | | | | | | | | | | | | | | | | | | | |]; try reflexivity; try (cbn [mutg]; destruct (mutg ml _); reflexivity).
  - destruct b; cbn [map app]; rewrite !sym_single_cons2; reflexivity.
Qed.
Lemma go_sym_visited ml nm ops : go_sym nm (visited ml nm ops) = go_sym nm ops.
Proof.
  unfold go_sym. destruct (String.eqb nm "go") eqn:E; [|reflexivity]. apply String.eqb_eq in E. subst nm. apply single_sym_visited_go.
Qed.
Lemma go_bare_visited ml nm paren ops : go_bare nm paren (visited ml nm ops) = go_bare nm paren ops.
Proof.
  unfold go_bare. destruct (String.eqb nm "go") eqn:E; [|reflexivity]. apply String.eqb_eq in E. subst nm.
  rewrite single_sym_visited_go. reflexivity.
Qed.

(* CallFunction.generate_lingo once the operand texts are known *)
Definition lingo_call_text (sp : bool) (name ln : string) (use_paren with_result : bool) (empty : bool)
           (strs : list string) (last_name : option string) (gobare : option string) : string :=
  if empty then (if use_paren && negb sp && negb with_result && starts_with "<" ln then name ++ "()" else name)%string
  else if String.eqb name "sound" then
         match last_name with
         | Some modif => ("sound " ++ modif ++ " " ++ join ", " (rev (but_last strs)))%string
         | None => name
         end
       else
         match gobare with
         | Some s => (name ++ " " ++ s)%string
         | None =>
           let ps := join ", " (rev strs) in
           (if use_paren && negb sp then name ++ "(" ++ ps ++ ")" else name ++ " " ++ ps)%string
         end.
Definition is_nil {A} (l : list A) : bool := match l with [] => true | _ => false end.

Lemma gen_lingo_call_eq sp nm p ln lp ops up it wr ind :
  gen_lingo_sp sp (Call nm p (Some (LoadList ln lp ops)) up it wr) ind
  = lingo_call_text sp nm ln up wr (is_nil ops)
      (set_last (map (fun x => gen_lingo_sp false x ind) ops) (gv_sym_name nm ops)) (option_map name_of (last_opt ops))
      (go_bare nm (up && negb sp) ops).
Proof.
  destruct ops as [|y r]; [reflexivity|].
  cbn [gen_lingo_sp]. unfold lingo_call_text. cbn [is_nil].
  destruct (String.eqb nm "sound"); [|reflexivity].
  destruct (last_opt (y :: r)); reflexivity.
Qed.

Lemma is_nil_snoc {A} (l : list A) x : is_nil (l ++ [x]) = false.
Proof. destruct l; reflexivity. Qed.

Lemma gen_lingo_call ml nm p ln lp ops up it wr :
  Forall (PL ml) ops ->
  forall sp ind, gen_lingo_sp sp (Call nm p (Some (LoadList ln lp (visited ml nm ops))) up it wr) ind
               = gen_lingo_sp sp (Call nm p (Some (LoadList ln lp ops)) up it wr) ind.
Proof.
  intros HF sp ind. rewrite !gen_lingo_call_eq. rewrite go_bare_visited.
  destruct (rev_cases ops) as [->|[b [x ->]]].
  - rewrite visited_nil. reflexivity.
  - apply Forall_app in HF. destruct HF as [Hb Hx]. inversion Hx as [|? ? Hx1 _]; subst.
    destruct (visited_snoc ml nm b x) as [x' [Hv [Hn Hstr]]]. rewrite Hv.
    rewrite !map_app. cbn [map]. rewrite !set_last_snoc, !is_nil_snoc, !last_opt_snoc. cbn [option_map]. rewrite Hn.
    rewrite (Forall_PL_map ml b Hb false ind).
    unfold lingo_call_text.
    destruct (String.eqb nm "sound") eqn:Es.
    + destruct (gv_sym_name nm (map (mutg ml) b ++ [x'])), (gv_sym_name nm (b ++ [x])); rewrite !but_last_snoc; reflexivity.
    + specialize (Hstr (fun y => gen_lingo_sp false y ind) (fun s => s) (fun s p => eq_refl) (andb_false_r ml) (Hx1 false ind)).
      assert (Hom : forall o : option string, option_map (fun s : string => s) o = o) by (intros [|]; reflexivity).
      rewrite !Hom in Hstr.
      destruct (gv_sym_name nm (map (mutg ml) b ++ [x'])), (gv_sym_name nm (b ++ [x])); rewrite Hstr; reflexivity.
Qed.

Section DictStrs.
  Variable g : node -> string.
  Fixpoint dict_strs (l : list node) : list string :=
    match l with
    | v :: s :: r => (g s ++ ": " ++ g v)%string :: dict_strs r
    | _ => []
    end.
End DictStrs.
Lemma dict_strs_map ml (g : node -> string) : forall l, Forall (fun x => g (mutg ml x) = g x) l -> dict_strs g (map (mutg ml) l) = dict_strs g l.
Proof.
  fix IH 1. intros [|v [|s r]] H; try reflexivity.
  inversion H as [|? ? Hv H1]; subst. inversion H1 as [|? ? Hs H2]; subst.
  cbn [map dict_strs]. rewrite Hv, Hs, (IH r H2). reflexivity.
Qed.

Lemma opt_PL ml o : Popt (PL ml) o -> forall sp ind,
  match option_map (mutg ml) o with Some s => gen_lingo_sp sp s ind | None => ""%string end
  = match o with Some s => gen_lingo_sp sp s ind | None => ""%string end.
Proof. destruct o; intros H sp ind; cbn [option_map]; [apply H | reflexivity]. Qed.

Lemma PL_all ml : forall n, PL ml n.
Proof.
  apply node_ind2; unfold PL.
  - (* Leaf *) intros k s p f sp ind. destruct k; reflexivity.
  - intros s p o H sp ind. cbn [mutg gen_lingo_sp]. rewrite H. reflexivity.
  - intros s p l r Hl Hr sp ind. cbn [mutg gen_lingo_sp]. rewrite Hl, Hr. reflexivity.
  - intros p l r m Hl Hr sp ind. cbn [mutg gen_lingo_sp]. rewrite Hl, Hr. reflexivity.
  - intros s p a e o Ha He Ho sp ind. cbn [mutg gen_lingo_sp]. rewrite Ha, Ho. destruct e; cbn [option_map]; [rewrite (He false 0%nat)|]; reflexivity.
  - intros s p t o Ho sp ind. cbn [mutg gen_lingo_sp]. rewrite Ho. reflexivity.
  - intros p o s Ho sp ind. cbn [mutg gen_lingo_sp]. rewrite Ho. reflexivity.
  - reflexivity.
  - intros p m i Hm Hi sp ind. cbn [mutg gen_lingo_sp]. rewrite Hm, Hi. reflexivity.
  - intros p m Hm sp ind. cbn [mutg gen_lingo_sp]. rewrite Hm. reflexivity.
  - intros s p l Hl sp ind. cbn [mutg gen_lingo_sp]. rewrite (Forall_PL_map ml l Hl false ind). reflexivity.
  - intros p o _ Ho sp ind. cbn [mutg gen_lingo_sp]. destruct o; try reflexivity. cbn [Pops] in Ho. rewrite (Forall_PL_map ml ops Ho false ind). reflexivity.
  - (* ToDict *) intros p o _ Ho sp ind. cbn [mutg]. destruct o; try reflexivity. cbn [Pops] in Ho.
    destruct ops as [|v r]; [reflexivity|].
    change (gen_lingo_sp sp (ToDict p (LoadList name pos (map (mutg ml) (v :: r)))) ind)
      with ("[" ++ join ", " (rev (dict_strs (fun x => gen_lingo_sp false x ind) (map (mutg ml) (v :: r)))) ++ "]")%string.
    change (gen_lingo_sp sp (ToDict p (LoadList name pos (v :: r))) ind)
      with ("[" ++ join ", " (rev (dict_strs (fun x => gen_lingo_sp false x ind) (v :: r))) ++ "]")%string.
    rewrite (dict_strs_map ml); [reflexivity|]. eapply Forall_impl; [|exact Ho]. intros x Hx. apply Hx.
  - (* Stmt *) intros p c Hc sp ind. cbn [mutg gen_lingo_sp]. f_equal. f_equal.
    rewrite <- (Hc true ind). destruct (mutg ml c); try reflexivity.
    destruct ml; [|reflexivity]. cbn [gen_lingo_sp]. cbn [negb andb]. rewrite !andb_false_r. reflexivity.
  - (* Call *) intros s p o a b c Ho Hops sp ind. destruct o as [[]|]; try reflexivity.
    cbn [Popts Pops] in Hops. cbn [mutg]. apply (gen_lingo_call ml s p name pos ops a b c Hops).
  - intros s p o q Ho Hq sp ind. cbn [mutg gen_lingo_sp]. rewrite Ho, Hq. reflexivity.
  - (* Repeat *) intros p e c body ty st en v sg Hc Hb Hst Hen sp ind. cbn [mutg gen_lingo_sp].
    rewrite Hc. rewrite (Forall_PL_map ml body Hb false (S ind)).
    destruct (String.eqb ty "while") eqn:Ew; [reflexivity|].
    rewrite (opt_PL ml st Hst false 0%nat).
    destruct (String.eqb ty "for") eqn:Ef; [|reflexivity].
    destruct ml; cbn [andb]; [|reflexivity]. rewrite (opt_PL true en Hen false 0%nat). reflexivity.
  - intros p c a b Hc Ha Hb sp ind. cbn [mutg gen_lingo_sp]. rewrite Hc.
    rewrite (Forall_PL_map ml a Ha false (S ind)), (Forall_PL_map ml b Hb false (S ind)).
    destruct b; reflexivity.
  - reflexivity.
  - reflexivity.
  - reflexivity.
  - intros p o body Ho Hb sp ind. cbn [mutg gen_lingo_sp]. rewrite Ho. rewrite (Forall_PL_map ml body Hb false (S ind)). reflexivity.
  - intros k s p i Hi sp ind. cbn [mutg gen_lingo_sp]. rewrite is_const_node_mutg, Hi. reflexivity.
Qed.

(* ---- gen_js is blind to the updates ---- *)
Definition PJ (ml : bool) (n : node) : Prop := forall ind fm, gen_js (mutg ml n) ind fm = gen_js n ind fm.

Lemma Forall_PJ_map ml l : Forall (PJ ml) l -> forall ind fm, map (fun x => gen_js x ind fm) (map (mutg ml) l) = map (fun x => gen_js x ind fm) l.
Proof. intros H ind fm. apply map_map_Forall. eapply Forall_impl; [|exact H]. intros x Hx. apply Hx. Qed.

Lemma visited_sound ml nm b x :
  ml && String.eqb nm "sound" = true -> visited ml nm (b ++ [x]) = map (mutg ml) b ++ [x].
Proof.
  intros H. apply andb_true_iff in H. destruct H as [-> Hn]. apply String.eqb_eq in Hn. subst nm.
  unfold visited. cbn [andb]. change (String.eqb "sound" "sound") with true. cbn iota.
  rewrite map_but_last_snoc, gv_update_snoc.
  destruct x; try reflexivity. destruct k; try reflexivity.
Qed.

Lemma gen_js_call ml nm p ln lp ops up it wr :
  Forall (PJ ml) ops ->
  forall ind fm, gen_js (Call nm p (Some (LoadList ln lp (visited ml nm ops))) up it wr) ind fm
               = gen_js (Call nm p (Some (LoadList ln lp ops)) up it wr) ind fm.
Proof.
  intros HF ind fm. cbn [gen_js].
  destruct (rev_cases ops) as [->|[b [x ->]]].
  - rewrite visited_nil. reflexivity.
  - apply Forall_app in HF. destruct HF as [Hb Hx]. inversion Hx as [|? ? Hx1 _]; subst.
    destruct (ml && String.eqb nm "sound") eqn:Es.
    + rewrite (visited_sound ml nm b x Es). rewrite !map_app. cbn [map]. rewrite (Forall_PJ_map ml b Hb ind fm).
      rewrite !gv_sym_name_snoc, !last_opt_snoc. rewrite !set_last_snoc.
      assert (Hg : forall l, go_sym nm l = None).
      { intros l. unfold go_sym. destruct (andb_prop _ _ Es) as [_ Es']. apply String.eqb_eq in Es'. subst nm. reflexivity. }
      rewrite !Hg. reflexivity.
    + destruct (visited_snoc ml nm b x) as [x' [Hv [Hn Hstr]]]. rewrite Hv.
      rewrite <- Hv, go_sym_visited, Hv.
      rewrite !map_app. cbn [map]. rewrite !set_last_snoc, !last_opt_snoc. cbn [option_map]. rewrite Hn.
      rewrite (Forall_PJ_map ml b Hb ind fm).
      specialize (Hstr (fun y => gen_js y ind fm) (fun s => ("_global." ++ s)%string) (fun s p => eq_refl) Es (Hx1 ind fm)).
      destruct (gv_sym_name nm (map (mutg ml) b ++ [x'])), (gv_sym_name nm (b ++ [x])); cbn [option_map] in *; rewrite Hstr; reflexivity.
Qed.

Lemma name_is_int_mutg ml n : name_is_int (mutg ml n) = name_is_int n.
Proof. destruct n; try reflexivity; try (destruct k; reflexivity); try (cbn [mutg]; destruct (mutg ml n); reflexivity). Qed.
Lemma name_is_mutg ml n lit : name_is (mutg ml n) lit = name_is n lit.
Proof. unfold name_is. rewrite name_is_int_mutg, name_of_mutg. reflexivity. Qed.

Lemma opt_PJ ml o : Popt (PJ ml) o -> forall ind fm,
  match option_map (mutg ml) o with Some s => gen_js s ind fm | None => ""%string end
  = match o with Some s => gen_js s ind fm | None => ""%string end.
Proof. destruct o; intros H ind fm; cbn [option_map]; [apply H | reflexivity]. Qed.

Lemma js_receiver_mutg ml n s : js_receiver (mutg ml n) s = js_receiver n s.
Proof. destruct n; try reflexivity; try (destruct k; reflexivity); try (cbn [mutg]; destruct (mutg ml n); reflexivity). Qed.
Lemma wrap_paren_mutg ml n s : wrap_paren (mutg ml n) s = wrap_paren n s.
Proof. destruct n; try reflexivity; try (destruct k; reflexivity); try (cbn [mutg]; destruct (mutg ml n); reflexivity). Qed.

Lemma PJ_all ml : forall n, PJ ml n.
Proof.
  apply node_ind2; unfold PJ.
  - (* Leaf *) intros k s p f ind fm. destruct k; reflexivity.
  - intros s p o H ind fm. cbn [mutg gen_js]. rewrite H. reflexivity.
  - intros s p l r Hl Hr ind fm. cbn [mutg gen_js]. rewrite Hl, Hr, js_receiver_mutg. reflexivity.
  - intros p l r m Hl Hr ind fm. cbn [mutg gen_js]. rewrite Hl, Hr. reflexivity.
  - intros s p a e o Ha He Ho ind fm. cbn [mutg gen_js]. rewrite Ha, Ho. destruct e; cbn [option_map]; [rewrite (He 0%nat fm)|]; reflexivity.
  - (* UStrOp *) intros s p t o Ho ind fm. cbn [mutg gen_js]. rewrite name_is_mutg, Ho.
    destruct t; [reflexivity|]. destruct (name_is o "menus"); [|reflexivity].
    destruct o; try reflexivity; try (cbn [mutg]; destruct (mutg ml o); reflexivity).
    all: try (destruct k; reflexivity).
  - intros p o s Ho ind fm. cbn [mutg gen_js]. rewrite Ho. reflexivity.
  - reflexivity.
  - intros p m i Hm Hi ind fm. cbn [mutg gen_js]. rewrite Hm, Hi. reflexivity.
  - intros p m Hm ind fm. cbn [mutg gen_js]. rewrite Hm. reflexivity.
  - intros s p l Hl ind fm. cbn [mutg gen_js]. rewrite (Forall_PJ_map ml l Hl ind fm). reflexivity.
  - intros p o _ Ho ind fm. cbn [mutg gen_js]. destruct o; try reflexivity. cbn [Pops] in Ho. rewrite (Forall_PJ_map ml ops Ho ind fm). reflexivity.
  - intros p o _ Ho ind fm. cbn [mutg gen_js]. destruct o; try reflexivity. cbn [Pops] in Ho. rewrite (Forall_PJ_map ml ops Ho ind fm). reflexivity.
  - (* Stmt *) intros p c Hc ind fm. cbn [mutg].
    assert (E : gen_js (Stmt p (match mutg ml c with
                                | Call nm cp params up it wr => Call nm cp params (if ml then false else up) it wr
                                | c0 => c0 end)) ind fm = gen_js (Stmt p (mutg ml c)) ind fm)
      by (destruct (mutg ml c); reflexivity).
    rewrite E. cbn [gen_js]. rewrite Hc.
    assert (E2 : forall (A : Type) (x y : A), match mutg ml c with Call _ _ _ _ _ true => x | _ => y end
                                            = match c with Call _ _ _ _ _ true => x | _ => y end).
    { intros A x y. destruct c; try reflexivity; try (destruct k; reflexivity); cbn [mutg]; destruct (mutg ml c); reflexivity. }
    rewrite E2. reflexivity.
  - (* Call *) intros s p o a b c Ho Hops ind fm. destruct o as [[]|]; try reflexivity.
    cbn [Popts Pops] in Hops. cbn [mutg]. apply (gen_js_call ml s p name pos ops a b c Hops).
  - intros s p o q Ho Hq ind fm. cbn [mutg gen_js]. rewrite Ho, Hq. reflexivity.
  - (* Repeat *) intros p e c body ty st en v sg Hc Hb Hst Hen ind fm. cbn [mutg gen_js].
    rewrite Hc, wrap_paren_mutg. rewrite (Forall_PJ_map ml body Hb (S ind) fm).
    destruct (String.eqb ty "while") eqn:Ew; [reflexivity|].
    rewrite (opt_PJ ml st Hst 0%nat fm). reflexivity.
  - intros p c a b Hc Ha Hb ind fm. cbn [mutg gen_js]. rewrite Hc, wrap_paren_mutg.
    rewrite (Forall_PJ_map ml a Ha (S ind) fm), (Forall_PJ_map ml b Hb (S ind) fm).
    destruct b; reflexivity.
  - reflexivity.
  - reflexivity.
  - reflexivity.
  - intros p o body Ho Hb ind fm. cbn [mutg gen_js]. rewrite Ho, wrap_paren_mutg. rewrite (Forall_PJ_map ml body Hb (S ind) fm). reflexivity.
  - intros k s p i Hi ind fm. cbn [mutg gen_js]. rewrite is_const_node_mutg, Hi. reflexivity.
Qed.

(* ---- script level ---- *)
Lemma str_leb_refl a : str_leb a a = true.
Proof. induction a as [|c a IH]; simpl; [reflexivity|]. rewrite Nat.ltb_irrefl. exact IH. Qed.

Lemma str_leb_total a : forall b, str_leb a b = false -> str_leb b a = true.
Proof.
  induction a as [|x a IH]; intros [|y b]; simpl; try discriminate; try reflexivity.
  destruct (Nat.ltb_spec (Ascii.nat_of_ascii x) (Ascii.nat_of_ascii y)); [discriminate|].
  destruct (Nat.ltb_spec (Ascii.nat_of_ascii y) (Ascii.nat_of_ascii x)); [reflexivity|]. apply IH.
Qed.

Lemma str_leb_trans a : forall b c, str_leb a b = true -> str_leb b c = true -> str_leb a c = true.
Proof.
  induction a as [|x a IH]; intros [|y b] [|z c]; simpl; try discriminate; try reflexivity.
  destruct (Nat.ltb_spec (Ascii.nat_of_ascii x) (Ascii.nat_of_ascii y)).
  - intros _. destruct (Nat.ltb_spec (Ascii.nat_of_ascii y) (Ascii.nat_of_ascii z)).
    + intros _. destruct (Nat.ltb_spec (Ascii.nat_of_ascii x) (Ascii.nat_of_ascii z)); [reflexivity|lia].
    + destruct (Nat.ltb_spec (Ascii.nat_of_ascii z) (Ascii.nat_of_ascii y)); [discriminate|].
      intros _. destruct (Nat.ltb_spec (Ascii.nat_of_ascii x) (Ascii.nat_of_ascii z)); [reflexivity|lia].
  - destruct (Nat.ltb_spec (Ascii.nat_of_ascii y) (Ascii.nat_of_ascii x)); [discriminate|]. intros Hab.
    destruct (Nat.ltb_spec (Ascii.nat_of_ascii y) (Ascii.nat_of_ascii z)).
    + intros _. destruct (Nat.ltb_spec (Ascii.nat_of_ascii x) (Ascii.nat_of_ascii z)); [reflexivity|lia].
    + destruct (Nat.ltb_spec (Ascii.nat_of_ascii z) (Ascii.nat_of_ascii y)); [discriminate|]. intros Hbc.
      destruct (Nat.ltb_spec (Ascii.nat_of_ascii x) (Ascii.nat_of_ascii z)); [reflexivity|].
      destruct (Nat.ltb_spec (Ascii.nat_of_ascii z) (Ascii.nat_of_ascii x)); [lia|]. eapply IH; eauto.
Qed.

Definition le_name (x y : node) : Prop := str_leb (name_of x) (name_of y) = true.
Inductive sorted : list node -> Prop :=
| sorted_nil : sorted []
| sorted_one x : sorted [x]
| sorted_cons x y l : le_name x y -> sorted (y :: l) -> sorted (x :: y :: l).

Lemma insert_sorted x : forall l, sorted l -> sorted (insert_by_name x l).
Proof.
  induction l as [|y l IH]; intros Hs; cbn [insert_by_name]; [constructor|].
  destruct (str_leb (name_of y) (name_of x)) eqn:E.
  - inversion Hs as [| |? z l' Hyz Hs']; subst.
    + cbn [insert_by_name]. constructor; [exact E|constructor].
    + specialize (IH Hs'). cbn [insert_by_name] in *. destruct (str_leb (name_of z) (name_of x)) eqn:E2.
      * constructor; assumption.
      * constructor; [exact E|]. exact IH.
  - constructor; [apply str_leb_total; exact E | exact Hs].
Qed.

Lemma sort_acc_sorted l : forall acc, sorted acc -> sorted (fold_left (fun a x => insert_by_name x a) l acc).
Proof. induction l as [|x l IH]; intros acc H; simpl; [exact H|]. apply IH. apply insert_sorted. exact H. Qed.
Lemma sort_sorted l : sorted (sort_by_name l).
Proof. apply sort_acc_sorted. constructor. Qed.

(* inserting an element that is not below the last one appends it *)
Lemma insert_append x : forall l, Forall (fun y => le_name y x) l -> insert_by_name x l = l ++ [x].
Proof.
  induction l as [|y l IH]; intros H; cbn [insert_by_name]; [reflexivity|].
  inversion H as [|? ? Hy Hl]; subst. unfold le_name in Hy. rewrite Hy. rewrite (IH Hl). reflexivity.
Qed.

Lemma sorted_all_le x : forall l, sorted (x :: l) -> Forall (fun y => le_name x y) l.
Proof.
  induction l as [|y l IH]; intros H; [constructor|].
  inversion H as [| |? ? ? Hxy Hs]; subst. constructor; [exact Hxy|].
  apply IH. inversion Hs as [| |? z l' Hyz Hs']; subst; [constructor|].
  constructor; [|exact Hs']. unfold le_name in *. eapply str_leb_trans; eauto.
Qed.

Lemma sorted_tail a l : sorted (a :: l) -> sorted l.
Proof. intros H. inversion H; subst; [constructor|assumption]. Qed.

Lemma sort_acc_of_sorted l : forall acc, sorted (acc ++ l) -> fold_left (fun a x => insert_by_name x a) l acc = acc ++ l.
Proof.
  induction l as [|x l IH]; intros acc H; simpl; [rewrite app_nil_r; reflexivity|].
  rewrite insert_append.
  - rewrite IH; rewrite <- app_assoc; [reflexivity|exact H].
  - (* every element of acc is below x *)
    clear IH. induction acc as [|a acc IHa]; [constructor|].
    pose proof (sorted_all_le a (acc ++ x :: l) H) as Hall.
    constructor.
    + apply Forall_app in Hall. destruct Hall as [_ Hr]. inversion Hr; assumption.
    + apply IHa. apply (sorted_tail a). exact H.
Qed.

Lemma sort_idempotent l : sort_by_name (sort_by_name l) = sort_by_name l.
Proof. unfold sort_by_name at 1. rewrite (sort_acc_of_sorted (sort_by_name l) []); [reflexivity|]. apply sort_sorted. Qed.

(* the statements a script-level generator prints *)
Lemma emitted_cases sts :
  (emitted_stmts sts = sts) \/ (exists b x, sts = b ++ [x] /\ emitted_stmts sts = b /\
                                  String.eqb (name_of (code_of x)) "exit" && negb (name_is_int (code_of x)) = true).
Proof.
  destruct (rev_cases sts) as [->|[b [x ->]]]; [left; reflexivity|].
  unfold emitted_stmts. rewrite rev_app_distr. cbn [rev app].
  destruct (String.eqb (name_of (code_of x)) "exit" && negb (name_is_int (code_of x))) eqn:E.
  - right. exists b, x. rewrite rev_involutive. auto.
  - left. reflexivity.
Qed.

Lemma code_of_mutg_name ml x : name_of (code_of (mutg ml x)) = name_of (code_of x) /\ name_is_int (code_of (mutg ml x)) = name_is_int (code_of x).
Proof.
  destruct x; try (split; [apply name_of_mutg | apply name_is_int_mutg]); try (destruct k; split; reflexivity).
  cbn [mutg code_of].
  match goal with |- context [mutg ml ?c] =>
    pose proof (name_of_mutg ml c) as H1; pose proof (name_is_int_mutg ml c) as H2; destruct (mutg ml c) end; simpl in *; auto.
Qed.

Lemma emitted_mut ml sts : emitted_stmts (mut_stmts (mutg ml) sts) = map (mutg ml) (emitted_stmts sts).
Proof.
  unfold mut_stmts.
  destruct (emitted_cases sts) as [E|[b [x [-> [E Hx]]]]].
  - rewrite E. rewrite firstn_all, skipn_all, app_nil_r.
    (* mapping does not turn the last statement into an exit *)
    destruct (rev_cases sts) as [->|[b [x ->]]]; [reflexivity|].
    rewrite map_app. cbn [map]. unfold emitted_stmts in *. rewrite rev_app_distr in *. cbn [rev app] in *.
    destruct (code_of_mutg_name ml x) as [-> ->].
    destruct (String.eqb (name_of (code_of x)) "exit" && negb (name_is_int (code_of x))) eqn:Ex.
    + rewrite rev_involutive in E. exfalso. apply (f_equal (@length node)) in E. rewrite app_length in E. simpl in E. lia.
    + reflexivity.
  - rewrite E. rewrite firstn_app, firstn_all, Nat.sub_diag. cbn [firstn]. rewrite app_nil_r.
    rewrite skipn_app, skipn_all, Nat.sub_diag. cbn [skipn app].
    unfold emitted_stmts. rewrite rev_app_distr. cbn [rev app]. rewrite Hx. apply rev_involutive.
Qed.

Lemma lingo_function_mut ml sc sc' f :
  s_props sc' = s_props sc -> s_globals sc' = s_globals sc ->
  forall f', f_name f' = f_name f -> f_params f' = f_params f -> f_is_method f' = f_is_method f ->
             (f_globals f' = f_globals f \/ f_globals f' = sort_by_name (f_globals f)) ->
             f_stmts f' = mut_stmts (mutg ml) (f_stmts f) ->
  lingo_function sc' f' = lingo_function sc f.
Proof.
  intros Hp Hg f' Hn Hpa Hm Hgl Hst. unfold lingo_function. rewrite Hp, Hg, Hn, Hpa, Hm, Hst.
  rewrite emitted_mut.
  assert (Hs : sort_by_name (f_globals f') = sort_by_name (f_globals f)) by (destruct Hgl as [->| ->]; [reflexivity|apply sort_idempotent]).
  rewrite Hs.
  assert (E : map (fun st : node => gen_lingo st 1) (map (mutg ml) (emitted_stmts (f_stmts f)))
              = map (fun st : node => gen_lingo st 1) (emitted_stmts (f_stmts f)))
    by (apply map_map_Forall; apply Forall_forall; intros x _; apply PL_all).
  rewrite E. reflexivity.
Qed.

Lemma js_method_mut ml f f' :
  f_name f' = f_name f -> f_params f' = f_params f -> f_locals f' = f_locals f ->
  f_stmts f' = mut_stmts (mutg ml) (f_stmts f) -> js_method f' = js_method f /\ js_function f' = js_function f.
Proof.
  intros Hn Hp Hl Hs. unfold js_method, js_function, js_locals. rewrite Hn, Hp, Hl, Hs. rewrite emitted_mut.
  assert (E : forall k, map (fun st : node => gen_js st k true) (map (mutg ml) (emitted_stmts (f_stmts f)))
                      = map (fun st : node => gen_js st k true) (emitted_stmts (f_stmts f)))
    by (intros k; apply map_map_Forall; apply Forall_forall; intros x _; apply PJ_all).
  rewrite !E. split; reflexivity.
Qed.

Definition mut_script (ml : bool) : script -> script := if ml then mut_script_lingo else mut_script_js.

Lemma map_ext_in2 {A B} (f g : A -> B) (h : A -> A) l : (forall x, f (h x) = g x) -> map f (map h l) = map g l.
Proof. intros H. induction l; simpl; [reflexivity|]. rewrite H, IHl. reflexivity. Qed.

Lemma generate_lingo_mut ml sc : generate_lingo_code (mut_script ml sc) = generate_lingo_code sc.
Proof.
  unfold generate_lingo_code. destruct ml; cbn [mut_script mut_script_lingo mut_script_js s_props s_globals s_factory s_funcs];
    f_equal; f_equal; f_equal; f_equal; apply map_ext_in2; intros f.
  - apply (lingo_function_mut true); try reflexivity. right. reflexivity.
  - apply (lingo_function_mut false); try reflexivity. left. reflexivity.
Qed.

Lemma generate_js_mut ml sc : generate_js_code (mut_script ml sc) = generate_js_code sc.
Proof.
  unfold generate_js_code, generate_factory_js_code, generate_class_js_code, generate_common_js_code.
  destruct ml; cbn [mut_script mut_script_lingo mut_script_js s_props s_globals s_factory s_funcs s_scr_num].
  - assert (H1 : map js_method (map mut_fn_lingo (s_funcs sc)) = map js_method (s_funcs sc))
      by (apply map_ext_in2; intros f; apply (js_method_mut true); reflexivity).
    assert (H2 : map js_function (map mut_fn_lingo (s_funcs sc)) = map js_function (s_funcs sc))
      by (apply map_ext_in2; intros f; apply (js_method_mut true); reflexivity).
    rewrite H1, H2. rewrite !map_map. reflexivity.
  - assert (H1 : map js_method (map mut_fn_js (s_funcs sc)) = map js_method (s_funcs sc))
      by (apply map_ext_in2; intros f; apply (js_method_mut false); reflexivity).
    assert (H2 : map js_function (map mut_fn_js (s_funcs sc)) = map js_function (s_funcs sc))
      by (apply map_ext_in2; intros f; apply (js_method_mut false); reflexivity).
    rewrite H1, H2. rewrite !map_map. reflexivity.
Qed.

(* any sequence of generations on one tree gives, at every step, the text of a fresh tree *)
Definition fresh (sc : script) (o : gop) : gop * string :=
  match o with GL => (GL, generate_lingo_code sc) | GJ => (GJ, generate_js_code sc) end.

Theorem history_free : forall ops sc, run_history sc ops = map (fresh sc) ops.
Proof.
  induction ops as [|o ops IH]; intros sc; [reflexivity|].
  destruct o; cbn [run_history map fresh]; f_equal; rewrite IH; apply map_ext; intros o;
    destruct o; cbn [fresh]; f_equal.
  - apply (generate_lingo_mut true). - apply (generate_js_mut true).
  - apply (generate_lingo_mut false). - apply (generate_js_mut false).
Qed.
Print Assumptions history_free.
