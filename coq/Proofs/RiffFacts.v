From Coq Require Import List ZArith Bool Lia.
From Coq.Strings Require Import Byte.
From DRX Require Import Py.PyBytes Py.Layout Proofs.PyBytesFacts Proofs.LayoutFacts Model.Riff.
Import ListNotations.
Open Scope Z_scope.

Lemma bytes_eqb_true a : forall b, bytes_eqb a b = true -> a = b.
Proof.
  induction a as [|x a IH]; intros [|y b]; cbn [bytes_eqb]; try discriminate; [reflexivity|].
  intros H. apply andb_true_iff in H. destruct H as [H1 H2]. apply Byte.byte_dec_bl in H1. f_equal; auto.
Qed.

Definition safe (b : byte) : Prop := 32 <= u8 b <= 122.

Lemma sanitize_char_safe b : safe (sanitize_char b).
Proof.
  unfold safe, sanitize_char.
  destruct (Z.leb_spec 32 (u8 b)); destruct (Z.leb_spec (u8 b) 122); cbn [andb]; try lia;
    change (u8 "_"%byte) with 95; lia.
Qed.

Lemma sanitize_char_id b : safe b -> sanitize_char b = b.
Proof.
  unfold safe, sanitize_char. intros [H1 H2].
  destruct (Z.leb_spec 32 (u8 b)); destruct (Z.leb_spec (u8 b) 122); cbn [andb]; auto; lia.
Qed.

(* whatever the bytes are: a result is always four safe characters *)
Theorem chunk_id_safe d pos bo s :
  parse_chunk_id d pos bo = Ok s -> length s = 4%nat /\ Forall safe s.
Proof.
  unfold parse_chunk_id. destruct (Nat.eqb_spec (length (slice d pos (pos + 4))) 4) as [E|]; [|discriminate].
  intros [= <-]. split.
  - rewrite map_length, orient_length. exact E.
  - apply Forall_forall. intros x Hx. apply in_map_iff in Hx. destruct Hx as (y & <- & _).
    apply sanitize_char_safe.
Qed.

(* and four bytes at the position always give a result: total over all 2^32 FourCCs *)
Theorem chunk_id_total pre b0 b1 b2 b3 post bo :
  parse_chunk_id (pre ++ [b0; b1; b2; b3] ++ post) (zlen pre) bo
  = Ok (map sanitize_char (orient bo [b0; b1; b2; b3])).
Proof.
  unfold parse_chunk_id. rewrite slice_mid by reflexivity. reflexivity.
Qed.

Lemma chunk_id_at pre c post bo p :
  p = zlen pre -> length c = 4%nat ->
  parse_chunk_id (pre ++ orient bo c ++ post) p bo = Ok (map sanitize_char c).
Proof.
  intros -> H. unfold parse_chunk_id. rewrite slice_mid; auto.
  - rewrite orient_length, H, orient_involutive. reflexivity.
  - unfold zlen. rewrite orient_length, H. reflexivity.
Qed.

(* ------------------------------------------------------------------ chunk walk *)
Lemma two31 : 2 ^ (8 * Z.of_nat 4 - 1) = 2147483648. Proof. reflexivity. Qed.
Lemma two15 : 2 ^ (8 * Z.of_nat 2 - 1) = 32768. Proof. reflexivity. Qed.

Definition in32 (z : Z) : Prop := -2147483648 <= z < 2147483648.
Definition in16 (z : Z) : Prop := -32768 <= z < 32768.

Lemma rd_s4_at bo p z s a : a = zlen p -> in32 z -> rd_s 4 bo (p ++ pack 4 bo z ++ s) a = Ok z.
Proof. intros Ha Hz. apply rd_s_at; [lia | exact Ha | exact Hz]. Qed.
Lemma rd_s2_at bo p z s a : a = zlen p -> in16 z -> rd_s 2 bo (p ++ pack 2 bo z ++ s) a = Ok z.
Proof. intros Ha Hz. apply rd_s_at; [lia | exact Ha | exact Hz]. Qed.

Lemma rd_s4_at0 bo z s : in32 z -> rd_s 4 bo (pack 4 bo z ++ s) 0 = Ok z.
Proof. intros Hz. apply (rd_s4_at bo [] z s 0); [reflexivity | exact Hz]. Qed.
Lemma rd_s2_at0 bo z s : in16 z -> rd_s 2 bo (pack 2 bo z ++ s) 0 = Ok z.
Proof. intros Hz. apply (rd_s2_at bo [] z s 0); [reflexivity | exact Hz]. Qed.

Lemma zlen_orient bo l : zlen (orient bo l) = zlen l.
Proof. unfold zlen. rewrite orient_length. reflexivity. Qed.

Lemma zlen4 (l : bytes) : length l = 4%nat -> zlen l = 4.
Proof. intros H. unfold zlen. rewrite H. reflexivity. Qed.

Lemma zlen_pad c : zlen (pad_of c) = zlen (payload c) mod 2.
Proof. unfold pad_of. rewrite Zmod_odd. destruct (Z.odd (zlen (payload c))); reflexivity. Qed.

Lemma zlen_enc_chunk bo c : length (cc c) = 4%nat ->
  zlen (enc_chunk bo c) = 8 + zlen (payload c) + zlen (payload c) mod 2.
Proof.
  intros H. unfold enc_chunk. rewrite !zlen_app, zlen_orient, zlen_pack, zlen_pad.
  rewrite (zlen4 _ H). lia.
Qed.

Lemma parse_chunk_at pre c post bo p :
  p = zlen pre -> wf_chunk c ->
  parse_chunk (pre ++ enc_chunk bo c ++ post) p bo = Ok (view c).
Proof.
  intros -> [Hcc Hlen]. unfold parse_chunk, enc_chunk.
  pose proof (zlen_nonneg (payload c)) as Hnn.
  repeat rewrite <- app_assoc.
  rewrite chunk_id_at by auto. cbn [bind].
  replace (pre ++ orient bo (cc c) ++ pack 4 bo (zlen (payload c)) ++ payload c ++ pad_of c ++ post)
    with ((pre ++ orient bo (cc c)) ++ pack 4 bo (zlen (payload c)) ++ (payload c ++ pad_of c ++ post))
    by (repeat rewrite <- app_assoc; reflexivity).
  rewrite rd_s4_at; [| rewrite zlen_app, zlen_orient, (zlen4 _ Hcc); reflexivity | unfold in32; lia].
  cbn [bind]. unfold view. f_equal. f_equal.
  replace ((pre ++ orient bo (cc c)) ++ pack 4 bo (zlen (payload c)) ++ payload c ++ pad_of c ++ post)
    with ((pre ++ orient bo (cc c) ++ pack 4 bo (zlen (payload c))) ++ payload c ++ (pad_of c ++ post))
    by (repeat rewrite <- app_assoc; reflexivity).
  apply slice_mid.
  - rewrite !zlen_app, zlen_orient, zlen_pack, (zlen4 _ Hcc). lia.
  - rewrite !zlen_app, zlen_orient, zlen_pack, (zlen4 _ Hcc). lia.
Qed.

Lemma walk_enc bo cs : forall pre fuel,
  (length cs < fuel)%nat -> Forall wf_chunk cs ->
  walk fuel (pre ++ enc_body bo cs) (zlen pre) bo = Ok (map view cs).
Proof.
  induction cs as [|c cs IH]; intros pre fuel Hf Hwf.
  - unfold enc_body. cbn [map concat]. rewrite app_nil_r.
    destruct fuel; cbn [walk]; rewrite Z.ltb_irrefl; reflexivity.
  - destruct fuel as [|f]; [cbn in Hf; lia|].
    inversion Hwf as [|? ? Hc Hcs]; subst.
    unfold enc_body. cbn [map concat]. fold (enc_body bo cs).
    cbn [walk].
    assert (Hl : zlen (enc_chunk bo c) = 8 + zlen (payload c) + zlen (payload c) mod 2)
      by (apply zlen_enc_chunk; apply Hc).
    pose proof (zlen_nonneg (payload c)). pose proof (zlen_nonneg (enc_body bo cs)).
    pose proof (Z.mod_pos_bound (zlen (payload c)) 2 ltac:(lia)).
    destruct (Z.ltb_spec (zlen pre) (zlen (pre ++ enc_chunk bo c ++ enc_body bo cs))) as [_|Hge].
    2:{ rewrite !zlen_app in Hge. lia. }
    rewrite parse_chunk_at by auto. cbn [bind view snd].
    replace (zlen pre + 8 + zlen (payload c) + zlen (payload c) mod 2) with (zlen (pre ++ enc_chunk bo c))
      by (rewrite zlen_app; lia).
    replace (pre ++ enc_chunk bo c ++ enc_body bo cs) with ((pre ++ enc_chunk bo c) ++ enc_body bo cs)
      by (rewrite <- app_assoc; reflexivity).
    rewrite IH; [reflexivity | cbn in Hf; lia | assumption].
Qed.

Lemma length_enc_body bo cs : Forall wf_chunk cs -> (length cs <= length (enc_body bo cs))%nat.
Proof.
  induction 1 as [|c cs Hc _ IH]; [cbn; lia|].
  unfold enc_body. cbn [map concat length]. fold (enc_body bo cs). rewrite app_length.
  pose proof (zlen_enc_chunk bo c (proj1 Hc)) as Hl. unfold zlen at 1 in Hl.
  pose proof (zlen_nonneg (payload c)). pose proof (Z.mod_pos_bound (zlen (payload c)) 2 ltac:(lia)).
  lia.
Qed.

Theorem parse_riff_enc pre bo flen cs :
  in32 flen -> Forall wf_chunk cs ->
  parse_riff (pre ++ enc_movie bo flen cs) (zlen pre) bo = Ok (map view cs).
Proof.
  intros Hfl Hwf. unfold parse_riff, enc_movie.
  rewrite chunk_id_at by reflexivity.
  cbn [bind]. change (bytes_eqb (map sanitize_char RIFX) RIFX) with true. cbn [negb].
  replace (pre ++ orient bo RIFX ++ pack 4 bo flen ++ orient bo MV93 ++ enc_body bo cs)
    with ((pre ++ orient bo RIFX) ++ pack 4 bo flen ++ (orient bo MV93 ++ enc_body bo cs))
    by (repeat rewrite <- app_assoc; reflexivity).
  rewrite rd_s4_at; [| rewrite zlen_app, zlen_orient; reflexivity | exact Hfl]. cbn [bind].
  replace ((pre ++ orient bo RIFX) ++ pack 4 bo flen ++ orient bo MV93 ++ enc_body bo cs)
    with ((pre ++ orient bo RIFX ++ pack 4 bo flen) ++ orient bo MV93 ++ enc_body bo cs)
    by (repeat rewrite <- app_assoc; reflexivity).
  rewrite chunk_id_at; [| rewrite !zlen_app, zlen_orient, zlen_pack; change (zlen RIFX) with 4; lia | reflexivity].
  cbn [bind]. change (bytes_eqb (map sanitize_char MV93) MV93) with true. cbn [negb].
  replace ((pre ++ orient bo RIFX ++ pack 4 bo flen) ++ orient bo MV93 ++ enc_body bo cs)
    with ((pre ++ orient bo RIFX ++ pack 4 bo flen ++ orient bo MV93) ++ enc_body bo cs)
    by (repeat rewrite <- app_assoc; reflexivity).
  replace (zlen pre + 12) with (zlen (pre ++ orient bo RIFX ++ pack 4 bo flen ++ orient bo MV93))
    by (rewrite !zlen_app, !zlen_orient, zlen_pack; change (zlen RIFX) with 4; change (zlen MV93) with 4; lia).
  apply walk_enc; [|exact Hwf].
  rewrite app_length. pose proof (length_enc_body bo cs Hwf). lia.
Qed.

(* ------------------------------------------------------------------ offsets *)
Lemma offset_of_ge cs : forall i, 12 <= offset_of cs i.
Proof.
  induction cs as [|c cs IH]; intros [|i]; cbn [offset_of]; try lia.
  specialize (IH i). pose proof (zlen_nonneg (payload c)).
  pose proof (Z.mod_pos_bound (zlen (payload c)) 2 ltac:(lia)). lia.
Qed.

Theorem offset_of_increasing cs : forall i, (i < length cs)%nat -> offset_of cs i + 8 <= offset_of cs (S i).
Proof.
  induction cs as [|c cs IH]; intros i Hi; [cbn in Hi; lia|].
  pose proof (zlen_nonneg (payload c)). pose proof (Z.mod_pos_bound (zlen (payload c)) 2 ltac:(lia)).
  destruct i as [|i].
  - cbn [offset_of]. destruct cs; cbn [offset_of]; lia.
  - cbn [length] in Hi. specialize (IH i ltac:(lia)). cbn [offset_of] in *. lia.
Qed.

Lemma get_by_offset_from_nth cs : forall i base dflt, (i < length cs)%nat ->
  get_by_offset_from base (map view cs) (base + (offset_of cs i - 12)) = Ok (view (nth i cs dflt)).
Proof.
  induction cs as [|c cs IH]; intros i base dflt Hi; [cbn in Hi; lia|].
  cbn [map get_by_offset_from].
  destruct i as [|i].
  - cbn [offset_of nth]. replace (base + (12 - 12)) with base by lia. rewrite Z.eqb_refl. reflexivity.
  - cbn [offset_of nth view snd].
    pose proof (zlen_nonneg (payload c)). pose proof (Z.mod_pos_bound (zlen (payload c)) 2 ltac:(lia)).
    pose proof (offset_of_ge cs i).
    destruct (Z.eqb_spec base (base + (8 + zlen (payload c) + zlen (payload c) mod 2 + offset_of cs i - 12))); [lia|].
    cbn [length] in Hi.
    rewrite <- (IH i (base + 8 + zlen (payload c) + zlen (payload c) mod 2) dflt) by lia.
    f_equal. lia.
Qed.

(* the chunk recorded at the offset of chunk i is chunk i *)
Theorem get_by_offset_nth cs i dflt : (i < length cs)%nat ->
  get_by_offset (map view cs) (offset_of cs i) = Ok (view (nth i cs dflt)).
Proof.
  intros Hi. unfold get_by_offset.
  replace (offset_of cs i) with (12 + (offset_of cs i - 12)) by lia.
  apply get_by_offset_from_nth. exact Hi.
Qed.

Lemma get_by_offset_from_none cs : forall base off,
  (forall i, (i < length cs)%nat -> off <> base + (offset_of cs i - 12)) ->
  get_by_offset_from base (map view cs) off = Err EIndex.
Proof.
  induction cs as [|c cs IH]; intros base off H; cbn [map get_by_offset_from]; [reflexivity|].
  destruct (Z.eqb_spec base off) as [E|NE].
  - exfalso. apply (H 0%nat); [cbn; lia|]. cbn [offset_of]. lia.
  - cbn [view snd]. apply IH. intros i Hi E. apply (H (S i)); [cbn; lia|]. cbn [offset_of]. lia.
Qed.

(* any other offset is refused *)
Theorem get_by_offset_other cs off :
  (forall i, (i < length cs)%nat -> off <> offset_of cs i) ->
  get_by_offset (map view cs) off = Err EIndex.
Proof.
  intros H. unfold get_by_offset. apply get_by_offset_from_none.
  intros i Hi E. apply (H i Hi). lia.
Qed.

(* the chunk spans tile the movie: chunk i occupies exactly [offset_of i, offset_of (i+1)) *)
Lemma enc_body_split bo cs : forall i dflt, (i < length cs)%nat ->
  exists before after,
    enc_body bo cs = before ++ enc_chunk bo (nth i cs dflt) ++ after /\
    (Forall wf_chunk cs -> 12 + zlen before = offset_of cs i).
Proof.
  induction cs as [|c cs IH]; intros i dflt Hi; [cbn in Hi; lia|].
  unfold enc_body. cbn [map concat]. fold (enc_body bo cs).
  destruct i as [|i].
  - exists [], (enc_body bo cs). split; [reflexivity|]. intros _. reflexivity.
  - cbn [length] in Hi. destruct (IH i dflt ltac:(lia)) as (b & a & E & Hoff).
    exists (enc_chunk bo c ++ b), a. split.
    + cbn [nth]. rewrite E. rewrite <- app_assoc. reflexivity.
    + intros Hwf. inversion Hwf as [|? ? Hc Hcs]; subst. cbn [offset_of].
      rewrite zlen_app, (zlen_enc_chunk bo c (proj1 Hc)). specialize (Hoff Hcs). lia.
Qed.

Theorem chunk_spans_tile pre bo flen cs i dflt :
  Forall wf_chunk cs -> (i < length cs)%nat ->
  slice (pre ++ enc_movie bo flen cs) (zlen pre + offset_of cs i) (zlen pre + offset_of cs (S i))
  = enc_chunk bo (nth i cs dflt).
Proof.
  intros Hwf Hi. destruct (enc_body_split bo cs i dflt Hi) as (b & a & E & Hoff).
  specialize (Hoff Hwf). unfold enc_movie. rewrite E.
  replace (pre ++ orient bo RIFX ++ pack 4 bo flen ++ orient bo MV93 ++ b ++ enc_chunk bo (nth i cs dflt) ++ a)
    with ((pre ++ orient bo RIFX ++ pack 4 bo flen ++ orient bo MV93 ++ b) ++ enc_chunk bo (nth i cs dflt) ++ a)
    by (repeat rewrite <- app_assoc; reflexivity).
  assert (Hp : zlen (pre ++ orient bo RIFX ++ pack 4 bo flen ++ orient bo MV93 ++ b) = zlen pre + offset_of cs i).
  { rewrite !zlen_app, !zlen_orient, zlen_pack. change (zlen RIFX) with 4. change (zlen MV93) with 4. lia. }
  apply slice_mid; [lia|]. rewrite Hp.
  assert (Hwfi : wf_chunk (nth i cs dflt)) by (apply Forall_nth; assumption).
  rewrite (zlen_enc_chunk bo _ (proj1 Hwfi)).
  clear - Hi. revert i Hi. induction cs as [|c cs IH]; intros i Hi; [cbn in Hi; lia|].
  destruct i as [|i]; cbn [offset_of nth].
  - destruct cs; cbn [offset_of]; lia.
  - cbn [length] in Hi. specialize (IH i ltac:(lia)). lia.
Qed.

Theorem movie_length pre bo flen cs : Forall wf_chunk cs ->
  zlen (pre ++ enc_movie bo flen cs) = zlen pre + offset_of cs (length cs).
Proof.
  intros Hwf. unfold enc_movie. rewrite !zlen_app, !zlen_orient, zlen_pack.
  change (zlen RIFX) with 4. change (zlen MV93) with 4.
  assert (zlen (enc_body bo cs) + 12 = offset_of cs (length cs)); [|lia].
  induction Hwf as [|c cs Hc _ IH]; [reflexivity|].
  unfold enc_body. cbn [map concat length offset_of]. fold (enc_body bo cs).
  rewrite zlen_app, (zlen_enc_chunk bo c (proj1 Hc)). lia.
Qed.

(* ------------------------------------------------------------------ memory map / input map *)
Definition wf_res (r : mmap_res) : Prop := length (r_id r) = 4%nat /\ fits_all res_layout (res_vals r).
Definition wf_hdr (h : mmap_hdr) : Prop := fits_all hdr_layout (hdr_vals h).

Lemma zlen_enc_res bo r : length (r_id r) = 4%nat -> zlen (enc_res bo r) = 20.
Proof.
  intros H. unfold enc_res. rewrite zlen_app, zlen_orient, (zlen4 _ H), zlen_enc_layout. reflexivity.
Qed.

Lemma parse_mmap_resource_at pre r post bo p :
  p = zlen pre -> wf_res r ->
  parse_mmap_resource (pre ++ enc_res bo r ++ post) p bo = Ok (view_res r).
Proof.
  intros -> [Hid Hfit]. unfold parse_mmap_resource, enc_res.
  rewrite <- app_assoc. rewrite chunk_id_at by auto. cbn [bind].
  replace (pre ++ orient bo (r_id r) ++ enc_layout bo res_layout (res_vals r) [] ++ post)
    with ((pre ++ orient bo (r_id r)) ++ enc_layout bo res_layout (res_vals r) [] ++ post)
    by (rewrite <- app_assoc; reflexivity).
  rewrite read_enc_layout; [| rewrite zlen_app, zlen_orient, (zlen4 _ Hid); reflexivity | exact Hfit].
  reflexivity.
Qed.

Lemma parse_entries_enc bo rs : forall fuel pre post p,
  (length rs < fuel)%nat -> p = zlen pre -> Forall wf_res rs ->
  parse_mmap_entries fuel (zlen rs) (pre ++ concat (map (enc_res bo) rs) ++ post) p bo = Ok (map view_res rs).
Proof.
  induction rs as [|r rs IH]; intros fuel pre post p Hf -> Hwf.
  - destruct fuel; reflexivity.
  - destruct fuel as [|f]; [cbn in Hf; lia|].
    cbn [parse_mmap_entries map concat]. rewrite zlen_cons.
    pose proof (zlen_nonneg rs). destruct (Z.leb_spec (1 + zlen rs) 0); [lia|].
    inversion Hwf as [|? ? Hr Hrs]; subst.
    rewrite <- app_assoc. rewrite parse_mmap_resource_at by auto. cbn [bind].
    replace (pre ++ enc_res bo r ++ concat (map (enc_res bo) rs) ++ post)
      with ((pre ++ enc_res bo r) ++ concat (map (enc_res bo) rs) ++ post) by (rewrite <- app_assoc; reflexivity).
    replace (1 + zlen rs - 1) with (zlen rs) by lia.
    rewrite IH; [reflexivity | cbn in Hf; lia | rewrite zlen_app, (zlen_enc_res bo r (proj1 Hr)); reflexivity | exact Hrs].
Qed.

Lemma length_concat_enc_res bo rs : Forall wf_res rs -> (length rs <= length (concat (map (enc_res bo) rs)))%nat.
Proof.
  induction 1 as [|r rs Hr _ IH]; [cbn; lia|]. cbn [map concat length]. rewrite app_length.
  pose proof (zlen_enc_res bo r (proj1 Hr)) as H. unfold zlen in H. lia.
Qed.

Theorem mmap_roundtrip bo h rs tail :
  wf_hdr h -> h_used h = zlen rs -> Forall wf_res rs ->
  parse_mmap (enc_mmap bo h rs ++ tail) bo = Ok (h, map view_res rs).
Proof.
  intros Hh Hu Hrs. unfold parse_mmap, enc_mmap.
  set (H := enc_layout bo hdr_layout (hdr_vals h) []).
  assert (HL : zlen H = 24) by (unfold H; rewrite zlen_enc_layout; reflexivity).
  assert (Hs : slice ((H ++ concat (map (enc_res bo) rs)) ++ tail) 0 24 = H).
  { replace ((H ++ concat (map (enc_res bo) rs)) ++ tail) with ([] ++ H ++ (concat (map (enc_res bo) rs) ++ tail))
      by (cbn [app]; rewrite <- app_assoc; reflexivity).
    apply slice_mid; [reflexivity | rewrite HL; reflexivity]. }
  rewrite Hs.
  assert (HLn : length H = 24%nat) by (unfold zlen in HL; lia).
  rewrite HLn. cbn [Nat.eqb negb].
  replace H with ([] ++ H ++ []) at 1 by (cbn [app]; apply app_nil_r).
  unfold H at 1. rewrite read_enc_layout; [| reflexivity | exact Hh]. cbn [bind].
  change (getv (hdr_vals h) 3) with (h_used h). rewrite Hu.
  replace ((H ++ concat (map (enc_res bo) rs)) ++ tail) with (H ++ concat (map (enc_res bo) rs) ++ tail)
    by (rewrite <- app_assoc; reflexivity).
  rewrite parse_entries_enc; [| | rewrite HL; reflexivity | exact Hrs].
  2:{ rewrite !app_length. pose proof (length_concat_enc_res bo rs Hrs). lia. }
  cbn [bind].
  rewrite <- Hu. destruct h; reflexivity.
Qed.

Theorem imap_roundtrip bo vs :
  fits_all imap_layout vs -> parse_imap (enc_imap bo vs) bo = Ok (firstn 6 vs).
Proof.
  intros Hf. unfold parse_imap, enc_imap.
  assert (HL : zlen (enc_layout bo imap_layout vs []) = 24) by (rewrite zlen_enc_layout; reflexivity).
  assert (HLn : length (enc_layout bo imap_layout vs []) = 24%nat) by (unfold zlen in HL; lia).
  rewrite HLn. cbn [Nat.eqb negb].
  replace (enc_layout bo imap_layout vs []) with ([] ++ enc_layout bo imap_layout vs [] ++ [])
    by (cbn [app]; apply app_nil_r).
  rewrite read_enc_layout; [reflexivity | reflexivity | exact Hf].
Qed.

(* ------------------------------------------------------------------ embedded-movie locator *)
Definition genuine (d : bytes) : bool := is_prefix XFIR d && bytes_eqb (slice d 8 12) VM39.

Lemma skipn_skipn' {A} a : forall b (l : list A), skipn a (skipn b l) = skipn (b + a) l.
Proof.
  intros b; induction b as [|b IH]; intros l; [reflexivity|].
  destruct l as [|x l]; [cbn; apply skipn_nil|]. cbn [skipn Nat.add]. apply IH.
Qed.

Lemma bytes_find_spec p d : forall idx,
  bytes_find p d = Some idx ->
  is_prefix p (skipn idx d) = true /\ forall q, (q < idx)%nat -> is_prefix p (skipn q d) = false.
Proof.
  induction d as [|x d IH]; intros idx; cbn [bytes_find].
  - destruct (is_prefix p []) eqn:E; [|discriminate]. intros [= <-]. split; [exact E|]. intros q Hq; lia.
  - destruct (is_prefix p (x :: d)) eqn:E.
    + intros [= <-]. split; [exact E|]. intros q Hq; lia.
    + destruct (bytes_find p d) as [i|] eqn:F; [|discriminate]. intros [= <-].
      destruct (IH i eq_refl) as [H1 H2]. split; [exact H1|].
      intros [|q] Hq; [exact E|]. cbn [skipn]. apply H2. lia.
Qed.

Lemma bytes_find_some p d k : is_prefix p (skipn k d) = true -> exists idx, bytes_find p d = Some idx /\ (idx <= k)%nat.
Proof.
  revert k; induction d as [|x d IH]; intros k H; cbn [bytes_find].
  - rewrite skipn_nil in H. rewrite H. exists 0%nat. split; [reflexivity|lia].
  - destruct (is_prefix p (x :: d)) eqn:E; [exists 0%nat; split; [reflexivity|lia]|].
    destruct k as [|k]; [cbn [skipn] in H; congruence|]. cbn [skipn] in H.
    destruct (IH k H) as (i & Hi & Hle). rewrite Hi. exists (S i). split; [reflexivity|lia].
Qed.

Lemma xfir_no_self_overlap d k : is_prefix XFIR d = true -> (1 <= k <= 3)%nat -> is_prefix XFIR (skipn k d) = false.
Proof.
  intros H Hk. unfold XFIR in *.
  destruct d as [|a [|b [|c [|e r]]]]; cbn [is_prefix] in H; try (rewrite ?andb_false_r in H; discriminate).
  apply andb_true_iff in H; destruct H as [Ha H]. apply andb_true_iff in H; destruct H as [Hb H].
  apply andb_true_iff in H; destruct H as [Hc H]. apply andb_true_iff in H; destruct H as [He _].
  apply Byte.byte_dec_bl in Ha, Hb, Hc, He. subst.
  destruct k as [|[|[|[|k]]]]; try lia; cbn [skipn is_prefix]; reflexivity.
Qed.

Lemma is_prefix_nonempty d : is_prefix XFIR d = true -> (0 < length d)%nat.
Proof. destruct d; cbn; [discriminate|lia]. Qed.

Lemma find_riff_loop_first fuel : forall d acc p,
  (length d < fuel)%nat ->
  genuine (skipn p d) = true ->
  (forall q, (q < p)%nat -> genuine (skipn q d) = false) ->
  find_riff_loop fuel d acc = Ok (acc + Z.of_nat p).
Proof.
  induction fuel as [|f IH]; intros d acc p Hf Hg Hfirst; [lia|].
  assert (Hpre : is_prefix XFIR (skipn p d) = true).
  { unfold genuine in Hg. apply andb_true_iff in Hg. tauto. }
  destruct (bytes_find_some XFIR d p Hpre) as (idx & Hfind & Hle).
  cbn [find_riff_loop]. rewrite Hfind.
  destruct (bytes_find_spec XFIR d idx Hfind) as [Hat Hbefore].
  destruct (bytes_eqb (slice (skipn idx d) 8 12) VM39) eqn:E.
  - (* genuine at idx: it is the first one *)
    assert (Hgi : genuine (skipn idx d) = true) by (unfold genuine; rewrite Hat, E; reflexivity).
    destruct (Nat.eq_dec idx p) as [->|Hne]; [reflexivity|].
    rewrite Hfirst in Hgi by lia. discriminate.
  - (* decoy: skip four bytes *)
    assert (Hlt : (idx < p)%nat).
    { destruct (Nat.eq_dec idx p) as [->|Hne]; [|lia].
      unfold genuine in Hg. rewrite E, andb_false_r in Hg. discriminate. }
    assert (Hp4 : (idx + 4 <= p)%nat).
    { destruct (Nat.le_gt_cases (idx + 4) p) as [|Hgt]; [assumption|].
      pose proof (xfir_no_self_overlap (skipn idx d) (p - idx) Hat ltac:(lia)) as Hno.
      rewrite skipn_skipn' in Hno. replace (idx + (p - idx))%nat with p in Hno by lia. congruence. }
    rewrite skipn_skipn'.
    rewrite (IH (skipn (idx + 4) d) (acc + Z.of_nat idx + 4) (p - (idx + 4))%nat).
    + f_equal. lia.
    + rewrite skipn_length. pose proof (is_prefix_nonempty _ Hat) as Hn. rewrite skipn_length in Hn. lia.
    + rewrite skipn_skipn'. replace (idx + 4 + (p - (idx + 4)))%nat with p by lia. exact Hg.
    + intros q Hq. rewrite skipn_skipn'. apply Hfirst. lia.
Qed.

(* the locator returns the first position holding 'XFIR' with '39VM' eight bytes further on,
   whatever decoys (bare 'XFIR' strings, overlapping fragments, near misses) precede it *)
Theorem find_riff_first_genuine d p :
  genuine (skipn p d) = true ->
  (forall q, (q < p)%nat -> genuine (skipn q d) = false) ->
  find_riff_in_exe d = Ok (Z.of_nat p).
Proof.
  intros Hg Hfirst. unfold find_riff_in_exe.
  rewrite (find_riff_loop_first (S (length d)) d 0 p); auto.
Qed.

(* a little-endian movie behind a prefix is genuine at |prefix| *)
Lemma genuine_enc_movie pre flen cs post :
  genuine (skipn (length pre) (pre ++ enc_movie Little flen cs ++ post)) = true.
Proof.
  rewrite skipn_app, skipn_all, Nat.sub_diag. cbn [app skipn].
  unfold genuine, enc_movie. cbn [orient].
  change (rev RIFX) with XFIR. change (rev MV93) with VM39.
  apply andb_true_iff. split; [reflexivity|].
  repeat rewrite <- app_assoc.
  replace (XFIR ++ pack 4 Little flen ++ VM39 ++ enc_body Little cs ++ post)
    with ((XFIR ++ pack 4 Little flen) ++ VM39 ++ (enc_body Little cs ++ post))
    by (repeat rewrite <- app_assoc; reflexivity).
  rewrite slice_mid; [reflexivity | | ]; rewrite zlen_app, zlen_pack; reflexivity.
Qed.
