(* C03, unbounded part: the control-flow passes rebuild every nest of  if ... then ... [else ...] end if
   constructs (any depth, any number of statements per body) from the flat statement list the stack machine leaves.

   The flat list of a body is: plain statements (assignments, calls); for an if, the conditional-jump statement
   Stmt p (Jz p cond addr)  followed by the flat list of its body, whose positions lie in (p, addr); for an
   if-else, the conditional jump to the start of the else part, the then part, an unconditional jump
   Stmt jp (Jump jp je)  over the else part, the else part.  What follows a construct has positions at or
   after its end.  This file works on that description ("items" with positions); Proofs/LingoNestExec.v shows
   that running compiled code produces exactly such a list.

   A  repeat while  loop arrives as one statement  Stmt pe (Repeat ps pe TRUE body "while" ...)  built by the
   backward-jump opcode from the statements at or after the loop start: its body is the conditional jump of the
   loop condition (target pe + 2, past the loop) followed by the flat list of the loop body.  condition_detect
   turns that jump into  if not cond then exit repeat  and rebuilds the ifs of the body (with the loop end as
   limit); loop_detect recognises the leading exit-if as the while condition.

   Everything is stated for a loop-end parameter [e] (None outside a loop) under the hypothesis that no jump of
   the list leaves the loop (targets <= e): then the exit-repeat branches of the passes are never taken.
   Loops carry a flag: [done] loops are already in the form condition_detect gives them (the pass converts all
   loops of a list before it looks at the ifs, and then recurses on sublists that contain converted loops). *)
From Coq Require Import ZArith List Bool String Lia.
From DRX Require Import Py.PyBytes Py.PyString Model.LingoAst Model.LingoGen Model.LingoOps Model.LingoLoop Proofs.LingoStmtFacts.
Import ListNotations.
Open Scope list_scope.
Open Scope Z_scope.

Inductive item :=
| IPlain (st : node)
| IIf (p : Z) (cond : node) (addr : Z) (body : list item)
| IIfE (p : Z) (cond : node) (eb : Z) (body : list item) (jp je : Z) (ebody : list item)
| IWhile (done : bool) (ps pj : Z) (cond : node) (pe : Z) (body : list item)
(* exit repeat: a forward jump past the end of the loop; [conv] = already converted by condition_detect *)
| IExit (conv : bool) (p t : Z).

Definition true_at (ps : Z) : node := Leaf KConst "TRUE" ps true.
Definition exit_if (pj : Z) (c : node) : node := Stmt pj (IfThen pj (Unary "not" pj c) [Stmt pj (ExitRepeat pj)] []).
Definition loop_stmt (ps pe : Z) (c : node) (body : list node) : node :=
  Stmt pe (Repeat ps pe c body "while" None None "" "").

(* after condition_detect *)
Fixpoint tree_i (i : item) : node :=
  let tr := fix tr (l : list item) : list node := match l with [] => [] | x :: r => tree_i x :: tr r end in
  match i with
  | IPlain st => st
  | IIf p c a body => Stmt p (IfThen p c (tr body) [])
  | IIfE p c eb body jp je ebody => Stmt p (IfThen p c (tr body) (tr ebody))
  | IWhile _ ps pj c pe body => loop_stmt ps pe (true_at ps) (exit_if pj c :: tr body)
  | IExit _ p _ => Stmt p (ExitRepeat p)
  end.
Fixpoint trees (l : list item) : list node := match l with [] => [] | x :: r => tree_i x :: trees r end.

Fixpoint flat_i (i : item) : list node :=
  let fl := fix fl (l : list item) : list node := match l with [] => [] | x :: r => flat_i x ++ fl r end in
  match i with
  | IPlain st => [st]
  | IIf p c a body => Stmt p (Jz p c a) :: fl body
  | IIfE p c eb body jp je ebody => Stmt p (Jz p c eb) :: fl body ++ Stmt jp (Jump jp je) :: fl ebody
  | IWhile done ps pj c pe body =>
    [loop_stmt ps pe (true_at ps) (if done then exit_if pj c :: trees body else Stmt pj (Jz pj c (pe + 2)) :: fl body)]
  | IExit conv p t => [if conv then Stmt p (ExitRepeat p) else Stmt p (Jump p t)]
  end.
Fixpoint flats (l : list item) : list node := match l with [] => [] | x :: r => flat_i x ++ flats r end.

(* after loop_detect *)
Fixpoint fin_i (i : item) : node :=
  let fn := fix fn (l : list item) : list node := match l with [] => [] | x :: r => fin_i x :: fn r end in
  match i with
  | IPlain st => st
  | IIf p c a body => Stmt p (IfThen p c (fn body) [])
  | IIfE p c eb body jp je ebody => Stmt p (IfThen p c (fn body) (fn ebody))
  | IWhile _ ps pj c pe body => loop_stmt ps pe c (fn body)
  | IExit _ p _ => Stmt p (ExitRepeat p)
  end.
Fixpoint fins (l : list item) : list node := match l with [] => [] | x :: r => fin_i x :: fins r end.

Fixpoint depth_i (i : item) : nat :=
  let d := fix d (l : list item) : nat := match l with [] => O | x :: r => Nat.max (depth_i x) (d r) end in
  match i with
  | IPlain _ => O
  | IIf _ _ _ body => S (d body)
  | IIfE _ _ _ body _ _ ebody => S (Nat.max (d body) (d ebody))
  | IWhile _ _ _ _ _ body => S (d body)
  | IExit _ _ _ => O
  end.
Fixpoint depths (l : list item) : nat := match l with [] => O | x :: r => Nat.max (depth_i x) (depths r) end.

Lemma flat_if p c a body : flat_i (IIf p c a body) = Stmt p (Jz p c a) :: flats body.
Proof. reflexivity. Qed.
Lemma flat_ife p c eb body jp je ebody :
  flat_i (IIfE p c eb body jp je ebody) = Stmt p (Jz p c eb) :: flats body ++ Stmt jp (Jump jp je) :: flats ebody.
Proof. reflexivity. Qed.
Lemma tree_if p c a body : tree_i (IIf p c a body) = Stmt p (IfThen p c (trees body) []).
Proof. reflexivity. Qed.
Lemma tree_ife p c eb body jp je ebody : tree_i (IIfE p c eb body jp je ebody) = Stmt p (IfThen p c (trees body) (trees ebody)).
Proof. reflexivity. Qed.
Lemma depth_if p c a body : depth_i (IIf p c a body) = S (depths body).
Proof. reflexivity. Qed.
Lemma depth_ife p c eb body jp je ebody : depth_i (IIfE p c eb body jp je ebody) = S (Nat.max (depths body) (depths ebody)).
Proof. reflexivity. Qed.
Lemma flat_while done ps pj c pe body :
  flat_i (IWhile done ps pj c pe body) =
  [loop_stmt ps pe (true_at ps) (if done then exit_if pj c :: trees body else Stmt pj (Jz pj c (pe + 2)) :: flats body)].
Proof. reflexivity. Qed.
Lemma tree_while done ps pj c pe body : tree_i (IWhile done ps pj c pe body) = loop_stmt ps pe (true_at ps) (exit_if pj c :: trees body).
Proof. reflexivity. Qed.
Lemma fin_if p c a body : fin_i (IIf p c a body) = Stmt p (IfThen p c (fins body) []).
Proof. reflexivity. Qed.
Lemma fin_ife p c eb body jp je ebody : fin_i (IIfE p c eb body jp je ebody) = Stmt p (IfThen p c (fins body) (fins ebody)).
Proof. reflexivity. Qed.
Lemma fin_while done ps pj c pe body : fin_i (IWhile done ps pj c pe body) = loop_stmt ps pe c (fins body).
Proof. reflexivity. Qed.
Lemma depth_while done ps pj c pe body : depth_i (IWhile done ps pj c pe body) = S (depths body).
Proof. reflexivity. Qed.
Lemma depths_cons x r : depths (x :: r) = Nat.max (depth_i x) (depths r). Proof. reflexivity. Qed.
Lemma flats_app l1 l2 : flats (l1 ++ l2) = flats l1 ++ flats l2.
Proof. induction l1 as [|x r IH]; [reflexivity|]. cbn [app flats]. rewrite IH, app_assoc. reflexivity. Qed.
Lemma trees_app l1 l2 : trees (l1 ++ l2) = trees l1 ++ trees l2.
Proof. induction l1 as [|x r IH]; [reflexivity|]. cbn [app trees]. rewrite IH. reflexivity. Qed.
Lemma fins_app l1 l2 : fins (l1 ++ l2) = fins l1 ++ fins l2.
Proof. induction l1 as [|x r IH]; [reflexivity|]. cbn [app fins]. rewrite IH. reflexivity. Qed.

(* the exits of a list level (through ifs, not into inner loops): [exits_gt pe] - every exit that is still a jump leaves
   the loop ending at pe; [exits_done] - all are converted *)
Fixpoint exits_gt_i (pe : Z) (i : item) : bool :=
  let al := fix al (l : list item) : bool := match l with [] => true | x :: r => exits_gt_i pe x && al r end in
  match i with
  | IPlain _ | IWhile _ _ _ _ _ _ => true
  | IIf _ _ _ body => al body
  | IIfE _ _ _ body _ _ ebody => al body && al ebody
  | IExit conv _ t => conv || (pe <? t)
  end.
Fixpoint exits_gt (pe : Z) (l : list item) : bool := match l with [] => true | x :: r => exits_gt_i pe x && exits_gt pe r end.
Fixpoint exits_done_i (i : item) : bool :=
  let al := fix al (l : list item) : bool := match l with [] => true | x :: r => exits_done_i x && al r end in
  match i with
  | IPlain _ | IWhile _ _ _ _ _ _ => true
  | IIf _ _ _ body => al body
  | IIfE _ _ _ body _ _ ebody => al body && al ebody
  | IExit conv _ _ => conv
  end.
Fixpoint exits_done (l : list item) : bool := match l with [] => true | x :: r => exits_done_i x && exits_done r end.
Lemma exits_gt_al pe l : (fix al (l : list item) : bool := match l with [] => true | x :: r => exits_gt_i pe x && al r end) l = exits_gt pe l.
Proof. induction l as [|x r IH]; [reflexivity|]. cbn [exits_gt]. rewrite <- IH. reflexivity. Qed.
Lemma exits_done_al l : (fix al (l : list item) : bool := match l with [] => true | x :: r => exits_done_i x && al r end) l = exits_done l.
Proof. induction l as [|x r IH]; [reflexivity|]. cbn [exits_done]. rewrite <- IH. reflexivity. Qed.
Lemma exits_done_app l1 l2 : exits_done (l1 ++ l2) = exits_done l1 && exits_done l2.
Proof. induction l1 as [|x l1 IH]; [reflexivity|]. cbn [app exits_done]. rewrite IH, andb_assoc. reflexivity. Qed.
Lemma exits_gt_app pe l1 l2 : exits_gt pe (l1 ++ l2) = exits_gt pe l1 && exits_gt pe l2.
Proof. induction l1 as [|x l1 IH]; [reflexivity|]. cbn [app exits_gt]. rewrite IH, andb_assoc. reflexivity. Qed.
Lemma exits_gt_if pe p c a body : exits_gt_i pe (IIf p c a body) = exits_gt pe body. Proof. apply exits_gt_al. Qed.
Lemma exits_gt_ife pe p c eb body jp je ebody : exits_gt_i pe (IIfE p c eb body jp je ebody) = exits_gt pe body && exits_gt pe ebody.
Proof. cbn [exits_gt_i]. rewrite !exits_gt_al. reflexivity. Qed.
Lemma exits_done_if p c a body : exits_done_i (IIf p c a body) = exits_done body. Proof. apply exits_done_al. Qed.
Lemma exits_done_ife p c eb body jp je ebody : exits_done_i (IIfE p c eb body jp je ebody) = exits_done body && exits_done ebody.
Proof. cbn [exits_done_i]. rewrite !exits_done_al. reflexivity. Qed.

(* a loop condition that loop_detect cannot take for a counting loop or a list loop *)
Definition wcond_ok (c : node) : bool :=
  match c with
  | Binary cn _ cl _ => negb (String.eqb cn "lte") && negb (String.eqb cn "gte") && negb (is_const cl)
  | _ => true
  end.

(* Everything about condition_detect is independent of what the loop conditions are: the requirement on them is a
   parameter [wc] (wcond_ok for the loop_detect part below; none for counting loops, Proofs/LingoNestFor.v). *)
Section WC.
Context {wc : node -> bool}.

(* well-positioned item lists: plain statements are assignments or calls, positions increase, a body lies strictly
   between its jump and its end, bodies are not empty *)
Inductive wp : Z -> Z -> list item -> Prop :=
| wp_nil lo hi : lo <= hi -> wp lo hi []
| wp_plain lo hi st r : plain_stmt st = true -> lo <= pos_of st -> wp (pos_of st + 1) hi r -> wp lo hi (IPlain st :: r)
| wp_if lo hi p c a body r : lo <= p -> body <> [] -> wp (p + 1) a body -> wp a hi r -> wp lo hi (IIf p c a body :: r)
| wp_ife lo hi p c eb body jp je ebody r :
    lo <= p -> body <> [] -> ebody <> [] -> wp (p + 1) jp body -> jp < eb -> wp eb je ebody -> wp je hi r ->
    wp lo hi (IIfE p c eb body jp je ebody :: r)
| wp_while lo hi done ps pj c pe body r :
    lo <= ps -> ps <= pj -> wc c = true -> wp (pj + 1) pe body -> exits_gt pe body = true -> wp (pe + 1) hi r ->
    wp lo hi (IWhile done ps pj c pe body :: r)
| wp_exit lo hi conv p t r : lo <= p -> wp (p + 1) hi r -> wp lo hi (IExit conv p t :: r).

Lemma wp_le lo hi l : wp lo hi l -> lo <= hi.
Proof. induction 1; lia. Qed.

Lemma wp_lower lo lo' hi l : wp lo hi l -> lo' <= lo -> wp lo' hi l.
Proof.
  intros H Hl. destruct H.
  - apply wp_nil. lia.
  - apply wp_plain; [assumption | lia | assumption].
  - apply wp_if; [lia | assumption | assumption | assumption].
  - apply wp_ife; try assumption. lia.
  - apply wp_while; try assumption. lia.
  - apply wp_exit; [lia | assumption].
Qed.
Lemma wp_app lo mid hi l1 l2 : wp lo mid l1 -> wp mid hi l2 -> wp lo hi (l1 ++ l2).
Proof.
  induction 1 as [lo mid H | lo mid st r Hp Hlo Hr IH | lo mid p c a body r Hlo Hne Hb _ Hr IHr
                 | lo mid p c eb body jp je ebody r Hlo Hne Hne' Hb _ Hj He _ Hr IHr
                 | lo mid done ps pj c pe body r Hlo Hpj Hc Hb _ Hx Hr IHr
                 | lo mid conv p t r Hlo Hr IHr]; intros Hl2; cbn [app].
  - apply (wp_lower mid lo hi l2 Hl2). assumption.
  - apply wp_plain; [assumption | assumption | apply IH; exact Hl2].
  - apply wp_if; try assumption. apply IHr. exact Hl2.
  - apply wp_ife; try assumption. apply IHr. exact Hl2.
  - apply wp_while; try assumption. apply IHr. exact Hl2.
  - apply wp_exit; [assumption | apply IHr; exact Hl2].
Qed.

(* ---- shapes of the statements involved ---- *)
Definition st_ok (st : node) : bool :=
  match st with
  | Stmt _ (Binary _ _ _ _) | Stmt _ (Call _ _ _ _ _ _) | Stmt _ (Jz _ _ _) | Stmt _ (IfThen _ _ _ _) | Stmt _ (Jump _ _)
  | Stmt _ (Repeat _ _ _ _ _ _ _ _ _) | Stmt _ (ExitRepeat _) | Stmt _ (SpAssign _ _ _ _) => true
  | _ => false
  end.
(* not an unconditional jump *)
Definition noj (st : node) : bool := match st with Stmt _ (Jump _ _) => false | _ => true end.
(* a statement that is not the conditional jump at p *)
Definition not_jz_at (p : Z) (st : node) : bool :=
  match st with
  | Stmt _ (Jz q _ _) => negb (q =? p)
  | _ => true
  end.

Lemma plain_st_ok st : plain_stmt st = true -> st_ok st = true.
Proof. destruct st; try discriminate. destruct st; try discriminate; reflexivity. Qed.
Lemma plain_noj st : plain_stmt st = true -> noj st = true.
Proof. destruct st; try discriminate. destruct st; try discriminate; reflexivity. Qed.

Lemma node_eq_stmts y x : st_ok y = true -> st_ok x = true -> node_eq y x = (pos_of y =? pos_of x).
Proof.
  destruct y as [| | | | | | | | | | | | |py cy| | | | | | | | |]; try discriminate.
  destruct x as [| | | | | | | | | | | | |px cx| | | | | | | | |]; try discriminate.
  intros _ _. reflexivity.
Qed.

Lemma node_eq_code_jz st p c a : st_ok st = true -> not_jz_at p st = true -> node_eq (code_of st) (Jz p c a) = false.
Proof.
  destruct st as [| | | | | | | | | | | | |q code| | | | | | | | |]; try discriminate.
  destruct code; try discriminate; intros _ H; try reflexivity.
  cbn [not_jz_at] in H. cbn [code_of]. unfold node_eq. cbn [pos_of]. apply negb_true_iff in H. rewrite H. apply andb_false_r.
Qed.
Lemma node_eq_jz_refl p c a : node_eq (Jz p c a) (Jz p c a) = true.
Proof. unfold node_eq. cbn [pos_of]. rewrite Z.eqb_refl. reflexivity. Qed.

(* positions and shapes: a jump carries the position of its statement; an unconditional jump stays below hi *)
Definition jz_pos (st : node) : Prop := match st with Stmt q (Jz q' _ _) => q = q' | _ => True end.
Definition jump_le (hi : Z) (st : node) : Prop := match st with Stmt _ (Jump _ t) => t <= hi | _ => True end.
Definition within (lo hi : Z) (st : node) : Prop := st_ok st = true /\ lo <= pos_of st < hi /\ jz_pos st.

Lemma plain_jz_pos st : plain_stmt st = true -> jz_pos st.
Proof. destruct st; try discriminate. destruct st; try discriminate; intros _; exact I. Qed.
Lemma plain_jump_le hi st : plain_stmt st = true -> jump_le hi st.
Proof. destruct st; try discriminate. destruct st; try discriminate; intros _; exact I. Qed.

Lemma within_weaken lo hi lo' hi' st : within lo hi st -> lo' <= lo -> hi <= hi' -> within lo' hi' st.
Proof.
  intros (H1 & H2 & H3) ? ?. repeat split; try assumption; try lia.
Qed.
Lemma within_plain lo hi st : plain_stmt st = true -> lo <= pos_of st < hi -> within lo hi st.
Proof. intros Hp Hpos. repeat split; [apply plain_st_ok; exact Hp | lia | lia | apply plain_jz_pos; exact Hp]. Qed.

Lemma Forall_within_weaken lo hi lo' hi' l : Forall (within lo hi) l -> lo' <= lo -> hi <= hi' -> Forall (within lo' hi') l.
Proof. intros H ? ?. eapply Forall_impl; [|exact H]. intros x Hx. eapply within_weaken; eauto. Qed.

Lemma flats_within lo hi l : wp lo hi l -> Forall (within lo hi) (flats l).
Proof.
  induction 1 as [lo hi H | lo hi st r Hp Hlo Hr IH | lo hi p c a body r Hlo Hne Hb IHb Hr IHr
                 | lo hi p c eb body jp je ebody r Hlo Hne Hne' Hb IHb Hj He IHe Hr IHr
                 | lo hi done ps pj c pe body r Hlo Hpj Hc Hb IHb Hx Hr IHr
                 | lo hi conv xp xt r Hlo Hr IHr].
  - constructor.
  - cbn [flats flat_i app]. pose proof (wp_le _ _ _ Hr). constructor; [apply within_plain; [exact Hp | lia]|].
    apply (Forall_within_weaken _ _ _ _ _ IH); lia.
  - cbn [flats]. rewrite flat_if. pose proof (wp_le _ _ _ Hb). pose proof (wp_le _ _ _ Hr).
    cbn [app]. constructor; [repeat split; cbn [pos_of]; lia|]. apply Forall_app. split.
    + apply (Forall_within_weaken _ _ _ _ _ IHb); lia.
    + apply (Forall_within_weaken _ _ _ _ _ IHr); lia.
  - cbn [flats]. rewrite flat_ife. pose proof (wp_le _ _ _ Hb). pose proof (wp_le _ _ _ He). pose proof (wp_le _ _ _ Hr).
    cbn [app]. constructor; [repeat split; cbn [pos_of]; lia|]. rewrite <- app_assoc. apply Forall_app. split.
    + apply (Forall_within_weaken _ _ _ _ _ IHb); lia.
    + cbn [app]. constructor; [repeat split; cbn [pos_of jump_le]; lia|]. apply Forall_app. split.
      * apply (Forall_within_weaken _ _ _ _ _ IHe); lia.
      * apply (Forall_within_weaken _ _ _ _ _ IHr); lia.
  - cbn [flats]. rewrite flat_while. pose proof (wp_le _ _ _ Hb). pose proof (wp_le _ _ _ Hr).
    cbn [app]. constructor; [repeat split; cbn [pos_of loop_stmt]; lia|]. apply (Forall_within_weaken _ _ _ _ _ IHr); lia.
  - cbn [flats flat_i app]. pose proof (wp_le _ _ _ Hr).
    constructor; [destruct conv; repeat split; cbn [pos_of]; lia|]. apply (Forall_within_weaken _ _ _ _ _ IHr); lia.
Qed.

Lemma trees_within lo hi l : wp lo hi l -> Forall (within lo hi) (trees l).
Proof.
  induction 1 as [lo hi H | lo hi st r Hp Hlo Hr IH | lo hi p c a body r Hlo Hne Hb IHb Hr IHr
                 | lo hi p c eb body jp je ebody r Hlo Hne Hne' Hb IHb Hj He IHe Hr IHr
                 | lo hi done ps pj c pe body r Hlo Hpj Hc Hb IHb Hx Hr IHr
                 | lo hi conv xp xt r Hlo Hr IHr].
  - constructor.
  - cbn [trees tree_i]. pose proof (wp_le _ _ _ Hr). constructor; [apply within_plain; [exact Hp | lia]|].
    apply (Forall_within_weaken _ _ _ _ _ IH); lia.
  - cbn [trees]. rewrite tree_if. pose proof (wp_le _ _ _ Hb). pose proof (wp_le _ _ _ Hr).
    constructor; [repeat split; cbn [pos_of]; lia|]. apply (Forall_within_weaken _ _ _ _ _ IHr); lia.
  - cbn [trees]. rewrite tree_ife. pose proof (wp_le _ _ _ Hb). pose proof (wp_le _ _ _ He). pose proof (wp_le _ _ _ Hr).
    constructor; [repeat split; cbn [pos_of]; lia|]. apply (Forall_within_weaken _ _ _ _ _ IHr); lia.
  - cbn [trees]. rewrite tree_while. pose proof (wp_le _ _ _ Hb). pose proof (wp_le _ _ _ Hr).
    constructor; [repeat split; cbn [pos_of loop_stmt]; lia|]. apply (Forall_within_weaken _ _ _ _ _ IHr); lia.
  - cbn [trees tree_i]. pose proof (wp_le _ _ _ Hr).
    constructor; [repeat split; cbn [pos_of]; lia|]. apply (Forall_within_weaken _ _ _ _ _ IHr); lia.
Qed.

(* unconditional jumps stay below hi once the exits are converted *)
Lemma Forall_jump_le_weaken hi hi' l : Forall (jump_le hi) l -> hi <= hi' -> Forall (jump_le hi') l.
Proof.
  intros H ?. eapply Forall_impl; [|exact H]. intros st Hs. destruct st; try exact I. destruct st; try exact I. cbn [jump_le] in *. lia.
Qed.
Lemma flats_jump_le lo hi l : wp lo hi l -> exits_done l = true -> Forall (jump_le hi) (flats l).
Proof.
  induction 1 as [lo hi H | lo hi st r Hp Hlo Hr IH | lo hi p c a body r Hlo Hne Hb IHb Hr IHr
                 | lo hi p c eb body jp je ebody r Hlo Hne Hne' Hb IHb Hj He IHe Hr IHr
                 | lo hi done ps pj c pe body r Hlo Hpj Hc Hb IHb Hx Hr IHr
                 | lo hi conv xp xt r Hlo Hr IHr]; cbn [exits_done]; intros Hd.
  - constructor.
  - cbn [flats flat_i app]. constructor; [apply plain_jump_le; exact Hp | apply IH; apply andb_prop in Hd; tauto].
  - rewrite exits_done_if in Hd. apply andb_prop in Hd. destruct Hd as [Hd1 Hd2].
    cbn [flats]. rewrite flat_if. pose proof (wp_le _ _ _ Hr). cbn [app]. constructor; [exact I|]. apply Forall_app. split.
    + apply (Forall_jump_le_weaken a); [apply IHb; exact Hd1 | lia].
    + apply IHr; exact Hd2.
  - rewrite exits_done_ife in Hd. apply andb_prop in Hd. destruct Hd as [Hd1 Hd2]. apply andb_prop in Hd1. destruct Hd1 as [Hd1 Hd3].
    cbn [flats]. rewrite flat_ife. pose proof (wp_le _ _ _ He). pose proof (wp_le _ _ _ Hr).
    cbn [app]. constructor; [exact I|]. rewrite <- app_assoc. apply Forall_app. split.
    + apply (Forall_jump_le_weaken jp); [apply IHb; exact Hd1 | lia].
    + cbn [app]. constructor; [cbn [jump_le]; lia|]. apply Forall_app. split.
      * apply (Forall_jump_le_weaken je); [apply IHe; exact Hd3 | lia].
      * apply IHr; exact Hd2.
  - cbn [flats]. rewrite flat_while. cbn [app]. constructor; [exact I|]. apply IHr. apply andb_prop in Hd; tauto.
  - apply andb_prop in Hd. destruct Hd as [Hd1 Hd2]. cbn [exits_done_i] in Hd1. subst conv.
    cbn [flats flat_i app]. constructor; [exact I | apply IHr; exact Hd2].
Qed.

Lemma within_not_jz lo hi p st : within lo hi st -> p < lo \/ hi <= p -> not_jz_at p st = true.
Proof.
  intros (Hok & Hpos & Hq) Hp. destruct st as [| | | | | | | | | | | | |q code| | | | | | | | |]; try reflexivity.
  destruct code; try reflexivity. cbn [not_jz_at pos_of jz_pos] in *. subst. apply negb_true_iff. apply Z.eqb_neq. lia.
Qed.

(* the last statement of a list *)
Definition lastn (l : list node) : option node := match rev l with x :: _ => Some x | [] => None end.
Lemma lastn_app A B : lastn (A ++ B) = match lastn B with Some x => Some x | None => lastn A end.
Proof. unfold lastn. rewrite rev_app_distr. destruct (rev B); reflexivity. Qed.
Lemma lastn_cons x B : lastn (x :: B) = match lastn B with Some y => Some y | None => Some x end.
Proof. change (x :: B) with ([x] ++ B). rewrite lastn_app. reflexivity. Qed.
Lemma lastn_none l : lastn l = None -> l = [].
Proof. unfold lastn. destruct (rev l) eqn:E; [|discriminate]. intros _. apply (f_equal (@rev node)) in E. rewrite rev_involutive in E. exact E. Qed.
Lemma flats_nonempty l : l <> [] -> flats l <> [].
Proof. destruct l as [|x r]; [congruence|]. intros _. cbn [flats]. destruct x; discriminate. Qed.

(* a flat list never ends with an unconditional jump *)
Definition noj_opt (o : option node) : Prop := match o with Some st => noj st = true | None => True end.
Lemma flats_last_noj lo hi l : wp lo hi l -> exits_done l = true -> noj_opt (lastn (flats l)).
Proof.
  induction 1 as [lo hi H | lo hi st r Hp Hlo Hr IH | lo hi p c a body r Hlo Hne Hb IHb Hr IHr
                 | lo hi p c eb body jp je ebody r Hlo Hne Hne' Hb IHb Hj He IHe Hr IHr
                 | lo hi done ps pj c pe body r Hlo Hpj Hc Hb IHb Hx Hr IHr
                 | lo hi conv xp xt r Hlo Hr IHr]; cbn [exits_done]; intros Hd.
  - exact I.
  - apply andb_prop in Hd. destruct Hd as [_ Hd]. specialize (IH Hd).
    cbn [flats flat_i app]. rewrite lastn_cons. destruct (lastn (flats r)); [exact IH | apply plain_noj; exact Hp].
  - rewrite exits_done_if in Hd. apply andb_prop in Hd. destruct Hd as [Hd1 Hd2]. specialize (IHb Hd1). specialize (IHr Hd2).
    cbn [flats]. rewrite flat_if. cbn [app]. rewrite lastn_cons, lastn_app.
    destruct (lastn (flats r)); [exact IHr|].
    destruct (lastn (flats body)) eqn:E; [exact IHb|]. exfalso. apply (flats_nonempty body Hne). apply lastn_none. exact E.
  - rewrite exits_done_ife in Hd. apply andb_prop in Hd. destruct Hd as [Hd1 Hd2]. apply andb_prop in Hd1. destruct Hd1 as [Hd1 Hd3].
    specialize (IHe Hd3). specialize (IHr Hd2).
    cbn [flats]. rewrite flat_ife. cbn [app]. rewrite lastn_cons, <- app_assoc, lastn_app. cbn [app]. rewrite lastn_cons, lastn_app.
    destruct (lastn (flats r)); [exact IHr|].
    destruct (lastn (flats ebody)) eqn:E; [exact IHe|]. exfalso. apply (flats_nonempty ebody Hne'). apply lastn_none. exact E.
  - apply andb_prop in Hd. destruct Hd as [_ Hd]. specialize (IHr Hd).
    cbn [flats]. rewrite flat_while. cbn [app]. rewrite lastn_cons. destruct (lastn (flats r)); [exact IHr | reflexivity].
  - apply andb_prop in Hd. destruct Hd as [Hd1 Hd]. specialize (IHr Hd). cbn [exits_done_i] in Hd1. subst conv.
    cbn [flats flat_i app]. rewrite lastn_cons. destruct (lastn (flats r)); [exact IHr | reflexivity].
Qed.

(* ---- collect_if: the statements strictly inside the then part ---- *)
Section Collect.
  Variables (p a : Z) (c : node).
  Let op := Jz p c a.

  Lemma collect_skip D X : Forall (fun st => st_ok st = true /\ pos_of st < p /\ not_jz_at p st = true) D -> p < a ->
    collect_if op p a (D ++ X) = collect_if op p a X.
  Proof.
    intros H Hpa. induction H as [|st D (Hok & Hpos & Hnj) _ IH]; [reflexivity|].
    cbn [app collect_if]. unfold op. rewrite (node_eq_code_jz st p c a Hok Hnj).
    replace (p <=? pos_of st) with false by (symmetry; apply Z.leb_gt; lia). cbn [andb app].
    replace (a <=? pos_of st) with false by (symmetry; apply Z.leb_gt; lia). exact IH.
  Qed.

  Lemma collect_head q X : collect_if op p a (Stmt q op :: X) = collect_if op p a X.
  Proof. cbn [collect_if code_of]. unfold op. rewrite node_eq_jz_refl. reflexivity. Qed.

  Lemma collect_take B X : Forall (fun st => st_ok st = true /\ p <= pos_of st < a /\ not_jz_at p st = true) B ->
    collect_if op p a (B ++ X) = B ++ collect_if op p a X.
  Proof.
    intros H. induction H as [|st B (Hok & Hpos & Hnj) _ IH]; [reflexivity|].
    cbn [app collect_if]. unfold op. rewrite (node_eq_code_jz st p c a Hok Hnj).
    replace (p <=? pos_of st) with true by (symmetry; apply Z.leb_le; lia).
    replace (pos_of st <? a) with true by (symmetry; apply Z.ltb_lt; lia). cbn [andb].
    replace (a <=? pos_of st) with false by (symmetry; apply Z.leb_gt; lia). cbn [app]. f_equal. exact IH.
  Qed.

  Lemma collect_stop X : match X with [] => True | st :: _ => st_ok st = true /\ a <= pos_of st /\ not_jz_at p st = true end ->
    collect_if op p a X = [].
  Proof.
    destruct X as [|st X]; [reflexivity|]. intros (Hok & Hpos & Hnj).
    cbn [collect_if]. unfold op. rewrite (node_eq_code_jz st p c a Hok Hnj).
    replace (pos_of st <? a) with false by (symmetry; apply Z.ltb_ge; lia). rewrite andb_false_r.
    replace (a <=? pos_of st) with true by (symmetry; apply Z.leb_le; lia). reflexivity.
  Qed.
End Collect.

(* ---- collect_else: the statements strictly between the else jump and its target ---- *)
Lemma collect_else_skip s en D X : Forall (fun st => pos_of st <= s) D -> s < en ->
  collect_else s en (D ++ X) = collect_else s en X.
Proof.
  intros H Hs. induction H as [|st D Hpos _ IH]; [reflexivity|].
  cbn [app collect_else]. replace (s <? pos_of st) with false by (symmetry; apply Z.ltb_ge; lia). cbn [andb app].
  replace (en <=? pos_of st) with false by (symmetry; apply Z.leb_gt; lia). exact IH.
Qed.
Lemma collect_else_take s en B X : Forall (fun st => s < pos_of st < en) B ->
  collect_else s en (B ++ X) = B ++ collect_else s en X.
Proof.
  intros H. induction H as [|st B Hpos _ IH]; [reflexivity|].
  cbn [app collect_else]. replace (s <? pos_of st) with true by (symmetry; apply Z.ltb_lt; lia).
  replace (pos_of st <? en) with true by (symmetry; apply Z.ltb_lt; lia). cbn [andb].
  replace (en <=? pos_of st) with false by (symmetry; apply Z.leb_gt; lia). cbn [app]. f_equal. exact IH.
Qed.
Lemma collect_else_stop s en X : match X with [] => True | st :: _ => en <= pos_of st end -> collect_else s en X = [].
Proof.
  destruct X as [|st X]; [reflexivity|]. intros Hpos. cbn [collect_else].
  replace (pos_of st <? en) with false by (symmetry; apply Z.ltb_ge; lia). rewrite andb_false_r.
  replace (en <=? pos_of st) with true by (symmetry; apply Z.leb_le; lia). reflexivity.
Qed.

(* ---- remove_all: taking a contiguous block out of a list with distinct positions ---- *)
Lemma remove_first_mid A x R : Forall (fun y => st_ok y = true /\ pos_of y <> pos_of x) A -> st_ok x = true ->
  remove_first x (A ++ x :: R) = Some (A ++ R).
Proof.
  intros H Hx. induction H as [|y A (Hy & Hne) _ IH].
  - cbn [app remove_first]. rewrite (node_eq_stmts x x Hx Hx), Z.eqb_refl. reflexivity.
  - cbn [app remove_first]. rewrite (node_eq_stmts y x Hy Hx). apply Z.eqb_neq in Hne. rewrite Hne. rewrite IH. reflexivity.
Qed.

Lemma remove_all_block A B R lo : Forall (fun y => st_ok y = true /\ pos_of y < lo) A ->
  Forall (fun x => st_ok x = true /\ lo <= pos_of x) B ->
  remove_all B (A ++ B ++ R) = Ok (A ++ R).
Proof.
  intros HA HB. unfold remove_all. revert HA. induction HB as [|x B (Hx & Hpos) _ IH]; intros HA; [reflexivity|].
  cbn [fold_left app bind]. rewrite (remove_first_mid A x (B ++ R)); [| |exact Hx].
  - cbn [of_option]. apply IH. exact HA.
  - eapply Forall_impl; [|exact HA]. intros y [Hy Hl]. split; [exact Hy | lia].
Qed.

(* ---- replace_code_all: only the jump statement changes ---- *)
Lemma replace_code_all_one p c a new D q R :
  Forall (fun st => st_ok st = true /\ not_jz_at p st = true) D -> Forall (fun st => st_ok st = true /\ not_jz_at p st = true) R ->
  replace_code_all (Jz p c a) new (D ++ Stmt q (Jz p c a) :: R) = D ++ Stmt q new :: R.
Proof.
  intros HD HR. unfold replace_code_all. rewrite map_app. cbn [map code_of set_code]. rewrite node_eq_jz_refl.
  assert (E : forall L, Forall (fun st => st_ok st = true /\ not_jz_at p st = true) L ->
              map (fun st => if node_eq (code_of st) (Jz p c a) then set_code st new else st) L = L).
  { induction 1 as [|st L [Hok Hnj] _ IH]; [reflexivity|]. cbn [map]. rewrite (node_eq_code_jz st p c a Hok Hnj), IH. reflexivity. }
  rewrite (E D HD), (E R HR). reflexivity.
Qed.

(* ---- no jump of the list leaves the loop: break_detect changes nothing ---- *)
Definition le_opt (hi : Z) (e : option Z) : Prop := match e with Some x => hi <= x | None => True end.
Lemma lt_opt_le hi e a : le_opt hi e -> a <= hi -> lt_opt e a = false.
Proof. destruct e as [x|]; [|reflexivity]. cbn [le_opt lt_opt]. intros. apply Z.ltb_ge. lia. Qed.

Lemma break_detect_same sts e hi : le_opt hi e -> Forall (jump_le hi) sts -> break_detect sts e = sts.
Proof.
  intros He H. destruct e as [x|]; [|reflexivity]. cbn [break_detect le_opt] in *.
  destruct (rev sts) as [|y [|z before]] eqn:E; try reflexivity.
  destruct z; try reflexivity. destruct z; try reflexivity.
  assert (Hin : In (Stmt pos (Jump pos0 addr)) sts) by (apply in_rev; rewrite E; right; left; reflexivity).
  rewrite Forall_forall in H. specialize (H _ Hin). cbn [jump_le] in H.
  replace (x <? addr) with false by (symmetry; apply Z.ltb_ge; lia). reflexivity.
Qed.

(* ---- the scan that picks the jumps opening an if at this level ---- *)
Definition top_jzs (l : list item) : list node :=
  flat_map (fun i => match i with IIf p c a _ => [Jz p c a] | IIfE p c eb _ _ _ _ => [Jz p c eb] | IPlain _ | IWhile _ _ _ _ _ _ | IExit _ _ _ => [] end) l.

Definition scan_ok (lo : Z) (s : scan_state) : Prop :=
  match sc_addr s with Some x => x <= lo | None => True end /\ (sc_in_else s = true \/ noj_opt (sc_prev s)).

(* the state once a pending else part is closed *)
Definition settle (s : scan_state) : scan_state := if sc_in_else s then Build_scan_state None None false (sc_jz s) else s.

Lemma settle_facts lo s : scan_ok lo s ->
  sc_in_else (settle s) = false /\ noj_opt (sc_prev (settle s)) /\ sc_jz (settle s) = sc_jz s /\
  match sc_addr (settle s) with Some x => x <= lo | None => True end.
Proof.
  intros (Ha & Hb). unfold settle. destruct (sc_in_else s) eqn:E; cbn [sc_in_else sc_prev sc_jz sc_addr].
  - repeat split; exact I.
  - destruct Hb as [Hb|Hb]; [discriminate|]. repeat split; assumption.
Qed.

Lemma scan_step_top e s st lo : scan_ok lo s -> lo <= pos_of st ->
  scan_step e s st =
  match st with
  | Stmt _ (Jz p c a) => Build_scan_state (if lt_opt e a then None else Some a) (sc_prev (settle s)) false (sc_jz s ++ [Jz p c a])
  | _ => settle s
  end.
Proof.
  intros Hs Hlo. destruct (settle_facts lo s Hs) as (Hie & Hpr & Hjz & _). destruct Hs as (Had & _). unfold scan_step.
  replace (match sc_addr s with Some a => pos_of st <? a | None => false end) with false
    by (destruct (sc_addr s); [symmetry; apply Z.ltb_ge; lia | reflexivity]).
  fold (settle s).
  assert (E : forall (A : Type) (X : Z -> A) (Y : A),
             match sc_prev (settle s) with Some (Stmt _ (Jump _ jaddr)) => X jaddr | _ => Y end = Y).
  { intros A X Y. destruct (sc_prev (settle s)) as [pv|]; [|reflexivity]. cbn [noj_opt] in Hpr.
    destruct pv; try reflexivity. destruct pv; try reflexivity. discriminate Hpr. }
  rewrite E. destruct st; try reflexivity. destruct st; try reflexivity. rewrite Hie, Hjz. reflexivity.
Qed.

Lemma scan_skip e a : forall B s, sc_addr s = Some a -> Forall (fun st => pos_of st < a) B ->
  fold_left (scan_step e) B s =
  Build_scan_state (Some a) (match lastn B with Some x => Some x | None => sc_prev s end) (sc_in_else s) (sc_jz s).
Proof.
  induction B as [|st B IH]; intros s Ha HB.
  - cbn [fold_left lastn rev]. destruct s; cbn in *; subst; reflexivity.
  - inversion HB as [|? ? Hpos HB']; subst. cbn [fold_left].
    assert (E : scan_step e s st = Build_scan_state (sc_addr s) (Some st) (sc_in_else s) (sc_jz s)).
    { unfold scan_step. rewrite Ha. replace (pos_of st <? a) with true by (symmetry; apply Z.ltb_lt; lia). reflexivity. }
    rewrite E. rewrite (IH (Build_scan_state (sc_addr s) (Some st) (sc_in_else s) (sc_jz s)) Ha HB'). cbn [sc_prev sc_in_else sc_jz]. rewrite lastn_cons. destruct (lastn B); reflexivity.
Qed.

Lemma scan_flats e lo hi l : wp lo hi l -> exits_done l = true -> le_opt hi e -> forall s, scan_ok lo s ->
  let s' := fold_left (scan_step e) (flats l) s in scan_ok hi s' /\ sc_jz s' = sc_jz s ++ top_jzs l.
Proof.
  induction 1 as [lo hi H | lo hi st r Hp Hlo Hr IH | lo hi p c a body r Hlo Hne Hb _ Hr IHr
                 | lo hi p c eb body jp je ebody r Hlo Hne Hne' Hb _ Hj He _ Hr IHr
                 | lo hi done ps pj c pe body r Hlo Hpj Hc Hb _ Hx Hr IHr
                 | lo hi conv xp xt r Hlo Hr IHr]; cbn [exits_done]; intros Hd Hle s Hs;
    try (apply andb_prop in Hd; destruct Hd as [Hd1 Hd]; try specialize (IH Hd); try specialize (IHr Hd)).
  - cbn. split; [|rewrite app_nil_r; reflexivity]. destruct Hs as (H1 & H2). split; [|exact H2].
    destruct (sc_addr s); [lia|exact I].
  - cbn [flats flat_i app fold_left]. rewrite (scan_step_top e s st lo Hs Hlo).
    assert (E : match st with
                | Stmt _ (Jz p c a) => Build_scan_state (if lt_opt e a then None else Some a) (sc_prev (settle s)) false (sc_jz s ++ [Jz p c a])
                | _ => settle s end = settle s)
      by (destruct st; try discriminate Hp; destruct st; try discriminate Hp; reflexivity).
    rewrite E. cbn [top_jzs flat_map app]. destruct (settle_facts lo s Hs) as (K1 & K2 & K3 & K4).
    destruct (IH Hle (settle s)) as [I1 I2].
    + split; [destruct (sc_addr (settle s)); [lia|exact I] | right; exact K2].
    + split; [exact I1 | rewrite I2, K3; reflexivity].
  - pose proof (wp_le _ _ _ Hb) as Hpa. pose proof (wp_le _ _ _ Hr) as Hah.
    cbn [flats]. rewrite flat_if. cbn [app fold_left]. rewrite (scan_step_top e s (Stmt p (Jz p c a)) lo Hs ltac:(cbn [pos_of]; lia)).
    rewrite (lt_opt_le hi e a Hle Hah). rewrite fold_left_app.
    destruct (settle_facts lo s Hs) as (K1 & K2 & K3 & K4).
    set (s1 := Build_scan_state (Some a) (sc_prev (settle s)) false (sc_jz s ++ [Jz p c a])).
    rewrite (scan_skip e a (flats body) s1 eq_refl)
      by (eapply Forall_impl; [|exact (flats_within _ _ _ Hb)]; intros x (_ & Hx & _); lia).
    cbn [sc_prev sc_in_else sc_jz s1].
    destruct (lastn (flats body)) as [lb|] eqn:El; [|exfalso; apply (flats_nonempty body Hne); apply lastn_none; exact El].
    rewrite exits_done_if in Hd1. pose proof (flats_last_noj _ _ _ Hb Hd1) as Hlb. rewrite El in Hlb. cbn [noj_opt] in Hlb.
    destruct (IHr Hle (Build_scan_state (Some a) (Some lb) false (sc_jz s ++ [Jz p c a]))) as [I1 I2].
    + split; [cbn [sc_addr]; lia | right; exact Hlb].
    + split; [exact I1|]. rewrite I2. cbn [sc_jz top_jzs flat_map]. rewrite <- app_assoc. reflexivity.
  - pose proof (wp_le _ _ _ Hb) as Hpj. pose proof (wp_le _ _ _ He) as Hee. pose proof (wp_le _ _ _ Hr) as Hjh.
    cbn [flats]. rewrite flat_ife. cbn [app fold_left]. rewrite (scan_step_top e s (Stmt p (Jz p c eb)) lo Hs ltac:(cbn [pos_of]; lia)).
    rewrite (lt_opt_le hi e eb Hle ltac:(lia)).
    destruct (settle_facts lo s Hs) as (K1 & K2 & K3 & K4).
    (* then part and the else jump are passed over; the jump is remembered *)
    replace ((flats body ++ Stmt jp (Jump jp je) :: flats ebody) ++ flats r)
      with ((flats body ++ [Stmt jp (Jump jp je)]) ++ flats ebody ++ flats r) by (rewrite <- !app_assoc; reflexivity).
    rewrite fold_left_app.
    set (s1 := Build_scan_state (Some eb) (sc_prev (settle s)) false (sc_jz s ++ [Jz p c eb])).
    rewrite (scan_skip e eb (flats body ++ [Stmt jp (Jump jp je)]) s1 eq_refl).
    2:{ apply Forall_app. split.
        - eapply Forall_impl; [|exact (flats_within _ _ _ Hb)]. intros x (_ & Hx & _). lia.
        - constructor; [cbn [pos_of]; lia | constructor]. }
    rewrite lastn_app. cbn [lastn rev app sc_in_else sc_jz s1].
    (* the first statement of the else part switches to else mode *)
    destruct (flats ebody) as [|e1 erest] eqn:Ee; [exfalso; apply (flats_nonempty ebody Hne'); exact Ee|].
    pose proof (flats_within _ _ _ He) as HE. rewrite Ee in HE. inversion HE as [|? ? He1 HErest]; subst.
    cbn [app fold_left].
    set (s2 := Build_scan_state (Some eb) (Some (Stmt jp (Jump jp je))) false (sc_jz s ++ [Jz p c eb])).
    assert (E2 : scan_step e s2 e1 = Build_scan_state (Some je) (Some (Stmt jp (Jump jp je))) true (sc_jz s ++ [Jz p c eb])).
    { unfold scan_step. cbn [sc_addr sc_in_else sc_prev sc_jz s2]. destruct He1 as (_ & Hx & _).
      replace (pos_of e1 <? eb) with false by (symmetry; apply Z.ltb_ge; lia). reflexivity. }
    rewrite E2. rewrite fold_left_app.
    rewrite (scan_skip e je erest (Build_scan_state (Some je) (Some (Stmt jp (Jump jp je))) true (sc_jz s ++ [Jz p c eb])) eq_refl)
      by (eapply Forall_impl; [|exact HErest]; intros x (_ & Hx & _); lia).
    cbn [sc_prev sc_in_else sc_jz].
    match goal with |- context [fold_left (scan_step e) (flats r) ?st] => destruct (IHr Hle st) as [I1 I2] end.
    + split; [cbn [sc_addr]; lia | left; reflexivity].
    + split; [exact I1|]. rewrite I2. cbn [sc_jz top_jzs flat_map]. rewrite <- app_assoc. reflexivity.
  - (* a loop is one statement that is no jump *)
    pose proof (wp_le _ _ _ Hb) as Hbe. cbn [flats]. rewrite flat_while. cbn [app fold_left].
    match goal with |- context [scan_step e s ?st] => rewrite (scan_step_top e s st lo Hs ltac:(cbn [pos_of loop_stmt]; lia)) end. cbn [loop_stmt].
    cbn [top_jzs flat_map app]. destruct (settle_facts lo s Hs) as (K1 & K2 & K3 & K4).
    destruct (IHr Hle (settle s)) as [I1 I2].
    + split; [destruct (sc_addr (settle s)); [lia|exact I] | right; exact K2].
    + split; [exact I1 | rewrite I2, K3; reflexivity].
  - (* a converted exit is one statement that is no jump *)
    cbn [exits_done_i] in Hd1. subst conv. cbn [flats flat_i app fold_left].
    rewrite (scan_step_top e s (Stmt xp (ExitRepeat xp)) lo Hs ltac:(cbn [pos_of]; lia)).
    cbn [top_jzs flat_map app]. destruct (settle_facts lo s Hs) as (K1 & K2 & K3 & K4).
    destruct (IHr Hle (settle s)) as [I1 I2].
    + split; [destruct (sc_addr (settle s)); [lia|exact I] | right; exact K2].
    + split; [exact I1 | rewrite I2, K3; reflexivity].
Qed.

(* ---- condition_detect, one level ---- *)
Definition cd_step (f : nat) (rep_end : option Z) (acc : result (list node)) (op : node) : result (list node) :=
  let! cur := acc in
  match op with
  | Jz p cond addr =>
    if lt_opt rep_end addr then
      Ok (replace_code_first op (IfThen p (Unary "not" p cond) [Stmt p (ExitRepeat p)] []) cur)
    else
      let if_list := collect_if op p addr cur in
      let! cur1 := remove_all if_list cur in
      let! if2 := condition_detect f (break_detect if_list rep_end) rep_end in
      match rev if2 with
      | [] => Err EIndex
      | Stmt _ (Jump jpos jaddr) :: before =>
        if lt_opt rep_end jaddr then
          Ok (replace_code_all op (IfThen p cond (rev before ++ [Stmt jpos (ExitRepeat jpos)]) []) cur1)
        else
          let else_list := collect_else jpos jaddr cur1 in
          let! cur2 := remove_all else_list cur1 in
          let! else2 := condition_detect f (break_detect else_list rep_end) rep_end in
          Ok (replace_code_all op (IfThen p cond (rev before) else2) cur2)
      | _ => Ok (replace_code_all op (IfThen p cond if2 []) cur1)
      end
  | _ => Ok cur
  end.

(* no forward jump of the list leaves the loop: the conversion of exit jumps changes nothing *)
Definition jump_in (e : option Z) (st : node) : Prop := match st with Stmt _ (Jump _ t) => lt_opt e t = false | _ => True end.
Lemma exit_jumps_same e sts : Forall (jump_in e) sts -> exit_jumps sts e = sts.
Proof.
  intros H. destruct e as [x|]; [|reflexivity]. cbn [exit_jumps].
  induction H as [|st sts Hst _ IH]; [reflexivity|]. cbn [map]. rewrite IH.
  destruct st; try reflexivity. destruct st; try reflexivity. cbn [jump_in lt_opt] in Hst. rewrite Hst. reflexivity.
Qed.
Lemma jump_le_jump_in hi e st : jump_le hi st -> le_opt hi e -> jump_in e st.
Proof.
  intros Hj Hle. destruct st; try exact I. destruct st; try exact I. cbn [jump_in jump_le] in *.
  apply (lt_opt_le hi e addr Hle Hj).
Qed.

Lemma condition_detect_unfold f sts e : exit_jumps sts e = sts ->
  condition_detect (S f) sts e =
  let! sts1 := map_result (fun st =>
      match st with
      | Stmt p (Repeat rp re c body ty a b v s) =>
        let! body' := condition_detect f body (Some re) in Ok (Stmt p (Repeat rp re c body' ty a b v s))
      | _ => Ok st
      end) sts in
  fold_left (cd_step f e) (scan_jz e sts1) (Ok sts1).
Proof. intros H. cbn [condition_detect]. rewrite H. reflexivity. Qed.

Lemma last_case {A} (l : list node) (X : A) (Y : Z -> Z -> list node -> A) (W : A) :
  l <> [] -> Forall (fun st => noj st = true) l ->
  match rev l with [] => X | Stmt _ (Jump jp ja) :: before => Y jp ja before | _ => W end = W.
Proof.
  intros Hne H. destruct (rev l) as [|x r] eqn:E.
  - exfalso. apply Hne. apply (f_equal (@rev node)) in E. rewrite rev_involutive in E. exact E.
  - assert (Hx : noj x = true).
    { rewrite Forall_forall in H. apply H. apply in_rev. rewrite E. left. reflexivity. }
    destruct x; try reflexivity. destruct x; try reflexivity. discriminate Hx.
Qed.

Lemma trees_nonempty l : l <> [] -> trees l <> [].
Proof. destruct l; [congruence|discriminate]. Qed.
Lemma trees_noj lo hi l : wp lo hi l -> Forall (fun st => noj st = true) (trees l).
Proof.
  induction 1; cbn [trees]; constructor; try assumption; try reflexivity. cbn [tree_i]. apply plain_noj. assumption.
Qed.

(* inert trailing statements (the else jump that ends a then part) *)
Definition inert (st : node) : bool := match st with Stmt _ (Jump _ _) => true | _ => false end.
Definition tail_ok (hi : Z) (tail : list node) : Prop := Forall (fun st => inert st = true /\ hi <= pos_of st) tail.
Lemma inert_ok st p : inert st = true -> st_ok st = true /\ not_jz_at p st = true.
Proof. destruct st; try discriminate. destruct st; try discriminate. split; reflexivity. Qed.


(* ---- the loops of a list, converted (through ifs; a converted loop is converted throughout) ---- *)
Fixpoint mark_i (i : item) : item :=
  let mk := fix mk (l : list item) : list item := match l with [] => [] | x :: r => mark_i x :: mk r end in
  match i with
  | IPlain st => IPlain st
  | IIf p c a body => IIf p c a (mk body)
  | IIfE p c eb body jp je ebody => IIfE p c eb (mk body) jp je (mk ebody)
  | IWhile _ ps pj c pe body => IWhile true ps pj c pe body
  | IExit conv p t => IExit conv p t
  end.
Fixpoint marks (l : list item) : list item := match l with [] => [] | x :: r => mark_i x :: marks r end.

Lemma mark_if p c a body : mark_i (IIf p c a body) = IIf p c a (marks body). Proof. reflexivity. Qed.
Lemma mark_ife p c eb body jp je ebody : mark_i (IIfE p c eb body jp je ebody) = IIfE p c eb (marks body) jp je (marks ebody).
Proof. reflexivity. Qed.

(* the exits of a list level, converted (through ifs; inner loops have their own) *)
Fixpoint conv_i (i : item) : item :=
  let cv := fix cv (l : list item) : list item := match l with [] => [] | x :: r => conv_i x :: cv r end in
  match i with
  | IPlain st => IPlain st
  | IIf p c a body => IIf p c a (cv body)
  | IIfE p c eb body jp je ebody => IIfE p c eb (cv body) jp je (cv ebody)
  | IWhile d ps pj c pe body => IWhile d ps pj c pe body
  | IExit _ p t => IExit true p t
  end.
Fixpoint convs (l : list item) : list item := match l with [] => [] | x :: r => conv_i x :: convs r end.
Lemma conv_if p c a body : conv_i (IIf p c a body) = IIf p c a (convs body). Proof. reflexivity. Qed.
Lemma conv_ife p c eb body jp je ebody : conv_i (IIfE p c eb body jp je ebody) = IIfE p c eb (convs body) jp je (convs ebody).
Proof. reflexivity. Qed.

Lemma convs_facts lo hi l : wp lo hi l ->
  wp lo hi (convs l) /\ trees (convs l) = trees l /\ depths (convs l) = depths l /\ fins (convs l) = fins l /\ exits_done (convs l) = true.
Proof.
  induction 1 as [lo hi H | lo hi st r Hp Hlo Hr IH | lo hi p c a body r Hlo Hne Hb IHb Hr IHr
                 | lo hi p c eb body jp je ebody r Hlo Hne Hne' Hb IHb Hj He IHe Hr IHr
                 | lo hi done ps pj c pe body r Hlo Hpj Hc Hb IHb Hx Hr IHr
                 | lo hi conv xp xt r Hlo Hr IHr].
  - repeat split; try reflexivity. apply wp_nil. exact H.
  - destruct IH as (I1 & I2 & I3 & I5 & I6). cbn [convs conv_i trees tree_i fins fin_i exits_done exits_done_i]. rewrite depths_cons. cbn [depths].
    repeat split; [apply wp_plain; assumption | rewrite I2; reflexivity | rewrite I3; reflexivity | rewrite I5; reflexivity | exact I6].
  - destruct IHb as (B1 & B2 & B3 & B5 & B6). destruct IHr as (R1 & R2 & R3 & R5 & R6).
    cbn [convs]. rewrite conv_if. cbn [trees fins exits_done]. rewrite exits_done_if, !tree_if, !fin_if, !depths_cons, !depth_if, B2, B3, B5, B6, R2, R3, R5, R6.
    repeat split. apply wp_if; try assumption. destruct body; [congruence|discriminate].
  - destruct IHb as (B1 & B2 & B3 & B5 & B6). destruct IHe as (E1 & E2 & E3 & E5 & E6). destruct IHr as (R1 & R2 & R3 & R5 & R6).
    cbn [convs]. rewrite conv_ife. cbn [trees fins exits_done]. rewrite exits_done_ife, !tree_ife, !fin_ife, !depths_cons, !depth_ife, B2, B3, B5, B6, E2, E3, E5, E6, R2, R3, R5, R6.
    repeat split. apply wp_ife; try assumption; [destruct body; [congruence|discriminate] | destruct ebody; [congruence|discriminate]].
  - destruct IHr as (R1 & R2 & R3 & R5 & R6).
    cbn [convs conv_i trees fins exits_done exits_done_i]. rewrite !tree_while, !fin_while, !depths_cons, !depth_while, R2, R3, R5, R6.
    repeat split. apply wp_while; assumption.
  - destruct IHr as (R1 & R2 & R3 & R5 & R6).
    cbn [convs conv_i trees tree_i fins fin_i exits_done exits_done_i]. rewrite !depths_cons, R2, R3, R5, R6. cbn [depth_i].
    repeat split. apply wp_exit; assumption.
Qed.

(* what the first step of condition_detect does to the list of a loop body *)
Lemma exit_jumps_app l1 l2 e : exit_jumps (l1 ++ l2) e = exit_jumps l1 e ++ exit_jumps l2 e.
Proof. destruct e; [apply map_app | reflexivity]. Qed.
Lemma exit_conv lo hi l pe : wp lo hi l -> hi <= pe -> exits_gt pe l = true -> exit_jumps (flats l) (Some pe) = flats (convs l).
Proof.
  induction 1 as [lo hi H | lo hi st r Hp Hlo Hr IH | lo hi p c a body r Hlo Hne Hb IHb Hr IHr
                 | lo hi p c eb body jp je ebody r Hlo Hne Hne' Hb IHb Hj He IHe Hr IHr
                 | lo hi done ps pj c pe' body r Hlo Hpj Hc Hb IHb Hx Hr IHr
                 | lo hi conv xp xt r Hlo Hr IHr]; cbn [exits_gt]; intros Hle Hg;
    try (apply andb_prop in Hg; destruct Hg as [Hg1 Hg]).
  - reflexivity.
  - cbn [flats convs conv_i flat_i]. rewrite !exit_jumps_app, (IH Hle Hg).
    destruct st; try discriminate Hp. destruct st; try discriminate Hp; reflexivity.
  - pose proof (wp_le _ _ _ Hr). rewrite exits_gt_if in Hg1.
    cbn [flats convs]. rewrite conv_if, !flat_if. change (Stmt p (Jz p c a) :: flats body) with ([Stmt p (Jz p c a)] ++ flats body).
    rewrite !exit_jumps_app, (IHb ltac:(lia) Hg1), (IHr Hle Hg). reflexivity.
  - pose proof (wp_le _ _ _ He). pose proof (wp_le _ _ _ Hr). rewrite exits_gt_ife in Hg1. apply andb_prop in Hg1. destruct Hg1 as [Hg1 Hg2].
    cbn [flats convs]. rewrite conv_ife, !flat_ife.
    change (Stmt p (Jz p c eb) :: flats body ++ Stmt jp (Jump jp je) :: flats ebody)
      with ([Stmt p (Jz p c eb)] ++ flats body ++ [Stmt jp (Jump jp je)] ++ flats ebody).
    rewrite !exit_jumps_app, (IHb ltac:(lia) Hg1), (IHe ltac:(lia) Hg2), (IHr Hle Hg).
    cbn [exit_jumps map]. replace (pe <? je) with false by (symmetry; apply Z.ltb_ge; lia). reflexivity.
  - cbn [flats convs conv_i]. rewrite !flat_while, !exit_jumps_app, (IHr Hle Hg). reflexivity.
  - cbn [flats convs conv_i flat_i]. rewrite !exit_jumps_app, (IHr Hle Hg). destruct conv; [reflexivity|].
    cbn [orb exits_gt_i] in Hg1. cbn [exit_jumps map]. rewrite Hg1. reflexivity.
Qed.

Lemma marks_exits lo hi l : wp lo hi l -> exits_done (marks l) = exits_done l.
Proof.
  induction 1 as [lo hi H | lo hi st r Hp Hlo Hr IH | lo hi p c a body r Hlo Hne Hb IHb Hr IHr
                 | lo hi p c eb body jp je ebody r Hlo Hne Hne' Hb IHb Hj He IHe Hr IHr
                 | lo hi done ps pj c pe body r Hlo Hpj Hc Hb IHb Hx Hr IHr
                 | lo hi conv xp xt r Hlo Hr IHr]; cbn [marks exits_done].
  - reflexivity.
  - rewrite IH. reflexivity.
  - rewrite mark_if, !exits_done_if, IHb, IHr. reflexivity.
  - rewrite mark_ife, !exits_done_ife, IHb, IHe, IHr. reflexivity.
  - rewrite IHr. reflexivity.
  - rewrite IHr. reflexivity.
Qed.

Lemma marks_facts lo hi l : wp lo hi l ->
  wp lo hi (marks l) /\ trees (marks l) = trees l /\ depths (marks l) = depths l /\ top_jzs (marks l) = top_jzs l /\ fins (marks l) = fins l.
Proof.
  induction 1 as [lo hi H | lo hi st r Hp Hlo Hr IH | lo hi p c a body r Hlo Hne Hb IHb Hr IHr
                 | lo hi p c eb body jp je ebody r Hlo Hne Hne' Hb IHb Hj He IHe Hr IHr
                 | lo hi done ps pj c pe body r Hlo Hpj Hc Hb IHb Hx Hr IHr
                 | lo hi conv xp xt r Hlo Hr IHr].
  - repeat split; try reflexivity. apply wp_nil. exact H.
  - destruct IH as (I1 & I2 & I3 & I4 & I5). cbn [marks mark_i trees tree_i fins fin_i]. rewrite depths_cons. cbn [depths].
    repeat split; [apply wp_plain; assumption | rewrite I2; reflexivity | rewrite I3; reflexivity | exact I4 | rewrite I5; reflexivity].
  - destruct IHb as (B1 & B2 & B3 & B4 & B5). destruct IHr as (R1 & R2 & R3 & R4 & R5).
    cbn [marks]. rewrite mark_if. cbn [trees fins]. rewrite !tree_if, !fin_if, !depths_cons, !depth_if, B2, B3, B5, R2, R3, R5.
    repeat split; [|cbn [top_jzs flat_map]; fold (top_jzs (marks r)); fold (top_jzs r); rewrite R4; reflexivity].
    apply wp_if; try assumption. destruct body; [congruence|discriminate].
  - destruct IHb as (B1 & B2 & B3 & B4 & B5). destruct IHe as (E1 & E2 & E3 & E4 & E5). destruct IHr as (R1 & R2 & R3 & R4 & R5).
    cbn [marks]. rewrite mark_ife. cbn [trees fins]. rewrite !tree_ife, !fin_ife, !depths_cons, !depth_ife, B2, B3, B5, E2, E3, E5, R2, R3, R5.
    repeat split; [|cbn [top_jzs flat_map]; fold (top_jzs (marks r)); fold (top_jzs r); rewrite R4; reflexivity].
    apply wp_ife; try assumption; [destruct body; [congruence|discriminate] | destruct ebody; [congruence|discriminate]].
  - destruct IHr as (R1 & R2 & R3 & R4 & R5).
    cbn [marks mark_i trees fins]. rewrite !tree_while, !fin_while, !depths_cons, !depth_while, R2, R3, R5.
    repeat split; [|cbn [top_jzs flat_map]; fold (top_jzs (marks r)); fold (top_jzs r); rewrite R4; reflexivity].
    apply wp_while; assumption.
  - destruct IHr as (R1 & R2 & R3 & R4 & R5).
    cbn [marks mark_i trees tree_i fins fin_i]. rewrite !depths_cons, R2, R3, R5.
    repeat split; [|cbn [top_jzs flat_map]; fold (top_jzs (marks r)); fold (top_jzs r); rewrite R4; reflexivity].
    apply wp_exit; assumption.
Qed.

(* all loops of this list level are converted *)
Fixpoint lvl_done_i (i : item) : bool :=
  let ld := fix ld (l : list item) : bool := match l with [] => true | x :: r => lvl_done_i x && ld r end in
  match i with
  | IPlain _ => true
  | IIf _ _ _ body => ld body
  | IIfE _ _ _ body _ _ ebody => ld body && ld ebody
  | IWhile done _ _ _ _ _ => done
  | IExit _ _ _ => true
  end.
Fixpoint lvl_done (l : list item) : bool := match l with [] => true | x :: r => lvl_done_i x && lvl_done r end.
Lemma lvl_done_if p c a body : lvl_done_i (IIf p c a body) = lvl_done body. Proof. reflexivity. Qed.
Lemma lvl_done_ife p c eb body jp je ebody : lvl_done_i (IIfE p c eb body jp je ebody) = lvl_done body && lvl_done ebody.
Proof. reflexivity. Qed.
Lemma lvl_done_marks lo hi l : wp lo hi l -> lvl_done (marks l) = true.
Proof.
  induction 1 as [lo hi H | lo hi st r Hp Hlo Hr IH | lo hi p c a body r Hlo Hne Hb IHb Hr IHr
                 | lo hi p c eb body jp je ebody r Hlo Hne Hne' Hb IHb Hj He IHe Hr IHr
                 | lo hi done ps pj c pe body r Hlo Hpj Hc Hb IHb Hx Hr IHr
                 | lo hi conv xp xt r Hlo Hr IHr]; cbn [marks lvl_done].
  - reflexivity.
  - exact IH.
  - rewrite mark_if, lvl_done_if, IHb, IHr. reflexivity.
  - rewrite mark_ife, lvl_done_ife, IHb, IHe, IHr. reflexivity.
  - exact IHr.
  - exact IHr.
Qed.

(* ---- condition_detect leaves converted lists alone ---- *)
Definition quiet (st : node) : bool :=
  match st with
  | Stmt _ (Binary _ _ _ _) | Stmt _ (Call _ _ _ _ _ _) | Stmt _ (IfThen _ _ _ _) | Stmt _ (Repeat _ _ _ _ _ _ _ _ _) | Stmt _ (ExitRepeat _)
  | Stmt _ (SpAssign _ _ _ _) => true
  | _ => false
  end.
Definition if_stmt (st : node) : bool := match st with Stmt _ (IfThen _ _ _ _) => true | _ => false end.

Lemma trees_quiet lo hi l : wp lo hi l -> Forall (fun st => quiet st = true) (trees l).
Proof.
  induction 1; cbn [trees]; constructor; try assumption; try reflexivity.
  cbn [tree_i]. destruct st; try discriminate. destruct st; try discriminate; reflexivity.
Qed.

Lemma scan_quiet e L : Forall (fun st => quiet st = true) L ->
  fold_left (scan_step e) L (Build_scan_state None None false []) = Build_scan_state None None false [].
Proof.
  induction 1 as [|st L H _ IH]; [reflexivity|]. cbn [fold_left].
  assert (E : scan_step e (Build_scan_state None None false []) st = Build_scan_state None None false [])
    by (destruct st; try discriminate H; destruct st; try discriminate H; reflexivity).
  rewrite E. exact IH.
Qed.

Definition cd_map (f : nat) (st : node) : result node :=
  match st with
  | Stmt p (Repeat rp re c body ty a b v s) =>
    let! body' := condition_detect f body (Some re) in Ok (Stmt p (Repeat rp re c body' ty a b v s))
  | _ => Ok st
  end.
Lemma map_result_app {A B} (F : A -> result B) l1 l2 r1 r2 :
  map_result F l1 = Ok r1 -> map_result F l2 = Ok r2 -> map_result F (l1 ++ l2) = Ok (r1 ++ r2).
Proof.
  revert r1. induction l1 as [|x l1 IH]; intros r1 H1 H2.
  - cbn in H1. injection H1 as <-. exact H2.
  - cbn [app map_result] in *. destruct (F x) as [y| |]; try discriminate H1. cbn [bind] in *.
    destruct (map_result F l1) as [ys| |] eqn:E; try discriminate H1. cbn [bind] in *. injection H1 as <-.
    rewrite (IH ys eq_refl H2). reflexivity.
Qed.
Lemma map_result_same {A} (F : A -> result A) l : Forall (fun x => F x = Ok x) l -> map_result F l = Ok l.
Proof. induction 1 as [|x l H _ IH]; [reflexivity|]. cbn [map_result]. rewrite H, IH. reflexivity. Qed.

Lemma condition_detect_unfold' f sts e : exit_jumps sts e = sts ->
  condition_detect (S f) sts e = let! sts1 := map_result (cd_map f) sts in fold_left (cd_step f e) (scan_jz e sts1) (Ok sts1).
Proof. intros H. cbn [condition_detect]. rewrite H. reflexivity. Qed.
Lemma quiet_jump_in e st : quiet st = true -> jump_in e st.
Proof. destruct st; try discriminate. destruct st; try discriminate; intros _; exact I. Qed.

Theorem cd_idem : forall f e l lo hi D0, wp lo hi l -> (depths l < f)%nat -> Forall (fun st => if_stmt st = true) D0 ->
  condition_detect f (D0 ++ trees l) e = Ok (D0 ++ trees l).
Proof.
  induction f as [|f IHf]; intros e l lo hi D0 Hwp Hd HD; [lia|].
  rewrite condition_detect_unfold'.
  2:{ apply exit_jumps_same. apply Forall_app. split.
      - eapply Forall_impl; [|exact HD]. intros x Hx. destruct x; try discriminate Hx. destruct x; try discriminate Hx. exact I.
      - eapply Forall_impl; [|exact (trees_quiet _ _ _ Hwp)]. intros x Hx. apply quiet_jump_in. exact Hx. }
  assert (Em : map_result (cd_map f) (D0 ++ trees l) = Ok (D0 ++ trees l)).
  { apply map_result_same. apply Forall_app. split.
    - eapply Forall_impl; [|exact HD]. intros x Hx. destruct x; try discriminate Hx. destruct x; try discriminate Hx. reflexivity.
    - clear HD D0. revert Hd.
      induction Hwp as [lo hi H | lo hi st r Hp Hlo Hr IH | lo hi p c a body r Hlo Hne Hb _ Hr IHr
                       | lo hi p c eb body jp je ebody r Hlo Hne Hne' Hb _ Hj He _ Hr IHr
                       | lo hi done ps pj c pe body r Hlo Hpj Hc Hb _ Hx Hr IHr
                 | lo hi conv xp xt r Hlo Hr IHr]; intros Hd; cbn [trees].
      + constructor.
      + rewrite depths_cons in Hd. constructor; [|apply IH; lia]. cbn [tree_i].
        destruct st; try discriminate Hp. destruct st; try discriminate Hp; reflexivity.
      + rewrite depths_cons in Hd. constructor; [reflexivity | apply IHr; lia].
      + rewrite depths_cons in Hd. constructor; [reflexivity | apply IHr; lia].
      + rewrite depths_cons, depth_while in Hd. constructor; [|apply IHr; lia].
        rewrite tree_while. cbn [loop_stmt cd_map].
        change (exit_if pj c :: trees body) with ([exit_if pj c] ++ trees body).
        rewrite (IHf (Some pe) body (pj + 1) pe [exit_if pj c] Hb ltac:(lia)) by (constructor; [reflexivity|constructor]).
        reflexivity.
      + rewrite depths_cons in Hd. constructor; [reflexivity | apply IHr; lia]. }
  rewrite Em. cbn [bind]. unfold scan_jz. rewrite scan_quiet; [reflexivity|].
  apply Forall_app. split.
  - eapply Forall_impl; [|exact HD]. intros x Hx. destruct x; try discriminate Hx. destruct x; try discriminate Hx. reflexivity.
  - exact (trees_quiet _ _ _ Hwp).
Qed.

Section Level.
  Variable f : nat.
  Hypothesis IHcd : forall e l lo hi tail, wp lo hi l -> exits_done l = true -> le_opt hi e -> tail_ok hi tail -> Forall (jump_in e) tail -> (depths l < f)%nat ->
    condition_detect f (flats l ++ tail) e = Ok (trees l ++ tail).
  Hypothesis IHw : forall pj c pe body, wp (pj + 1) pe body -> exits_gt pe body = true -> (depths body < f)%nat ->
    condition_detect f (Stmt pj (Jz pj c (pe + 2)) :: flats body) (Some pe) = Ok (exit_if pj c :: trees body).

  (* the first step of the pass: every loop of the list is converted *)
  Lemma map_loops : forall l lo hi, wp lo hi l -> (depths l < S f)%nat -> map_result (cd_map f) (flats l) = Ok (flats (marks l)).
  Proof.
    induction 1 as [lo hi H | lo hi st r Hp Hlo Hr IH | lo hi p c a body r Hlo Hne Hb IHb Hr IHr
                   | lo hi p c eb body jp je ebody r Hlo Hne Hne' Hb IHb Hj He IHe Hr IHr
                   | lo hi done ps pj c pe body r Hlo Hpj Hc Hb IHb Hx Hr IHr
                 | lo hi conv xp xt r Hlo Hr IHr]; intros Hd.
    - reflexivity.
    - rewrite depths_cons in Hd. cbn [flats marks mark_i flat_i]. apply (map_result_app _ [st] _ [st]); [|apply IH; lia].
      cbn [map_result]. destruct st; try discriminate Hp. destruct st; try discriminate Hp; reflexivity.
    - rewrite depths_cons, depth_if in Hd. cbn [flats marks]. rewrite mark_if, !flat_if.
      change (Stmt p (Jz p c a) :: flats body) with ([Stmt p (Jz p c a)] ++ flats body).
      change (Stmt p (Jz p c a) :: flats (marks body)) with ([Stmt p (Jz p c a)] ++ flats (marks body)).
      apply map_result_app; [apply map_result_app; [reflexivity | apply IHb; lia] | apply IHr; lia].
    - rewrite depths_cons, depth_ife in Hd. cbn [flats marks]. rewrite mark_ife, !flat_ife.
      change (Stmt p (Jz p c eb) :: flats body ++ Stmt jp (Jump jp je) :: flats ebody)
        with ([Stmt p (Jz p c eb)] ++ flats body ++ [Stmt jp (Jump jp je)] ++ flats ebody).
      change (Stmt p (Jz p c eb) :: flats (marks body) ++ Stmt jp (Jump jp je) :: flats (marks ebody))
        with ([Stmt p (Jz p c eb)] ++ flats (marks body) ++ [Stmt jp (Jump jp je)] ++ flats (marks ebody)).
      apply map_result_app; [|apply IHr; lia].
      apply map_result_app; [reflexivity|]. apply map_result_app; [apply IHb; lia|]. apply map_result_app; [reflexivity | apply IHe; lia].
    - rewrite depths_cons, depth_while in Hd. cbn [flats marks mark_i]. rewrite !flat_while.
      apply (map_result_app _ [_] _ [_]); [|apply IHr; lia]. cbn [map_result loop_stmt cd_map].
      destruct done.
      + change (exit_if pj c :: trees body) with ([exit_if pj c] ++ trees body).
        rewrite (cd_idem f (Some pe) body (pj + 1) pe [exit_if pj c] Hb ltac:(lia)) by (constructor; [reflexivity|constructor]).
        reflexivity.
      + rewrite (IHw pj c pe body Hb Hx ltac:(lia)). reflexivity.
    - rewrite depths_cons in Hd. cbn [flats marks mark_i flat_i]. apply (map_result_app _ [_] _ [_]); [|apply IHr; lia].
      destruct conv; reflexivity.
  Qed.

  Lemma map_loops_tail l lo hi tail : wp lo hi l -> (depths l < S f)%nat -> tail_ok hi tail ->
    map_result (cd_map f) (flats l ++ tail) = Ok (flats (marks l) ++ tail).
  Proof.
    intros Hwp Hd HT. apply map_result_app; [exact (map_loops l lo hi Hwp Hd)|].
    apply map_result_same. eapply Forall_impl; [|exact HT]. intros x [Hx _]. destruct x; try discriminate Hx. destruct x; try discriminate Hx. reflexivity.
  Qed.

  Variable e : option Z.
  Definition before_ok (lo : Z) (st : node) : Prop := st_ok st = true /\ pos_of st < lo /\ jz_pos st.

  Lemma before_not_jz lo p st : before_ok lo st -> lo <= p -> not_jz_at p st = true.
  Proof.
    intros (Hok & Hpos & Hq) Hp. destruct st as [| | | | | | | | | | | | |q code| | | | | | | | |]; try reflexivity.
    destruct code; try reflexivity. cbn [not_jz_at pos_of jz_pos] in *. subst. apply negb_true_iff. apply Z.eqb_neq. lia.
  Qed.

  (* the statements after a construct: the rest of the level and the inert tail *)
  Lemma rest_ok a hi p r tail : Forall (within a hi) (flats r) -> tail_ok hi tail -> a <= hi -> p < a ->
    Forall (fun st => st_ok st = true /\ not_jz_at p st = true) (flats r ++ tail) /\
    match flats r ++ tail with [] => True | st :: _ => st_ok st = true /\ a <= pos_of st /\ not_jz_at p st = true end.
  Proof.
    intros HR HT Hah Hpa. split.
    - apply Forall_app. split.
      + eapply Forall_impl; [|exact HR]. intros x Hx. split; [apply Hx | apply (within_not_jz a hi p x Hx); left; lia].
      + eapply Forall_impl; [|exact HT]. intros x [Hx _]. apply (inert_ok x p Hx).
    - destruct (flats r) as [|x xs].
      + cbn [app]. destruct tail as [|t ts]; [exact I|]. inversion HT as [|? ? [Ht1 Ht2] _]; subst.
        destruct (inert_ok t p Ht1) as [K1 K2]. repeat split; [exact K1 | lia | exact K2].
      + inversion HR as [|? ? Hx _]; subst. cbn [app]. pose proof Hx as (Hx1 & Hx2 & _).
        repeat split; [exact Hx1 | lia | apply (within_not_jz a hi p x Hx); left; lia].
  Qed.

  Lemma fold_ifs : forall todo lo hi, wp lo hi todo -> exits_done todo = true -> le_opt hi e -> (depths todo < S f)%nat -> lvl_done todo = true ->
    forall D tail, Forall (before_ok lo) D -> tail_ok hi tail ->
    fold_left (cd_step f e) (top_jzs todo) (Ok (D ++ flats todo ++ tail)) = Ok (D ++ trees todo ++ tail).
  Proof.
    induction 1 as [lo hi H | lo hi st r Hp Hlo Hr IH | lo hi p c a body r Hlo Hne Hb _ Hr IHr
                   | lo hi p c eb body jp je ebody r Hlo Hne Hne' Hb _ Hj He _ Hr IHr
                   | lo hi done ps pj c pe body r Hlo Hpj Hc Hb _ Hx Hr IHr
                 | lo hi conv xp xt r Hlo Hr IHr]; cbn [exits_done]; intros Hxd Hle Hd Hdone D tail HD HT;
      try (apply andb_prop in Hxd; destruct Hxd as [Hxd1 Hxd]; try specialize (IH Hxd); try specialize (IHr Hxd)).
    - reflexivity.
    - cbn [top_jzs flat_map app flats flat_i trees tree_i].
      change (D ++ st :: flats r ++ tail) with (D ++ [st] ++ flats r ++ tail).
      change (D ++ st :: trees r ++ tail) with (D ++ [st] ++ trees r ++ tail).
      rewrite !(app_assoc D [st]). apply IH; [exact Hle | rewrite depths_cons in Hd; lia | exact Hdone | | exact HT].
      apply Forall_app. split.
      + eapply Forall_impl; [|exact HD]. intros x (H1 & H2 & H3). repeat split; try assumption. lia.
      + constructor; [|constructor]. repeat split; [apply plain_st_ok; exact Hp | lia | apply plain_jz_pos; exact Hp].
    - (* if *)
      pose proof (wp_le _ _ _ Hb) as Hpa. pose proof (wp_le _ _ _ Hr) as Hah.
      rewrite depths_cons, depth_if in Hd.
      change (top_jzs (IIf p c a body :: r)) with (Jz p c a :: top_jzs r). cbn [fold_left flats trees]. rewrite flat_if, tree_if. rewrite <- app_assoc.
      pose proof (flats_within _ _ _ Hb) as HB. pose proof (flats_within _ _ _ Hr) as HR.
      destruct (rest_ok a hi p r tail HR HT Hah ltac:(lia)) as [HRall HRhead].
      assert (HDnj : Forall (fun st => st_ok st = true /\ not_jz_at p st = true) D)
        by (eapply Forall_impl; [|exact HD]; intros x Hx; split; [apply Hx | apply (before_not_jz lo p x Hx Hlo)]).
      assert (Estep : cd_step f e (Ok (D ++ (Stmt p (Jz p c a) :: flats body) ++ flats r ++ tail)) (Jz p c a)
                      = Ok ((D ++ [Stmt p (IfThen p c (trees body) [])]) ++ flats r ++ tail)).
      { unfold cd_step. cbn [bind]. rewrite (lt_opt_le hi e a Hle Hah). cbn [app].
        assert (Ecol : collect_if (Jz p c a) p a (D ++ Stmt p (Jz p c a) :: flats body ++ flats r ++ tail) = flats body).
        { rewrite collect_skip; [| |lia].
          - rewrite collect_head, collect_take.
            + rewrite collect_stop; [apply app_nil_r | exact HRhead].
            + eapply Forall_impl; [|exact HB]. intros x Hx. pose proof Hx as (Hx1 & Hx2 & _). repeat split; [exact Hx1 | lia | lia |].
              apply (within_not_jz (p + 1) a p x Hx). left. lia.
          - eapply Forall_impl; [|exact HD]. intros x Hx. pose proof Hx as (Hx1 & Hx2 & Hx3). repeat split; [exact Hx1 | lia |].
            apply (before_not_jz lo p x Hx Hlo). }
        rewrite Ecol.
        assert (Erem : remove_all (flats body) (D ++ Stmt p (Jz p c a) :: flats body ++ flats r ++ tail)
                       = Ok ((D ++ [Stmt p (Jz p c a)]) ++ flats r ++ tail)).
        { change (D ++ Stmt p (Jz p c a) :: flats body ++ flats r ++ tail) with (D ++ [Stmt p (Jz p c a)] ++ flats body ++ flats r ++ tail).
          rewrite app_assoc. apply (remove_all_block _ _ _ (p + 1)).
          - apply Forall_app. split.
            + eapply Forall_impl; [|exact HD]. intros x (Hx1 & Hx2 & _). split; [exact Hx1 | lia].
            + constructor; [|constructor]. split; [reflexivity | cbn [pos_of]; lia].
          - eapply Forall_impl; [|exact HB]. intros x (Hx1 & Hx2 & _). split; [exact Hx1 | lia]. }
        rewrite Erem. cbn [bind].
        rewrite exits_done_if in Hxd1.
        rewrite (break_detect_same (flats body) e hi Hle)
          by (apply (Forall_jump_le_weaken a); [exact (flats_jump_le _ _ _ Hb Hxd1) | lia]).
        pose proof (IHcd e body (p + 1) a [] Hb Hxd1 ltac:(destruct e; cbn [le_opt] in *; lia) (Forall_nil _) (Forall_nil _) ltac:(lia)) as Eb.
        rewrite !app_nil_r in Eb. rewrite Eb. cbn [bind].
        rewrite last_case; [| apply trees_nonempty; exact Hne | exact (trees_noj _ _ _ Hb)].
        rewrite <- app_assoc. cbn [app]. rewrite replace_code_all_one; [| exact HDnj | exact HRall].
        rewrite <- app_assoc. reflexivity. }
      rewrite Estep. cbn [lvl_done] in Hdone. rewrite lvl_done_if in Hdone. apply andb_true_iff in Hdone. destruct Hdone as [_ Hdr].
      rewrite IHr; [rewrite <- app_assoc; reflexivity | exact Hle | lia | exact Hdr | | exact HT].
      apply Forall_app. split.
      + eapply Forall_impl; [|exact HD]. intros x (H1 & H2 & H3). repeat split; try assumption. lia.
      + constructor; [|constructor]. repeat split; cbn [pos_of]; lia.
    - (* if-else *)
      pose proof (wp_le _ _ _ Hb) as Hpj. pose proof (wp_le _ _ _ He) as Hee. pose proof (wp_le _ _ _ Hr) as Hjh.
      rewrite depths_cons, depth_ife in Hd.
      change (top_jzs (IIfE p c eb body jp je ebody :: r)) with (Jz p c eb :: top_jzs r). cbn [fold_left flats trees]. rewrite flat_ife, tree_ife. rewrite <- app_assoc.
      pose proof (flats_within _ _ _ Hb) as HB. pose proof (flats_within _ _ _ He) as HE. pose proof (flats_within _ _ _ Hr) as HR.
      destruct (rest_ok je hi p r tail HR HT Hjh ltac:(lia)) as [HRall HRhead].
      set (J := Stmt jp (Jump jp je)).
      assert (HDnj : Forall (fun st => st_ok st = true /\ not_jz_at p st = true) D)
        by (eapply Forall_impl; [|exact HD]; intros x Hx; split; [apply Hx | apply (before_not_jz lo p x Hx Hlo)]).
      assert (HEnj : Forall (fun st => st_ok st = true /\ not_jz_at p st = true) (flats ebody))
        by (eapply Forall_impl; [|exact HE]; intros x Hx; split; [apply Hx | apply (within_not_jz eb je p x Hx); left; lia]).
      assert (Hle_e : forall x, x <= hi -> le_opt x e) by (intros x Hx; destruct e; cbn [le_opt] in *; lia).
      rewrite exits_done_ife in Hxd1. apply andb_prop in Hxd1. destruct Hxd1 as [Hxd1 Hxd2].
      assert (Estep : cd_step f e (Ok (D ++ (Stmt p (Jz p c eb) :: flats body ++ J :: flats ebody) ++ flats r ++ tail)) (Jz p c eb)
                      = Ok ((D ++ [Stmt p (IfThen p c (trees body) (trees ebody))]) ++ flats r ++ tail)).
      { unfold cd_step. cbn [bind]. rewrite (lt_opt_le hi e eb Hle ltac:(lia)). cbn [app].
        replace ((flats body ++ J :: flats ebody) ++ flats r ++ tail)
          with ((flats body ++ [J]) ++ flats ebody ++ flats r ++ tail) by (rewrite <- !app_assoc; reflexivity).
        (* the then part with its closing jump *)
        assert (HBJ : Forall (fun st => st_ok st = true /\ p <= pos_of st < eb /\ not_jz_at p st = true) (flats body ++ [J])).
        { apply Forall_app. split.
          - eapply Forall_impl; [|exact HB]. intros x Hx. pose proof Hx as (Hx1 & Hx2 & _). repeat split; [exact Hx1 | lia | lia |].
            apply (within_not_jz (p + 1) jp p x Hx). left. lia.
          - constructor; [|constructor]. repeat split; cbn [pos_of J]; lia. }
        assert (Ecol : collect_if (Jz p c eb) p eb (D ++ Stmt p (Jz p c eb) :: (flats body ++ [J]) ++ flats ebody ++ flats r ++ tail)
                       = flats body ++ [J]).
        { rewrite collect_skip; [| |lia].
          - rewrite collect_head, collect_take by exact HBJ.
            rewrite collect_stop; [apply app_nil_r|].
            destruct (flats ebody) as [|x xs] eqn:Ee; [exfalso; apply (flats_nonempty ebody Hne'); exact Ee|].
            inversion HE as [|? ? Hx _]; subst. cbn [app]. pose proof Hx as (Hx1 & Hx2 & _).
            repeat split; [exact Hx1 | lia | apply (within_not_jz eb je p x Hx); left; lia].
          - eapply Forall_impl; [|exact HD]. intros x Hx. pose proof Hx as (Hx1 & Hx2 & Hx3). repeat split; [exact Hx1 | lia |].
            apply (before_not_jz lo p x Hx Hlo). }
        rewrite Ecol.
        assert (Erem : remove_all (flats body ++ [J]) (D ++ Stmt p (Jz p c eb) :: (flats body ++ [J]) ++ flats ebody ++ flats r ++ tail)
                       = Ok ((D ++ [Stmt p (Jz p c eb)]) ++ flats ebody ++ flats r ++ tail)).
        { change (D ++ Stmt p (Jz p c eb) :: (flats body ++ [J]) ++ flats ebody ++ flats r ++ tail)
            with (D ++ [Stmt p (Jz p c eb)] ++ (flats body ++ [J]) ++ flats ebody ++ flats r ++ tail).
          rewrite app_assoc. apply (remove_all_block _ _ _ (p + 1)).
          - apply Forall_app. split.
            + eapply Forall_impl; [|exact HD]. intros x (Hx1 & Hx2 & _). split; [exact Hx1 | lia].
            + constructor; [|constructor]. split; [reflexivity | cbn [pos_of]; lia].
          - apply Forall_app. split.
            + eapply Forall_impl; [|exact HB]. intros x (Hx1 & Hx2 & _). split; [exact Hx1 | lia].
            + constructor; [|constructor]. split; [reflexivity | cbn [pos_of J]; lia]. }
        rewrite Erem. cbn [bind].
        rewrite (break_detect_same (flats body ++ [J]) e hi Hle).
        2:{ apply Forall_app. split.
            - apply (Forall_jump_le_weaken jp); [exact (flats_jump_le _ _ _ Hb Hxd1) | lia].
            - constructor; [cbn [jump_le J]; lia | constructor]. }
        assert (HTJ : tail_ok jp [J]) by (apply Forall_cons; [split; [reflexivity | cbn [pos_of J]; lia] | apply Forall_nil]).
        rewrite (IHcd e body (p + 1) jp [J] Hb Hxd1 (Hle_e jp ltac:(lia)) HTJ ltac:(constructor; [exact (lt_opt_le hi e je Hle Hjh) | constructor]) ltac:(lia)).
        cbn [bind]. rewrite rev_app_distr. cbn [rev app J].
        rewrite (lt_opt_le hi e je Hle Hjh).
        (* the else part *)
        assert (Eelse : collect_else jp je ((D ++ [Stmt p (Jz p c eb)]) ++ flats ebody ++ flats r ++ tail) = flats ebody).
        { rewrite collect_else_skip; [| |lia].
          - rewrite collect_else_take by (eapply Forall_impl; [|exact HE]; intros x (_ & Hx & _); lia).
            rewrite collect_else_stop; [apply app_nil_r|].
            destruct (flats r ++ tail) as [|x xs]; [exact I|]. destruct HRhead as (_ & Hx & _). exact Hx.
          - apply Forall_app. split.
            + eapply Forall_impl; [|exact HD]. intros x (_ & Hx & _). lia.
            + constructor; [cbn [pos_of]; lia | constructor]. }
        rewrite Eelse.
        assert (Erem2 : remove_all (flats ebody) ((D ++ [Stmt p (Jz p c eb)]) ++ flats ebody ++ flats r ++ tail)
                        = Ok ((D ++ [Stmt p (Jz p c eb)]) ++ flats r ++ tail)).
        { apply (remove_all_block _ _ _ eb).
          - apply Forall_app. split.
            + eapply Forall_impl; [|exact HD]. intros x (Hx1 & Hx2 & _). split; [exact Hx1 | lia].
            + constructor; [|constructor]. split; [reflexivity | cbn [pos_of]; lia].
          - eapply Forall_impl; [|exact HE]. intros x (Hx1 & Hx2 & _). split; [exact Hx1 | lia]. }
        rewrite Erem2. cbn [bind].
        rewrite (break_detect_same (flats ebody) e hi Hle)
          by (apply (Forall_jump_le_weaken je); [exact (flats_jump_le _ _ _ He Hxd2) | lia]).
        pose proof (IHcd e ebody eb je [] He Hxd2 (Hle_e je Hjh) (Forall_nil _) (Forall_nil _) ltac:(lia)) as Eb.
        rewrite !app_nil_r in Eb. rewrite Eb. cbn [bind]. rewrite rev_involutive.
        rewrite <- app_assoc. cbn [app]. rewrite replace_code_all_one; [| exact HDnj | exact HRall].
        rewrite <- app_assoc. reflexivity. }
      rewrite Estep. cbn [lvl_done] in Hdone. rewrite lvl_done_ife in Hdone. apply andb_true_iff in Hdone. destruct Hdone as [_ Hdr].
      rewrite IHr; [rewrite <- app_assoc; reflexivity | exact Hle | lia | exact Hdr | | exact HT].
      apply Forall_app. split.
      + eapply Forall_impl; [|exact HD]. intros x (H1 & H2 & H3). repeat split; try assumption. lia.
      + constructor; [|constructor]. repeat split; cbn [pos_of]; lia.
    - (* a converted loop is one finished statement *)
      pose proof (wp_le _ _ _ Hb) as Hbe. pose proof (wp_le _ _ _ Hr) as Hrh.
      cbn [lvl_done lvl_done_i] in Hdone. apply andb_true_iff in Hdone. destruct Hdone as [Hd1 Hdr]. subst done.
      cbn [top_jzs flat_map app flats trees]. rewrite flat_while, tree_while. cbn [app].
      set (L := loop_stmt ps pe (true_at ps) (exit_if pj c :: trees body)).
      change (D ++ L :: flats r ++ tail) with (D ++ [L] ++ flats r ++ tail).
      change (D ++ L :: trees r ++ tail) with (D ++ [L] ++ trees r ++ tail).
      rewrite !(app_assoc D [L]). rewrite depths_cons in Hd. apply IHr; [exact Hle | lia | exact Hdr | | exact HT].
      apply Forall_app. split.
      + eapply Forall_impl; [|exact HD]. intros x (H1 & H2 & H3). repeat split; try assumption. cbn [pos_of L loop_stmt]. lia.
      + constructor; [|constructor]. repeat split; cbn [pos_of L loop_stmt]; lia.
    - (* a converted exit is one finished statement *)
      pose proof (wp_le _ _ _ Hr) as Hrh. cbn [exits_done_i] in Hxd1. subst conv.
      cbn [lvl_done lvl_done_i] in Hdone.
      cbn [top_jzs flat_map app flats flat_i trees tree_i].
      set (L := Stmt xp (ExitRepeat xp)).
      change (D ++ L :: flats r ++ tail) with (D ++ [L] ++ flats r ++ tail).
      change (D ++ L :: trees r ++ tail) with (D ++ [L] ++ trees r ++ tail).
      rewrite !(app_assoc D [L]). rewrite depths_cons in Hd. apply IHr; [exact Hle | lia | exact Hdone | | exact HT].
      apply Forall_app. split.
      + eapply Forall_impl; [|exact HD]. intros x (H1 & H2 & H3). repeat split; try assumption. lia.
      + constructor; [|constructor]. repeat split; cbn [pos_of L]; lia.
  Qed.
End Level.

(* ---- condition_detect on lists (CD) and on raw loop bodies (W), together by induction on the fuel ---- *)
Definition CD (f : nat) : Prop := forall e l lo hi tail, wp lo hi l -> exits_done l = true -> le_opt hi e -> tail_ok hi tail -> Forall (jump_in e) tail -> (depths l < f)%nat ->
  condition_detect f (flats l ++ tail) e = Ok (trees l ++ tail).
Definition WB (f : nat) : Prop := forall pj c pe body, wp (pj + 1) pe body -> exits_gt pe body = true -> (depths body < f)%nat ->
  condition_detect f (Stmt pj (Jz pj c (pe + 2)) :: flats body) (Some pe) = Ok (exit_if pj c :: trees body).

Lemma scan_tail e : forall t lo' s, tail_ok lo' t -> scan_ok lo' s -> sc_jz (fold_left (scan_step e) t s) = sc_jz s.
Proof.
  induction t as [|x t IHt]; intros lo' s Ht Hs; [reflexivity|]. inversion Ht as [|? ? [Hx1 Hx2] Ht']; subst.
  cbn [fold_left]. rewrite (scan_step_top e s x lo' Hs Hx2).
  assert (Ex : match x with
               | Stmt _ (Jz p c a) => Build_scan_state (if lt_opt e a then None else Some a) (sc_prev (settle s)) false (sc_jz s ++ [Jz p c a])
               | _ => settle s end = settle s) by (destruct x; try discriminate Hx1; destruct x; try discriminate Hx1; reflexivity).
  rewrite Ex. destruct (settle_facts lo' s Hs) as (K1 & K2 & K3 & K4).
  rewrite (IHt lo' (settle s) Ht'); [exact K3|]. split; [exact K4 | right; exact K2].
Qed.

Lemma condition_detect_unfold2 f sts e :
  condition_detect (S f) sts e = let! sts1 := map_result (cd_map f) (exit_jumps sts e) in fold_left (cd_step f e) (scan_jz e sts1) (Ok sts1).
Proof. reflexivity. Qed.

Theorem cd_all : forall f, CD f /\ WB f.
Proof.
  induction f as [|f [IHcd IHw]]; [split; [intros e l lo hi tail _ _ _ _ _ Hd | intros pj c pe body _ _ Hd]; lia|].
  split.
  - (* a list *)
    intros e l lo hi tail Hwp Hxd Hle HT HTj Hd.
    rewrite condition_detect_unfold'.
    2:{ apply exit_jumps_same. apply Forall_app. split; [|exact HTj].
        eapply Forall_impl; [|exact (flats_jump_le _ _ _ Hwp Hxd)]. intros x Hx. exact (jump_le_jump_in hi e x Hx Hle). }
    rewrite (map_loops_tail f IHcd IHw l lo hi tail Hwp Hd HT). cbn [bind].
    destruct (marks_facts lo hi l Hwp) as (Hwm & Etr & Edp & Ejz & _).
    pose proof (marks_exits lo hi l Hwp) as Hxm. rewrite Hxd in Hxm.
    unfold scan_jz. rewrite fold_left_app.
    destruct (scan_flats e lo hi (marks l) Hwm Hxm Hle (Build_scan_state None None false []) ltac:(split; [exact I | right; exact I])) as [Hok Ej].
    rewrite (scan_tail e tail hi _ HT Hok), Ej. cbn [sc_jz app]. rewrite <- Etr.
    exact (fold_ifs f IHcd IHw e (marks l) lo hi Hwm Hxm Hle ltac:(lia) (lvl_done_marks lo hi l Hwp) [] tail (Forall_nil _) HT).
  - (* the body of a loop: its exits are converted, then the jump of the loop condition *)
    intros pj c pe body0 Hwp0 Hxg Hd0.
    pose proof (wp_le _ _ _ Hwp0) as Hbe.
    rewrite condition_detect_unfold2.
    change (Stmt pj (Jz pj c (pe + 2)) :: flats body0) with ([Stmt pj (Jz pj c (pe + 2))] ++ flats body0).
    rewrite exit_jumps_app, (exit_conv (pj + 1) pe body0 pe Hwp0 ltac:(lia) Hxg).
    destruct (convs_facts (pj + 1) pe body0 Hwp0) as (Hwp & Ect & Ecd & _ & Hxd).
    rewrite <- Ect. assert (Hd : (depths (convs body0) < S f)%nat) by (rewrite Ecd; exact Hd0).
    set (body := convs body0) in *. clearbody body. clear Hwp0 Hxg Hd0 Ect Ecd body0.
    change (exit_jumps [Stmt pj (Jz pj c (pe + 2))] (Some pe)) with [Stmt pj (Jz pj c (pe + 2))].
    rewrite (map_result_app (cd_map f) [Stmt pj (Jz pj c (pe + 2))] (flats body) [Stmt pj (Jz pj c (pe + 2))] (flats (marks body)) eq_refl
                            (map_loops f IHcd IHw body (pj + 1) pe Hwp Hd)).
    cbn [bind]. destruct (marks_facts (pj + 1) pe body Hwp) as (Hwm & Etr & Edp & Ejz & _).
    pose proof (marks_exits (pj + 1) pe body Hwp) as Hxm. rewrite Hxd in Hxm.
    unfold scan_jz. cbn [app fold_left].
    assert (E1 : scan_step (Some pe) (Build_scan_state None None false []) (Stmt pj (Jz pj c (pe + 2)))
                 = Build_scan_state None None false [Jz pj c (pe + 2)]).
    { unfold scan_step. cbn [sc_addr sc_in_else sc_prev sc_jz lt_opt].
      replace (pe <? pe + 2) with true by (symmetry; apply Z.ltb_lt; lia). reflexivity. }
    rewrite E1.
    destruct (scan_flats (Some pe) (pj + 1) pe (marks body) Hwm Hxm ltac:(cbn [le_opt]; lia) (Build_scan_state None None false [Jz pj c (pe + 2)])
                         ltac:(split; [exact I | right; exact I])) as [_ Ej].
    rewrite Ej. cbn [sc_jz app fold_left].
    (* the loop condition becomes  if not cond then exit repeat *)
    assert (E2 : cd_step f (Some pe) (Ok (Stmt pj (Jz pj c (pe + 2)) :: flats (marks body))) (Jz pj c (pe + 2))
                 = Ok ([exit_if pj c] ++ flats (marks body) ++ [])).
    { unfold cd_step. cbn [bind lt_opt]. replace (pe <? pe + 2) with true by (symmetry; apply Z.ltb_lt; lia).
      cbn [replace_code_first code_of]. rewrite node_eq_jz_refl. rewrite app_nil_r. reflexivity. }
    rewrite E2.
    rewrite (fold_ifs f IHcd IHw (Some pe) (marks body) (pj + 1) pe Hwm Hxm ltac:(cbn [le_opt]; lia) ltac:(lia) (lvl_done_marks _ _ _ Hwp)
                      [exit_if pj c] [] ltac:(constructor; [repeat split; cbn [pos_of exit_if]; lia | constructor]) (Forall_nil _)).
    rewrite app_nil_r, Etr. reflexivity.
Qed.

Theorem condition_detect_nest f e l lo hi tail : wp lo hi l -> exits_done l = true -> le_opt hi e -> tail_ok hi tail -> Forall (jump_in e) tail -> (depths l < f)%nat ->
  condition_detect f (flats l ++ tail) e = Ok (trees l ++ tail).
Proof. exact (proj1 (cd_all f) e l lo hi tail). Qed.
End WC.
(* the instance for the loop_detect part: while conditions that cannot be read as counting / list loops *)
Notation wpw := (@wp wcond_ok).

(* ---- loop_detect: ifs are walked through, a converted loop gets its while condition ---- *)
Definition ld_step (f : nat) (acc : result (list node * option node * list node)) (st : node) :
  result (list node * option node * list node) :=
  let! (out, prev, rm) := acc in
  match st with
  | Stmt p (Repeat rp re cond body ty a b v s) =>
    let '(cond1, body1) := match is_repeat_while body with Some c => (c, tl body) | None => (cond, body) end in
    let is_with := is_repeat_with cond1 body1 prev in
    let '(ty2, a2, b2, v2, s2, body2, rm2) :=
      if is_with then
        match prev, cond1, rev body1 with
        | Some (Stmt _ (Binary _ _ pl pr) as pst), Binary _ _ _ cr, Stmt _ (Binary _ _ _ (Binary _ _ inc _)) :: before =>
          ("for"%string, Some pr, Some cr, name_of pl,
           (if is_const inc && name_is inc "-1" then "-"%string else "+"%string), rev before, rm ++ [pst])
        | _, _, _ => (ty, a, b, v, s, body1, rm)
        end
      else (ty, a, b, v, s, body1, rm) in
    let! inlist := is_repeat_with_in_list cond1 body2 in
    let '(ty3, a3, v3, body3) :=
      match inlist with
      | Some (vn, lst) => ("for_in"%string, Some lst, vn, tl body2)
      | None => (ty2, a2, v2, body2)
      end in
    let! body4 := loop_detect f body3 in
    let st' := Stmt p (Repeat rp re cond1 body4 ty3 a3 b2 v3 s2) in
    Ok (out ++ [st'], Some st', rm2)
  | Stmt p (IfThen ip c ifs elses) =>
    let! ifs' := loop_detect f ifs in
    let! elses' := loop_detect f elses in
    let st' := Stmt p (IfThen ip c ifs' elses') in
    Ok (out ++ [st'], Some st', rm)
  | _ => Ok (out ++ [st], Some st, rm)
  end.

Lemma loop_detect_unfold f sts :
  loop_detect (S f) sts = let! (out, _, to_remove) := fold_left (ld_step f) sts (Ok ([], None, [])) in remove_all to_remove out.
Proof. reflexivity. Qed.

Lemma loop_detect_nil f : loop_detect (S f) [] = Ok [].
Proof. reflexivity. Qed.

Lemma is_repeat_with_no c body prev : wcond_ok c = true -> is_repeat_with c body prev = false.
Proof.
  intros Hc. unfold is_repeat_with. destruct prev as [pv|]; [|reflexivity].
  destruct pv; try reflexivity. destruct pv; try reflexivity.
  destruct c; try (apply andb_false_r).
  cbn [wcond_ok] in Hc. apply andb_true_iff in Hc. destruct Hc as [Hc _]. apply andb_true_iff in Hc. destruct Hc as [H1 H2].
  apply negb_true_iff in H1. apply negb_true_iff in H2. rewrite H1, H2. cbn [andb orb].
  destruct (rev body) as [|y ys]; [rewrite !andb_false_r; reflexivity|].
  destruct y; try (rewrite !andb_false_r; reflexivity). destruct y; try (rewrite !andb_false_r; reflexivity).
  destruct y2; rewrite ?andb_false_r; reflexivity.
Qed.
Lemma is_repeat_with_in_list_no c body : wcond_ok c = true -> is_repeat_with_in_list c body = Ok None.
Proof.
  intros Hc. unfold is_repeat_with_in_list. destruct c; try reflexivity.
  cbn [wcond_ok] in Hc. apply andb_true_iff in Hc. destruct Hc as [_ Hc].
  destruct c1; try reflexivity. destruct c2; try reflexivity. rewrite Hc. reflexivity.
Qed.

Theorem loop_detect_nest : forall f l lo hi, wpw lo hi l -> (depths l < f)%nat -> loop_detect (S f) (trees l) = Ok (fins l).
Proof.
  induction f as [|f IHf]; intros l lo hi Hwp Hd; [lia|].
  rewrite loop_detect_unfold.
  assert (E : forall todo lo hi, wpw lo hi todo -> (depths todo < S f)%nat -> forall out prev,
             exists prev', fold_left (ld_step (S f)) (trees todo) (Ok (out, prev, [])) = Ok (out ++ fins todo, prev', [])).
  { clear l lo hi Hwp Hd.
    induction 1 as [lo hi H | lo hi st r Hp Hlo Hr IH | lo hi p c a body r Hlo Hne Hb _ Hr IHr
                   | lo hi p c eb body jp je ebody r Hlo Hne Hne' Hb _ Hj He _ Hr IHr
                   | lo hi done ps pj c pe body r Hlo Hpj Hc Hb _ Hx Hr IHr
                 | lo hi conv xp xt r Hlo Hr IHr]; intros Hd out prev.
    - exists prev. rewrite app_nil_r. reflexivity.
    - cbn [trees tree_i fins fin_i fold_left]. rewrite depths_cons in Hd.
      assert (Es : ld_step (S f) (Ok (out, prev, [])) st = Ok (out ++ [st], Some st, []))
        by (destruct st; try discriminate Hp; destruct st; try discriminate Hp; reflexivity).
      rewrite Es. destruct (IH ltac:(lia) (out ++ [st]) (Some st)) as [p' E']. exists p'. rewrite E', <- app_assoc. reflexivity.
    - cbn [trees fins fold_left]. rewrite tree_if, fin_if. rewrite depths_cons, depth_if in Hd.
      assert (Es : ld_step (S f) (Ok (out, prev, [])) (Stmt p (IfThen p c (trees body) []))
                   = Ok (out ++ [Stmt p (IfThen p c (fins body) [])], Some (Stmt p (IfThen p c (fins body) [])), [])).
      { cbn [ld_step bind]. rewrite (IHf body (p + 1) a Hb) by lia. cbn [bind]. rewrite loop_detect_nil. reflexivity. }
      rewrite Es. destruct (IHr ltac:(lia) (out ++ [Stmt p (IfThen p c (fins body) [])]) (Some (Stmt p (IfThen p c (fins body) [])))) as [p' E'].
      exists p'. rewrite E', <- app_assoc. reflexivity.
    - cbn [trees fins fold_left]. rewrite tree_ife, fin_ife. rewrite depths_cons, depth_ife in Hd.
      assert (Es : ld_step (S f) (Ok (out, prev, [])) (Stmt p (IfThen p c (trees body) (trees ebody)))
                   = Ok (out ++ [Stmt p (IfThen p c (fins body) (fins ebody))], Some (Stmt p (IfThen p c (fins body) (fins ebody))), [])).
      { cbn [ld_step bind]. rewrite (IHf body (p + 1) jp Hb) by lia. cbn [bind]. rewrite (IHf ebody eb je He) by lia. reflexivity. }
      rewrite Es. destruct (IHr ltac:(lia) (out ++ [Stmt p (IfThen p c (fins body) (fins ebody))]) (Some (Stmt p (IfThen p c (fins body) (fins ebody))))) as [p' E'].
      exists p'. rewrite E', <- app_assoc. reflexivity.
    - cbn [trees fins fold_left]. rewrite tree_while, fin_while. rewrite depths_cons, depth_while in Hd.
      assert (Es : ld_step (S f) (Ok (out, prev, [])) (loop_stmt ps pe (true_at ps) (exit_if pj c :: trees body))
                   = Ok (out ++ [loop_stmt ps pe c (fins body)], Some (loop_stmt ps pe c (fins body)), [])).
      { unfold loop_stmt, exit_if. cbn [ld_step bind is_repeat_while]. change (String.eqb "not" "not") with true. cbn [tl].
        rewrite (is_repeat_with_no c (trees body) prev Hc). rewrite (is_repeat_with_in_list_no c (trees body) Hc). cbn [bind].
        rewrite (IHf body (pj + 1) pe Hb) by lia. reflexivity. }
      rewrite Es. destruct (IHr ltac:(lia) (out ++ [loop_stmt ps pe c (fins body)]) (Some (loop_stmt ps pe c (fins body)))) as [p' E'].
      exists p'. rewrite E', <- app_assoc. reflexivity.
    - cbn [trees tree_i fins fin_i fold_left]. rewrite depths_cons in Hd.
      change (ld_step (S f) (Ok (out, prev, [])) (Stmt xp (ExitRepeat xp))) with (Ok (out ++ [Stmt xp (ExitRepeat xp)], Some (Stmt xp (ExitRepeat xp)), @nil node)).
      destruct (IHr ltac:(lia) (out ++ [Stmt xp (ExitRepeat xp)]) (Some (Stmt xp (ExitRepeat xp)))) as [p' E']. exists p'. rewrite E', <- app_assoc. reflexivity. }
  destruct (E l lo hi Hwp Hd [] None) as [p' E']. rewrite E'. reflexivity.
Qed.

(* ---- the two passes together, with the fuel parse_opcodes gives them ---- *)
Lemma count_split (l1 : list node) (k : nat) :
  fold_right (fun x acc => (stmt_count x + acc)%nat) k l1 = (fold_right (fun x acc => (stmt_count x + acc)%nat) O l1 + k)%nat.
Proof. induction l1; cbn [fold_right]; [reflexivity | rewrite IHl1; lia]. Qed.

Lemma depth_le_count : forall l lo hi, wpw lo hi l -> (depths l <= stmts_count (flats l))%nat /\ (depths l <= stmts_count (trees l))%nat.
Proof.
  induction 1 as [lo hi H | lo hi st r Hp Hlo Hr IH | lo hi p c a body r Hlo Hne Hb IHb Hr IHr
                 | lo hi p c eb body jp je ebody r Hlo Hne Hne' Hb IHb Hj He IHe Hr IHr
                 | lo hi done ps pj c pe body r Hlo Hpj Hc Hb IHb Hx Hr IHr
                 | lo hi conv xp xt r Hlo Hr IHr].
  - split; reflexivity.
  - destruct IH as [I1 I2]. unfold stmts_count in *. cbn [flats flat_i trees tree_i app depths depth_i fold_right]. rewrite Nat.max_0_l. split; lia.
  - destruct IHb as [B1 B2]. destruct IHr as [R1 R2]. rewrite depths_cons, depth_if. cbn [flats trees]. rewrite flat_if, tree_if.
    unfold stmts_count in *. cbn [app fold_right stmt_count]. rewrite fold_right_app.
    rewrite (count_split (flats body)). split; lia.
  - destruct IHb as [B1 B2]. destruct IHe as [E1 E2]. destruct IHr as [R1 R2]. rewrite depths_cons, depth_ife. cbn [flats trees]. rewrite flat_ife, tree_ife.
    unfold stmts_count in *. cbn [app fold_right stmt_count]. rewrite !fold_right_app. cbn [fold_right stmt_count].
    rewrite (count_split (flats body)), (count_split (flats ebody)). split; lia.
  - destruct IHb as [B1 B2]. destruct IHr as [R1 R2]. rewrite depths_cons, depth_while. cbn [flats trees]. rewrite flat_while, tree_while.
    unfold stmts_count, loop_stmt, exit_if in *. cbn [app fold_right stmt_count]. destruct done; cbn [fold_right stmt_count]; split; lia.
  - destruct IHr as [R1 R2]. rewrite depths_cons. unfold stmts_count in *. cbn [flats flat_i trees tree_i app depth_i fold_right]. rewrite Nat.max_0_l.
    destruct conv; cbn [stmt_count]; split; lia.
Qed.

Theorem detect_nest l lo hi : wpw lo hi l -> exits_done l = true -> detect (flats l) = Ok (fins l).
Proof.
  intros Hwp Hxd. unfold detect. destruct (depth_le_count l lo hi Hwp) as [H1 H2].
  pose proof (condition_detect_nest (S (S (stmts_count (flats l)))) None l lo hi [] Hwp Hxd I (Forall_nil _) (Forall_nil _) ltac:(lia)) as E.
  rewrite !app_nil_r in E. rewrite E. cbn [bind].
  apply (loop_detect_nest _ l lo hi Hwp). lia.
Qed.
Print Assumptions detect_nest.
