(* C03, unbounded part: the control-flow passes rebuild every nest of  if ... then ... end if  constructs
   (any depth, any number of statements per body) from the flat statement list the stack machine leaves.

   The flat list of a body is: plain statements (assignments, calls) and, for an if, the conditional-jump
   statement  Stmt p (Jz p cond addr)  followed by the flat list of its body, whose positions lie in (p, addr);
   what follows the if has positions >= addr.  This file works on that description ("items" with positions);
   Proofs/LingoNestExec.v shows that running compiled code produces exactly such a list. *)
From Coq Require Import ZArith List Bool String Lia.
From DRX Require Import Py.PyBytes Py.PyString Model.LingoAst Model.LingoGen Model.LingoOps Model.LingoLoop Proofs.LingoStmtFacts.
Import ListNotations.
Open Scope list_scope.
Open Scope Z_scope.

Inductive item :=
| IPlain (st : node)
| IIf (p : Z) (cond : node) (addr : Z) (body : list item).

Fixpoint flat_i (i : item) : list node :=
  match i with
  | IPlain st => [st]
  | IIf p c a body => Stmt p (Jz p c a) :: (fix fl (l : list item) : list node := match l with [] => [] | x :: r => flat_i x ++ fl r end) body
  end.
Fixpoint flats (l : list item) : list node := match l with [] => [] | x :: r => flat_i x ++ flats r end.

Fixpoint tree_i (i : item) : node :=
  match i with
  | IPlain st => st
  | IIf p c a body => Stmt p (IfThen p c ((fix tr (l : list item) : list node := match l with [] => [] | x :: r => tree_i x :: tr r end) body) [])
  end.
Fixpoint trees (l : list item) : list node := match l with [] => [] | x :: r => tree_i x :: trees r end.

Fixpoint depth_i (i : item) : nat :=
  match i with
  | IPlain _ => O
  | IIf _ _ _ body => S ((fix d (l : list item) : nat := match l with [] => O | x :: r => Nat.max (depth_i x) (d r) end) body)
  end.
Fixpoint depths (l : list item) : nat := match l with [] => O | x :: r => Nat.max (depth_i x) (depths r) end.

Lemma flat_if p c a body : flat_i (IIf p c a body) = Stmt p (Jz p c a) :: flats body.
Proof. reflexivity. Qed.
Lemma tree_if p c a body : tree_i (IIf p c a body) = Stmt p (IfThen p c (trees body) []).
Proof. reflexivity. Qed.
Lemma depth_if p c a body : depth_i (IIf p c a body) = S (depths body).
Proof. reflexivity. Qed.
Lemma flats_app l1 l2 : flats (l1 ++ l2) = flats l1 ++ flats l2.
Proof. induction l1 as [|x r IH]; [reflexivity|]. cbn [app flats]. rewrite IH, app_assoc. reflexivity. Qed.
Lemma trees_app l1 l2 : trees (l1 ++ l2) = trees l1 ++ trees l2.
Proof. induction l1 as [|x r IH]; [reflexivity|]. cbn [app trees]. rewrite IH. reflexivity. Qed.

(* well-positioned item lists: plain statements are assignments or calls, positions increase, an if's body lies
   strictly between its jump and its target, bodies are not empty *)
Inductive wp : Z -> Z -> list item -> Prop :=
| wp_nil lo hi : lo <= hi -> wp lo hi []
| wp_plain lo hi st r : plain_stmt st = true -> lo <= pos_of st -> wp (pos_of st + 1) hi r -> wp lo hi (IPlain st :: r)
| wp_if lo hi p c a body r : lo <= p -> body <> [] -> wp (p + 1) a body -> wp a hi r -> wp lo hi (IIf p c a body :: r).

Lemma wp_le lo hi l : wp lo hi l -> lo <= hi.
Proof. induction 1; lia. Qed.

(* ---- shapes of the statements involved ---- *)
Definition st_ok (st : node) : bool :=
  match st with
  | Stmt _ (Binary _ _ _ _) | Stmt _ (Call _ _ _ _ _ _) | Stmt _ (Jz _ _ _) | Stmt _ (IfThen _ _ _ _) => true
  | _ => false
  end.
(* a statement that is not the conditional jump at p *)
Definition not_jz_at (p : Z) (st : node) : bool :=
  match st with
  | Stmt _ (Jz q _ _) => negb (q =? p)
  | _ => true
  end.

Lemma plain_st_ok st : plain_stmt st = true -> st_ok st = true.
Proof. destruct st; try discriminate. destruct st; try discriminate; reflexivity. Qed.

Lemma node_eq_stmts y x : st_ok y = true -> st_ok x = true -> node_eq y x = (pos_of y =? pos_of x).
Proof.
  destruct y as [| | | | | | | | | | | | |py cy| | | | | | | |]; try discriminate.
  destruct x as [| | | | | | | | | | | | |px cx| | | | | | | |]; try discriminate.
  intros _ _. reflexivity.
Qed.

Lemma node_eq_code_jz st p c a : st_ok st = true -> not_jz_at p st = true -> node_eq (code_of st) (Jz p c a) = false.
Proof.
  destruct st as [| | | | | | | | | | | | |q code| | | | | | | |]; try discriminate.
  destruct code; try discriminate; intros _ H; try reflexivity.
  cbn [not_jz_at] in H. cbn [code_of]. unfold node_eq. cbn [pos_of]. apply negb_true_iff in H. rewrite H. apply andb_false_r.
Qed.
Lemma node_eq_jz_refl p c a : node_eq (Jz p c a) (Jz p c a) = true.
Proof. unfold node_eq. cbn [pos_of]. rewrite Z.eqb_refl. reflexivity. Qed.

(* positions and shapes of flat lists and trees; the jump of an if carries the position of its statement *)
Definition jz_pos (st : node) : Prop := match st with Stmt q (Jz q' _ _) => q = q' | _ => True end.
Definition within (lo hi : Z) (st : node) : Prop := st_ok st = true /\ lo <= pos_of st < hi /\ jz_pos st.

Lemma plain_jz_pos st : plain_stmt st = true -> jz_pos st.
Proof. destruct st; try discriminate. destruct st; try discriminate; intros _; exact I. Qed.

Lemma within_weaken lo hi lo' hi' st : within lo hi st -> lo' <= lo -> hi <= hi' -> within lo' hi' st.
Proof. intros (H1 & H2 & H3) ? ?. repeat split; try assumption; lia. Qed.

Lemma flats_within lo hi l : wp lo hi l -> Forall (within lo hi) (flats l).
Proof.
  induction 1 as [lo hi H | lo hi st r Hp Hlo Hr IH | lo hi p c a body r Hlo Hne Hb IHb Hr IHr].
  - constructor.
  - cbn [flats flat_i app]. pose proof (wp_le _ _ _ Hr). constructor; [repeat split; [apply plain_st_ok; exact Hp | lia | lia | apply plain_jz_pos; exact Hp]|].
    eapply Forall_impl; [|exact IH]. intros x Hx. eapply within_weaken; [exact Hx | lia | lia].
  - cbn [flats]. rewrite flat_if. pose proof (wp_le _ _ _ Hb). pose proof (wp_le _ _ _ Hr).
    cbn [app]. constructor; [repeat split; cbn [pos_of]; lia|]. apply Forall_app. split.
    + eapply Forall_impl; [|exact IHb]. intros x Hx. eapply within_weaken; [exact Hx | lia | lia].
    + eapply Forall_impl; [|exact IHr]. intros x Hx. eapply within_weaken; [exact Hx | lia | lia].
Qed.

Lemma trees_within lo hi l : wp lo hi l -> Forall (within lo hi) (trees l).
Proof.
  induction 1 as [lo hi H | lo hi st r Hp Hlo Hr IH | lo hi p c a body r Hlo Hne Hb IHb Hr IHr].
  - constructor.
  - cbn [trees tree_i]. pose proof (wp_le _ _ _ Hr). constructor; [repeat split; [apply plain_st_ok; exact Hp | lia | lia | apply plain_jz_pos; exact Hp]|].
    eapply Forall_impl; [|exact IH]. intros x Hx. eapply within_weaken; [exact Hx | lia | lia].
  - cbn [trees]. rewrite tree_if. pose proof (wp_le _ _ _ Hb). pose proof (wp_le _ _ _ Hr).
    constructor; [repeat split; cbn [pos_of]; lia|].
    eapply Forall_impl; [|exact IHr]. intros x Hx. eapply within_weaken; [exact Hx | lia | lia].
Qed.

Lemma within_not_jz lo hi p st : within lo hi st -> p < lo \/ hi <= p -> not_jz_at p st = true.
Proof.
  intros (Hok & Hpos & Hq) Hp. destruct st as [| | | | | | | | | | | | |q code| | | | | | | |]; try reflexivity.
  destruct code; try reflexivity. cbn [not_jz_at pos_of jz_pos] in *. subst. apply negb_true_iff. apply Z.eqb_neq. lia.
Qed.

(* ---- collect_if: the statements strictly inside an if ---- *)
Section Collect.
  Variables (p a : Z) (c : node).
  Let op := Jz p c a.

  (* statements before the jump are passed over *)
  Lemma collect_skip D X : Forall (fun st => st_ok st = true /\ pos_of st < p /\ not_jz_at p st = true) D -> p < a ->
    collect_if op p a (D ++ X) = collect_if op p a X.
  Proof.
    intros H Hpa. induction H as [|st D (Hok & Hpos & Hnj) _ IH]; [reflexivity|].
    cbn [app collect_if]. unfold op. rewrite (node_eq_code_jz st p c a Hok Hnj).
    replace (p <=? pos_of st) with false by (symmetry; apply Z.leb_gt; lia). cbn [andb app].
    replace (a <=? pos_of st) with false by (symmetry; apply Z.leb_gt; lia). exact IH.
  Qed.

  (* the jump statement itself is skipped *)
  Lemma collect_head q X : collect_if op p a (Stmt q op :: X) = collect_if op p a X.
  Proof. cbn [collect_if code_of]. unfold op. rewrite node_eq_jz_refl. reflexivity. Qed.

  (* the statements of the body are taken *)
  Lemma collect_take B X : Forall (fun st => st_ok st = true /\ p <= pos_of st < a /\ not_jz_at p st = true) B ->
    collect_if op p a (B ++ X) = B ++ collect_if op p a X.
  Proof.
    intros H. induction H as [|st B (Hok & Hpos & Hnj) _ IH]; [reflexivity|].
    cbn [app collect_if]. unfold op. rewrite (node_eq_code_jz st p c a Hok Hnj).
    replace (p <=? pos_of st) with true by (symmetry; apply Z.leb_le; lia).
    replace (pos_of st <? a) with true by (symmetry; apply Z.ltb_lt; lia). cbn [andb].
    replace (a <=? pos_of st) with false by (symmetry; apply Z.leb_gt; lia). cbn [app]. f_equal. exact IH.
  Qed.

  (* the first statement at or after the target ends the collection *)
  Lemma collect_stop X : match X with [] => True | st :: _ => st_ok st = true /\ a <= pos_of st /\ not_jz_at p st = true end ->
    collect_if op p a X = [].
  Proof.
    destruct X as [|st X]; [reflexivity|]. intros (Hok & Hpos & Hnj).
    cbn [collect_if]. unfold op. rewrite (node_eq_code_jz st p c a Hok Hnj).
    replace (pos_of st <? a) with false by (symmetry; apply Z.ltb_ge; lia). rewrite andb_false_r.
    replace (a <=? pos_of st) with true by (symmetry; apply Z.leb_le; lia). reflexivity.
  Qed.
End Collect.

(* ---- remove_all: taking a contiguous block out of a list with distinct positions ---- *)
Lemma remove_first_mid A x R : Forall (fun y => st_ok y = true /\ pos_of y <> pos_of x) A -> st_ok x = true ->
  remove_first x (A ++ x :: R) = Some (A ++ R).
Proof.
  intros H Hx. induction H as [|y A (Hy & Hne) _ IH].
  - cbn [app remove_first]. rewrite (node_eq_stmts x x Hx Hx), Z.eqb_refl. reflexivity.
  - cbn [app remove_first]. rewrite (node_eq_stmts y x Hy Hx). apply Z.eqb_neq in Hne. rewrite Hne. rewrite IH. reflexivity.
Qed.

Lemma remove_all_block A B R lo : Forall (fun y => st_ok y = true /\ pos_of y < lo) A ->
  Forall (fun x => st_ok x = true /\ lo <= pos_of x) B ->
  remove_all B (A ++ B ++ R) = Ok (A ++ R).
Proof.
  intros HA HB. unfold remove_all. revert HA. induction HB as [|x B (Hx & Hpos) _ IH]; intros HA; [reflexivity|].
  cbn [fold_left app bind]. rewrite (remove_first_mid A x (B ++ R)); [| |exact Hx].
  - cbn [of_option]. apply IH. exact HA.
  - eapply Forall_impl; [|exact HA]. intros y [Hy Hl]. split; [exact Hy | lia].
Qed.

(* ---- replace_code_all: only the jump statement changes ---- *)
Lemma replace_code_all_one p c a new D q R :
  Forall (fun st => st_ok st = true /\ not_jz_at p st = true) D -> Forall (fun st => st_ok st = true /\ not_jz_at p st = true) R ->
  replace_code_all (Jz p c a) new (D ++ Stmt q (Jz p c a) :: R) = D ++ Stmt q new :: R.
Proof.
  intros HD HR. unfold replace_code_all. rewrite map_app. cbn [map code_of set_code]. rewrite node_eq_jz_refl.
  assert (E : forall L, Forall (fun st => st_ok st = true /\ not_jz_at p st = true) L ->
              map (fun st => if node_eq (code_of st) (Jz p c a) then set_code st new else st) L = L).
  { induction 1 as [|st L [Hok Hnj] _ IH]; [reflexivity|]. cbn [map]. rewrite (node_eq_code_jz st p c a Hok Hnj), IH. reflexivity. }
  rewrite (E D HD), (E R HR). reflexivity.
Qed.

(* ---- no loop statement in a flat list: the first step of condition_detect does nothing ---- *)
Lemma map_result_ok (f : nat) (sts : list node) : Forall (fun st => st_ok st = true) sts ->
  map_result (fun st => match st with
                        | Stmt p (Repeat rp re c body ty a bb v s) =>
                          let! body' := condition_detect f body (Some re) in Ok (Stmt p (Repeat rp re c body' ty a bb v s))
                        | _ => Ok st end) sts = Ok sts.
Proof.
  induction 1 as [|st sts H _ IH]; cbn [map_result]; [reflexivity|].
  rewrite IH. destruct st; try discriminate H. destruct st; try discriminate H; reflexivity.
Qed.

(* ---- the scan that picks the jumps opening an if at this level ---- *)
Definition top_jzs (l : list item) : list node :=
  flat_map (fun i => match i with IIf p c a _ => [Jz p c a] | IPlain _ => [] end) l.

Definition prev_ok (o : option node) : Prop := match o with Some st => st_ok st = true | None => True end.
Definition scan_ok (lo : Z) (s : scan_state) : Prop :=
  sc_in_else s = false /\ prev_ok (sc_prev s) /\ match sc_addr s with Some x => x <= lo | None => True end.

Lemma scan_step_top s st lo : scan_ok lo s -> lo <= pos_of st ->
  scan_step None s st =
  match st with
  | Stmt _ (Jz p c a) => Build_scan_state (Some a) (sc_prev s) false (sc_jz s ++ [Jz p c a])
  | _ => s
  end.
Proof.
  intros (Hie & Hpr & Had) Hlo. unfold scan_step.
  replace (match sc_addr s with Some a => pos_of st <? a | None => false end) with false
    by (destruct (sc_addr s); [symmetry; apply Z.ltb_ge; lia | reflexivity]).
  rewrite Hie.
  assert (E : forall (A : Type) (X : Z -> A) (Y : A),
             match sc_prev s with Some (Stmt _ (Jump _ jaddr)) => X jaddr | _ => Y end = Y).
  { intros A X Y. destruct (sc_prev s) as [pv|]; [|reflexivity]. cbn [prev_ok] in Hpr.
    destruct pv; try discriminate Hpr. destruct pv; try discriminate Hpr; reflexivity. }
  rewrite E. destruct st; try reflexivity; try (destruct s; cbn in *; subst; reflexivity).
Qed.

Lemma scan_skip a : forall B s, sc_addr s = Some a -> Forall (fun st => st_ok st = true /\ pos_of st < a) B -> prev_ok (sc_prev s) ->
  let s' := fold_left (scan_step None) B s in
  sc_addr s' = Some a /\ sc_in_else s' = sc_in_else s /\ sc_jz s' = sc_jz s /\ prev_ok (sc_prev s').
Proof.
  induction B as [|st B IH]; intros s Ha HB Hp; [cbn; auto|].
  inversion HB as [|? ? [Hok Hpos] HB']; subst. cbn [fold_left].
  assert (E : scan_step None s st = Build_scan_state (sc_addr s) (Some st) (sc_in_else s) (sc_jz s)).
  { unfold scan_step. rewrite Ha. replace (pos_of st <? a) with true by (symmetry; apply Z.ltb_lt; lia). reflexivity. }
  rewrite E. specialize (IH (Build_scan_state (sc_addr s) (Some st) (sc_in_else s) (sc_jz s)) Ha HB' Hok).
  cbn [sc_addr sc_in_else sc_jz sc_prev] in IH. exact IH.
Qed.

Lemma scan_flats lo hi l : wp lo hi l -> forall s, scan_ok lo s ->
  let s' := fold_left (scan_step None) (flats l) s in scan_ok hi s' /\ sc_jz s' = sc_jz s ++ top_jzs l.
Proof.
  induction 1 as [lo hi H | lo hi st r Hp Hlo Hr IH | lo hi p c a body r Hlo Hne Hb IHb Hr IHr]; intros s Hs.
  - cbn. split; [|rewrite app_nil_r; reflexivity]. destruct Hs as (H1 & H2 & H3). repeat split; try assumption.
    destruct (sc_addr s); [lia|exact I].
  - cbn [flats flat_i app fold_left]. rewrite (scan_step_top s st lo Hs Hlo).
    assert (E : match st with Stmt _ (Jz p c a) => Build_scan_state (Some a) (sc_prev s) false (sc_jz s ++ [Jz p c a]) | _ => s end = s)
      by (destruct st; try discriminate Hp; destruct st; try discriminate Hp; reflexivity).
    rewrite E. cbn [top_jzs flat_map app]. apply IH. destruct Hs as (H1 & H2 & H3). repeat split; try assumption.
    destruct (sc_addr s); [lia|exact I].
  - cbn [flats]. rewrite flat_if. cbn [app fold_left]. rewrite (scan_step_top s (Stmt p (Jz p c a)) lo Hs ltac:(cbn [pos_of]; lia)).
    rewrite fold_left_app.
    set (s1 := Build_scan_state (Some a) (sc_prev s) false (sc_jz s ++ [Jz p c a])).
    destruct Hs as (H1 & H2 & H3).
    pose proof (scan_skip a (flats body) s1 eq_refl) as Hsk.
    assert (HB : Forall (fun st => st_ok st = true /\ pos_of st < a) (flats body)).
    { eapply Forall_impl; [|exact (flats_within _ _ _ Hb)]. intros x (Hx1 & Hx2 & _). split; [exact Hx1 | lia]. }
    specialize (Hsk HB H2). cbn zeta in Hsk. destruct Hsk as (Ka & Ke & Kj & Kp).
    set (s2 := fold_left (scan_step None) (flats body) s1) in *.
    assert (Hs2 : scan_ok a s2) by (repeat split; [rewrite Ke; reflexivity | exact Kp | rewrite Ka; lia]).
    destruct (IHr s2 Hs2) as [K1 K2]. split; [exact K1|].
    rewrite K2, Kj. cbn [top_jzs flat_map sc_jz s1]. rewrite <- app_assoc. reflexivity.
Qed.

(* ---- condition_detect, one level ---- *)
Definition cd_step (f : nat) (rep_end : option Z) (acc : result (list node)) (op : node) : result (list node) :=
  let! cur := acc in
  match op with
  | Jz p cond addr =>
    if lt_opt rep_end addr then
      Ok (replace_code_first op (IfThen p (Unary "not" p cond) [Stmt p (ExitRepeat p)] []) cur)
    else
      let if_list := collect_if op p addr cur in
      let! cur1 := remove_all if_list cur in
      let! if2 := condition_detect f (break_detect if_list rep_end) rep_end in
      match rev if2 with
      | [] => Err EIndex
      | Stmt _ (Jump jpos jaddr) :: before =>
        if lt_opt rep_end jaddr then
          Ok (replace_code_all op (IfThen p cond (rev before ++ [Stmt jpos (ExitRepeat jpos)]) []) cur1)
        else
          let else_list := collect_else jpos jaddr cur1 in
          let! cur2 := remove_all else_list cur1 in
          let! else2 := condition_detect f (break_detect else_list rep_end) rep_end in
          Ok (replace_code_all op (IfThen p cond (rev before) else2) cur2)
      | _ => Ok (replace_code_all op (IfThen p cond if2 []) cur1)
      end
  | _ => Ok cur
  end.

Lemma condition_detect_unfold f sts e :
  condition_detect (S f) sts e =
  let! sts1 := map_result (fun st =>
      match st with
      | Stmt p (Repeat rp re c body ty a b v s) =>
        let! body' := condition_detect f body (Some re) in Ok (Stmt p (Repeat rp re c body' ty a b v s))
      | _ => Ok st
      end) sts in
  fold_left (cd_step f e) (scan_jz e sts1) (Ok sts1).
Proof. reflexivity. Qed.

Lemma last_case {A} (l : list node) (X : A) (Y : Z -> Z -> list node -> A) (W : A) :
  l <> [] -> Forall (fun st => st_ok st = true) l ->
  match rev l with [] => X | Stmt _ (Jump jp ja) :: before => Y jp ja before | _ => W end = W.
Proof.
  intros Hne H. destruct (rev l) as [|x r] eqn:E.
  - exfalso. apply Hne. apply (f_equal (@rev node)) in E. rewrite rev_involutive in E. exact E.
  - assert (Hx : st_ok x = true).
    { rewrite Forall_forall in H. apply H. apply in_rev. rewrite E. left. reflexivity. }
    destruct x; try discriminate Hx. destruct x; try discriminate Hx; reflexivity.
Qed.

Lemma trees_nonempty l : l <> [] -> trees l <> [].
Proof. destruct l; [congruence|discriminate]. Qed.

Lemma depths_cons x r : depths (x :: r) = Nat.max (depth_i x) (depths r). Proof. reflexivity. Qed.

Section Level.
  Variable f : nat.
  Hypothesis IHf : forall l lo hi, wp lo hi l -> (depths l < f)%nat -> condition_detect f (flats l) None = Ok (trees l).

  Definition before_ok (lo : Z) (st : node) : Prop := st_ok st = true /\ pos_of st < lo /\ jz_pos st.

  Lemma before_not_jz lo p st : before_ok lo st -> lo <= p -> not_jz_at p st = true.
  Proof.
    intros (Hok & Hpos & Hq) Hp. destruct st as [| | | | | | | | | | | | |q code| | | | | | | |]; try reflexivity.
    destruct code; try reflexivity. cbn [not_jz_at pos_of jz_pos] in *. subst. apply negb_true_iff. apply Z.eqb_neq. lia.
  Qed.

  Lemma fold_ifs : forall todo lo hi, wp lo hi todo -> (depths todo < S f)%nat ->
    forall D, Forall (before_ok lo) D ->
    fold_left (cd_step f None) (top_jzs todo) (Ok (D ++ flats todo)) = Ok (D ++ trees todo).
  Proof.
    induction 1 as [lo hi H | lo hi st r Hp Hlo Hr IH | lo hi p c a body r Hlo Hne Hb _ Hr IHr]; intros Hd D HD.
    - reflexivity.
    - cbn [top_jzs flat_map app flats flat_i trees tree_i].
      change (D ++ st :: flats r) with (D ++ [st] ++ flats r). change (D ++ st :: trees r) with (D ++ [st] ++ trees r).
      rewrite !app_assoc. apply IH.
      + rewrite depths_cons in Hd. lia.
      + apply Forall_app. split.
        * eapply Forall_impl; [|exact HD]. intros x (H1 & H2 & H3). repeat split; try assumption. lia.
        * constructor; [|constructor]. repeat split; [apply plain_st_ok; exact Hp | lia | apply plain_jz_pos; exact Hp].
    - pose proof (wp_le _ _ _ Hb) as Hpa. pose proof (wp_le _ _ _ Hr) as Hah.
      rewrite depths_cons, depth_if in Hd.
      change (top_jzs (IIf p c a body :: r)) with (Jz p c a :: top_jzs r). cbn [fold_left flats trees]. rewrite flat_if, tree_if.
      pose proof (flats_within _ _ _ Hb) as HB. pose proof (flats_within _ _ _ Hr) as HR.
      (* one step *)
      assert (Estep : cd_step f None (Ok (D ++ (Stmt p (Jz p c a) :: flats body) ++ flats r)) (Jz p c a)
                      = Ok ((D ++ [Stmt p (IfThen p c (trees body) [])]) ++ flats r)).
      { unfold cd_step. cbn [bind lt_opt]. cbn [app]. 
        (* the statements of the then-part *)
        assert (Ecol : collect_if (Jz p c a) p a (D ++ Stmt p (Jz p c a) :: flats body ++ flats r) = flats body).
        { rewrite collect_skip; [| |lia].
          - rewrite collect_head, collect_take.
            + rewrite collect_stop; [apply app_nil_r|].
              destruct (flats r) as [|x xs]; [exact I|]. inversion HR as [|? ? Hx _]; subst.
              destruct Hx as (Hx1 & Hx2 & Hx3). repeat split; [exact Hx1 | lia |].
              apply (within_not_jz a hi p x); [exact (conj Hx1 (conj Hx2 Hx3)) | left; lia].
            + eapply Forall_impl; [|exact HB]. intros x Hx. pose proof Hx as (Hx1 & Hx2 & Hx3). repeat split; [exact Hx1 | lia | lia |].
              apply (within_not_jz (p + 1) a p x Hx). left. lia.
          - eapply Forall_impl; [|exact HD]. intros x Hx. pose proof Hx as (Hx1 & Hx2 & Hx3). repeat split; [exact Hx1 | lia |].
            apply (before_not_jz lo p x Hx Hlo). }
        rewrite Ecol.
        (* taking them out *)
        assert (Erem : remove_all (flats body) (D ++ Stmt p (Jz p c a) :: flats body ++ flats r)
                       = Ok ((D ++ [Stmt p (Jz p c a)]) ++ flats r)).
        { change (D ++ Stmt p (Jz p c a) :: flats body ++ flats r) with (D ++ [Stmt p (Jz p c a)] ++ flats body ++ flats r).
          rewrite app_assoc. apply (remove_all_block _ _ _ (p + 1)).
          - apply Forall_app. split.
            + eapply Forall_impl; [|exact HD]. intros x (Hx1 & Hx2 & _). split; [exact Hx1 | lia].
            + constructor; [|constructor]. split; [reflexivity | cbn [pos_of]; lia].
          - eapply Forall_impl; [|exact HB]. intros x (Hx1 & Hx2 & _). split; [exact Hx1 | lia]. }
        rewrite Erem. cbn [bind break_detect].
        rewrite (IHf body (p + 1) a Hb) by lia. cbn [bind].
        rewrite last_case; [| apply trees_nonempty; exact Hne |].
        - rewrite <- app_assoc. cbn [app]. rewrite replace_code_all_one.
          + rewrite <- app_assoc. reflexivity.
          + eapply Forall_impl; [|exact HD]. intros x Hx. split; [apply Hx | apply (before_not_jz lo p x Hx Hlo)].
          + eapply Forall_impl; [|exact HR]. intros x Hx. split; [apply Hx | apply (within_not_jz a hi p x Hx); left; lia].
        - eapply Forall_impl; [|exact (trees_within _ _ _ Hb)]. intros x Hx. apply Hx. }
      rewrite Estep. rewrite IHr.
      + rewrite <- app_assoc. reflexivity.
      + lia.
      + apply Forall_app. split.
        * eapply Forall_impl; [|exact HD]. intros x (H1 & H2 & H3). repeat split; try assumption. lia.
        * constructor; [|constructor]. repeat split; cbn [pos_of]; lia.
  Qed.
End Level.

Theorem condition_detect_nest : forall f l lo hi, wp lo hi l -> (depths l < f)%nat ->
  condition_detect f (flats l) None = Ok (trees l).
Proof.
  induction f as [|f IHf]; intros l lo hi Hwp Hd; [lia|].
  rewrite condition_detect_unfold.
  rewrite map_result_ok by (eapply Forall_impl; [|exact (flats_within _ _ _ Hwp)]; intros x Hx; apply Hx).
  cbn [bind]. unfold scan_jz.
  destruct (scan_flats lo hi l Hwp (Build_scan_state None None false []) ltac:(repeat split)) as [_ Ej].
  rewrite Ej. cbn [sc_jz app].
  exact (fold_ifs f IHf l lo hi Hwp Hd [] (Forall_nil _)).
Qed.

(* ---- loop_detect leaves the rebuilt trees alone (there is no loop in them) ---- *)
Definition ld_step (f : nat) (acc : result (list node * option node * list node)) (st : node) :
  result (list node * option node * list node) :=
  let! (out, prev, rm) := acc in
  match st with
  | Stmt p (Repeat rp re cond body ty a b v s) =>
    let '(cond1, body1) := match is_repeat_while body with Some c => (c, tl body) | None => (cond, body) end in
    let is_with := is_repeat_with cond1 body1 prev in
    let '(ty2, a2, b2, v2, s2, body2, rm2) :=
      if is_with then
        match prev, cond1, rev body1 with
        | Some (Stmt _ (Binary _ _ pl pr) as pst), Binary _ _ _ cr, Stmt _ (Binary _ _ _ (Binary _ _ inc _)) :: before =>
          ("for"%string, Some pr, Some cr, name_of pl,
           (if is_const inc && name_is inc "-1" then "-"%string else "+"%string), rev before, rm ++ [pst])
        | _, _, _ => (ty, a, b, v, s, body1, rm)
        end
      else (ty, a, b, v, s, body1, rm) in
    let! inlist := is_repeat_with_in_list cond1 body2 in
    let '(ty3, a3, v3, body3) :=
      match inlist with
      | Some (vn, lst) => ("for_in"%string, Some lst, vn, tl body2)
      | None => (ty2, a2, v2, body2)
      end in
    let! body4 := loop_detect f body3 in
    let st' := Stmt p (Repeat rp re cond1 body4 ty3 a3 b2 v3 s2) in
    Ok (out ++ [st'], Some st', rm2)
  | Stmt p (IfThen ip c ifs elses) =>
    let! ifs' := loop_detect f ifs in
    let! elses' := loop_detect f elses in
    let st' := Stmt p (IfThen ip c ifs' elses') in
    Ok (out ++ [st'], Some st', rm)
  | _ => Ok (out ++ [st], Some st, rm)
  end.

Lemma loop_detect_unfold f sts :
  loop_detect (S f) sts = let! (out, _, to_remove) := fold_left (ld_step f) sts (Ok ([], None, [])) in remove_all to_remove out.
Proof. reflexivity. Qed.

Lemma loop_detect_nil f : loop_detect (S f) [] = Ok [].
Proof. reflexivity. Qed.

Theorem loop_detect_nest : forall f l lo hi, wp lo hi l -> (depths l < f)%nat -> loop_detect (S f) (trees l) = Ok (trees l).
Proof.
  induction f as [|f IHf]; intros l lo hi Hwp Hd; [lia|].
  rewrite loop_detect_unfold.
  assert (E : forall todo lo hi, wp lo hi todo -> (depths todo < S f)%nat -> forall out prev,
             exists prev', fold_left (ld_step (S f)) (trees todo) (Ok (out, prev, [])) = Ok (out ++ trees todo, prev', [])).
  { clear l lo hi Hwp Hd.
    induction 1 as [lo hi H | lo hi st r Hp Hlo Hr IH | lo hi p c a body r Hlo Hne Hb _ Hr IHr]; intros Hd out prev.
    - exists prev. rewrite app_nil_r. reflexivity.
    - cbn [trees tree_i fold_left]. rewrite depths_cons in Hd.
      assert (Es : ld_step (S f) (Ok (out, prev, [])) st = Ok (out ++ [st], Some st, []))
        by (destruct st; try discriminate Hp; destruct st; try discriminate Hp; reflexivity).
      rewrite Es. destruct (IH ltac:(lia) (out ++ [st]) (Some st)) as [p' E']. exists p'. rewrite E', <- app_assoc. reflexivity.
    - cbn [trees fold_left]. rewrite tree_if. rewrite depths_cons, depth_if in Hd.
      assert (Es : ld_step (S f) (Ok (out, prev, [])) (Stmt p (IfThen p c (trees body) []))
                   = Ok (out ++ [Stmt p (IfThen p c (trees body) [])], Some (Stmt p (IfThen p c (trees body) [])), [])).
      { cbn [ld_step bind]. rewrite (IHf body (p + 1) a Hb) by lia. cbn [bind]. rewrite loop_detect_nil. reflexivity. }
      rewrite Es. destruct (IHr ltac:(lia) (out ++ [Stmt p (IfThen p c (trees body) [])]) (Some (Stmt p (IfThen p c (trees body) [])))) as [p' E'].
      exists p'. rewrite E', <- app_assoc. reflexivity. }
  destruct (E l lo hi Hwp Hd [] None) as [p' E']. rewrite E'. reflexivity.
Qed.

(* ---- the two passes together, with the fuel parse_opcodes gives them ---- *)
Lemma depth_le_count : forall l lo hi, wp lo hi l -> (depths l <= stmts_count (flats l))%nat /\ (depths l <= stmts_count (trees l))%nat.
Proof.
  induction 1 as [lo hi H | lo hi st r Hp Hlo Hr IH | lo hi p c a body r Hlo Hne Hb IHb Hr IHr].
  - split; reflexivity.
  - destruct IH as [I1 I2]. unfold stmts_count in *. cbn [flats flat_i trees tree_i app depths depth_i fold_right]. rewrite Nat.max_0_l. split; lia.
  - destruct IHb as [B1 B2]. destruct IHr as [R1 R2]. rewrite depths_cons, depth_if. cbn [flats trees]. rewrite flat_if, tree_if.
    unfold stmts_count in *. cbn [app fold_right stmt_count]. rewrite fold_right_app.
    assert (Hmono : forall (l1 : list node) (k : nat), (k <= fold_right (fun x acc => stmt_count x + acc) k l1)%nat)
      by (induction l1; intros; cbn [fold_right]; [lia | specialize (IHl1 k); lia]).
    assert (Hsplit : forall (l1 : list node) (k : nat), fold_right (fun x acc => (stmt_count x + acc)%nat) k l1 = (fold_right (fun x acc => (stmt_count x + acc)%nat) O l1 + k)%nat)
      by (induction l1; intros; cbn [fold_right]; [reflexivity | rewrite IHl1; lia]).
    rewrite (Hsplit (flats body)). split; lia.
Qed.

Theorem detect_nest l lo hi : wp lo hi l -> detect (flats l) = Ok (trees l).
Proof.
  intros Hwp. unfold detect. destruct (depth_le_count l lo hi Hwp) as [H1 H2].
  rewrite (condition_detect_nest _ l lo hi Hwp) by lia. cbn [bind].
  apply (loop_detect_nest _ l lo hi Hwp). lia.
Qed.
Print Assumptions detect_nest.

(* ---- composing well-positioned lists ---- *)
Lemma wp_lower lo lo' hi l : wp lo hi l -> lo' <= lo -> wp lo' hi l.
Proof.
  intros H Hl. destruct H as [lo hi H | lo hi st r Hp Hlo Hr | lo hi p c a body r Hlo Hne Hb Hr].
  - constructor. lia.
  - constructor; [exact Hp | lia | exact Hr].
  - constructor; [lia | exact Hne | exact Hb | exact Hr].
Qed.
Lemma wp_app lo mid hi l1 l2 : wp lo mid l1 -> wp mid hi l2 -> wp lo hi (l1 ++ l2).
Proof.
  induction 1 as [lo mid H | lo mid st r Hp Hlo Hr IH | lo mid p c a body r Hlo Hne Hb _ Hr IHr]; intros H2.
  - cbn [app]. apply (wp_lower mid lo hi l2 H2 H).
  - cbn [app]. constructor; [exact Hp | exact Hlo | apply IH; exact H2].
  - cbn [app]. constructor; [exact Hlo | exact Hne | exact Hb | apply IHr; exact H2].
Qed.
