From Coq Require Import List ZArith Bool Lia.
From Coq.Strings Require Import Byte.
From DRX Require Import Py.PyBytes Py.Layout Py.PyStr Proofs.PyBytesFacts Model.Riff Proofs.RiffFacts Model.Xtract.
Import ListNotations.
Open Scope Z_scope.

(* ---------- names ---------- *)
Lemma fn_char_safe b : fn_safe (fn_char b) = true.
Proof. unfold fn_char. destruct (fn_safe b) eqn:E; [exact E|reflexivity]. Qed.

Theorem file_name_safe n id : Forall (fun b => fn_safe b = true) (file_name n id).
Proof. unfold file_name. apply Forall_forall. intros x Hx. apply in_map_iff in Hx. destruct Hx as (y & <- & _). apply fn_char_safe. Qed.

Lemma u8_digit k : 0 <= k < 10 -> u8 (digit k) = 48 + k.
Proof. intros H. unfold digit. rewrite u8_byte_of_Z, Z.mod_small by lia. reflexivity. Qed.

Lemma dec_pos_head fuel : forall n acc, (0 < fuel)%nat -> 0 <= n ->
  exists k rest, dec_pos_fuel fuel n acc = digit k :: rest /\ 0 <= k < 10.
Proof.
  induction fuel as [|f IH]; intros n acc Hf Hn; [lia|]. cbn [dec_pos_fuel].
  destruct (Z.ltb_spec n 10).
  - exists n, acc. split; [reflexivity|lia].
  - destruct f as [|f'].
    + cbn [dec_pos_fuel]. exists (n mod 10), acc. split; [reflexivity|]. apply Z.mod_pos_bound; lia.
    + apply IH; [lia|]. apply Z.div_pos; lia.
Qed.

(* every file name starts with a decimal digit: it is neither "." nor ".." nor empty *)
Theorem file_name_starts_with_digit n id : 0 <= n ->
  exists d rest, file_name n id = d :: rest /\ 48 <= u8 d <= 57.
Proof.
  intros Hn. unfold file_name, str_of_Z. destruct (Z.ltb_spec n 0); [lia|].
  unfold dec_nonneg. destruct (dec_pos_head (S (Z.to_nat (Z.log2 n))) n [] ltac:(lia) Hn) as (k & rest & E & Hk).
  rewrite E. cbn [app map]. exists (fn_char (digit k)), (map fn_char (rest ++ "."%byte :: id)).
  split; [reflexivity|].
  assert (Hs : fn_safe (digit k) = true).
  { unfold fn_safe. rewrite (u8_digit k Hk).
    apply orb_true_iff; left. apply orb_true_iff; left. apply orb_true_iff; left. apply orb_true_iff; right.
    apply andb_true_iff; split; apply Z.leb_le; lia. }
  unfold fn_char. rewrite Hs, (u8_digit k Hk). lia.
Qed.

(* no path separator, NUL, drive colon, ... can occur: all characters are in [A-Za-z0-9._-] *)
Theorem file_name_no_separator n id b : In b (file_name n id) ->
  u8 b <> 47 /\ u8 b <> 92 /\ u8 b <> 0 /\ u8 b <> 58.
Proof.
  intros Hin. pose proof (file_name_safe n id) as H. rewrite Forall_forall in H. specialize (H b Hin).
  unfold fn_safe in H.
  repeat match goal with
  | |- context[?a <=? ?c] => destruct (Z.leb_spec a c)
  | |- context[?a =? ?c] => destruct (Z.eqb_spec a c)
  | H : context[?a <=? ?c] |- _ => destruct (Z.leb_spec a c)
  | H : context[?a =? ?c] |- _ => destruct (Z.eqb_spec a c)
  end; cbn in H; try discriminate; lia.
Qed.

(* ---------- the write list ---------- *)
(* resource r (at position idx) is extracted when it is not ignored and has a positive size *)
Definition extracted (r : mmap_res) : bool := negb (ignored (r_id r) || (r_size r <=? 0)).
(* ... and designates chunk c *)
Definition designates (chunks : list chunk) (off : Z) (r : mmap_res) (c : chunk) : Prop :=
  get_by_offset chunks (r_off r - off) = Ok c /\ bytes_eqb (r_id r) (fst c) = true.
Definition all_designate (chunks : list chunk) (off : Z) (rs : list mmap_res) : Prop :=
  forall r, In r rs -> extracted r = true -> exists c, designates chunks off r c.

Theorem write_loop_exact chunks off rs : forall idx,
  all_designate chunks off rs ->
  exists ws, write_loop chunks off rs idx = (ws, Done) /\
  forall name content, In (name, content) ws <->
    exists i r c, nth_error rs i = Some r /\ extracted r = true /\ designates chunks off r c /\
                  name = file_name (idx + Z.of_nat i) (fst c) /\ content = snd c.
Proof.
  induction rs as [|r rs IH]; intros idx Hall.
  - exists []. split; [reflexivity|]. intros name content. split; [intros []|].
    intros ([|i] & r & c & H & _); discriminate.
  - assert (Hall' : all_designate chunks off rs) by (intros x Hx; apply Hall; right; exact Hx).
    destruct (IH (idx + 1) Hall') as (ws & Ews & Hws).
    cbn [write_loop]. unfold extracted in *.
    destruct (ignored (r_id r) || (r_size r <=? 0)) eqn:Eskip.
    + exists ws. split; [exact Ews|]. intros name content. rewrite Hws. split.
      * intros (i & x & c & H1 & H2 & H3 & H4 & H5). exists (S i), x, c.
        split; [exact H1|]. split; [exact H2|]. split; [exact H3|]. split; [|exact H5].
        rewrite H4. f_equal. lia.
      * intros ([|i] & x & c & H1 & H2 & H3 & H4 & H5).
        -- cbn in H1. injection H1 as <-. rewrite Eskip in H2. discriminate.
        -- exists i, x, c. split; [exact H1|]. split; [exact H2|]. split; [exact H3|]. split; [|exact H5].
           rewrite H4. f_equal. lia.
    + destruct (Hall r (or_introl eq_refl)) as (c & Hget & Hid); [unfold extracted; rewrite Eskip; reflexivity|].
      rewrite Hget, Hid, Ews.
      exists ((file_name idx (fst c), snd c) :: ws). split; [reflexivity|].
      intros name content. cbn [In]. rewrite Hws. split.
      * intros [E|(i & x & c' & H1 & H2 & H3 & H4 & H5)].
        -- injection E as <- <-. exists 0%nat, r, c.
           split; [reflexivity|]. split; [rewrite Eskip; reflexivity|]. split; [split; assumption|].
           split; [f_equal; lia|reflexivity].
        -- exists (S i), x, c'. split; [exact H1|]. split; [exact H2|]. split; [exact H3|]. split; [|exact H5].
           rewrite H4. f_equal. lia.
      * intros ([|i] & x & c' & H1 & H2 & (H3a & H3b) & H4 & H5).
        -- cbn in H1. injection H1 as <-. left. rewrite Hget in H3a. injection H3a as <-.
           rewrite H4, H5. f_equal. f_equal. lia.
        -- right. exists i, x, c'. split; [exact H1|]. split; [exact H2|]. split; [split; assumption|]. split; [|exact H5].
           rewrite H4. f_equal. lia.
Qed.

(* ---------- running twice ---------- *)
Lemma apply_writes_rev ws : forall fs, apply_writes fs ws = rev ws ++ fs.
Proof.
  unfold apply_writes. induction ws as [|w ws IH]; intros fs; cbn [fold_left rev]; [reflexivity|].
  rewrite IH. unfold fs_write. rewrite <- app_assoc. reflexivity.
Qed.

Lemma fs_lookup_app a b n :
  fs_lookup (a ++ b) n = match fs_lookup a n with Some c => Some c | None => fs_lookup b n end.
Proof. induction a as [|[k c] a IH]; cbn [app fs_lookup]; [reflexivity|]. destruct (bytes_eqb k n); [reflexivity|exact IH]. Qed.

Theorem extract_twice_same fs ws name :
  fs_lookup (apply_writes (apply_writes fs ws) ws) name = fs_lookup (apply_writes fs ws) name.
Proof.
  rewrite !apply_writes_rev, !fs_lookup_app. destruct (fs_lookup (rev ws) name); reflexivity.
Qed.

Lemma bytes_eqb_eq a : forall b, bytes_eqb a b = true -> a = b.
Proof.
  induction a as [|x a IH]; intros [|y b]; cbn [bytes_eqb]; try discriminate; [reflexivity|].
  intros H. apply andb_true_iff in H. destruct H as [H1 H2]. apply Byte.byte_dec_bl in H1. f_equal; auto.
Qed.

Lemma fs_lookup_in (l : folder) name c : fs_lookup l name = Some c -> In (name, c) l.
Proof.
  induction l as [|[k v] l IH]; cbn [fs_lookup]; [discriminate|].
  destruct (bytes_eqb k name) eqn:B.
  - intros [= <-]. left. f_equal. apply bytes_eqb_eq. exact B.
  - intros H. right. apply IH. exact H.
Qed.

(* files not named in the write list are untouched *)
Theorem other_files_untouched fs ws name :
  (forall c, ~ In (name, c) ws) -> fs_lookup (apply_writes fs ws) name = fs_lookup fs name.
Proof.
  intros Hnot. rewrite apply_writes_rev, fs_lookup_app.
  match goal with |- context[match ?x with _ => _ end] => destruct x as [c|] eqn:E end; [|reflexivity].
  exfalso. apply (Hnot c). apply in_rev. apply fs_lookup_in. exact E.
Qed.

Lemma bytes_eqb_refl a : bytes_eqb a a = true.
Proof. induction a as [|x a IH]; cbn [bytes_eqb]; [reflexivity|]. rewrite IH, andb_true_r. apply Byte.byte_dec_lb. reflexivity. Qed.

Lemma fs_lookup_some_of_in (l : folder) name c0 : In (name, c0) l -> exists c, fs_lookup l name = Some c.
Proof.
  induction l as [|[k v] l IH]; cbn [fs_lookup In]; [intros []|].
  intros [H|H].
  - injection H as -> ->. rewrite bytes_eqb_refl. eauto.
  - destruct (bytes_eqb k name); [eauto|exact (IH H)].
Qed.

(* a name in the write list ends up holding a content of the write list, whatever the folder held before
   (an earlier extraction of another revision of the movie, leftovers of any size) *)
Theorem written_files_hold_written_content fs (ws : list write) name c0 :
  In (name, c0) ws ->
  exists c, In (name, c) ws /\ fs_lookup (apply_writes fs ws) name = Some c.
Proof.
  intros Hin.
  destruct (fs_lookup_some_of_in (rev ws) name c0) as [c Hc]; [apply in_rev in Hin; exact Hin|].
  exists c. split; [apply in_rev; apply fs_lookup_in; exact Hc|].
  rewrite apply_writes_rev, fs_lookup_app, Hc. reflexivity.
Qed.

Theorem written_files_independent_of_earlier_content fs fs' (ws : list write) name c0 :
  In (name, c0) ws -> fs_lookup (apply_writes fs ws) name = fs_lookup (apply_writes fs' ws) name.
Proof.
  intros Hin. rewrite !apply_writes_rev, !fs_lookup_app.
  destruct (fs_lookup_some_of_in (rev ws) name c0) as [c Hc]; [apply in_rev in Hin; exact Hin|].
  rewrite Hc. reflexivity.
Qed.

(* ---------- composition with the container theorems (C01) ---------- *)
Lemma parse_riff_enc0 bo flen cs : in32 flen -> Forall wf_chunk cs ->
  parse_riff (enc_movie bo flen cs) 0 bo = Ok (map view cs).
Proof. intros H1 H2. exact (parse_riff_enc [] bo flen cs H1 H2). Qed.

Theorem extract_wellformed bo flen c0 cs' mi mc h rs tail imvals :
  let cs := c0 :: cs' in
  in32 flen -> Forall wf_chunk cs ->
  cc c0 = s_imap -> payload c0 = enc_imap bo imvals -> fits_all imap_layout imvals ->
  (mi < length cs)%nat -> nth mi cs c0 = mc -> getv imvals 1 = offset_of cs mi ->
  cc mc = s_mmap -> payload mc = enc_mmap bo h rs ++ tail ->
  wf_hdr h -> h_used h = zlen rs -> Forall wf_res rs ->
  extract (enc_movie bo flen cs) bo false = write_loop (map view cs) 0 (map view_res rs) 0.
Proof.
  intros cs Hfl Hwf Hc0 Hp0 Him Hmi Hmc Hoff Hcm Hpm Hh Hu Hrs.
  unfold extract. rewrite parse_riff_enc0 by assumption.
  unfold cs at 1. cbn [map]. fold cs.
  change (fst (view c0)) with (map sanitize_char (cc c0)). rewrite Hc0.
  change (bytes_eqb (map sanitize_char s_imap) s_imap) with true. cbn [negb].
  change (snd (view c0)) with (payload c0). rewrite Hp0, imap_roundtrip by exact Him.
  assert (Hg : getv (firstn 6 imvals) 1 = getv imvals 1).
  { destruct imvals as [|a [|b r]]; cbn in Him; try tauto. }
  rewrite Hg, Hoff. replace (offset_of cs mi - 0) with (offset_of cs mi) by lia.
  change (view c0 :: map view cs') with (map view cs).
  rewrite (get_by_offset_nth cs mi c0 Hmi), Hmc.
  change (fst (view mc)) with (map sanitize_char (cc mc)). rewrite Hcm.
  change (bytes_eqb (map sanitize_char s_mmap) s_mmap) with true. cbn [negb].
  change (snd (view mc)) with (payload mc). rewrite Hpm, mmap_roundtrip by assumption.
  reflexivity.
Qed.
