(* C04, statements and structure: the JavaScript emitted for a decompiled statement and for a rebuilt nest of
   if / if-else / repeat while is the canonical JavaScript layout of the SOURCE program under the translator's
   fixed correspondences: "<target> = <expr>;", "f(args);", "fn_call(h(args));" for a handler of the script,
   "if (<cond>) {" ... "} else {" ... "}", "while (<cond>) {" ... "}", bodies one level deeper; a line gets its
   semicolon unless its text ends in a closing brace. *)
From Coq Require Import ZArith List Bool String Lia.
From DRX Require Import Py.PyBytes Py.PyStr Py.PyString Model.LingoAst Model.LingoGen Model.LingoOps Model.LingoLoop
  Spec.SpecLingo Spec.SpecJs Spec.SpecNest Gen.Gen_Lingo
  Proofs.LingoExecFacts Proofs.LingoStmtFacts Proofs.LingoTextFacts Proofs.LingoJsFacts Proofs.LingoNestFacts Proofs.LingoNestExec.
Import ListNotations.
Open Scope string_scope.

(* ---- ends_with ---- *)
Lemma rev_string_acc_app s : forall acc, rev_string_acc s acc = rev_string_acc s "" ++ acc.
Proof.
  induction s as [|c s IH]; intros acc; cbn [rev_string_acc]; [reflexivity|].
  rewrite (IH (String c acc)), (IH (String c "")). rewrite sappend_assoc. reflexivity.
Qed.
Lemma rev_string_app a b : rev_string (a ++ b) = rev_string b ++ rev_string a.
Proof.
  unfold rev_string. induction a as [|c a IH]; cbn [append rev_string_acc].
  - induction (rev_string_acc b "") as [|x t IHt]; [reflexivity|]. cbn [append]. rewrite <- IHt. reflexivity.
  - rewrite (rev_string_acc_app (a ++ b)), IH, (rev_string_acc_app a (String c "")). rewrite sappend_assoc. reflexivity.
Qed.
Lemma ends_with_brace s : ends_with "}" (s ++ "}") = true.
Proof. unfold ends_with. rewrite rev_string_app. change (rev_string "}") with "}". cbn [append prefix]. match goal with |- context [Ascii.ascii_dec ?a ?b] => destruct (Ascii.ascii_dec a b) end; [|congruence]. destruct (rev_string s); reflexivity. Qed.

Open Scope list_scope.

(* a statement line: semicolon unless the text ends in a brace *)
Definition js_line (ind : nat) (t : string) : string :=
  if ends_with "}" t then indent ind ++ t ++ "
" else indent ind ++ t ++ ";
".

(* the JavaScript of an assignment target *)
Definition js_target_text (fm : bool) (en : env) (props : list string) (t : target) : string :=
  match t with
  | TLoc i => pp_js (js_var fm (name_of (nth i (e_locals en) (Leaf KLocal "" 0 true))))
  | TPar i => pp_js (js_var fm (name_of (nth i (e_params en) (Leaf KParam "" 0 true))))
  | TGlob n => "_global." ++ nm en n
  | TProp n | TByName n => if mem_str (nm en n) props then (if fm then "this" else "me") ++ "." ++ nm en n else pp_js (js_prop fm (nm en n))
  end.

Definition js_stmt_text (fm : bool) (en : env) (props : list string) (s : stmt) : string :=
  match s with
  | SSet t e => js_target_text fm en props t ++ " = " ++ pp_js (to_js fm en e)
  | SCallS f args => nm en f ++ "(" ++ join ", " (map (fun e => pp_js (to_js fm en e)) args) ++ ")"
  | SLCallS f args => "fn_call(" ++ nth f (e_lfuncs en) "" ++ "(" ++ join ", " (map (fun e => pp_js (to_js fm en e)) args) ++ "))"
  | SSetObj f pid o v =>
    js_leaf (fclass f) (pp_js (js_raw_or en o (to_js fm en o))) fm ++ "." ++ nth pid (ftable f) "" ++ " = " ++ pp_js (to_js fm en v)
  | SSetThe k i v => pp_js (to_js fm en (EThe k i)) ++ " = " ++ pp_js (to_js fm en v)
  | SSetAcc _ _ _ => ""      (* outside the JavaScript theorems, like EAcc *)
  | SSetMenu pid it mn v => pp_js (to_js fm en (EMenu pid it mn)) ++ " = " ++ pp_js (to_js fm en v)
  | SExit => "exit()"
  | SPutField _ _ _ | SPutLoc _ _ _ => ""     (* put ... into / after / before: outside the JavaScript theorems *)
  end.

Definition js_ok_s (en : env) (props : list string) (s : stmt) : Prop :=
  match s with
  | SSet t e =>
    js_ok en e /\
    match t with
    | TLoc i => match nth i (e_locals en) (Leaf KLocal "" 0 true) with Leaf KLocal _ _ _ => True | _ => False end
    | TPar i => match nth i (e_params en) (Leaf KParam "" 0 true) with Leaf KParam _ _ _ => True | _ => False end
    | _ => True
    end
  | SCallS f args => plain_call_name (nm en f) = true /\ js_ok_args en args
  | SLCallS f args => plain_call_name (nth f (e_lfuncs en) "") = true /\ js_ok_args en args
  | SSetObj f _ o v => assignable f = true /\ js_ok en o /\ js_ok en v
  | SSetThe k i v => js_ok en (EThe k i) /\ js_ok en v
  | SSetAcc _ _ _ => False
  | SSetMenu pid it mn v => js_ok en (EMenu pid it mn) /\ js_ok en v
  | SExit => True
  | SPutField _ _ _ | SPutLoc _ _ _ => False
  end.

Lemma js_args_text fm en l : js_ok_args en l -> forall pc ind,
  map (fun n => gen_js n ind fm) (fst (reify_args en pc l)) = map (fun e => pp_js (to_js fm en e)) l.
Proof.
  induction l as [|x l IH]; intros Hok pc ind; [reflexivity|]. destruct Hok as [Hx Hl]. cbn [reify_args].
  destruct (reify_args en (pc + zlen (compile_e x))%Z l) as [ns pa] eqn:Er. cbn [fst map].
  rewrite (gen_js_is_pp fm en x Hx). specialize (IH Hl (pc + zlen (compile_e x))%Z ind). rewrite Er in IH. cbn [fst] in IH.
  rewrite IH. reflexivity.
Qed.

Theorem js_stmt_line fm en props s : js_ok_s en props s -> forall pc ind,
  gen_js (reify_s en props pc s) ind fm = js_line ind (js_stmt_text fm en props s).
Proof.
  destruct s as [t e|f args|f args|fam pid o v|tk ti tv|an ao av|mp mi mm mv| |pmd pf pv|lmd li lv]; intros Hok pc ind; [| | | | |destruct Hok| |destruct fm; reflexivity|destruct Hok|destruct Hok].
  6:{ destruct Hok as (Hk & Hv). cbn [reify_s js_stmt_text].
      pose proof (gen_js_is_pp fm en (EMenu mp mi mm) Hk pc ind) as Hl. cbn [reify_e] in Hl.
      assert (Hl' : forall p1 p2 l r ls rs, gen_js l ind fm = ls -> gen_js r ind fm = rs ->
                   gen_js (Stmt p1 (Binary "assign" p2 l r)) ind fm = js_line ind (ls ++ " = " ++ rs)).
      { intros p1 p2 l r ls rs E1 E2. cbn [gen_js]. change (String.eqb "assign" "assign") with true. cbn iota. rewrite E1, E2.
        unfold js_line. reflexivity. }
      erewrite Hl'; [reflexivity | | apply (gen_js_is_pp fm en mv Hv)].
      etransitivity; [|exact Hl]. cbn [gen_js]. reflexivity. }
  5:{ destruct Hok as (Hk & Hv). cbn [reify_s js_stmt_text].
      pose proof (gen_js_is_pp fm en (EThe tk ti) Hk (pc + zlen (compile_e tv))%Z ind) as Hl. cbn [reify_e] in Hl.
      cbn [gen_js]. change (String.eqb "assign" "assign") with true. cbn iota. rewrite Hl, (gen_js_is_pp fm en tv Hv).
      unfold js_line. reflexivity. }
  4:{ destruct Hok as (Hfam & Ho & Hv). cbn [reify_s js_stmt_text].
      pose proof (objref_js fm en pc o (gen_js_is_pp fm en o) Ho) as Hid.
      pose proof (gen_js_is_pp fm en v Hv) as Hg.
      assert (Hl : forall p1 p2 l r ls rs, gen_js l ind fm = ls -> gen_js r ind fm = rs ->
                   gen_js (Stmt p1 (Binary "assign" p2 l r)) ind fm = js_line ind (ls ++ " = " ++ rs)).
      { intros p1 p2 l r ls rs E1 E2. cbn [gen_js]. change (String.eqb "assign" "assign") with true. cbn iota. rewrite E1, E2.
        unfold js_line. reflexivity. }
      destruct fam; try discriminate Hfam; cbn [fclass];
        (erewrite Hl; [| eapply accessor_js; [apply Hid|reflexivity] | apply Hg]; repeat rewrite sappend_assoc; reflexivity). }
  - destruct Hok as [He Ht]. cbn [reify_s js_stmt_text gen_js].
    change (String.eqb "assign" "assign") with true. cbn iota.
    rewrite (gen_js_is_pp fm en e He).
    assert (Htt : gen_js (target_node en props (pc + zlen (compile_e e))%Z t) ind fm = js_target_text fm en props t).
    { destruct t as [i|i|n|n|n]; cbn [target_node js_target_text].
      - destruct (nth i (e_locals en) (Leaf KLocal "" 0 true)); try contradiction. destruct k; try contradiction.
        cbn [gen_js js_leaf name_of]. unfold js_var. destruct (fm && String.eqb name "me"); reflexivity.
      - destruct (nth i (e_params en) (Leaf KParam "" 0 true)); try contradiction. destruct k; try contradiction.
        cbn [gen_js js_leaf name_of]. unfold js_var. destruct (fm && String.eqb name "me"); reflexivity.
      - reflexivity.
      - destruct (mem_str (nm en n) props); [|reflexivity]. cbn [gen_js js_leaf]. destruct fm; reflexivity.
      - destruct (mem_str (nm en n) props); [|reflexivity]. cbn [gen_js js_leaf]. destruct fm; reflexivity. }
    rewrite Htt. unfold js_line. reflexivity.
  - destruct Hok as [Hp Hl]. cbn [reify_s js_stmt_text]. destruct (reify_args en pc args) as [ns pa] eqn:Er.
    cbn [gen_js]. rewrite (gv_none _ _ Hp). cbn [option_map set_last]. rewrite (js_call_plain _ _ _ _ _ _ Hp).
    pose proof (js_args_text fm en args Hl pc ind) as E. rewrite Er in E. cbn [fst] in E.
    rewrite map_rev, rev_involutive, E. unfold js_line. reflexivity.
  - destruct Hok as [Hp Hl]. cbn [reify_s js_stmt_text]. destruct (reify_args en pc args) as [ns pa] eqn:Er.
    cbn [gen_js]. rewrite (gv_none _ _ Hp). cbn [option_map set_last]. rewrite (js_call_plain _ _ _ _ _ _ Hp).
    pose proof (js_args_text fm en args Hl pc ind) as E. rewrite Er in E. cbn [fst] in E.
    rewrite map_rev, rev_involutive, E. unfold js_line. repeat rewrite sappend_assoc. reflexivity.
Qed.
Print Assumptions js_stmt_line.

(* ---- conditions: between parentheses; only an infix operation is parenthesised by itself ---- *)
Definition js_cond (fm : bool) (en : env) (c : expr) : string :=
  let s := pp_js (to_js fm en c) in
  match c with
  | EBin o _ _ => match js_binop o with KInfix _ => s | _ => "(" ++ s ++ ")" end
  | _ => "(" ++ s ++ ")"
  end.

Lemma starts_with_paren X : starts_with "(" ("(" ++ X) = true.
Proof.
  unfold starts_with. cbn [append prefix]. match goal with |- context [Ascii.ascii_dec ?a ?b] => destruct (Ascii.ascii_dec a b) end; [|congruence].
  destruct X; reflexivity.
Qed.

Lemma wrap_paren_reify fm en pc c : js_ok en c -> wrap_paren (reify_e en pc c) (pp_js (to_js fm en c)) = js_cond fm en c.
Proof.
  destruct c as [n|k|n|i|i|n|n|o x y|x|x|f args|f args|l|l|fam pid x|pid it mn|tk ti|tn|an ax|kn|fx]; intros Hok; unfold js_cond; cbn [reify_e]; try reflexivity.
  - destruct (nth k (e_consts en) (CInt 0)); reflexivity.
  - cbn [js_ok] in Hok. destruct (nth i (e_locals en) (Leaf KLocal "" 0 true)); try contradiction. reflexivity.
  - destruct o; unfold wrap_paren; cbn [to_js js_binop pp_js]; rewrite ?starts_with_paren; reflexivity.
  - rewrite reify_args_eq. destruct (reify_args en pc args); reflexivity.
  - rewrite reify_args_eq. destruct (reify_args en pc args); reflexivity.
  - rewrite reify_args_eq. destruct (reify_args en pc l); reflexivity.
  - rewrite reify_args_eq. destruct (reify_args en pc l); reflexivity.
  - destruct fam; reflexivity.
  - destruct tk; try reflexivity; unfold the_node; destruct (String.eqb _ "perFrameHook"); reflexivity.
  - unfold the_name_node. destruct (assoc_str (nm en tn) ASSIGN_KNOWN_PROPERTIES); reflexivity.
Qed.

Fixpoint pp_js_p (fm : bool) (en : env) (props : list string) (ind : nat) (p : prog) : string :=
  match p with
  | PNil => ""
  | PStmt s r => js_line ind (js_stmt_text fm en props s) ++ pp_js_p fm en props ind r
  | PIf c a r => indent ind ++ "if " ++ js_cond fm en c ++ " {
" ++ pp_js_p fm en props (S ind) a ++ indent ind ++ "}
" ++ pp_js_p fm en props ind r
  | PIfE c a eb r => indent ind ++ "if " ++ js_cond fm en c ++ " {
" ++ pp_js_p fm en props (S ind) a ++ indent ind ++ "} else {
" ++ pp_js_p fm en props (S ind) eb ++ indent ind ++ "}
" ++ pp_js_p fm en props ind r
  | PWhile c a r => indent ind ++ "while " ++ js_cond fm en c ++ " {
" ++ pp_js_p fm en props (S ind) a ++ indent ind ++ "}
" ++ pp_js_p fm en props ind r
  | PExit _ r => js_line ind "break" ++ pp_js_p fm en props ind r
  end.

Fixpoint js_ok_p (en : env) (props : list string) (p : prog) : Prop :=
  match p with
  | PNil => True
  | PStmt s r => js_ok_s en props s /\ js_ok_p en props r
  | PIf c a r => js_ok en c /\ js_ok_p en props a /\ js_ok_p en props r
  | PIfE c a eb r => js_ok en c /\ eb <> PNil /\ js_ok_p en props a /\ js_ok_p en props eb /\ js_ok_p en props r
  | PWhile c a r => js_ok en c /\ js_ok_p en props a /\ js_ok_p en props r
  | PExit _ r => js_ok_p en props r
  end.

Definition js_of (sts : list node) (ind : nat) (fm : bool) : string := concat_all (map (fun st => gen_js st ind fm) sts).

Lemma fins_ne en props pc p : p <> PNil -> fins (items en props pc p) <> [].
Proof. destruct p; [congruence | discriminate | discriminate | discriminate | discriminate | discriminate]. Qed.

Theorem nest_js fm en props : forall p, js_ok_p en props p -> forall pc ind,
  js_of (rebuilt en props pc p) ind fm = pp_js_p fm en props ind p.
Proof.
  unfold rebuilt, js_of.
  induction p as [|s r IH|c a IHa r IHr|c a IHa eb IHe r IHr|c a IHa r IHr|xoff r IH]; intros Hok pc ind.
  - reflexivity.
  - destruct Hok as [Hs Hr]. cbn [items fins fin_i map concat_all pp_js_p]. rewrite (js_stmt_line fm en props s Hs pc ind), (IH Hr). reflexivity.
  - destruct Hok as (Hc & Ha & Hr). cbn [items fins map concat_all pp_js_p]. rewrite fin_if. cbn [gen_js].
    rewrite (gen_js_is_pp fm en c Hc pc 0%nat), (wrap_paren_reify fm en pc c Hc). rewrite (IHa Ha), (IHr Hr).
    repeat rewrite <- sappend_assoc. rewrite ends_with_brace. repeat rewrite sappend_assoc. reflexivity.
  - destruct Hok as (Hc & Hne & Ha & He & Hr). cbn [items fins map concat_all pp_js_p]. rewrite fin_ife. cbn [gen_js].
    rewrite (gen_js_is_pp fm en c Hc pc 0%nat), (wrap_paren_reify fm en pc c Hc). rewrite (IHa Ha), (IHr Hr).
    pose proof (IHe He (pc + zlen (compile_e c) + 3 + zlen (compile_p a) + 3)%Z (S ind)) as Ee.
    destruct (fins (items en props (pc + zlen (compile_e c) + 3 + zlen (compile_p a) + 3) eb)) as [|x xs] eqn:Ex;
      [exfalso; exact (fins_ne en props _ eb Hne Ex)|].
    rewrite Ee. repeat rewrite <- sappend_assoc. rewrite ends_with_brace. repeat rewrite sappend_assoc. reflexivity.
  - destruct Hok as (Hc & Ha & Hr). cbn [items fins map concat_all pp_js_p]. rewrite fin_while. unfold loop_stmt. cbn [gen_js].
    rewrite (gen_js_is_pp fm en c Hc pc 0%nat), (wrap_paren_reify fm en pc c Hc). rewrite (IHa Ha), (IHr Hr).
    change (String.eqb "while" "while") with true. cbn iota.
    repeat rewrite <- sappend_assoc. rewrite ends_with_brace. repeat rewrite sappend_assoc. reflexivity.
  - cbn [items fins fin_i map concat_all pp_js_p js_ok_p] in *. rewrite (IH Hok). reflexivity.
Qed.
Print Assumptions nest_js.
