From Coq Require Import List ZArith Bool Lia.
From Coq.Strings Require Import Byte.
From DRX Require Import Py.PyBytes Py.Layout Proofs.PyBytesFacts Proofs.LayoutFacts Proofs.RiffFacts Model.Snd.
Import ListNotations.
Open Scope Z_scope.

(* ---------- 16-bit byte swap ---------- *)
Fixpoint swap16 (l : bytes) : bytes :=
  match l with a :: (b :: r) => b :: a :: swap16 r | _ => [] end.

Fixpoint pairs_of (l : list (byte * byte)) : bytes :=
  match l with [] => [] | (a, b) :: r => a :: b :: pairs_of r end.
Lemma swap16_pairs l : swap16 (pairs_of l) = pairs_of (map (fun p => (snd p, fst p)) l).
Proof. induction l as [|[a b] l IH]; cbn [pairs_of swap16 map fst snd]; [reflexivity|]. rewrite IH. reflexivity. Qed.
Lemma zlen_pairs l : zlen (pairs_of l) = 2 * zlen l.
Proof. induction l as [|[a b] l IH]; [reflexivity|]. cbn [pairs_of]. rewrite !zlen_cons, IH. lia. Qed.

Lemma swap_loop_pairs l : forall fuel pre post,
  (length l < fuel)%nat ->
  swap_loop fuel (zlen l) (pre ++ pairs_of l ++ post) (zlen pre) = Ok (swap16 (pairs_of l)).
Proof.
  induction l as [|[a b] l IH]; intros fuel pre post Hf.
  - destruct fuel; reflexivity.
  - destruct fuel as [|f]; [cbn in Hf; lia|].
    cbn [swap_loop pairs_of swap16]. rewrite zlen_cons. pose proof (zlen_nonneg l).
    destruct (Z.leb_spec (1 + zlen l) 0); [lia|].
    assert (E1 : index (pre ++ (a :: b :: pairs_of l) ++ post) (zlen pre + 1) = Some b).
    { replace (pre ++ (a :: b :: pairs_of l) ++ post) with ((pre ++ [a]) ++ b :: (pairs_of l ++ post))
        by (rewrite <- app_assoc; reflexivity).
      apply index_app_at. rewrite zlen_app. reflexivity. }
    assert (E0 : index (pre ++ (a :: b :: pairs_of l) ++ post) (zlen pre) = Some a).
    { cbn [app]. apply index_app_at. reflexivity. }
    rewrite E1, E0. cbn [of_option bind].
    replace (pre ++ (a :: b :: pairs_of l) ++ post) with ((pre ++ [a; b]) ++ pairs_of l ++ post)
      by (rewrite <- app_assoc; reflexivity).
    replace (zlen pre + 2) with (zlen (pre ++ [a; b])) by (rewrite zlen_app; reflexivity).
    replace (1 + zlen l - 1) with (zlen l) by lia.
    rewrite IH by (cbn in Hf; lia). reflexivity.
Qed.

(* ---------- command list and data-type records ---------- *)
Definition enc_dt (t : Z * Z) : bytes := pack 2 Big (fst t) ++ pack 4 Big (snd t).
Definition wf_dt (t : Z * Z) : Prop := in16 (fst t) /\ in32 (snd t).
(* a command is stored as a signed 16-bit word; 0x8051 is stored as 0x8051 - 65536 *)
Definition enc_cmd (c : Z * Z * Z) : bytes :=
  let '(w, p1, p2) := c in pack 2 Big w ++ pack 2 Big p1 ++ pack 4 Big p2.
Definition wf_cmd (c : Z * Z * Z) : Prop := let '(w, p1, p2) := c in in16 w /\ in16 p1 /\ in32 p2.
Definition cmd_value (c : Z * Z * Z) : Z * Z * Z :=
  let '(w, p1, p2) := c in ((if w <? 0 then 65535 + w + 1 else w), p1, p2).

Lemma dt_loop_enc ts : forall fuel pre post,
  (length ts < fuel)%nat -> Forall wf_dt ts ->
  dt_loop fuel (zlen ts) (pre ++ concat (map enc_dt ts) ++ post) (zlen pre)
  = Ok (zlen pre + zlen (concat (map enc_dt ts))).
Proof.
  induction ts as [|t ts IH]; intros fuel pre post Hf Hwf.
  - cbn [map concat]. change (zlen (@nil byte)) with 0. rewrite Z.add_0_r. destruct fuel; reflexivity.
  - destruct fuel as [|f]; [cbn in Hf; lia|]. pose proof (Forall_inv Hwf) as [Ha Hb]. pose proof (Forall_inv_tail Hwf) as Hts.
    cbn [dt_loop map concat]. rewrite zlen_cons. pose proof (zlen_nonneg ts).
    destruct (Z.leb_spec (1 + zlen ts) 0); [lia|].
    change (enc_dt t) with (pack 2 Big (fst t) ++ pack 4 Big (snd t)). repeat rewrite <- app_assoc.
    rewrite rd_s2_at by auto. cbn [bind].
    replace (pre ++ pack 2 Big (fst t) ++ pack 4 Big (snd t) ++ concat (map enc_dt ts) ++ post)
      with ((pre ++ pack 2 Big (fst t)) ++ pack 4 Big (snd t) ++ (concat (map enc_dt ts) ++ post))
      by (repeat rewrite <- app_assoc; reflexivity).
    rewrite rd_s4_at; [| rewrite zlen_app, zlen_pack; reflexivity | exact Hb]. cbn [bind].
    replace ((pre ++ pack 2 Big (fst t)) ++ pack 4 Big (snd t) ++ concat (map enc_dt ts) ++ post)
      with ((pre ++ pack 2 Big (fst t) ++ pack 4 Big (snd t)) ++ concat (map enc_dt ts) ++ post)
      by (repeat rewrite <- app_assoc; reflexivity).
    replace (zlen pre + 6) with (zlen (pre ++ pack 2 Big (fst t) ++ pack 4 Big (snd t)))
      by (rewrite !zlen_app, !zlen_pack; lia).
    replace (1 + zlen ts - 1) with (zlen ts) by lia.
    rewrite IH by (try assumption; cbn in Hf; lia). f_equal. rewrite !zlen_app, !zlen_pack. lia.
Qed.

Lemma zlen_enc_cmd c : zlen (enc_cmd c) = 8.
Proof. destruct c as [[w p1] p2]. cbn [enc_cmd]. rewrite !zlen_app, !zlen_pack. reflexivity. Qed.

Lemma cmd_loop_enc cs : forall fuel pre post,
  (length cs < fuel)%nat -> Forall wf_cmd cs ->
  cmd_loop fuel (zlen cs) (pre ++ concat (map enc_cmd cs) ++ post) (zlen pre) = Ok (map cmd_value cs).
Proof.
  induction cs as [|c cs IH]; intros fuel pre post Hf Hwf.
  - destruct fuel; reflexivity.
  - destruct fuel as [|f]; [cbn in Hf; lia|]. pose proof (Forall_inv Hwf) as Hc. pose proof (Forall_inv_tail Hwf) as Hcs.
    destruct c as [[w p1] p2]. destruct Hc as (Hw & Hp1 & Hp2).
    cbn [cmd_loop map concat]. rewrite zlen_cons. pose proof (zlen_nonneg cs).
    destruct (Z.leb_spec (1 + zlen cs) 0); [lia|].
    cbn [enc_cmd]. repeat rewrite <- app_assoc.
    rewrite rd_s2_at by auto. cbn [bind].
    replace (pre ++ pack 2 Big w ++ pack 2 Big p1 ++ pack 4 Big p2 ++ concat (map enc_cmd cs) ++ post)
      with ((pre ++ pack 2 Big w) ++ pack 2 Big p1 ++ (pack 4 Big p2 ++ concat (map enc_cmd cs) ++ post))
      by (repeat rewrite <- app_assoc; reflexivity).
    rewrite rd_s2_at; [| rewrite zlen_app, zlen_pack; reflexivity | exact Hp1]. cbn [bind].
    replace ((pre ++ pack 2 Big w) ++ pack 2 Big p1 ++ pack 4 Big p2 ++ concat (map enc_cmd cs) ++ post)
      with ((pre ++ pack 2 Big w ++ pack 2 Big p1) ++ pack 4 Big p2 ++ (concat (map enc_cmd cs) ++ post))
      by (repeat rewrite <- app_assoc; reflexivity).
    rewrite rd_s4_at; [| rewrite !zlen_app, !zlen_pack; lia | exact Hp2]. cbn [bind].
    replace ((pre ++ pack 2 Big w ++ pack 2 Big p1) ++ pack 4 Big p2 ++ concat (map enc_cmd cs) ++ post)
      with ((pre ++ enc_cmd (w, p1, p2)) ++ concat (map enc_cmd cs) ++ post)
      by (cbn [enc_cmd]; repeat rewrite <- app_assoc; reflexivity).
    replace (zlen pre + 8) with (zlen (pre ++ enc_cmd (w, p1, p2))) by (rewrite zlen_app, zlen_enc_cmd; reflexivity).
    replace (1 + zlen cs - 1) with (zlen cs) by lia.
    rewrite IH by (try assumption; cbn in Hf; lia). reflexivity.
Qed.

(* ---------- the sound header and sample area ---------- *)
Record snd_spec := {
  s_ext : bool; s_channels : Z; s_bits : Z; s_rate : Z; s_frac : Z; s_loop1 : Z; s_loop2 : Z;
  s_nframes : Z; s_fill : bytes; s_extvals : list Z;   (* marker, instruments, AES, future1..4 *)
  s_samples8 : bytes; s_samples16 : list (byte * byte) }.

Definition sample_area (s : snd_spec) : bytes :=
  if s_bits s =? 16 then pairs_of (s_samples16 s) else s_samples8 s.
Definition decoded_samples (s : snd_spec) : bytes :=
  if s_bits s =? 16 then swap16 (pairs_of (s_samples16 s)) else s_samples8 s.

Definition sh_vals (s : snd_spec) : list Z :=
  [0; (if s_ext s then s_channels s else zlen (s_samples8 s)); s_rate s; s_frac s; s_loop1 s; s_loop2 s;
   (if s_ext s then 255 else 0); 60].
Definition ext_vals (s : snd_spec) : list Z :=
  [s_nframes s; getv (s_extvals s) 0; getv (s_extvals s) 1; getv (s_extvals s) 2; s_bits s;
   getv (s_extvals s) 3; getv (s_extvals s) 4; getv (s_extvals s) 5; getv (s_extvals s) 6].
Definition enc_sound (s : snd_spec) : bytes :=
  enc_layout Big sh_layout (sh_vals s) [] ++
  (if s_ext s then enc_layout Big ext_layout (ext_vals s) (s_fill s) else []) ++
  sample_area s.

Definition wf_sound (s : snd_spec) : Prop :=
  fits_all sh_layout (sh_vals s) /\
  (if s_ext s then
     fits_all ext_layout (ext_vals s) /\ (s_bits s = 8 \/ s_bits s = 16) /\
     (s_bits s = 8 -> zlen (s_samples8 s) = s_nframes s * s_channels s) /\
     (s_bits s = 16 -> zlen (s_samples16 s) = s_nframes s * s_channels s)
   else s_bits s = 8 /\ s_channels s = 1).

Definition result_sound (s : snd_spec) : sound := {| nch := s_channels s; bps := s_bits s; rate := s_rate s |}.

Lemma get_frames_enc s0 s pre post :
  wf_sound s -> nch s0 <> 0 -> bps s0 = 8 ->
  (if s_ext s then True else nch s0 = 1) ->
  get_frames s0 (zlen pre) (pre ++ enc_sound s ++ post) = Ok (result_sound s, decoded_samples s).
Proof.
  intros [Hsh Hw] Hn0 Hb0 Hstd. unfold get_frames, enc_sound.
  repeat rewrite <- app_assoc.
  rewrite read_enc_layout by auto. cbn [bind].
  change (getv (sh_vals s) 0) with 0. change (getv (sh_vals s) 7) with 60.
  change (getv (sh_vals s) 2) with (s_rate s).
  change (getv (sh_vals s) 6) with (if s_ext s then 255 else 0).
  change (getv (sh_vals s) 1) with (if s_ext s then s_channels s else zlen (s_samples8 s)).
  cbn [Z.eqb negb nch bps rate].
  set (H := enc_layout Big sh_layout (sh_vals s) []).
  assert (HL : zlen H = 22) by (unfold H; rewrite zlen_enc_layout; reflexivity).
  destruct (s_ext s) eqn:Eext.
  - (* extended *)
    destruct Hw as (Hext & Hbits & H8 & H16). cbn [bind Z.eqb Pos.eqb nch bps rate].
    replace (pre ++ H ++ enc_layout Big ext_layout (ext_vals s) (s_fill s) ++ sample_area s ++ post)
      with ((pre ++ H) ++ enc_layout Big ext_layout (ext_vals s) (s_fill s) ++ (sample_area s ++ post))
      by (repeat rewrite <- app_assoc; reflexivity).
    rewrite read_enc_layout; [| rewrite zlen_app, HL; reflexivity | exact Hext]. cbn [bind].
    change (getv (ext_vals s) 4) with (s_bits s). change (getv (ext_vals s) 0) with (s_nframes s).
    cbn [nch bps rate].
    set (E := enc_layout Big ext_layout (ext_vals s) (s_fill s)).
    assert (HE : zlen E = 42) by (unfold E; rewrite zlen_enc_layout; reflexivity).
    unfold sample_area, decoded_samples, result_sound.
    destruct Hbits as [Hb|Hb]; rewrite Hb; cbn [bind Z.eqb Pos.eqb nch bps rate].
    + specialize (H8 Hb).
      replace ((pre ++ H) ++ E ++ s_samples8 s ++ post) with ((pre ++ H ++ E) ++ s_samples8 s ++ post)
        by (repeat rewrite <- app_assoc; reflexivity).
      rewrite slice_mid; [rewrite <- Hb; reflexivity | rewrite !zlen_app, HL, HE; lia | rewrite !zlen_app, HL, HE, H8; lia].
    + specialize (H16 Hb). pose proof (zlen_nonneg (s_samples16 s)).
      destruct (Z.ltb_spec (s_nframes s * s_channels s) 0); [lia|].
      replace ((pre ++ H) ++ E ++ pairs_of (s_samples16 s) ++ post) with ((pre ++ H ++ E) ++ pairs_of (s_samples16 s) ++ post)
        by (repeat rewrite <- app_assoc; reflexivity).
      destruct (Z.gtb_spec (zlen pre + 22 + 42 + s_nframes s * s_channels s * 2) (zlen ((pre ++ H ++ E) ++ pairs_of (s_samples16 s) ++ post))) as [Hgt|_].
      { rewrite !zlen_app, HL, HE, zlen_pairs in Hgt. pose proof (zlen_nonneg post). lia. }
      cbn [orb].
      replace (zlen pre + 22 + 42) with (zlen (pre ++ H ++ E)) by (rewrite !zlen_app, HL, HE; lia).
      rewrite <- H16. rewrite swap_loop_pairs.
      * cbn [bind]. rewrite <- Hb. reflexivity.
      * rewrite !app_length. pose proof (zlen_pairs (s_samples16 s)) as HP. unfold zlen in HP. lia.
  - (* standard *)
    destruct Hw as (Hb & Hc). cbn [bind Z.eqb Pos.eqb nch bps rate].
    destruct (Z.eqb_spec (nch s0) 0); [contradiction|].
    cbn [bind nch bps rate]. rewrite Hb0. cbn [Z.eqb app].
    unfold sample_area, decoded_samples, result_sound. rewrite Hb, Hc. cbn [bind Z.eqb Pos.eqb nch bps rate].
    replace (pre ++ H ++ s_samples8 s ++ post) with ((pre ++ H) ++ s_samples8 s ++ post)
      by (repeat rewrite <- app_assoc; reflexivity).
    rewrite slice_mid; [rewrite Hstd; reflexivity | rewrite zlen_app, HL; lia | rewrite zlen_app, HL; lia].
Qed.

(* ---------- the whole resource ---------- *)
Record res_spec := {
  r_fmt1 : bool; r_dtypes : list (Z * Z); r_refcount : Z;
  r_nulls : list (Z * Z);           (* parameters of the leading null commands *)
  r_buffer : bool;                  (* bufferCmd 0x8051 or soundCmd 0x8050 *)
  r_p1 : Z; r_gap : bytes; r_sound : snd_spec; r_tail : bytes }.

Definition r_hdr (r : res_spec) : bytes :=
  if r_fmt1 r then pack 2 Big 1 ++ pack 2 Big (zlen (r_dtypes r)) ++ concat (map enc_dt (r_dtypes r))
  else pack 2 Big 2 ++ pack 2 Big (r_refcount r).
Definition r_cmdword (r : res_spec) : Z := if r_buffer r then 32849 - 65536 else 32848 - 65536.
Definition r_cmds (r : res_spec) (off : Z) : list (Z * Z * Z) :=
  map (fun n : Z * Z => (0, fst n, snd n)) (r_nulls r) ++ [(r_cmdword r, r_p1 r, off)].
Definition r_off (r : res_spec) : Z := zlen (r_hdr r) + 2 + 8 * (zlen (r_nulls r) + 1) + zlen (r_gap r).
Definition enc_snd (r : res_spec) : bytes :=
  r_hdr r ++ pack 2 Big (zlen (r_nulls r) + 1) ++ concat (map enc_cmd (r_cmds r (r_off r))) ++
  r_gap r ++ enc_sound (r_sound r) ++ r_tail r.

Definition wf_res_spec (r : res_spec) : Prop :=
  in16 (zlen (r_dtypes r)) /\ Forall wf_dt (r_dtypes r) /\ in16 (r_refcount r) /\
  in16 (zlen (r_nulls r) + 1) /\ Forall (fun n : Z * Z => in16 (fst n) /\ in32 (snd n)) (r_nulls r) /\
  in16 (r_p1 r) /\ in32 (r_off r) /\ wf_sound (r_sound r).

Lemma run_cmds_nulls ns : forall rest s d,
  run_cmds (map cmd_value (map (fun n : Z * Z => (0, fst n, snd n)) ns) ++ rest) s d = run_cmds rest s d.
Proof.
  induction ns as [|n ns IH]; intros rest s d; cbn [map app run_cmds cmd_value]; [reflexivity|].
  cbn [Z.ltb Z.compare Z.eqb bind]. rewrite IH. destruct (run_cmds rest s d) as [[s2 b2]| |]; reflexivity.
Qed.

Lemma length_cmds_le cs : (length cs <= length (concat (map enc_cmd cs)))%nat.
Proof.
  induction cs as [|c cs IH]; [cbn; lia|]. cbn [map concat length]. rewrite app_length.
  pose proof (zlen_enc_cmd c) as H. unfold zlen in H. lia.
Qed.
Lemma length_dts_le ts : (length ts <= length (concat (map enc_dt ts)))%nat.
Proof.
  induction ts as [|t ts IH]; [cbn; lia|]. cbn [map concat length]. rewrite app_length.
  unfold enc_dt at 1. rewrite app_length, !pack_length. lia.
Qed.

Lemma zlen_concat_cmds cs : zlen (concat (map enc_cmd cs)) = 8 * zlen cs.
Proof.
  induction cs as [|c cs IH]; [reflexivity|]. cbn [map concat]. rewrite zlen_app, zlen_enc_cmd, IH, zlen_cons. lia.
Qed.
Lemma zlen_r_cmds r off : zlen (r_cmds r off) = zlen (r_nulls r) + 1.
Proof. unfold r_cmds. rewrite zlen_app. unfold zlen at 1. rewrite map_length. reflexivity. Qed.

Theorem snd_decode r :
  wf_res_spec r ->
  snd_to_sampled (enc_snd r) = Ok (result_sound (r_sound r), decoded_samples (r_sound r)).
Proof.
  intros (Hnd & Hdts & Hrc & Hnn & Hnulls & Hp1 & Hoff & Hsound).
  unfold snd_to_sampled.
  set (d := enc_snd r).
  set (cmds := r_cmds r (r_off r)).
  set (rest := pack 2 Big (zlen (r_nulls r) + 1) ++ concat (map enc_cmd cmds) ++ r_gap r ++ enc_sound (r_sound r) ++ r_tail r).
  assert (Hd : d = r_hdr r ++ rest) by reflexivity.
  assert (Hcmdlen : zlen cmds = zlen (r_nulls r) + 1).
  { unfold cmds, r_cmds. rewrite zlen_app. unfold zlen at 1. rewrite map_length. reflexivity. }
  assert (Hwfc : Forall wf_cmd cmds).
  { unfold cmds, r_cmds. apply Forall_app. split.
    - apply Forall_forall. intros c Hc. apply in_map_iff in Hc. destruct Hc as (n & <- & Hn).
      rewrite Forall_forall in Hnulls. destruct (Hnulls n Hn) as [Ha Hb]. unfold wf_cmd.
      split; [unfold in16; lia | split; assumption].
    - constructor; [|constructor]. unfold wf_cmd, r_cmdword.
      split; [destruct (r_buffer r); unfold in16; lia | split; assumption]. }
  (* the command list, once its start index is known *)
  assert (Hcmds : parse_snd_commands d (zlen (r_hdr r)) = Ok (map cmd_value cmds)).
  { unfold parse_snd_commands. rewrite Hd. unfold rest.
    rewrite rd_s2_at by auto. cbn [bind].
    replace (r_hdr r ++ pack 2 Big (zlen (r_nulls r) + 1) ++ concat (map enc_cmd cmds) ++ r_gap r ++ enc_sound (r_sound r) ++ r_tail r)
      with ((r_hdr r ++ pack 2 Big (zlen (r_nulls r) + 1)) ++ concat (map enc_cmd cmds) ++ (r_gap r ++ enc_sound (r_sound r) ++ r_tail r))
      by (repeat rewrite <- app_assoc; reflexivity).
    replace (zlen (r_hdr r) + 2) with (zlen (r_hdr r ++ pack 2 Big (zlen (r_nulls r) + 1))) by (rewrite zlen_app, zlen_pack; reflexivity).
    rewrite <- Hcmdlen. apply cmd_loop_enc; [|exact Hwfc].
    rewrite !app_length. pose proof (length_cmds_le cmds). lia. }
  assert (Hfmt : parse_snd_fmt d = Ok (map cmd_value cmds)).
  { unfold parse_snd_fmt. rewrite <- Hcmds. rewrite Hd. unfold r_hdr. destruct (r_fmt1 r).
    - repeat rewrite <- app_assoc. rewrite rd_s2_at0 by (unfold in16; lia). cbn [bind Z.eqb Pos.eqb].
      rewrite (rd_s2_at Big (pack 2 Big 1)) by (try assumption; rewrite zlen_pack; reflexivity). cbn [bind].
      replace (pack 2 Big 1 ++ pack 2 Big (zlen (r_dtypes r)) ++ concat (map enc_dt (r_dtypes r)) ++ rest)
        with ((pack 2 Big 1 ++ pack 2 Big (zlen (r_dtypes r))) ++ concat (map enc_dt (r_dtypes r)) ++ rest)
        by (repeat rewrite <- app_assoc; reflexivity).
      replace 4 with (zlen (pack 2 Big 1 ++ pack 2 Big (zlen (r_dtypes r)))) at 1 by (rewrite zlen_app, !zlen_pack; reflexivity).
      rewrite dt_loop_enc; [| rewrite !app_length; pose proof (length_dts_le (r_dtypes r)); lia | exact Hdts].
      cbn [bind]. f_equal; try (rewrite !zlen_app; lia).
    - repeat rewrite <- app_assoc. rewrite rd_s2_at0 by (unfold in16; lia). cbn [bind Z.eqb Pos.eqb].
      rewrite (rd_s2_at Big (pack 2 Big 2)) by (try assumption; rewrite zlen_pack; reflexivity). cbn [bind].
      f_equal; try (rewrite zlen_app, !zlen_pack; reflexivity). }
  rewrite Hfmt. cbn [bind]. unfold cmds, r_cmds. rewrite map_app, run_cmds_nulls.
  cbn [map run_cmds cmd_value].
  assert (Hw : (if r_cmdword r <? 0 then 65535 + r_cmdword r + 1 else r_cmdword r) = if r_buffer r then 32849 else 32848).
  { unfold r_cmdword. destruct (r_buffer r); reflexivity. }
  rewrite Hw.
  assert (Hsel : (((if r_buffer r then 32849 else 32848) =? 0) = false) /\
                 ((((if r_buffer r then 32849 else 32848) =? 32849) || ((if r_buffer r then 32849 else 32848) =? 32848)) = true))
    by (destruct (r_buffer r); split; reflexivity).
  destruct Hsel as [Hs0 Hs1]. rewrite Hs0, Hs1.
  replace d with ((r_hdr r ++ pack 2 Big (zlen (r_nulls r) + 1) ++ concat (map enc_cmd (r_cmds r (r_off r))) ++ r_gap r)
                  ++ enc_sound (r_sound r) ++ r_tail r)
    by (unfold d, enc_snd; repeat rewrite <- app_assoc; reflexivity).
  match goal with |- context[get_frames _ _ (?p ++ _ ++ _)] => set (PRE := p) end.
  replace (r_off r) with (zlen PRE).
  2:{ unfold PRE. rewrite !zlen_app, zlen_pack, zlen_concat_cmds, zlen_r_cmds. unfold r_off. change (Z.of_nat 2) with 2. lia. }
  rewrite get_frames_enc; [| exact Hsound | cbn; lia | reflexivity | destruct (s_ext (r_sound r)); [exact I|reflexivity]].
  cbn [bind run_cmds]. rewrite app_nil_r. reflexivity.
Qed.
