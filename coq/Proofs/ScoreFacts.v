From Coq Require Import List Arith ZArith Bool Lia Sorting.Sorted.
From DRX Require Import Py.PyBytes Model.RL Model.Score Proofs.RLFacts.
Import ListNotations.
Open Scope Z_scope.

Lemma attrs_eqb_spec a b : attrs_eqb a b = true <-> a = b.
Proof.
  unfold attrs_eqb. split.
  - intros H. repeat (apply andb_true_iff in H; destruct H as [H ?]).
    repeat match goal with E : (_ =? _) = true |- _ => apply Z.eqb_eq in E end.
    destruct a, b; cbn in *; congruence.
  - intros ->. rewrite !Z.eqb_refl. reflexivity.
Qed.

Lemma Zeqb_spec a b : Z.eqb a b = true <-> a = b.
Proof. apply Z.eqb_eq. Qed.

(* ---- the two nested loops act on each channel independently ---- *)
Lemma step_frame_ok i sps : forall cells,
  (length sps <= length cells)%nat ->
  exists out, step_frame i sps cells = Ok out /\ length out = length sps /\
    forall j, (j < length sps)%nat ->
      nth j out [] = step attrs_eqb i (nth j sps []) (nth j cells None).
Proof.
  induction sps as [|sp rest IH]; intros cells Hlen; cbn [step_frame].
  - exists []. repeat split; auto. intros j Hj; cbn in Hj; lia.
  - destruct cells as [|c cs]; [cbn in Hlen; lia|].
    destruct (IH cs) as (r & E & Hl & Hn); [cbn in Hlen; lia|].
    rewrite E. cbn [bind]. eexists. split; [reflexivity|]. split; [cbn; lia|].
    intros [|j] Hj; cbn [nth]; [reflexivity|]. apply Hn. cbn in Hj. lia.
Qed.

Lemma step_frame_err i sps : forall cells,
  (length cells < length sps)%nat -> step_frame i sps cells = Err EIndex.
Proof.
  induction sps as [|sp rest IH]; intros cells Hlen; cbn [step_frame]; [cbn in Hlen; lia|].
  destruct cells as [|c cs]; [reflexivity|]. rewrite IH by (cbn in Hlen; lia). reflexivity.
Qed.

Lemma run_frames_ok frames : forall i sps,
  (forall f, In f frames -> (length sps <= length (f_score f))%nat) ->
  exists out, run_frames i sps frames = Ok out /\ length out = length sps /\
    forall j, (j < length sps)%nat ->
      nth j out [] = run attrs_eqb i (nth j sps []) (column frames j).
Proof.
  induction frames as [|f rest IH]; intros i sps H; cbn [run_frames column map run].
  - exists sps. auto.
  - destruct (step_frame_ok i sps (f_score f)) as (s1 & E1 & L1 & N1); [apply H; left; reflexivity|].
    rewrite E1. cbn [bind].
    destruct (IH (S i) s1) as (out & E & L & N).
    { intros g Hg. rewrite L1. apply H. right. exact Hg. }
    exists out. split; [exact E|]. split; [lia|].
    intros j Hj. rewrite N by lia. rewrite N1 by lia. reflexivity.
Qed.

Lemma run_frames_err frames : forall i sps,
  (exists f, In f frames /\ (length (f_score f) < length sps)%nat) ->
  run_frames i sps frames = Err EIndex.
Proof.
  induction frames as [|f rest IH]; intros i sps (g & Hin & Hlt); [destruct Hin|].
  cbn [run_frames].
  destruct (Nat.lt_ge_cases (length (f_score f)) (length sps)) as [Hl|Hl].
  - rewrite step_frame_err by exact Hl. reflexivity.
  - destruct (step_frame_ok i sps (f_score f) Hl) as (s1 & E1 & L1 & _). rewrite E1. cbn [bind].
    destruct Hin as [->|Hin]; [lia|]. apply IH. exists g. rewrite L1. auto.
Qed.

Lemma nth_mapi {A B} (f : nat -> A -> B) (d : A) (db : B) l : forall j0 j, (j < length l)%nat ->
  nth j (mapi f j0 l) db = f (j0 + j)%nat (nth j l d).
Proof.
  induction l as [|x r IH]; intros j0 j Hj; [cbn in Hj; lia|].
  destruct j as [|j]; cbn [mapi nth].
  - rewrite Nat.add_0_r. reflexivity.
  - rewrite IH by (cbn in Hj; lia). f_equal. lia.
Qed.
Lemma length_mapi {A B} (f : nat -> A -> B) l : forall j0, length (mapi f j0 l) = length l.
Proof. induction l as [|x r IH]; intros j0; cbn; auto. Qed.

Lemma nth_repeat_nil {A} n j : nth j (repeat (@nil A) n) [] = [].
Proof. revert j; induction n as [|n IH]; intros [|j]; cbn; auto. Qed.

Definition frames_rectangular (frames : list frame) : Prop :=
  forall f, In f frames -> (nchannels frames <= length (f_score f))%nat.

Theorem vwsc_to_score_sprites frames :
  frames_rectangular frames ->
  exists o, vwsc_to_score frames = Ok o /\
    length (o_sprite o) = nchannels frames /\
    forall j, (j < nchannels frames)%nat ->
      nth j (o_sprite o) [] = map (sprite_of_span j) (spans_of attrs_eqb (column frames j)).
Proof.
  intros Hrect. unfold vwsc_to_score.
  destruct (run_frames_ok frames 0 (repeat [] (nchannels frames))) as (out & E & L & N).
  { intros f Hf. rewrite repeat_length. apply Hrect, Hf. }
  rewrite E. cbn [bind]. eexists. split; [reflexivity|]. cbn [o_sprite].
  rewrite repeat_length in *. split; [rewrite length_mapi; exact L|].
  intros j Hj. rewrite (nth_mapi _ [] []) by lia. cbn [Nat.add].
  rewrite N by exact Hj. rewrite nth_repeat_nil. reflexivity.
Qed.

Theorem vwsc_to_score_ragged frames :
  ~ frames_rectangular frames -> vwsc_to_score frames = Err EIndex.
Proof.
  intros H. unfold vwsc_to_score. rewrite run_frames_err; [reflexivity|].
  rewrite repeat_length.
  (* a frame with too few channels exists, decidably *)
  assert (D : forall l, (forall f, In f l -> (nchannels frames <= length (f_score f))%nat) \/
                        exists f, In f l /\ (length (f_score f) < nchannels frames)%nat).
  { induction l as [|f l IHl]; [left; intros f []|].
    destruct (Nat.lt_ge_cases (length (f_score f)) (nchannels frames)).
    - right. exists f. split; [left; reflexivity|assumption].
    - destruct IHl as [IHl|(g & Hg & Hl)].
      + left. intros g [<-|Hg]; auto.
      + right. exists g. split; [right; exact Hg|exact Hl]. }
  destruct (D frames) as [Hall|Hex]; [contradiction|exact Hex].
Qed.

(* ---- rectangle ---- *)
Theorem rect_consistent j s :
  let o := sprite_of_span j s in let a := sattrs s in
  2 * a_locH a - a_width a <= 2 * so_left o < 2 * a_locH a - a_width a + 2 /\
  2 * a_locV a - a_height a <= 2 * so_top o < 2 * a_locV a - a_height a + 2 /\
  so_right o = so_left o + a_width a /\ so_bottom o = so_top o + a_height a /\
  so_locZ o = Z.of_nat j + 1 /\ so_attrs o = a /\
  so_start o = Z.of_nat (sstart s) /\ so_end o = Z.of_nat (send s).
Proof.
  cbv zeta. unfold sprite_of_span. cbn [so_left so_top so_right so_bottom so_locZ so_attrs so_start so_end].
  pose proof (Z.div_mod (a_width (sattrs s)) 2 ltac:(lia)).
  pose proof (Z.mod_pos_bound (a_width (sattrs s)) 2 ltac:(lia)).
  pose proof (Z.div_mod (a_height (sattrs s)) 2 ltac:(lia)).
  pose proof (Z.mod_pos_bound (a_height (sattrs s)) 2 ltac:(lia)).
  repeat split; lia.
Qed.

(* ---- events ---- *)
Lemma events_in {E} (pick : frame -> option E) frames : forall i n e,
  In (n, e) (events pick i frames) <->
  exists k f, nth_error frames k = Some f /\ n = Z.of_nat (i + k) + 1 /\ pick f = Some e.
Proof.
  induction frames as [|f rest IH]; intros i n e; cbn [events].
  - split; [intros []|]. intros (k & f & H & _). destruct k; discriminate.
  - assert (Hrest : In (n, e) (events pick (S i) rest) <->
      exists k g, nth_error (f :: rest) (S k) = Some g /\ n = Z.of_nat (i + S k) + 1 /\ pick g = Some e).
    { rewrite IH. split; intros (k & g & H1 & H2 & H3); exists k, g; cbn [nth_error] in *;
        repeat split; auto; lia. }
    destruct (pick f) as [e0|] eqn:P; cbn [In]; rewrite Hrest; split.
    + intros [[= <- <-]|(k & g & H)].
      * exists 0%nat, f. repeat split; auto. lia.
      * exists (S k), g. exact H.
    + intros ([|k] & g & H1 & H2 & H3).
      * left. cbn in H1. injection H1 as <-. rewrite P in H3. injection H3 as <-.
        f_equal. lia.
      * right. exists k, g. auto.
    + intros (k & g & H). exists (S k), g. exact H.
    + intros ([|k] & g & H1 & H2 & H3).
      * cbn in H1. injection H1 as <-. congruence.
      * exists k, g. auto.
Qed.

Lemma events_lower {E} (pick : frame -> option E) frames : forall i x,
  In x (events pick i frames) -> Z.of_nat i < fst x.
Proof.
  induction frames as [|f rest IH]; intros i x; cbn [events]; [intros []|].
  destruct (pick f); cbn [In]; intros H.
  - destruct H as [<-|H]; [cbn; lia|]. apply IH in H. lia.
  - apply IH in H. lia.
Qed.

Theorem events_sorted {E} (pick : frame -> option E) frames : forall i,
  StronglySorted (fun a b => fst a < fst b) (events pick i frames).
Proof.
  induction frames as [|f rest IH]; intros i; cbn [events]; [constructor|].
  destruct (pick f); [|apply IH].
  constructor; [apply IH|]. apply Forall_forall. intros x Hx.
  apply events_lower in Hx. cbn. lia.
Qed.
