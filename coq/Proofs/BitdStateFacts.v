From Coq Require Import List ZArith Bool Lia.
From Coq.Strings Require Import Byte.
From DRX Require Import Py.PyBytes Model.Bitd.
From DRX Require Gen.Gen_State.
Import ListNotations.
Open Scope Z_scope.

(* the result of one call does not look at the buffers *)
Lemma step_result_indep bs bs' a : snd (bitd_step bs a) = snd (bitd_step bs' a).
Proof.
  unfold bitd_step. destruct (decoder_of (a_depth a)); [|reflexivity].
  destruct (run_parts [] (bitd_parts (a_w a) (a_h a) (a_depth a) (a_pw a) (a_ph a) (a_pt a) (a_clut a) (a_f a))) as [buf [e|]]; reflexivity.
Qed.

Fixpoint final_bufs (bs : bufs) (h : list bitd_args) : bufs :=
  match h with [] => bs | a :: rest => final_bufs (fst (bitd_step bs a)) rest end.

Lemma history_app bs h a :
  bitd_history bs (h ++ [a]) = bitd_history bs h ++ [snd (bitd_step (final_bufs bs h) a)].
Proof.
  revert bs; induction h as [|x h IH]; intros bs; cbn [app bitd_history final_bufs].
  - destruct (bitd_step bs a) as [bs' r]. reflexivity.
  - destruct (bitd_step bs x) as [bs' r] eqn:E. cbn [fst]. rewrite IH. reflexivity.
Qed.

(* whatever was decoded before (valid or failing calls, any number of them), the result of a call is
   the result of that call on fresh decoders *)
Theorem decode_history_free bs h a :
  last (bitd_history bs (h ++ [a])) (Err EOther) = snd (bitd_step [] a).
Proof.
  rewrite history_app, last_last. apply step_result_indep.
Qed.

(* and it is the stateless function of C06 *)
Lemma run_collect ps : forall buf,
  match collect_parts ps with
  | Ok b => run_parts buf ps = (buf ++ b, None)
  | Err e => exists w, run_parts buf ps = (w, Some e)
  | OutOfFuel => exists w, run_parts buf ps = (w, Some EOther)
  end.
Proof.
  induction ps as [|p ps IH]; intros buf; cbn [collect_parts run_parts].
  - rewrite app_nil_r. reflexivity.
  - destruct (p tt) as [b|e|]; cbn [bind].
    + specialize (IH (buf ++ b)). destruct (collect_parts ps) as [b2|e2|]; cbn [bind].
      * rewrite IH, app_assoc. reflexivity.
      * exact IH.
      * exact IH.
    + eexists; reflexivity.
    + eexists; reflexivity.
Qed.

Theorem step_is_stateless bs a k : decoder_of (a_depth a) = Some k ->
  snd (bitd_step bs a) =
  match bitd2bmp (a_w a) (a_h a) (a_depth a) (a_pw a) (a_ph a) (a_pt a) (a_clut a) (a_f a) with
  | Ok b => Ok b | Err e => Err e | OutOfFuel => Err EOther end.
Proof.
  intros Hk. unfold bitd_step, bitd2bmp. rewrite Hk.
  pose proof (run_collect (bitd_parts (a_w a) (a_h a) (a_depth a) (a_pw a) (a_ph a) (a_pt a) (a_clut a) (a_f a)) []) as H.
  destruct (collect_parts _) as [b|e|].
  - rewrite H. reflexivity.
  - destruct H as (w & ->). reflexivity.
  - destruct H as (w & ->). reflexivity.
Qed.

(* the only attribute assignments outside constructors in the shared decoder / parser objects: the BMP buffer
   (reset per call), and fields of the per-call SampledSound object *)
Theorem mutable_state_pinned :
  map (fun p => snd p) Gen.Gen_State.mutable_attrs =
  [ ["d";"e";"c";"o";"d";"e";"r";".";"b";"y";"t";"e";"s";"I";"o"];
    ["s";"o";"u";"n";"d";".";"b";"i";"t";"s";"_";"p";"e";"r";"_";"s";"a";"m";"p";"l";"e"];
    ["s";"o";"u";"n";"d";".";"n";"u";"m";"_";"c";"h";"a";"n";"n";"e";"l";"s"];
    ["s";"o";"u";"n";"d";".";"s";"a";"m";"p";"l";"e";"_";"r";"a";"t";"e"];
    ["s";"e";"l";"f";".";"b";"y";"t";"e";"s";"I";"o"];
    ["s";"o";"u";"n";"d";".";"s";"a";"m";"p";"l";"e";"s"] ]%byte.
Proof. vm_compute. reflexivity. Qed.
