(* C03, unbounded part: running the compiled code of a nest of ifs leaves exactly the flat statement list of
   its items, the items are well positioned, hence (LingoNestFacts.detect_nest) the control-flow passes rebuild
   the nest. *)
From Coq Require Import ZArith List Bool String Lia.
From Coq.Strings Require Import Byte.
From DRX Require Import Py.PyBytes Py.PyStr Py.PyString Model.LingoAst Model.LingoGen Model.LingoOps Model.LingoLoop
  Spec.SpecLingo Spec.SpecFlow Spec.SpecNest Gen.Gen_Lingo
  Proofs.PyBytesFacts Proofs.LingoExecFacts Proofs.LingoStmtFacts Proofs.LingoNestFacts.
Import ListNotations.
Open Scope list_scope.
Open Scope Z_scope.

(* the state after a program *)
Fixpoint after_p (en : env) (props : list string) (pc : Z) (p : prog) (m : mstate) : mstate :=
  match p with
  | PNil => m
  | PStmt s r => after_p en props (pc + zlen (compile_s s)) r (after_s en props pc s m)
  | PIf c a r =>
    let pj := pc + zlen (compile_e c) in
    let ea := pj + 3 + zlen (compile_p a) in
    let m1 := after_e en pc c m in
    let m2 := add_stmt (with_stack m1 (m_stack m)) pj (Jz pj (reify_e en pc c) ea) in
    after_p en props ea r (after_p en props (pj + 3) a m2)
  | PIfE c a eb r =>
    let pj := pc + zlen (compile_e c) in
    let jp := pj + 3 + zlen (compile_p a) in
    let je := jp + 3 + zlen (compile_p eb) in
    let m1 := after_e en pc c m in
    let m2 := add_stmt (with_stack m1 (m_stack m)) pj (Jz pj (reify_e en pc c) (jp + 3)) in
    let m3 := add_stmt (after_p en props (pj + 3) a m2) jp (Jump jp je) in
    after_p en props je r (after_p en props (jp + 3) eb m3)
  | PWhile c a r =>
    let pj := pc + zlen (compile_e c) in
    let pe := pj + 3 + zlen (compile_p a) in
    let m1 := after_e en pc c m in
    let m2 := add_stmt (with_stack m1 (m_stack m)) pj (Jz pj (reify_e en pc c) (pe + 2)) in
    let m3 := after_p en props (pj + 3) a m2 in
    let m4 := Build_mstate (m_stack m3)
                (set_stmts (m_fn m3) (f_stmts (m_fn m) ++
                   [loop_stmt pc pe (true_at pc) (Stmt pj (Jz pj (reify_e en pc c) (pe + 2)) :: flats (items en props (pj + 3) a))]))
                (m_ctx m3) in
    after_p en props (pe + 2) r m4
  | PExit off r => after_p en props (pc + 3) r (add_stmt m pc (Jump pc (pc + off)))
  end.

Lemma agrees_p_jz en props pc c m pj x :
  agrees_p en props m -> agrees_p en props (add_stmt (with_stack (after_e en pc c m) (m_stack m)) pj x).
Proof. unfold agrees_p, agrees, add_stmt, with_stack, after_e, push, with_globals. destruct m as [st fn cx]; simpl. tauto. Qed.

Lemma agrees_add_stmt en props m i x : agrees_p en props m -> agrees_p en props (add_stmt m i x).
Proof. unfold agrees_p, agrees, add_stmt. destruct m as [st fn cx]; simpl. tauto. Qed.

Lemma after_p_facts en props : forall p pc m, agrees_p en props m ->
  agrees_p en props (after_p en props pc p m) /\ m_stack (after_p en props pc p m) = m_stack m /\
  f_stmts (m_fn (after_p en props pc p m)) = f_stmts (m_fn m) ++ flats (items en props pc p).
Proof.
  induction p as [|s r IH|c a IHa r IHr|c a IHa eb IHe r IHr|c a IHa r IHr|xoff r IH]; intros pc m Hag.
  - cbn [after_p items flats]. rewrite app_nil_r. auto.
  - cbn [after_p items flats flat_i].
    destruct (IH (pc + zlen (compile_s s)) (after_s en props pc s m) (agrees_after_s _ _ _ _ _ Hag)) as (H1 & H2 & H3).
    split; [exact H1|]. split; [rewrite H2; reflexivity|]. rewrite H3. unfold after_s. cbn [m_fn f_stmts]. rewrite <- app_assoc. reflexivity.
  - cbn [after_p items flats]. rewrite flat_if.
    set (pj := pc + zlen (compile_e c)). set (ea := pj + 3 + zlen (compile_p a)).
    set (m2 := add_stmt (with_stack (after_e en pc c m) (m_stack m)) pj (Jz pj (reify_e en pc c) ea)).
    assert (Hag2 : agrees_p en props m2) by (apply agrees_p_jz; exact Hag).
    destruct (IHa (pj + 3) m2 Hag2) as (A1 & A2 & A3).
    destruct (IHr ea (after_p en props (pj + 3) a m2) A1) as (R1 & R2 & R3).
    split; [exact R1|]. split; [rewrite R2, A2; reflexivity|].
    rewrite R3, A3. subst m2. unfold add_stmt, with_stack, after_e, push, with_globals. cbn [m_fn f_stmts set_stmts set_globals].
    rewrite <- !app_assoc. reflexivity.
  - cbn [after_p items flats]. rewrite flat_ife.
    set (pj := pc + zlen (compile_e c)). set (jp := pj + 3 + zlen (compile_p a)). set (je := jp + 3 + zlen (compile_p eb)).
    set (m2 := add_stmt (with_stack (after_e en pc c m) (m_stack m)) pj (Jz pj (reify_e en pc c) (jp + 3))).
    assert (Hag2 : agrees_p en props m2) by (apply agrees_p_jz; exact Hag).
    destruct (IHa (pj + 3) m2 Hag2) as (A1 & A2 & A3).
    set (m3 := add_stmt (after_p en props (pj + 3) a m2) jp (Jump jp je)).
    assert (Hag3 : agrees_p en props m3) by (apply agrees_add_stmt; exact A1).
    destruct (IHe (jp + 3) m3 Hag3) as (E1 & E2 & E3).
    destruct (IHr je (after_p en props (jp + 3) eb m3) E1) as (R1 & R2 & R3).
    split; [exact R1|]. split; [rewrite R2, E2; subst m3; cbn [add_stmt m_stack]; rewrite A2; reflexivity|].
    rewrite R3, E3. subst m3. cbn [add_stmt m_fn f_stmts set_stmts]. rewrite A3. subst m2.
    unfold add_stmt, with_stack, after_e, push, with_globals. cbn [m_fn f_stmts set_stmts set_globals m_stack].
    cbn [app]. rewrite <- !app_assoc. cbn [app]. reflexivity.
  - cbn [after_p items flats]. rewrite flat_while.
    set (pj := pc + zlen (compile_e c)). set (pe := pj + 3 + zlen (compile_p a)).
    set (m2 := add_stmt (with_stack (after_e en pc c m) (m_stack m)) pj (Jz pj (reify_e en pc c) (pe + 2))).
    assert (Hag2 : agrees_p en props m2) by (apply agrees_p_jz; exact Hag).
    destruct (IHa (pj + 3) m2 Hag2) as (A1 & A2 & A3).
    set (m3 := after_p en props (pj + 3) a m2) in *.
    set (m4 := Build_mstate (m_stack m3) (set_stmts (m_fn m3) (f_stmts (m_fn m) ++
                 [loop_stmt pc pe (true_at pc) (Stmt pj (Jz pj (reify_e en pc c) (pe + 2)) :: flats (items en props (pj + 3) a))])) (m_ctx m3)).
    assert (Hag4 : agrees_p en props m4).
    { subst m4. destruct A1 as [Ha Hb]. split; [|exact Hb]. unfold agrees in *. destruct m3 as [st3 fn3 cx3]. cbn in *. exact Ha. }
    destruct (IHr (pe + 2) m4 Hag4) as (R1 & R2 & R3).
    split; [exact R1|]. split; [rewrite R2; subst m4; cbn [m_stack]; rewrite A2; reflexivity|].
    rewrite R3. subst m4. cbn [m_fn f_stmts set_stmts]. rewrite <- app_assoc. reflexivity.
  - cbn [after_p items flats flat_i].
    destruct (IH (pc + 3) (add_stmt m pc (Jump pc (pc + xoff))) (agrees_add_stmt _ _ _ _ _ Hag)) as (H1 & H2 & H3).
    split; [exact H1|]. split; [rewrite H2; reflexivity|]. rewrite H3. unfold add_stmt. cbn [m_fn f_stmts set_stmts]. rewrite <- app_assoc. reflexivity.
Qed.

Lemma u8_jz_bytes off : 0 <= off < 65536 -> u8 (b (off / 256)) * 256 + u8 (b off) = off.
Proof.
  intros H. unfold b. rewrite !u8_byte_of_Z. rewrite (Z.mod_small (off / 256)) by (split; [apply Z.div_pos; lia | apply Z.div_lt_upper_bound; lia]).
  pose proof (Z.div_mod off 256 ltac:(lia)). lia.
Qed.

(* ---- the items of a well-formed program are well positioned ---- *)
Lemma reify_s_plain en props pc s : plain_stmt (reify_s en props pc s) = true.
Proof. destruct s as [t e|f args|f args|fam pid o v|tk ti tv|an ao av|mp mi mm mv| |pmd pf pv|lmd li lv]; cbn [reify_s plain_stmt]; try reflexivity; destruct (reify_args en pc args); reflexivity. Qed.

Lemma arglist_len_nonneg n : 0 <= arglist_len n.
Proof. unfold arglist_len. destruct (Z.of_nat n <? 256); lia. Qed.

Lemma reify_s_pos en props pc s : pc <= pos_of (reify_s en props pc s) < pc + zlen (compile_s s).
Proof.
  destruct s as [t e|f args|f args|fam pid o v|tk ti tv|an ao av|mp mi mm mv| |pmd pf pv|lmd li lv]; cbn [reify_s compile_s].
  10:{ cbn [pos_of]. rewrite !zlen_app. change (zlen [b 89; b (16 * pcode lmd + 5)]) with 2.
       pose proof (zlen_nonneg (compile_e lv)). pose proof (zlen_nonneg (compile_int (scaled li))). lia. }
  9:{ cbn [pos_of]. rewrite !zlen_app. change (zlen [b 89; b (16 * pcode pmd + 6)]) with 2.
      pose proof (zlen_nonneg (compile_e pf)). pose proof (zlen_nonneg (compile_e pv)). lia. }
  8:{ cbn [pos_of]. rewrite zlen_cons, zlen_nil. lia. }
  7:{ cbn [pos_of]. rewrite !zlen_app. change (zlen [b 93; b 3]) with 2.
      pose proof (zlen_nonneg (compile_e mi)). pose proof (zlen_nonneg (compile_e mm)). pose proof (zlen_nonneg (compile_e mv)).
      pose proof (zlen_nonneg (compile_int (Z.of_nat mp))). lia. }
  6:{ cbn [pos_of]. rewrite !zlen_app, !zlen_cons, zlen_nil.
      pose proof (zlen_nonneg (compile_e ao)). pose proof (zlen_nonneg (compile_e av)). lia. }
  5:{ cbn [pos_of]. rewrite !zlen_app. change (zlen [b 93; b (the_code tk)]) with 2.
      pose proof (zlen_nonneg (compile_e tv)). pose proof (zlen_nonneg (compile_int (the_num tk ti))). lia. }
  4:{ cbn [pos_of]. rewrite !zlen_app. change (zlen [b 93; b (fcode fam)]) with 2.
      pose proof (zlen_nonneg (compile_e o)). pose proof (zlen_nonneg (compile_e v)). pose proof (zlen_nonneg (compile_int (Z.of_nat pid))). lia. }
  - cbn [pos_of]. rewrite zlen_app. assert (zlen (compile_store t) = 2) by (destruct t; reflexivity).
    pose proof (zlen_nonneg (compile_e e)). lia.
  - pose proof (reify_args_pc en args pc) as Hpc. destruct (reify_args en pc args) as [ns pa]. cbn [snd] in Hpc. subst pa.
    cbn [pos_of]. rewrite !zlen_app, arglist_len_zlen_stmt. pose proof (zlen_nonneg (flat_map compile_e args)).
    pose proof (arglist_len_nonneg (List.length args)). change (zlen [b 87; b (Z.of_nat f)]) with 2. lia.
  - pose proof (reify_args_pc en args pc) as Hpc. destruct (reify_args en pc args) as [ns pa]. cbn [snd] in Hpc. subst pa.
    cbn [pos_of]. rewrite !zlen_app, arglist_len_zlen_stmt. pose proof (zlen_nonneg (flat_map compile_e args)).
    pose proof (arglist_len_nonneg (List.length args)). change (zlen [b 86; b (Z.of_nat f)]) with 2. lia.
Qed.

Lemma items_nonempty en props pc p : p <> PNil -> items en props pc p <> [].
Proof. destruct p; [congruence | discriminate | discriminate | discriminate | discriminate | discriminate]. Qed.

(* the exits of a program with correct offsets leave the loop ending before pc + size + k; outside a loop there is none *)
Lemma items_exits_gt en props : forall p pc k pe, exits_ok (Some k) p -> pe < pc + zlen (compile_p p) + k ->
  exits_gt pe (items en props pc p) = true.
Proof.
  induction p as [|s r IH|c a IHa r IHr|c a IHa eb IHe r IHr|c a IHa r IHr|xoff r IH]; intros pc k pe Hok Hpe; cbn [items exits_gt].
  - reflexivity.
  - cbn [exits_gt_i andb]. cbn [exits_ok] in Hok. cbn [compile_p] in Hpe. rewrite zlen_app in Hpe. apply (IH _ k); [exact Hok | lia].
  - cbn [exits_ok oplus] in Hok. destruct Hok as [Ha Hr]. cbn [compile_p] in Hpe. rewrite !zlen_app in Hpe.
    change (zlen (jz (3 + zlen (compile_p a)))) with 3 in Hpe.
    rewrite exits_gt_if. apply andb_true_intro. split; [apply (IHa _ (k + zlen (compile_p r))); [exact Ha | lia] | apply (IHr _ k); [exact Hr | lia]].
  - cbn [exits_ok oplus] in Hok. destruct Hok as (Ha & He & Hr). cbn [compile_p] in Hpe. rewrite !zlen_app in Hpe.
    change (zlen (jz (3 + zlen (compile_p a) + 3))) with 3 in Hpe. change (zlen (jmp (3 + zlen (compile_p eb)))) with 3 in Hpe.
    rewrite exits_gt_ife. apply andb_true_intro. split; [apply andb_true_intro; split|].
    + apply (IHa _ (k + (3 + zlen (compile_p eb) + zlen (compile_p r)))); [exact Ha | lia].
    + apply (IHe _ (k + zlen (compile_p r))); [exact He | lia].
    + apply (IHr _ k); [exact Hr | lia].
  - cbn [exits_ok] in Hok. destruct Hok as [_ Hr]. cbn [compile_p] in Hpe. rewrite !zlen_app in Hpe.
    change (zlen (jz (3 + zlen (compile_p a) + 2))) with 3 in Hpe. rewrite zlen_cons, zlen_cons, zlen_nil in Hpe.
    cbn [exits_gt_i andb]. apply (IHr _ k); [exact Hr | lia].
  - cbn [exits_ok] in Hok. destruct Hok as [(k0 & Ek & Eoff) Hr]. injection Ek as <-. cbn [compile_p] in Hpe. rewrite zlen_app in Hpe.
    change (zlen (jmp xoff)) with 3 in Hpe.
    cbn [exits_gt_i orb]. apply andb_true_intro. split; [apply Z.ltb_lt; lia | apply (IH _ k); [exact Hr | lia]].
Qed.
Lemma items_exits_done en props : forall p pc, exits_ok None p -> exits_done (items en props pc p) = true.
Proof.
  induction p as [|s r IH|c a IHa r IHr|c a IHa eb IHe r IHr|c a IHa r IHr|xoff r IH]; intros pc Hok; cbn [items exits_done]; cbn [exits_ok oplus] in Hok.
  - reflexivity.
  - cbn [exits_done_i andb]. apply IH. exact Hok.
  - rewrite exits_done_if. apply andb_true_intro. split; [apply IHa | apply IHr]; tauto.
  - rewrite exits_done_ife. apply andb_true_intro. split; [apply andb_true_intro; split; [apply IHa | apply IHe] | apply IHr]; tauto.
  - cbn [exits_done_i andb]. apply IHr. tauto.
  - destruct Hok as [(k0 & Ek & _) _]. discriminate Ek.
Qed.
Lemma exit_free_ok : forall p k, exit_free p -> exits_ok k p.
Proof.
  induction p as [|s r IH|c a IHa r IHr|c a IHa eb IHe r IHr|c a IHa r IHr|xoff r IH]; intros k Hf; cbn [exits_ok exit_free] in *; try tauto.
  - apply IH; exact Hf.
  - split; [apply IHa | apply IHr]; tauto.
  - split; [apply IHa | split; [apply IHe | apply IHr]]; tauto.
  - split; [apply IHa | apply IHr]; tauto.
Qed.

Lemma items_wp wc en props : forall p pc k, wf_p wc en p -> exits_ok k p -> @wp wc pc (pc + zlen (compile_p p)) (items en props pc p).
Proof.
  induction p as [|s r IH|c a IHa r IHr|c a IHa eb IHe r IHr|c a IHa r IHr|xoff r IH]; intros pc k Hwf Hxk; cbn [exits_ok] in Hxk.
  - cbn [items compile_p]. rewrite zlen_nil. constructor. lia.
  - destruct Hwf as [Hs Hr]. cbn [items compile_p]. rewrite zlen_app.
    pose proof (reify_s_pos en props pc s) as Hpos.
    constructor; [apply reify_s_plain | lia |].
    apply (wp_lower (pc + zlen (compile_s s))); [|lia].
    replace (pc + (zlen (compile_s s) + zlen (compile_p r))) with (pc + zlen (compile_s s) + zlen (compile_p r)) by lia.
    apply (IH _ k); [exact Hr | exact Hxk].
  - destruct Hwf as (Hwc & Hne & Hsz & Hwa & Hwr). cbn [items compile_p]. rewrite !zlen_app.
    change (zlen (jz (3 + zlen (compile_p a)))) with 3.
    pose proof (zlen_nonneg (compile_e c)). pose proof (zlen_nonneg (compile_p a)).
    set (pj := pc + zlen (compile_e c)). set (ea := pj + 3 + zlen (compile_p a)).
    constructor; [subst pj; lia | apply items_nonempty; exact Hne | |].
    + apply (wp_lower (pj + 3)); [|lia]. apply (IHa _ _ Hwa (proj1 Hxk)).
    + replace (pc + (zlen (compile_e c) + (3 + (zlen (compile_p a) + zlen (compile_p r))))) with (ea + zlen (compile_p r)) by (subst ea pj; lia).
      apply (IHr _ _ Hwr (proj2 Hxk)).
  - destruct Hwf as (Hwc & Hne & Hne' & Hsz & Hsz' & Hwa & Hwe & Hwr). cbn [items compile_p]. rewrite !zlen_app.
    change (zlen (jz (3 + zlen (compile_p a) + 3))) with 3. change (zlen (jmp (3 + zlen (compile_p eb)))) with 3.
    pose proof (zlen_nonneg (compile_e c)). pose proof (zlen_nonneg (compile_p a)). pose proof (zlen_nonneg (compile_p eb)).
    set (pj := pc + zlen (compile_e c)). set (jp := pj + 3 + zlen (compile_p a)). set (je := jp + 3 + zlen (compile_p eb)).
    apply wp_ife; [subst pj; lia | apply items_nonempty; exact Hne | apply items_nonempty; exact Hne' | | lia | |].
    + apply (wp_lower (pj + 3)); [|lia]. apply (IHa _ _ Hwa (proj1 Hxk)).
    + apply (IHe _ _ Hwe (proj1 (proj2 Hxk))).
    + replace (pc + (zlen (compile_e c) + (3 + (zlen (compile_p a) + (3 + (zlen (compile_p eb) + zlen (compile_p r)))))))
        with (je + zlen (compile_p r)) by (subst je jp pj; lia).
      apply (IHr _ _ Hwr (proj2 (proj2 Hxk))).
  - destruct Hwf as (Hwc & Hcond & Hsz & Hwa & Hwr). cbn [items compile_p]. rewrite !zlen_app.
    change (zlen (jz (3 + zlen (compile_p a) + 2))) with 3. rewrite zlen_cons, zlen_cons, zlen_nil.
    pose proof (zlen_nonneg (compile_e c)). pose proof (zlen_nonneg (compile_p a)).
    set (pj := pc + zlen (compile_e c)). set (pe := pj + 3 + zlen (compile_p a)).
    apply wp_while; [lia | subst pj; lia | apply Hcond | | apply (items_exits_gt en props a (pj + 3) 2 pe (proj1 Hxk)); subst pe; lia |].
    + apply (wp_lower (pj + 3)); [|lia]. apply (IHa _ _ Hwa (proj1 Hxk)).
    + apply (wp_lower (pe + 2)); [|lia].
      replace (pc + (zlen (compile_e c) + (3 + (zlen (compile_p a) + (1 + (1 + 0) + zlen (compile_p r))))))
        with (pe + 2 + zlen (compile_p r)) by (subst pe pj; lia).
      apply (IHr _ _ Hwr (proj2 Hxk)).
  - destruct Hwf as [Hoff Hwr]. cbn [items compile_p]. rewrite zlen_app. change (zlen (jmp xoff)) with 3.
    pose proof (zlen_nonneg (compile_p r)).
    apply wp_exit; [lia|]. apply (wp_lower (pc + 3)); [|lia].
    replace (pc + (3 + zlen (compile_p r))) with (pc + 3 + zlen (compile_p r)) by lia. apply (IH _ _ Hwr (proj2 Hxk)).
Qed.

(* ---- the statements collected so far lie before the current address ---- *)
Definition sinv (pc : Z) (m : mstate) : Prop := Forall (fun st => st_ok st = true /\ pos_of st < pc) (f_stmts (m_fn m)).

Lemma sinv_after wc en props p pc m k : wf_p wc en p -> exits_ok k p -> agrees_p en props m -> sinv pc m -> sinv (pc + zlen (compile_p p)) (after_p en props pc p m).
Proof.
  intros Hwf Hxk Hag Hs. unfold sinv. destruct (after_p_facts en props p pc m Hag) as (_ & _ & E). rewrite E.
  pose proof (zlen_nonneg (compile_p p)). apply Forall_app. split.
  - eapply Forall_impl; [|exact Hs]. intros x [H1 H2]. split; [exact H1 | lia].
  - eapply Forall_impl; [|exact (flats_within _ _ _ (items_wp wc en props p pc k Hwf Hxk))]. intros x (H1 & H2 & _). split; [exact H1 | lia].
Qed.
Lemma sinv_add_jz en pc c m pj cond tgt : sinv pc m -> pc <= pj ->
  sinv (pj + 3) (add_stmt (with_stack (after_e en pc c m) (m_stack m)) pj (Jz pj cond tgt)).
Proof.
  intros Hs Hp. unfold sinv, add_stmt, with_stack, after_e, push, with_globals. cbn [m_fn f_stmts set_stmts set_globals].
  apply Forall_app. split.
  - eapply Forall_impl; [|exact Hs]. intros x [H1 H2]. split; [exact H1 | lia].
  - constructor; [split; [reflexivity | cbn [pos_of]; lia] | constructor].
Qed.
Lemma sinv_add_jump m jp je : sinv jp m -> sinv (jp + 3) (add_stmt m jp (Jump jp je)).
Proof.
  intros Hs. unfold sinv, add_stmt. cbn [m_fn f_stmts set_stmts]. apply Forall_app. split.
  - eapply Forall_impl; [|exact Hs]. intros x [H1 H2]. split; [exact H1 | lia].
  - constructor; [split; [reflexivity | cbn [pos_of]; lia] | constructor].
Qed.
Lemma sinv_after_s en props pc s m : sinv pc m -> sinv (pc + zlen (compile_s s)) (after_s en props pc s m).
Proof.
  intros Hs. unfold sinv, after_s. cbn [m_fn f_stmts]. pose proof (reify_s_pos en props pc s). apply Forall_app. split.
  - eapply Forall_impl; [|exact Hs]. intros x [H1 H2]. split; [exact H1 | lia].
  - constructor; [split; [apply plain_st_ok; apply reify_s_plain | lia] | constructor].
Qed.

Lemma filter_back pc (S0 B : list node) : Forall (fun st => pos_of st < pc) S0 -> Forall (fun st => pc <= pos_of st) B ->
  filter (fun st => pc <=? pos_of st) (S0 ++ B) = B.
Proof.
  intros H0 HB. rewrite filter_app.
  assert (E0 : filter (fun st => pc <=? pos_of st) S0 = []).
  { induction H0 as [|x l Hx _ IH]; [reflexivity|]. cbn [filter]. replace (pc <=? pos_of x) with false by (symmetry; apply Z.leb_gt; lia). exact IH. }
  assert (EB : filter (fun st => pc <=? pos_of st) B = B).
  { induction HB as [|x l Hx _ IH]; [reflexivity|]. cbn [filter]. replace (pc <=? pos_of x) with true by (symmetry; apply Z.leb_le; lia). rewrite IH. reflexivity. }
  rewrite E0, EB. reflexivity.
Qed.

Theorem exec_p wc en props : forall p, wf_p wc en p -> forall k, exits_ok k p ->
  forall d off len a fuel r m,
    agrees_p en props m -> m_stack m = [] -> sinv a m -> code_at d a (compile_p p) -> off <= a -> a + zlen (compile_p p) <= off + len ->
    exists r', run_ops (ninstr_p p + fuel) d off len a r m
               = run_ops fuel d off len (a + zlen (compile_p p)) r' (after_p en props a p m).
Proof.
  induction p as [|s rest IH|c body IHa rest IHr|c body IHa ebody IHe rest IHr|c body IHa rest IHr|xoff rest IH]; intros Hwf k Hxk d off len a fuel r m Hag Hst Hsi Hc Hoff Hlen; cbn [exits_ok] in Hxk.
  - exists r. cbn [ninstr_p compile_p after_p Nat.add]. rewrite zlen_nil, Z.add_0_r. reflexivity.
  - destruct Hwf as [Hs Hr]. cbn [compile_p ninstr_p after_p] in *. rewrite zlen_app in *.
    apply code_at_app in Hc. destruct Hc as [Hcs Hcr].
    pose proof (zlen_nonneg (compile_s s)). pose proof (zlen_nonneg (compile_p rest)).
    replace (ninstr_s s + ninstr_p rest + fuel)%nat with (ninstr_s s + (ninstr_p rest + fuel))%nat by lia.
    destruct (exec_s en props s Hs d off len a (ninstr_p rest + fuel)%nat r m Hag Hst Hcs ltac:(lia) ltac:(lia)) as [r1 E1]. rewrite E1.
    destruct (IH Hr k Hxk d off len (a + zlen (compile_s s)) fuel r1 (after_s en props a s m) (agrees_after_s _ _ _ _ _ Hag)
                 (eq_trans (after_s_stack _ _ _ _ _) Hst) (sinv_after_s en props a s m Hsi) Hcr ltac:(lia) ltac:(lia)) as [r2 E2].
    rewrite E2. exists r2. f_equal. lia.
  - destruct Hwf as (Hwc & Hne & Hsz & Hwa & Hwr). cbn [compile_p ninstr_p after_p] in *.
    rewrite !zlen_app in *. change (zlen (jz (3 + zlen (compile_p body)))) with 3 in *.
    apply code_at_app in Hc. destruct Hc as [Hcc Hc]. apply code_at_app in Hc. destruct Hc as [Hcj Hc].
    apply code_at_app in Hc. destruct Hc as [Hca Hcr]. change (zlen (jz (3 + zlen (compile_p body)))) with 3 in *.
    pose proof (zlen_nonneg (compile_e c)). pose proof (zlen_nonneg (compile_p body)). pose proof (zlen_nonneg (compile_p rest)).
    set (pj := a + zlen (compile_e c)) in *. set (ea := pj + 3 + zlen (compile_p body)).
    replace (ninstr c + (1 + (ninstr_p body + ninstr_p rest)) + fuel)%nat
      with (ninstr c + (1 + (ninstr_p body + (ninstr_p rest + fuel))))%nat by lia.
    destruct Hag as [Hag0 Hpr].
    destruct (exec_e en c Hwc d off len a (1 + (ninstr_p body + (ninstr_p rest + fuel)))%nat r m Hag0 Hcc ltac:(lia) ltac:(lia)) as [r1 E1].
    rewrite E1. fold pj.
    set (m1 := after_e en a c m).
    set (m2 := add_stmt (with_stack m1 (m_stack m)) pj (Jz pj (reify_e en a c) ea)).
    assert (Hs : exists r', step d pj r1 m1 = Ok (pj + 3, r', m2)).
    { apply (step_3 d pj r1 m1 (b 149) (b ((3 + zlen (compile_p body)) / 256)) (b (3 + zlen (compile_p body)))
                    "ConditionalJumpOpcode" "" OCondJump m2 Hcj); [vm_compute; reflexivity | reflexivity |].
      cbn [process]. unfold pop. subst m1. rewrite after_e_stack. cbn [bind]. f_equal. subst m2.
      rewrite u8_jz_bytes by lia. unfold add_stmt, with_stack. cbn [m_stack m_fn m_ctx].
      replace (pj + (3 + zlen (compile_p body))) with ea by (subst ea; lia).
      destruct m as [st fn cx]. reflexivity. }
    destruct Hs as [r2 Hs]. cbn [Nat.add]. erewrite run_ops_step; [| subst pj; lia | exact Hs].
    assert (Hag2 : agrees_p en props m2) by (apply agrees_p_jz; split; assumption).
    assert (Hst2 : m_stack m2 = []) by (subst m2; cbn; exact Hst).
    assert (Hsi2 : sinv (pj + 3) m2) by (apply sinv_add_jz; [exact Hsi | subst pj; lia]).
    destruct (IHa Hwa _ (proj1 Hxk) d off len (pj + 3) (ninstr_p rest + fuel)%nat r2 m2 Hag2 Hst2 Hsi2) as [r3 E3];
      [replace (pj + 3) with (a + zlen (compile_e c) + 3) by (subst pj; lia); exact Hca | subst pj; lia | subst pj; lia |].
    rewrite E3.
    destruct (after_p_facts en props body (pj + 3) m2 Hag2) as (A1 & A2 & _).
    destruct (IHr Hwr _ (proj2 Hxk) d off len (pj + 3 + zlen (compile_p body)) fuel r3 (after_p en props (pj + 3) body m2) A1 (eq_trans A2 Hst2)
                  (sinv_after wc en props body (pj + 3) m2 _ Hwa (proj1 Hxk) Hag2 Hsi2)) as [r4 E4];
      [replace (pj + 3 + zlen (compile_p body)) with (a + zlen (compile_e c) + 3 + zlen (compile_p body)) by (subst pj; lia); exact Hcr
      | subst pj; lia | subst pj; lia |].
    rewrite E4. exists r4. f_equal. subst pj. lia.
  - (* if-else *)
    destruct Hwf as (Hwc & Hne & Hne' & Hsz & Hsz' & Hwa & Hwe & Hwr). cbn [compile_p ninstr_p after_p] in *.
    rewrite !zlen_app in *.
    change (zlen (jz (3 + zlen (compile_p body) + 3))) with 3 in *. change (zlen (jmp (3 + zlen (compile_p ebody)))) with 3 in *.
    apply code_at_app in Hc. destruct Hc as [Hcc Hc]. apply code_at_app in Hc. destruct Hc as [Hcj Hc].
    apply code_at_app in Hc. destruct Hc as [Hca Hc]. apply code_at_app in Hc. destruct Hc as [Hcm Hc].
    apply code_at_app in Hc. destruct Hc as [Hce Hcr].
    change (zlen (jz (3 + zlen (compile_p body) + 3))) with 3 in *. change (zlen (jmp (3 + zlen (compile_p ebody)))) with 3 in *.
    pose proof (zlen_nonneg (compile_e c)). pose proof (zlen_nonneg (compile_p body)). pose proof (zlen_nonneg (compile_p ebody)).
    pose proof (zlen_nonneg (compile_p rest)).
    set (pj := a + zlen (compile_e c)) in *. set (jp := pj + 3 + zlen (compile_p body)). set (je := jp + 3 + zlen (compile_p ebody)).
    replace (ninstr c + (1 + (ninstr_p body + (1 + (ninstr_p ebody + ninstr_p rest)))) + fuel)%nat
      with (ninstr c + (1 + (ninstr_p body + (1 + (ninstr_p ebody + (ninstr_p rest + fuel))))))%nat by lia.
    destruct Hag as [Hag0 Hpr].
    destruct (exec_e en c Hwc d off len a (1 + (ninstr_p body + (1 + (ninstr_p ebody + (ninstr_p rest + fuel)))))%nat r m Hag0 Hcc ltac:(lia) ltac:(lia)) as [r1 E1].
    rewrite E1. fold pj.
    set (m1 := after_e en a c m).
    set (m2 := add_stmt (with_stack m1 (m_stack m)) pj (Jz pj (reify_e en a c) (jp + 3))).
    assert (Hs : exists r', step d pj r1 m1 = Ok (pj + 3, r', m2)).
    { apply (step_3 d pj r1 m1 (b 149) (b ((3 + zlen (compile_p body) + 3) / 256)) (b (3 + zlen (compile_p body) + 3))
                    "ConditionalJumpOpcode" "" OCondJump m2 Hcj); [vm_compute; reflexivity | reflexivity |].
      cbn [process]. unfold pop. subst m1. rewrite after_e_stack. cbn [bind]. f_equal. subst m2.
      rewrite u8_jz_bytes by lia. unfold add_stmt, with_stack. cbn [m_stack m_fn m_ctx].
      replace (pj + (3 + zlen (compile_p body) + 3)) with (jp + 3) by (subst jp; lia).
      destruct m as [st fn cx]. reflexivity. }
    destruct Hs as [r2 Hs]. rewrite Nat.add_1_l. erewrite run_ops_step; [| subst pj; lia | exact Hs].
    assert (Hag2 : agrees_p en props m2) by (apply agrees_p_jz; split; assumption).
    assert (Hst2 : m_stack m2 = []) by (subst m2; cbn; exact Hst).
    assert (Hsi2 : sinv (pj + 3) m2) by (apply sinv_add_jz; [exact Hsi | subst pj; lia]).
    destruct (IHa Hwa _ (proj1 Hxk) d off len (pj + 3) (1 + (ninstr_p ebody + (ninstr_p rest + fuel)))%nat r2 m2 Hag2 Hst2 Hsi2) as [r3 E3];
      [replace (pj + 3) with (a + zlen (compile_e c) + 3) by (subst pj; lia); exact Hca | subst pj; lia | subst pj; lia |].
    rewrite E3. fold jp.
    destruct (after_p_facts en props body (pj + 3) m2 Hag2) as (A1 & A2 & _).
    set (ma := after_p en props (pj + 3) body m2) in *.
    set (m3 := add_stmt ma jp (Jump jp je)).
    assert (Hs2 : exists r', step d jp r3 ma = Ok (jp + 3, r', m3)).
    { apply (step_3 d jp r3 ma (b 147) (b ((3 + zlen (compile_p ebody)) / 256)) (b (3 + zlen (compile_p ebody)))
                    "FowardJumpOpcode" "" OFwdJump m3);
        [replace jp with (a + zlen (compile_e c) + 3 + zlen (compile_p body)) by (subst jp pj; lia); exact Hcm
        | vm_compute; reflexivity | reflexivity |].
      cbn [process]. f_equal. subst m3. rewrite u8_jz_bytes by lia.
      replace (jp + (3 + zlen (compile_p ebody))) with je by (subst je; lia). reflexivity. }
    destruct Hs2 as [r4 Hs2]. rewrite Nat.add_1_l. erewrite run_ops_step; [| subst jp pj; lia | exact Hs2].
    assert (Hag3 : agrees_p en props m3) by (apply agrees_add_stmt; exact A1).
    assert (Hst3 : m_stack m3 = []) by (subst m3; cbn [add_stmt m_stack]; rewrite A2; exact Hst2).
    assert (Hsi3 : sinv (jp + 3) m3) by (subst m3; apply sinv_add_jump; subst ma jp; apply (sinv_after wc en props body (pj + 3) m2 _ Hwa (proj1 Hxk) Hag2 Hsi2)).
    destruct (IHe Hwe _ (proj1 (proj2 Hxk)) d off len (jp + 3) (ninstr_p rest + fuel)%nat r4 m3 Hag3 Hst3 Hsi3) as [r5 E5];
      [replace (jp + 3) with (a + zlen (compile_e c) + 3 + zlen (compile_p body) + 3) by (subst jp pj; lia); exact Hce
      | subst jp pj; lia | subst jp pj; lia |].
    rewrite E5.
    destruct (after_p_facts en props ebody (jp + 3) m3 Hag3) as (B1 & B2 & _).
    destruct (IHr Hwr _ (proj2 (proj2 Hxk)) d off len (jp + 3 + zlen (compile_p ebody)) fuel r5 (after_p en props (jp + 3) ebody m3) B1 (eq_trans B2 Hst3)
                  (sinv_after wc en props ebody (jp + 3) m3 _ Hwe (proj1 (proj2 Hxk)) Hag3 Hsi3)) as [r6 E6];
      [replace (jp + 3 + zlen (compile_p ebody)) with (a + zlen (compile_e c) + 3 + zlen (compile_p body) + 3 + zlen (compile_p ebody)) by (subst jp pj; lia); exact Hcr
      | subst jp pj; lia | subst jp pj; lia |].
    rewrite E6. exists r6. f_equal. subst jp pj. lia.
  - (* repeat while *)
    destruct Hwf as (Hwc & Hcond & Hsz & Hwa & Hwr). cbn [compile_p ninstr_p after_p] in *.
    rewrite !zlen_app in *. change (zlen (jz (3 + zlen (compile_p body) + 2))) with 3 in *.
    rewrite zlen_cons, zlen_cons, zlen_nil in *.
    apply code_at_app in Hc. destruct Hc as [Hcc Hc]. apply code_at_app in Hc. destruct Hc as [Hcj Hc].
    apply code_at_app in Hc. destruct Hc as [Hca Hc]. apply code_at_app in Hc. destruct Hc as [Hcb Hcr].
    change (zlen (jz (3 + zlen (compile_p body) + 2))) with 3 in *. rewrite zlen_cons, zlen_cons, zlen_nil in Hcr.
    pose proof (zlen_nonneg (compile_e c)). pose proof (zlen_nonneg (compile_p body)). pose proof (zlen_nonneg (compile_p rest)).
    set (pj := a + zlen (compile_e c)) in *. set (pe := pj + 3 + zlen (compile_p body)).
    replace (ninstr c + (1 + (ninstr_p body + (1 + ninstr_p rest))) + fuel)%nat
      with (ninstr c + (1 + (ninstr_p body + (1 + (ninstr_p rest + fuel)))))%nat by lia.
    destruct Hag as [Hag0 Hpr].
    destruct (exec_e en c Hwc d off len a (1 + (ninstr_p body + (1 + (ninstr_p rest + fuel))))%nat r m Hag0 Hcc ltac:(lia) ltac:(lia)) as [r1 E1].
    rewrite E1. fold pj.
    set (m1 := after_e en a c m).
    set (m2 := add_stmt (with_stack m1 (m_stack m)) pj (Jz pj (reify_e en a c) (pe + 2))).
    assert (Hs : exists r', step d pj r1 m1 = Ok (pj + 3, r', m2)).
    { apply (step_3 d pj r1 m1 (b 149) (b ((3 + zlen (compile_p body) + 2) / 256)) (b (3 + zlen (compile_p body) + 2))
                    "ConditionalJumpOpcode" "" OCondJump m2 Hcj); [vm_compute; reflexivity | reflexivity |].
      cbn [process]. unfold pop. subst m1. rewrite after_e_stack. cbn [bind]. f_equal. subst m2.
      rewrite u8_jz_bytes by lia. unfold add_stmt, with_stack. cbn [m_stack m_fn m_ctx].
      replace (pj + (3 + zlen (compile_p body) + 2)) with (pe + 2) by (subst pe; lia).
      destruct m as [st fn cx]. reflexivity. }
    destruct Hs as [r2 Hs]. rewrite Nat.add_1_l. erewrite run_ops_step; [| subst pj; lia | exact Hs].
    assert (Hag2 : agrees_p en props m2) by (apply agrees_p_jz; split; assumption).
    assert (Hst2 : m_stack m2 = []) by (subst m2; cbn; exact Hst).
    assert (Hsi2 : sinv (pj + 3) m2) by (apply sinv_add_jz; [exact Hsi | subst pj; lia]).
    destruct (IHa Hwa _ (proj1 Hxk) d off len (pj + 3) (1 + (ninstr_p rest + fuel))%nat r2 m2 Hag2 Hst2 Hsi2) as [r3 E3];
      [replace (pj + 3) with (a + zlen (compile_e c) + 3) by (subst pj; lia); exact Hca | subst pj; lia | subst pj; lia |].
    rewrite E3. fold pe.
    destruct (after_p_facts en props body (pj + 3) m2 Hag2) as (A1 & A2 & A3).
    set (m3 := after_p en props (pj + 3) body m2) in *.
    set (L := loop_stmt a pe (true_at a) (Stmt pj (Jz pj (reify_e en a c) (pe + 2)) :: flats (items en props (pj + 3) body))).
    set (m4 := Build_mstate (m_stack m3) (set_stmts (m_fn m3) (f_stmts (m_fn m) ++ [L])) (m_ctx m3)).
    (* the backward jump gathers the statements of the loop *)
    assert (Hs2 : exists r', step d pe r3 m3 = Ok (pe + 2, r', m4)).
    { apply (step_2 d pe r3 m3 (b 84) (b (zlen (compile_e c) + 3 + zlen (compile_p body))) "JumpOpcode" "" OJump m4);
        [replace pe with (a + zlen (compile_e c) + 3 + zlen (compile_p body)) by (subst pe pj; lia); exact Hcb
        | vm_compute; reflexivity | reflexivity |].
      intros p2. cbn [process]. rewrite u8_b by lia.
      replace (pe - (zlen (compile_e c) + 3 + zlen (compile_p body))) with a by (subst pe pj; lia).
      assert (Est : f_stmts (m_fn m3) = f_stmts (m_fn m) ++ (Stmt pj (Jz pj (reify_e en a c) (pe + 2)) :: flats (items en props (pj + 3) body))).
      { rewrite A3. subst m2. unfold add_stmt, with_stack, after_e, push, with_globals. cbn [m_fn f_stmts set_stmts set_globals].
        rewrite <- app_assoc. reflexivity. }
      rewrite Est.
      assert (HB : Forall (fun st => st_ok st = true /\ a <= pos_of st) (Stmt pj (Jz pj (reify_e en a c) (pe + 2)) :: flats (items en props (pj + 3) body))).
      { constructor; [split; [reflexivity | cbn [pos_of]; subst pj; lia]|].
        eapply Forall_impl; [|exact (flats_within _ _ _ (items_wp wc en props body (pj + 3) _ Hwa (proj1 Hxk)))]. intros x (Hx1 & Hx2 & _). split; [exact Hx1 | subst pj; lia]. }
      rewrite (filter_back a (f_stmts (m_fn m)) _ ltac:(eapply Forall_impl; [|exact Hsi]; intros x [_ Hx]; exact Hx)
                           ltac:(eapply Forall_impl; [|exact HB]; intros x [_ Hx]; exact Hx)).
      pose proof (remove_all_block (wc:=wc) (f_stmts (m_fn m)) (Stmt pj (Jz pj (reify_e en a c) (pe + 2)) :: flats (items en props (pj + 3) body)) [] a Hsi HB) as Er.
      rewrite !app_nil_r in Er. rewrite Er. cbn [bind]. reflexivity. }
    destruct Hs2 as [r4 Hs2]. rewrite Nat.add_1_l. erewrite run_ops_step; [| subst pe pj; lia | exact Hs2].
    assert (Hag4 : agrees_p en props m4).
    { subst m4. destruct A1 as [Ha Hb]. split; [|exact Hb]. unfold agrees in *. destruct m3 as [st3 fn3 cx3]. cbn in *. exact Ha. }
    assert (Hst4 : m_stack m4 = []) by (subst m4; cbn [m_stack]; rewrite A2; exact Hst2).
    assert (Hsi4 : sinv (pe + 2) m4).
    { subst m4. unfold sinv. cbn [m_fn f_stmts set_stmts]. apply Forall_app. split.
      - eapply Forall_impl; [|exact Hsi]. intros x [Hx1 Hx2]. split; [exact Hx1 | subst pe pj; lia].
      - constructor; [split; [reflexivity | cbn [pos_of L loop_stmt]; lia] | constructor]. }
    destruct (IHr Hwr _ (proj2 Hxk) d off len (pe + 2) fuel r4 m4 Hag4 Hst4 Hsi4) as [r5 E5];
      [replace (pe + 2) with (a + zlen (compile_e c) + 3 + zlen (compile_p body) + (1 + (1 + 0))) by (subst pe pj; lia); exact Hcr
      | subst pe pj; lia | subst pe pj; lia |].
    rewrite E5. exists r5. f_equal. subst pe pj. lia.
  - (* exit repeat: a forward jump *)
    destruct Hwf as [Hoffr Hwr]. cbn [compile_p ninstr_p after_p] in *. rewrite zlen_app in *. change (zlen (jmp xoff)) with 3 in *.
    apply code_at_app in Hc. destruct Hc as [Hcm Hcr]. change (zlen (jmp xoff)) with 3 in Hcr.
    pose proof (zlen_nonneg (compile_p rest)).
    set (m1 := add_stmt m a (Jump a (a + xoff))).
    assert (Hs : exists r', step d a r m = Ok (a + 3, r', m1)).
    { apply (step_3 d a r m (b 147) (b (xoff / 256)) (b xoff) "FowardJumpOpcode" "" OFwdJump m1 Hcm); [vm_compute; reflexivity | reflexivity |].
      cbn [process]. f_equal. subst m1. rewrite u8_jz_bytes by lia. reflexivity. }
    destruct Hs as [r1 Hs]. cbn [Nat.add]. erewrite run_ops_step; [| lia | exact Hs].
    assert (Hag1 : agrees_p en props m1) by (apply agrees_add_stmt; exact Hag).
    assert (Hst1 : m_stack m1 = []) by (subst m1; cbn [add_stmt m_stack]; exact Hst).
    assert (Hsi1 : sinv (a + 3) m1) by (subst m1; apply sinv_add_jump; exact Hsi).
    destruct (IH Hwr _ (proj2 Hxk) d off len (a + 3) fuel r1 m1 Hag1 Hst1 Hsi1 Hcr ltac:(lia) ltac:(lia)) as [r2 E2].
    rewrite E2. exists r2. f_equal. lia.
Qed.

(* ---- a whole handler: any nest of ifs over straight-line statements is rebuilt ---- *)
Theorem nest_handler en props p d off fuel r m :
  wf_p wcond_ok en p -> exits_ok None p -> agrees_p en props m -> m_stack m = [] -> f_stmts (m_fn m) = [] ->
  code_at d off (compile_p p ++ [b 1]) ->
  let pexit := off + zlen (compile_p p) in
  let exit_st := Stmt pexit (Call "exit" pexit None true false false) in
  exists r' m',
    run_ops (ninstr_p p + (1 + fuel)) d off (zlen (compile_p p ++ [b 1])) off r m = Ok (r', m') /\
    f_stmts (m_fn m') = flats (items en props off p) ++ [exit_st] /\
    detect (f_stmts (m_fn m')) = Ok (rebuilt en props off p ++ [exit_st]).
Proof.
  intros Hwf Hxk Hag Hst Hnil Hc pexit exit_st. rewrite zlen_app, zlen_cons, zlen_nil in *.
  apply code_at_app in Hc. destruct Hc as [Hcb Hce]. pose proof (zlen_nonneg (compile_p p)).
  assert (Hsi : sinv off m) by (unfold sinv; rewrite Hnil; constructor).
  destruct (exec_p wcond_ok en props p Hwf None Hxk d off (zlen (compile_p p) + (1 + 0)) off (1 + fuel)%nat r m Hag Hst Hsi Hcb ltac:(lia) ltac:(lia)) as [r1 E1].
  rewrite E1. set (m1 := after_p en props off p m).
  assert (Hs : step d pexit r1 m1 = Ok (pexit + 1, r1, add_stmt m1 pexit (Call "exit" pexit None true false false))).
  { apply (step_1 d pexit r1 m1 (b 1) "ExitOpcode" "" OExit _ Hce); [vm_compute; reflexivity | reflexivity | intros; reflexivity]. }
  cbn [Nat.add]. erewrite run_ops_step; [| subst pexit; lia | exact Hs].
  rewrite run_ops_end by (subst pexit; lia).
  eexists; eexists; split; [reflexivity|].
  destruct (after_p_facts en props p off m Hag) as (_ & _ & Hsts).
  assert (Hf : f_stmts (m_fn (add_stmt m1 pexit (Call "exit" pexit None true false false))) = flats (items en props off p) ++ [exit_st]).
  { unfold add_stmt. cbn [m_fn f_stmts set_stmts]. subst m1. rewrite Hsts, Hnil. reflexivity. }
  split; [exact Hf|]. rewrite Hf.
  (* the exit statement is one more plain item *)
  assert (Hwp : wpw off (pexit + 1) (items en props off p ++ [IPlain exit_st])).
  { apply (wp_app off pexit); [apply (items_wp _ _ _ _ _ None); [exact Hwf | exact Hxk]|].
    apply wp_plain; [reflexivity | cbn [pos_of exit_st]; lia | apply wp_nil; cbn [pos_of exit_st]; lia]. }
  assert (Hxd : exits_done (items en props off p ++ [IPlain exit_st]) = true)
    by (rewrite exits_done_app, (items_exits_done en props p off Hxk); reflexivity).
  pose proof (detect_nest _ _ _ Hwp Hxd) as Hd. rewrite flats_app, fins_app in Hd. cbn [flats flat_i fins fin_i app] in Hd.
  exact Hd.
Qed.
Print Assumptions nest_handler.
